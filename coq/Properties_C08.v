(* Properties_C08.v — C08: JSON/XML output is standard-conformant; standard renderings load identically.
   Statements only.  Level: PARTIAL.  What is proved here is (1) the reference syntax used on every run as the
   independent standard parser (JxJsonSpec.v from RFC 8259, JxXmlSpec.v from XML 1.0) and (2) facts about a
   hand-written model of the adapter logic of rapidjson_archive.h / pugixml_archive.h (JxModel.v).  RapidJSON and
   pugixml are neither modelled nor proved: their behaviour is validated document by document by props/C08.py.

   NOT PROVED (checked by the run only, or not at all):
   - T_C08_load_invariant as ONE statement over all free choices of a rendering (proved separately: member order at
     every depth for every target type, T_C08_load_member_order_any; numeric spelling per number; white space and
     string spellings do not reach the DOM by T_C08_json_accepts_exactly, for the reference parser, not for RapidJSON);
   - anything about white space / escapes / character references / encodings at load time (third-party parsers):
     validated by the re-rendering loop; T_C08_options_passed / T_C08_xml_options_passed cover what the adapters configure
     (JSON: writer, indent, UTF type, BOM; XML: pugixml's save flags, indent string, encoding) composed with a stated
     meaning of those settings; that RapidJSON / pugixml give them that meaning is observed: every produced document is
     decoded per configuration and every pretty document is checked for the configured padding character and count per
     nesting level;
   - the XML adapter's load / save model has its round-trip theorems in Properties_C01jx.v (here: its options, detection and
     stream round trip, T_C08_xml_options_passed and the T_C08_xml_stream_ theorems);
   - validation error paths: xml_node::path() of pugixml (third party) is taken to be the names of the ancestor-or-self
     elements, a separator before each (x_render); the run compares every reported XML path with that.  For XML there is
     no standard to compare the paths with (T_C08_paths_xml_example shows what they cannot tell apart). *)
From BS Require Import Base UtfSpec UtfModel JxJsonSpec JxJsonProofs JxJsonSound JxXmlSpec JxXmlProofs JxXmlSound JxModel JxProofs JxMemberOrder
  JxPathModel JxPathProofs JxXmlOptions JxDetect JxDetectProofs JxXmlDetect JxXmlDetectProofs.
From Coq Require Import Permutation.
Local Open Scope N_scope.

(* ---------------------------------------------------------------- reference syntax: JSON *)

(* the parser reads back exactly the DOM that was printed: every well-formed DOM (scalar-valued strings and names,
   number lexemes of the RFC grammar), any nesting; byte level = UTF-8 *)
Theorem T_C08_json_parse_print : forall d, jwf d -> json_parse (json_print d) = JOk d.
Proof. exact json_parse_print. Qed.
Print Assumptions T_C08_json_parse_print.

(* any RFC 8259 white space (space, tab, LF, CR) before, between and after the tokens of a document does not change
   what is parsed *)
Theorem T_C08_json_ws_invariance : forall d ws0 tws, jwf d -> map fst tws = tokens_of d ->
  forallb is_ws ws0 = true -> forallb (fun tw => forallb is_ws (snd tw)) tws = true ->
  json_parse (encs W8 (render_ws ws0 tws)) = JOk d /\ json_parse (json_print d) = JOk d.
Proof. exact json_ws_invariance. Qed.
Print Assumptions T_C08_json_ws_invariance.

(* the parser is total: it never runs out of fuel, on any input *)
Theorem T_C08_json_parser_total : (forall s, json_parse_cps s <> JFuel) /\
  (forall bytes, Forall (fun b => b < 256) bytes -> json_parse bytes <> JFuel).
Proof. split; [exact json_parse_cps_total | exact json_parse_total]. Qed.
Print Assumptions T_C08_json_parser_total.

(* The parser accepts exactly the RFC 8259 texts, and returns the DOM they denote.  `renders s d` (JxJsonSound.v) is
   the generative description, with no reference to the parser: s is the token sequence of d (structural characters,
   the three literal names, strings, numbers; tokens_of), where
     - any number of the four white space characters may stand before, between and after the tokens (jt_ws);
     - a string is a quotation mark, for every code point of the value one of its spellings, a quotation mark; the
       spellings (cp_spells) are: itself when it is a Unicode scalar value >= U+0020 other than the quotation mark and
       the reverse solidus; a two-character escape (the eight of section 7, the solidus among them); \uXXXX with four
       hex digits of either case for a non-surrogate value; a \uD8xx\uDCxx pair for a supplementary code point;
     - a number is its own lexeme (the DOM carries it) and the lexeme is of the RFC number grammar (num_ok);
     - the literal names and structural characters have one spelling each.
   Both directions, at the code point level and for bytes (strict UTF-8: utf8_decode is the decoder of the UTF family).
   Consequently nothing else is accepted: no trailing comma, no leading zero, no lone surrogate escape, no raw control
   character, no second value (every such text has no `renders` derivation). *)
Theorem T_C08_json_accepts_exactly :
  (forall s d, json_parse_cps s = JOk d <-> renders s d) /\
  (forall bytes d, json_parse bytes = JOk d <-> exists cps, utf8_decode bytes = Some (Some cps) /\ renders cps d).
Proof. split; [exact json_cps_exact | exact json_parse_exact]. Qed.
Print Assumptions T_C08_json_accepts_exactly.

(* every DOM that has a rendering (hence every DOM the parser returns) is well-formed: strings and names consist of
   Unicode scalar values, numbers are RFC lexemes; and every well-formed DOM has one (its compact print) *)
Theorem T_C08_json_renderings_wf : (forall s d, renders s d -> jwf d) /\ (forall d, jwf d -> renders (json_print_cps d) d).
Proof. split; [exact renders_wf | intros d H; apply json_cps_sound, json_cps_parse_print; exact H]. Qed.
Print Assumptions T_C08_json_renderings_wf.

(* one rendering using every free choice: white space in each position, the four spellings, hex digits of both cases *)
Example T_C08_json_renders_example :
  renders ([32; 123; 10; 34; 97; 92; 47; 92; 117; 48; 48; 69; 57; 92; 117; 100; 56; 51; 68; 92; 117; 68; 69; 48; 48; 34; 9; 58; 13; 91;
            49; 46; 48; 101; 43; 50; 32; 44; 116; 114; 117; 101; 93; 32; 125; 10])
          (JObj [([97; 47; 233; 128512], JArr [JNum [49; 46; 48; 101; 43; 50]; JBool true])]).
Proof. exact renders_example. Qed.
Print Assumptions T_C08_json_renders_example.

Example T_C08_json_example :
  json_parse_cps [32; 123; 34; 97; 34; 32; 58; 91; 49; 46; 53; 101; 51; 44; 34; 92; 117; 100; 56; 51; 100; 92; 117; 100; 101; 48; 48; 92; 110; 34; 93; 125; 10] =
    JOk (JObj [([97], JArr [JNum [49; 46; 53; 101; 51]; JStr [128512; 10]])]) /\
  json_parse_cps [34; 92; 117; 100; 56; 51; 100; 34] = JErr /\ json_parse_cps [48; 49] = JErr /\ json_parse_cps [91; 49; 44; 93] = JErr /\
  num_same_value [49; 48; 48] [49; 101; 50] = true /\ num_same_value [49; 46; 48] [49; 46; 49] = false.
Proof. repeat split; reflexivity. Qed.
Print Assumptions T_C08_json_example.

(* ---------------------------------------------------------------- reference syntax: XML *)

Theorem T_C08_xml_parse_print : forall x, xwf x -> xml_parse (xml_print x) = XOk x.
Proof. exact xml_parse_print. Qed.
Print Assumptions T_C08_xml_parse_print.

Theorem T_C08_xml_parser_total : (forall s, xml_parse_cps s <> XFuel) /\
  (forall bytes, Forall (fun b => b < 256) bytes -> xml_parse bytes <> XFuel).
Proof. split; [exact xml_parse_cps_total | exact xml_parse_total]. Qed.
Print Assumptions T_C08_xml_parser_total.

(* The parser accepts exactly the texts described by `xrenders` (JxXmlSound.v), and returns the tree they denote.
   xrenders is generative, production by production, and mentions none of the parsing functions: after end-of-line
   normalisation (2.11) the text is an optional XML declaration (xmldecl_spells: pseudo-attributes with literal values)
   followed by markup and character data (xtext, indexed by the nesting depth): start-, end- and empty-element tags with
   attributes (either quote, white space where the grammar allows it, values normalised per 3.3.3, distinct names);
   inside an element character data with each character literal or as a predefined entity / decimal / hexadecimal
   character reference (never the three characters that close a CDATA section) and CDATA sections; outside the document
   element only literal white space; comments (no double hyphen) and processing instructions (target not xml in any
   case) anywhere; adjacent character data is one text (merge_txt); the tokens form the tree (xtoks: an element without
   children is a start/end pair or an empty-element tag).  Code points and bytes (strict UTF-8).  Outside the subset by
   design: DOCTYPE (hence other entities); a byte order mark is handled by the caller (the run strips it per configuration). *)
Theorem T_C08_xml_accepts_exactly :
  (forall s0 x, xml_parse_cps s0 = XOk x <-> xrenders (norm_eol s0) x) /\
  (forall bytes x, xml_parse bytes = XOk x <-> exists cps, utf8_decode bytes = Some (Some cps) /\ xrenders (norm_eol cps) x) /\
  (forall s x, xrenders s x -> xwf x).
Proof. split; [exact xml_cps_exact | split; [exact xml_parse_exact | exact xrenders_wf]]. Qed.
Print Assumptions T_C08_xml_accepts_exactly.

(* the subset is strict where an earlier version of this parser was wider than XML 1.0: white space around the document
   element only as literal S (Misc), not as a character reference or a CDATA section (also not an empty one), and no
   reference inside a value of the XML declaration (VersionNum, EncName, yes/no are literal).  The four texts
   &#32;<a/>,  <![CDATA[ ]]><a/>,  <a/><![CDATA[ ]]>,  <?xml version='&#49;.0'?><a/>  and  <![CDATA[]]><a/>  are rejected;
   literal white space, comments and processing instructions before and after the document element are accepted *)
Example T_C08_xml_strict_examples :
  xml_parse_cps [38; 35; 51; 50; 59; 60; 97; 47; 62] = XErr /\
  xml_parse_cps [60; 33; 91; 67; 68; 65; 84; 65; 91; 32; 93; 93; 62; 60; 97; 47; 62] = XErr /\
  xml_parse_cps [60; 97; 47; 62; 60; 33; 91; 67; 68; 65; 84; 65; 91; 32; 93; 93; 62] = XErr /\
  xml_parse_cps [60; 63; 120; 109; 108; 32; 118; 101; 114; 115; 105; 111; 110; 61; 39; 38; 35; 52; 57; 59; 46; 48; 39;
                 63; 62; 60; 97; 47; 62] = XErr /\
  xml_parse_cps [60; 33; 91; 67; 68; 65; 84; 65; 91; 93; 93; 62; 60; 97; 47; 62] = XErr /\
  xml_parse_cps [60; 63; 120; 109; 108; 32; 118; 101; 114; 115; 105; 111; 110; 61; 39; 49; 46; 48; 39; 63; 62;
                 32; 10; 60; 33; 45; 45; 32; 45; 45; 62; 60; 63; 112; 32; 120; 63; 62; 9; 60; 97; 47; 62; 10;
                 60; 33; 45; 45; 45; 45; 62; 60; 63; 112; 63; 62; 32; 10] = XOk (XElem [97] [] []).
Proof.
  exact (conj strict_prolog_reference (conj strict_prolog_cdata (conj strict_epilog_cdata (conj strict_decl_reference
           (conj strict_prolog_cdata_empty strict_misc_accepted))))).
Qed.
Print Assumptions T_C08_xml_strict_examples.

Example T_C08_xml_example :
  xml_parse_cps (xml_print_cps (XElem [97] [([98], [34; 60; 10; 38])] [XText [60; 38; 62; 13; 93; 93; 62]; XElem [99] [] []; XText [32]])) =
    XOk (XElem [97] [([98], [34; 60; 10; 38])] [XText [60; 38; 62; 13; 93; 93; 62]; XElem [99] [] []; XText [32]]) /\
  xml_parse_cps [60; 97; 62; 60; 98; 62; 60; 47; 97; 62] = XErr.
Proof. split; reflexivity. Qed.
Print Assumptions T_C08_xml_example.

(* ---------------------------------------------------------------- the adapter: Finalize() and a failing writer *)

(* full strength: whenever the RapidJSON writer fails on the DOM, Finalize() reports it (an exception) instead of handing
   out what was written so far.  Holds of the model of the current code (CheckWriterResult, commit e6b2746) *)
Theorem T_C08_finalize_checks_writer : forall d, finalize_reports finalize_json d.
Proof. exact finalize_checked_reports. Qed.
Print Assumptions T_C08_finalize_checks_writer.

(* vector<double>{1, NaN, 2}: an exception; for the record, the code before the repair (finding F26, fixed; the Accept
   result dropped: finalize_json_unchecked) handed out the three tokens "[", 1.0, "," *)
Example T_C08_finalize_example : finalize_json f26_witness = FError /\
  finalize_json_unchecked f26_witness = FDoc [WTok TLBrack; WDbl 0x3FF0000000000000; WTok TComma].
Proof. exact f26_document. Qed.
Print Assumptions T_C08_finalize_example.

(* ---------------------------------------------------------------- loading depends on the data model only *)

(* full strength would be: two documents that differ in numeric spelling of equal value load identically.  Refuted for
   every behaviour of the library's strtod: 1 and 1.0 into an int32 *)
Theorem T_C08_load_invariant_refuted : forall strtod i2d,
  exists l l' t, num_same_value l l' = true /\ load_number strtod i2d mkT t l <> load_number strtod i2d mkT t l'.
Proof. exact spelling_refuted. Qed.
Print Assumptions T_C08_load_invariant_refuted.

(* outside the defect class, a boolean (spelling_defect: the reader types the two spellings differently - one as a
   64-bit integer and one as a double, or as two doubles on which the library's strtod disagrees, or one is too big)
   they load identically into every target *)
Theorem T_C08_load_invariant_outside : forall strtod i2d o t l l',
  spelling_defect strtod l l' = false -> load_number strtod i2d o t l = load_number strtod i2d o t l'.
Proof. exact spelling_outside_b. Qed.
Print Assumptions T_C08_load_invariant_outside.

(* member order: exchanging two neighbouring members with different names (hence, by repetition, any reordering of
   members with distinct names) does not change what a class loads *)
Theorem T_C08_load_member_order : forall i2d o fields m1 a b m2, key_eqb (fst a) (fst b) = false ->
  load_json i2d o (TyObj fields) (RObj (m1 ++ a :: b :: m2)) = load_json i2d o (TyObj fields) (RObj (m1 ++ b :: a :: m2)).
Proof. exact load_class_member_order. Qed.
Print Assumptions T_C08_load_member_order.

(* Member order, in general.  `reordered d d'` (JxMemberOrder.v): d' is d with the members of any of its objects, at
   any depth, permuted (ro_obj: the member values reordered inside, then any Permutation of the members; ro_arr: item
   by item).  `members_distinct d`: no object of d has two members of the same name (with two, FindMember takes the
   first and the order does matter).  Then every target type of the model - classes, std::map, sequences, optionals and
   smart pointers, scalars, nested in any way - loads d and d' alike: the same value, or both raise; and when the
   target type contains no std::map (map_free) the outcomes are equal, error included.  For a std::map target the error
   may differ: the map is filled in document order (VisitKeys), so which of two failing members is met first depends on
   the order (second conjunct: a witness). *)
Theorem T_C08_load_member_order_any : forall i2d o t d d', reordered d d' -> members_distinct d = true ->
  osimb (map_free t) (load_json i2d o t d) (load_json i2d o t d') /\
  (map_free t = true -> load_json i2d o t d = load_json i2d o t d').
Proof.
  intros i2d o t d d' H Hd. split; [apply load_json_member_order; assumption | intros Hm; apply load_json_member_order_eq; assumption].
Qed.
Print Assumptions T_C08_load_member_order_any.

(* the reorderings include every permutation of the members of an object, and a reordering inside a member followed by
   a permutation; the old statement (two neighbours) is the instance reordered_swap *)
Theorem T_C08_reordered_permutations :
  (forall m m', Permutation m m' -> reordered (RObj m) (RObj m')) /\
  (forall m1 k x x' m2 m', reordered x x' -> Permutation (m1 ++ (k, x') :: m2) m' -> reordered (RObj (m1 ++ (k, x) :: m2)) (RObj m')) /\
  (forall l l', Forall2 reordered l l' -> reordered (RArr l) (RArr l')).
Proof. split; [exact reordered_perm | split; [exact reordered_inside | exact ro_arr]]. Qed.
Print Assumptions T_C08_reordered_permutations.

Example T_C08_load_member_order_example : forall i2d,
  (load_json i2d mkT (TyMap (TyInt U8)) (RObj [([97], RStr [120]); ([98], RInt 300)]) = Err EMismatch /\
   load_json i2d mkT (TyMap (TyInt U8)) (RObj [([98], RInt 300); ([97], RStr [120])]) = Err EOverflow) /\
  (let t := TyObj [([109], FElem, TyMap (TyObj [([120], FElem, TyInt I32); ([121], FElem, TyStr)])); ([110], FElem, TyBool)] in
   let d  := RObj [([109], RObj [([97], RObj [([120], RInt 1); ([121], RStr [117])]); ([98], RObj [([120], RInt 2); ([121], RStr [118])])]); ([110], RBool true)] in
   let d' := RObj [([110], RBool true); ([109], RObj [([98], RObj [([121], RStr [118]); ([120], RInt 2)]); ([97], RObj [([120], RInt 1); ([121], RStr [117])])])] in
   load_json i2d mkT t d = load_json i2d mkT t d' /\
   load_json i2d mkT t d = Ok (VObj [([109], VObj [([97], VObj [([120], VInt 1); ([121], VStr [117])]); ([98], VObj [([120], VInt 2); ([121], VStr [118])])]); ([110], VBool true)])).
Proof. intros i2d. split; [exact (map_error_depends_on_order i2d) | exact (member_order_example i2d)]. Qed.
Print Assumptions T_C08_load_member_order_example.

(* ---------------------------------------------------------------- validation error paths (GetPath of the scopes) *)

(* JxPathModel.v: vload_json is the load of a class with validators (Required, Range) as the archive performs it: the
   scopes (jscope: parent, parent key, for an array scope the cursor) are opened as rapidjson_archive.h opens them,
   jscope_path is RapidJsonScopeBase::GetPath / RapidJsonArrayScope::GetPath, a failing validator files its message
   under GetPath() + '/' + key (key_value_proxy.h), the result is the map of the ValidationException.
   vload_json_char is the same walk with the path computed from the LOCATION of the member (the list of names and
   zero-based indices that lead to it) by the explicit formula impl_pointer: every name verbatim after a separator,
   nothing at all for an empty name, every index plus one.
   For every target, every document, every nesting the two coincide: that formula is what the scopes report. *)
Theorem T_C08_paths_json_characterised : forall i2d o t d, vload_json i2d o t d = vload_json_char i2d o t d.
Proof. exact json_paths_characterised. Qed.
Print Assumptions T_C08_paths_json_characterised.

(* vload_json_spec: the same walk, each message filed under the JSON Pointer (RFC 6901: pointer; escapes ~0 ~1, zero
   based indices) of the failing member, which is what the library's documentation says a JSON path is.
   Outside the defect class - no sequence anywhere in the target (type_ok .. false), and only plain names (not empty,
   no '/' and no '~') in the classes of the target and in the document - the reported map is that one *)
Theorem T_C08_paths_json_rfc6901_outside : forall i2d o t d,
  type_ok plain_key false t = true -> doc_ok plain_key d = true -> vload_json i2d o t d = vload_json_spec i2d o t d.
Proof. exact json_paths_rfc6901_outside. Qed.
Print Assumptions T_C08_paths_json_rfc6901_outside.

(* inside the class the statement is false (findings J48, J49): items are numbered from one (the cursor of the array
   scope has already passed the item when the item's own scope is open): /2/v for /1/v; names are not escaped and an
   empty name on the way is dropped: /a/b, /dict/v, /m~n for /a~1b, /dict//v, /m~0n; hence two different failing
   members can be reported under one path (third conjunct: member v of the entry named "" and the entry named v) *)
Example T_C08_paths_json_refuted : forall i2d,
  (let d := RArr [RObj [([118], RInt 1)]; RObj [([118], RInt 10)]] in
   vload_json i2d o_skip (VVec v_leaf) d = VDone (Some VNull) [([47; 50; 47; 118], [MRange])] /\
   vload_json_spec i2d o_skip (VVec v_leaf) d = VDone (Some VNull) [([47; 49; 47; 118], [MRange])]) /\
  (let d := RObj [([108; 105; 115; 116], RArr []); ([97; 47; 98], RInt 10); ([109; 126; 110], RInt 10);
                  ([100; 105; 99; 116], RObj [([], RObj [([118], RInt 10)])])] in
   vload_json i2d o_skip v_mid d =
     VDone (Some VNull) [([47; 97; 47; 98], [MRange]); ([47; 100; 105; 99; 116; 47; 118], [MRange]); ([47; 109; 126; 110], [MRange])] /\
   vload_json_spec i2d o_skip v_mid d =
     VDone (Some VNull) [([47; 97; 126; 49; 98], [MRange]); ([47; 100; 105; 99; 116; 47; 47; 118], [MRange]); ([47; 109; 126; 48; 110], [MRange])]) /\
  vload_json i2d o_skip (VCls [([100], FElem, false, false, VMap v_leaf)])
    (RObj [([100], RObj [([], RObj [([118], RInt 10)]); ([118], RObj [([118], RInt 3); ([119], RInt 11)])])]) =
  VDone (Some VNull) [([47; 100; 47; 118], [MRange]); ([47; 100; 47; 118; 47; 119], [MRange])].
Proof.
  intros i2d. split; [exact (json_path_index_refuted i2d) | split; [exact (json_path_escape_refuted i2d) | exact (json_path_collision i2d)]].
Qed.
Print Assumptions T_C08_paths_json_refuted.

(* XML (vload_xml): the path is the names of the elements from the document element to the element that holds the
   field, then the key (x_render) - by construction of the model, compared with the implementation on every run.
   Items of a sequence are not told apart: two failing items share one path and their messages are merged *)
Example T_C08_paths_xml_example : forall xstrtod xstrtof,
  vload_xml xstrtod xstrtof o_skip (VVec v_leaf)
    (XElem [97; 114; 114; 97; 121] [] [XElem [111; 98; 106; 101; 99; 116] [] [XElem [118] [] [XText [49; 48]]];
                                       XElem [111; 98; 106; 101; 99; 116] [] [XElem [118] [] [XText [49; 49]]]]) =
  VDone (Some VNull) [([47; 97; 114; 114; 97; 121; 47; 111; 98; 106; 101; 99; 116; 47; 118], [MRange; MRange])].
Proof. exact xml_path_items_share. Qed.
Print Assumptions T_C08_paths_xml_example.

(* ---------------------------------------------------------------- the output options reach the writer *)

(* what the JSON archive configures from the options (json_writer: Writer / PrettyWriter + SetIndent, the UTF type and BOM flag
   of the AutoUTFOutputStream) yields, for every text, exactly what the options mean (spec_bytes: a string is UTF-8 without BOM
   whatever the stream options say; a stream is the text in the encoding scheme named by streamOptions.encoding, preceded by
   U+FEFF in that scheme iff writeBom), and paddingChar / paddingCharNum reach SetIndent unchanged iff enableFormat.
   rj_put is the (third-party, validated per document) behaviour of an AutoUTFOutputStream of a given UTF type *)
Theorem T_C08_options_passed : forall o cps,
  rj_put (json_writer o) cps = spec_bytes o cps /\ w_indent (json_writer o) = spec_indent o.
Proof. exact options_passed. Qed.
Print Assumptions T_C08_options_passed.

(* different encodings are never mapped to the same RapidJSON type *)
Theorem T_C08_options_utf_injective : forall a b, to_rapid_utf a = to_rapid_utf b -> a = b.
Proof. exact to_rapid_utf_injective. Qed.
Print Assumptions T_C08_options_utf_injective.

Example T_C08_options_example :
  rj_put (json_writer (mkSopts true Utf16be true true 32 2)) [91; 233; 0x1F600] = [0xFE; 0xFF; 0; 91; 0; 233; 0xD8; 0x3D; 0xDE; 0] /\
  rj_put (json_writer (mkSopts false Utf16be true false 9 1)) [91; 233] = [91; 0xC3; 0xA9] /\
  w_indent (json_writer (mkSopts true Utf8 false true 9 3)) = Some (9, 3).
Proof. exact options_example. Qed.
Print Assumptions T_C08_options_example.

(* the same for the XML archive (JxXmlOptions.v).  xml_writer: what PugiXmlRootScope::Finalize() passes to
   xml_document::save - format_indent or format_raw, the indent string string(paddingCharNum, paddingChar), format_write_bom
   and ToPugiUtfType(encoding) for a stream, encoding_utf8 and no BOM for a std::string.  px_put: the meaning pugixml
   documents for them (third party, observed per document): format_raw adds nothing, format_indent puts every element on
   its own line after depth copies of the indent string, character data stays on its element's line; the text is encoded
   in the chosen encoding after the encoding-specific BOM iff format_write_bom.  spec_xml_bytes: what the options mean -
   depth x paddingCharNum copies of paddingChar iff enableFormat, and spec_bytes as for JSON.  `tag` (how pugixml spells a
   tag and escapes text) is arbitrary.  Precondition of the archive (an assert): paddingCharNum >= 1 when enableFormat *)
Theorem T_C08_xml_options_passed : forall tag o root, px_put tag (xml_writer o) root = spec_xml_bytes tag o root.
Proof. exact xml_options_passed. Qed.
Print Assumptions T_C08_xml_options_passed.

Theorem T_C08_xml_options_utf_injective : forall a b, to_pugi_utf a = to_pugi_utf b -> a = b.
Proof. exact to_pugi_utf_injective. Qed.
Print Assumptions T_C08_xml_options_utf_injective.

(* the stated exception (finding J47): whatever the options, the document declares no encoding (the declaration is always
   <?xml version="1.0"?>), so by XML 1.0 4.3.3 the output is not self-describing exactly for a stream in UTF-16 / UTF-32
   written without a byte order mark *)
Theorem T_C08_xml_options_no_encoding_declaration : forall tag o root,
  xml_declared_encoding (px_doc tag (xml_writer o) root) = None /\
  (xml_self_describing o (match xml_declared_encoding (px_doc tag (xml_writer o) root) with Some _ => true | None => false end) = false <->
   so_stream o = true /\ so_enc o <> Utf8 /\ so_bom o = false).
Proof. intros tag o root. split; [apply xml_no_encoding_declared | apply xml_j47_exact]. Qed.
Print Assumptions T_C08_xml_options_no_encoding_declaration.

Example T_C08_xml_options_example :
  px_put xtok_text (xml_writer (mkSopts true Utf16be true true 9 2)) (XElem [97] [] [XElem [98] [] []]) =
    [0xFE; 0xFF] ++ units_bytes BE W16 (xml_decl_text ++ [10; 60; 97; 62; 10; 9; 9; 60; 98; 47; 62; 10; 60; 47; 97; 62; 10]) /\
  px_put xtok_text (xml_writer (mkSopts false Utf16be true false 9 2)) (XElem [97] [] [XElem [98] [] []]) =
    xml_decl_text ++ [60; 97; 62; 60; 98; 47; 62; 60; 47; 97; 62].
Proof. exact xml_options_example. Qed.
Print Assumptions T_C08_xml_options_example.

(* ---------------------------------------------------------------- reading a JSON stream: which encoding is it in *)

(* JxDetect.v: rj_detect is RapidJSON's AutoUTFInputStream::DetectType as a function of the first bytes (the five byte
   order marks, then the pattern of zero bytes of RFC 4627 section 3, nothing at all on fewer than four bytes: the default
   UTF-8); rj_read = detect, skip what detection consumed, decode strictly in the detected scheme.  Third party: the
   extracted rj_detect is what the model driver uses for every stream load of the run, and it is compared with the
   implementation on short and adversarial prefixes (m.detect).

   (a) with a byte order mark the encoding is always recognised and exactly the mark is consumed (a text never starts
       with U+0000) *)
Theorem T_C08_stream_detect_bom : forall t text, Forall scalar text -> match text with a :: _ => a <> 0 | [] => False end ->
  rj_detect (rj_bom t ++ rj_body t text) = (t, length (rj_bom t)).
Proof. exact detect_bom. Qed.
Print Assumptions T_C08_stream_detect_bom.

(* (b) without one, every text whose first two characters are ASCII (U+0001..U+007F) is recognised in all five encodings;
       UTF-8 is recognised for every text that does not itself begin with U+FEFF or contain U+0000 among its first two *)
Theorem T_C08_stream_detect_ascii : (forall t text, Forall scalar text -> ascii2 text = true -> rj_detect (rj_body t text) = (t, 0%nat)) /\
  (forall text, Forall scalar text -> utf8_ok text = true -> rj_detect (rj_body kUTF8 text) = (kUTF8, 0%nat)).
Proof. split; [exact detect_ascii2 | exact detect_utf8_nobom]. Qed.
Print Assumptions T_C08_stream_detect_ascii.

(* (c) the exact class for UTF-16 / UTF-32 without a BOM (finding J46; C01's F50), a boolean: recognised iff the first
       two characters (UTF-16) / the first character (UTF-32) exist and lie in U+0001..U+00FF (nobom_ok).  Outside it the
       stream is taken for something else: a one-character document in UTF-16 has two bytes and stays UTF-8; a character
       from U+0100 on among the first two (a root string of CJK text) breaks the zero pattern *)
Theorem T_C08_stream_detect_outside : forall t text, t <> kUTF8 -> Forall scalar text ->
  (rj_detect (rj_body t text) = (t, 0%nat) <-> nobom_ok t text = true).
Proof. exact detect_nobom_exact. Qed.
Print Assumptions T_C08_stream_detect_outside.

Example T_C08_stream_detect_refuted :
  rj_detect (rj_body kUTF16BE [49]) = (kUTF8, 0%nat) /\
  rj_detect (rj_body kUTF16LE [34; 0x4E2D; 34]) = (kUTF8, 0%nat) /\
  rj_detect (rj_body kUTF32BE [0x4E2D]) = (kUTF8, 0%nat) /\
  rj_read (rj_body kUTF16BE [49]) <> Some [49].
Proof. exact detect_refuted. Qed.
Print Assumptions T_C08_stream_detect_refuted.

(* (d) composed with T_C08_options_passed (rj_put (json_writer o) is the text in the configured scheme, U+FEFF first iff
       writeBom): what is written to a stream under options o is read back as the same text whenever a BOM is written or
       the text is in the class of (b)/(c) (stream_detectable, a boolean of options and text); in particular every text
       starting with two ASCII characters, hence every array or object document (json_print_cps; a pretty one starts
       with the bracket and a line feed), for all five encodings with and without BOM *)
Theorem T_C08_stream_roundtrip :
  (forall o cps, so_stream o = true -> Forall scalar cps -> match cps with a :: _ => a <> 0 | [] => False end ->
     stream_detectable o cps = true -> rj_read (rj_put (json_writer o) cps) = Some cps) /\
  (forall o cps, so_stream o = true -> Forall scalar cps -> ascii2 cps = true -> rj_read (rj_put (json_writer o) cps) = Some cps) /\
  (forall o d, so_stream o = true -> jwf d -> match d with JArr _ | JObj _ => True | _ => False end ->
     rj_read (rj_put (json_writer o) (json_print_cps d)) = Some (json_print_cps d)).
Proof. split; [exact stream_roundtrip | split; [exact stream_roundtrip_ascii2 | exact stream_roundtrip_document]]. Qed.
Print Assumptions T_C08_stream_roundtrip.

(* ---------------------------------------------------------------- reading an XML stream: which encoding is it in *)

(* JxXmlDetect.v: px_detect is pugixml's guess_buffer_encoding (load with encoding_auto, which the stream constructor of
   the XML archive uses) as a function of the first four bytes: the five byte order marks, then '<' in UTF-32, then '<'
   in UTF-16, else UTF-8 (nothing on fewer than four bytes).  pugixml's source is not installed: the function is written
   from the documented behaviour and validated on every run (the extracted px_detect decides the encoding of every XML
   stream load of the model driver; stage_xdetect adds cut, doubled-BOM, foreign-BOM and prefixed streams; a Python copy
   is compared on every byte string).  Not modelled: the branch that honours an encoding pseudo-attribute naming latin1 -
   the archive writes none (T_C08_xml_options_no_encoding_declaration).  px_read = decode the whole stream in the detected
   scheme and skip one leading U+FEFF, as the parser does.

   (a) with a byte order mark the encoding is recognised and the text is read back *)
Theorem T_C08_xml_stream_detect_bom : forall e text, Forall scalar text -> match text with a :: _ => a <> 0 | [] => False end ->
  px_detect (px_bom e ++ px_body e text) = e /\ px_read (px_bom e ++ px_body e text) = Some text.
Proof. intros e text H1 H2. split; [apply px_detect_bom | apply px_read_bom]; assumption. Qed.
Print Assumptions T_C08_xml_stream_detect_bom.

(* (b) without one: every text that begins with '<' followed by a character other than U+0000 - every XML document
       without leading white space, in particular one that begins with the XML declaration - is recognised in all five
       encodings and read back.  Where it is not: white space before the first '<' in UTF-16 / UTF-32 *)
Theorem T_C08_xml_stream_detect_lt : forall e text, Forall scalar text -> starts_lt text = true ->
  px_detect (px_body e text) = e /\ px_read (px_body e text) = Some text.
Proof. intros e text H1 H2. split; [apply px_detect_lt | apply px_read_lt]; assumption. Qed.
Print Assumptions T_C08_xml_stream_detect_lt.

Example T_C08_xml_stream_detect_refuted :
  px_detect (px_body pe_utf16_le [32; 60; 97; 47; 62]) = pe_utf8 /\ px_read (px_body pe_utf16_le [32; 60; 97; 47; 62]) <> Some [32; 60; 97; 47; 62].
Proof. exact px_detect_refuted. Qed.
Print Assumptions T_C08_xml_stream_detect_refuted.

(* (c) composed with T_C08_xml_options_passed: what the archive writes to a stream begins with the XML declaration, so for
       EVERY option setting - five encodings, with and without BOM, formatted or not - and every document the detected
       encoding is the configured one and detection + decoding gives back exactly the text that was written.  (J47 stands:
       without a BOM the UTF-16 / UTF-32 output is not self-describing for a conformant XML processor; pugixml's own
       detection reads it.)  The premise says the spelling of tags and text (tag, arbitrary) yields scalar values *)
Theorem T_C08_xml_stream_roundtrip : forall tag o root, so_stream o = true -> Forall scalar (px_doc tag (xml_writer o) root) ->
  px_detect (px_put tag (xml_writer o) root) = to_pugi_utf (so_enc o) /\
  px_read (px_put tag (xml_writer o) root) = Some (px_doc tag (xml_writer o) root).
Proof. intros tag o root H1 H2. split; [apply xml_stream_detected | apply xml_stream_roundtrip]; assumption. Qed.
Print Assumptions T_C08_xml_stream_roundtrip.
