(* Properties_C09.v — C09: CSV written and read per RFC 4180 for any field content and separator.
   Statements only.  Specification: CsvSpec.v (render = the RFC 4180 grammar in generative form, rfc_parse = its
   reference parser); model of the code as it is: CsvModel.v.  Where the current code falsifies the full-strength
   statement, the statement stays (Definition ..._statement in CsvProofs.v, repeated in the comment), with
   T_..._refuted (the statement is false of the model, witness by computation) and T_..._outside (it holds for
   every input outside the named defect class). *)
From BS Require Import Base CsvSpec CsvSpecProofs CsvModel CsvWriterProofs CsvReaderProofs CsvStreamProofs CsvProofs.
Local Open Scope N_scope.

(* ---- the specification is coherent: the reference parser inverts every rendering of every table ---- *)
Theorem T_C09_spec_parse_inverts_render : forall sep chs final t text, sane_sep sep ->
  render sep chs final t = Some text -> rfc_parse sep text = Some t.
Proof. exact render_parse. Qed.
Print Assumptions T_C09_spec_parse_inverts_render.

(* ---- writer: an independent RFC 4180 parser recovers header and rows from the output ----
   full statement (writer_rfc_statement):
     forall sep hdr rows, allowed sep -> rows <> [] -> hdr <> [] -> uniform hdr rows ->
     exists text, csv_write sep hdr rows = Ok text /\ rfc_parse sep text = Some (hdr :: rows)
   false of the current code: F21, a field with CR but no DQUOTE/separator/LF is written bare *)
Theorem T_C09_writer_rfc_refuted : ~ writer_rfc_statement.
Proof. exact writer_rfc_refuted. Qed.
Print Assumptions T_C09_writer_rfc_refuted.

Theorem T_C09_writer_rfc_outside : forall sep hdr rows,
  allowed sep -> rows <> [] -> hdr <> [] -> uniform hdr rows ->
  has_f21 sep (hdr :: rows) = false ->
  exists text, csv_write sep hdr rows = Ok text /\ rfc_parse sep text = Some (hdr :: rows).
Proof. exact writer_rfc_outside. Qed.
Print Assumptions T_C09_writer_rfc_outside.

(* the defect class is exactly: CR present, DQUOTE / separator / LF absent *)
Theorem T_C09_f21_class : forall sep f, f21_field sep f = true <-> In CR f /\ ~ In DQ f /\ ~ In sep f /\ ~ In LF f.
Proof. exact f21_field_char. Qed.
Print Assumptions T_C09_f21_class.

(* ---- writer: every field is quoted exactly when RFC 4180 needs it, records end with CRLF ----
   full statement (writer_quotes_iff_needed_statement): the output is the rendering with
   min_choice = (quote field f iff needs_quote sep f, CRLF) and a final line break; false by F21 *)
Theorem T_C09_writer_quotes_iff_needed_refuted : ~ writer_quotes_iff_needed_statement.
Proof. exact writer_quotes_refuted. Qed.
Print Assumptions T_C09_writer_quotes_iff_needed_refuted.

Theorem T_C09_writer_quotes_iff_needed_outside : forall sep hdr rows,
  allowed sep -> rows <> [] -> hdr <> [] -> uniform hdr rows ->
  has_f21 sep (hdr :: rows) = false ->
  exists text, csv_write sep hdr rows = Ok text /\
    render sep (map (min_choice sep) (hdr :: rows)) true (hdr :: rows) = Some text.
Proof. exact writer_quotes_outside. Qed.
Print Assumptions T_C09_writer_quotes_iff_needed_outside.

(* the stream writer (UTF-8) produces the same bytes, after the BOM if one is asked for *)
Theorem T_C09_writer_stream_same : forall bom sep hdr rows, allowed sep -> rows <> [] -> uniform hdr rows ->
  exists text, csv_write sep hdr rows = Ok text /\
               csv_write_stream bom sep hdr rows = Ok ((if bom then utf8_bom else []) ++ text).
Proof. exact writer_stream_same. Qed.
Print Assumptions T_C09_writer_stream_same.

(* ---- memory reader: every RFC 4180 rendering of a table loads to exactly its rows, whatever columns the reading
   side asks for and in whatever order ----
   full statement (reader_rfc_statement):
     forall sep chs final hdr rows text keys, allowed sep -> NoDup hdr -> uniform hdr rows ->
     render sep chs final (hdr :: rows) = Some text -> csv_load sep keys text = Ok (select hdr keys rows)
   false of the current code: F24, a text that ends with the separator loses its last (empty) field *)
Theorem T_C09_reader_rfc_refuted : ~ reader_rfc_statement.
Proof. exact reader_rfc_refuted. Qed.
Print Assumptions T_C09_reader_rfc_refuted.

Theorem T_C09_reader_rfc_outside : forall sep chs final hdr rows text keys,
  allowed sep -> NoDup hdr -> uniform hdr rows ->
  render sep chs final (hdr :: rows) = Some text ->
  ~ ends_with sep text ->
  csv_load sep keys text = Ok (select hdr keys rows).
Proof. exact csv_load_rfc_outside. Qed.
Print Assumptions T_C09_reader_rfc_outside.

(* ---- memory reader: a record whose field count differs from the header is rejected ----
   full statement (reader_width_statement); false by F24 (a,b CRLF 1,2, is accepted) *)
Theorem T_C09_width_rejected_refuted : ~ reader_width_statement.
Proof. exact reader_width_refuted. Qed.
Print Assumptions T_C09_width_rejected_refuted.

Theorem T_C09_width_rejected_outside : forall sep chs final hdr recs text keys,
  allowed sep ->
  render sep chs final (hdr :: recs) = Some text -> Exists (fun r => length r <> length hdr) recs ->
  ~ ends_with sep text ->
  csv_load sep keys text = Err ParsingError.
Proof. exact csv_load_width_outside. Qed.
Print Assumptions T_C09_width_rejected_outside.

(* ---- stream reader (CCsvStreamReader over the chunked UTF-8 source, any chunk size K >= 1; stream_payload = the text
   after the byte order mark, if the first chunk starts with one) ----
   full statement (stream_reader_rfc_statement):
     forall K sep chs final hdr rows text keys, 0 < K -> allowed sep -> NoDup hdr -> uniform hdr rows ->
     render sep chs final (hdr :: rows) = Some (stream_payload K text) ->
     csv_load_stream K sep keys text = Ok (select hdr keys rows)
   false of the current code: F23 (an escaped value in a column other than the first, read by name: the end of the
   value is computed without its offset) and F25 (an escaped value read twice: unescaping in place) *)
Theorem T_C09_reader_rfc_stream_refuted : ~ stream_reader_rfc_statement.
Proof. exact stream_reader_rfc_refuted. Qed.
Print Assumptions T_C09_reader_rfc_stream_refuted.

Theorem T_C09_reader_rfc_stream_refuted_f25 : exists K sep chs final hdr rows text keys,
  (0 < K)%nat /\ allowed sep /\ NoDup hdr /\ uniform hdr rows /\
  render sep chs final (hdr :: rows) = Some (stream_payload K text) /\
  csv_load_stream K sep keys text <> Ok (select hdr keys rows).
Proof. exact stream_reader_rfc_refuted_f25. Qed.
Print Assumptions T_C09_reader_rfc_stream_refuted_f25.

(* chs_ok hdr keys (tl chs): every data row can serve the requests, i.e. (keys_ok) a requested column other than the
   first is not escaped in that row and an escaped first column is requested once at most *)
Theorem T_C09_reader_rfc_stream_outside : forall K sep chs final hdr rows text keys,
  (0 < K)%nat -> allowed sep -> NoDup hdr -> uniform hdr rows ->
  render sep chs final (hdr :: rows) = Some (stream_payload K text) ->
  chs_ok hdr keys (tl chs) = true ->
  csv_load_stream K sep keys text = Ok (select hdr keys rows).
Proof. exact stream_reader_rfc_outside. Qed.
Print Assumptions T_C09_reader_rfc_stream_outside.

(* the class in words *)
Theorem T_C09_stream_class : forall hdr keys chs,
  (forall ch, In ch chs ->
     (forall (j : nat) (k : field), In k keys -> nth_error hdr (S j) = Some k -> nth (S j) (ch_quotes ch) false = false) /\
     (hd false (ch_quotes ch) = true -> forall k0 : field, nth_error hdr 0%nat = Some k0 ->
        (count_occ field_eq_dec keys k0 <= 1)%nat)) ->
  chs_ok hdr keys chs = true.
Proof. exact chs_ok_sufficient. Qed.
Print Assumptions T_C09_stream_class.

(* NOT PROVED at full strength for the stream reader:
     forall K sep chs final hdr recs text keys, 0 < K -> allowed sep ->
     render sep chs final (hdr :: recs) = Some (stream_payload K text) -> Exists (fun r => length r <> length hdr) recs ->
     csv_load_stream K sep keys text = Err ParsingError
   (believed true: every failure of F23/F25 is itself a ParsingError).  Proved for requests in the class above: *)
Theorem T_C09_width_rejected_stream_partial : forall K sep chs final hdr recs text keys,
  (0 < K)%nat -> allowed sep -> NoDup hdr ->
  render sep chs final (hdr :: recs) = Some (stream_payload K text) ->
  Exists (fun r => length r <> length hdr) recs ->
  chs_ok hdr keys (tl chs) = true ->
  csv_load_stream K sep keys text = Err ParsingError.
Proof. exact stream_width_outside. Qed.
Print Assumptions T_C09_width_rejected_stream_partial.

(* ---- writer side of the width check: the writer classes report OutOfRange; under SaveObject the report leaves the
   destructor of CCsvWriteObjectScope, i.e. std::terminate (F18) — for EVERY ragged table, so the statement
   "a catchable OutOfRange" (writer_width_statement) fails on its whole domain ---- *)
Theorem T_C09_width_rejected_writer_refuted : ~ writer_width_statement.
Proof. exact writer_width_refuted. Qed.
Print Assumptions T_C09_width_rejected_writer_refuted.

Theorem T_C09_width_rejected_writer : forall k sep hdr (rows : list record), allowed sep -> ragged rows ->
  csv_save k sep (map (with_keys hdr) rows) = Terminate /\
  writer_run k true sep (map (with_keys hdr) rows) = Err OutOfRange.
Proof. exact writer_width_all_terminate. Qed.
Print Assumptions T_C09_width_rejected_writer.

(* ---- separator: exactly , ; TAB SPACE | are accepted, by every entry point ---- *)
Theorem T_C09_separator : forall sep, validate_separator sep = true <-> In sep [44; 59; 9; 32; 124].
Proof. exact validate_separator_spec. Qed.
Print Assumptions T_C09_separator.

Theorem T_C09_separator_enforced : forall k sep rows keys text K, validate_separator sep = false ->
  csv_save k sep rows = Err InvalidOptions /\ csv_load sep keys text = Err InvalidOptions /\
  csv_load_stream K sep keys text = Err InvalidOptions.
Proof. exact separator_checked_everywhere. Qed.
Print Assumptions T_C09_separator_enforced.

(* ---- non-vacuity: the hypotheses are satisfiable and the functions compute ---- *)
Example T_C09_example_write :
  csv_write 44 [[110]; [118]] [[[97; 34; 98]; [49; 44; 50]]; [[]; [120; 10; 121]]] =
  Ok [110; 44; 118; 13; 10;
      34; 97; 34; 34; 98; 34; 44; 34; 49; 44; 50; 34; 13; 10;
      44; 34; 120; 10; 121; 34; 13; 10].
Proof. exact example_write. Qed.
Print Assumptions T_C09_example_write.

Example T_C09_example_load :
  csv_load 59 [[98]; [97]; [122]] [97; 59; 98; 10; 34; 120; 34; 34; 59; 34; 59; 34; 49; 34; 13; 10; 59; 10] =
  Ok [[Some [49]; Some [120; 34; 59]; None]; [Some []; Some []; None]].
Proof. exact example_load. Qed.
Print Assumptions T_C09_example_load.

Example T_C09_example_width : csv_load 44 [[97]] [97; 44; 98; 13; 10; 49; 13; 10] = Err ParsingError.
Proof. exact example_width. Qed.
Print Assumptions T_C09_example_width.

Example T_C09_example_stream :
  csv_load_stream chunk_size 59 [[98]; [97]; [122]]
    [0xEF; 0xBB; 0xBF; 97; 59; 98; 10; 34; 120; 34; 34; 59; 34; 59; 49; 13; 10; 59; 10] =
  Ok [[Some [49]; Some [120; 34; 59]; None]; [Some []; Some []; None]].
Proof. exact stream_example. Qed.
Print Assumptions T_C09_example_stream.

Example T_C09_example_stream_no_f24 :
  csv_load_stream chunk_size 44 [[97]; [98]] [97; 44; 98; 13; 10; 102; 111; 111; 44] = Ok [[Some [102; 111; 111]; Some []]].
Proof. exact stream_no_f24. Qed.
Print Assumptions T_C09_example_stream_no_f24.
