(* Properties_C09.v — C09: CSV written and read per RFC 4180 for any field content and separator.
   Statements only.  Specification: CsvSpec.v (render = the RFC 4180 grammar in generative form, indexed by the free
   choices: escaped or not per field, LF or CRLF per record, final line break or not; rfc_parse = its reference
   parser).  Model of the code as it is now: CsvModel.v (after fix: 598f817 F21, e6b2b49 F24, c131fe5 F23, 04a3ed1 F25).
   One statement is still false of the code (F22, a table without rows): the full statement stays as a Definition in
   CsvProofs.v, repeated in the comment, with T_..._refuted and a theorem that says what happens instead on the whole
   class.  F18 (rows of different widths => std::terminate) was repaired by 0a28cd4; its statement is now proved. *)
From BS Require Import Base CsvSpec CsvSpecProofs CsvSpecComplete CsvModel CsvWriterProofs CsvReaderProofs CsvStreamProofs CsvTotalProofs CsvStreamTotal CsvProofs CsvChunks.
From BS Require Import UtfSpec CsvEncodings.
From BS Require UtfModel StreamSpec StreamLossless.
Local Open Scope N_scope.

(* ---- the specification is coherent: the reference parser inverts every rendering of every table ---- *)
Theorem T_C09_spec_parse_inverts_render : forall sep chs final t text, sane_sep sep ->
  render sep chs final t = Some text -> rfc_parse sep text = Some t.
Proof. exact render_parse. Qed.
Print Assumptions T_C09_spec_parse_inverts_render.

(* ... and accepts nothing else: every text it accepts is a rendering of the table it returns *)
Theorem T_C09_spec_parse_accepts_only_renderings : forall sep text t, rfc_parse sep text = Some t ->
  exists chs final, render sep chs final t = Some text.
Proof. exact parse_render. Qed.
Print Assumptions T_C09_spec_parse_accepts_only_renderings.

(* ---- writer: an independent RFC 4180 parser recovers header and rows from the output, for arbitrary byte-string
   fields (separators, quotes, CR, LF, any UTF-8) and every allowed separator ---- *)
Theorem T_C09_writer_rfc : forall sep hdr rows,
  allowed sep -> rows <> [] -> hdr <> [] -> uniform hdr rows ->
  exists text, csv_write sep hdr rows = Ok text /\ rfc_parse sep text = Some (hdr :: rows).
Proof. exact writer_rfc. Qed.
Print Assumptions T_C09_writer_rfc.

(* ---- writer: the output is the rendering in which a field is escaped exactly when RFC 4180 needs it
   (min_choice = needs_quote per field, CRLF after every record, final line break) ---- *)
Theorem T_C09_writer_quotes_iff_needed : forall sep hdr rows,
  allowed sep -> rows <> [] -> hdr <> [] -> uniform hdr rows ->
  exists text, csv_write sep hdr rows = Ok text /\
    render sep (map (min_choice sep) (hdr :: rows)) true (hdr :: rows) = Some text.
Proof. exact writer_quotes_iff_needed. Qed.
Print Assumptions T_C09_writer_quotes_iff_needed.

Theorem T_C09_writer_field_quotes_iff_needed : forall sep f out,
  write_escaped sep f out = out ++ (if needs_quote sep f then quoted f else f).
Proof. exact writer_field_quotes_iff_needed. Qed.
Print Assumptions T_C09_writer_field_quotes_iff_needed.

(* the stream writer (UTF-8) produces the same bytes, after the BOM if one is asked for *)
Theorem T_C09_writer_stream_same : forall bom sep hdr rows, allowed sep -> rows <> [] -> uniform hdr rows ->
  exists text, csv_write sep hdr rows = Ok text /\
               csv_write_stream bom sep hdr rows = Ok ((if bom then utf8_bom else []) ++ text).
Proof. exact writer_stream_same. Qed.
Print Assumptions T_C09_writer_stream_same.

(* ---- F22: a table without rows.  Full statement (writer_norows_statement):
     forall sep hdr, allowed sep -> hdr <> [] ->
     exists text, csv_write sep hdr [] = Ok text /\ rfc_parse sep text = Some [hdr]
   false for EVERY header: nothing at all is written, and both loaders reject the empty text ---- *)
Theorem T_C09_writer_norows_refuted : ~ writer_norows_statement.
Proof. exact writer_norows_refuted. Qed.
Print Assumptions T_C09_writer_norows_refuted.

Theorem T_C09_writer_norows : forall sep hdr keys, allowed sep ->
  csv_write sep hdr [] = Ok [] /\ csv_load sep keys [] = Err ParsingError /\
  (forall K, (0 < K)%nat -> csv_load_stream K sep keys [] = Err ParsingError).
Proof. exact writer_norows. Qed.
Print Assumptions T_C09_writer_norows.

(* ---- memory reader: every RFC 4180 rendering of a table loads to exactly its rows, whatever columns the reading
   side asks for and in whatever order (repeats and unknown names included) ---- *)
Theorem T_C09_reader_rfc : forall sep chs final hdr rows text keys,
  allowed sep -> NoDup hdr -> uniform hdr rows ->
  render sep chs final (hdr :: rows) = Some text ->
  csv_load sep keys text = Ok (select hdr keys rows).
Proof. exact reader_rfc. Qed.
Print Assumptions T_C09_reader_rfc.

(* ---- stream reader: the same, for every chunk size K >= 1, wherever escaped fields, line breaks and separators fall
   relative to the chunk boundaries; stream_payload = the text after a UTF-8 byte order mark found in the first chunk ---- *)
Theorem T_C09_reader_rfc_stream : forall K sep chs final hdr rows text keys,
  (0 < K)%nat -> allowed sep -> NoDup hdr -> uniform hdr rows ->
  render sep chs final (hdr :: rows) = Some (stream_payload K text) ->
  csv_load_stream K sep keys text = Ok (select hdr keys rows).
Proof. exact reader_rfc_stream. Qed.
Print Assumptions T_C09_reader_rfc_stream.

Theorem T_C09_stream_payload_plain : forall K text, starts_with_bom (firstn K text) = false -> stream_payload K text = text.
Proof. exact stream_payload_plain. Qed.
Print Assumptions T_C09_stream_payload_plain.

Theorem T_C09_stream_payload_bom : forall K text, (3 <= K)%nat -> stream_payload K (utf8_bom ++ text) = text.
Proof. exact stream_payload_bom. Qed.
Print Assumptions T_C09_stream_payload_bom.

(* header names need not be distinct for loading to succeed; what a request then returns is read_spec (the column
   cursor followed by std::find), which coincides with the first matching column when the names are distinct *)
Theorem T_C09_reader_any_header : forall sep chs final hdr rows text keys, allowed sep -> uniform hdr rows ->
  render sep chs final (hdr :: rows) = Some text ->
  csv_load sep keys text = Ok (map (fun row => read_spec hdr row keys 0) rows).
Proof. exact reader_any_header. Qed.
Print Assumptions T_C09_reader_any_header.

(* ---- a record whose field count differs from the header is rejected, by both readers, whatever is requested ---- *)
Theorem T_C09_width_rejected : forall sep chs final hdr recs text keys,
  allowed sep ->
  render sep chs final (hdr :: recs) = Some text -> Exists (fun r => length r <> length hdr) recs ->
  csv_load sep keys text = Err ParsingError.
Proof. exact reader_width. Qed.
Print Assumptions T_C09_width_rejected.

Theorem T_C09_width_rejected_stream : forall K sep chs final hdr recs text keys,
  (0 < K)%nat -> allowed sep ->
  render sep chs final (hdr :: recs) = Some (stream_payload K text) -> Exists (fun r => length r <> length hdr) recs ->
  csv_load_stream K sep keys text = Err ParsingError.
Proof. exact reader_width_stream. Qed.
Print Assumptions T_C09_width_rejected_stream.

(* ---- the reader theorems stated on the reference parser instead of the renderer: whatever text rfc_parse accepts,
   both loaders return exactly the table it returns (selected by column name), resp. reject it when a record's
   width differs ---- *)
Theorem T_C09_reader_agrees_with_reference_parser : forall sep text hdr rows keys,
  allowed sep -> NoDup hdr -> uniform hdr rows ->
  rfc_parse sep text = Some (hdr :: rows) ->
  csv_load sep keys text = Ok (select hdr keys rows) /\
  (forall K, (0 < K)%nat -> forall stext, stream_payload K stext = text ->
     csv_load_stream K sep keys stext = Ok (select hdr keys rows)).
Proof. exact reader_rfc_parsed. Qed.
Print Assumptions T_C09_reader_agrees_with_reference_parser.

Theorem T_C09_width_rejected_reference_parser : forall sep text hdr recs keys, allowed sep ->
  rfc_parse sep text = Some (hdr :: recs) -> Exists (fun r => length r <> length hdr) recs ->
  csv_load sep keys text = Err ParsingError /\
  (forall K, (0 < K)%nat -> forall stext, stream_payload K stext = text ->
     csv_load_stream K sep keys stext = Err ParsingError).
Proof. exact reader_width_parsed. Qed.
Print Assumptions T_C09_width_rejected_reference_parser.

(* memory and stream loading give the same answer on every RFC 4180 text (same rows or the same error) *)
Theorem T_C09_stream_eq_mem : forall K sep chs final t text keys, (0 < K)%nat -> allowed sep ->
  render sep chs final t = Some (stream_payload K text) ->
  csv_load_stream K sep keys text = csv_load sep keys (stream_payload K text).
Proof. exact reader_stream_eq_mem. Qed.
Print Assumptions T_C09_stream_eq_mem.

(* ---- the chunking plays no role.  CCsvStreamReader reaches its CEncodedStreamReader<char> through ReadChunk and IsEnd
   only; the model is written over any chunk source (CsvModel.v, Section SRC) and csv_load_chunks early sep keys chunks
   is the loader fed an ARBITRARY list of non-empty chunks (what the encoded reader delivers for a UTF-16/32 source:
   decoded chunks of varying sizes), IsEnd turning true with the last chunk (early = true) or only with the EndFile
   answer.  On every RFC 4180 text it answers as the memory reader on the concatenation: same rows or same error ---- *)
Theorem T_C09_chunking_independent : forall early sep chs final t keys chunks, allowed sep ->
  Forall (fun c => c <> []) chunks ->
  render sep chs final t = Some (concat chunks) ->
  csv_load_chunks early sep keys chunks = csv_load sep keys (concat chunks).
Proof. exact csv_load_chunks_eq_mem. Qed.
Print Assumptions T_C09_chunking_independent.

Theorem T_C09_reader_rfc_chunks : forall early sep chs final hdr rows keys chunks,
  allowed sep -> NoDup hdr -> uniform hdr rows -> Forall (fun c => c <> []) chunks ->
  render sep chs final (hdr :: rows) = Some (concat chunks) ->
  csv_load_chunks early sep keys chunks = Ok (select hdr keys rows).
Proof. exact csv_load_chunks_rfc. Qed.
Print Assumptions T_C09_reader_rfc_chunks.

(* csv_load_stream K is the instance "UTF-8 source, chunks of exactly K bytes" of the same generic loader (by
   definition, CsvModel.v); on RFC 4180 texts it answers as the loader fed the K-sized chunks of the payload *)
Theorem T_C09_stream_is_chunks : forall K early sep chs final t text keys, (0 < K)%nat -> allowed sep ->
  render sep chs final t = Some (stream_payload K text) ->
  csv_load_stream K sep keys text = csv_load_chunks early sep keys (chunks_of K (stream_payload K text)).
Proof. exact csv_load_stream_is_chunks. Qed.
Print Assumptions T_C09_stream_is_chunks.

Theorem T_C09_chunks_of : forall K l, (0 < K)%nat ->
  concat (chunks_of K l) = l /\ Forall (fun c => c <> []) (chunks_of K l).
Proof. exact chunks_of_spec. Qed.
Print Assumptions T_C09_chunks_of.

(* ---- any of the five encodings.  csv_load_encoded K pol mark fuel sep keys data seekable (CsvEncodings.v) = the CSV loader
   fed the chunks that the stream family's model of CEncodedStreamReader<char, K> (StreamModel.v: detection, BOM, windows
   of K bytes, decoding to UTF-8, a character cut by the end of a window carried over; C13) delivers for the byte stream
   data; None = the encoded reader reported DecodeError.  The text cps (code points) whose UTF-8 form is an RFC 4180
   rendering, stored as UTF-8 / UTF-16LE / UTF-16BE / UTF-32LE / UTF-32BE, with BOM or BOM-less starting with an ASCII
   character (outside the detection defect classes of C13: stream_defect), loads from the stream to exactly what the
   UTF-8 text loads to from memory, for every chunk size K (multiple of 4, >= 32, as the class asserts) ---- *)
Theorem T_C09_any_encoding_eq_mem : forall K pol mark fuel sep keys e b cps chs final t sk,
  (K mod 4 = 0)%nat -> (32 <= K)%nat -> Forall scalar cps ->
  StreamSpec.detectable b cps -> StreamLossless.stream_defect e b cps = false ->
  allowed sep -> render sep chs final t = Some (encs W8 cps) ->
  (length (StreamSpec.with_bom b e cps) < fuel)%nat ->
  csv_load_encoded K pol mark fuel sep keys (StreamSpec.with_bom b e cps) sk = Some (csv_load sep keys (encs W8 cps)).
Proof. exact csv_load_encoded_eq_mem. Qed.
Print Assumptions T_C09_any_encoding_eq_mem.

Theorem T_C09_any_encoding : forall K pol mark fuel sep keys e b cps chs final hdr rows sk,
  (K mod 4 = 0)%nat -> (32 <= K)%nat -> Forall scalar cps ->
  StreamSpec.detectable b cps -> StreamLossless.stream_defect e b cps = false ->
  allowed sep -> NoDup hdr -> uniform hdr rows ->
  render sep chs final (hdr :: rows) = Some (encs W8 cps) ->
  (length (StreamSpec.with_bom b e cps) < fuel)%nat ->
  csv_load_encoded K pol mark fuel sep keys (StreamSpec.with_bom b e cps) sk = Some (Ok (select hdr keys rows)).
Proof. exact csv_load_encoded_rfc. Qed.
Print Assumptions T_C09_any_encoding.

(* ---- fuel suffices, on ARBITRARY text (not only RFC 4180 renderings): both loaders answer with rows or with a
   catchable ParsingError / InvalidOptions (clean); in particular never OutOfFuel (every line consumes at least one
   byte: no hang), never the model's UB outcome (no read outside the decoded buffer during in-place unescaping),
   never std::out_of_range from std::vector::at ---- *)
Theorem T_C09_load_total : forall sep keys text, clean (csv_load sep keys text).
Proof. exact csv_load_total. Qed.
Print Assumptions T_C09_load_total.

Theorem T_C09_load_stream_total : forall K sep keys text, (0 < K)%nat -> clean (csv_load_stream K sep keys text).
Proof. exact csv_load_stream_total. Qed.
Print Assumptions T_C09_load_stream_total.

Theorem T_C09_load_chunks_total : forall early sep keys chunks, Forall (fun c => c <> []) chunks ->
  clean (csv_load_chunks early sep keys chunks).
Proof. exact csv_load_chunks_total. Qed.
Print Assumptions T_C09_load_chunks_total.

(* ---- writer side of the width check (finding F18, repaired by 0a28cd4: the report used to leave the destructor of
   CCsvWriteObjectScope, i.e. std::terminate): a table in which some row has another number of fields than the first
   is refused with OutOfRange, by the writer classes and under SaveObject alike ---- *)
Theorem T_C09_width_rejected_writer_full : writer_width_statement.
Proof. exact writer_width_holds. Qed.
Print Assumptions T_C09_width_rejected_writer_full.

Theorem T_C09_width_rejected_writer : forall k sep hdr (rows : list record), allowed sep -> ragged rows ->
  csv_save k sep (map (with_keys hdr) rows) = Err OutOfRange /\
  writer_run k true sep (map (with_keys hdr) rows) = Err OutOfRange.
Proof. exact writer_width_all_reported. Qed.
Print Assumptions T_C09_width_rejected_writer.

(* ---- separator: exactly , ; TAB SPACE | are accepted, by every entry point ---- *)
Theorem T_C09_separator : forall sep, validate_separator sep = true <-> In sep [44; 59; 9; 32; 124].
Proof. exact validate_separator_spec. Qed.
Print Assumptions T_C09_separator.

Theorem T_C09_separator_enforced : forall k sep rows keys text K, validate_separator sep = false ->
  csv_save k sep rows = Err InvalidOptions /\ csv_load sep keys text = Err InvalidOptions /\
  csv_load_stream K sep keys text = Err InvalidOptions.
Proof. exact separator_checked_everywhere. Qed.
Print Assumptions T_C09_separator_enforced.

(* ---- non-vacuity: the hypotheses are satisfiable and the functions compute ---- *)
Example T_C09_example_render :
  render 44 [mkChoice [false; true] EolLF; mkChoice [true; false] EolCRLF] false [[[97]; [98]]; [[34]; []]] =
  Some [97; 44; 34; 98; 34; 10; 34; 34; 34; 34; 44].
Proof. exact example_render. Qed.
Print Assumptions T_C09_example_render.

Example T_C09_example_write :
  csv_write 44 [[110]; [118]] [[[97; 34; 98]; [49; 44; 50]]; [[]; [120; 13; 121]]] =
  Ok [110; 44; 118; 13; 10;
      34; 97; 34; 34; 98; 34; 44; 34; 49; 44; 50; 34; 13; 10;
      44; 34; 120; 13; 121; 34; 13; 10].
Proof. exact example_write. Qed.
Print Assumptions T_C09_example_write.

Example T_C09_example_load :
  csv_load 59 [[98]; [97]; [122]] [97; 59; 98; 10; 34; 120; 34; 34; 59; 34; 59; 34; 49; 34; 13; 10; 59] =
  Ok [[Some [49]; Some [120; 34; 59]; None]; [Some []; Some []; None]].
Proof. exact example_load. Qed.
Print Assumptions T_C09_example_load.

Example T_C09_example_stream :
  csv_load_stream chunk_size 59 [[98]; [97]; [122]; [98]]
    [0xEF; 0xBB; 0xBF; 97; 59; 98; 10; 34; 120; 34; 34; 59; 34; 59; 34; 49; 34; 13; 10; 59; 10] =
  Ok [[Some [49]; Some [120; 34; 59]; None; Some [49]]; [Some []; Some []; None; Some []]].
Proof. exact stream_example. Qed.
Print Assumptions T_C09_example_stream.

Example T_C09_example_chunks :
  csv_load_chunks false 59 [[98]; [97]] [[97]; [59; 98; 10; 34]; [120; 34; 34; 59; 34; 59; 34]; [49]; [34; 13]; [10; 59; 10]] =
    Ok [[Some [49]; Some [120; 34; 59]]; [Some []; Some []]] /\
  csv_load_chunks true 59 [[98]; [97]] [[97; 59; 98; 10; 34; 120; 34; 34; 59; 34; 59; 34; 49; 34; 13; 10; 59; 10]] =
    Ok [[Some [49]; Some [120; 34; 59]]; [Some []; Some []]].
Proof. exact chunks_example. Qed.
Print Assumptions T_C09_example_chunks.

(* header "a;EUR-sign", row "1;u-umlaut": UTF-16LE with BOM, UTF-32BE without; the columns asked for in the other order *)
Example T_C09_example_encoded :
  csv_load_encoded 32 UtfModel.Skip [0x3F] 100 59 [[0xE2; 0x82; 0xAC]; [97]]
    (StreamSpec.with_bom true StreamSpec.Utf16le [97; 59; 0x20AC; 10; 49; 59; 0xFC; 10]) true =
    Some (Ok [[Some [0xC3; 0xBC]; Some [49]]]) /\
  csv_load_encoded 32 UtfModel.Skip [0x3F] 100 59 [[0xE2; 0x82; 0xAC]; [97]]
    (StreamSpec.with_bom false StreamSpec.Utf32be [97; 59; 0x20AC; 10; 49; 59; 0xFC; 10]) true =
    Some (Ok [[Some [0xC3; 0xBC]; Some [49]]]).
Proof. exact encoded_example. Qed.
Print Assumptions T_C09_example_encoded.

Example T_C09_example_width : csv_load 44 [[97]] [97; 44; 98; 13; 10; 49; 44; 50; 44] = Err ParsingError.
Proof. exact example_width. Qed.
Print Assumptions T_C09_example_width.
