(* Properties_C10.v — C10, binary-stream-reader half: loading through CBinaryStreamReader is
   equivalent to reading the same bytes from memory, wherever the chunk boundaries fall.
   Statements only (the MsgPack / CSV equivalence theorems of C10 live in their own files).

   bsr_run K is ops     = construct a CBinaryStreamReader (chunk_size K) on the stream [is] and run
                          the operation list, giving every result           (StreamModel.v)
   mem_accepts K data.. = the reference: the trivial in-memory reader over [data] (position + byte
                          list) gives exactly these answers                  (StreamSpec.v)
   stream_of data b     = a stream over [data]; b = the streambuf supports seeking (StreamIStream.v) *)
From BS Require Import Base StreamIStream StreamSpec StreamModel StreamLemmas StreamBsrProofs.
Local Open Scope nat_scope.

(* every chunk size, every data, every sequence of the nine operations, seekable stream *)
Theorem T_C10_bsr_refines : forall K data ops,
  0 < K -> fits_streamoff data -> Forall op_sizet ops ->
  exists rs, bsr_run K (stream_of data true) ops = Ok rs /\ mem_accepts K data mem_start ops rs = true.
Proof. exact bsr_refines_seekable. Qed.
Print Assumptions T_C10_bsr_refines.

(* full strength over the stream kinds of C10 (also a streambuf without seek support): false ... *)
Theorem T_C10_bsr_refines_anystream_refuted :
  ~ (forall K data seekable ops, 0 < K -> fits_streamoff data -> Forall op_sizet ops ->
       exists rs, bsr_run K (stream_of data seekable) ops = Ok rs /\ mem_accepts K data mem_start ops rs = true).
Proof. exact bsr_refines_any_stream_refuted. Qed.
Print Assumptions T_C10_bsr_refines_anystream_refuted.

(* ... exactly because SetPosition cannot leave the cached window on such a stream *)
Theorem T_C10_bsr_refines_anystream_outside : forall K data seekable ops,
  0 < K -> fits_streamoff data -> Forall op_sizet ops ->
  (seekable = true \/ seek_free K data (bsr_new K (stream_of data seekable)) ops = true) ->
  exists rs, bsr_run K (stream_of data seekable) ops = Ok rs /\ mem_accepts K data mem_start ops rs = true.
Proof. exact bsr_refines_outside. Qed.
Print Assumptions T_C10_bsr_refines_anystream_outside.

(* on every kind of stream and after any refusal the reader never reads outside its window *)
Theorem T_C10_bsr_total : forall K data seekable ops,
  0 < K -> fits_streamoff data -> Forall op_sizet ops ->
  exists rs, bsr_run K (stream_of data seekable) ops = Ok rs.
Proof. exact bsr_total. Qed.
Print Assumptions T_C10_bsr_total.

(* the loop all callers put around ReadByChunks returns the n bytes at the position, or reports
   the end of data when fewer remain; fuel n+1 suffices *)
Theorem T_C10_bsr_blob : forall K data skip n,
  0 < K -> fits_streamoff data -> sizet skip -> (skip <= N.of_nat (length data))%N ->
  let s0 := bsr_new K (stream_of data true) in
  let s1 := snd (bsr_set_position K s0 skip) in
  fst (bsr_set_position K s0 skip) = true /\
  exists s2,
    bsr_read_blob K (S (N.to_nat n)) s1 n [] =
      Ok ((if N.to_nat skip + N.to_nat n <=? length data
           then Some (slice data (N.to_nat skip) (N.to_nat n)) else None), s2).
Proof. exact bsr_blob. Qed.
Print Assumptions T_C10_bsr_blob.

(* the refuting run *)
Example T_C10_bsr_example_nonseekable :
  bsr_run 4 (stream_of [1;2;3;4;5;6;7;8]%N false) [OSetPos 6; OGetPos] = Ok [RBool false; RPos 0] /\
  mem_accepts 4 [1;2;3;4;5;6;7;8]%N mem_start [OSetPos 6; OGetPos] [RBool false; RPos 0] = false.
Proof. exact bsr_nonseekable_witness. Qed.
Print Assumptions T_C10_bsr_example_nonseekable.

(* hypotheses are satisfiable; a run across two chunk boundaries with a backward seek after the
   short final read (the F16 history) *)
Example T_C10_bsr_example_run :
  bsr_run 4 (stream_of [1;2;3;4;5;6;7;8;9;10]%N true)
    [OSolid 3; OSolid 3; OReadByte; OChunks 9; OIsEnd; OSetPos 1; OPeek; OGetPos; OSetPos 11; OIsFailed] =
  Ok [RBlock [1;2;3]%N; RBlock [4;5;6]%N; RByte (Some 7%N); RBlock [8;9;10]%N; RBool true;
      RBool true; RByte (Some 2%N); RPos 1; RBool false; RBool true].
Proof. vm_compute. reflexivity. Qed.
Print Assumptions T_C10_bsr_example_run.
