(* Properties_C10mp.v — C10, MessagePack half: "Memory and stream loading are equivalent wherever buffer
   boundaries fall", for the two MsgPack readers of src/msgpack/msgpack_readers.cpp.  Statements only.

   CMsgPackStringReader  = the functions of MpModel.v on a suffix of the input (read_int, read_str, ...)
   CMsgPackStreamReader  = the programs mps_* of MpStreamModel.v: they see the input only through the
                           nine operations of CBinaryStreamReader
   interp step p s       = run program p on a reader given by its step function
   memr_step K data      = the in-memory reader of StreamSpec.v (position + byte list) as a function
   bsr_step K            = the chunked reader model of StreamModel.v (chunk size K) over a std::istream
   st data d             = the in-memory reader standing at the suffix d of data
   post data x a m'      = x is what the string reader answers; a is that answer without its position
                           (QOk v / QNot / QErr class) and m' is the reader standing where the string
                           reader stops (value read / not loaded), or a is the same error class
   wp K data p m Q       = every run of p from m under EVERY choice of answers the reference acceptor
                           mem_step allows (ReadByChunks may cut as it likes) ends in Q

   Hypotheses: 8 <= K (GetValue<uint64_t> needs ReadSolidBlock(8); chunk_size is 256, the test hook 8),
   the data is shorter than 2^63 bytes, bytes are < 256, fuel above the number of bytes. *)
From BS Require Import Base MpSpec MpModel MpScopeModel StreamIStream StreamSpec StreamModel StreamBsrProofs
  MpStreamModel MpStreamProofs.
Local Open Scope N_scope.

(* ---------------------------------------------------------------- each function, at every suffix, every policy *)

(* SkipValue: same suffix afterwards, or the same error class *)
Theorem T_C10mp_skip_value : forall K data, (8 <= K)%nat -> fits_streamoff data -> bytes_ok data ->
  forall fuel d, Suffix data d -> (length d < fuel)%nat ->
  exists a m', interp (memr_step K data) (mps_skip_value fuel) (st data d) = Ok (a, m') /\
               spost data (skip_value d) a m'.
Proof. exact mem_skip_value. Qed.
Print Assumptions T_C10mp_skip_value.

(* every integer target (bool is the 1-bit unsigned target), both policies *)
Theorem T_C10mp_read_int : forall K data, (8 <= K)%nat -> fits_streamoff data -> bytes_ok data ->
  forall fuel o d, Suffix data d -> (length d < fuel)%nat -> forall t,
  exists a m', interp (memr_step K data) (mps_read_int fuel o t) (st data d) = Ok (a, m') /\
               post data (read_int o t d) a m'.
Proof. exact mem_read_int. Qed.
Print Assumptions T_C10mp_read_int.

Theorem T_C10mp_read_bool : forall K data, (8 <= K)%nat -> fits_streamoff data -> bytes_ok data ->
  forall fuel o d, Suffix data d -> (length d < fuel)%nat ->
  exists a m', interp (memr_step K data) (mps_read_int fuel o (mkIty false 1)) (st data d) = Ok (a, m') /\
               post data (read_int o (mkIty false 1) d) a m'.
Proof. exact mem_read_bool. Qed.
Print Assumptions T_C10mp_read_bool.

Theorem T_C10mp_read_nil : forall K data, (8 <= K)%nat -> fits_streamoff data -> bytes_ok data ->
  forall fuel o d, Suffix data d -> (length d < fuel)%nat ->
  exists a m', interp (memr_step K data) (mps_read_nil fuel o) (st data d) = Ok (a, m') /\
               post data (read_nil o d) a m'.
Proof. exact mem_read_nil. Qed.
Print Assumptions T_C10mp_read_nil.

Theorem T_C10mp_read_f32 : forall K data, (8 <= K)%nat -> fits_streamoff data -> bytes_ok data ->
  forall fuel o d, Suffix data d -> (length d < fuel)%nat -> forall narrow,
  exists a m', interp (memr_step K data) (mps_read_f32 narrow fuel o) (st data d) = Ok (a, m') /\
               post data (read_f32 narrow o d) a m'.
Proof. exact mem_read_f32. Qed.
Print Assumptions T_C10mp_read_f32.

Theorem T_C10mp_read_f64 : forall K data, (8 <= K)%nat -> fits_streamoff data -> bytes_ok data ->
  forall fuel o d, Suffix data d -> (length d < fuel)%nat -> forall widen,
  exists a m', interp (memr_step K data) (mps_read_f64 widen fuel o) (st data d) = Ok (a, m') /\
               post data (read_f64 widen o d) a m'.
Proof. exact mem_read_f64. Qed.
Print Assumptions T_C10mp_read_f64.

(* strings: the bytes copied through mBuffer by the ReadByChunks loop are the string_view of the string reader *)
Theorem T_C10mp_read_str : forall K data, (8 <= K)%nat -> fits_streamoff data -> bytes_ok data ->
  forall fuel o d, Suffix data d -> (length d < fuel)%nat ->
  exists a m', interp (memr_step K data) (mps_read_str fuel o) (st data d) = Ok (a, m') /\
               post data (read_str o d) a m'.
Proof. exact mem_read_str. Qed.
Print Assumptions T_C10mp_read_str.

Theorem T_C10mp_read_array_size : forall K data, (8 <= K)%nat -> fits_streamoff data -> bytes_ok data ->
  forall fuel o d, Suffix data d -> (length d < fuel)%nat ->
  exists a m', interp (memr_step K data) (mps_read_array_size fuel o) (st data d) = Ok (a, m') /\
               post data (read_array_size o d) a m'.
Proof. exact mem_read_array_size. Qed.
Print Assumptions T_C10mp_read_array_size.

Theorem T_C10mp_read_map_size : forall K data, (8 <= K)%nat -> fits_streamoff data -> bytes_ok data ->
  forall fuel o d, Suffix data d -> (length d < fuel)%nat ->
  exists a m', interp (memr_step K data) (mps_read_map_size fuel o) (st data d) = Ok (a, m') /\
               post data (read_map_size o d) a m'.
Proof. exact mem_read_map_size. Qed.
Print Assumptions T_C10mp_read_map_size.

Theorem T_C10mp_read_bin_size : forall K data, (8 <= K)%nat -> fits_streamoff data -> bytes_ok data ->
  forall fuel o d, Suffix data d -> (length d < fuel)%nat ->
  exists a m', interp (memr_step K data) (mps_read_bin_size fuel o) (st data d) = Ok (a, m') /\
               post data (read_bin_size o d) a m'.
Proof. exact mem_read_bin_size. Qed.
Print Assumptions T_C10mp_read_bin_size.

Theorem T_C10mp_read_binary : forall K data, (8 <= K)%nat -> fits_streamoff data -> bytes_ok data ->
  forall d, Suffix data d ->
  exists a m', interp (memr_step K data) mps_read_binary (st data d) = Ok (a, m') /\
               post data (read_binary d) a m'.
Proof. exact mem_read_binary_c. Qed.
Print Assumptions T_C10mp_read_binary.

(* timestamps: the header is examined by ReadExtFamilyType (seek back) and skipped with SetPosition *)
Theorem T_C10mp_read_ts : forall K data, (8 <= K)%nat -> fits_streamoff data -> bytes_ok data ->
  forall fuel o d, Suffix data d -> (length d < fuel)%nat ->
  exists a m', interp (memr_step K data) (mps_read_ts fuel o) (st data d) = Ok (a, m') /\
               post data (read_ts o d) a m'.
Proof. exact mem_read_ts. Qed.
Print Assumptions T_C10mp_read_ts.

(* ReadValueType: same type, reader back at d (the ext header was consumed and the position restored) *)
Theorem T_C10mp_read_value_type : forall K data, (8 <= K)%nat -> fits_streamoff data -> bytes_ok data ->
  forall d, Suffix data d ->
  exists a m', interp (memr_step K data) mps_read_value_type (st data d) = Ok (a, m') /\
               post data (match read_value_type d with inl t => ROk t d | inr e => RErr e end) a m'.
Proof. exact mem_read_value_type_c. Qed.
Print Assumptions T_C10mp_read_value_type.

(* the same for EVERY way of answering that the reference reader accepts (any cutting of ReadByChunks),
   one operation of the reader interface at a time: str_op is the string reader's answer *)
Theorem T_C10mp_op_every_accepted_run : forall K data, (8 <= K)%nat -> fits_streamoff data -> bytes_ok data ->
  forall narrow widen fuel o op d, Suffix data d -> (length d < fuel)%nat -> rop_ok data op = true ->
  wp K data (mps_op narrow widen fuel o op) (st data d) (post data (str_op narrow widen data o op d)).
Proof. exact wp_op. Qed.
Print Assumptions T_C10mp_op_every_accepted_run.

(* a wp statement holds on every reader the reference simulates *)
Theorem T_C10mp_transfer : forall K data (S : Type) (step : S -> bop -> outcome (bres * S)) (R : S -> mem -> Prop),
  (forall s m op, R s m -> op_sizet op ->
     exists r s' m', step s op = Ok (r, s') /\ mem_step K data m op r = Some m' /\ R s' m') ->
  forall (A : Type) (p : prog A) s m Q, R s m -> wp K data p m Q ->
  exists a s' m', interp step p s = Ok (a, s') /\ Q a m' /\ R s' m'.
Proof. exact @interp_wp. Qed.
Print Assumptions T_C10mp_transfer.

(* the function form of the in-memory reader is such a reader: the reference accepts its answers *)
Theorem T_C10mp_memr_accepted : forall K data, (8 <= K)%nat -> fits_streamoff data ->
  forall m1 m2 op, MemRel data m1 m2 -> op_sizet op ->
  exists r m1' m2', memr_step K data m1 op = Ok (r, m1') /\ mem_step K data m2 op r = Some m2' /\ MemRel data m1' m2'.
Proof. exact memr_sim. Qed.
Print Assumptions T_C10mp_memr_accepted.

(* ---------------------------------------------------------------- sequences of reads, composed with the reader refinement *)

(* mps_run_bsr .. K (stream_of data true) .. ops = construct CBinaryStreamReader (chunk size K) on a
   seekable stream holding data, run the list of reads (any of: ReadValue for every integer target,
   nullptr, float, double, string_view, CBinTimestamp; ReadArraySize, ReadMapSize, ReadBinarySize,
   ReadBinary, ReadValueType, SkipValue, SetPosition(p) with p inside the data, IsEnd) with
   GetPosition() after each, stopping at the first exception.
   str_run .. data .. ops = the same list on CMsgPackStringReader over data. *)
Theorem T_C10mp_stream_equals_memory : forall K data narrow widen fuel o ops,
  (8 <= K)%nat -> fits_streamoff data -> bytes_ok data -> (length data < fuel)%nat ->
  forallb (rop_ok data) ops = true ->
  mps_run_bsr narrow widen K (stream_of data true) fuel o ops = Ok (str_run narrow widen data o ops).
Proof. exact seq_on_chunked_stream. Qed.
Print Assumptions T_C10mp_stream_equals_memory.

(* the same on the in-memory reader *)
Theorem T_C10mp_memory_reader_equals_memory : forall K data narrow widen fuel o ops,
  (8 <= K)%nat -> fits_streamoff data -> bytes_ok data -> (length data < fuel)%nat ->
  forallb (rop_ok data) ops = true ->
  mps_run_mem narrow widen K data fuel o ops = Ok (str_run narrow widen data o ops).
Proof. exact seq_on_memory. Qed.
Print Assumptions T_C10mp_memory_reader_equals_memory.

(* and on any reader the reference simulates *)
Theorem T_C10mp_any_reader_equals_memory :
  forall (S : Type) (step : S -> bop -> outcome (bres * S)) (R : S -> mem -> Prop) K data narrow widen fuel o ops,
  (8 <= K)%nat -> fits_streamoff data -> bytes_ok data -> (length data < fuel)%nat ->
  forallb (rop_ok data) ops = true ->
  (forall s m op, R s m -> op_sizet op ->
     exists r s' m', step s op = Ok (r, s') /\ mem_step K data m op r = Some m' /\ R s' m') ->
  forall s0, R s0 mem_start ->
  exists s', interp step (mps_seq narrow widen fuel o ops) s0 = Ok (str_run narrow widen data o ops, s').
Proof. exact seq_any_reader. Qed.
Print Assumptions T_C10mp_any_reader_equals_memory.

(* "every chunk size K > 0": false below 8 ... *)
Theorem T_C10mp_stream_equals_memory_anychunk_refuted :
  ~ (forall K data narrow widen fuel o ops,
       (0 < K)%nat -> fits_streamoff data -> bytes_ok data -> (length data < fuel)%nat ->
       forallb (rop_ok data) ops = true ->
       mps_run_bsr narrow widen K (stream_of data true) fuel o ops = Ok (str_run narrow widen data o ops)).
Proof. exact seq_small_chunk_refuted. Qed.
Print Assumptions T_C10mp_stream_equals_memory_anychunk_refuted.

Example T_C10mp_small_chunk_witness :
  mps_run_bsr no_narrow id_widen 4 (stream_of u64doc true) 10 throw_all [RdInt (mkIty false 64)] = Ok [AErrOf EParse] /\
  str_run no_narrow id_widen u64doc throw_all [RdInt (mkIty false 64)] = [AOkAt (VInt 1) 9].
Proof. exact small_chunk_witness. Qed.
Print Assumptions T_C10mp_small_chunk_witness.

(* every SetPosition argument: false beyond the end of the data (the string reader throws
   std::invalid_argument, the stream reader SerializationException(InputOutputError) since fix 24799d8 —
   it returned normally before: both throw, different classes); both outside statements are
   T_C10mp_stream_equals_memory *)
Theorem T_C10mp_stream_equals_memory_anysetpos_refuted :
  ~ (forall K data narrow widen fuel o ops,
       (8 <= K)%nat -> fits_streamoff data -> bytes_ok data -> (length data < fuel)%nat ->
       mps_run_bsr narrow widen K (stream_of data true) fuel o ops = Ok (str_run narrow widen data o ops)).
Proof. exact seq_setpos_beyond_refuted. Qed.
Print Assumptions T_C10mp_stream_equals_memory_anysetpos_refuted.

Example T_C10mp_setpos_beyond_witness :
  mps_run_bsr no_narrow id_widen 8 (stream_of [0xC0] true) 10 throw_all [RdSetPos 2] = Ok [AIOErr] /\
  str_run no_narrow id_widen [0xC0] throw_all [RdSetPos 2] = [AErrOf EInvalidArg].
Proof. exact setpos_beyond_witness. Qed.
Print Assumptions T_C10mp_setpos_beyond_witness.

(* ---------------------------------------------------------------- adaptive clients (the archive layer) *)

(* client A = a deterministic client of the IMsgPackReader interface: it issues one of the operations
   above, sees the answer (value / not loaded / exception class, and GetPosition() after a call that
   returned) and decides from everything seen so far what to do next; CRet a = it is done.
   mps_client_bsr .. K (stream_of data true) .. c = (transcript, result) of c driving CMsgPackStreamReader
   over the chunked reader; str_client_run .. data .. c = the same client driving CMsgPackStringReader.
   A run ends when the client returns or at the first exception.
   client_seeks_ok = every SetPosition(p) the client issues when driven by the string reader has
   p <= size (otherwise that run ends in std::invalid_argument: T_C10mp_setpos_beyond_witness). *)
Theorem T_C10mp_adaptive_stream_equals_memory : forall K data narrow widen fuel o (A : Type) (c : client A),
  (8 <= K)%nat -> fits_streamoff data -> bytes_ok data -> (length data < fuel)%nat ->
  client_seeks_ok narrow widen data o c data = true ->
  mps_client_bsr narrow widen K (stream_of data true) fuel o c = Ok (str_client_run narrow widen data o c).
Proof. exact client_on_chunked_stream. Qed.
Print Assumptions T_C10mp_adaptive_stream_equals_memory.

Theorem T_C10mp_adaptive_any_reader :
  forall (S : Type) (step : S -> bop -> outcome (bres * S)) (R : S -> mem -> Prop)
         K data narrow widen fuel o (A : Type) (c : client A),
  (8 <= K)%nat -> fits_streamoff data -> bytes_ok data -> (length data < fuel)%nat ->
  client_seeks_ok narrow widen data o c data = true ->
  (forall s m op, R s m -> op_sizet op ->
     exists r s' m', step s op = Ok (r, s') /\ mem_step K data m op r = Some m' /\ R s' m') ->
  forall s0, R s0 mem_start ->
  exists s', interp step (mps_client narrow widen fuel o c []) s0 = Ok (str_client_run narrow widen data o c, s').
Proof. exact client_any_reader. Qed.
Print Assumptions T_C10mp_adaptive_any_reader.

(* the strategy form: sigma maps the transcript so far (operation, answer with position) to the next
   operation or None = stop; at most n steps.  A strategy that seeks only to 0, to positions GetPosition()
   has shown it, or otherwise inside the data (seeks_inside) needs no further hypothesis. *)
Theorem T_C10mp_strategy_stream_equals_memory : forall K data narrow widen fuel o n (sigma : strategy),
  (8 <= K)%nat -> fits_streamoff data -> bytes_ok data -> (length data < fuel)%nat ->
  seeks_inside data sigma ->
  mps_client_bsr narrow widen K (stream_of data true) fuel o (client_of n sigma []) =
    Ok (str_client_run narrow widen data o (client_of n sigma [])).
Proof. exact strategy_on_chunked_stream. Qed.
Print Assumptions T_C10mp_strategy_stream_equals_memory.

Theorem T_C10mp_seeks_known_suffices : forall data sigma, seeks_known sigma -> seeks_inside data sigma.
Proof. exact seeks_known_inside. Qed.
Print Assumptions T_C10mp_seeks_known_suffices.

(* COROLLARY, in words.  Any deterministic client of the IMsgPackReader interface that respects the
   precondition of SetPosition observes no difference between memory and stream loading: same answers,
   same positions, same exception class at the same step, hence the same decisions and the same result.
   The archive scope classes are such clients: their model coq/MpScopeModel.v (ReadKey, FindValueByKey,
   ResetKey, SerializeValue, VisitKeys, the array / binary scopes) touches the input only through the
   string-reader model's functions (read_int .. read_ts, read_value_type, read_*_size, read_binary,
   skip_at; a suffix serves as the position, SetPosition targets are mStartPos or positions obtained
   before, and the length of a suffix occurs only as loop fuel), i.e. it is a client in the sense above up
   to the first exception.  (Stated in words: MpScopeModel.v is not re-expressed as a [client] term here.)  What is NOT covered: what scope destructors do while an exception propagates (they go on
   skipping from where the reader stands after the throw, which differs between the two readers exactly as
   T_C10mp_skip_throw_related says; the propagating exception is the same), streams without seek support,
   chunk sizes below 8. *)

(* one concrete adaptive client: FindValueByKey in miniature (MpStreamModel.find_by_key: read the map
   size, remember the position; per member read the key as a string, skip the value unless the key is the
   wanted one, then read it as int32; finally SetPosition back to the remembered position) — on every
   document, every chunk size >= 8 *)
Theorem T_C10mp_find_by_key : forall K data narrow widen fuel o bound key,
  (8 <= K)%nat -> fits_streamoff data -> bytes_ok data -> (length data < fuel)%nat ->
  mps_client_bsr narrow widen K (stream_of data true) fuel o (find_by_key bound key) =
    Ok (str_client_run narrow widen data o (find_by_key bound key)).
Proof. exact find_by_key_stream_equals_memory. Qed.
Print Assumptions T_C10mp_find_by_key.

Example T_C10mp_example_find_by_key :
  str_client_run no_narrow id_widen find_doc throw_all (find_by_key 27 [0x6B]) =
    ([(RdMap, AOkAt (VNum 4) 1); (RdStr, AOkAt (VBytes [0x61]) 3); (RdSkip, AOkAt VUnit 4);
      (RdStr, AOkAt (VBytes [0x62; 0x63; 0x64; 0x65; 0x66; 0x67; 0x68; 0x69; 0x6A]) 14); (RdSkip, AOkAt VUnit 17);
      (RdStr, AOkAt (VBytes [0x6B]) 19); (RdInt s32, AOkAt (VInt (-70000)) 24); (RdSetPos 1, AOkAt VUnit 1)],
     Some (Some (-70000)%Z)) /\
  mps_client_bsr no_narrow id_widen 8 (stream_of find_doc true) 28 throw_all (find_by_key 27 [0x6B]) =
    Ok (str_client_run no_narrow id_widen find_doc throw_all (find_by_key 27 [0x6B])) /\
  mps_client_mem no_narrow id_widen 8 find_doc 28 throw_all (find_by_key 27 [0x6B]) =
    Ok (str_client_run no_narrow id_widen find_doc throw_all (find_by_key 27 [0x6B])) /\
  snd (str_client_run no_narrow id_widen find_doc throw_all (find_by_key 27 [0x71])) = Some None.
Proof. exact find_by_key_run. Qed.
Print Assumptions T_C10mp_example_find_by_key.

(* ---------------------------------------------------------------- streams without seek support *)

(* stream_of data false = a stream whose streambuf cannot seek (a pipe, a socket, a decompressor).
   CBinaryStreamReader::SetPosition then works only inside the cached window, at the stream position, or
   (refused, correctly) beyond the data: finding F16b, T_C10_bsr_refines_anystream_outside.  The MsgPack
   stream reader calls it in SkipValueImpl (forward; a refusal is ParsingException), in ReadExtFamilyType
   (back to the start of the ext header), in ReadValue(CBinTimestamp) (forward over the header) and in its
   own SetPosition; since fix 24799d8 a refusal at the last three is SerializationException(InputOutputError)
   (outcome QIO / answer AIOErr) — before, it was dropped and the reader went on from the wrong place.

   NO SILENT DIFFERENCE.  same_or_throws l str: l = str, or str = pre ++ rest and l = pre ++ [e] with e a
   ParsingError or an InputOutputError.  For every chunk size K >= 8, every data, every list of reads: on
   a non-seekable stream the stream reader gives the string reader's answers (values, not-loaded,
   positions, error classes), or gives them up to some call and ends there in one of these two exceptions.
   Never a different value. *)
Theorem T_C10mp_nonseekable_no_silent_difference : forall K data narrow widen fuel o ops,
  (8 <= K)%nat -> fits_streamoff data -> bytes_ok data -> (length data < fuel)%nat ->
  forallb (rop_ok data) ops = true ->
  exists l, mps_run_bsr narrow widen K (stream_of data false) fuel o ops = Ok l /\
            same_or_throws l (str_run narrow widen data o ops).
Proof. exact seq_nonseekable_no_silent. Qed.
Print Assumptions T_C10mp_nonseekable_no_silent_difference.

(* the same for every adaptive client: its transcript is the string-side transcript (and its result the
   same), or a prefix of it followed by the call that threw, and no result *)
Theorem T_C10mp_nonseekable_no_silent_difference_adaptive : forall K data narrow widen fuel o (A : Type) (c : client A),
  (8 <= K)%nat -> fits_streamoff data -> bytes_ok data -> (length data < fuel)%nat ->
  client_seeks_ok narrow widen data o c data = true ->
  exists res, mps_client_bsr narrow widen K (stream_of data false) fuel o c = Ok res /\
              client_same_or_throws res (str_client_run narrow widen data o c).
Proof. exact client_nonseekable_no_silent. Qed.
Print Assumptions T_C10mp_nonseekable_no_silent_difference_adaptive.

(* EXACT CLASS.  On a non-seekable stream the answers are the string reader's IF AND ONLY IF no SetPosition of
   the run leaves the cached window (F16b's class is the exact complement at the MsgPack level) ... *)
Theorem T_C10mp_nonseekable_exact_class : forall K data narrow widen fuel o ops,
  (8 <= K)%nat -> fits_streamoff data -> bytes_ok data -> (length data < fuel)%nat ->
  forallb (rop_ok data) ops = true ->
  (mps_run_bsr narrow widen K (stream_of data false) fuel o ops = Ok (str_run narrow widen data o ops) <->
   nonseek_ok narrow widen K data fuel o ops = true).
Proof. exact seq_nonseekable_exact. Qed.
Print Assumptions T_C10mp_nonseekable_exact_class.

(* ... and in the complement the run is a prefix of the string reader's answers followed by InputOutputError *)
Theorem T_C10mp_nonseekable_nonlocal_ends_in_io_error : forall K data narrow widen fuel o ops,
  (8 <= K)%nat -> fits_streamoff data -> bytes_ok data -> (length data < fuel)%nat ->
  forallb (rop_ok data) ops = true ->
  nonseek_ok narrow widen K data fuel o ops = false ->
  exists pre, mps_run_bsr narrow widen K (stream_of data false) fuel o ops = Ok (pre ++ [AIOErr]).
Proof. exact seq_nonseekable_nonlocal. Qed.
Print Assumptions T_C10mp_nonseekable_nonlocal_ends_in_io_error.

(* A CLIENT CLASS inside it, independent of K and of the data: forward_op = ReadValue for every integer / bool
   target and nullptr, ReadBinary, SkipValue, IsEnd — the calls that neither look ahead into an ext header nor
   seek (since e491e27 SkipValueImpl reads through the value).  Such a client gets exactly the memory reader's
   answers from a non-seekable stream: every byte string (also ill-formed), every chunk size >= 8. *)
Theorem T_C10mp_nonseekable_forward_client : forall K data narrow widen fuel o ops,
  (8 <= K)%nat -> fits_streamoff data -> bytes_ok data -> (length data < fuel)%nat ->
  forallb forward_op ops = true ->
  mps_run_bsr narrow widen K (stream_of data false) fuel o ops = Ok (str_run narrow widen data o ops).
Proof. exact forward_nonseekable_equals_memory. Qed.
Print Assumptions T_C10mp_nonseekable_forward_client.

(* the same for every ADAPTIVE client all of whose possible calls are forward_op calls (client_forward: its
   decisions may depend on everything it has seen): same transcript, same result *)
Theorem T_C10mp_nonseekable_forward_adaptive_client : forall K data narrow widen fuel o (A : Type) (c : client A),
  (8 <= K)%nat -> fits_streamoff data -> bytes_ok data -> (length data < fuel)%nat ->
  client_forward c ->
  mps_client_bsr narrow widen K (stream_of data false) fuel o c = Ok (str_client_run narrow widen data o c).
Proof. exact forward_client_nonseekable_equals_memory. Qed.
Print Assumptions T_C10mp_nonseekable_forward_adaptive_client.

(* A LARGER CLIENT CLASS, decided on the string reader's run and independent of K and of the stream:
   lookahead_free = the client never calls SetPosition, and its look-ahead calls (ReadValueType, ReadValue(float /
   double / string_view / CBinTimestamp), ReadArraySize / ReadMapSize / ReadBinarySize) never stand in front of an
   ext-family value; forward_op calls are free.  In particular: every document without ext values, read without
   rewinding. *)
Theorem T_C10mp_nonseekable_lookahead_client : forall K data narrow widen fuel o ops,
  (8 <= K)%nat -> fits_streamoff data -> bytes_ok data -> (length data < fuel)%nat ->
  forallb (rop_ok data) ops = true ->
  lookahead_free narrow widen data o ops data = true ->
  mps_run_bsr narrow widen K (stream_of data false) fuel o ops = Ok (str_run narrow widen data o ops).
Proof. exact lookahead_nonseekable_equals_memory. Qed.
Print Assumptions T_C10mp_nonseekable_lookahead_client.

Example T_C10mp_nonseekable_lookahead_examples :
  lookahead_free no_narrow id_widen straddle_doc skip_all
    [RdType; RdStr; RdStr; RdInt (mkIty false 16); RdArr; RdInt u8t; RdNil; RdType; RdF64] straddle_doc = true /\
  mps_run_bsr no_narrow id_widen 8 (stream_of straddle_doc false) 100 skip_all
    [RdType; RdStr; RdStr; RdInt (mkIty false 16); RdArr; RdInt u8t; RdNil; RdType; RdF64] =
    Ok [AOkAt (VType TStr) 0; AOkAt (VBytes [0x61; 0x62; 0x63]) 4; AOkAt (VBytes [1; 2; 3; 4; 5; 6; 7; 8; 9; 10]) 16;
        AOkAt (VInt 256) 19; AOkAt (VNum 2) 20; AOkAt (VInt 1) 21; AOkAt VUnit 22; AOkAt (VType TFloat) 22;
        AOkAt (VNum 0x3F800000) 27] /\
  lookahead_free no_narrow id_widen ns_ts_doc throw_all (nils 7 ++ [RdTs]) ns_ts_doc = false.
Proof. exact lookahead_examples. Qed.
Print Assumptions T_C10mp_nonseekable_lookahead_examples.

(* EQUAL ANSWERS: "stream = memory on a non-seekable stream" is false (witness: the timestamp below, an
   InputOutputError on a well-formed document) ... *)
Theorem T_C10mp_nonseekable_refuted :
  ~ (forall K data narrow widen fuel o ops,
       (8 <= K)%nat -> fits_streamoff data -> bytes_ok data -> (length data < fuel)%nat ->
       forallb (rop_ok data) ops = true ->
       mps_run_bsr narrow widen K (stream_of data false) fuel o ops = Ok (str_run narrow widen data o ops)).
Proof. exact seq_nonseekable_refuted. Qed.
Print Assumptions T_C10mp_nonseekable_refuted.

(* SkipValue is no longer a way to fail: a value ending beyond the cached window, nested containers and
   mismatching targets skipped across several chunks are in the class (before e491e27: ParsingError) *)
Example T_C10mp_nonseekable_skip_works :
  mps_run_bsr no_narrow id_widen 8 (stream_of ns_skip_doc false) 20 throw_all [RdSkip; RdInt u8t] =
    Ok (str_run no_narrow id_widen ns_skip_doc throw_all [RdSkip; RdInt u8t]) /\
  str_run no_narrow id_widen ns_skip_doc throw_all [RdSkip; RdInt u8t] = [AOkAt VUnit 11; AOkAt (VInt 42) 12] /\
  nonseek_ok no_narrow id_widen 8 ns_skip_doc 20 throw_all [RdSkip; RdInt u8t] = true /\
  nonseek_ok no_narrow id_widen 8 straddle_doc 100 skip_all [RdSkip; RdSkip; RdNil; RdSkip; RdStr; RdSkip; RdSkip] = true.
Proof. exact ns_skip_witness. Qed.
Print Assumptions T_C10mp_nonseekable_skip_works.

(* ... and true whenever no SetPosition of the run leaves the cached window.
   nonseek_ok .. K data fuel o ops = along the run of the reads on the chunked reader over the non-seekable
   stream, every SetPosition issued is local (StreamBsrProofs.op_local) — a boolean computed from
   (K, data, policies, ops) by running the model; nonseek_client_ok the same for an adaptive client. *)
Theorem T_C10mp_nonseekable_outside : forall K data narrow widen fuel o ops,
  (8 <= K)%nat -> fits_streamoff data -> bytes_ok data -> (length data < fuel)%nat ->
  forallb (rop_ok data) ops = true ->
  nonseek_ok narrow widen K data fuel o ops = true ->
  mps_run_bsr narrow widen K (stream_of data false) fuel o ops = Ok (str_run narrow widen data o ops).
Proof. exact seq_nonseekable_outside. Qed.
Print Assumptions T_C10mp_nonseekable_outside.

Theorem T_C10mp_nonseekable_adaptive_outside : forall K data narrow widen fuel o (A : Type) (c : client A),
  (8 <= K)%nat -> fits_streamoff data -> bytes_ok data -> (length data < fuel)%nat ->
  client_seeks_ok narrow widen data o c data = true ->
  nonseek_client_ok narrow widen K data fuel o c = true ->
  mps_client_bsr narrow widen K (stream_of data false) fuel o c = Ok (str_client_run narrow widen data o c).
Proof. exact client_nonseekable_outside. Qed.
Print Assumptions T_C10mp_nonseekable_adaptive_outside.

(* the remaining ways to leave the class — backward seeks across a chunk boundary — all end in
   InputOutputError (K = 8; with chunk_size 256 put 248 more bytes in front):
   (1) a timestamp whose ext header straddles a chunk boundary (0xD6 last byte of a chunk, 0xFF first of the
       next): InputOutputError (before 24799d8: seconds 0x00050102 instead of 5, no exception) *)
Example T_C10mp_nonseekable_witness_timestamp :
  mps_run_bsr no_narrow id_widen 8 (stream_of ns_ts_doc false) 20 throw_all (nils 7 ++ [RdTs]) =
    Ok (map (fun i => AOkAt VUnit (N.of_nat i)) (seq 1 7) ++ [AIOErr]) /\
  str_run no_narrow id_widen ns_ts_doc throw_all (nils 7 ++ [RdTs]) =
    map (fun i => AOkAt VUnit (N.of_nat i)) (seq 1 7) ++ [AOkAt (VTs 5 0) 13] /\
  nonseek_ok no_narrow id_widen 8 ns_ts_doc 20 throw_all (nils 7 ++ [RdTs]) = false /\
  mps_run_bsr no_narrow id_widen 8 (stream_of ns_ts_doc true) 20 throw_all (nils 7 ++ [RdTs]) =
    Ok (str_run no_narrow id_widen ns_ts_doc throw_all (nils 7 ++ [RdTs])).
Proof. exact ns_ts_witness. Qed.
Print Assumptions T_C10mp_nonseekable_witness_timestamp.

(* (2) ReadValueType on that header: InputOutputError (before: the right type, reader left inside the value) *)
Example T_C10mp_nonseekable_witness_value_type :
  mps_run_bsr no_narrow id_widen 8 (stream_of ns_ts_doc false) 20 skip_all (nils 7 ++ [RdType; RdInt u8t]) =
    Ok (map (fun i => AOkAt VUnit (N.of_nat i)) (seq 1 7) ++ [AIOErr]) /\
  str_run no_narrow id_widen ns_ts_doc skip_all (nils 7 ++ [RdType; RdInt u8t]) =
    map (fun i => AOkAt VUnit (N.of_nat i)) (seq 1 7) ++ [AOkAt (VType TTimestamp) 7; ANotAt 13].
Proof. exact ns_type_witness. Qed.
Print Assumptions T_C10mp_nonseekable_witness_value_type.

(* (3) the reader's own SetPosition (the scopes' seek back to mStartPos) back across a chunk boundary:
       InputOutputError (before: ignored, reading went on where it was) *)
Example T_C10mp_nonseekable_witness_rewind :
  mps_run_bsr no_narrow id_widen 8 (stream_of ns_rewind_doc false) 20 throw_all
    (repeat (RdInt u8t) 9 ++ [RdSetPos 0; RdInt u8t]) =
    Ok (map (fun i => AOkAt (VInt (Z.of_nat i)) (N.of_nat i)) (seq 1 9) ++ [AIOErr]) /\
  str_run no_narrow id_widen ns_rewind_doc throw_all (repeat (RdInt u8t) 9 ++ [RdSetPos 0; RdInt u8t]) =
    map (fun i => AOkAt (VInt (Z.of_nat i)) (N.of_nat i)) (seq 1 9) ++ [AOkAt VUnit 0; AOkAt (VInt 1) 1].
Proof. exact ns_rewind_witness. Qed.
Print Assumptions T_C10mp_nonseekable_witness_rewind.

(* in the class: a document inside one chunk with type probe, skip and rewind; documents read front to back *)
Example T_C10mp_nonseekable_examples_in_class :
  nonseek_ok no_narrow id_widen 8 [0x92; 0xD6; 0xFF; 0; 0; 0; 5] 20 throw_all [RdType; RdSkip; RdSetPos 0; RdArr; RdTs] = true /\
  nonseek_ok no_narrow id_widen 8 ns_skip_doc 20 throw_all [RdStr; RdInt u8t; RdIsEnd] = true /\
  nonseek_ok no_narrow id_widen 8 straddle_doc 100 skip_all
    [RdStr; RdStr; RdInt (mkIty false 16); RdArr; RdInt u8t; RdNil; RdF32] = true.
Proof. exact ns_ok_examples. Qed.
Print Assumptions T_C10mp_nonseekable_examples_in_class.

(* ---------------------------------------------------------------- where the readers stand after a failing SkipValue *)

(* (the scope destructors of the archive go on skipping from there inside try/catch.)
   skip_at_impl  = MpScopeModel: the string reader's SkipValueImpl with the position at the throw
   sskip_at_impl = MpStreamProofs: the same for the stream reader, which since fix e491e27 moves over a value's
                   bytes by reading through them (SkipBytes) and so stands at the END OF THE DATA when they are cut short
   apost         = same outcome, and at a throw the reference reader's position is that suffix.
   Every accepted run of the stream reader's SkipValueImpl ends as sskip_at_impl says (checked against the real
   reader by the `p` lines of run_mpstream): *)
Theorem T_C10mp_skip_throw_position : forall K data, (8 <= K)%nat -> fits_streamoff data -> bytes_ok data ->
  forall lf f d, (length data < lf)%nat -> Suffix data d ->
  wp K data (mps_skip_impl lf f) (st data d) (apost data (sskip_at_impl f d)).
Proof. exact skip_throw_position. Qed.
Print Assumptions T_C10mp_skip_throw_position.

(* "both readers stand at the same place after the throw": false ... *)
Theorem T_C10mp_skip_throw_same_position_refuted : ~ (forall f d, sskip_at_impl f d = skip_at_impl f d).
Proof. exact skip_throw_same_refuted. Qed.
Print Assumptions T_C10mp_skip_throw_same_position_refuted.

(* ... exactly when the string reader threw behind the type byte of a value whose header is complete and
   whose own bytes (payload of a str / bin / ext, bytes of a number) are cut short, with at least one byte
   left (payload_cut): the stream reader then stands at the end of the data (at_rel).  Same error class always. *)
Theorem T_C10mp_skip_throw_same_position_outside : forall f d,
  payload_cut f d = false -> sskip_at_impl f d = skip_at_impl f d.
Proof. exact skip_throw_outside. Qed.
Print Assumptions T_C10mp_skip_throw_same_position_outside.

Theorem T_C10mp_skip_throw_related : forall f d, at_rel d (sskip_at_impl f d) (skip_at_impl f d).
Proof. exact skip_at_rel. Qed.
Print Assumptions T_C10mp_skip_throw_related.

Example T_C10mp_skip_throw_witness :
  sskip_at_impl 10 [0xD9; 5; 0x61] = AErr EParse [] /\ skip_at_impl 10 [0xD9; 5; 0x61] = AErr EParse [5; 0x61] /\
  payload_cut 10 [0xD9; 5; 0x61] = true /\
  sskip_at_impl 10 [0x92; 1; 0xC5; 0; 3; 0x61] = AErr EParse [] /\
  skip_at_impl 10 [0x92; 1; 0xC5; 0; 3; 0x61] = AErr EParse [0; 3; 0x61] /\
  sskip_at_impl 10 [0xCD; 1] = AErr EParse [] /\ skip_at_impl 10 [0xCD; 1] = AErr EParse [1] /\
  sskip_at_impl 10 [0xDA; 1] = skip_at_impl 10 [0xDA; 1] /\ sskip_at_impl 10 [0xC1; 0] = skip_at_impl 10 [0xC1; 0] /\
  sskip_at_impl 10 [0x92] = skip_at_impl 10 [0x92].
Proof. exact skip_throw_witness. Qed.
Print Assumptions T_C10mp_skip_throw_witness.

(* ---------------------------------------------------------------- non-vacuity *)

(* chunk size 8 and 9, a document whose values straddle the chunk boundaries (see MpStreamProofs.v),
   with a seek back into an earlier chunk *)
Example T_C10mp_example_straddle :
  str_run no_narrow id_widen straddle_doc skip_all straddle_ops =
    [AOkAt (VBytes [0x61; 0x62; 0x63]) 4; AOkAt (VBytes [1; 2; 3; 4; 5; 6; 7; 8; 9; 10]) 16; ANotAt 19;
     AOkAt VUnit 22; AOkAt (VType TFloat) 22; AOkAt (VNum 0x3F800000) 27; AOkAt VUnit 22;
     AOkAt (VNum 0x3F800000) 27; AOkAt (VType TTimestamp) 27; AOkAt (VTs 5 0) 33; AOkAt (VInt 1) 42;
     AOkAt (VBool true) 42; AErrOf EParse] /\
  mps_run_bsr no_narrow id_widen 8 (stream_of straddle_doc true) 100 skip_all straddle_ops =
    Ok (str_run no_narrow id_widen straddle_doc skip_all straddle_ops) /\
  mps_run_bsr no_narrow id_widen 9 (stream_of straddle_doc true) 100 skip_all straddle_ops =
    Ok (str_run no_narrow id_widen straddle_doc skip_all straddle_ops) /\
  mps_run_mem no_narrow id_widen 8 straddle_doc 100 skip_all straddle_ops =
    Ok (str_run no_narrow id_widen straddle_doc skip_all straddle_ops).
Proof. exact straddle_run. Qed.
Print Assumptions T_C10mp_example_straddle.

Example T_C10mp_example_truncated :
  mps_run_bsr no_narrow id_widen 8 (stream_of (firstn 13 straddle_doc) true) 100 skip_all [RdStr; RdStr; RdNil] =
    Ok [AOkAt (VBytes [0x61; 0x62; 0x63]) 4; AErrOf EParse] /\
  str_run no_narrow id_widen (firstn 13 straddle_doc) skip_all [RdStr; RdStr; RdNil] =
    [AOkAt (VBytes [0x61; 0x62; 0x63]) 4; AErrOf EParse].
Proof. exact straddle_truncated. Qed.
Print Assumptions T_C10mp_example_truncated.
