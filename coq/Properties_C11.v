(* Properties_C11.v — C11: transcoding valid Unicode text between UTF-8/16/32 is exact and reversible.
   Statements only; every proof is [exact <lemma>].  enc/encs are the encoding forms of UtfSpec.v
   (Unicode Table 3-6, D91), transcode is the model of Convert::Utf::Transcode (UtfModel.v). *)
From BS Require Import Base UtfSpec UtfModel UtfLemmas UtfProofs UtfOrder.
Local Open Scope N_scope.

(* for every sequence of scalar values, every ordered pair of code-unit widths (same-width = the copy
   path), both policies, any mark and any prior output: exact target encoding form appended, zero
   errors, iterator at the end of the input *)
Theorem T_C11_exact : forall src dst pol mark cps out0, Forall scalar cps ->
  transcode src dst pol mark (encs src cps) out0 =
    mkR Success (length (encs src cps)) 0 (out0 ++ encs dst cps).
Proof. exact transcode_exact'. Qed.
Print Assumptions T_C11_exact.

(* transcoding back restores the input *)
Theorem T_C11_roundtrip : forall src dst pol mark cps, Forall scalar cps ->
  let r1 := transcode src dst pol mark (encs src cps) [] in
  r_code r1 = Success /\
  transcode dst src pol mark (r_out r1) [] = mkR Success (length (encs dst cps)) 0 (encs src cps).
Proof. exact transcode_roundtrip. Qed.
Print Assumptions T_C11_roundtrip.

(* the encoders of the model are the standard encoding forms (shortest-form UTF-8, surrogate pairs only
   for supplementary code points) *)
Theorem T_C11_encoders_standard : forall src dst c, src <> dst -> scalar c -> encf src dst c = enc dst c.
Proof. exact encf_spec. Qed.
Print Assumptions T_C11_encoders_standard.

(* one decoding step recognises exactly the standard form, whatever follows it *)
Theorem T_C11_decoder_complete : forall src c rest, units src rest -> scalar c ->
  decf src (enc src c ++ rest) = DOk c (length (enc src c)).
Proof. exact decf_complete. Qed.
Print Assumptions T_C11_decoder_complete.

(* byte order: Memory::Reverse on 16-bit units is the byte swap, for all 65536 values *)
Theorem T_C11_rev16 : forall u, u < 65536 -> rev16 u = (u mod 256) * 256 + u / 256.
Proof. exact rev16_spec. Qed.
Print Assumptions T_C11_rev16.

Theorem T_C11_rev32 : forall u, u < 4294967296 ->
  rev32 u = (u mod 256) * 16777216 + ((u / 256) mod 256) * 65536 + ((u / 65536) mod 256) * 256 + u / 16777216.
Proof. exact rev32_spec. Qed.
Print Assumptions T_C11_rev32.

(* the BE classes: encoding then reading the units in big-endian byte order gives the spec's UTF-16BE /
   UTF-32BE encoding scheme *)
Theorem T_C11_class_encode_scheme : forall dst e src pol mark cps, src <> dst -> Forall scalar cps ->
  let r := class_encode dst e src pol mark (encs src cps) [] in
  r_code r = Success /\ r_cnt r = 0%nat /\ r_pos r = length (encs src cps) /\
  units_bytes LE dst (r_out r) = units_bytes e dst (encs dst cps).
Proof. exact class_encode_scheme. Qed.
Print Assumptions T_C11_class_encode_scheme.

Theorem T_C11_class_decode_scheme : forall src e dst pol mark cps stored, src <> dst -> Forall scalar cps ->
  Forall (fun u => u < unit_bound src) stored ->
  units_bytes LE src stored = units_bytes e src (encs src cps) ->
  class_decode src e dst pol mark stored [] = mkR Success (length stored) 0 (encs dst cps).
Proof. exact class_decode_scheme. Qed.
Print Assumptions T_C11_class_decode_scheme.

(* non-vacuity *)
Example T_C11_example :
  transcode W32 W8 Skip [] [0x41; 0x20AC; 0x1F600] [] =
    mkR Success 3 0 [0x41; 0xE2; 0x82; 0xAC; 0xF0; 0x9F; 0x98; 0x80].
Proof. exact exact_example. Qed.
Print Assumptions T_C11_example.
