(* Properties_C12.v — C12: ill-formed UTF input is reported or replaced per policy, never propagated.
   Statements only.  skip_spec (UtfSpec.v) is the replacement relation; wf is well-formedness. *)
From BS Require Import Base UtfSpec UtfModel UtfLemmas UtfProofs.
Local Open Scope N_scope.

(* stays within the bounds of its input and terminates (fuel S (length inp) is never exhausted);
   prior output is only appended to *)
Theorem T_C12_total_in_bounds : forall src dst pol mark inp out0, units src inp ->
  let r := transcode src dst pol mark inp out0 in
  (r_pos r <= length inp)%nat /\ r_code r <> OutOfFuel /\ exists o, r_out r = out0 ++ o.
Proof. exact transcode_in_bounds. Qed.
Print Assumptions T_C12_total_in_bounds.

(* skip policy: each ill-formed sequence replaced by the mark, well-formed text preserved, count =
   number of replacements, output well-formed whenever the mark is; an incomplete tail is reported
   as UnexpectedEnd at its first unit with everything before it handled the same way *)
Theorem T_C12_skip : forall src dst mark inp out0,
  width_eqb src dst = false -> units src inp ->
  let r := transcode src dst Skip mark inp out0 in
  exists consumed rest o,
    inp = consumed ++ rest /\ r_out r = out0 ++ o /\ r_pos r = length consumed /\
    (wf dst mark -> wf dst o) /\
    ( (r_code r = Success /\ rest = [] /\ skip_spec src dst mark inp o (r_cnt r))
    \/ (r_code r = UnexpectedEnd /\ (0 < length rest < maxlen src)%nat /\
        (forall c, scalar c -> ~ is_prefix (enc src c) rest) /\
        exists n, skip_spec src dst mark consumed o n /\ r_cnt r = trunc_cnt src dst n) ).
Proof. exact transcode_skip. Qed.
Print Assumptions T_C12_skip.

(* fail policy: success exactly on well-formed input; otherwise the well-formed prefix has been
   transcoded exactly and the reported position is where the offending sequence starts *)
Theorem T_C12_fail : forall src dst mark inp out0,
  width_eqb src dst = false -> units src inp ->
  let r := transcode src dst ThrowError mark inp out0 in
  (r_code r = Success <-> wf src inp) /\
  exists cps rest,
    Forall scalar cps /\ inp = encs src cps ++ rest /\
    r_out r = out0 ++ encs dst cps /\ r_pos r = length (encs src cps) /\
    ( (rest = [] /\ r_code r = Success /\ r_cnt r = 0%nat)
    \/ (rest <> [] /\ (forall c, scalar c -> ~ is_prefix (enc src c) rest) /\
        ( (r_code r = InvalidSequence /\ r_cnt r = 1%nat)
        \/ (r_code r = UnexpectedEnd /\ (length rest < maxlen src)%nat) )) ).
Proof. exact transcode_throw. Qed.
Print Assumptions T_C12_fail.

(* the replacement relation only ever yields well-formed output *)
Theorem T_C12_skip_spec_wf : forall src dst mark inp o n,
  wf dst mark -> skip_spec src dst mark inp o n -> wf dst o.
Proof. exact skip_spec_wf. Qed.
Print Assumptions T_C12_skip_spec_wf.

(* one decoding step never accepts anything but the standard form of a scalar value (overlong forms,
   surrogates, values above U+10FFFF, broken pairs are all rejected) *)
Theorem T_C12_decoder_sound : forall src l sym n, units src l -> decf src l = DOk sym n ->
  scalar sym /\ l = enc src sym ++ skipn n l /\ n = length (enc src sym).
Proof. exact decf_sound. Qed.
Print Assumptions T_C12_decoder_sound.

(* non-vacuity: both error branches are reachable *)
Example T_C12_example_skip :
  transcode W8 W16 Skip [0xFFFD] [0x41; 0xC0; 0x80; 0xE4; 0xB8; 0xAD; 0xF0; 0x9F] [] =
    mkR UnexpectedEnd 6 1 [0x41; 0xFFFD; 0x4E2D].
Proof. exact skip_example. Qed.
Print Assumptions T_C12_example_skip.

Example T_C12_example_fail :
  transcode W16 W8 ThrowError [] [0x41; 0xD800; 0xE000] [0x7E] = mkR InvalidSequence 1 1 [0x7E; 0x41].
Proof. exact throw_example. Qed.
Print Assumptions T_C12_example_fail.
