(* Properties_C13.v — C13: encoded text streams: detection, BOM and chunked decoding are lossless.
   Statements only.
     detect            DetectEncoding(string_view)                         (StreamModel.v)
     detect_stream     DetectEncoding(istream&, skipBomWhenFound)
     esr_run K tgt pol mark fuel is
                       construct CEncodedStreamReader<tgt, K> on the stream and call ReadChunk until it
                       does not return Success (at most fuel times): RunDone results output type
     esw_run e bom pol pieces     CEncodedStreamWriter: the error codes and the bytes written
     text_bytes e text / bom e / with_bom b e text   the encoding schemes (StreamSpec.v)
     encs w text       the code units of a text in width w                 (UtfSpec.v) *)
From BS Require Import Base UtfSpec UtfModel UtfLemmas StreamIStream StreamSpec StreamModel
  StreamUnits StreamDetProofs StreamDetAt StreamEsrProofs StreamLossless StreamTruncated StreamEswProofs.
From BS Require Import StreamPropProofs StreamIllFormed StreamChunks.
Local Open Scope nat_scope.

(* ------------------------------------------------------------------ detection, with BOM *)

(* full strength: every BOM is recognised with its length.  False: FF FE 00 00 is both the UTF-16LE
   BOM followed by U+0000 and the UTF-32LE BOM (no detector can tell) *)
Theorem T_C13_detect_bom_refuted :
  ~ (forall e text, Forall scalar text -> detect (bom e ++ text_bytes e text) = Ok (e, length (bom e))).
Proof. exact T_C13_detect_bom_refuted_proof. Qed.
Print Assumptions T_C13_detect_bom_refuted.

Theorem T_C13_detect_bom_outside : forall e text, Forall scalar text -> bom_defect e text = false ->
  detect (bom e ++ text_bytes e text) = Ok (e, length (bom e)).
Proof. exact detect_bom_outside. Qed.
Print Assumptions T_C13_detect_bom_outside.

(* the BOM is recognised whatever bytes follow (also a truncated text, also garbage) *)
Theorem T_C13_detect_bom_bytes : forall e rest, (e = Utf16le -> starts_00 rest = false) ->
  detect (bom e ++ rest) = Ok (e, length (bom e)).
Proof. exact detect_bom_bytes. Qed.
Print Assumptions T_C13_detect_bom_bytes.

(* ------------------------------------------------------------------ detection, without BOM *)

(* full strength: a text that begins with an ASCII character other than NUL is recognised in each of
   the five schemes.  False for texts containing U+0000 (UTF-8), or whose second character is U+0000
   (UTF-16: "a\0" in UTF-16LE is byte for byte "a" in UTF-32LE) *)
Theorem T_C13_detect_nobom_refuted :
  ~ (forall e c rest, (0 < c < 128)%N -> Forall scalar rest -> detect (text_bytes e (c :: rest)) = Ok (e, 0)).
Proof. exact T_C13_detect_nobom_refuted_proof. Qed.
Print Assumptions T_C13_detect_nobom_refuted.

Theorem T_C13_detect_nobom_outside : forall e c rest, (0 < c < 128)%N -> Forall scalar rest ->
  nobom_defect e rest = false -> detect (text_bytes e (c :: rest)) = Ok (e, 0).
Proof. exact detect_nobom_outside. Qed.
Print Assumptions T_C13_detect_nobom_outside.

(* the probes never read beyond the input, the reported BOM length is inside it *)
Theorem T_C13_detect_in_bounds : forall inp,
  exists e off, detect inp = Ok (e, off) /\ off <= length inp /\ off <= 4.
Proof. exact detect_ok. Qed.
Print Assumptions T_C13_detect_in_bounds.

(* stream overload: verdict of the first 128 bytes; the stream is left good, positioned after the
   BOM (skipBomWhenFound) or where it was *)
Theorem T_C13_detect_stream : forall skip data,
  exists e off, detect (firstn 128 data) = Ok (e, off) /\
    exists s', detect_stream skip (stream_of data true) = Ok (e, s') /\
      is_data s' = data /\ is_eof s' = false /\ is_fail s' = false /\
      is_pos s' = (if skip then off else 0).
Proof. exact detect_stream_spec. Qed.
Print Assumptions T_C13_detect_stream.

(* the same on a stream the caller has already read p bytes from: the verdict is the one of the 128 bytes that follow the
   get position, and the stream is left at that position / just behind the BOM found there - relative to where the stream
   stood, not to its beginning (the instance p = 0 is the theorem above) *)
Theorem T_C13_detect_stream_at : forall skip data p, (p <= length data)%nat ->
  exists e off, detect (firstn 128 (skipn p data)) = Ok (e, off) /\
    exists s', detect_stream skip (stream_at data p) = Ok (e, s') /\
      is_data s' = data /\ is_eof s' = false /\ is_fail s' = false /\
      is_pos s' = (p + (if skip then off else 0))%nat.
Proof. exact detect_stream_at. Qed.
Print Assumptions T_C13_detect_stream_at.

(* stream_at is what reading p bytes from a fresh seekable stream leaves *)
Theorem T_C13_stream_at_reachable : forall data p, (p <= length data)%nat ->
  let s := snd (is_read p (stream_of data true)) in
  is_data s = data /\ is_pos s = p /\ is_eof s = false /\ is_fail s = false /\ is_seekable s = true.
Proof. exact read_gives_stream_at. Qed.
Print Assumptions T_C13_stream_at_reachable.

(* ------------------------------------------------------------------ chunked reading is lossless *)

(* full strength: for every chunk size, scheme, BOM choice, target width, policy and text that has
   a BOM or starts with an ASCII character, the chunks concatenate to the text in the target
   encoding and the scheme is reported.  False exactly through the two detection defects *)
Theorem T_C13_stream_lossless_refuted :
  ~ (forall K tgt pol mark e b text sk fuel,
       K mod 4 = 0 -> 32 <= K -> Forall scalar text -> detectable b text ->
       length (with_bom b e text) < fuel ->
       exists k, esr_run K tgt pol mark fuel (stream_of (with_bom b e text) sk) =
                   RunDone (repeat ChSuccess k ++ [ChEndFile]) (encs tgt text) e).
Proof. exact T_C13_stream_lossless_refuted_proof. Qed.
Print Assumptions T_C13_stream_lossless_refuted.

Theorem T_C13_stream_lossless_outside : forall K tgt pol mark e b text sk fuel,
  K mod 4 = 0 -> 32 <= K -> Forall scalar text -> detectable b text ->
  stream_defect e b text = false ->
  length (with_bom b e text) < fuel ->
  exists k, esr_run K tgt pol mark fuel (stream_of (with_bom b e text) sk) =
              RunDone (repeat ChSuccess k ++ [ChEndFile]) (encs tgt text) e.
Proof. exact T_C13_stream_lossless_outside_proof. Qed.
Print Assumptions T_C13_stream_lossless_outside.

(* the same seen chunk by chunk (what a client that consumes the text as it arrives sees, e.g. the CSV stream reader;
   esr_chunks, StreamChunks.v: the pieces that successive ReadChunk calls append, up to the EndFile answer, and whether
   IsEnd() was already true after the last of them): every chunk is non-empty and the chunks concatenate to the text
   in the target encoding - a character cut by the end of a window is carried over, never split between chunks' ends
   in a way that loses or repeats a byte *)
Theorem T_C13_chunks_lossless : forall K tgt pol mark e b text sk fuel,
  K mod 4 = 0 -> 32 <= K -> Forall scalar text -> detectable b text -> stream_defect e b text = false ->
  length (with_bom b e text) < fuel ->
  exists chunks early, esr_chunks K tgt pol mark fuel (stream_of (with_bom b e text) sk) = Some (chunks, early) /\
    Forall (fun c => c <> []) chunks /\ concat chunks = encs tgt text.
Proof.
  intros K tgt pol mark e b text sk fuel H4 H32 Hs Hd Hn Hf.
  exact (esr_chunks_lossless K H4 H32 tgt pol mark e b text Hs Hd Hn sk fuel Hf).
Qed.
Print Assumptions T_C13_chunks_lossless.

Example T_C13_chunks_example :
  esr_chunks 32 W8 Skip [0x3F]%N 100 (stream_of (with_bom true Utf16be [0x61; 0x3B; 0x20AC; 0x0A]%N) true)
    = Some ([[0x61; 0x3B; 0xE2; 0x82; 0xAC; 0x0A]%N], true) /\
  esr_chunks 32 W8 Skip [0x3F]%N 100 (stream_of (with_bom false Utf32le (repeat 0x61%N 12)) true)
    = Some ([repeat 0x61%N 8; repeat 0x61%N 4], true).
Proof. exact esr_chunks_example. Qed.
Print Assumptions T_C13_chunks_example.

(* ------------------------------------------------------------------ progress: no stream hangs the reader *)

(* on EVERY byte stream, with every policy, the read loop ends with EndFile or DecodeError after at
   most (length of the stream) successful chunks: neither RunHang nor RunFault is possible, fuel
   = length + 1 suffices.  (Each successful ReadChunk strictly decreases window + unread bytes:
   StreamEsrProofs.read_chunk_progress.) *)
Theorem T_C13_progress : forall K tgt pol mark data sk fuel,
  K mod 4 = 0 -> 32 <= K -> bytes data -> length data < fuel ->
  exists k c out ty,
    esr_run K tgt pol mark fuel (stream_of data sk) = RunDone (repeat ChSuccess k ++ [c]) out ty /\
    (c = ChEndFile \/ c = ChDecodeError) /\ k <= length data.
Proof. exact T_C13_progress_proof. Qed.
Print Assumptions T_C13_progress.

(* ------------------------------------------------------------------ truncated streams *)

(* The stream is the BOM (optional) and the first L bytes of the encoding of done ++ [c], with L strictly
   inside the bytes of the last character c.  trunc_result (StreamTruncated.v):
     Skip       : RunDone (Success^(k+1) ++ [EndFile]) (encs tgt done ++ mark) e
     ThrowError : RunDone (Success^k ++ [DecodeError]) (encs tgt done) e
   i.e. the complete prefix, then the mark / the error; nothing lost, nothing invented, no hang.
   Full strength (every target width) is false: a UTF-8 stream read into a char target is appended
   raw, the partial character passes through without mark or error (by design; known finding). *)
Theorem T_C13_truncated_refuted :
  ~ (forall K tgt pol mark e b done c L sk fuel,
       K mod 4 = 0 -> 32 <= K -> Forall scalar (done ++ [c]) ->
       unit_size (utf_width e) * length (encs (utf_width e) done) < L <
         unit_size (utf_width e) * length (encs (utf_width e) (done ++ [c])) ->
       (b = true \/ starts_ascii done) -> trunc_defect e b done c = false ->
       S (length ((if b then bom e else []) ++ firstn L (text_bytes e (done ++ [c])))) < fuel ->
       exists k, esr_run K tgt pol mark fuel
                   (stream_of ((if b then bom e else []) ++ firstn L (text_bytes e (done ++ [c]))) sk) =
                 trunc_result tgt pol mark e done k).
Proof. exact T_C13_truncated_refuted_proof. Qed.
Print Assumptions T_C13_truncated_refuted.

(* every pair of source and target widths except UTF-8 into char - the same-width copy paths UTF-16 into char16_t
   and UTF-32 into char32_t included -, every scheme, BOM choice, chunk size, policy, mark, complete prefix and
   cut point inside the last character: so the excluded class is exactly the defect class (F39, raw append).
   Same widths: a cut inside a code unit leaves a partial unit in the window at end of file; a cut between the
   halves of a surrogate pair leaves the first half, which the copy of Utf16::Decode holds back (UnexpectedEnd);
   both are answered by the mark (Skip) or DecodeError (ThrowError), after exactly the complete prefix *)
Theorem T_C13_truncated_outside : forall K tgt pol mark e b done c L sk fuel,
  K mod 4 = 0 -> 32 <= K -> Forall scalar (done ++ [c]) ->
  unit_size (utf_width e) * length (encs (utf_width e) done) < L <
    unit_size (utf_width e) * length (encs (utf_width e) (done ++ [c])) ->
  ~ (utf_width e = W8 /\ tgt = W8) ->
  (b = true \/ starts_ascii done) -> trunc_defect e b done c = false ->
  S (length ((if b then bom e else []) ++ firstn L (text_bytes e (done ++ [c])))) < fuel ->
  exists k, esr_run K tgt pol mark fuel
              (stream_of ((if b then bom e else []) ++ firstn L (text_bytes e (done ++ [c]))) sk) =
            trunc_result tgt pol mark e done k.
Proof. exact T_C13_truncated_outside_proof. Qed.
Print Assumptions T_C13_truncated_outside.

(* the hypotheses are satisfiable in the same-width cases: cut inside a code unit, between the halves of a pair,
   inside the second half; UTF-32 into char32_t *)
Example T_C13_truncated_example_samewidth16 :
  esr_run 32 W16 Skip [0xFFFD]%N 100 (stream_of (firstn 5 (with_bom true Utf16le [0x61; 0x20AC]%N)) true)
    = RunDone [ChSuccess; ChEndFile] [0x61; 0xFFFD]%N Utf16le /\
  esr_run 32 W16 Skip [0xFFFD]%N 100 (stream_of (firstn 6 (with_bom true Utf16be [0x61; 0x1F600]%N)) true)
    = RunDone [ChSuccess; ChEndFile] [0x61; 0xFFFD]%N Utf16be /\
  esr_run 32 W16 ThrowError [0xFFFD]%N 100 (stream_of (firstn 7 (with_bom true Utf16le [0x61; 0x1F600]%N)) true)
    = RunDone [ChDecodeError] [0x61]%N Utf16le /\
  esr_run 32 W32 Skip [0xFFFD]%N 100 (stream_of (firstn 11 (with_bom true Utf32be [0x61; 0x1F600]%N)) true)
    = RunDone [ChSuccess; ChEndFile] [0x61; 0xFFFD]%N Utf32be.
Proof. exact T_C13_truncated_example_samewidth16_proof. Qed.
Print Assumptions T_C13_truncated_example_samewidth16.

(* Independent of widths and of well-formedness of what precedes:
   at end of file a window holding a partial code unit (the case that used to spin for ever) is
   answered by the mark (Skip: window dropped, output extended by the mark) or by DecodeError *)
Theorem T_C13_truncated_partial_unit : forall K tgt pol mark data e s out,
  K mod 4 = 0 -> 32 <= K -> EInv K data s ->
  is_eof (e_is s) = true -> (e_end s - e_start s) mod unit_size (utf_width e) <> 0 ->
  exists c s' o, esr_decode_chunk tgt pol mark e s out = Ok (c, s', o) /\
    (c = ChDecodeError \/
     (pol = Skip /\ c = ChSuccess /\ e_start s' = e_end s' /\ exists o', o = o' ++ mark)).
Proof. exact T_C13_truncated_partial_unit_proof. Qed.
Print Assumptions T_C13_truncated_partial_unit.

(* "a€" cut inside the euro sign / its code unit, BOM present *)
Example T_C13_truncated_example_utf8 :
  esr_run 32 W16 Skip [0xFFFD]%N 100 (stream_of (firstn 6 (with_bom true Utf8 [0x61; 0x20AC]%N)) true)
    = RunDone [ChSuccess; ChEndFile] [0x61; 0xFFFD]%N Utf8 /\
  esr_run 32 W16 ThrowError [0xFFFD]%N 100 (stream_of (firstn 6 (with_bom true Utf8 [0x61; 0x20AC]%N)) true)
    = RunDone [ChDecodeError] [0x61]%N Utf8.
Proof. exact T_C13_truncated_example_utf8_proof. Qed.
Print Assumptions T_C13_truncated_example_utf8.

Example T_C13_truncated_example_utf16 :
  esr_run 32 W8 Skip [0x3F]%N 100 (stream_of (firstn 5 (with_bom true Utf16be [0x61; 0x20AC]%N)) true)
    = RunDone [ChSuccess; ChEndFile] [0x61; 0x3F]%N Utf16be /\
  esr_run 32 W8 ThrowError [0x3F]%N 100 (stream_of (firstn 7 (with_bom true Utf16le [0x61; 0x1F600]%N)) true)
    = RunDone [ChDecodeError] [0x61]%N Utf16le.
Proof. exact T_C13_truncated_example_utf16_proof. Qed.
Print Assumptions T_C13_truncated_example_utf16.

Example T_C13_truncated_example_utf32 :
  esr_run 32 W16 Skip [0xFFFD]%N 100 (stream_of (firstn 11 (with_bom true Utf32le [0x61; 0x20AC]%N)) true)
    = RunDone [ChSuccess; ChEndFile] [0x61; 0xFFFD]%N Utf32le.
Proof. exact T_C13_truncated_example_utf32_proof. Qed.
Print Assumptions T_C13_truncated_example_utf32.

(* same width: U+10FFFF cut between its two UTF-16 units, to char16_t (the lone U+DBFF used to be
   copied with plain success: strict "< HighSurrogatesEnd" in Utf16::Decode, repaired) *)
Example T_C13_truncated_example_samewidth :
  esr_run 32 W16 ThrowError [0xFFFD]%N 100 (stream_of (firstn 6 (with_bom true Utf16le [0x61; 0x10FFFF]%N)) true)
    = RunDone [ChDecodeError] [0x61]%N Utf16le /\
  esr_run 32 W8 Skip [0x3F]%N 100 (stream_of (firstn 6 (with_bom true Utf8 [0x61; 0x20AC]%N)) true)
    = RunDone [ChSuccess; ChEndFile] [0x61; 0xE2; 0x82]%N Utf8.
Proof. exact T_C13_truncated_example_samewidth_proof. Qed.
Print Assumptions T_C13_truncated_example_samewidth.

(* ------------------------------------------------------------------ ill-formed text *)

(* The stream is a prefix pre (the BOM, or nothing) that the detection recognises as scheme e, then the bytes of ANY
   sequence U of code units of e's width, then a trailing part of a code unit (tail, possibly empty).  Source width
   <> target width: the validating transcoders (same widths are copied unvalidated, T_C13_samewidth_copy below; UTF-8
   into char is the raw path, F39).
   For every chunk size the reader's answer is ONE run of the utf family's Transcode (transcode, UtfModel.v; C12)
   over the whole of U followed by the end-of-file rule: where the chunk boundaries fall plays no role, also when
   they fall inside an ill-formed or uncompleted sequence.  The stream "ends short" when that run stops before the
   end of U (UnexpectedEnd: uncompleted sequence at the end; InvalidSequence: ThrowError at the first ill-formed
   sequence) or when a part of a code unit follows:
     Skip       : Success^k, EndFile;  output = the run's output, extended by the mark when the stream ends short
     ThrowError : Success^k, then DecodeError when the stream ends short, else EndFile;  output = the run's output *)
Theorem T_C13_illformed_one_run : forall K tgt pol mark e pre U tail sk fuel,
  K mod 4 = 0 -> 32 <= K ->
  units (utf_width e) U -> width_eqb (utf_width e) tgt = false ->
  bytes pre -> bytes tail -> length tail < unit_size (utf_width e) ->
  let data := pre ++ units_bytes (utf_endian e) (utf_width e) U ++ tail in
  data <> [] -> detect (firstn K data) = Ok (e, length pre) -> S (length data) < fuel ->
  let r := transcode (utf_width e) tgt pol mark U [] in
  let short := match r_code r with Success => negb (length tail =? 0) | _ => true end in
  exists k, esr_run K tgt pol mark fuel (stream_of data sk) =
    match pol with
    | Skip => RunDone (repeat ChSuccess k ++ [ChEndFile]) (r_out r ++ if short then mark else []) e
    | ThrowError => RunDone (repeat ChSuccess k ++ [if short then ChDecodeError else ChEndFile]) (r_out r) e
    end.
Proof. exact esr_one_run. Qed.
Print Assumptions T_C13_illformed_one_run.

(* Skip, in the terms of the specification (skip_spec, UtfSpec.v; T_C12_skip lifted through the chunked reader):
   the output is U with every ill-formed sequence - an uncompleted one at the end included - replaced by the
   mark and every well-formed character re-encoded, n replacements; a trailing part of a code unit after units
   that end complete gives one more mark.  No DecodeError, no hang, EndFile at the end *)
Theorem T_C13_illformed_skip : forall K tgt mark e pre U tail sk fuel,
  K mod 4 = 0 -> 32 <= K ->
  units (utf_width e) U -> width_eqb (utf_width e) tgt = false ->
  bytes pre -> bytes tail -> length tail < unit_size (utf_width e) ->
  let data := pre ++ units_bytes (utf_endian e) (utf_width e) U ++ tail in
  data <> [] -> detect (firstn K data) = Ok (e, length pre) -> S (length data) < fuel ->
  exists k o n extra, skip_spec (utf_width e) tgt mark U o n /\
    (extra = [] \/ (extra = mark /\ tail <> [])) /\
    esr_run K tgt Skip mark fuel (stream_of data sk) = RunDone (repeat ChSuccess k ++ [ChEndFile]) (o ++ extra) e.
Proof. exact esr_ill_skip. Qed.
Print Assumptions T_C13_illformed_skip.

(* ThrowError (T_C12_throw lifted): U = the well-formed prefix ++ rest where no character's encoding begins rest;
   the output is the target encoding of exactly that prefix; the last result is DecodeError unless rest and tail
   are both empty (then EndFile); only Success before it *)
Theorem T_C13_illformed_throw : forall K tgt mark e pre U tail sk fuel,
  K mod 4 = 0 -> 32 <= K ->
  units (utf_width e) U -> width_eqb (utf_width e) tgt = false ->
  bytes pre -> bytes tail -> length tail < unit_size (utf_width e) ->
  let data := pre ++ units_bytes (utf_endian e) (utf_width e) U ++ tail in
  data <> [] -> detect (firstn K data) = Ok (e, length pre) -> S (length data) < fuel ->
  exists k cps rest, Forall scalar cps /\ U = encs (utf_width e) cps ++ rest /\
    (rest <> [] -> forall s, scalar s -> ~ is_prefix (enc (utf_width e) s) rest) /\
    esr_run K tgt ThrowError mark fuel (stream_of data sk) =
      RunDone (repeat ChSuccess k ++ [if (length rest =? 0) && (length tail =? 0) then ChEndFile else ChDecodeError])
              (encs tgt cps) e.
Proof. exact esr_ill_throw. Qed.
Print Assumptions T_C13_illformed_throw.

(* the hypotheses on pre hold for every stream that begins with a BOM, whatever follows (UTF-16LE: not 00 00,
   which would make it the UTF-32LE BOM) *)
Theorem T_C13_illformed_detect_bom : forall K e rest, 32 <= K -> (e = Utf16le -> starts_00 rest = false) ->
  bytes (bom e) /\ bom e ++ rest <> [] /\ detect (firstn K (bom e ++ rest)) = Ok (e, length (bom e)).
Proof. exact ill_detect_bom. Qed.
Print Assumptions T_C13_illformed_detect_bom.

(* ill_ex8 = 27 x 'a', E2 82 41, C3 A9, FF, 'b', F0 9F: with K = 32 the first window ends inside E2 82 | 41;
   ill_ex16 = 14 x 'a', D83D, 'b', DE00, D83D DE00, D800 (+ one byte of a further unit) *)
Example T_C13_illformed_example :
  esr_run 32 W16 Skip [0xFFFD]%N 100 (stream_of (bom Utf8 ++ ill_ex8) true)
    = RunDone [ChSuccess; ChSuccess; ChEndFile] (repeat 0x61 27 ++ [0xFFFD; 0xE9; 0xFFFD; 0x62; 0xFFFD])%N Utf8 /\
  esr_run 64 W16 Skip [0xFFFD]%N 100 (stream_of (bom Utf8 ++ ill_ex8) true)
    = RunDone [ChSuccess; ChEndFile] (repeat 0x61 27 ++ [0xFFFD; 0xE9; 0xFFFD; 0x62; 0xFFFD])%N Utf8 /\
  r_out (transcode W8 W16 Skip [0xFFFD]%N ill_ex8 []) = (repeat 0x61 27 ++ [0xFFFD; 0xE9; 0xFFFD; 0x62])%N /\
  esr_run 32 W16 ThrowError [0xFFFD]%N 100 (stream_of (bom Utf8 ++ ill_ex8) true)
    = RunDone [ChDecodeError] (repeat 0x61 27)%N Utf8 /\
  esr_run 32 W8 Skip [0x3F]%N 100 (stream_of (bom Utf16be ++ units_bytes BE W16 ill_ex16 ++ [0xD8]%N) true)
    = RunDone [ChSuccess; ChSuccess; ChEndFile]
        (repeat 0x61 14 ++ [0x3F; 0x62; 0x3F; 0xF0; 0x9F; 0x98; 0x80; 0x3F])%N Utf16be /\
  esr_run 40 W8 ThrowError [0x3F]%N 100 (stream_of (bom Utf16be ++ units_bytes BE W16 ill_ex16) true)
    = RunDone [ChDecodeError] (repeat 0x61 14)%N Utf16be.
Proof. exact ill_example_proof. Qed.
Print Assumptions T_C13_illformed_example.

(* Same widths (UTF-16 into char16_t, UTF-32 into char32_t), ANY sequence of code units, whole or followed by a part
   of a code unit, every chunk size: the units are copied as they are - nothing is validated, by design of the
   same-width paths of Utf16::Decode / Utf32::Decode -, except that a first half of a surrogate pair at the very end
   (UTF-16; ends_high) is held back.  It and a trailing part of a code unit are answered by the mark (Skip) /
   DecodeError (ThrowError).  With T_C13_illformed_one_run this describes the reader on every input for every pair
   of widths but UTF-8 into char (the raw path, F39); it contains the same-width cases of T_C13_truncated_outside *)
Theorem T_C13_samewidth_copy : forall K tgt pol mark e pre U tail sk fuel,
  K mod 4 = 0 -> 32 <= K ->
  units (utf_width e) U -> utf_width e = tgt -> tgt <> W8 ->
  bytes pre -> bytes tail -> length tail < unit_size (utf_width e) ->
  let data := pre ++ units_bytes (utf_endian e) (utf_width e) U ++ tail in
  data <> [] -> detect (firstn K data) = Ok (e, length pre) -> S (length data) < fuel ->
  let copy := if ends_high tgt U then removelast U else U in
  let short := ends_high tgt U || negb (length tail =? 0) in
  exists k, esr_run K tgt pol mark fuel (stream_of data sk) =
    match pol with
    | Skip => RunDone (repeat ChSuccess k ++ [ChEndFile]) (copy ++ if short then mark else []) e
    | ThrowError => RunDone (repeat ChSuccess k ++ [if short then ChDecodeError else ChEndFile]) copy e
    end.
Proof. exact esr_samewidth. Qed.
Print Assumptions T_C13_samewidth_copy.

(* a lone low surrogate goes through a UTF-16 stream into char16_t *)
Example T_C13_illformed_example_samewidth :
  esr_run 32 W16 Skip [0xFFFD]%N 100 (stream_of (bom Utf16le ++ units_bytes LE W16 [0x61; 0xDC00; 0x62]%N) true)
    = RunDone [ChSuccess; ChEndFile] [0x61; 0xDC00; 0x62]%N Utf16le.
Proof. exact ill_example_samewidth_proof. Qed.
Print Assumptions T_C13_illformed_example_samewidth.

(* ------------------------------------------------------------------ the writer *)

(* BOM when asked for, then each piece in the configured scheme, nothing else; every Write of a
   well-formed piece (of any of the three character widths) succeeds *)
Theorem T_C13_writer_exact : forall e add_bom pol pieces,
  Forall (fun p => Forall scalar (snd p)) pieces ->
  esw_run e add_bom pol (map (fun p => (fst p, encs (fst p) (snd p))) pieces) =
    (repeat Success (length pieces),
     (if add_bom then bom e else []) ++ flat_map (fun p => text_bytes e (snd p)) pieces).
Proof. exact esw_exact. Qed.
Print Assumptions T_C13_writer_exact.

(* ThrowError: a piece (of a width other than the stream's) is refused exactly when it is
   ill-formed, and then nothing of it is written *)
Theorem T_C13_writer_refuses : forall out e sw str,
  width_eqb sw (utf_width e) = false -> units sw str ->
  let r := esw_write (mkW out e ThrowError) sw str in
  (fst r = Success <-> wf sw str) /\ (fst r <> Success -> snd r = mkW out e ThrowError).
Proof. exact esw_write_throw. Qed.
Print Assumptions T_C13_writer_refuses.

Example T_C13_writer_example :
  esw_run Utf16be true ThrowError [(W8, [0x61; 0xC3; 0xA9]%N); (W16, [0xD800]%N); (W32, [0x1F600]%N)] =
    ([Success; UnexpectedEnd; Success], [0xFE; 0xFF; 0x00; 0x61; 0x00; 0xE9; 0xD8; 0x3D; 0xDE; 0x00]%N).
Proof. exact esw_example. Qed.
Print Assumptions T_C13_writer_example.

(* hypotheses of the lossless theorem are satisfiable: a text with characters of every length whose
   3-byte character straddles the first chunk boundary of a 32-byte reader *)
Example T_C13_lossless_example :
  esr_run 32 W16 ThrowError [] 100
    (stream_of (with_bom true Utf8 (repeat 0x61%N 28 ++ [0x20AC; 0x1F600; 0xE9]%N)) true) =
  RunDone [ChSuccess; ChSuccess; ChEndFile] (repeat 0x61%N 28 ++ [0x20AC; 0xD83D; 0xDE00; 0xE9]%N) Utf8.
Proof. exact T_C13_lossless_example_proof. Qed.
Print Assumptions T_C13_lossless_example.
