(* Properties_C14.v — C14: ISO-8601 text of times and durations is calendar-correct and parses back
   exactly.  Statements only; proofs in Chrono*.v.

   Model: ChronoModel.v (mirror of convert_chrono.h / bin_timestamp.h).  Spec: ChronoSpec.v (leap rule,
   month lengths, next_day, closed-form day count, ISO text).  c14_rep: the representations the property
   quantifies over (int64 for every precision, int32 for seconds and coarser).  rep3: int64, int32, uint64.

   Where the faithful model falsifies the full-strength statement, the statement is kept, a kernel-
   evaluated witness refutes it (_refuted) and the same statement is proved outside a decidable class of
   counts (_outside):
     rt_defect      F30 first partial calendar day of the range (start of the floor day not representable)
                    or a year of 16+ digits (32-byte buffer / days + 719468 overflow)
     print_defect   rt_defect, or an instant of the years -999..-1 (F31, printed with three digits) *)
From BS Require Import Base ChronoSpec ChronoModel ChronoArith ChronoDecimal ChronoSweep ChronoCalendar ChronoYear
  ChronoSafe ChronoSafeAdd ChronoText ChronoTp ChronoTpParse ChronoTpRt ChronoTs ChronoRefute.
Local Open Scope Z_scope.

(* ---- calendar: anchor + successor law over all of Z (Hinnant's civil_from_days, truncating division) ---- *)
Theorem T_C14_civil :
  civil_from_days 0 = (1970, 1, 1) /\ forall z, civil_from_days (z + 1) = next_day (civil_from_days z).
Proof. exact (conj civil_epoch civil_succ). Qed.
Print Assumptions T_C14_civil.

Theorem T_C14_civil_valid : forall z, valid_date (civil_from_days z).
Proof. exact civil_valid. Qed.
Print Assumptions T_C14_civil_valid.

(* days_from_civil / civil_from_days are mutually inverse on the valid dates, all of Z *)
Theorem T_C14_days :
  (forall y m d, valid_date (y, m, d) -> civil_from_days (days_from_civil y m d) = (y, m, d)) /\
  (forall z, let '(y, m, d) := civil_from_days z in days_from_civil y m d = z).
Proof. exact (conj civil_of_days_from_civil days_of_civil_from_days). Qed.
Print Assumptions T_C14_days.

(* the specification pins the function: civil_from_days is THE day numbering of the leap-rule calendar,
   and Hinnant's day count is the closed form counted from the leap rule *)
Theorem T_C14_calendar_unique :
  is_calendar civil_from_days /\ (forall f, is_calendar f -> forall z, f z = civil_from_days z) /\
  (forall y m d, valid_date (y, m, d) -> days_from_civil y m d = days_of_civil (y, m, d)).
Proof.
  split; [exact civil_is_calendar|]. split; [|exact days_from_civil_spec].
  intros f Hf z. exact (calendar_unique f civil_from_days Hf civil_is_calendar z).
Qed.
Print Assumptions T_C14_calendar_unique.

Example T_C14_civil_example : civil_from_days 19782 = (2024, 2, 29) /\ civil_from_days (-719468) = (0, 3, 1).
Proof. split; vm_compute; reflexivity. Qed.
Print Assumptions T_C14_civil_example.

(* ---- the date-time a count denotes (spec_datetime is built from the spec calendar through
        T_C14_calendar_unique; it is valid and denotes exactly t ticks) ---- *)
Theorem T_C14_spec_datetime : forall P t,
  valid_datetime (spec_datetime P t) /\ instant_ns (spec_datetime P t) = t * tick_ns P.
Proof. exact spec_datetime_valid. Qed.
Print Assumptions T_C14_spec_datetime.

(* ---- T_C14_print, full strength:
        forall P R t, c14_rep P R -> fits R t = true -> tp_print P R t = Ok (iso_text P (spec_datetime P t))
      is FALSE of the current code: ---- *)
Theorem T_C14_print_refuted : exists P R t, c14_rep P R /\ fits R t = true /\
  tp_print P R t <> Ok (iso_text P (spec_datetime P t)).
Proof.
  exists Pns, I64, (-9223372036854775808). split; [left; reflexivity|]. split; [reflexivity|].
  rewrite w_F30_print. discriminate.
Qed.
Print Assumptions T_C14_print_refuted.

Theorem T_C14_print_outside : forall P R t, c14_rep P R -> fits R t = true -> print_defect P R t = false ->
  tp_print P R t = Ok (iso_text P (spec_datetime P t)).
Proof. exact tp_print_correct. Qed.
Print Assumptions T_C14_print_outside.

(* the other two members of the defect class, as observed behaviour *)
Example T_C14_print_F31 :
  tp_print Ps I64 (-62198755200) = Ok [45;48;48;49;45;48;49;45;48;49;84;48;48;58;48;48;58;48;48;90]%N /\
  iso_text Ps (spec_datetime Ps (-62198755200)) = [45;48;48;48;49;45;48;49;45;48;49;84;48;48;58;48;48;58;48;48;90]%N.
Proof. exact w_F31. Qed.
Print Assumptions T_C14_print_F31.
Example T_C14_print_BUF :
  tp_print Ph I64 9223372036854775807 = Err RuntimeError /\ tp_print Pd I64 9223372036854000000 = UB UBBuffer /\
  tp_print Pd I64 9223372036854775807 = UB UBOverflow.
Proof. exact (conj w_BUF_exc (conj w_BUF_ub w_days_overflow)). Qed.
Print Assumptions T_C14_print_BUF.
Example T_C14_print_example :
  print_defect Pms I64 1689374691925 = false /\
  tp_print Pms I64 1689374691925 = Ok [50;48;50;51;45;48;55;45;49;52;84;50;50;58;52;52;58;53;49;46;57;50;53;90]%N.
Proof. split; vm_compute; reflexivity. Qed.
Print Assumptions T_C14_print_example.

(* ---- T_C14_parse_print, full strength:
        forall P R t, c14_rep P R -> fits R t = true -> exists text, tp_print P R t = Ok text /\ tp_parse P R text = Ok t ---- *)
Theorem T_C14_parse_print_refuted : exists P R t, c14_rep P R /\ fits R t = true /\
  ~ (exists text, tp_print P R t = Ok text /\ tp_parse P R text = Ok t).
Proof.
  exists Pns, I64, (-9223372036854775808). split; [left; reflexivity|]. split; [reflexivity|].
  intros (text & H & _). rewrite w_F30_print in H. discriminate.
Qed.
Print Assumptions T_C14_parse_print_refuted.

(* outside F30 and the 16-digit years the round trip is exact — including the years -999..-1 *)
Theorem T_C14_parse_print_outside : forall P R t, c14_rep P R -> fits R t = true -> rt_defect P R t = false ->
  exists text, tp_print P R t = Ok text /\ tp_parse P R text = Ok t.
Proof. exact tp_roundtrip. Qed.
Print Assumptions T_C14_parse_print_outside.

(* the parse half of F30 on its own: a documented text of a representable instant is rejected *)
Example T_C14_parse_F30 : tp_parse Pns I64 text_F30 = Err OutOfRange.
Proof. exact w_F30_parse. Qed.
Print Assumptions T_C14_parse_F30.

(* ---- T_C14_bin_ts (after the F07 repair): value -> CBinTimestamp is (floor seconds, nanoseconds in
        0..999999999) of the instant, and both reverse conversions give the value back, for every
        representable value of int64 / int32 / uint64 representations of every precision whose seconds
        fit the timestamp's int64 ---- *)
Theorem T_C14_bin_ts : forall P R t, rep3 R -> fits R t = true ->
  fits I64 (fst (ts_of_ns (t * tick_ns P))) = true ->
  ts_to P R t = Ok (ts_of_ns (t * tick_ns P)) /\
  0 <= snd (ts_of_ns (t * tick_ns P)) <= 999999999 /\
  ts_from_tp P R (fst (ts_of_ns (t * tick_ns P))) (snd (ts_of_ns (t * tick_ns P))) = Ok t /\
  ts_from_dur P R (fst (ts_of_ns (t * tick_ns P))) (snd (ts_of_ns (t * tick_ns P))) = Ok t.
Proof.
  intros P R t HR Ht Hs.
  assert (HR4 : rep4 R) by (destruct HR as [->|[->| ->]]; unfold rep4; auto).
  split; [apply ts_to_ok; assumption|].
  split; [pose proof (ts_of_ns_range (t * tick_ns P)) as H; destruct (ts_of_ns (t * tick_ns P)); cbn [snd]; tauto|].
  apply ts_from_roundtrip; assumption.
Qed.
Print Assumptions T_C14_bin_ts.

Example T_C14_bin_ts_example :
  ts_to Pns I64 (-500000000) = Ok (-1, 500000000) /\ ts_from_tp Pns I64 (-1) 500000000 = Ok (-500000000) /\
  ts_to Pns I64 (-9223372036854775808) = Ok (-9223372037, 145224192) /\
  ts_from_dur Pns I64 (-9223372037) 145224192 = Ok (-9223372036854775808).
Proof. repeat split; vm_compute; reflexivity. Qed.
Print Assumptions T_C14_bin_ts_example.
