(* Properties_C14.v — C14: ISO-8601 text of times and durations is calendar-correct and parses back
   exactly.  Statements only; proofs in Chrono*.v.

   Model: ChronoModel.v, the mirror of convert_chrono.h / bin_timestamp.h at /repo beee810 (after the
   repairs 0e78f9f 60cbc0d 30f5d3e 302fac1 5f3f75a d4af9ec beee810).  Spec: ChronoSpec.v (leap rule, month
   lengths, next_day, closed-form day count, ISO text).
   Representation domains:  c14_rep P R  =  R is int64 or int32 (every precision);  rep3 R = int64, int32
   or uint64.  8-bit representations are outside every theorem below (K48: std::chrono::round / floor
   wrap for int8 targets); unsigned time points cannot be printed at all (the library does not compile).

   No input class is left for time points: K35 (the last 719468 values of time_point<days,int64>: days + 719468
   overflowed when printing; the parser's era guard ran before the shift) was repaired in /repo 2854d54 and the
   model follows; T_C14_print and T_C14_parse_print are stated at full strength. *)
From BS Require Import Base ChronoSpec ChronoModel ChronoArith ChronoDecimal ChronoSweep ChronoCalendar ChronoYear
  ChronoSafe ChronoSafeAdd ChronoText ChronoTp ChronoTpParse ChronoTpRt ChronoTs ChronoRefute
  ChronoDur ChronoDurPrint ChronoDurParse ChronoDurRt ChronoDurDenote ChronoDurU64 ChronoWide ChronoProps ChronoMp.
From BS Require Import MpModel MpWriter.
Local Open Scope Z_scope.

(* ---- calendar: anchor + successor law over all of Z (Hinnant's civil_from_days, truncating division) ---- *)
Theorem T_C14_civil :
  civil_from_days 0 = (1970, 1, 1) /\ forall z, civil_from_days (z + 1) = next_day (civil_from_days z).
Proof. exact c14_civil. Qed.
Print Assumptions T_C14_civil.

Theorem T_C14_civil_valid : forall z, valid_date (civil_from_days z).
Proof. exact civil_valid. Qed.
Print Assumptions T_C14_civil_valid.

(* days_from_civil / civil_from_days are mutually inverse on the valid dates, all of Z *)
Theorem T_C14_days :
  (forall y m d, valid_date (y, m, d) -> civil_from_days (days_from_civil y m d) = (y, m, d)) /\
  (forall z, let '(y, m, d) := civil_from_days z in days_from_civil y m d = z).
Proof. exact c14_days. Qed.
Print Assumptions T_C14_days.

(* the specification pins the function: civil_from_days is THE day numbering of the leap-rule calendar,
   and Hinnant's day count is the closed form counted from the leap rule *)
Theorem T_C14_calendar_unique :
  is_calendar civil_from_days /\ (forall f, is_calendar f -> forall z, f z = civil_from_days z) /\
  (forall y m d, valid_date (y, m, d) -> days_from_civil y m d = days_of_civil (y, m, d)).
Proof. exact c14_calendar_unique. Qed.
Print Assumptions T_C14_calendar_unique.

Example T_C14_civil_example : civil_from_days 19782 = (2024, 2, 29) /\ civil_from_days (-719468) = (0, 3, 1).
Proof. exact c14_civil_example. Qed.
Print Assumptions T_C14_civil_example.

(* ---- the date-time a count denotes: valid, and denotes exactly t ticks ---- *)
Theorem T_C14_spec_datetime : forall P t,
  valid_datetime (spec_datetime P t) /\ instant_ns (spec_datetime P t) = t * tick_ns P.
Proof. exact spec_datetime_valid. Qed.
Print Assumptions T_C14_spec_datetime.

(* ---- T_C14_print (full strength since the repair of K35 in /repo 2854d54): the documented text
      [+-]YYYY-MM-DDThh:mm:ss[.f]Z of the proleptic-Gregorian date-time, sign exactly outside 0000..9999, 3/6/9
      fraction digits; includes: no UB, fits the 48-byte buffer; every representable value of every int64 / int32
      time point ---- *)
Theorem T_C14_print : forall P R t, c14_rep P R -> fits R t = true ->
  tp_print P R t = Ok (iso_text P (spec_datetime P t)).
Proof. exact tp_print_correct. Qed.
Print Assumptions T_C14_print.

Example T_C14_print_example :
  tp_print Pms I64 1689374691925 = Ok [50;48;50;51;45;48;55;45;49;52;84;50;50;58;52;52;58;53;49;46;57;50;53;90]%N.
Proof. exact c14_print_example. Qed.
Print Assumptions T_C14_print_example.

(* regression: K35 / K35b (repaired): the last day of time_point<days,int64> prints and parses back, the first value of
   the former class prints, one day beyond either end of the type is out_of_range, the first day parses back *)
Example T_C14_K35_repaired :
  tp_print Pd I64 9223372036854775807 = Ok text_K35 /\ tp_parse Pd I64 text_K35 = Ok 9223372036854775807 /\
  tp_print Pd I64 9223372036854056340 = Ok [43;50;53;50;53;50;55;51;52;57;50;55;55;54;54;53;53;52;45;48;57;45;50;54;84;48;48;58;48;48;58;48;48;90]%N /\
  tp_parse Pd I64 [43;50;53;50;53;50;55;51;52;57;50;55;55;54;56;53;50;52;45;48;55;45;50;56;84;48;48;58;48;48;58;48;48;90]%N = Err OutOfRange /\
  tp_print Pd I64 (-9223372036854775808) = Ok [45;50;53;50;53;50;55;51;52;57;50;55;55;54;52;53;56;53;45;48;54;45;48;55;84;48;48;58;48;48;58;48;48;90]%N /\
  tp_parse Pd I64 [45;50;53;50;53;50;55;51;52;57;50;55;55;54;52;53;56;53;45;48;54;45;48;55;84;48;48;58;48;48;58;48;48;90]%N = Ok (-9223372036854775808) /\
  tp_parse Pd I64 [45;50;53;50;53;50;55;51;52;57;50;55;55;54;52;53;56;53;45;48;54;45;48;54;84;48;48;58;48;48;58;48;48;90]%N = Err OutOfRange.
Proof. exact r_K35. Qed.
Print Assumptions T_C14_K35_repaired.

(* regression: the inputs of the repaired findings K30, K32, K33, K34 *)
Example T_C14_print_repaired :
  tp_print Pns I64 (-9223372036854775808) = Ok text_K30 /\
  tp_print Ps I64 (-62198755200) = Ok [45;48;48;48;49;45;48;49;45;48;49;84;48;48;58;48;48;58;48;48;90]%N /\
  tp_print Ph I64 9223372036854775807 = Ok [43;49;48;53;50;49;57;55;50;56;56;54;53;56;57;48;57;45;49;48;45;49;48;84;48;55;58;48;48;58;48;48;90]%N /\
  tp_print Pd I64 9223372036854000000 = Ok [43;50;53;50;53;50;55;51;52;57;50;55;55;54;54;52;48;48;45;48;54;45;50;53;84;48;48;58;48;48;58;48;48;90]%N.
Proof. exact c14_print_repaired. Qed.
Print Assumptions T_C14_print_repaired.

(* ---- T_C14_parse_print (full strength since the repair of K35 / K35b): every representable value prints to a text
      that parses back to the identical value ---- *)
Theorem T_C14_parse_print : forall P R t, c14_rep P R -> fits R t = true ->
  exists text, tp_print P R t = Ok text /\ tp_parse P R text = Ok t.
Proof. exact tp_roundtrip. Qed.
Print Assumptions T_C14_parse_print.

Example T_C14_parse_repaired : tp_parse Pns I64 text_K30 = Ok (-9223372036854775808).
Proof. exact c14_parse_repaired. Qed.
Print Assumptions T_C14_parse_repaired.

(* ---- T_C14_bin_ts: value -> CBinTimestamp is (floor seconds, nanoseconds in 0..999999999) of the instant,
        and both reverse conversions give the value back, for every representable value of int64 / int32 /
        uint64 representations of every precision whose seconds fit the timestamp's int64 ---- *)
Theorem T_C14_bin_ts : forall P R t, rep3 R -> fits R t = true ->
  fits I64 (fst (ts_of_ns (t * tick_ns P))) = true ->
  ts_to P R t = Ok (ts_of_ns (t * tick_ns P)) /\
  0 <= snd (ts_of_ns (t * tick_ns P)) <= 999999999 /\
  ts_from_tp P R (fst (ts_of_ns (t * tick_ns P))) (snd (ts_of_ns (t * tick_ns P))) = Ok t /\
  ts_from_dur P R (fst (ts_of_ns (t * tick_ns P))) (snd (ts_of_ns (t * tick_ns P))) = Ok t.
Proof. exact c14_bin_ts. Qed.
Print Assumptions T_C14_bin_ts.

Example T_C14_bin_ts_example :
  ts_to Pns I64 (-500000000) = Ok (-1, 500000000) /\ ts_from_tp Pns I64 (-1) 500000000 = Ok (-500000000) /\
  ts_to Pns I64 (-9223372036854775808) = Ok (-9223372037, 145224192) /\
  ts_from_dur Pns I64 (-9223372037) 145224192 = Ok (-9223372036854775808).
Proof. exact c14_bin_ts_example. Qed.
Print Assumptions T_C14_bin_ts_example.

(* ---- T_C14_bin_ts composed with the MsgPack binary timestamp form (writer C06, reader C07; ChronoMp.v).
        mp_save_chrono = To(value, CBinTimestamp&) then WriteValue(const CBinTimestamp&);  mp_load_chrono = ReadValue(
        CBinTimestamp&) then To(CBinTimestamp, value&) — what Serialize(archive, time_point / duration) of
        types/std/chrono.h does on a MsgPack archive.  For every representable value of an int64 / int32 / uint64
        representation of every precision whose seconds fit the timestamp: the bytes written, read back from those
        bytes followed by ANYTHING under any policies, give the identical value, and exactly the written bytes are
        consumed; the format is timestamp 32 (6 bytes: 0 <= seconds < 2^32 and no nanoseconds), timestamp 64 (10
        bytes: 0 <= seconds < 2^34) or timestamp 96 (15 bytes: everything else, negative seconds included).
        F08 (C06): the library writes timestamp 96 seconds-first where the specification says nanoseconds-first; its
        reader mirrors its writer, so the library reads its own timestamp 96 back correctly, which is what is proved
        here — F08 stays a finding of C06 (interoperability), it is not repaired or excused by this theorem. ---- *)
Theorem T_C14_bin_ts_wire : forall P R t o rest, rep3 R -> fits R t = true ->
  fits I64 (fst (ts_of_ns (t * tick_ns P))) = true ->
  let secs := fst (ts_of_ns (t * tick_ns P)) in let nanos := snd (ts_of_ns (t * tick_ns P)) in
  mp_save_chrono P R t = Ok (wr_ts secs nanos) /\
  mp_load_chrono ts_from_tp o P R (wr_ts secs nanos ++ rest) = Loaded (Ok t) rest /\
  mp_load_chrono ts_from_dur o P R (wr_ts secs nanos ++ rest) = Loaded (Ok t) rest /\
  length (wr_ts secs nanos) = match ts_format secs nanos with 32%N => 6%nat | 64%N => 10%nat | _ => 15%nat end.
Proof. exact chrono_mp_roundtrip. Qed.
Print Assumptions T_C14_bin_ts_wire.

(* the CBinTimestamp level: any seconds of int64 and nanoseconds 0..999999999 *)
Theorem T_C14_ts_wire_roundtrip : forall o secs nanos rest, ts_in_range secs nanos ->
  read_ts o (wr_ts secs nanos ++ rest) = ROk (secs, nanos) rest.
Proof. exact ts_wire_roundtrip. Qed.
Print Assumptions T_C14_ts_wire_roundtrip.

(* the bytes of each format *)
Theorem T_C14_ts_wire_format : forall secs nanos, ts_in_range secs nanos ->
  wr_ts secs nanos =
  match ts_format secs nanos with
  | 32%N => 0xD6 :: 0xFF :: MpSpec.be_bytes 4 (Z.to_N secs)
  | 64%N => 0xD7 :: 0xFF :: MpSpec.be_bytes 8 (Z.to_N nanos * 2 ^ 34 + Z.to_N secs)
  | _ => 0xC7 :: 12 :: 0xFF :: MpSpec.be_bytes 8 (twos 64 secs) ++ MpSpec.be_bytes 4 (Z.to_N nanos)
  end%N.
Proof. exact wr_ts_shape. Qed.
Print Assumptions T_C14_ts_wire_format.

Example T_C14_bin_ts_wire_example :
  mp_save_chrono Ps I64 1700000000 = Ok [214; 255; 101; 83; 241; 0]%N /\
  mp_save_chrono Pms I64 1700000000123 = Ok [215; 255; 29; 83; 83; 0; 101; 83; 241; 0]%N /\
  mp_save_chrono Pns I64 (-500000000) = Ok [199; 12; 255; 255; 255; 255; 255; 255; 255; 255; 255; 29; 205; 101; 0]%N /\
  mp_save_chrono Ps I64 17179869184 = Ok [199; 12; 255; 0; 0; 0; 4; 0; 0; 0; 0; 0; 0; 0; 0]%N /\
  mp_load_chrono ts_from_tp (mkOpts PThrow PThrow) Pns I64
    [199; 12; 255; 255; 255; 255; 255; 255; 255; 255; 255; 29; 205; 101; 0; 7]%N = Loaded (Ok (-500000000)) [7%N].
Proof. exact chrono_mp_examples. Qed.
Print Assumptions T_C14_bin_ts_wire_example.

(* ---- T_C14_duration: every duration of an int64 / int32 representation of every precision prints as an
        ISO-8601 duration that parses back to the identical count (incl. the minimum of the type, zero, and
        sub-second fractions) ---- *)
Theorem T_C14_duration : forall P R d, rep2 R -> fits R d = true ->
  exists text, dur_print P R d = Ok text /\ dur_parse P R text = Ok d.
Proof. exact dur_roundtrip. Qed.
Print Assumptions T_C14_duration.

(* the printed form: [-]P[nD][T[nH][nM][n[.f]S]] with the successive truncating quotients of the count by the
   ticks per day / hour / minute / second, zero components omitted, the fraction (sub-second precisions only)
   with 1..w digits denoting exactly the remaining ticks *)
Theorem T_C14_duration_text : forall P R c, rep2 R -> fits R c = true -> c <> 0 ->
  let u1 := unit_ticks P 86400 in let u2 := unit_ticks P 3600 in let u3 := unit_ticks P 60 in let u4 := unit_ticks P 1 in
  let r1 := Z.rem c u1 in let r2 := Z.rem r1 u2 in let r3 := Z.rem r2 u3 in
  let q4 := Z.quot r3 u4 in let r4 := Z.rem r3 u4 in
  exists sectext, dur_print P R c = Ok (sign_text c ++ [c_P] ++ dur_tail P c sectext) /\
    (sub_second P = false -> sectext = opt_comp q4 c_S) /\
    (sub_second P = true ->
       (r3 = 0 /\ sectext = []) \/
       (r3 <> 0 /\ exists ds, sectext = dec (Z.abs q4) ++ [c_dot] ++ ds ++ [c_S] /\ all_digits ds = true /\
           (1 <= length ds <= frac_digits P)%nat /\ dec_value ds * p10 (frac_digits P - length ds) = Z.abs r4)).
Proof. exact dur_print_ok. Qed.
Print Assumptions T_C14_duration_text.

(* the grammar half: the printed text is df_render f for a field record f of the specification's ISO-8601 duration
   grammar ([+-]P[nW][nD][T[nH][nM][n[(.|,)f]S]], df_wf f), and f denotes exactly the printed count:
   sign * (df_secs f seconds + df_fns f nanoseconds) = count * tick — nothing rounded, nothing dropped *)
Theorem T_C14_duration_denotes : forall P R c, rep2 R -> fits R c = true ->
  exists f, df_wf f /\ dur_print P R c = Ok (df_render f) /\ df_value_ns f = c * tick_ns P.
Proof. exact dur_print_denotes. Qed.
Print Assumptions T_C14_duration_denotes.

Theorem T_C14_duration_grammar : forall P R c, rep2 R -> fits R c = true ->
  exists text, dur_print P R c = Ok text /\ dur_grammar text /\ dur_denotes text (c * tick_ns P).
Proof. exact dur_print_grammar. Qed.
Print Assumptions T_C14_duration_grammar.

(* uint64 durations.  The library prints them for periods of seconds and coarser only (the sub-second printer does not
   compile for an unsigned count); for those four precisions and every count 0..2^64-1: the printed text is df_render f
   of a well-formed record without sign, f denotes exactly the count, and the text parses back to the identical count
   (time points with an unsigned count cannot be printed at all: the library does not compile) *)
Theorem T_C14_duration_u64 : forall P c, sub_second P = false -> fits U64 c = true ->
  exists f, df_wf f /\ df_neg f = false /\ dur_print P U64 c = Ok (df_render f) /\
            df_value_ns f = c * tick_ns P /\ dur_parse P U64 (df_render f) = Ok c.
Proof. exact dur_u64. Qed.
Print Assumptions T_C14_duration_u64.

Example T_C14_duration_example :
  dur_print Pms I64 (-93784005) = Ok [45;80;49;68;84;50;72;51;77;52;46;48;48;53;83]%N /\ dur_parse Pms I64 [45;80;49;68;84;50;72;51;77;52;46;48;48;53;83]%N = Ok (-93784005) /\
  dur_print Pns I64 (-9223372036854775808) = Ok [45;80;49;48;54;55;53;49;68;84;50;51;72;52;55;77;49;54;46;56;53;52;55;55;53;56;48;56;83]%N /\
  dur_print Pd I32 (-2147483648) = Ok [45;80;50;49;52;55;52;56;51;54;52;56;68]%N /\ dur_print Ps I64 0 = Ok [80;84;48;83]%N.
Proof. exact c14_duration_example. Qed.
Print Assumptions T_C14_duration_example.

(* ---- struct tm and CRawTime.  The library takes the six tm fields as calendar values as they are (tm_year is the
        year, tm_mon the month 1..12 — its own convention, cf. the unit tests), no calendar arithmetic involved.
        For fields that form a calendar date-time with an int year: the ISO text of exactly these fields, and it
        parses back to them.  For ANY six values: the text or the "insufficient buffer" runtime_error, never a
        write outside the 48-byte buffer.  CRawTime is time_point<seconds, time_t>: all of int64, no open class. ---- *)
Theorem T_C14_tm_roundtrip : forall y mo d h mi s, fits I32 y = true -> valid_date (y, mo, d) ->
  0 <= h <= 23 -> 0 <= mi <= 59 -> 0 <= s <= 59 ->
  tm_print y mo d h mi s = Ok (iso_text Ps (mkDT y mo d h mi s 0)) /\
  tm_parse (iso_text Ps (mkDT y mo d h mi s 0)) = Ok (y, mo, d, h, mi, s).
Proof. exact tm_roundtrip. Qed.
Print Assumptions T_C14_tm_roundtrip.

Theorem T_C14_tm_print_total : forall y mo d h mi s,
  tm_print y mo d h mi s = Err RuntimeError \/ exists text, tm_print y mo d h mi s = Ok text.
Proof. exact tm_print_total. Qed.
Print Assumptions T_C14_tm_print_total.

Theorem T_C14_raw_time : forall c, fits I64 c = true ->
  rt_print c = Ok (iso_text Ps (spec_datetime Ps c)) /\ rt_parse (iso_text Ps (spec_datetime Ps c)) = Ok c.
Proof. exact rt_roundtrip. Qed.
Print Assumptions T_C14_raw_time.

(* ======================================================================================================
   NOT PROVED (kept here at full strength; nothing below is claimed by the obligations above)

   T_C14_duration, grammar half: proved (T_C14_duration_denotes / T_C14_duration_grammar).

   Representation domains not covered by the theorems above:
     - int8_t representations (K48): correspondence only.  (uint64 durations: T_C14_duration_u64; unsigned time
       points do not compile in the library.)
     - char16_t / char32_t OUTPUT strings (out.append(buf, pos) of the ASCII buffer) are not modelled; wide INPUT is
       Properties_C15 (T_C15_wide_exact and the three theorems after it).
     - the ISO-string path of Serialize(archive, time_point / duration) for archives without binary timestamps
       (JSON, XML, CSV, YAML) is Convert::ToString / Convert::To of this family composed with those archives'
       string values; the composition is not stated.
   ====================================================================================================== *)
