(* Properties_C15.v — C15: ISO-8601 parsing yields the denoted value or throws; it never wraps.
   Statements only; proofs in Chrono*.v.  Model: ChronoModel.v at /repo beee810.

   Open input classes (kept as _refuted / _outside pairs or Examples):
     K41 / K42  lenient acceptance outside the documented grammar (field widths, text after 'Z', repeated or
          reordered duration components, text after white space)
     K48  8-bit representations: std::chrono::round / floor wrap
     K49  duration text with a component that alone is not a whole number of target ticks (PT30M1800S into hours):
          out_of_range although the sum is representable *)
From BS Require Import Base ChronoSpec ChronoModel ChronoArith ChronoDecimal ChronoSweep ChronoCalendar ChronoYear
  ChronoSafe ChronoSafeAdd ChronoText ChronoTp ChronoTpParse ChronoTpRt ChronoTs ChronoRefute
  ChronoDur ChronoDurPrint ChronoDurParse ChronoDurRt ChronoClassify ChronoClassify2 ChronoClassify3 ChronoDurClassify ChronoReject ChronoTotal ChronoDurReject ChronoWide ChronoProps.
From BS Require Import UtfSpec UtfModel.
Local Open Scope Z_scope.

(* ---- ParseSecondFractions: exact for every fraction of 1..9 digits (the double integer division
        10^18 / (10^n * 10^9 / v) is v * 10^(9-n)); algebraic, nothing enumerated ---- *)
Theorem T_C15_fraction_exact : forall ds rest,
  all_digits ds = true -> no_digit_head rest -> (1 <= length ds <= 9)%nat ->
  parse_second_fractions (ds ++ rest) = Some (dec_value ds * 10 ^ (9 - Z.of_nat (length ds)), rest).
Proof. exact fraction_exact. Qed.
Print Assumptions T_C15_fraction_exact.

Theorem T_C15_fraction_core : forall n v, (1 <= n <= 9)%nat -> 0 < v < 10 ^ Z.of_nat n ->
  1000000000000000000 / (10 ^ Z.of_nat n * 1000000000 / v) = v * 10 ^ (9 - Z.of_nat n).
Proof. exact c15_fraction_core. Qed.
Print Assumptions T_C15_fraction_core.

(* ten or more digits: rejected unless all zero; no digit at all: rejected *)
Theorem T_C15_fraction_long : forall ds rest,
  all_digits ds = true -> no_digit_head rest -> (10 <= length ds)%nat ->
  parse_second_fractions (ds ++ rest) = if dec_value ds =? 0 then Some (0, rest) else None.
Proof. exact fraction_too_long. Qed.
Print Assumptions T_C15_fraction_long.

Example T_C15_fraction_example :
  parse_second_fractions [57;50;53;90]%N = Some (925000000, [90]%N) /\
  parse_second_fractions [48;48;48;48;48;48;48;48;48;49;90]%N = None.
Proof. exact c15_fraction_example. Qed.
Print Assumptions T_C15_fraction_example.

(* ---- SafeDurationCast.  cast_spec from to c :=  the result is the exact value and fits the target,
        or out_of_range and no fitting exact value exists; nothing else (no UB, no other error).
        cast_dom from to c :=  representations int8/int32/int64/uint64, positive periods with cross products
        up to 2^62, c representable in the source.
        Full strength since the repair of K45 in /repo (the general-ratio branch — reduced ratio with num >= 2 and
        den >= 2, not reachable with the standard units — now divides first: exact only for multiples of den, then
        the quotient times num with the range checks of the other branches): exact for every pair of
        representations and every ratio, incl. negative counts into unsigned targets and uint64 counts above
        INT64_MAX (K43 / K44, repaired by 30f5d3e). ---- *)
Theorem T_C15_safe_cast : forall from to c, cast_dom from to c -> cast_spec from to c.
Proof. exact c15_safe_cast. Qed.
Print Assumptions T_C15_safe_cast.

(* regression, K45 (repaired): 1 tick of 2/3 s into seconds is out_of_range (was 0), 3 ticks are 2 s; the large uint64
   count whose check overflowed is converted; a negative count into an unsigned target is refused *)
Example T_C15_K45_repaired :
  safe_cast (mkD I64 2 3) (mkD I64 1 1) 1 = Err OutOfRange /\ safe_cast (mkD I64 2 3) (mkD I64 1 1) 3 = Ok 2 /\
  safe_cast (mkD U64 1 1) (mkD I64 2 3) 6148914691236517202 = Ok 9223372036854775803 /\
  safe_cast (mkD I64 2 3) (mkD U64 1 1) (-3) = Err OutOfRange.
Proof. exact r_K45. Qed.
Print Assumptions T_C15_K45_repaired.

(* simple_ratiob decides "num = 1 or den = 1" (the three branches other than the general one) *)
Theorem T_C15_safe_cast_class : forall from to, simple_ratiob from to = true <-> simple_ratio from to.
Proof. exact simple_ratiob_spec. Qed.
Print Assumptions T_C15_safe_cast_class.

(* every pair of the units ns, us, ms, s, min, h, days, weeks lies in the domain and has a simple ratio *)
Theorem T_C15_safe_cast_units : forall r1 r2 u w c, rep4 r1 -> rep4 r2 -> fits r1 c = true ->
  cast_dom (udty r1 u) (udty r2 w) c /\ general_ratio (udty r1 u) (udty r2 w) = false /\
  cast_spec (udty r1 u) (udty r2 w) c.
Proof. exact c15_safe_cast_units. Qed.
Print Assumptions T_C15_safe_cast_units.

Example T_C15_safe_cast_example :
  safe_cast (mkD I64 604800 1) (mkD I32 1 1) 3550 = Ok 2147040000 /\
  safe_cast (mkD I64 604800 1) (mkD I32 1 1) 3551 = Err OutOfRange /\
  safe_cast (mkD U64 1 1) (mkD I8 60 1) 7620 = Ok 127 /\
  safe_cast (mkD U64 1 1) (mkD I8 60 1) 7621 = Err OutOfRange /\
  safe_cast SecT (mkD U64 60 1) (-16) = Err OutOfRange /\
  safe_cast (mkD U64 1 1) (mkD I64 60 1) 18446744073709551600 = Ok 307445734561825860.
Proof. exact c15_safe_cast_example. Qed.
Print Assumptions T_C15_safe_cast_example.

(* ---- SafeAddDuration (both overloads): the exact sum or out_of_range; never UB, never wrapped ---- *)
Theorem T_C15_safe_add_dur : forall D target src c,
  rep4 (d_rep D) -> wf_dty D -> fits (d_rep D) target = true -> fits (d_rep src) c = true ->
  safe_add_dur D target src c =
  if c =? 0 then Ok target else
  a <- safe_cast src D c ;;
  if fits (d_rep D) (target + a) then Ok (target + a) else Err OutOfRange.
Proof. exact safe_add_dur_spec. Qed.
Print Assumptions T_C15_safe_add_dur.

Theorem T_C15_safe_add_tp : forall D tp src c,
  rep4 (d_rep D) -> wf_dty D -> (d_rep src = I64 \/ d_rep src = d_rep D) ->
  fits (d_rep D) tp = true -> fits (d_rep src) c = true ->
  safe_add_tp D tp src c =
  if c =? 0 then Ok tp else
  a <- as_out_of_range (safe_cast src (op_dty D src) c) ;;
  if fits (d_rep D) (tp + a) then Ok (tp + a) else Err OutOfRange.
Proof. exact safe_add_tp_spec. Qed.
Print Assumptions T_C15_safe_add_tp.

Example T_C15_safe_add_example :
  safe_add_dur (mkD I8 1 1) 100 (mkD I64 1 1) 27 = Ok 127 /\ safe_add_dur (mkD I8 1 1) 100 (mkD I64 1 1) 28 = Err OutOfRange /\
  safe_add_tp (mkD I64 1 1000000000) (-9223372036854775807) (mkD I64 1 1) (-1) = Err OutOfRange.
Proof. exact c15_safe_add_example. Qed.
Print Assumptions T_C15_safe_add_example.

(* ---- only fractions of a second are rounded, to nearest with ties to even:
        std::chrono::round<duration<R,P>>(nanoseconds) as instantiated by the parsers ---- *)
Theorem T_C15_round : forall P R ns, rep3 R -> -999999999 <= ns <= 999999999 -> (R = U64 -> 0 <= ns) ->
  dround NsT (pty P R) ns = Ok (round_half_even ns (tick_ns P)).
Proof. exact dround_rep3. Qed.
Print Assumptions T_C15_round.

(* ---- the calendar step of To(string) -> time_point (year guard, shifted era / day of era with the two range guards,
        checked int64 / unsigned arithmetic) never overflows and equals days_from_civil for every date whose day
        number fits int64 ---- *)
Theorem T_C15_date_steps : forall A y m d (K : Z -> outcome A),
  -30000000000000000 <= y <= 30000000000000000 -> 1 <= m <= 12 -> 1 <= d <= 31 ->
  -9223372036854775808 <= days_from_civil y m d <= 9223372036854775807 ->
  date_steps y m d K = K (days_from_civil y m d).
Proof. exact c15_date_steps. Qed.
Print Assumptions T_C15_date_steps.

(* K46 (repaired by d4af9ec): near -2^63 years the guards report out_of_range (was signed overflow) *)
Example T_C15_year_guard : tp_parse Pd I64 text_K46 = Err OutOfRange /\ tp_parse Ps I64 text_K46b = Err OutOfRange.
Proof. exact r_K46. Qed.
Print Assumptions T_C15_year_guard.

(* K40 (5f3f75a): 29 February only in leap years; K47 (beee810): -P9223372036854775808D *)
Example T_C15_repaired : tp_parse Ps I64 text_K40 = Err InvalidArgument /\ tp_parse Ps I64 text_K40b = Ok 1709164800 /\
  dur_parse Pd I64 text_K47 = Ok (-9223372036854775808).
Proof. exact c15_repaired. Qed.
Print Assumptions T_C15_repaired.

(* still open, as observed behaviour of the model: lenient grammar (K41, K42) and int8 wrap (K48) *)
Example T_C15_open_classes :
  tp_parse Ps I64 text_K41 = Ok 1672531200 /\ dur_parse Ps I64 text_K42 = Ok 3601 /\
  dur_parse Pms I8 text_K48 = Ok (-55).
Proof. exact c15_open_classes. Qed.
Print Assumptions T_C15_open_classes.

(* ---- T_C15_tp_classify.  Specification (ChronoSpec.v): tp_grammar s  =  s is tf_render f for fields f with
        tf_wf f (sign rules, four or more year digits, two-digit fields, 1..9 fraction digits after '.' or ',',
        'Z'; every field in range, the day within the month OF THAT YEAR);  tp_expected P R f  =  the count
        count_of P gives the denoted instant (whole seconds exactly, only the fraction rounded, half to even) if it
        fits R, otherwise out_of_range.
        Full strength, for R int64 / int32 and every precision:
          forall s,  (forall f, tf_wf f -> s = tf_render f -> tp_parse P R s = tp_expected P R f)  /\
                     (~ tp_grammar s -> tp_parse P R s = Err InvalidArgument).
        FALSE because of K41 (second half: texts outside the grammar are accepted); the first half holds at full
        strength since the repair of K35b in /repo 2854d54. ---- *)
Theorem T_C15_tp_classify_refuted : ~ tp_grammar text_K41 /\ tp_parse Ps I64 text_K41 = Ok 1672531200.
Proof. exact c15_tp_classify_refuted. Qed.
Print Assumptions T_C15_tp_classify_refuted.

(* first half: on EVERY text of the documented grammar the result is exactly the specified classification — the
   denoted count, or out_of_range; in particular never invalid_argument, never UB, never a wrapped or truncated
   count *)
Theorem T_C15_tp_classify_grammar : forall P R f, c14_rep P R -> tf_wf f ->
  tp_parse P R (tf_render f) = tp_expected P R f.
Proof. exact tp_classify_grammar. Qed.
Print Assumptions T_C15_tp_classify_grammar.

(* regression, K35b (repaired): the documented text of the last day of time_point<days,int64> *)
Example T_C15_K35b_repaired : tf_wf fields_K35 /\ tf_render fields_K35 = text_K35 /\
  tp_parse Pd I64 (tf_render fields_K35) = Ok 9223372036854775807 /\ tp_expected Pd I64 fields_K35 = Ok 9223372036854775807.
Proof. exact c15_tp_classify_k35. Qed.
Print Assumptions T_C15_K35b_repaired.

(* ---- T_C15_tp_classify, second half (texts OUTSIDE the grammar).  tp_lenient (ChronoReject.v) describes, without
        the parser, the texts ParseIsoUtc lets through (the class of K41 together with the grammar): optional '+',
        then optional '-', then year-month-dayThour:minute:second with every numeric field a maximal non-empty digit
        string of ANY length (lfield: either too long for its integer type, which is reported as out_of_range on the
        spot whatever follows, or in range: month 1..12, day 1..dim year month, 0..23, 0..59, 0..59), the separators
        '-' '-' 'T' ':' ':', an optional fraction ('.' or ',', digits fitting uint32, at most nine unless all zero),
        'Z', then anything.  Everything else is invalid_argument, for every precision and representation. ---- *)
Theorem T_C15_tp_reject : forall P R s, ~ tp_lenient s -> tp_parse P R s = Err InvalidArgument.
Proof. exact tp_reject. Qed.
Print Assumptions T_C15_tp_reject.

(* in the words of the full-strength statement: outside the grammar and outside the lenient class *)
Theorem T_C15_tp_classify_outside_grammar : forall P R s, ~ tp_grammar s -> ~ tp_lenient s ->
  tp_parse P R s = Err InvalidArgument.
Proof. exact c15_tp_reject_grammar. Qed.
Print Assumptions T_C15_tp_classify_outside_grammar.

(* the class is exact (no text of the shape is rejected as invalid by ParseIsoUtc), contains the grammar, and K41 is
   in it and outside the grammar *)
Theorem T_C15_tp_lenient_exact : forall s, tp_lenient s <-> parse_iso_utc s <> Err InvalidArgument.
Proof. exact tp_lenient_exact. Qed.
Print Assumptions T_C15_tp_lenient_exact.

Theorem T_C15_tp_grammar_lenient : forall s, tp_grammar s -> tp_lenient s.
Proof. exact grammar_lenient. Qed.
Print Assumptions T_C15_tp_grammar_lenient.

Example T_C15_tp_lenient_K41 : tp_lenient text_K41 /\ ~ tp_grammar text_K41.
Proof. exact c15_K41_lenient. Qed.
Print Assumptions T_C15_tp_lenient_K41.

(* 48 named malformed texts (ChronoReject.tp_malformed: wrong separator at each position, field out of range incl.
   the day of that month and year, missing 'Z' / truncated, non-digit or sign inside a field, empty field, fraction
   outside the seconds part / empty / over-long, doubled sign): invalid_argument for every precision and type *)
Theorem T_C15_tp_malformed : forall P R, Forall (fun s => tp_parse P R s = Err InvalidArgument) tp_malformed.
Proof. exact tp_malformed_rejected. Qed.
Print Assumptions T_C15_tp_malformed.

(* on EVERY text (lenient, malformed, anything), int64 / int32 and every precision: invalid_argument, out_of_range, or
   a count that fits the representation — never undefined behaviour (no signed overflow, no buffer access), never a
   wrapped count.  (ParseIsoUtc yields fields that are all in range, ChronoTotal.parse_iso_utc_post.) *)
Theorem T_C15_tp_total : forall P R s, c14_rep P R ->
  tp_parse P R s = Err InvalidArgument \/ tp_parse P R s = Err OutOfRange \/
  exists v, tp_parse P R s = Ok v /\ fits R v = true.
Proof. exact tp_total. Qed.
Print Assumptions T_C15_tp_total.

(* ---- T_C15_dur_classify.  Specification (ChronoSpec.v): dur_grammar s  =  s is df_render f for fields f with
        df_wf f: [+-]P[nW][nD][T[nH][nM][n[(.|,)f]S]], every n a non-empty digit string of ANY length, 1..9 fraction
        digits, at least one component, 'T' exactly when a time component follows;  dur_expected P R f  =  the count
        count_of P gives the denoted duration (sign * (df_secs f seconds + df_fns f nanoseconds): whole seconds
        exactly, only the fraction rounded, half to even) if it fits R, otherwise out_of_range.
        Full strength, for R int64 / int32 and every precision:
          forall s,  (forall f, df_wf f -> s = df_render f -> dur_parse P R s = dur_expected P R f)  /\
                     (~ dur_grammar s -> dur_parse P R s = Err InvalidArgument).
        FALSE twice: K42 (second half: texts outside the grammar are accepted) and K49 (first half: "PT30M1800S"
        is exactly one hour, read into hours it is out_of_range, because 30 minutes alone is not a whole number of
        hours). ---- *)
Theorem T_C15_dur_classify_refuted :
  (~ dur_grammar text_K42 /\ dur_parse Ps I64 text_K42 = Ok 3601) /\
  (df_wf fields_K49 /\ dur_split Ph fields_K49 = true /\ dur_expected Ph I64 fields_K49 = Ok 1 /\
   dur_parse Ph I64 (df_render fields_K49) = Err OutOfRange).
Proof. exact c15_dur_classify_refuted. Qed.
Print Assumptions T_C15_dur_classify_refuted.

(* first half, outside the class dur_split P f (ChronoDurClassify.v, decidable: some component, taken alone, is not
   a whole number of ticks of P, or its digits exceed 2^64-1, 2^63 after a minus sign): on EVERY text of the
   documented grammar the result is exactly the specified classification — the denoted count, or out_of_range; in
   particular never invalid_argument, never UB, never a wrapped or truncated count *)
Theorem T_C15_dur_classify_outside : forall P R f, rep2 R -> df_wf f -> dur_split P f = false ->
  dur_parse P R (df_render f) = dur_expected P R f.
Proof. exact dur_classify_grammar. Qed.
Print Assumptions T_C15_dur_classify_outside.

(* inside the class as well: the denoted count or out_of_range, nothing else (the claim of C15 as worded, for
   every text of the documented duration grammar); what the class adds is only that out_of_range may be reported
   for a representable value *)
Theorem T_C15_dur_value_or_range : forall P R f, rep2 R -> df_wf f ->
  dur_parse P R (df_render f) = dur_expected P R f \/ dur_parse P R (df_render f) = Err OutOfRange.
Proof. exact dur_classify_weak. Qed.
Print Assumptions T_C15_dur_value_or_range.

(* the class for targets of seconds and finer: only the magnitude limit of a component *)
Theorem T_C15_dur_class_fine : forall P f, pnum P = 1 ->
  forallb (fun it => mag_ok (df_neg f) (item_v it)) (df_items f) = true -> dur_split P f = false.
Proof. exact dur_split_fine. Qed.
Print Assumptions T_C15_dur_class_fine.

(* ---- uint64 durations (all seven precisions): a text of the grammar without a minus sign is classified exactly as for
        the signed representations (same class dur_split, magnitudes up to 2^64-1); with a minus sign it is
        out_of_range at once — also "-PT0S", whose value zero is representable (by design: the sign is refused, not
        the value). ---- *)
Theorem T_C15_dur_classify_u64 : forall P f, df_wf f -> df_neg f = false -> dur_split P f = false ->
  dur_parse P U64 (df_render f) = dur_expected P U64 f.
Proof. exact c15_dur_classify_u64. Qed.
Print Assumptions T_C15_dur_classify_u64.

Theorem T_C15_dur_value_or_range_u64 : forall P f, df_wf f -> df_neg f = false ->
  dur_parse P U64 (df_render f) = dur_expected P U64 f \/ dur_parse P U64 (df_render f) = Err OutOfRange.
Proof. exact c15_dur_value_or_range_u64. Qed.
Print Assumptions T_C15_dur_value_or_range_u64.

Theorem T_C15_dur_neg_u64 : forall P f, df_wf f -> df_neg f = true -> dur_parse P U64 (df_render f) = Err OutOfRange.
Proof. exact c15_dur_neg_u64. Qed.
Print Assumptions T_C15_dur_neg_u64.

(* ---- T_C15_dur_classify, second half (texts OUTSIDE the grammar).  dur_loose (ChronoDurReject.v) describes, without
        the parser, the class of K42 together with the grammar: optional sign, 'P', then components (digits of any
        length and the unit letter of the section: W D before 'T', H M S after it; the seconds may carry a fraction),
        repeated and in any order inside their section, 'T' switching to the time section; after a component the text
        ends, or white space follows and the rest is ignored.
        On EVERY text, for int64 / int32 and every precision: invalid_argument, out_of_range, or a count that fits —
        never undefined behaviour, never out of fuel; and a count only for texts of that shape. ---- *)
Theorem T_C15_dur_total : forall P R s, rep2 R ->
  dur_parse P R s = Err InvalidArgument \/ dur_parse P R s = Err OutOfRange \/
  exists v, dur_parse P R s = Ok v /\ fits R v = true /\ dur_loose s.
Proof. exact dur_total. Qed.
Print Assumptions T_C15_dur_total.

Theorem T_C15_dur_outside_shape : forall P R s, rep2 R -> ~ dur_loose s ->
  dur_parse P R s = Err InvalidArgument \/ dur_parse P R s = Err OutOfRange.
Proof. exact dur_outside_shape. Qed.
Print Assumptions T_C15_dur_outside_shape.

Theorem T_C15_dur_grammar_loose : forall s, dur_grammar s -> dur_loose s.
Proof. exact grammar_loose. Qed.
Print Assumptions T_C15_dur_grammar_loose.

Example T_C15_dur_loose_K42 : dur_loose text_K42 /\ ~ dur_grammar text_K42.
Proof. exact c15_K42_loose. Qed.
Print Assumptions T_C15_dur_loose_K42.

(* 61 named malformed texts (ChronoDurReject.dur_malformed: years and months, unit letter of the other section,
   fraction outside the seconds part or malformed, missing 'P' / empty / nothing after 'P' or 'T', empty field, sign
   inside, doubled sign, lower case, digits without unit, doubled or misplaced 'T', separators): invalid_argument for
   every precision and EVERY representation *)
Theorem T_C15_dur_malformed : forall P R, Forall (fun s => dur_parse P R s = Err InvalidArgument) dur_malformed.
Proof. exact dur_malformed_rejected. Qed.
Print Assumptions T_C15_dur_malformed.

(* ---- T_C15_wide: the char16_t / char32_t (wchar_t) entry points.  The model mirrors the code: Utf8::Encode of the
        input with the default policy (ill-formed sequences replaced by the mark), then the char parser
        (tp_parse_wide w P R units = tp_parse P R (narrow w units), ChronoModel.v; correspondence by the tp.parse16 /
        tp.parse32 / dur.parse16 / dur.parse32 cases).  With C11 (transcode of well-formed text is exact): the wide
        entry point on the UTF-16 / UTF-32 form of a text is the char entry point on its UTF-8 form; hence the same
        result in every width; ASCII text (all texts of both grammars) is parsed as it is; and for ANY code units the
        totality theorems hold. ---- *)
Theorem T_C15_wide_exact : forall w P R cps, Forall scalar cps ->
  tp_parse_wide w P R (encs w cps) = tp_parse P R (encs W8 cps) /\
  dur_parse_wide w P R (encs w cps) = dur_parse P R (encs W8 cps).
Proof. exact c15_wide_exact. Qed.
Print Assumptions T_C15_wide_exact.

Theorem T_C15_width_independent : forall w1 w2 P R cps, Forall scalar cps ->
  tp_parse_wide w1 P R (encs w1 cps) = tp_parse_wide w2 P R (encs w2 cps) /\
  dur_parse_wide w1 P R (encs w1 cps) = dur_parse_wide w2 P R (encs w2 cps).
Proof. exact c15_width_independent. Qed.
Print Assumptions T_C15_width_independent.

Theorem T_C15_wide_ascii : forall w P R s, Forall (fun u => (u < 0x80)%N) s ->
  tp_parse_wide w P R s = tp_parse P R s /\ dur_parse_wide w P R s = dur_parse P R s.
Proof. exact c15_wide_ascii. Qed.
Print Assumptions T_C15_wide_ascii.

Theorem T_C15_wide_total : forall w P R units,
  (c14_rep P R ->
     tp_parse_wide w P R units = Err InvalidArgument \/ tp_parse_wide w P R units = Err OutOfRange \/
     exists v, tp_parse_wide w P R units = Ok v /\ fits R v = true) /\
  (rep2 R ->
     dur_parse_wide w P R units = Err InvalidArgument \/ dur_parse_wide w P R units = Err OutOfRange \/
     exists v, dur_parse_wide w P R units = Ok v /\ fits R v = true /\ dur_loose (narrow w units)).
Proof. exact c15_wide_total. Qed.
Print Assumptions T_C15_wide_total.

(* ======================================================================================================
   NOT PROVED (kept here at full strength; nothing below is claimed by the obligations above)

   T_C15_tp_classify, second half: proved (T_C15_tp_reject); what remains open there is only the defect itself
     (K41: tp_lenient is wider than tp_grammar).  Not stated: that tp_of_parts never returns invalid_argument (so
     that tp_lenient_exact would hold for tp_parse and not only for ParseIsoUtc).

   T_C15_dur_classify, second half, at full strength:
     forall P R s, ~ dur_loose s -> dur_parse P R s = Err InvalidArgument
     is FALSE as it stands: a well-formed leading component that does not convert (P1D into int32 nanoseconds, PT1S
     into minutes), digits above 2^64-1 (2^63 after '-') or an overflowing fraction addition report out_of_range
     BEFORE the malformed part is looked at ("P1D;" into duration<int32,nano>).  Proved instead: never a value, never
     UB (T_C15_dur_total / T_C15_dur_outside_shape), and invalid_argument for the 61 texts of T_C15_dur_malformed.
     Not done: the exact description of the texts with out_of_range-before-invalid_argument (it depends on P and R),
     and tightness of dur_loose (every text of the shape gives a value or out_of_range).
     uint64 targets: the grammar half is T_C15_dur_classify_u64 / T_C15_dur_neg_u64; the totality theorem
     T_C15_dur_total is stated for int64 / int32 only.

   Representation domains: int8_t targets are outside T_C15_round, T_C15_tp_classify_grammar, T_C15_dur_classify_outside and the two _total theorems (K48); uint64
   time points (the parser computes the day number in int64, so uint64 day counts above 2^63 are reported
   out_of_range): correspondence only.  tm / CRawTime: Properties_C14 (T_C14_tm_roundtrip, T_C14_tm_print_total, T_C14_raw_time); wide OUTPUT
   strings (out.append(buf, pos) of the ASCII buffer) are not modelled.
   ====================================================================================================== *)
