(* Properties_C15.v — C15: ISO-8601 parsing yields the denoted value or throws; it never wraps.
   Statements only; proofs in Chrono*.v.

   _refuted / _outside pairs where the faithful model falsifies the full statement:
     defect_N1  SafeDurationCast of a negative count into an unsigned coarser target (wrapped value)
     defect_N2  SafeDurationCast of a uint64 count above INT64_MAX into a signed coarser target (signed overflow) *)
From BS Require Import Base ChronoSpec ChronoModel ChronoArith ChronoDecimal ChronoSweep ChronoCalendar ChronoYear
  ChronoSafe ChronoSafeAdd ChronoText ChronoTp ChronoTpParse ChronoTpRt ChronoTs ChronoRefute.
Local Open Scope Z_scope.

(* ---- ParseSecondFractions: exact for every fraction of 1..9 digits (the double integer division
        10^18 / (10^n * 10^9 / v) is v * 10^(9-n)); algebraic, nothing enumerated ---- *)
Theorem T_C15_fraction_exact : forall ds rest,
  all_digits ds = true -> no_digit_head rest -> (1 <= length ds <= 9)%nat ->
  parse_second_fractions (ds ++ rest) = Some (dec_value ds * 10 ^ (9 - Z.of_nat (length ds)), rest).
Proof. exact fraction_exact. Qed.
Print Assumptions T_C15_fraction_exact.

Theorem T_C15_fraction_core : forall n v, (1 <= n <= 9)%nat -> 0 < v < 10 ^ Z.of_nat n ->
  1000000000000000000 / (10 ^ Z.of_nat n * 1000000000 / v) = v * 10 ^ (9 - Z.of_nat n).
Proof.
  intros n v Hn Hv. apply frac_core; [exact Hv|].
  rewrite <- Z.pow_add_r by lia. replace (Z.of_nat n + (9 - Z.of_nat n)) with 9 by lia. reflexivity.
Qed.
Print Assumptions T_C15_fraction_core.

(* ten or more digits: rejected unless all zero; no digit at all: rejected *)
Theorem T_C15_fraction_long : forall ds rest,
  all_digits ds = true -> no_digit_head rest -> (10 <= length ds)%nat ->
  parse_second_fractions (ds ++ rest) = if dec_value ds =? 0 then Some (0, rest) else None.
Proof. exact fraction_too_long. Qed.
Print Assumptions T_C15_fraction_long.

Example T_C15_fraction_example :
  parse_second_fractions [57;50;53;90]%N = Some (925000000, [90]%N) /\
  parse_second_fractions [48;48;48;48;48;48;48;48;48;49;90]%N = None.
Proof. split; vm_compute; reflexivity. Qed.
Print Assumptions T_C15_fraction_example.

(* ---- SafeDurationCast.  cast_spec from to c :=  the result is the exact value and fits the target,
        or out_of_range and no fitting exact value exists; nothing else (no UB, no other error).
        Full strength: forall from to c (periods positive, reduced ratio with num = 1 or den = 1,
        representations int8/int32/int64/uint64, c representable) -> cast_spec from to c.  FALSE: ---- *)
Theorem T_C15_safe_cast_refuted :
  (exists from to c, rep4 (d_rep from) /\ rep4 (d_rep to) /\ wf_dty from /\ wf_dty to /\ simple_ratio from to /\
     fits (d_rep from) c = true /\ ~ cast_spec from to c) /\
  safe_cast SecT (mkD U64 60 1) (-16) = Ok 307445734561825860 /\
  safe_cast (mkD U64 1 1) (mkD I64 60 1) 18446744073709551600 = UB UBOverflow.
Proof.
  split; [|exact (conj w_N1 w_N2)].
  exists SecT, (mkD U64 60 1), (-16). unfold rep4, wf_dty, simple_ratio. cbn [d_rep d_num d_den SecT].
  repeat split; auto; try lia; try (right; reflexivity).
  unfold cast_spec. rewrite w_N1. unfold exact_cast. cbn. intros [_ H]. lia.
Qed.
Print Assumptions T_C15_safe_cast_refuted.

Theorem T_C15_safe_cast_outside : forall from to c,
  rep4 (d_rep from) -> rep4 (d_rep to) -> wf_dty from -> wf_dty to ->
  d_num from * d_den to <= 4611686018427387904 -> d_den from * d_num to <= 4611686018427387904 ->
  fits (d_rep from) c = true -> simple_ratio from to ->
  ~ defect_N1 from to c -> ~ defect_N2 from to c -> cast_spec from to c.
Proof. exact safe_cast_correct. Qed.
Print Assumptions T_C15_safe_cast_outside.

Example T_C15_safe_cast_example :
  safe_cast (mkD I64 604800 1) (mkD I32 1 1) 3550 = Ok 2147040000 /\
  safe_cast (mkD I64 604800 1) (mkD I32 1 1) 3551 = Err OutOfRange /\
  safe_cast (mkD U64 1 1) (mkD I8 60 1) 7620 = Ok 127 /\
  safe_cast (mkD U64 1 1) (mkD I8 60 1) 7621 = Err OutOfRange.
Proof. repeat split; vm_compute; reflexivity. Qed.
Print Assumptions T_C15_safe_cast_example.

(* the general-ratio branch (not reachable with the standard units) silently returns 0 *)
Example T_C15_safe_cast_general_refuted : safe_cast (mkD I64 2 3) (mkD I64 1 1) 1 = Ok 0.
Proof. exact w_N3. Qed.
Print Assumptions T_C15_safe_cast_general_refuted.

(* ---- SafeAddDuration (both overloads): the exact sum or out_of_range; never UB, never wrapped ---- *)
Theorem T_C15_safe_add_dur : forall D target src c,
  rep4 (d_rep D) -> wf_dty D -> fits (d_rep D) target = true -> fits (d_rep src) c = true ->
  safe_add_dur D target src c =
  if c =? 0 then Ok target else
  a <- safe_cast src D c ;;
  if fits (d_rep D) (target + a) then Ok (target + a) else Err OutOfRange.
Proof. exact safe_add_dur_spec. Qed.
Print Assumptions T_C15_safe_add_dur.

Theorem T_C15_safe_add_tp : forall D tp src c,
  rep4 (d_rep D) -> wf_dty D -> (d_rep src = I64 \/ d_rep src = d_rep D) ->
  fits (d_rep D) tp = true -> fits (d_rep src) c = true ->
  safe_add_tp D tp src c =
  if c =? 0 then Ok tp else
  a <- as_out_of_range (safe_cast src (op_dty D src) c) ;;
  if fits (d_rep D) (tp + a) then Ok (tp + a) else Err OutOfRange.
Proof. exact safe_add_tp_spec. Qed.
Print Assumptions T_C15_safe_add_tp.

Example T_C15_safe_add_example :
  safe_add_dur (mkD I8 1 1) 100 (mkD I64 1 1) 27 = Ok 127 /\ safe_add_dur (mkD I8 1 1) 100 (mkD I64 1 1) 28 = Err OutOfRange /\
  safe_add_tp (mkD I64 1 1000000000) (-9223372036854775807) (mkD I64 1 1) (-1) = Err OutOfRange.
Proof. repeat split; vm_compute; reflexivity. Qed.
Print Assumptions T_C15_safe_add_example.

(* ---- only fractions of a second are rounded, to nearest with ties to even:
        std::chrono::round<duration<R,P>>(nanoseconds) as instantiated by the parsers ---- *)
Theorem T_C15_round : forall P R ns, rep3 R -> -999999999 <= ns <= 999999999 -> (R = U64 -> 0 <= ns) ->
  dround NsT (pty P R) ns = Ok (round_half_even ns (tick_ns P)).
Proof. exact dround_rep3. Qed.
Print Assumptions T_C15_round.

(* ---- the calendar step of To(string) -> time_point never overflows for |year| <= 10^16 and equals
        days_from_civil (the era guard and the int64/unsigned arithmetic are exact there) ---- *)
Theorem T_C15_date_steps : forall A y m d (K : Z -> outcome A),
  -10000000000000000 <= y <= 10000000000000000 -> 1 <= m <= 12 -> 1 <= d <= 31 ->
  date_steps y m d K = K (days_from_civil y m d).
Proof. intros A. exact (@date_steps_ok A). Qed.
Print Assumptions T_C15_date_steps.

(* near +-2^63 years the same arithmetic is undefined behaviour *)
Example T_C15_year_overflow : tp_parse Pd I64 text_N4 = UB UBOverflow /\ tp_parse Ps I64 text_N4b = UB UBOverflow.
Proof. exact (conj w_N4 w_N4b). Qed.
Print Assumptions T_C15_year_overflow.
