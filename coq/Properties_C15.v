(* Properties_C15.v — C15: ISO-8601 parsing yields the denoted value or throws; it never wraps.
   Statements only; proofs in Chrono*.v.  Model: ChronoModel.v at /repo beee810.

   Open input classes (kept as _refuted / _outside pairs or Examples):
     K45  general-ratio branch of SafeDurationCast (unreachable with the standard units)
     K41 / K42  lenient acceptance outside the documented grammar (field widths, text after 'Z', repeated or
          reordered duration components, text after white space)
     K48  8-bit representations: std::chrono::round / floor wrap *)
From BS Require Import Base ChronoSpec ChronoModel ChronoArith ChronoDecimal ChronoSweep ChronoCalendar ChronoYear
  ChronoSafe ChronoSafeAdd ChronoText ChronoTp ChronoTpParse ChronoTpRt ChronoTs ChronoRefute.
Local Open Scope Z_scope.

(* ---- ParseSecondFractions: exact for every fraction of 1..9 digits (the double integer division
        10^18 / (10^n * 10^9 / v) is v * 10^(9-n)); algebraic, nothing enumerated ---- *)
Theorem T_C15_fraction_exact : forall ds rest,
  all_digits ds = true -> no_digit_head rest -> (1 <= length ds <= 9)%nat ->
  parse_second_fractions (ds ++ rest) = Some (dec_value ds * 10 ^ (9 - Z.of_nat (length ds)), rest).
Proof. exact fraction_exact. Qed.
Print Assumptions T_C15_fraction_exact.

Theorem T_C15_fraction_core : forall n v, (1 <= n <= 9)%nat -> 0 < v < 10 ^ Z.of_nat n ->
  1000000000000000000 / (10 ^ Z.of_nat n * 1000000000 / v) = v * 10 ^ (9 - Z.of_nat n).
Proof.
  intros n v Hn Hv. apply frac_core; [exact Hv|].
  rewrite <- Z.pow_add_r by lia. replace (Z.of_nat n + (9 - Z.of_nat n)) with 9 by lia. reflexivity.
Qed.
Print Assumptions T_C15_fraction_core.

(* ten or more digits: rejected unless all zero; no digit at all: rejected *)
Theorem T_C15_fraction_long : forall ds rest,
  all_digits ds = true -> no_digit_head rest -> (10 <= length ds)%nat ->
  parse_second_fractions (ds ++ rest) = if dec_value ds =? 0 then Some (0, rest) else None.
Proof. exact fraction_too_long. Qed.
Print Assumptions T_C15_fraction_long.

Example T_C15_fraction_example :
  parse_second_fractions [57;50;53;90]%N = Some (925000000, [90]%N) /\
  parse_second_fractions [48;48;48;48;48;48;48;48;48;49;90]%N = None.
Proof. split; vm_compute; reflexivity. Qed.
Print Assumptions T_C15_fraction_example.

(* ---- SafeDurationCast.  cast_spec from to c :=  the result is the exact value and fits the target,
        or out_of_range and no fitting exact value exists; nothing else (no UB, no other error).
        Full strength: forall from to c (periods positive, representations int8/int32/int64/uint64, c
        representable) -> cast_spec from to c.  Still FALSE in the general-ratio branch (K45: reduced ratio
        with num <> 1 and den <> 1 — not reachable with the standard units): ---- *)
Theorem T_C15_safe_cast_refuted :
  exists from to c, rep4 (d_rep from) /\ rep4 (d_rep to) /\ wf_dty from /\ wf_dty to /\
     fits (d_rep from) c = true /\ ~ cast_spec from to c.
Proof.
  exists (mkD I64 2 3), (mkD I64 1 1), 1. unfold rep4, wf_dty. cbn [d_rep d_num d_den].
  repeat split; auto; try lia.
  unfold cast_spec. rewrite w_K45. unfold exact_cast. cbn. intros [_ H]. lia.
Qed.
Print Assumptions T_C15_safe_cast_refuted.

(* outside that branch (reduced ratio with num = 1 or den = 1, i.e. every pair of the units ns .. weeks):
   exact, for every pair of representations, incl. negative counts into unsigned targets and uint64 counts
   above INT64_MAX (the classes N1 / N2 repaired by 30f5d3e) *)
Theorem T_C15_safe_cast_outside : forall from to c,
  rep4 (d_rep from) -> rep4 (d_rep to) -> wf_dty from -> wf_dty to ->
  d_num from * d_den to <= 4611686018427387904 -> d_den from * d_num to <= 4611686018427387904 ->
  fits (d_rep from) c = true -> simple_ratio from to -> cast_spec from to c.
Proof. exact safe_cast_correct. Qed.
Print Assumptions T_C15_safe_cast_outside.

Example T_C15_safe_cast_example :
  safe_cast (mkD I64 604800 1) (mkD I32 1 1) 3550 = Ok 2147040000 /\
  safe_cast (mkD I64 604800 1) (mkD I32 1 1) 3551 = Err OutOfRange /\
  safe_cast (mkD U64 1 1) (mkD I8 60 1) 7620 = Ok 127 /\
  safe_cast (mkD U64 1 1) (mkD I8 60 1) 7621 = Err OutOfRange /\
  safe_cast SecT (mkD U64 60 1) (-16) = Err OutOfRange /\
  safe_cast (mkD U64 1 1) (mkD I64 60 1) 18446744073709551600 = Ok 307445734561825860.
Proof. repeat split; vm_compute; reflexivity. Qed.
Print Assumptions T_C15_safe_cast_example.

(* ---- SafeAddDuration (both overloads): the exact sum or out_of_range; never UB, never wrapped ---- *)
Theorem T_C15_safe_add_dur : forall D target src c,
  rep4 (d_rep D) -> wf_dty D -> fits (d_rep D) target = true -> fits (d_rep src) c = true ->
  safe_add_dur D target src c =
  if c =? 0 then Ok target else
  a <- safe_cast src D c ;;
  if fits (d_rep D) (target + a) then Ok (target + a) else Err OutOfRange.
Proof. exact safe_add_dur_spec. Qed.
Print Assumptions T_C15_safe_add_dur.

Theorem T_C15_safe_add_tp : forall D tp src c,
  rep4 (d_rep D) -> wf_dty D -> (d_rep src = I64 \/ d_rep src = d_rep D) ->
  fits (d_rep D) tp = true -> fits (d_rep src) c = true ->
  safe_add_tp D tp src c =
  if c =? 0 then Ok tp else
  a <- as_out_of_range (safe_cast src (op_dty D src) c) ;;
  if fits (d_rep D) (tp + a) then Ok (tp + a) else Err OutOfRange.
Proof. exact safe_add_tp_spec. Qed.
Print Assumptions T_C15_safe_add_tp.

Example T_C15_safe_add_example :
  safe_add_dur (mkD I8 1 1) 100 (mkD I64 1 1) 27 = Ok 127 /\ safe_add_dur (mkD I8 1 1) 100 (mkD I64 1 1) 28 = Err OutOfRange /\
  safe_add_tp (mkD I64 1 1000000000) (-9223372036854775807) (mkD I64 1 1) (-1) = Err OutOfRange.
Proof. repeat split; vm_compute; reflexivity. Qed.
Print Assumptions T_C15_safe_add_example.

(* ---- only fractions of a second are rounded, to nearest with ties to even:
        std::chrono::round<duration<R,P>>(nanoseconds) as instantiated by the parsers ---- *)
Theorem T_C15_round : forall P R ns, rep3 R -> -999999999 <= ns <= 999999999 -> (R = U64 -> 0 <= ns) ->
  dround NsT (pty P R) ns = Ok (round_half_even ns (tick_ns P)).
Proof. exact dround_rep3. Qed.
Print Assumptions T_C15_round.

(* ---- the calendar step of To(string) -> time_point (year guard, era guard, dayInEra guard, checked
        int64 / unsigned arithmetic) never overflows and equals days_from_civil for every date whose day
        number fits int64 with the 719468 days of head room the era guard needs ---- *)
Theorem T_C15_date_steps : forall A y m d (K : Z -> outcome A),
  -30000000000000000 <= y <= 30000000000000000 -> 1 <= m <= 12 -> 1 <= d <= 31 ->
  -9223372036854775808 <= days_from_civil y m d <= 9223372036854775807 - 719468 ->
  date_steps y m d K = K (days_from_civil y m d).
Proof. intros A. exact (@date_steps_ok A). Qed.
Print Assumptions T_C15_date_steps.

(* near -2^63 years the guards added by d4af9ec report out_of_range (was signed overflow) *)
Example T_C15_year_guard : tp_parse Pd I64 text_N4 = Err OutOfRange /\ tp_parse Ps I64 text_N4b = Err OutOfRange.
Proof. exact r_N4. Qed.
Print Assumptions T_C15_year_guard.

(* 29 February only in leap years (5f3f75a); -P9223372036854775808D (beee810) *)
Example T_C15_repaired : tp_parse Ps I64 text_F34 = Err InvalidArgument /\ tp_parse Ps I64 text_F34b = Ok 1709164800 /\
  dur_parse Pd I64 text_N5 = Ok (-9223372036854775808).
Proof. destruct r_F34 as [H1 H2]. exact (conj H1 (conj H2 r_N5)). Qed.
Print Assumptions T_C15_repaired.

(* still open, as observed behaviour of the model: lenient grammar (K41, K42) and int8 wrap (K48) *)
Example T_C15_open_classes :
  tp_parse Ps I64 text_K41 = Ok 1672531200 /\ dur_parse Ps I64 text_K42 = Ok 3601 /\
  dur_parse Pms I8 text_K48 = Ok (-55).
Proof. exact (conj w_K41 (conj w_K42 (proj1 w_K48))). Qed.
Print Assumptions T_C15_open_classes.

(* ======================================================================================================
   NOT PROVED (kept here at full strength; nothing below is claimed by the obligations above)

   T_C15_tp_classify :
     forall P R s, (R = I64 \/ R = I32 \/ R = U64) ->
       match tp_parse P R s with
       | Ok t => exists ns, tp_denotes s ns /\ count_of P (ns / 10^9) (ns mod 10^9) = Some t /\ fits R t = true
       | Err InvalidArgument => ~ tp_grammar s
       | Err OutOfRange => exists ns, tp_denotes s ns /\
                             (count_of P (ns / 10^9) (ns mod 10^9) = None \/ forall t, count_of P .. = Some t -> fits R t = false)
       | _ => False     (never UB, never RuntimeError, never a wrapped count)
       end
     (tp_grammar / tp_denotes / count_of: ChronoSpec.v; only the fraction of a second is rounded, half to even).
     Known to be FALSE as stated because of K41 (texts outside the documented grammar are accepted), so the
     final form will be a _refuted / _outside pair with the lenient texts as the class.
     Proved building blocks: T_C15_fraction_exact, T_C15_round, T_C15_date_steps, T_C15_safe_add_tp,
     T_C15_safe_cast_outside, ChronoText.parse_printed (ParseIsoUtc on the canonical text of any valid
     date-time returns its fields), ChronoTpRt.tp_of_parts_ok (the fields of a representable instant give back
     its count) — i.e. the "documented text of a representable instant -> Ok of its count" direction for the
     canonical texts; not proved: the inversion (Ok / InvalidArgument / OutOfRange => grammar facts) and
     non-canonical texts (',' separator, fewer fraction digits, explicit '+').

   T_C15_dur_classify : the same shape for durations with dur_grammar / dur_denotes (uint64 magnitudes, sign,
     unit letter by section, fraction only in the seconds part, negative into unsigned = OutOfRange); FALSE as
     stated because of K42; nothing proved beyond the shared building blocks.

   Representation domains: int8_t targets are outside T_C15_round (K48); time_t / tm / char16_t / char32_t
   targets and inputs: correspondence only.
   ====================================================================================================== *)
