(* Properties_C15.v — placeholder while the proofs are being developed *)
From BS Require Import Base ChronoSpec ChronoModel.
Local Open Scope Z_scope.
Example T_C15_epoch : civil_from_days 0 = (1970, 1, 1).
Proof. vm_compute. reflexivity. Qed.
Print Assumptions T_C15_epoch.
