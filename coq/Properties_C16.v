(* Properties_C16.v — C16: number/text conversion is lossless; numeric parsing is total and
   range-checked.  Statements only.  NumSpec.v: to_dec, leading_literal, classify_spec, bool_spec.
   NumModel.v: parse_num, parse_bool, to_text (std::from_chars / std::to_chars for integers are
   modelled from the C++ standard and validated by correspondence, not verified). *)
From BS Require Import Base UtfSpec UtfModel UtfLemmas NumSpec NumModel NumTextLemmas NumTextProofs.
Local Open Scope Z_scope.

(* every integer of every type, in every string width: the text is the minimal decimal form, it fits
   the 42-byte buffer, and it parses back to the same integer *)
Theorem T_C16_int_roundtrip : forall T w z, T <> TBool -> in_range T z ->
  exists txt, to_text T w z [] = COk txt /\ to_dec z = Some txt /\ parse_num T w txt = COk z.
Proof. exact int_roundtrip. Qed.
Print Assumptions T_C16_int_roundtrip.

Theorem T_C16_to_chars_fits : forall T z, in_range T z ->
  exists s, to_dec z = Some s /\ to_chars_int 42 z = Some s /\ (length s <= 20)%nat.
Proof. exact to_chars_fits. Qed.
Print Assumptions T_C16_to_chars_fits.

(* fuel of the decimal text never runs out *)
Theorem T_C16_to_dec_fuel_suffices : forall z, to_dec z <> None.
Proof. exact to_dec_total. Qed.
Print Assumptions T_C16_to_dec_fuel_suffices.

(* FULL STRENGTH: for every string (any width, any units) the parser returns the value of the leading
   literal after blanks if the target can represent it, out_of_range if it cannot, invalid_argument
   if there is no literal or a fraction follows.  Refuted by the current code: *)
Theorem T_C16_int_classify_refuted : exists T w s, units w s /\ parse_num T w s <> classify_spec T s.
Proof. exact classify_refuted. Qed.
Print Assumptions T_C16_int_classify_refuted.

(* ... and it holds for every input outside the class "unsigned target and the text after the blanks
   starts with '-' and a digit" (std::from_chars does not accept '-' for unsigned types, so "-0" and
   "-5" come back as invalid_argument instead of 0 / out_of_range) *)
Theorem T_C16_int_classify_outside : forall T w s, units w s ->
  ~ (minus_unsigned T (skip_blanks s) = true) -> parse_num T w s = classify_spec T s.
Proof. exact classify_outside. Qed.
Print Assumptions T_C16_int_classify_outside.

Theorem T_C16_int_classify_inside : forall T w s, units w s ->
  minus_unsigned T (skip_blanks s) = true -> parse_num T w s = CInvalidArgument.
Proof. exact classify_inside. Qed.
Print Assumptions T_C16_int_classify_inside.

(* total: always one of value / out_of_range / invalid_argument *)
Theorem T_C16_int_total : forall T w s, units w s ->
  (exists v, parse_num T w s = COk v) \/ parse_num T w s = COutOfRange \/ parse_num T w s = CInvalidArgument.
Proof. exact parse_total. Qed.
Print Assumptions T_C16_int_total.

(* never a wrapped value: whatever is returned is the literal's value and the target represents it
   (inside the defect class too) *)
Theorem T_C16_int_never_wraps : forall T w s v, units w s -> parse_num T w s = COk v ->
  in_range T v /\ exists frac, leading_literal (skip_blanks s) = Some (v, frac) /\ frac = false.
Proof. exact parse_never_wraps. Qed.
Print Assumptions T_C16_int_never_wraps.

(* the statement of C16 leaves open which exception a fractional literal whose integer part is out
   of range gets ("999.5" for int8); classify_spec lets the range win.  Under the other order the
   code differs exactly on that overlap: *)
Theorem T_C16_int_classify_frac_first_refuted : exists T w s, units w s /\ parse_num T w s <> classify_frac_first T s.
Proof. exact classify_frac_first_refuted. Qed.
Print Assumptions T_C16_int_classify_frac_first_refuted.

Theorem T_C16_int_classify_frac_first_outside : forall T w s, units w s ->
  ~ (minus_unsigned T (skip_blanks s) = true) ->
  ~ (exists z, leading_literal (skip_blanks s) = Some (z, true) /\ in_rangeb T z = false) ->
  parse_num T w s = classify_frac_first T s.
Proof. exact classify_frac_first_outside. Qed.
Print Assumptions T_C16_int_classify_frac_first_outside.

(* the same text gives the same result in every string width (char, char16_t, char32_t / wchar_t) *)
Theorem T_C16_width_independent : forall T w1 w2 cps, Forall scalar cps ->
  parse_num T w1 (encs w1 cps) = parse_num T w2 (encs w2 cps).
Proof. exact width_independent. Qed.
Print Assumptions T_C16_width_independent.

(* stronger: any two unit strings that agree up to their first non-ASCII unit (ill-formed or not) *)
Theorem T_C16_width_independent_any : forall T wa wb a b, units wa a -> units wb b -> sim a b ->
  parse_num T wa a = parse_num T wb b.
Proof. exact width_independent_sim. Qed.
Print Assumptions T_C16_width_independent_any.

(* bool: exactly "1" / "0" as complete digit strings, true / false prefixes in any letter case, after
   blanks; other digit strings out_of_range; everything else invalid_argument *)
Theorem T_C16_bool : forall s, parse_bool s = bool_spec s.
Proof. exact parse_bool_exact. Qed.
Print Assumptions T_C16_bool.

Theorem T_C16_bool_roundtrip : forall (b : bool) w out, to_text TBool w (if b then 1 else 0) [] = COk out ->
  out = bool_text b /\ parse_bool out = COk b.
Proof. exact parse_bool_roundtrip. Qed.
Print Assumptions T_C16_bool_roundtrip.

Theorem T_C16_bool_width_independent : forall w1 w2 cps, parse_bool (encs w1 cps) = parse_bool (encs w2 cps).
Proof. exact bool_width_independent. Qed.
Print Assumptions T_C16_bool_width_independent.

(* std::isdigit is handed a character value; the C standard defines it only for unsigned-char values
   and EOF.  Full strength "every argument is in the domain" is refuted (char32_t 0x10031, or a UTF-8
   continuation byte as negative char); it holds for ASCII input.  Not observable with GCC, which
   folds the builtin to a range test. *)
Theorem T_C16_bool_isdigit_domain_refuted :
  exists w s a, units w s /\ In a (parse_bool_isdigit_args w s) /\ isdigit_arg_ok a = false.
Proof. exact bool_isdigit_domain_refuted. Qed.
Print Assumptions T_C16_bool_isdigit_domain_refuted.

Theorem T_C16_bool_isdigit_domain_outside : forall w s, Forall (fun u => (u < 0x80)%N) s ->
  Forall (fun a => isdigit_arg_ok a = true) (parse_bool_isdigit_args w s).
Proof. exact bool_isdigit_domain_outside. Qed.
Print Assumptions T_C16_bool_isdigit_domain_outside.

Theorem T_C16_num_isdigit_domain_refuted :
  exists T w s a, units w s /\ In a (parse_num_isdigit_args T w s) /\ isdigit_arg_ok a = false.
Proof. exact num_isdigit_domain_refuted. Qed.
Print Assumptions T_C16_num_isdigit_domain_refuted.

Theorem T_C16_num_isdigit_domain_outside : forall T w s, Forall (fun u => (u < 0x80)%N) s ->
  Forall (fun a => isdigit_arg_ok a = true) (parse_num_isdigit_args T w s).
Proof. exact num_isdigit_domain_outside. Qed.
Print Assumptions T_C16_num_isdigit_domain_outside.

Example T_C16_example_classify :
  parse_num TI8 W16 [32; 9; 45; 49; 50; 56; 120]%N = COk (-128) /\
  parse_num TI8 W8 [49; 50; 56]%N = COutOfRange /\
  parse_num TI32 W32 [49; 50; 46; 53]%N = CInvalidArgument /\
  parse_num TU32 W8 [45; 53]%N = CInvalidArgument /\ classify_spec TU32 [45; 53]%N = COutOfRange.
Proof. exact classify_examples. Qed.
Print Assumptions T_C16_example_classify.
