(* Properties_C17.v — C17: validation reports exactly the failing fields and rules, after a full load.
   Statements only.
   load_root a pl max t d         : LoadObject into a fresh object of class/type t from document d with
                                    maxValidationErrors = max (ArchModel.v part 2; a, pl: archive flavour, policies)
   load_recording a pl t d        : the same load with AddValidationError only recording its calls: Ok (v, fs)
                                    = the load raises no other error, the object ends as v, and fs lists
                                    (path, message) of every failing rule in evaluation order
   load_plain a pl t d            : the same load with validation switched off
   full_report / capped_report / msgs_at / failing_paths (ArchSpec.v): what the exception must carry
   group fs                       : mErrorsMap after the calls fs (first-insertion order of the paths) *)
From BS Require Import Base ArchSpec ArchModel ArchLemmas ArchProofs ArchValidation ArchXml.
From BS Require ArchCodec.      (* qualified: its parsing notations (msg, fl) would capture variable names used here *)

(* the failing rules of one field visit (VisitArgs): exactly the failing validators' messages, in
   declaration order, under the field's path *)
Theorem T_C17_visit_args : forall vs w ld path l,
  visit_args rec_sink vs w ld path l = Ok (l ++ rule_failures path (map (fun v => apply_vld v w ld) vs)).
Proof. exact visit_args_recorded. Qed.
Print Assumptions T_C17_visit_args.

(* ... and of a class: field by field in declaration order, the nested fields of a field before the
   field's own rules, absent fields validated as "not loaded" with their current value; the same key
   requested twice is visited twice *)
Theorem T_C17_fields : forall a pl key t vs rest path (v : fsval (FCons key t vs rest)) ms l0,
  load_fields a pl rec_sink (FCons key t vs rest) path v ms l0 =
  ('(v1, ld, l1) <- match member (field_key t key) ms with
                   | None => Ok (fst v, false, l0)
                   | Some d => load_fty a pl rec_sink t (path ++ slash ++ key)%list (fst v) d l0
                   end ;;
   '(r, l3) <- load_fields a pl rec_sink rest path (snd v) ms
                 (l1 ++ rule_failures (path ++ slash ++ key)%list (map (fun vd => apply_vld vd (view_of t v1) ld) vs)) ;;
   Ok ((v1, r), l3)).
Proof. exact recorded_field. Qed.
Print Assumptions T_C17_fields.

(* the load throws ValidationException iff some validator fails (when no other error is raised), for
   every maxValidationErrors; the map is never empty *)
Theorem T_C17_iff : forall a pl max t d v fs,
  load_recording a pl t d = Ok (v, fs) ->
  (fs = [] -> load_root a pl max t d = Ok v) /\
  (fs <> [] -> exists m, load_root a pl max t d = Exc (EValidation m) /\ m <> []).
Proof. exact load_root_iff. Qed.
Print Assumptions T_C17_iff.

(* maxValidationErrors = 0: the exception is thrown at the end and carries exactly the failing paths
   (each once, in order of first failure) with exactly their failing messages in order; messages of a
   key requested twice accumulate under its path *)
Theorem T_C17_exact : forall a pl t d v fs,
  load_recording a pl t d = Ok (v, fs) ->
  load_root a pl 0 t d = match fs with [] => Ok v | _ => Exc (EValidation (group fs)) end /\
  full_report fs (group fs).
Proof. exact exact_thm. Qed.
Print Assumptions T_C17_exact.

(* maxValidationErrors = k > 0, full strength: the first k failing paths, each with all its failing
   messages.  False (F32): AddValidationError throws right after inserting the FIRST message of the
   k-th path *)
Theorem T_C17_capped_refuted : ~ C17_capped_statement.
Proof. exact capped_refuted. Qed.
Print Assumptions T_C17_capped_refuted.

(* outside the defect class (a reported path has a further failing rule after the point of the
   throw) the full-strength statement holds *)
Theorem T_C17_capped_outside : forall k fs,
  (0 < k <= length (failing_paths fs))%nat -> truncated k fs = false ->
  exists m, replay (add_validation_error (N.of_nat k)) [] fs = Exc (EValidation m) /\ capped_report k fs m.
Proof. exact capped_statement_outside. Qed.
Print Assumptions T_C17_capped_outside.

(* what the load does with a cap in every case: with fewer than k failing paths as without a cap;
   otherwise it throws at the first failure of the k-th path, and the exception lists the first k
   failing paths with the messages produced up to there *)
Theorem T_C17_capped_actual : forall a pl k t d v fs, (0 < k)%nat ->
  load_recording a pl t d = Ok (v, fs) ->
  load_root a pl (N.of_nat k) t d =
    match cut k fs with
    | Some c => Exc (EValidation (group c))
    | None => match fs with [] => Ok v | _ => Exc (EValidation (group fs)) end
    end /\
  (forall c, cut k fs = Some c ->
     (exists rest, fs = c ++ rest /\ length (failing_paths c) = k) /\
     reports c (firstn k (failing_paths fs)) (group c)) /\
  (cut k fs = None -> (length (failing_paths fs) < k)%nat).
Proof. exact capped_actual_thm. Qed.
Print Assumptions T_C17_capped_actual.

(* validation never changes what is loaded: every field, passing or failing, holds the value of the
   validator-free load (for loads that run to the end: success, or the final throw) *)
Theorem T_C17_passing_fields_loaded : forall a pl t d v fs,
  load_recording a pl t d = Ok (v, fs) ->
  load_plain a pl t d = Ok v /\
  (forall max v', load_root a pl max t d = Ok v' -> v' = v /\ fs = []).
Proof. exact passing_thm. Qed.
Print Assumptions T_C17_passing_fields_loaded.

(* NOT PROVED: the state of the target object after an EARLY throw (maxValidationErrors > 0): the
   fields visited before the throw hold their loaded values, the others are untouched.  The model's
   exceptions do not carry the partially loaded object.  What is proved is the end-of-load version
   above (T_C17_passing_fields_loaded); the early-throw case is compared on the implementation only
   through the reported map. *)
Theorem T_C17_passing_fields_loaded_partial : forall a pl t d v fs m,
  load_recording a pl t d = Ok (v, fs) -> load_root a pl 0 t d = Exc (EValidation m) ->
  load_plain a pl t d = Ok v /\ fs <> [] /\ m = group fs.
Proof. exact passing_partial_thm. Qed.
Print Assumptions T_C17_passing_fields_loaded_partial.

(* the built-in validators follow their documented semantics *)
Theorem T_C17_builtins : forall msg lo hi n w ld,
  (apply_vld (VRequired msg) w ld <> None <-> fails_required ld) /\
  (apply_vld (VRange lo hi msg) w ld <> None <-> fails_range lo hi (v_int w) ld) /\
  (apply_vld (VMinSize n msg) w ld <> None <-> fails_minsize n (v_size w) ld) /\
  (apply_vld (VMaxSize n msg) w ld <> None <-> fails_maxsize n (v_size w) ld).
Proof. exact builtins_thm. Qed.
Print Assumptions T_C17_builtins.

(* bounds are inclusive: at and just inside pass, just outside fails; nothing fails when not loaded *)
Theorem T_C17_builtins_bounds : forall lo hi n sz,
  (lo <= hi)%Z ->
  apply_vld (VRange lo hi None) (mkView lo sz []) true = None /\
  apply_vld (VRange lo hi None) (mkView hi sz []) true = None /\
  apply_vld (VRange lo hi None) (mkView (lo - 1) sz []) true <> None /\
  apply_vld (VRange lo hi None) (mkView (hi + 1) sz []) true <> None /\
  apply_vld (VMinSize n None) (mkView 0 n []) true = None /\
  apply_vld (VMinSize (n + 1) None) (mkView 0 n []) true <> None /\
  apply_vld (VMaxSize n None) (mkView 0 n []) true = None /\
  apply_vld (VMaxSize n None) (mkView 0 (n + 1) []) true <> None /\
  (forall v w, match v with VRequired _ | VCustom _ => True | _ => apply_vld v w false = None end).
Proof. exact bounds_thm. Qed.
Print Assumptions T_C17_builtins_bounds.

(* a custom message replaces the default text and nothing else *)
Theorem T_C17_custom_messages : forall v w ld m,
  match v with
  | VRequired _ => apply_vld (VRequired (Some m)) w ld = None \/ apply_vld (VRequired (Some m)) w ld = Some m
  | VRange lo hi _ => apply_vld (VRange lo hi (Some m)) w ld = None \/ apply_vld (VRange lo hi (Some m)) w ld = Some m
  | VMinSize n _ => apply_vld (VMinSize n (Some m)) w ld = None \/ apply_vld (VMinSize n (Some m)) w ld = Some m
  | VMaxSize n _ => apply_vld (VMaxSize n (Some m)) w ld = None \/ apply_vld (VMaxSize n (Some m)) w ld = Some m
  | _ => True
  end.
Proof. exact custom_message_spec. Qed.
Print Assumptions T_C17_custom_messages.

(* ---- witnesses and non-vacuity: ex_class = { a : int [Range 1 5 "1", Range 3 9 "2"]; b : int [Required "3"] },
   ex_doc = {"a": 0}, JSON flavour, default policies (ArchValidation.v) ---- *)
Example T_C17_example_recording :
  load_recording ex_arch ex_pols ex_class ex_doc
  = Ok ((0%Z, (0%Z, tt)), ex_failures).
Proof. exact ex_recording. Qed.
Print Assumptions T_C17_example_recording.

Example T_C17_example_unlimited :
  load_root ex_arch ex_pols 0 ex_class ex_doc
  = Exc (EValidation [([47; 97]%N, [[49]%N; [50]%N]); ([47; 98]%N, [[51]%N])]).
Proof. exact ex_unlimited. Qed.
Print Assumptions T_C17_example_unlimited.

(* F32 on the model: with maxValidationErrors = 1 the path /a carries only its first message *)
Example T_C17_example_F32 :
  load_root ex_arch ex_pols 1 ex_class ex_doc = Exc (EValidation [([47; 97]%N, [[49]%N])]) /\
  load_root ex_arch ex_pols 2 ex_class ex_doc = Exc (EValidation [([47; 97]%N, [[49]%N; [50]%N]); ([47; 98]%N, [[51]%N])]) /\
  truncated 1 ex_failures = true /\ truncated 2 ex_failures = false.
Proof. exact ex_F32. Qed.
Print Assumptions T_C17_example_F32.

(* ------------------------------------------------------------------------------------------------------------ *)
(* The XML archive (pugixml): xml_arch (ArchModel.v) is a fourth instance of [arch]; every theorem above is stated
   for all [a] and holds for it as it is.  Spelled out for the two central ones: *)
Theorem T_C17_xml_exact : forall pl t d v fs,
  load_recording xml_arch pl t d = Ok (v, fs) ->
  load_root xml_arch pl 0 t d = match fs with [] => Ok v | _ => Exc (EValidation (group fs)) end /\
  full_report fs (group fs).
Proof. exact (exact_thm xml_arch). Qed.
Print Assumptions T_C17_xml_exact.

Theorem T_C17_xml_capped_actual : forall pl k t d v fs, (0 < k)%nat ->
  load_recording xml_arch pl t d = Ok (v, fs) ->
  load_root xml_arch pl (N.of_nat k) t d =
    match cut k fs with
    | Some c => Exc (EValidation (group c))
    | None => match fs with [] => Ok v | _ => Exc (EValidation (group fs)) end
    end /\
  (forall c, cut k fs = Some c ->
     (exists rest, fs = c ++ rest /\ length (failing_paths c) = k) /\
     reports c (firstn k (failing_paths fs)) (group c)) /\
  (cut k fs = None -> (length (failing_paths fs) < k)%nat).
Proof. exact (capped_actual_thm xml_arch). Qed.
Print Assumptions T_C17_xml_capped_actual.

(* What is different for XML is the PATH of a failure.  GetPath() is pugi::xml_node::path(): element names without
   indices, starting with the name of the root element.  An array item contributes its element name, whatever its
   position; in the indexed archives it contributes its index and the root contributes nothing. *)
Theorem T_C17_xml_paths_without_indices :
  (forall i d, item_seg xml_arch i d = item_name xml_names d) /\
  (forall i j d1 d2, item_name xml_names d1 = item_name xml_names d2 -> item_seg xml_arch i d1 = item_seg xml_arch j d2) /\
  (forall d, root_path xml_arch d = (slash ++ item_name xml_names d)%list) /\
  (forall a i d, text_mode a = None -> item_seg a i d = dec_N (N.of_nat i) /\ root_path a d = []).
Proof.
  split; [|split; [|split]].
  - exact xml_item_seg.
  - exact xml_items_share_path.
  - exact xml_root_path.
  - intros a i d H. split; [apply indexed_item_seg|apply indexed_root_path]; assumption.
Qed.
Print Assumptions T_C17_xml_paths_without_indices.

(* Consequence 1: WHICH item failed cannot be read off the report.  std::vector<Flat> from [bad, good] and from
   [good, bad]: JSON reports /1/x resp. /2/x, through XML both loads throw the identical exception *)
Theorem T_C17_xml_item_identity_refuted :
  first_bad <> second_bad /\
  load_root json_arch default_pols 0 (FVecObj ArchCodec.fields_flat) first_bad = Exc (EValidation [([47; 49; 47; 120]%N, [range_msg])]) /\
  load_root json_arch default_pols 0 (FVecObj ArchCodec.fields_flat) second_bad = Exc (EValidation [([47; 50; 47; 120]%N, [range_msg])]) /\
  load_root xml_arch default_pols 0 (FVecObj ArchCodec.fields_flat) first_bad
    = Exc (EValidation [([47; 97; 114; 114; 97; 121; 47; 111; 98; 106; 101; 99; 116; 47; 120]%N, [range_msg])]) /\
  load_root xml_arch default_pols 0 (FVecObj ArchCodec.fields_flat) second_bad
    = load_root xml_arch default_pols 0 (FVecObj ArchCodec.fields_flat) first_bad.
Proof. exact xml_item_identity_lost. Qed.
Print Assumptions T_C17_xml_item_identity_refuted.

(* Consequence 2: messages of items that share a path are merged under it, in document order (this is what
   full_report / msgs_at demand of a report keyed by path: T_C17_xml_exact) *)
Example T_C17_xml_messages_merged :
  load_root xml_arch default_pols 0 (FVecObj ArchCodec.fields_flat) (DArr 2 [flat_doc 9; flat_doc 0])
    = Exc (EValidation [([47; 97; 114; 114; 97; 121; 47; 111; 98; 106; 101; 99; 116; 47; 120]%N, [range_msg; range_msg])]) /\
  load_root json_arch default_pols 0 (FVecObj ArchCodec.fields_flat) (DArr 2 [flat_doc 9; flat_doc 0])
    = Exc (EValidation [([47; 49; 47; 120]%N, [range_msg]); ([47; 50; 47; 120]%N, [range_msg])]).
Proof. exact xml_messages_merged. Qed.
Print Assumptions T_C17_xml_messages_merged.

(* Consequence 3: maxValidationErrors counts paths, so failing items of one array count once through XML *)
Example T_C17_xml_cap_counts_paths :
  (exists m, load_root xml_arch default_pols 2 (FVecObj ArchCodec.fields_flat) (DArr 2 [flat_doc 9; flat_doc 0; flat_doc 7]) = Exc (EValidation m)
             /\ List.length m = 1%nat) /\
  (exists m, load_root json_arch default_pols 2 (FVecObj ArchCodec.fields_flat) (DArr 3 [flat_doc 9; flat_doc 0; flat_doc 7]) = Exc (EValidation m)
             /\ List.length m = 2%nat).
Proof. exact xml_cap_counts_paths. Qed.
Print Assumptions T_C17_xml_cap_counts_paths.

(* ------------------------------------------------------------------------------------------------------------ *)
(* XML attributes: a member serialized with AttributeValue (leaf types LAttrInt / LAttrStr) is looked up among the
   ATTRIBUTES of the element (document members keyed '@name'); T_C17_fields above says where: member (field_key t key).
   Its path is path/key like a child element's, because GetPath() of the attribute scope is the element's path. *)
Theorem T_C17_xml_attribute_lookup : forall key,
  field_key (FLeaf LAttrInt) key = attr_key key /\ field_key (FLeaf LAttrStr) key = attr_key key /\
  field_key (FLeaf LInt) key = DKStr key /\ field_key (FLeaf LStr) key = DKStr key.
Proof. exact attribute_lookup. Qed.
Print Assumptions T_C17_xml_attribute_lookup.

(* attributes are not children: no array items, no VisitKeys keys, not counted by GetEstimatedSize *)
Theorem T_C17_xml_attributes_are_not_children :
  (forall k d l, is_attr_key k = true -> elem_members xml_arch ((k, d) :: l) = elem_members xml_arch l) /\
  (forall pl l, open_array xml_arch pl (DMap l)
                = Ok (Some (List.length (elem_members xml_arch l), List.map snd (elem_members xml_arch l)))).
Proof. exact (conj attributes_are_not_children xml_array_scope_of_object). Qed.
Print Assumptions T_C17_xml_attributes_are_not_children.

(* the value of an attribute is text converted with the policies (since /repo eaa6abb); unlike an empty element
   ("not loaded"), an empty attribute is not a number (mismatch policy) and IS a string *)
Theorem T_C17_xml_attribute_values : forall pl (p : Z) (q : str) z,
  load_leaf xml_arch pl LAttrInt p (DInt z) = (if in_int32 z then Ok (z, true) else on_overflow pl (p, false)) /\
  load_leaf xml_arch pl LAttrInt p (DBool true) = on_mismatch pl (p, false) /\
  load_leaf xml_arch pl LAttrInt p (DStr []) = on_mismatch pl (p, false) /\
  load_leaf xml_arch pl LInt p (DStr []) = Ok (p, false) /\
  load_leaf xml_arch pl LAttrStr q (DStr []) = Ok ([], true) /\
  load_leaf xml_arch pl LStr q (DStr []) = Ok (q, false).
Proof.
  intros. destruct (attribute_number_policies pl p z) as [H1 H2].
  destruct (attribute_empty_text pl p q) as [H3 [H4 [H5 H6]]].
  split; [exact H1|]. split; [exact H2|]. split; [exact H3|]. split; [exact H4|]. split; [exact H5|exact H6].
Qed.
Print Assumptions T_C17_xml_attribute_values.

(* an attribute and a child element of the same name share their path: class Attr = { @id, @name, x, @x } from
   <object id="3" name="ab" x="12"/>: the missing element x and the out-of-range attribute x are both under /object/x *)
Example T_C17_xml_attribute_shares_path :
  load_root xml_arch default_pols 0 (FObj ArchCodec.fields_attr) attr_doc
  = Exc (EValidation [([47; 111; 98; 106; 101; 99; 116; 47; 120]%N,
                       [[84; 104; 105; 115; 32; 102; 105; 101; 108; 100; 32; 105; 115; 32; 114; 101; 113; 117; 105; 114; 101; 100]%N;
                        [97; 116; 116; 114; 32; 120]%N])]).
Proof. exact attribute_shares_path_with_element. Qed.
Print Assumptions T_C17_xml_attribute_shares_path.
