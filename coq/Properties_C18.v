(* Properties_C18.v — C18: loading into a populated target gives the same result as loading into a
   fresh one.  Statements only.
   load_seq / load_fwd / load_fixed / load_vbool / load_set / load_mmap / load_map / load_ptr mirror
   SerializeContainer and its relatives for ANY element type A, element document D, state S and
   element loader el (ArchModel.v part 1a); the boolean after dflt is std::is_move_assignable_v of the
   element type; [est] is whatever GetEstimatedSize() reports (right, wrong or 0); fresh_elems
   (ArchSpec.v) is the declarative content of a loaded sequence; prior_independent el dflt Q P: the
   element loader ignores the previous element value for targets in Q and documents in P;
   prior_independent_when_loaded: the weaker form (value compared only when loaded).  load / wt / all_load / has_unloaded: the type universe of part 1b. *)
From BS Require Import Base ArchSpec ArchModel ArchLemmas ArchProofs ArchValidation ArchXml.
From BS Require ArchCodec.      (* qualified: its parsing notations (msg, fl) would capture variable names used here *)

(* SerializeContainer (vector, deque, list, queue, stack, priority_queue) over a move-assignable
   element type: for ANY prior content and ANY estimate the result is the one of a fresh target,
   namely one freshly loaded element per element document.  Hypothesis on the element loader: its
   exceptions, "loaded" result, state and - when loaded - value do not depend on the prior element
   (an element that is not loaded is reset since 772314c), and "not loaded" leaves a fresh element fresh *)
Theorem T_C18_seq : forall (A D S : Type) (el : A -> D -> S -> outcome (A * bool * S)) (dflt : A)
    (Q : A -> Prop) (P : D -> Prop),
  prior_independent_when_loaded el dflt Q P -> unloaded_keeps_fresh el dflt P -> Q dflt ->
  forall prior est data s, Forall Q prior -> Forall P data ->
    load_seq el dflt true prior est data s = load_seq el dflt true [] 0 data s /\
    load_seq el dflt true prior est data s = fresh_elems el dflt data s.
Proof. exact @seq_populated_eq_fresh. Qed.
Print Assumptions T_C18_seq.

(* element type without move assignment (no reset is compiled in): the loader itself must ignore the
   prior element *)
Theorem T_C18_seq_nonassignable : forall (A D S : Type) (el : A -> D -> S -> outcome (A * bool * S)) (dflt : A)
    (Q : A -> Prop) (P : D -> Prop),
  prior_independent el dflt Q P -> Q dflt ->
  forall prior est data s, Forall Q prior -> Forall P data ->
    load_seq el dflt false prior est data s = load_seq el dflt false [] 0 data s /\
    load_seq el dflt false prior est data s = fresh_elems el dflt data s.
Proof. exact @seq_populated_eq_fresh_nonassignable. Qed.
Print Assumptions T_C18_seq_nonassignable.

(* the hypothesis in its plain form: every element load is independent of the prior element value *)
Theorem T_C18_seq_plain : forall (A D S : Type) (el : A -> D -> S -> outcome (A * bool * S)) (dflt : A) (asg : bool),
  (forall p d s, el p d s = el dflt d s) ->
  (forall d s v s', el dflt d s = Ok (v, false, s') -> v = dflt) ->
  forall prior est data s, load_seq el dflt asg prior est data s = load_seq el dflt asg [] 0 data s.
Proof. exact @seq_populated_eq_fresh_plain. Qed.
Print Assumptions T_C18_seq_plain.

(* std::forward_list (resize(1) seed, emplace_after) *)
Theorem T_C18_forward_list : forall (A D S : Type) (el : A -> D -> S -> outcome (A * bool * S)) (dflt : A)
    (Q : A -> Prop) (P : D -> Prop),
  prior_independent_when_loaded el dflt Q P -> unloaded_keeps_fresh el dflt P -> Q dflt ->
  forall prior est data s, Forall Q prior -> Forall P data ->
    load_fwd el dflt true prior est data s = load_fwd el dflt true [] 0 data s /\
    load_fwd el dflt true prior est data s = fresh_elems el dflt data s.
Proof. exact @fwd_populated_eq_fresh. Qed.
Print Assumptions T_C18_forward_list.

(* SerializeFixedSizeArray (std::array, C arrays): same outcome, including the size-mismatch error, as
   for a value-initialised array of the same size *)
Theorem T_C18_fixed_array : forall (A D S : Type) (el : A -> D -> S -> outcome (A * bool * S)) (dflt : A)
    (Q : A -> Prop) (P : D -> Prop),
  prior_independent el dflt Q P -> Q dflt ->
  forall prior data s, Forall Q prior -> Forall P data ->
    load_fixed el prior data s = load_fixed el (repeat dflt (length prior)) data s.
Proof. exact @fixed_populated_eq_fresh. Qed.
Print Assumptions T_C18_fixed_array.

(* std::vector<bool>: no hypothesis at all (elements are loaded into a local variable) *)
Theorem T_C18_vector_bool : forall (D S : Type) (elb : bool -> D -> S -> outcome (bool * bool * S)) prior est data s,
  load_vbool elb prior est data s = load_vbool elb [] 0 data s.
Proof. exact @vbool_populated_eq_fresh. Qed.
Print Assumptions T_C18_vector_bool.

(* valarray (temporary vector), sets / multisets, multimaps, maps in Clean mode: the prior content is
   never looked at *)
Theorem T_C18_cleared_first : forall (A D S K V DK : Type) (el : A -> D -> S -> outcome (A * bool * S)) (dflt : A)
    (asg : bool) (ins : A -> list A -> list A)
    (keq : K -> K -> bool) (kconv : DK -> outcome (option K)) (vload : DK -> V -> S -> outcome (V * bool * S)) (vdflt : V),
  (forall prior est data s, load_valarray el dflt asg prior est data s = load_valarray el dflt asg [] est data s) /\
  (forall prior data s, load_set el dflt ins prior data s = load_set el dflt ins [] data s) /\
  (forall prior data s, load_mmap el dflt prior data s = load_mmap el dflt [] data s) /\
  (forall prior aks s, load_map keq kconv vload vdflt Clean prior aks s = load_map keq kconv vload vdflt Clean [] aks s).
Proof. exact @cleared_first. Qed.
Print Assumptions T_C18_cleared_first.

(* nested closure: the hypothesis is re-established one level up - a sequence container is a
   prior-independent element loader (in the strong sense) on array documents whose elements are in P -
   and likewise for optional / unique_ptr / shared_ptr *)
Theorem T_C18_nested : forall (A D S : Type) (el : A -> D -> S -> outcome (A * bool * S)) (dflt : A)
    (Q : A -> Prop) (P : D -> Prop),
  prior_independent_when_loaded el dflt Q P -> unloaded_keeps_fresh el dflt P -> Q dflt ->
  prior_independent (seq_as_element el dflt true) [] (Forall Q) (fun dv => Forall P (snd dv)).
Proof. exact @seq_as_element_independent. Qed.
Print Assumptions T_C18_nested.

Theorem T_C18_nested_nonassignable : forall (A D S : Type) (el : A -> D -> S -> outcome (A * bool * S)) (dflt : A)
    (Q : A -> Prop) (P : D -> Prop),
  prior_independent el dflt Q P -> Q dflt ->
  prior_independent (seq_as_element el dflt false) [] (Forall Q) (fun dv => Forall P (snd dv)).
Proof. exact @seq_as_element_independent_nonassignable. Qed.
Print Assumptions T_C18_nested_nonassignable.

Theorem T_C18_nested_ptr : forall (A D S : Type) (el : A -> D -> S -> outcome (A * bool * S)) (dflt : A)
    (Q : A -> Prop) (P : D -> Prop),
  prior_independent el dflt Q P ->
  prior_independent (ptr_as_element el dflt) None (fun o => match o with Some v => Q v | None => True end) P.
Proof. exact @ptr_as_element_independent. Qed.
Print Assumptions T_C18_nested_ptr.

(* ... so that it holds for every type of the universe (induction on the type descriptor).
   Full strength: for EVERY document.  That is still false after 772314c (what remains of F36): an
   element of a fixed-size array or a member of a pair that is not loaded keeps the stale value, and a
   document that is not loaded at all leaves the target as it was. *)
Theorem T_C18_all_types_refuted : ~ C18_all_types_statement.
Proof. exact all_types_refuted. Qed.
Print Assumptions T_C18_all_types_refuted.

(* outside the defect class (some position of the document comes back "not loaded") the full
   statement holds for every archive flavour, every policy, every type, every prior content *)
Theorem T_C18_all_types_outside : forall a pl t p d,
  wt t p = true -> has_unloaded a pl t d = false -> load a pl t p d = load a pl t (tdefault t) d.
Proof. exact all_types_outside. Qed.
Print Assumptions T_C18_all_types_outside.

(* MapLoadMode::OnlyExistKeys never adds a key; a key no document key converts to keeps its value; a
   key exactly one document key converts to holds the result of loading that document value over its
   previous value *)
Theorem T_C18_only_existing : forall (K V DK S : Type) (keq : K -> K -> bool),
  (forall a b, keq a b = true <-> a = b) ->
  forall (kconv : DK -> outcome (option K)) (vload : DK -> V -> S -> outcome (V * bool * S)) vdflt prior aks s m' s',
  load_map keq kconv vload vdflt OnlyExistKeys prior aks s = Ok (m', s') ->
  never_adds_a_key prior m' /\
  (forall k, (forall ak, In ak aks -> kconv ak <> Ok (Some k)) -> mfind keq k m' = mfind keq k prior) /\
  (forall k l1 ak l2 v0, aks = l1 ++ ak :: l2 -> kconv ak = Ok (Some k) ->
     (forall a0, In a0 (l1 ++ l2) -> kconv a0 <> Ok (Some k)) -> mfind keq k prior = Some v0 ->
     exists s0 v ld s1, vload ak v0 s0 = Ok (v, ld, s1) /\ mfind keq k m' = Some v).
Proof. exact @only_existing_thm. Qed.
Print Assumptions T_C18_only_existing.

(* MapLoadMode::UpdateKeys never removes a key; the keys afterwards are the prior keys plus the
   (convertible) document keys; values as above, a new key being loaded over a default value *)
Theorem T_C18_update_keys : forall (K V DK S : Type) (keq : K -> K -> bool),
  (forall a b, keq a b = true <-> a = b) ->
  forall (kconv : DK -> outcome (option K)) (vload : DK -> V -> S -> outcome (V * bool * S)) vdflt prior aks s m' s',
  load_map keq kconv vload vdflt UpdateKeys prior aks s = Ok (m', s') ->
  never_removes_a_key prior m' /\
  (forall k, In k (key_set m') <-> In k (key_set prior) \/ exists ak, In ak aks /\ kconv ak = Ok (Some k)) /\
  (forall k, (forall ak, In ak aks -> kconv ak <> Ok (Some k)) -> mfind keq k m' = mfind keq k prior) /\
  (forall k l1 ak l2, aks = l1 ++ ak :: l2 -> kconv ak = Ok (Some k) ->
     (forall a0, In a0 (l1 ++ l2) -> kconv a0 <> Ok (Some k)) ->
     exists s0 v ld s1,
       vload ak (match mfind keq k prior with Some v0 => v0 | None => vdflt end) s0 = Ok (v, ld, s1) /\
       mfind keq k m' = Some v).
Proof. exact @update_keys_thm. Qed.
Print Assumptions T_C18_update_keys.

(* ---- witnesses and non-vacuity ---- *)

(* what remains of F36, on the model: JSON [null,2,null] into std::array<int,3>{7,8,9} gives {7,2,9},
   into a value-initialised array {0,2,0} *)
Example T_C18_example_stale :
  load json_arch default_pols (TArr 3 TInt) [7; 8; 9]%Z (DArr 3 [DNull; DInt 2; DNull]) = Ok ([7; 2; 9]%Z, true) /\
  load json_arch default_pols (TArr 3 TInt) [0; 0; 0]%Z (DArr 3 [DNull; DInt 2; DNull]) = Ok ([0; 2; 0]%Z, true).
Proof. exact stale_witness. Qed.
Print Assumptions T_C18_example_stale.

(* the repaired witness of F36: JSON [null,2] into vector<int>{7,8} gives {0,2} and is outside the defect class *)
Example T_C18_example_F36_repaired :
  load json_arch default_pols (TSeq SVector TInt) [7; 8]%Z (DArr 2 [DNull; DInt 2]) = Ok ([0; 2]%Z, true) /\
  has_unloaded json_arch default_pols (TSeq SVector TInt) (DArr 2 [DNull; DInt 2]) = false.
Proof. exact F36_repaired. Qed.
Print Assumptions T_C18_example_F36_repaired.

(* a nested target longer than the data, with a wrong estimate: the hypotheses of _outside hold and
   nothing stale survives *)
Example T_C18_example_nested :
  let t := TSeq SVector (TSeq SList (TPtr POptional TInt)) in
  let p : tval t := [[Some 7; None]; [Some 8]; []]%Z in
  let d := DArr 7 [DArr 0 [DInt 1; DNull; DInt 3]] in
  wt t p = true /\ has_unloaded msgpack_arch default_pols t d = false /\
  load msgpack_arch default_pols t p d = Ok ([[Some 1; None; Some 3]]%Z, true).
Proof. exact ex_nested. Qed.
Print Assumptions T_C18_example_nested.

Example T_C18_example_map_modes :
  let doc := DMap [(DKStr [50]%N, DInt 5); (DKStr [49]%N, DInt 9)] in
  load_map_mode json_arch default_pols OnlyExistKeys KInt TInt [(1, 2)]%Z doc = Ok ([(1, 9)]%Z, true) /\
  load_map_mode json_arch default_pols UpdateKeys KInt TInt [(1, 2); (7, 7)]%Z doc = Ok ([(1, 9); (7, 7); (2, 5)]%Z, true) /\
  load_map_mode json_arch default_pols Clean KInt TInt [(1, 2); (7, 7)]%Z doc = Ok ([(2, 5); (1, 9)]%Z, true).
Proof. exact ex_map_modes. Qed.
Print Assumptions T_C18_example_map_modes.

(* duplicate document keys (JSON / XML objects may carry a name twice; exercised by the correspondence for both): the
   theorems above quantify over all documents, those included; what the object scopes do with them is `member`
   (ArchModel.v): every request for the name is answered by its FIRST member, whatever follows (the same rule as
   JxHistModel.find_member of the jx family, Properties_C03jx.v); a map target sees the key once per occurrence in
   VisitKeys and loads the first member's value each time *)
Theorem T_C18_duplicate_document_keys : forall k d l1 l2,
  (forall k' d', In (k', d') l1 -> dkey_eqb k k' = false) -> member k (l1 ++ (k, d) :: l2) = Some d.
Proof. exact member_first. Qed.
Print Assumptions T_C18_duplicate_document_keys.

Example T_C18_example_duplicate_keys :
  load_map_mode json_arch default_pols Clean KInt TInt []%Z (DMap [(DKStr [56]%N, DInt 1); (DKStr [56]%N, DInt 2)]) = Ok ([(8, 1)]%Z, true).
Proof. vm_compute. reflexivity. Qed.
Print Assumptions T_C18_example_duplicate_keys.

(* ------------------------------------------------------------------------------------------------------------ *)
(* The XML archive (pugixml): xml_arch (ArchModel.v).  T_C18_all_types_refuted / _outside and the container
   theorems above are stated for every archive flavour; spelled out for XML: *)
Theorem T_C18_xml_all_types_outside : forall pl t p d,
  wt t p = true -> has_unloaded xml_arch pl t d = false -> load xml_arch pl t p d = load xml_arch pl t (tdefault t) d.
Proof. exact (fun pl => T_C18_all_types_outside xml_arch pl). Qed.
Print Assumptions T_C18_xml_all_types_outside.

(* what is left of F36 exists in XML exactly as in the other archives *)
Example T_C18_xml_example_stale :
  load xml_arch default_pols (TArr 3 TInt) [7; 8; 9]%Z (DArr 3 [DNull; DInt 2; DNull]) = Ok ([7; 2; 9]%Z, true) /\
  load xml_arch default_pols (TArr 3 TInt) [0; 0; 0]%Z (DArr 3 [DNull; DInt 2; DNull]) = Ok ([0; 2; 0]%Z, true) /\
  has_unloaded xml_arch default_pols (TArr 3 TInt) (DArr 3 [DNull; DInt 2; DNull]) = true.
Proof. exact xml_stale_witness. Qed.
Print Assumptions T_C18_xml_example_stale.

(* What is different for XML.  (1) A child-less element is an EMPTY container, not "null": for every sequence kind,
   element type, policy and prior content the target ends empty and counts as loaded, and the document is outside the
   defect class; in JSON the same document leaves the target as it was (the F36c class) *)
Theorem T_C18_xml_childless_is_empty : forall pl k t' kt p (q : list (tkey kt * tval t')),
  load xml_arch pl (TSeq k t') p DNull = Ok ([], true) /\
  load xml_arch pl (TMap kt t') q DNull = Ok ([], true) /\
  has_unloaded xml_arch pl (TSeq k t') DNull = false /\
  load json_arch pl (TSeq k t') p DNull = Ok (p, false) /\
  has_unloaded json_arch pl (TSeq k t') DNull = true.
Proof.
  intros. split; [|split; [|split; [|split]]].
  - apply xml_childless_empties_sequence.
  - apply xml_childless_empties_map.
  - apply xml_childless_not_in_defect_class.
  - apply json_null_keeps_sequence.
  - apply xml_childless_not_in_defect_class.
Qed.
Print Assumptions T_C18_xml_childless_is_empty.

(* (2) scalars are untyped text: a number loads into a string as its decimal text, "true" is not a number, the
   empty string and an element with children are "not loaded" for every scalar target *)
Theorem T_C18_xml_text_scalars : forall pl (p : Z) (q : str) z b est l ms,
  load xml_arch pl TStr q (DInt z) = Ok (dec_Z z, true) /\
  load json_arch pl TStr q (DInt z) = on_mismatch pl (q, false) /\
  load xml_arch pl TInt p (DBool b) = on_mismatch pl (p, false) /\
  load xml_arch pl TStr q (DStr []) = Ok (q, false) /\
  load xml_arch pl TInt p (DArr est l) = Ok (p, false) /\
  load xml_arch pl TStr q (DMap ms) = Ok (q, false).
Proof.
  intros. split; [|split; [|split; [|split; [|split]]]].
  - apply xml_number_into_string.
  - apply json_number_into_string.
  - apply xml_bool_into_int.
  - apply xml_empty_string_not_loaded.
  - apply (xml_scope_into_scalar_not_loaded pl p q est l ms).
  - apply (xml_scope_into_scalar_not_loaded pl p q est l ms).
Qed.
Print Assumptions T_C18_xml_text_scalars.

(* (3) arrays and objects are the same thing: members are items and items are members, named by the encoder *)
Example T_C18_xml_object_as_array : forall pl,
  load xml_arch pl (TSeq SVector TInt) [7; 8; 9]%Z (DMap [(DKStr [97]%N, DInt 1); (DKStr [98]%N, DInt 2)]) = Ok ([1; 2]%Z, true) /\
  load xml_arch pl (TMap KStr TInt) [] (DArr 2 [DInt 5; DArr 0 []]) = Ok ([(xml_names.(tn_value), 5%Z); (xml_names.(tn_array), 0%Z)], true).
Proof. exact xml_object_as_array. Qed.
Print Assumptions T_C18_xml_object_as_array.
