(* Properties_C19.v — C19: independent serialisations on different threads do not interfere.
   Statements only.  Part (a) is logic (any interleaving of operations that share only constants equals the
   sequential runs); part (b) is a fact about the sources, re-established on every check run over the
   regenerated inventory coq/InvGenerated.v (tools/inventory.py, clang AST). Data races themselves are observed
   (harness/drv_threads.cpp under ThreadSanitizer), not proved. *)
From Coq Require Import String List Bool.
From BS Require Import InvSpec InvGenerated InvThreads InvStatics.
From BS Require Import InvPropProofs.
Import ListNotations.

(* (a) for every schedule that is a fair merge of the per-thread operation lists, every thread ends with the
   results and the private state of its sequential run, and the shared store is unchanged *)
Theorem T_C19_interleaving_eq_sequential :
  forall (Sh L Out : Type) (sched : list nat) (s : Sh) (c : config Sh L Out),
    all_readers c -> fair_merge c sched ->
    exists c', run_interleaved s c sched = Some (s, c') /\ forall t, c' t = run_sequential s (c t).
Proof. exact interleaving_eq_sequential. Qed.
Print Assumptions T_C19_interleaving_eq_sequential.

Theorem T_C19_schedule_independent :
  forall (Sh L Out : Type) sched1 sched2 (s : Sh) (c : config Sh L Out),
    all_readers c -> fair_merge c sched1 -> fair_merge c sched2 ->
    exists c1 c2, run_interleaved s c sched1 = Some (s, c1) /\ run_interleaved s c sched2 = Some (s, c2) /\
                  forall t, c1 t = c2 t.
Proof. exact schedule_independent. Qed.
Print Assumptions T_C19_schedule_independent.

(* steps of different threads commute because none writes the shared store *)
Theorem T_C19_steps_commute :
  forall (Sh L Out : Type) (s : Sh) (c : config Sh L Out) t u, t <> u -> all_readers c ->
    forall s1 c1 s2 c2, step s c t = Some (s1, c1) -> step s1 c1 u = Some (s2, c2) ->
    exists c1' c2', step s c u = Some (s, c1') /\ step s c1' t = Some (s, c2') /\ s2 = s /\ forall v, c2' v = c2 v.
Proof. exact steps_commute. Qed.
Print Assumptions T_C19_steps_commute.

(* operations whose type is "shared constants -> private state -> private state * result" are readers *)
Theorem T_C19_models_are_readers : forall (Sh L Out : Type) (o : rop Sh L Out), reader (lift o).
Proof. exact lift_reader. Qed.
Print Assumptions T_C19_models_are_readers.

(* the hypotheses are satisfiable by a non-trivial configuration: two threads, two operations each *)
Example T_C19_example_two_threads :
  let o : rop nat nat nat := fun s l => (l + s, l * s) in
  let c : config nat nat nat := fun t => if Nat.leb t 1 then Build_thread (S t) [lift o; lift o] [] else Build_thread 0 [] [] in
  all_readers c /\ fair_merge c [0; 1; 1; 0] /\
  exists c', run_interleaved 3 c [0; 1; 1; 0] = Some (3, c') /\ t_done (c' 0) = [3; 12] /\ t_done (c' 1) = [6; 15].
Proof. exact T_C19_example_two_threads_proof. Qed.
Print Assumptions T_C19_example_two_threads.

(* and necessary: one operation that writes the shared store makes the results depend on the schedule *)
Theorem T_C19_writer_breaks_it :
  fair_merge two_bumpers [0; 1] /\ fair_merge two_bumpers [1; 0] /\
  exists s1 c1 s2 c2, run_interleaved 0 two_bumpers [0; 1] = Some (s1, c1) /\
                      run_interleaved 0 two_bumpers [1; 0] = Some (s2, c2) /\
                      t_done (c1 0) <> t_done (c2 0).
Proof. exact writer_breaks_it. Qed.
Print Assumptions T_C19_writer_breaks_it.

(* (b) over the inventory regenerated from the current sources: every translation unit was parsed ... *)
Theorem T_C19_inventory_complete : inventory_errors = [].
Proof. exact inventory_complete. Qed.
Print Assumptions T_C19_inventory_complete.

(* ... and every object with static storage duration declared in a library file is const with thread-safe
   initialisation, or written only by the static-initialisation-time registrars, or never written by the library *)
Theorem T_C19_statics_benign : forallb benign statics = true.
Proof. exact statics_benign. Qed.
Print Assumptions T_C19_statics_benign.

Theorem T_C19_benign_cases : forall r, benign r = true ->
  (is_const r = true /\ st_mutable_members r <> "yes"%string /\ st_writes r = [])
  \/ (st_const r = "no"%string /\ st_writes r <> [] /\ forall w, In w (st_writes r) -> In (ws_function w) registrars)
  \/ (st_const r = "no"%string /\ st_writes r = []).
Proof. exact benign_cases. Qed.
Print Assumptions T_C19_benign_cases.

Theorem T_C19_no_nonreentrant_calls :
  forallb (fun c => negb (str_in (uc_callee c) nonreentrant)) external_calls = true.
Proof. exact no_nonreentrant_calls. Qed.
Print Assumptions T_C19_no_nonreentrant_calls.

Example T_C19_inventory_not_vacuous :
  existsb benign_const statics = true /\ existsb benign_registrar statics = true /\
  existsb benign_never_written statics = true.
Proof. exact inventory_not_vacuous. Qed.
Print Assumptions T_C19_inventory_not_vacuous.
