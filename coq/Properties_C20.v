(* Properties_C20.v — C20: every failure surfaces as a catchable exception: no terminate, no leak.
   Statements only.  The propagation logic is proved for every program of the Exn language (InvSpec.v); the two
   library scopes whose destructors call throwing code are modelled (InvModel.v): both violated the property (F17, F18)
   and satisfy it at full strength since their repair in /repo (the unguarded variants are kept as refuted witnesses);
   the regenerated destructor inventory (coq/InvGenerated.v) pins the set of destructors that can throw.
   Allocation failure, stream faults, leaks: observed by harness/drv_fault.cpp, not proved. *)
From Coq Require Import NArith String List Bool.
From BS Require Import InvSpec InvModel InvGenerated InvExn InvComplete InvDtors.
Import ListNotations.

(* full-strength propagation: if no destructor on the unwinding path can throw, an exception thrown by any action
   at any nesting depth reaches the caller as that exception ... *)
Theorem T_C20_propagation : forall (St E : Type) (p : prog St E) s e,
  dtors_total p -> throws p s e -> exists s', exec p s = Err e s'.
Proof. exact propagation. Qed.
Print Assumptions T_C20_propagation.

(* ... and the process is never terminated *)
Theorem T_C20_never_terminate : forall (St E : Type) (p : prog St E),
  dtors_total p -> acts_no_terminate p -> forall s, exec p s <> Terminate.
Proof. exact never_terminate. Qed.
Print Assumptions T_C20_never_terminate.

(* whatever reaches the caller as an exception was thrown by an action of the program *)
Theorem T_C20_err_was_thrown : forall (St E : Type) (p : prog St E), all_noexcept p ->
  forall s e s', exec p s = Err e s' -> throws p s e.
Proof. exact err_was_thrown. Qed.
Print Assumptions T_C20_err_was_thrown.

(* the C++ rule the above depends on, both ways a destructor can be entered *)
Theorem T_C20_throwing_dtor_unwinding : forall (St E : Type) (body : prog St E) d s e s1 e2 s2,
  exec body s = Err e s1 -> d s1 = Err e2 s2 -> forall nf, exec (Scope nf body d) s = Terminate.
Proof. exact throwing_dtor_terminates_unwinding. Qed.
Print Assumptions T_C20_throwing_dtor_unwinding.

Theorem T_C20_throwing_dtor_normal_exit : forall (St E : Type) (body : prog St E) d s s1 e2 s2,
  exec body s = Ok s1 -> d s1 = Err e2 s2 -> exec (Scope false body d) s = Terminate.
Proof. exact throwing_dtor_terminates_normal. Qed.
Print Assumptions T_C20_throwing_dtor_normal_exit.

(* CSV save (string writer), full strength since /repo commit 0a28cd4 repaired F18: for EVERY list of rows the process is
   never terminated, and the row-width error surfaces as OutOfRange exactly when some row differs in width from the first *)
Theorem T_C20_csv_never_terminates : forall widths, csv_run widths <> Terminate.
Proof. exact csv_never_terminates. Qed.
Print Assumptions T_C20_csv_never_terminates.

Theorem T_C20_csv_width_error_surfaces : forall widths,
  (uniform widths = true -> exists s, csv_run widths = Ok s) /\
  (uniform widths = false -> exists s, csv_run widths = Err EOutOfRange s).
Proof. exact csv_width_error_surfaces. Qed.
Print Assumptions T_C20_csv_width_error_surfaces.

Example T_C20_csv_ragged_example : uniform [2; 1] = false /\ uniform [3; 3; 3] = true /\ csv_answer [2; 1] = AExcRange.
Proof. repeat split; vm_compute; reflexivity. Qed.
Print Assumptions T_C20_csv_ragged_example.

(* the deferral is what makes the difference: the same save with the destructor as it was before the repair *)
Theorem T_C20_csv_unguarded_dtor_terminates : exec (csv_save_unguarded [2; 1]) csv_init = Terminate.
Proof. exact csv_unguarded_short_row_terminates. Qed.
Print Assumptions T_C20_csv_unguarded_dtor_terminates.

(* MsgPack, the other side: a complete document never reaches the throwing path.  Every map of fewer than 16 members
   with fixstr / fixint keys and fixint values, followed by anything, loads and stores every member *)
Theorem T_C20_msgpack_complete_doc_ok : forall pairs rest,
  length pairs < 16 -> Forall pair_ok pairs ->
  exists s, mp_run (enc_doc pairs ++ rest) = Ok s /\ mp_loaded s = length pairs /\ mp_unmodelled s = false.
Proof. exact mp_complete_doc_ok. Qed.
Print Assumptions T_C20_msgpack_complete_doc_ok.

Example T_C20_msgpack_complete_doc_example :
  let pairs := [(KStr [0x61; 0x62]%N, 5%N); (KInt 7%N, 0xFF%N); (KStr [], 0%N)] in
  length pairs < 16 /\ Forall pair_ok pairs /\
  enc_doc pairs ++ [0xC1%N] = [0x83; 0xA2; 0x61; 0x62; 5; 7; 0xFF; 0xA0; 0; 0xC1]%N /\
  mp_answer (enc_doc pairs ++ [7%N]) = AOk.
Proof. exact mp_complete_doc_example. Qed.
Print Assumptions T_C20_msgpack_complete_doc_example.

(* MsgPack map load (memory reader), full strength since /repo commits 0863f96 + 3580349 + 8d03f7f repaired F17: for EVERY input
   the process is never terminated, and an exception thrown by any step reaches the caller as that exception *)
Theorem T_C20_msgpack_never_terminates : forall inp, mp_run inp <> Terminate.
Proof. exact mp_never_terminates. Qed.
Print Assumptions T_C20_msgpack_never_terminates.

Theorem T_C20_msgpack_propagates : forall inp e, throws mp_load_map (mp_init inp) e -> exists s, mp_run inp = Err e s.
Proof. exact mp_propagates. Qed.
Print Assumptions T_C20_msgpack_propagates.

(* the hypothesis is satisfiable, and the two historical witnesses of F17 now surface as ParsingException *)
Example T_C20_msgpack_truncated_map_throws : throws mp_load_map (mp_init [0x81%N]) EParse.
Proof. exact mp_truncated_map_throws. Qed.
Print Assumptions T_C20_msgpack_truncated_map_throws.

Example T_C20_msgpack_truncated_map_surfaces :
  (exists s, mp_run [0x81%N] = Err EParse s) /\ (exists s, mp_run [0x81; 0xA1]%N = Err EParse s).
Proof. exact mp_truncated_map_now_err. Qed.
Print Assumptions T_C20_msgpack_truncated_map_surfaces.

(* the guard is what makes the difference: the same load with the destructor as it was before the repair *)
Theorem T_C20_msgpack_unguarded_dtor_terminates :
  exec mp_load_map_unguarded (mp_init [0x81%N]) = Terminate /\
  exec mp_load_map_unguarded (mp_init [0x81; 0xA1]%N) = Terminate.
Proof. exact mp_unguarded_dtor_terminates. Qed.
Print Assumptions T_C20_msgpack_unguarded_dtor_terminates.

(* the regenerated inventory: the destructors whose bodies call possibly-throwing functions are exactly the listed
   ones (with exactly the listed callees), and none is declared noexcept(false) *)
Theorem T_C20_inventory_complete : inventory_errors = [].
Proof. exact inventory_complete_dtors. Qed.
Print Assumptions T_C20_inventory_complete.

Theorem T_C20_throwing_dtors : throwing_dtors dtors = expected_throwing_dtors.
Proof. exact throwing_dtors_expected. Qed.
Print Assumptions T_C20_throwing_dtors.

(* ... and the functions declared noexcept whose bodies or member initialisers call possibly-throwing code are exactly
   the listed ones (all judged benign, see InvSpec.v; the two defects this list exposed, I38 / I39, are repaired) *)
Theorem T_C20_noexcept_callers : noexcept_callers noexcept_fns = expected_noexcept_callers.
Proof. exact noexcept_callers_expected. Qed.
Print Assumptions T_C20_noexcept_callers.

Theorem T_C20_no_noexcept_false : forallb (fun d => negb (String.eqb (dt_noexcept_false d) "yes")) dtors = true.
Proof. exact no_noexcept_false. Qed.
Print Assumptions T_C20_no_noexcept_false.

Example T_C20_dtors_not_vacuous : existsb (fun d => negb (may_throw d)) dtors = true /\ existsb may_throw dtors = true.
Proof. exact dtors_not_vacuous. Qed.
Print Assumptions T_C20_dtors_not_vacuous.
