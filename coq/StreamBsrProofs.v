(* StreamBsrProofs.v — C10, binary stream reader: CBinaryStreamReader over a stream of [data]
   refines the trivial in-memory reader, for every chunk size K > 0 and every operation list. *)
From BS Require Import Base UtfSpec UtfModel StreamIStream StreamSpec StreamModel StreamLemmas.
From Coq Require Import ZifyBool ZifyN ZifyNat.
Local Open Scope nat_scope.
Ltac Zify.zify_post_hook ::= Z.div_mod_to_equations.

Ltac splits := repeat match goal with |- _ /\ _ => split end.

(* ---------- more about the abstract istream ---------- *)

Lemma is_peek_spec s :
  let r := is_peek s in
  is_data (snd r) = is_data s /\ is_pos (snd r) = is_pos s /\ is_seekable (snd r) = is_seekable s /\
  (if is_good s then
     fst r = nth_error (is_data s) (is_pos s) /\ is_fail (snd r) = is_fail s /\
     is_eof (snd r) = match nth_error (is_data s) (is_pos s) with Some _ => is_eof s | None => true end
   else fst r = None /\ is_fail (snd r) = true /\ is_eof (snd r) = is_eof s).
Proof.
  unfold is_peek, is_sentry, is_set_gcount, is_set_fail, is_good. cbn.
  destruct (is_eof s) eqn:E1, (is_fail s) eqn:E2; cbn; rewrite ?E1, ?E2; cbn; splits; try reflexivity.
  all: destruct (nth_error (is_data s) (is_pos s)); cbn; rewrite ?E1, ?E2; reflexivity.
Qed.

(* seekg after clear(): succeeds exactly on a seekable stream for 0 <= p <= size *)
Lemma is_seekg_clear_spec p s :
  let r := is_seekg p (is_clear s) in
  is_data r = is_data s /\ is_seekable r = is_seekable s /\ is_eof r = false /\
  (if is_seekable s && (0 <=? p)%Z && (p <=? Z.of_nat (length (is_data s)))%Z
   then is_fail r = false /\ is_pos r = Z.to_nat p
   else is_fail r = true /\ is_pos r = is_pos s).
Proof.
  unfold is_seekg, is_clear, is_sentry, is_good, is_set_fail. cbn.
  destruct (is_seekable s && (0 <=? p)%Z && (p <=? Z.of_nat (length (is_data s)))%Z); cbn; splits; reflexivity.
Qed.

Section BSRP.
  Variable K : nat.
  Hypothesis HK : 0 < K.
  Variable data : list N.
  (* the data fits a std::streamoff *)
  Hypothesis Hlen : (N.of_nat (length data) < 0x8000000000000000)%N.

  (* representation invariant (holds in every reachable state, also after a refused SetPosition):
     the cached region is the slice of data ending at mStreamPos, the stream's get position is
     mStreamPos *)
  Record Inv0 (s : bsr) : Prop := mkInv0 {
    i_data : is_data (b_is s) = data;
    i_len : length (b_buf s) = K;
    i_se : b_start s <= b_end s;
    i_eK : b_end s <= K;
    i_es : b_end s <= b_spos s;
    i_pos : is_pos (b_is s) = b_spos s;
    i_sl : b_spos s <= length data;
    i_cache : firstn (b_end s) (b_buf s) = slice data (b_spos s - b_end s) (b_end s) }.

  (* meaning of the stream flags while no SetPosition has been refused *)
  Definition Feof (s : bsr) : Prop := is_eof (b_is s) = true -> b_spos s = length data.
  Definition Ffail (s : bsr) : Prop := is_fail (b_is s) = true -> is_eof (b_is s) = true.
  Definition Fend (s : bsr) : Prop := b_start s = b_end s -> b_spos s = length data -> is_eof (b_is s) = true.

  Notation getpos := bsr_get_position.
  Notation rnc := (bsr_read_next_chunk K).

  Lemma win_content s n : Inv0 s -> n <= b_end s - b_start s ->
    slice (b_buf s) (b_start s) n = slice data (getpos s) n.
  Proof.
    intros I H. destruct I. unfold bsr_get_position.
    rewrite <- (slice_firstn (b_buf s) (b_end s)) by lia.
    rewrite i_cache0. rewrite slice_slice by lia. f_equal. lia.
  Qed.

  Lemma win_byte s : Inv0 s -> b_start s < b_end s ->
    nth_error (b_buf s) (b_start s) = nth_error data (getpos s).
  Proof.
    intros I H. destruct I. unfold bsr_get_position.
    rewrite <- (nth_error_firstn_lt (b_buf s) (b_end s)) by lia.
    rewrite i_cache0. rewrite nth_error_slice by lia. f_equal. lia.
  Qed.

  Lemma getpos_lt s : Inv0 s -> b_start s < b_end s -> getpos s < length data.
  Proof. intros I H. destruct I. unfold bsr_get_position. lia. Qed.

  Lemma getpos_le s : Inv0 s -> getpos s <= length data.
  Proof. intros I. destruct I. unfold bsr_get_position. lia. Qed.

  (* ---------- ReadNextChunk ---------- *)

  Lemma rnc_shape s : Inv0 s -> bsr_is_end s = false ->
    exists buf1, length buf1 = K /\
      firstn (b_end s - b_start s) buf1 = slice (b_buf s) (b_start s) (b_end s - b_start s) /\
      rnc s = (let n1 := b_end s - b_start s in
               let r := is_read (K - n1) (b_is s) in
               (negb (is_gcount (snd r) =? 0),
                mkB (snd r) (write_at buf1 n1 (fst r)) 0 (n1 + is_gcount (snd r)) (b_spos s + is_gcount (snd r)))).
  Proof.
    intros I E. destruct I. unfold bsr_read_next_chunk. rewrite E.
    destruct (b_start s =? K) eqn:E1.
    - apply Nat.eqb_eq in E1. exists (b_buf s). replace (b_end s - b_start s) with 0 by lia.
      split; [assumption|]. split; [reflexivity|]. cbn zeta.
      destruct (is_read (K - 0) (b_is s)). reflexivity.
    - destruct (b_start s =? 0) eqn:E2; cbn [negb].
      + apply Nat.eqb_eq in E2. exists (b_buf s). rewrite E2, Nat.sub_0_r.
        split; [assumption|]. split; [reflexivity|]. cbn zeta.
        destruct (is_read (K - b_end s) (b_is s)). reflexivity.
      + exists (squeeze (b_buf s) (b_start s) (b_end s - b_start s)).
        split; [rewrite squeeze_length; lia|]. split; [apply squeeze_prefix; lia|]. cbn zeta.
        destruct (is_read (K - (b_end s - b_start s)) (b_is s)). reflexivity.
  Qed.

  Lemma rnc_spec s : Inv0 s ->
    let r := rnc s in
    Inv0 (snd r) /\ getpos (snd r) = getpos s /\
    is_seekable (b_is (snd r)) = is_seekable (b_is s) /\
    (fst r = true -> b_start (snd r) < b_end (snd r)) /\
    b_end s - b_start s <= b_end (snd r) - b_start (snd r) /\
    (fst r = false -> b_end (snd r) - b_start (snd r) = b_end s - b_start s) /\
    (Feof s -> Ffail s ->
       Feof (snd r) /\ Ffail (snd r) /\ Fend (snd r) /\
       b_end (snd r) - b_start (snd r) = Nat.min K (length data - getpos s) /\
       (fst r = false -> b_start s = b_end s -> getpos s = length data)).
  Proof.
    intros I. cbn zeta. destruct (bsr_is_end s) eqn:E.
    - (* early return: the window is empty and eofbit is set *)
      unfold bsr_read_next_chunk. rewrite E. cbn [fst snd].
      unfold bsr_is_end in E. apply andb_true_iff in E. destruct E as [E1 E2]. apply Nat.eqb_eq in E1.
      splits; try assumption; try reflexivity; try discriminate; try lia.
      intros F1 F2. pose proof (F1 E2) as H. destruct I. unfold bsr_get_position, Fend.
      splits; try assumption; try lia. intros _ _. exact E2.
    - destruct (rnc_shape s I E) as [buf1 [L1 [P1 ->]]]. cbn zeta. cbn [fst snd].
      pose proof (is_read_spec (K - (b_end s - b_start s)) (b_is s)) as R. cbn zeta in R.
      pose proof (is_read_data (K - (b_end s - b_start s)) (b_is s)) as RD.
      pose proof (is_read_seekable (K - (b_end s - b_start s)) (b_is s)) as RS.
      destruct (is_read (K - (b_end s - b_start s)) (b_is s)) as [got is1]. cbn [fst snd] in *.
      pose proof (win_content s (b_end s - b_start s) I (le_n _)) as WC.
      destruct I. unfold bsr_get_position, Feof, Ffail, Fend in *. cbn [b_is b_buf b_start b_end b_spos].
      set (n1 := b_end s - b_start s) in *.
      destruct (is_good (b_is s)) eqn:G.
      + (* the stream is good: min (K - n1) (remaining) bytes arrive *)
        destruct R as [R1 [R2 [R3 [R4 R5]]]].
        assert (Lg : length got = Nat.min (K - n1) (length data - b_spos s)).
        { rewrite R1, slice_length, i_data0, i_pos0. reflexivity. }
        rewrite R3.
        split.
        { constructor; cbn [b_is b_buf b_start b_end b_spos]; try lia.
          - congruence.
          - rewrite write_at_length; lia.
          - rewrite write_at_prefix by lia. rewrite P1, WC.
            assert (Eg : got = slice data (b_spos s) (length got)).
            { rewrite <- i_data0, <- i_pos0. rewrite R1. symmetry. apply slice_length_id. }
            rewrite Eg at 1.
            replace (b_spos s + length got - (n1 + length got)) with (b_spos s - n1) by lia.
            rewrite slice_app_split. f_equal. f_equal. lia. }
        splits; try lia; try exact RS.
        intros _ _. rewrite R4, R5. splits; try lia; try tauto.
      + (* eofbit or failbit already set: nothing arrives *)
        destruct R as [R1 [R2 [R3 [R4 R5]]]]. subst got. rewrite R3. cbn [length].
        split.
        { constructor; cbn [b_is b_buf b_start b_end b_spos]; try lia.
          - congruence.
          - rewrite write_at_length; cbn [length]; lia.
          - rewrite Nat.add_0_r. replace n1 with (n1 + length (@nil N)) at 1 by (cbn; lia).
            rewrite write_at_prefix by lia. rewrite app_nil_r, P1, WC. f_equal. lia. }
        splits; try lia; try exact RS; try discriminate.
        intros F1 F2.
        assert (Eof : is_eof (b_is s) = true).
        { unfold is_good in G. destruct (is_eof (b_is s)); [reflexivity|].
          destruct (is_fail (b_is s)) eqn:F; [apply F2; reflexivity | discriminate]. }
        pose proof (F1 Eof) as Hend.
        splits; try lia; intros; congruence.
  Qed.

  (* ---------- "mStartDataPtr != mEndDataPtr || ReadNextChunk()" ---------- *)

  Lemma ensure_spec s : Inv0 s ->
    let r := bsr_ensure K s in
    Inv0 (snd r) /\ getpos (snd r) = getpos s /\
    is_seekable (b_is (snd r)) = is_seekable (b_is s) /\
    (fst r = true -> b_start (snd r) < b_end (snd r)) /\
    (Feof s -> Ffail s -> Fend s ->
       Feof (snd r) /\ Ffail (snd r) /\ Fend (snd r) /\
       (fst r = false -> getpos s = length data)).
  Proof.
    intros I. cbn zeta. unfold bsr_ensure. destruct (b_start s =? b_end s) eqn:E; cbn [negb].
    - apply Nat.eqb_eq in E. destruct (rnc_spec s I) as [A1 [A2 [A3 [A4 [_ [_ A5]]]]]].
      splits; try assumption. intros F1 F2 _. destruct (A5 F1 F2) as [B1 [B2 [B3 [_ B5]]]].
      splits; try assumption. intros H. apply B5; assumption.
    - apply Nat.eqb_neq in E. cbn [fst snd]. destruct I. splits; try reflexivity; try (constructor; assumption).
      + intros _. lia.
      + intros F1 F2 F3. splits; try assumption. discriminate.
  Qed.

  (* ---------- handing out n bytes of the window ---------- *)

  Lemma take_spec s n : Inv0 s -> n <= b_end s - b_start s ->
    exists s', bsr_take s n = Ok (slice data (getpos s) n, s') /\
      Inv0 s' /\ getpos s' = getpos s + n /\
      is_seekable (b_is s') = is_seekable (b_is s) /\
      (Feof s -> Ffail s -> Fend s -> Feof s' /\ Ffail s' /\ Fend s').
  Proof.
    intros I H. pose proof (win_content s n I H) as WC. destruct I.
    unfold bsr_take.
    replace ((b_start s + n <=? b_end s) && (b_end s <=? length (b_buf s))) with true
      by (symmetry; apply andb_true_iff; split; apply Nat.leb_le; lia).
    rewrite WC. cbn [set_start b_start b_end].
    destruct (b_start s + n =? b_end s) eqn:E.
    - (* window exhausted: mStream.peek() "for correctly work IsEnd()" *)
      apply Nat.eqb_eq in E. eexists. split; [reflexivity|].
      unfold set_is, set_start. cbn [b_is b_buf b_start b_end b_spos].
      pose proof (is_peek_spec (b_is s)) as P. cbn zeta in P. destruct P as [P1 [P2 [P3 P4]]].
      unfold bsr_get_position, Feof, Ffail, Fend. cbn [b_is b_buf b_start b_end b_spos].
      splits; try lia; try assumption.
      + constructor; cbn [b_is b_buf b_start b_end b_spos]; try lia; try congruence.
      + intros F1 F2 F3. destruct (is_good (b_is s)) eqn:G.
        * destruct P4 as [_ [P5 P6]]. rewrite P5, P6, i_data0, i_pos0.
          destruct (nth_error data (b_spos s)) eqn:En.
          -- splits; try assumption. intros _ H2.
             assert (nth_error data (b_spos s) = None) by (apply nth_error_None; lia). congruence.
          -- apply nth_error_None in En. splits; intros; try reflexivity; try lia.
        * destruct P4 as [_ [P5 P6]]. rewrite P5, P6.
          assert (Eof : is_eof (b_is s) = true).
          { unfold is_good in G. destruct (is_eof (b_is s)); [reflexivity|].
            destruct (is_fail (b_is s)) eqn:F; [apply F2; reflexivity | discriminate]. }
          splits; intros; try assumption; auto.
    - apply Nat.eqb_neq in E. eexists. split; [reflexivity|].
      unfold bsr_get_position, Feof, Ffail, Fend, set_start. cbn [b_is b_buf b_start b_end b_spos].
      splits; try lia; try reflexivity.
      + constructor; cbn [b_is b_buf b_start b_end b_spos]; try lia; try congruence.
      + intros F1 F2 F3. splits; try assumption. intros; lia.
  Qed.

  (* ---------- the reference reader accepts every answer ---------- *)

  Lemma list_eqb_refl l : list_eqb l l = true.
  Proof. induction l as [|x l IH]; [reflexivity|]. cbn. rewrite N.eqb_refl. exact IH. Qed.

  Lemma opt_eqb_refl o : opt_eqb o o = true.
  Proof. destruct o; [apply N.eqb_refl | reflexivity]. Qed.

  (* link between a reader state and the state of the reference reader *)
  Definition Rel (s : bsr) (m : mem) : Prop :=
    Inv0 s /\ (m_failed m = false -> Feof s /\ Ffail s /\ Fend s /\ m_pos m = getpos s).

  (* a SetPosition that needs no seekg, or that must be refused anyway *)
  Definition in_window (s : bsr) (p : N) : bool :=
    (N.of_nat (b_spos s - b_end s) <=? p)%N && (p <? N.of_nat (b_spos s))%N.
  Definition setpos_local (s : bsr) (p : N) : bool :=
    in_window s p || (p =? N.of_nat (b_spos s))%N || (N.of_nat (length data) <? p)%N.
  Definition op_local (s : bsr) (op : bop) : bool :=
    match op with OSetPos p => setpos_local s p | _ => true end.

  Definition Step (s : bsr) (m : mem) (op : bop) : Prop :=
    exists r s' m', bsr_step K s op = Ok (r, s') /\ mem_step K data m op r = Some m' /\
      Rel s' m' /\ is_seekable (b_is s') = is_seekable (b_is s).

  Ltac dead_or_alive m :=
    let F := fresh "F" in
    destruct (Bool.bool_dec (m_failed m) true) as [F|F]; [| apply Bool.not_true_is_false in F]; rewrite F.

  Lemma step_is_end s m : Rel s m -> Step s m OIsEnd.
  Proof.
    intros [I R]. exists (RBool (bsr_is_end s)), s, m. cbn [bsr_step]. unfold mem_step.
    dead_or_alive m.
    - splits; try reflexivity. split; [exact I | congruence].
    - destruct (R F) as [F1 [F2 [F3 P]]]. rewrite P.
      assert (E : bsr_is_end s = (getpos s =? length data)).
      { unfold bsr_is_end, Feof, Fend, bsr_get_position in *. destruct I.
        destruct (b_start s =? b_end s) eqn:E1; cbn [andb].
        - apply Nat.eqb_eq in E1. destruct (is_eof (b_is s)) eqn:E2.
          + symmetry. apply Nat.eqb_eq. rewrite (F1 eq_refl). lia.
          + symmetry. apply Nat.eqb_neq. intros H. assert (b_spos s = length data) by lia.
            pose proof (F3 E1 H0). congruence.
        - apply Nat.eqb_neq in E1. symmetry. apply Nat.eqb_neq. lia. }
      rewrite E, Bool.eqb_reflx. splits; try reflexivity. split; [exact I | intros _; tauto].
  Qed.

  Lemma step_is_failed s m : Rel s m -> Step s m OIsFailed.
  Proof.
    intros [I R]. exists (RBool (bsr_is_failed s)), s, m. cbn [bsr_step]. unfold mem_step.
    dead_or_alive m; splits; try reflexivity; split; assumption.
  Qed.

  Lemma step_get_pos s m : Rel s m -> Step s m OGetPos.
  Proof.
    intros [I R]. exists (RPos (getpos s)), s, m. cbn [bsr_step]. unfold mem_step.
    dead_or_alive m.
    - splits; try reflexivity. split; [exact I | congruence].
    - destruct (R F) as [F1 [F2 [F3 P]]]. rewrite P, Nat.eqb_refl.
      splits; try reflexivity. split; [exact I | intros _; tauto].
  Qed.

  Lemma step_peek s m : Rel s m -> Step s m OPeek.
  Proof.
    intros [I R]. unfold Step. cbn [bsr_step]. unfold bsr_peek_byte.
    destruct (ensure_spec s I) as [A1 [A2 [A3 [A4 A5]]]].
    destruct (bsr_ensure K s) as [ok s1]. cbn [fst snd] in *. destruct ok.
    - pose proof (A4 eq_refl) as Hlt. rewrite (win_byte s1 A1 Hlt).
      pose proof (getpos_lt s1 A1 Hlt) as Hp.
      destruct (nth_error data (getpos s1)) as [b|] eqn:En; [|apply nth_error_None in En; lia].
      replace (b_start s1 <? b_end s1) with true by (symmetry; apply Nat.ltb_lt; exact Hlt).
      cbn [bind fst snd]. exists (RByte (Some b)), s1, m. unfold mem_step. dead_or_alive m.
      + splits; try reflexivity; try assumption. split; [exact A1 | congruence].
      + destruct (R F) as [F1 [F2 [F3 P]]]. destruct (A5 F1 F2 F3) as [B1 [B2 [B3 B4]]].
        rewrite P, <- A2, En. cbn [opt_eqb]. rewrite N.eqb_refl.
        splits; try reflexivity; try assumption. split; [exact A1 | intros _; splits; try assumption; congruence].
    - cbn [bind fst snd]. exists (RByte None), s1, m. unfold mem_step. dead_or_alive m.
      + splits; try reflexivity; try assumption. split; [exact A1 | congruence].
      + destruct (R F) as [F1 [F2 [F3 P]]]. destruct (A5 F1 F2 F3) as [B1 [B2 [B3 B4]]].
        rewrite P, (B4 eq_refl).
        replace (nth_error data (length data)) with (@None N) by (symmetry; apply nth_error_None; lia).
        cbn [opt_eqb]. splits; try reflexivity; try assumption.
        split; [exact A1 | intros _; splits; try assumption; congruence].
  Qed.

  (* "++mStartDataPtr; if (mStartDataPtr == mEndDataPtr) ReadNextChunk();" *)
  Lemma advance_one s : Inv0 s -> b_start s < b_end s ->
    let s2 := set_start s (S (b_start s)) in
    let s3 := if b_start s2 =? b_end s2 then snd (rnc s2) else s2 in
    Inv0 s3 /\ getpos s3 = S (getpos s) /\ is_seekable (b_is s3) = is_seekable (b_is s) /\
    (Feof s -> Ffail s -> Feof s3 /\ Ffail s3 /\ Fend s3).
  Proof.
    intros I Hlt. cbn zeta.
    assert (I2 : Inv0 (set_start s (S (b_start s)))).
    { destruct I. unfold set_start. constructor; cbn [b_is b_buf b_start b_end b_spos]; try lia; assumption. }
    assert (P2 : getpos (set_start s (S (b_start s))) = S (getpos s)).
    { destruct I. unfold set_start, bsr_get_position. cbn [b_is b_buf b_start b_end b_spos]. lia. }
    destruct (b_start (set_start s (S (b_start s))) =? b_end (set_start s (S (b_start s)))) eqn:E.
    - destruct (rnc_spec _ I2) as [A1 [A2 [A3 [_ [_ [_ A5]]]]]].
      splits; try assumption; try congruence.
      intros F1 F2. destruct (A5 F1 F2) as [B1 [B2 [B3 _]]]. splits; assumption.
    - apply Nat.eqb_neq in E. splits; try assumption; try reflexivity.
      intros F1 F2. unfold Feof, Ffail, Fend in *. splits; try assumption. intros H. contradiction.
  Qed.

  Lemma step_goto s m : Rel s m -> Step s m OGoto.
  Proof.
    intros [I R]. unfold Step. cbn [bsr_step]. unfold bsr_goto_next_byte.
    destruct (ensure_spec s I) as [A1 [A2 [A3 [A4 A5]]]].
    destruct (bsr_ensure K s) as [ok s1]. cbn [fst snd] in *. destruct ok.
    - pose proof (A4 eq_refl) as Hlt. pose proof (getpos_lt s1 A1 Hlt) as Hp.
      destruct (advance_one s1 A1 Hlt) as [C1 [C2 [C3 C4]]]. cbn zeta in *.
      eexists RUnit, _, (if m_failed m then m else mkM (S (m_pos m)) false).
      split; [reflexivity|]. unfold mem_step. dead_or_alive m.
      + splits; try reflexivity; try congruence. split; [exact C1 | congruence].
      + destruct (R F) as [F1 [F2 [F3 P]]]. destruct (A5 F1 F2 F3) as [B1 [B2 [B3 B4]]].
        destruct (C4 B1 B2) as [D1 [D2 D3]].
        replace (m_pos m <? length data) with true by (symmetry; apply Nat.ltb_lt; lia).
        splits; try reflexivity; try congruence.
        split; [exact C1 | intros _; splits; try assumption; cbn [m_pos]; lia].
    - eexists RUnit, s1, m. split; [reflexivity|]. unfold mem_step. dead_or_alive m.
      + splits; try reflexivity; try assumption. split; [exact A1 | congruence].
      + destruct (R F) as [F1 [F2 [F3 P]]]. destruct (A5 F1 F2 F3) as [B1 [B2 [B3 B4]]].
        replace (m_pos m <? length data) with false by (symmetry; apply Nat.ltb_ge; rewrite P, (B4 eq_refl); lia).
        destruct m as [mp mf]. cbn [m_pos m_failed] in *. subst mf.
        splits; try reflexivity; try assumption.
        split; [exact A1 | intros _; splits; try assumption; cbn [m_pos]; congruence].
  Qed.

  Lemma step_read_byte s m : Rel s m -> Step s m OReadByte.
  Proof.
    intros [I R]. unfold Step. cbn [bsr_step]. unfold bsr_read_byte.
    destruct (ensure_spec s I) as [A1 [A2 [A3 [A4 A5]]]].
    destruct (bsr_ensure K s) as [ok s1]. cbn [fst snd] in *. destruct ok.
    - pose proof (A4 eq_refl) as Hlt. rewrite (win_byte s1 A1 Hlt).
      pose proof (getpos_lt s1 A1 Hlt) as Hp.
      destruct (nth_error data (getpos s1)) as [b|] eqn:En; [|apply nth_error_None in En; lia].
      replace (b_start s1 <? b_end s1) with true by (symmetry; apply Nat.ltb_lt; exact Hlt).
      destruct (advance_one s1 A1 Hlt) as [C1 [C2 [C3 C4]]]. cbn zeta in *.
      cbn [bind fst snd].
      eexists (RByte (Some b)), _, (if m_failed m then m else mkM (S (m_pos m)) false).
      split; [reflexivity|]. unfold mem_step. dead_or_alive m.
      + splits; try reflexivity; try congruence. split; [exact C1 | congruence].
      + destruct (R F) as [F1 [F2 [F3 P]]]. destruct (A5 F1 F2 F3) as [B1 [B2 [B3 B4]]].
        destruct (C4 B1 B2) as [D1 [D2 D3]].
        rewrite P, <- A2, En. cbn [opt_eqb]. rewrite N.eqb_refl.
        splits; try reflexivity; try congruence.
        split; [exact C1 | intros _; splits; try assumption; cbn [m_pos]; lia].
    - cbn [bind fst snd]. exists (RByte None), s1, m. unfold mem_step. dead_or_alive m.
      + splits; try reflexivity; try assumption. split; [exact A1 | congruence].
      + destruct (R F) as [F1 [F2 [F3 P]]]. destruct (A5 F1 F2 F3) as [B1 [B2 [B3 B4]]].
        replace (nth_error data (m_pos m)) with (@None N)
          by (symmetry; apply nth_error_None; rewrite P, (B4 eq_refl); lia).
        cbn [opt_eqb]. destruct m as [mp mf]. cbn [m_pos m_failed] in *. subst mf.
        splits; try reflexivity; try assumption.
        split; [exact A1 | intros _; splits; try assumption; cbn [m_pos]; congruence].
  Qed.

  Lemma step_solid s m n : Rel s m -> Step s m (OSolid n).
  Proof.
    intros [I R]. unfold Step. cbn [bsr_step]. unfold bsr_read_solid_block.
    destruct (N.of_nat K <? n)%N eqn:EK.
    - (* larger than a chunk: refused *)
      apply N.ltb_lt in EK. cbn [bind fst snd].
      exists (RBlock []), s, (if m_failed m then m else mkM (m_pos m + 0) false).
      split; [reflexivity|]. unfold mem_step. dead_or_alive m.
      + splits; try reflexivity. split; [exact I | congruence].
      + destruct (R F) as [F1 [F2 [F3 P]]].
        replace (n <=? N.of_nat K)%N with false by (symmetry; apply N.leb_gt; lia). cbn [andb list_eqb length].
        splits; try reflexivity. split; [exact I | intros _; splits; try assumption; cbn [m_pos]; lia].
    - apply N.ltb_ge in EK. set (n' := N.to_nat n).
      assert (Hn : n' <= K) by lia.
      (* both ways of getting at the block end in the same situation *)
      assert (Fin : forall s1, Inv0 s1 -> getpos s1 = getpos s ->
                is_seekable (b_is s1) = is_seekable (b_is s) ->
                (m_failed m = false -> Feof s1 /\ Ffail s1 /\ Fend s1) ->
                n' <= b_end s1 - b_start s1 ->
                exists r s' m', (do r <- bsr_take s1 n'; Ok (RBlock (fst r), snd r)) = Ok (r, s') /\
                  mem_step K data m (OSolid n) r = Some m' /\ Rel s' m' /\
                  is_seekable (b_is s') = is_seekable (b_is s)).
      { intros s1 I1 P1 S1 Fl Hw.
        destruct (take_spec s1 n' I1 Hw) as [s2 [T1 [T2 [T3 [T4 T5]]]]].
        rewrite T1. cbn [bind fst snd].
        exists (RBlock (slice data (getpos s1) n')), s2,
               (if m_failed m then m else mkM (m_pos m + length (slice data (getpos s1) n')) false).
        split; [reflexivity|]. unfold mem_step. dead_or_alive m.
        - splits; try reflexivity; try congruence. split; [exact T2 | congruence].
        - destruct (R F) as [F1 [F2 [F3 P]]]. destruct (Fl F) as [G1 [G2 G3]].
          destruct (T5 G1 G2 G3) as [H1 [H2 H3]].
          pose proof (getpos_le s1 I1) as Hle.
          assert (Hfit : getpos s1 + n' <= length data).
          { destruct I1. unfold bsr_get_position in *. lia. }
          replace ((n <=? N.of_nat K) && (N.of_nat (m_pos m) + n <=? N.of_nat (length data)))%N with true
            by (symmetry; apply andb_true_iff; split; apply N.leb_le; lia).
          fold n'. rewrite P, <- P1, list_eqb_refl.
          splits; try reflexivity; try congruence.
          split; [exact T2 | intros _; splits; try assumption; cbn [m_pos]; rewrite slice_length; lia]. }
      destruct (b_end s <? b_start s + n') eqn:E1.
      + (* not enough in the window: ReadNextChunk first *)
        apply Nat.ltb_lt in E1.
        destruct (rnc_spec s I) as [A1 [A2 [A3 [A4 [A5 [A6 A7]]]]]].
        destruct (rnc s) as [ok s1]. cbn [fst snd] in *.
        destruct (negb ok || (b_end s1 <? b_start s1 + n')) eqn:E2.
        * cbn [bind fst snd].
          exists (RBlock []), s1, (if m_failed m then m else mkM (m_pos m + 0) false).
          split; [reflexivity|]. unfold mem_step. dead_or_alive m.
          -- splits; try reflexivity; try assumption. split; [exact A1 | congruence].
          -- destruct (R F) as [F1 [F2 [F3 P]]]. destruct (A7 F1 F2) as [B1 [B2 [B3 [B4 B5]]]].
             assert (Hshort : b_end s1 - b_start s1 < n').
             { pose proof (i_se s I) as Hse. pose proof (i_se s1 A1) as Hse1.
               apply orb_true_iff in E2. destruct E2 as [E2|E2].
               - apply negb_true_iff in E2. subst ok. rewrite (A6 eq_refl). lia.
               - apply Nat.ltb_lt in E2. lia. }
             replace ((n <=? N.of_nat K) && (N.of_nat (m_pos m) + n <=? N.of_nat (length data)))%N with false
               by (symmetry; apply andb_false_iff; right; apply N.leb_gt; lia).
             cbn [list_eqb length].
             splits; try reflexivity; try assumption.
             split; [exact A1 | intros _; splits; try assumption; cbn [m_pos]; lia].
        * apply orb_false_iff in E2. destruct E2 as [_ E2]. apply Nat.ltb_ge in E2.
          apply (Fin s1 A1 A2 A3).
          -- intros F. destruct (R F) as [F1 [F2 [F3 P]]]. destruct (A7 F1 F2) as [B1 [B2 [B3 _]]]. tauto.
          -- lia.
      + apply Nat.ltb_ge in E1. apply (Fin s I eq_refl eq_refl).
        * intros F. destruct (R F) as [F1 [F2 [F3 P]]]. tauto.
        * lia.
  Qed.

  Lemma step_chunks s m n : Rel s m -> Step s m (OChunks n).
  Proof.
    intros [I R]. unfold Step. cbn [bsr_step]. unfold bsr_read_by_chunks.
    destruct (ensure_spec s I) as [A1 [A2 [A3 [A4 A5]]]].
    destruct (bsr_ensure K s) as [ok s1]. cbn [fst snd] in *. destruct ok.
    - pose proof (A4 eq_refl) as Hlt.
      set (k := N.to_nat (N.min (N.of_nat (b_end s1 - b_start s1)) n)).
      assert (Hk : k <= b_end s1 - b_start s1) by lia.
      destruct (take_spec s1 k A1 Hk) as [s2 [T1 [T2 [T3 [T4 T5]]]]].
      rewrite T1. cbn [bind fst snd].
      exists (RBlock (slice data (getpos s1) k)), s2,
             (if m_failed m then m else mkM (m_pos m + length (slice data (getpos s1) k)) false).
      split; [reflexivity|]. unfold mem_step. dead_or_alive m.
      + splits; try reflexivity; try congruence. split; [exact T2 | congruence].
      + destruct (R F) as [F1 [F2 [F3 P]]]. destruct (A5 F1 F2 F3) as [B1 [B2 [B3 B4]]].
        destruct (T5 B1 B2 B3) as [H1 [H2 H3]].
        assert (Hfit : getpos s1 + k <= length data).
        { destruct A1. unfold bsr_get_position in *. lia. }
        assert (Lk : length (slice data (getpos s1) k) = k) by (rewrite slice_length; lia).
        rewrite Lk, P, <- A2, list_eqb_refl.
        replace (N.of_nat k <=? n)%N with true by (symmetry; apply N.leb_le; lia).
        replace (negb (k =? 0) || (n =? 0)%N || (getpos s1 =? length data)) with true
          by (symmetry; destruct (N.eqb_spec n 0); [rewrite orb_true_r; reflexivity |
              replace (k =? 0) with false by (symmetry; apply Nat.eqb_neq; lia); reflexivity]).
        cbn [andb]. splits; try reflexivity; try congruence.
        split; [exact T2 | intros _; splits; try assumption; cbn [m_pos]; lia].
    - cbn [bind fst snd].
      exists (RBlock []), s1, (if m_failed m then m else mkM (m_pos m + 0) false).
      split; [reflexivity|]. unfold mem_step. dead_or_alive m.
      + splits; try reflexivity; try assumption. split; [exact A1 | congruence].
      + destruct (R F) as [F1 [F2 [F3 P]]]. destruct (A5 F1 F2 F3) as [B1 [B2 [B3 B4]]].
        cbn [length slice firstn list_eqb].
        replace (N.of_nat 0 <=? n)%N with true by (symmetry; apply N.leb_le; lia).
        replace (m_pos m =? length data) with true by (symmetry; apply Nat.eqb_eq; rewrite P; apply B4; reflexivity).
        rewrite !orb_true_r. cbn [andb].
        splits; try reflexivity; try assumption.
        split; [exact A1 | intros _; splits; try assumption; cbn [m_pos]; lia].
  Qed.

  Definition sizet (p : N) : Prop := (p < 0x10000000000000000)%N.

  Lemma step_set_pos s m p : Rel s m -> sizet p ->
    (m_failed m = false -> is_seekable (b_is s) = true \/ setpos_local s p = true) -> Step s m (OSetPos p).
  Proof.
    intros [I R] Hp Hseek. unfold Step. cbn [bsr_step]. unfold bsr_set_position.
    pose proof I as I'. destruct I'.
    unfold setpos_local, in_window in Hseek.
    destruct ((N.of_nat (b_spos s - b_end s) <=? p)%N && (p <? N.of_nat (b_spos s))%N) eqn:E1.
    - (* inside the cached region *)
      apply andb_true_iff in E1. destruct E1 as [E1 E1']. apply N.leb_le in E1. apply N.ltb_lt in E1'.
      exists (RBool true), (set_start s (N.to_nat p - (b_spos s - b_end s))),
             (if m_failed m then m else mkM (N.to_nat p) false).
      split; [reflexivity|].
      assert (I2 : Inv0 (set_start s (N.to_nat p - (b_spos s - b_end s)))).
      { unfold set_start. constructor; cbn [b_is b_buf b_start b_end b_spos]; try lia; assumption. }
      unfold mem_step. dead_or_alive m.
      + splits; try reflexivity. split; [exact I2 | congruence].
      + destruct (R F) as [F1 [F2 [F3 P]]].
        replace (p <=? N.of_nat (length data))%N with true by (symmetry; apply N.leb_le; lia).
        splits; try reflexivity. split; [exact I2|]. intros _.
        unfold Feof, Ffail, Fend, set_start, bsr_get_position in *. cbn [b_is b_buf b_start b_end b_spos m_pos].
        splits; try assumption; try lia.
    - clear E1. destruct (p =? N.of_nat (b_spos s))%N eqn:E2.
      + (* already the stream position: drop the cache and refill *)
        apply N.eqb_eq in E2.
        set (s1 := mkB (b_is s) (b_buf s) 0 0 (N.to_nat p)).
        assert (I1 : Inv0 s1).
        { subst s1. constructor; cbn [b_is b_buf b_start b_end b_spos]; try lia; try assumption. reflexivity. }
        destruct (rnc_spec s1 I1) as [A1 [A2 [A3 [_ [_ [_ A7]]]]]].
        exists (RBool true), (snd (rnc s1)), (if m_failed m then m else mkM (N.to_nat p) false).
        split; [reflexivity|]. unfold mem_step. dead_or_alive m.
        * splits; try reflexivity; try exact A3. split; [exact A1 | congruence].
        * destruct (R F) as [F1 [F2 [F3 P]]].
          replace (p <=? N.of_nat (length data))%N with true by (symmetry; apply N.leb_le; lia).
          assert (G1 : Feof s1) by (subst s1; unfold Feof in *; cbn [b_is b_spos]; intros H; pose proof (F1 H); lia).
          assert (G2 : Ffail s1) by (subst s1; exact F2).
          destruct (A7 G1 G2) as [B1 [B2 [B3 _]]].
          splits; try reflexivity; try exact A3. split; [exact A1|]. intros _.
          splits; try assumption. cbn [m_pos]. rewrite A2. subst s1. unfold bsr_get_position.
          cbn [b_start b_end b_spos]. lia.
      + (* clear(), seekg(pos) *)
        apply N.eqb_neq in E2.
        pose proof (is_seekg_clear_spec (to_streamoff p) (b_is s)) as SK. cbn zeta in SK.
        destruct SK as [S1 [S2 [S3 S4]]].
        set (is1 := is_seekg (to_streamoff p) (is_clear (b_is s))) in *.
        assert (Ez : to_streamoff p = Z.of_N p \/ (to_streamoff p < 0)%Z).
        { unfold to_streamoff, sizet in *. destruct (p <? 9223372036854775808)%N eqn:E3; [left; reflexivity|].
          apply N.ltb_ge in E3. right. lia. }
        destruct (is_seekable (b_is s) && (0 <=? to_streamoff p)%Z &&
                  (to_streamoff p <=? Z.of_nat (length (is_data (b_is s))))%Z) eqn:Ec.
        * (* the seek succeeds: the position is inside the data *)
          apply andb_true_iff in Ec. destruct Ec as [Ec Ec3]. apply andb_true_iff in Ec. destruct Ec as [Ec1 Ec2].
          apply Z.leb_le in Ec2, Ec3. rewrite i_data0 in Ec3.
          destruct Ez as [Ez|Ez]; [|lia]. rewrite Ez in *.
          destruct S4 as [S4 S5]. rewrite S4. cbn [negb].
          set (s1 := mkB is1 (b_buf s) 0 0 (N.to_nat p)).
          assert (I1 : Inv0 s1).
          { subst s1. constructor; cbn [b_is b_buf b_start b_end b_spos]; try lia; try assumption; try congruence.
            reflexivity. }
          destruct (rnc_spec s1 I1) as [A1 [A2 [A3 [_ [_ [_ A7]]]]]].
          exists (RBool true), (snd (rnc s1)), (if m_failed m then m else mkM (N.to_nat p) false).
          split; [reflexivity|].
          assert (Sk : is_seekable (b_is (snd (rnc s1))) = is_seekable (b_is s)) by (rewrite A3; exact S2).
          unfold mem_step. dead_or_alive m.
          -- splits; try reflexivity; try exact Sk. split; [exact A1 | congruence].
          -- replace (p <=? N.of_nat (length data))%N with true by (symmetry; apply N.leb_le; lia).
             assert (G1 : Feof s1) by (subst s1; unfold Feof; cbn [b_is]; rewrite S3; discriminate).
             assert (G2 : Ffail s1) by (subst s1; unfold Ffail; cbn [b_is]; rewrite S4; discriminate).
             destruct (A7 G1 G2) as [B1 [B2 [B3 _]]].
             splits; try reflexivity; try exact Sk. split; [exact A1|]. intros _.
             splits; try assumption. cbn [m_pos]. rewrite A2. subst s1. unfold bsr_get_position.
             cbn [b_start b_end b_spos]. lia.
        * (* refused: the stream stays where it was, with failbit set *)
          destruct S4 as [S4 S5]. rewrite S4. cbn [negb].
          assert (I2 : Inv0 (set_is s is1)).
          { unfold set_is. constructor; cbn [b_is b_buf b_start b_end b_spos]; try lia; try assumption; congruence. }
          exists (RBool false), (set_is s is1), (if m_failed m then m else mkM (m_pos m) true).
          split; [reflexivity|]. unfold mem_step. dead_or_alive m.
          -- splits; try reflexivity; try exact S2. split; [exact I2 | congruence].
          -- (* while the reference reader is alive the refusal must be justified: beyond the end *)
             assert (Hgt : (N.of_nat (length data) < p)%N).
             { destruct (Hseek F) as [H|H].
               - rewrite H, i_data0 in Ec. cbn [andb] in Ec.
                 destruct Ez as [Ez|Ez].
                 + rewrite Ez in Ec. apply andb_false_iff in Ec. destruct Ec as [Ec|Ec]; apply Z.leb_gt in Ec; lia.
                 + unfold to_streamoff, sizet in *. destruct (p <? 9223372036854775808)%N eqn:E3; [lia|].
                   apply N.ltb_ge in E3. lia.
               - cbn [orb] in H. apply N.ltb_lt in H. exact H. }
             replace (p <=? N.of_nat (length data))%N with false by (symmetry; apply N.leb_gt; lia).
             splits; try reflexivity; try exact S2. split; [exact I2 | cbn [m_failed]; discriminate].
  Qed.

  (* ---------- every operation ---------- *)

  Definition op_sizet (op : bop) : Prop :=
    match op with OSetPos p | OSolid p | OChunks p => sizet p | _ => True end.

  Lemma step_refines s m op : Rel s m -> op_sizet op ->
    (m_failed m = false -> is_seekable (b_is s) = true \/ op_local s op = true) -> Step s m op.
  Proof.
    intros R Hw Hs. destruct op.
    - apply step_is_end; assumption.
    - apply step_is_failed; assumption.
    - apply step_get_pos; assumption.
    - apply step_set_pos; assumption.
    - apply step_peek; assumption.
    - apply step_goto; assumption.
    - apply step_read_byte; assumption.
    - apply step_solid; assumption.
    - apply step_chunks; assumption.
  Qed.

  (* no SetPosition of the run needs a seekg on the stream (decided along the run itself) *)
  Fixpoint seek_free (s : bsr) (ops : list bop) : bool :=
    match ops with
    | [] => true
    | op :: ops' =>
      op_local s op &&
      match bsr_step K s op with
      | Ok (_, s') => seek_free s' ops'
      | Fault => true
      end
    end.

  Lemma steps_refine ops : forall s m, Rel s m -> Forall op_sizet ops ->
    (is_seekable (b_is s) = true \/ seek_free s ops = true) ->
    exists rs s', bsr_steps K s ops = Ok (rs, s') /\ mem_accepts K data m ops rs = true /\ Inv0 s'.
  Proof.
    induction ops as [|op ops IH]; intros s m R Hw Hs.
    - exists [], s. splits; try reflexivity. apply R.
    - inversion Hw as [|? ? Hw1 Hw2]; subst.
      assert (Hs1 : is_seekable (b_is s) = true \/ op_local s op = true).
      { destruct Hs as [H|H]; [left; exact H|]. cbn [seek_free] in H. apply andb_true_iff in H. right. apply H. }
      destruct (step_refines s m op R Hw1 (fun _ => Hs1)) as [r [s' [m' [E1 [E2 [R' Sk]]]]]].
      assert (Hs2 : is_seekable (b_is s') = true \/ seek_free s' ops = true).
      { destruct Hs as [H|H]; [left; congruence|]. cbn [seek_free] in H. apply andb_true_iff in H.
        destruct H as [_ H]. rewrite E1 in H. right. exact H. }
      destruct (IH s' m' R' Hw2 Hs2) as [rs [s'' [E3 [E4 I'']]]].
      exists (r :: rs), s''. cbn [bsr_steps]. rewrite E1. cbn [bind fst snd]. rewrite E3. cbn [bind fst snd].
      splits; try reflexivity; try assumption. cbn [mem_accepts]. rewrite E2. exact E4.
  Qed.

  Lemma new_rel seekable : Rel (bsr_new K (stream_of data seekable)) mem_start /\
    is_seekable (b_is (bsr_new K (stream_of data seekable))) = seekable.
  Proof.
    unfold bsr_new.
    set (s0 := mkB (stream_of data seekable) (repeat 0%N K) 0 0 0).
    assert (I0 : Inv0 s0).
    { subst s0. constructor; cbn [b_is b_buf b_start b_end b_spos stream_of is_data is_pos]; try lia; try reflexivity.
      apply repeat_length. }
    destruct (rnc_spec s0 I0) as [A1 [A2 [A3 [_ [_ [_ A7]]]]]].
    assert (G1 : Feof s0) by (subst s0; unfold Feof; cbn; discriminate).
    assert (G2 : Ffail s0) by (subst s0; unfold Ffail; cbn; discriminate).
    destruct (A7 G1 G2) as [B1 [B2 [B3 _]]].
    split; [|rewrite A3; reflexivity].
    split; [exact A1|]. intros _. splits; try assumption. rewrite A2. reflexivity.
  Qed.

  Theorem bsr_run_refines seekable ops : Forall op_sizet ops ->
    (seekable = true \/ seek_free (bsr_new K (stream_of data seekable)) ops = true) ->
    exists rs, bsr_run K (stream_of data seekable) ops = Ok rs /\
               mem_accepts K data mem_start ops rs = true.
  Proof.
    intros Hw Hs. destruct (new_rel seekable) as [R Sk].
    assert (Hs' : is_seekable (b_is (bsr_new K (stream_of data seekable))) = true \/
                  seek_free (bsr_new K (stream_of data seekable)) ops = true).
    { destruct Hs as [H|H]; [left; congruence | right; exact H]. }
    destruct (steps_refine ops _ _ R Hw Hs') as [rs [s' [E1 [E2 _]]]].
    exists rs. unfold bsr_run. rewrite E1. cbn [bind fst]. split; [reflexivity | exact E2].
  Qed.

  (* ---------- on any kind of stream, whatever was refused before: no read outside the window ---------- *)

  Lemma steps_total ops : forall s, Inv0 s -> Forall op_sizet ops ->
    exists rs s', bsr_steps K s ops = Ok (rs, s') /\ Inv0 s'.
  Proof.
    induction ops as [|op ops IH]; intros s I Hw.
    - exists [], s. split; [reflexivity | exact I].
    - inversion Hw as [|? ? Hw1 Hw2]; subst.
      assert (R : Rel s (mkM 0 true)) by (split; [exact I | cbn; discriminate]).
      destruct (step_refines s (mkM 0 true) op R Hw1) as [r [s' [m' [E1 [_ [[I' _] _]]]]]].
      { cbn. discriminate. }
      destruct (IH s' I' Hw2) as [rs [s'' [E3 I'']]].
      exists (r :: rs), s''. cbn [bsr_steps]. rewrite E1. cbn [bind fst snd]. rewrite E3. cbn [bind fst snd].
      split; [reflexivity | exact I''].
  Qed.

  Theorem bsr_run_total seekable ops : Forall op_sizet ops ->
    exists rs, bsr_run K (stream_of data seekable) ops = Ok rs.
  Proof.
    intros Hw. destruct (new_rel seekable) as [[I _] _].
    destruct (steps_total ops _ I Hw) as [rs [s' [E _]]].
    exists rs. unfold bsr_run. rewrite E. reflexivity.
  Qed.

  (* ---------- the callers' ReadByChunks loop delivers exactly the requested bytes ---------- *)

  Lemma blob_spec : forall fuel s rem acc,
    Inv0 s -> Feof s -> Ffail s -> Fend s -> N.to_nat rem < fuel ->
    exists s', Inv0 s' /\ Feof s' /\ Ffail s' /\ Fend s' /\
      is_seekable (b_is s') = is_seekable (b_is s) /\
      if getpos s + N.to_nat rem <=? length data
      then bsr_read_blob K fuel s rem acc = Ok (Some (acc ++ slice data (getpos s) (N.to_nat rem)), s') /\
           getpos s' = getpos s + N.to_nat rem
      else bsr_read_blob K fuel s rem acc = Ok (None, s').
  Proof.
    induction fuel as [|fuel IH]; intros s rem acc I F1 F2 F3 Hf; [lia|].
    cbn [bsr_read_blob]. destruct (N.eqb_spec rem 0) as [E0|E0].
    - subst rem. exists s. cbn [N.to_nat]. rewrite Nat.add_0_r.
      replace (getpos s <=? length data) with true by (symmetry; apply Nat.leb_le; apply getpos_le; exact I).
      rewrite slice_nil, app_nil_r. splits; try assumption; reflexivity.
    - unfold bsr_read_by_chunks.
      destruct (ensure_spec s I) as [A1 [A2 [A3 [A4 A5]]]].
      destruct (A5 F1 F2 F3) as [B1 [B2 [B3 B4]]].
      destruct (bsr_ensure K s) as [ok s1]. cbn [fst snd] in *. destruct ok.
      + pose proof (A4 eq_refl) as Hlt.
        set (k := N.to_nat (N.min (N.of_nat (b_end s1 - b_start s1)) rem)).
        assert (Hk : k <= b_end s1 - b_start s1) by lia.
        assert (Hk0 : 0 < k <= N.to_nat rem) by lia.
        destruct (take_spec s1 k A1 Hk) as [s2 [T1 [T2 [T3 [T4 T5]]]]].
        destruct (T5 B1 B2 B3) as [H1 [H2 H3]].
        rewrite T1. cbn [bind fst snd].
        assert (Hfit : getpos s1 + k <= length data).
        { destruct A1. unfold bsr_get_position in *. lia. }
        destruct (slice data (getpos s1) k) as [|c0 chunk] eqn:Ech.
        { apply (f_equal (@length N)) in Ech. rewrite slice_length in Ech. cbn in Ech. lia. }
        rewrite <- Ech.
        assert (Lk : length (slice data (getpos s1) k) = k) by (rewrite slice_length; lia).
        rewrite Lk.
        destruct (IH s2 (rem - N.of_nat k)%N (acc ++ slice data (getpos s1) k) T2 H1 H2 H3) as [s3 [J1 [J2 [J3 [J4 [J5 J6]]]]]].
        { lia. }
        exists s3. splits; try assumption; try congruence.
        replace (N.to_nat (rem - N.of_nat k)) with (N.to_nat rem - k) in J6 by lia.
        rewrite T3, A2 in J6. rewrite ?A2.
        destruct (getpos s + N.to_nat rem <=? length data) eqn:Efit.
        * apply Nat.leb_le in Efit.
          replace (getpos s + k + (N.to_nat rem - k) <=? length data) with true in J6 by (symmetry; apply Nat.leb_le; lia).
          destruct J6 as [J6 J7]. split; [|lia]. rewrite J6. f_equal. f_equal.
          rewrite <- app_assoc.
          replace (N.to_nat rem) with (k + (N.to_nat rem - k)) at 2 by lia.
          rewrite slice_app_split. reflexivity.
        * apply Nat.leb_gt in Efit.
          replace (getpos s + k + (N.to_nat rem - k) <=? length data) with false in J6 by (symmetry; apply Nat.leb_gt; lia).
          exact J6.
      + cbn [bind fst snd]. exists s1. splits; try assumption.
        replace (getpos s + N.to_nat rem <=? length data) with false
          by (symmetry; apply Nat.leb_gt; rewrite (B4 eq_refl); lia).
        reflexivity.
  Qed.
End BSRP.

(* ---------- closed statements ---------- *)

Definition fits_streamoff (data : list N) : Prop := (N.of_nat (length data) < 0x8000000000000000)%N.

(* C10 / BSR, seekable stream (std::stringstream, std::ifstream, the short-read streambuf): for every
   chunk size, every data, every sequence of the nine operations the reader answers exactly what
   the in-memory reader answers *)
Theorem bsr_refines_seekable K data ops : 0 < K -> fits_streamoff data -> Forall op_sizet ops ->
  exists rs, bsr_run K (stream_of data true) ops = Ok rs /\ mem_accepts K data mem_start ops rs = true.
Proof. intros HK Hl Hw. apply bsr_run_refines; auto. Qed.

(* the same over every kind of stream: false for a streambuf without seek support ... *)
Example bsr_nonseekable_witness :
  bsr_run 4 (stream_of [1;2;3;4;5;6;7;8]%N false) [OSetPos 6; OGetPos] = Ok [RBool false; RPos 0] /\
  mem_accepts 4 [1;2;3;4;5;6;7;8]%N mem_start [OSetPos 6; OGetPos] [RBool false; RPos 0] = false.
Proof. vm_compute. split; reflexivity. Qed.

Theorem bsr_refines_any_stream_refuted :
  ~ (forall K data seekable ops, 0 < K -> fits_streamoff data -> Forall op_sizet ops ->
       exists rs, bsr_run K (stream_of data seekable) ops = Ok rs /\ mem_accepts K data mem_start ops rs = true).
Proof.
  intros H. destruct (H 4 [1;2;3;4;5;6;7;8]%N false [OSetPos 6; OGetPos]) as [rs [E1 E2]].
  - lia.
  - unfold fits_streamoff. cbn. lia.
  - repeat constructor; unfold sizet; lia.
  - destruct bsr_nonseekable_witness as [W1 W2]. rewrite W1 in E1. injection E1 as <-. rewrite W2 in E2. discriminate.
Qed.

(* ... and true outside the defect class: the stream is seekable, or no SetPosition of the run
   leaves the cached window (other than to the current stream position or beyond the end) *)
Theorem bsr_refines_outside K data seekable ops : 0 < K -> fits_streamoff data -> Forall op_sizet ops ->
  (seekable = true \/ seek_free K data (bsr_new K (stream_of data seekable)) ops = true) ->
  exists rs, bsr_run K (stream_of data seekable) ops = Ok rs /\ mem_accepts K data mem_start ops rs = true.
Proof. intros HK Hl Hw Hs. apply bsr_run_refines; auto. Qed.

Theorem bsr_total K data seekable ops : 0 < K -> fits_streamoff data -> Forall op_sizet ops ->
  exists rs, bsr_run K (stream_of data seekable) ops = Ok rs.
Proof. intros HK Hl Hw. apply bsr_run_total; auto. Qed.

(* reading a blob of [n] bytes at position [skip] through the ReadByChunks loop *)
Theorem bsr_blob K data skip n : 0 < K -> fits_streamoff data -> sizet skip -> (skip <= N.of_nat (length data))%N ->
  let s0 := bsr_new K (stream_of data true) in
  let s1 := snd (bsr_set_position K s0 skip) in
  fst (bsr_set_position K s0 skip) = true /\
  exists s2,
    bsr_read_blob K (S (N.to_nat n)) s1 n [] =
      Ok ((if (N.to_nat skip + N.to_nat n <=? length data)%nat
           then Some (slice data (N.to_nat skip) (N.to_nat n)) else None), s2).
Proof.
  intros HK Hl Hp Hle. cbn zeta.
  destruct (new_rel K HK data Hl true) as [R Sk].
  destruct (step_set_pos K HK data Hl _ _ skip R Hp) as [r [s' [m' [E1 [E2 [[I' R'] _]]]]]].
  { intros _. left. exact Sk. }
  cbn [bsr_step] in E1. destruct (bsr_set_position K (bsr_new K (stream_of data true)) skip) as [b s1] eqn:Esp.
  injection E1 as <- <-. cbn [fst snd].
  unfold mem_step in E2. cbn [mem_start m_failed m_pos] in E2.
  replace (skip <=? N.of_nat (length data))%N with true in E2 by (symmetry; apply N.leb_le; exact Hle).
  destruct b; [|discriminate]. injection E2 as <-. split; [reflexivity|].
  destruct (R' eq_refl) as [F1 [F2 [F3 P]]]. cbn [m_pos] in P.
  destruct (blob_spec K HK data Hl (S (N.to_nat n)) s1 n [] I' F1 F2 F3 (Nat.lt_succ_diag_r _)) as [s2 [_ [_ [_ [_ [_ B]]]]]].
  exists s2. rewrite <- P in B. destruct (N.to_nat skip + N.to_nat n <=? length data); [apply B | exact B].
Qed.
