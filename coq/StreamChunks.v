(* StreamChunks.v — C13: the LIST of chunks that successive ReadChunk calls of CEncodedStreamReader deliver (what a
   client that consumes the text chunk by chunk sees, e.g. the CSV stream reader).  For a well-formed text in any of
   the five schemes, every chunk size, target width and BOM choice: every chunk is non-empty and the chunks
   concatenate to the text in the target encoding; then EndFile. *)
From BS Require Import Base UtfSpec UtfModel UtfLemmas UtfProofs UtfOrder
  StreamIStream StreamSpec StreamModel StreamLemmas StreamUnits StreamDetProofs StreamEsrProofs StreamLossless StreamTruncated.
From Coq Require Import ZifyBool ZifyN ZifyNat.
Local Open Scope nat_scope.
Ltac Zify.zify_post_hook ::= Z.div_mod_to_equations.

(* ReadChunk(out) appends to out: the chunk is what was appended.  Result: the chunks delivered with Success up to the
   EndFile answer, and whether IsEnd() was already true after the last of them.  None: DecodeError, fault, no fuel *)
Fixpoint esr_chunks_loop (K : nat) (tgt : width) (pol : policy) (mark : list N) (fuel : nat) (s : esr) (out : list N)
                         (acc : list (list N)) : option (list (list N) * bool) :=
  match fuel with
  | O => None
  | S f =>
    match esr_read_chunk K tgt pol mark s out with
    | Ok (ChSuccess, s1, out1) => esr_chunks_loop K tgt pol mark f s1 out1 (acc ++ [skipn (length out) out1])
    | Ok (ChEndFile, _, _) => Some (acc, esr_is_end s)
    | _ => None
    end
  end.

Definition esr_chunks (K : nat) (tgt : width) (pol : policy) (mark : list N) (fuel : nat) (is0 : istream)
  : option (list (list N) * bool) :=
  match esr_new K is0 with
  | Ok s => esr_chunks_loop K tgt pol mark fuel s [] []
  | _ => None
  end.

(* what has been consumed grows by a non-empty piece *)
Lemma consumed_grow w tgt text m out m' out' : Forall scalar text ->
  Consumed w tgt text m out -> Consumed w tgt text m' out' -> m < m' -> m' <= length (encs w text) ->
  exists c, c <> [] /\ out' = out ++ c.
Proof.
  intros Hs HC HC' Hlt Hle. unfold Consumed in *. destruct (width_eqb w tgt).
  - destruct HC as [_ ->]. destruct HC' as [_ ->].
    exists (firstn (m' - m) (skipn m (encs w text))). split.
    + intros H. apply (f_equal (@length N)) in H. rewrite firstn_length, skipn_length in H. cbn in H. lia.
    + replace m' with (m + (m' - m)) at 1 by lia. apply firstn_add_split.
  - destruct HC as [j [Hj [Em ->]]]. destruct HC' as [j' [Hj' [Em' ->]]].
    assert (Hjj : j < j').
    { destruct (Nat.lt_trichotomy j j') as [H|[H|H]]; [exact H | subst j'; lia |].
      pose proof (encs_firstn_mono w text j' j H Hj). lia. }
    exists (encs tgt (firstn (j' - j) (skipn j text))). split.
    + intros H. pose proof (encs_firstn_mono tgt text j j' Hjj Hj') as Hm.
      replace j' with (j + (j' - j)) in Hm by lia. rewrite firstn_add_split, encs_app, app_length, H in Hm. cbn in Hm. lia.
    + replace j' with (j + (j' - j)) at 1 by lia. rewrite firstn_add_split, encs_app. reflexivity.
Qed.

Section CHUNKS.
  Variable K : nat.
  Hypothesis HK4 : K mod 4 = 0.
  Hypothesis HK32 : 32 <= K.
  Variable tgt : width.
  Variable pol : policy.
  Variable mark : list N.
  Variable e : utftype.
  Variable b : bool.
  Variable text : list N.
  Hypothesis Hs : Forall scalar text.

  Lemma LInv_rem s out : LInv K tgt e b text s out ->
    exists m, m <= length (encs (utf_width e) text) /\ Consumed (utf_width e) tgt text m out /\
      remaining (with_bom b e text) s = unit_size (utf_width e) * (length (encs (utf_width e) text) - m).
  Proof.
    intros [_ [_ [m [Hm [HC HB]]]]]. exists m. split; [exact Hm|]. split; [exact HC|].
    unfold remaining. rewrite <- app_length, HB. apply rest_bytes_length.
  Qed.

  Lemma chunks_loop_lossless : forall fuel s out acc, LInv K tgt e b text s out ->
    remaining (with_bom b e text) s < fuel ->
    exists chunks early, esr_chunks_loop K tgt pol mark fuel s out acc = Some (acc ++ chunks, early) /\
      Forall (fun c => c <> []) chunks /\ out ++ concat chunks = encs tgt text.
  Proof.
    induction fuel as [|fuel IH]; intros s out acc L Hf; [lia|].
    cbn [esr_chunks_loop]. destruct (read_chunk_lossless K HK4 HK32 tgt pol mark e b text Hs s out L) as [H0 H1].
    destruct (LInv_rem s out L) as [m [Hm [HC Hr]]].
    assert (Hu1 : 1 <= unit_size (utf_width e)) by (destruct (utf_width e); cbn; lia).
    destruct (Nat.eq_dec (remaining (with_bom b e text) s) 0) as [Hz|Hnz].
    - destruct (H0 Hz) as [s' [E _]]. rewrite E. exists [], (esr_is_end s). rewrite !app_nil_r.
      split; [reflexivity|]. split; [constructor|].
      assert (m = length (encs (utf_width e) text)) by nia. subst m.
      apply (consumed_end (utf_width e) tgt text out Hs HC).
    - destruct (H1 ltac:(lia)) as [s' [out' [E [L' Hlt]]]]. rewrite E.
      destruct (LInv_rem s' out' L') as [m' [Hm' [HC' Hr']]].
      destruct (consumed_grow _ _ _ _ _ _ _ Hs HC HC' ltac:(nia) Hm') as [c [Hc ->]].
      rewrite skipn_app_exact.
      destruct (IH s' (out ++ c) (acc ++ [c]) L' ltac:(lia)) as [chunks [early [Ek [F C]]]].
      exists (c :: chunks), early. rewrite Ek, <- app_assoc. split; [reflexivity|].
      split; [constructor; assumption|]. cbn [concat]. rewrite app_assoc. exact C.
  Qed.

  Hypothesis Hdet : detectable b text.
  Hypothesis Hnd : stream_defect e b text = false.

  Theorem esr_chunks_lossless sk fuel : length (with_bom b e text) < fuel ->
    exists chunks early, esr_chunks K tgt pol mark fuel (stream_of (with_bom b e text) sk) = Some (chunks, early) /\
      Forall (fun c => c <> []) chunks /\ concat chunks = encs tgt text.
  Proof.
    intros Hf. unfold esr_chunks.
    assert (Hdata : bytes (with_bom b e text)).
    { unfold with_bom. apply Forall_app. split; [destruct b; [apply bom_bytes | constructor]|]. apply text_bytes_bytes. exact Hs. }
    destruct (new_spec K HK4 HK32 _ Hdata sk) as [s0 [E [I0 [Hr [_ Hne]]]]]. rewrite E.
    destruct (data_detect K HK4 HK32 e b text Hs Hdet Hnd) as [Hd Hdt].
    destruct (Hne Hd) as [e' [off [Ed [Ety Hw]]]].
    rewrite Hdt in Ed. injection Ed as <- <-.
    assert (L0 : LInv K tgt e b text s0 []).
    { split; [exact I0|]. split; [exact Ety|]. exists 0. split; [lia|]. split; [apply consumed_start|].
      rewrite Hw. unfold rest_bytes. cbn [skipn]. unfold with_bom. rewrite skipn_app_exact. reflexivity. }
    destruct (chunks_loop_lossless fuel s0 [] [] L0 ltac:(lia)) as [chunks [early [Ek [F C]]]].
    exists chunks, early. split; [exact Ek|]. split; [exact F | exact C].
  Qed.
End CHUNKS.

(* "a;€" + LF in UTF-16BE with BOM, K = 32, to char: one chunk; 40 ASCII characters in UTF-32LE: windows of 8 characters *)
Example esr_chunks_example :
  esr_chunks 32 W8 Skip [0x3F]%N 100 (stream_of (with_bom true Utf16be [0x61; 0x3B; 0x20AC; 0x0A]%N) true)
    = Some ([[0x61; 0x3B; 0xE2; 0x82; 0xAC; 0x0A]%N], true) /\
  esr_chunks 32 W8 Skip [0x3F]%N 100 (stream_of (with_bom false Utf32le (repeat 0x61%N 12)) true)
    = Some ([repeat 0x61%N 8; repeat 0x61%N 4], true).
Proof. vm_compute. split; reflexivity. Qed.
