(* StreamDecoded.v — C13, ill-formed text: the decoding of a unit sequence as a relation (one rule per iteration of
   the Transcode loop), its stability under extension of the input (a decision taken inside a window does not
   depend on what follows the window), and what it says in terms of the utf family's specifications
   (skip_spec, UtfSpec.v; the well-formed prefix for ThrowError). *)
From BS Require Import Base UtfSpec UtfModel UtfLemmas UtfProofs.
From Coq Require Import ZifyBool ZifyN ZifyNat.
Local Open Scope nat_scope.
Ltac Zify.zify_post_hook ::= Z.div_mod_to_equations.

(* ---------- a decision of the decoders is stable under extension of the input ---------- *)

Lemma tails_loop_ext n : forall t x sym w r, tails_loop n t sym w = Some r ->
  tails_loop n (t ++ x) sym w = Some r /\ n <= length t.
Proof.
  induction n as [|n IH]; intros t x sym w r H; cbn [tails_loop] in *.
  - split; [exact H | lia].
  - destruct t as [|b t]; [discriminate|]. cbn [app length].
    destruct w.
    + destruct (IH t x sym true r H) as [E L]. split; [exact E | lia].
    + destruct (N.land b 0xC0 =? 0x80)%N.
      * destruct (IH t x _ false r H) as [E L]. split; [exact E | lia].
      * destruct (IH t x sym true r H) as [E L]. split; [exact E | lia].
Qed.

Definition dres_len (r : dres) : nat := match r with DOk _ n => n | DBad n => n | DTrunc => 0 end.

Lemma dec8_ext l x r : dec8 l = r -> r <> DTrunc -> dec8 (l ++ x) = r /\ dres_len r <= length l.
Proof.
  intros H Hr. destruct l as [|b0 t]; [cbn in H; congruence|]. cbn [app]. unfold dec8 in *.
  destruct (N.land b0 0x80 =? 0)%N.
  - subst r. split; [reflexivity | cbn; lia].
  - destruct (classify8 b0) as [[[n sym0] minSym] w0].
    destruct (tails_loop n t sym0 w0) as [[sym wrong]|] eqn:E; [|congruence].
    destruct (tails_loop_ext n t x sym0 w0 _ E) as [E' L]. rewrite E'.
    split; [exact H|]. subst r.
    destruct (wrong || (sym <? minSym)%N || (1114111 <? sym)%N || in_surr sym); cbn [dres_len length]; lia.
Qed.

Lemma dec16_ext l x r : dec16 l = r -> r <> DTrunc -> dec16 (l ++ x) = r /\ dres_len r <= length l.
Proof.
  intros H Hr. destruct l as [|s t]; [cbn in H; congruence|]. cbn [app]. unfold dec16 in *.
  destruct (in_surr s).
  - destruct (0xDC00 <=? s)%N.
    + subst r. split; [reflexivity | cbn; lia].
    + destruct t as [|low t']; [congruence|]. cbn [app].
      split; [exact H|]. subst r. destruct ((0xDC00 <=? low)%N && (low <=? 0xDFFF)%N); cbn; lia.
  - subst r. split; [reflexivity | cbn; lia].
Qed.

Lemma dec32_ext l x r : dec32 l = r -> r <> DTrunc -> dec32 (l ++ x) = r /\ dres_len r <= length l.
Proof.
  intros H Hr. destruct l as [|s t]; [cbn in H; congruence|]. cbn [app]. unfold dec32 in *.
  split; [exact H|]. subst r. destruct (in_surr s || (1114111 <? s)%N); cbn; lia.
Qed.

Lemma decf_ext src l x r : decf src l = r -> r <> DTrunc -> decf src (l ++ x) = r /\ dres_len r <= length l.
Proof. destruct src; [apply dec8_ext | apply dec16_ext | apply dec32_ext]. Qed.

(* ---------- the decoding relation ---------- *)

Section Decoded.
  Variables src dst : width.
  Variable pol : policy.
  Variable mark : list N.

  (* decoded inp o rest c: the loop turns inp into o, stops with code c, leaving rest undecoded *)
  Inductive decoded : list N -> list N -> list N -> code -> Prop :=
  | dc_nil : decoded [] [] [] Success
  | dc_ok inp sym n o rest c : inp <> [] -> decf src inp = DOk sym n ->
      decoded (skipn n inp) o rest c -> decoded inp (encf src dst sym ++ o) rest c
  | dc_bad_skip inp n o rest c : pol = Skip -> inp <> [] -> decf src inp = DBad n ->
      decoded (skipn n inp) o rest c -> decoded inp (mark ++ o) rest c
  | dc_bad_throw inp n : pol = ThrowError -> inp <> [] -> decf src inp = DBad n ->
      decoded inp [] inp InvalidSequence
  | dc_trunc inp : inp <> [] -> decf src inp = DTrunc -> decoded inp [] inp UnexpectedEnd.

  Notation L := (loop (decf src) (encf src dst) (trunc_cnt src dst) pol mark).

  (* the loop computes the relation: fuel S (length inp) suffices, the count plays no role *)
  Lemma loop_decoded : forall fuel inp pos cnt out, units src inp -> length inp < fuel ->
    exists o rest pre, decoded inp o rest (r_code (L fuel inp pos cnt out)) /\ inp = pre ++ rest /\
      r_out (L fuel inp pos cnt out) = out ++ o /\ r_pos (L fuel inp pos cnt out) = pos + length pre.
  Proof.
    induction fuel as [|fuel IH]; intros inp pos cnt out Hu Hf; [lia|].
    cbn [loop]. destruct inp as [|x xs] eqn:Einp.
    { exists [], [], []. cbn [r_code r_out r_pos app length]. rewrite app_nil_r, Nat.add_0_r.
      split; [constructor | repeat split]. }
    rewrite <- Einp in *. assert (Hnil : inp <> []) by (rewrite Einp; discriminate). clear x xs Einp.
    destruct (decf src inp) as [sym k|k|] eqn:ED.
    - destruct (decf_sound src inp sym k Hu ED) as [Hsym [Hinp Hk]].
      pose proof (enc_len_pos src sym) as Hp.
      assert (Hlen : length inp = k + length (skipn k inp)).
      { rewrite Hinp at 1. rewrite app_length. lia. }
      destruct (IH (skipn k inp) (pos + k) cnt (out ++ encf src dst sym)) as [o [rest [pre [D [E1 [E2 E3]]]]]].
      { apply units_skipn. exact Hu. } { lia. }
      exists (encf src dst sym ++ o), rest, (firstn k inp ++ pre). split; [|split; [|split]].
      + eapply dc_ok; eassumption.
      + rewrite <- app_assoc, <- E1. symmetry. apply firstn_skipn.
      + rewrite E2, app_assoc. reflexivity.
      + rewrite E3, app_length, firstn_length. lia.
    - destruct (decf_bad src inp k Hu ED) as [Hk1 Hk2].
      destruct pol eqn:Epol.
      + assert (Hlen : length inp = k + length (skipn k inp)).
        { rewrite <- (firstn_skipn k inp) at 1. rewrite app_length, firstn_length. lia. }
        destruct (IH (skipn k inp) (pos + k) (S cnt) (out ++ mark)) as [o [rest [pre [D [E1 [E2 E3]]]]]].
        { apply units_skipn. exact Hu. } { lia. }
        exists (mark ++ o), rest, (firstn k inp ++ pre). split; [|split; [|split]].
        * eapply dc_bad_skip; eassumption.
        * rewrite <- app_assoc, <- E1. symmetry. apply firstn_skipn.
        * rewrite E2, app_assoc. reflexivity.
        * rewrite E3, app_length, firstn_length. lia.
      + exists [], inp, []. cbn [r_code r_out r_pos app length]. rewrite app_nil_r, Nat.add_0_r.
        split; [|repeat split]. eapply dc_bad_throw; eassumption.
    - exists [], inp, []. cbn [r_code r_out r_pos app length]. rewrite app_nil_r, Nat.add_0_r.
      split; [|repeat split]. apply dc_trunc; assumption.
  Qed.

  (* what is left undecoded is a suffix; nothing is left after Success *)
  Lemma decoded_success inp o rest : decoded inp o rest Success -> rest = [].
  Proof.
    intros H. remember Success as c eqn:Ec. induction H; try reflexivity; try discriminate; auto.
  Qed.

  (* what is left is a suffix of the input *)
  Lemma decoded_suffix inp o rest c : decoded inp o rest c -> exists p, inp = p ++ rest.
  Proof.
    intros H. induction H as [|inp sym n o rest c Hne ED H IH|inp n o rest c Hp Hne ED H IH|inp n Hp Hne ED|inp Hne ED].
    - exists []. reflexivity.
    - destruct IH as [p Ep]. exists (firstn n inp ++ p). rewrite <- app_assoc, <- Ep. symmetry. apply firstn_skipn.
    - destruct IH as [p Ep]. exists (firstn n inp ++ p). rewrite <- app_assoc, <- Ep. symmetry. apply firstn_skipn.
    - exists []. reflexivity.
    - exists []. reflexivity.
  Qed.

  (* an uncompleted sequence is what is left after UnexpectedEnd *)
  Lemma decoded_unexpected inp o rest : decoded inp o rest UnexpectedEnd -> rest <> [] /\ decf src rest = DTrunc.
  Proof.
    intros H. remember UnexpectedEnd as c eqn:Ec. induction H; try discriminate; auto.
  Qed.

  (* a window followed by more input: what the window decided stays decided *)
  Lemma decoded_app A oA rA cA B : decoded A oA rA cA ->
    (cA <> InvalidSequence -> forall o2 r2 c2, decoded (rA ++ B) o2 r2 c2 -> decoded (A ++ B) (oA ++ o2) r2 c2) /\
    (cA = InvalidSequence -> decoded (A ++ B) oA (rA ++ B) InvalidSequence).
  Proof.
    intros H. induction H as [|inp sym n o rest c Hne ED H IH|inp n o rest c Hp Hne ED H IH|inp n Hp Hne ED|inp Hne ED].
    - split; [intros _ o2 r2 c2 H2; exact H2 | discriminate].
    - destruct (decf_ext src inp B _ ED ltac:(discriminate)) as [ED' Hl]. cbn [dres_len] in Hl.
      assert (Hsk : skipn n (inp ++ B) = skipn n inp ++ B).
      { rewrite skipn_app. replace (n - length inp) with 0 by lia. reflexivity. }
      assert (Hne' : inp ++ B <> []) by (destruct inp; [congruence | discriminate]).
      destruct IH as [IH1 IH2]. split.
      + intros Hc o2 r2 c2 H2. rewrite <- app_assoc. eapply dc_ok; try eassumption. rewrite Hsk. apply IH1; assumption.
      + intros Hc. eapply dc_ok; try eassumption. rewrite Hsk. apply IH2; assumption.
    - destruct (decf_ext src inp B _ ED ltac:(discriminate)) as [ED' Hl]. cbn [dres_len] in Hl.
      assert (Hsk : skipn n (inp ++ B) = skipn n inp ++ B).
      { rewrite skipn_app. replace (n - length inp) with 0 by lia. reflexivity. }
      assert (Hne' : inp ++ B <> []) by (destruct inp; [congruence | discriminate]).
      destruct IH as [IH1 IH2]. split.
      + intros Hc o2 r2 c2 H2. rewrite <- app_assoc. eapply dc_bad_skip; try eassumption. rewrite Hsk. apply IH1; assumption.
      + intros Hc. eapply dc_bad_skip; try eassumption. rewrite Hsk. apply IH2; assumption.
    - destruct (decf_ext src inp B _ ED ltac:(discriminate)) as [ED' Hl].
      assert (Hne' : inp ++ B <> []) by (destruct inp; [congruence | discriminate]).
      split; [congruence|]. intros _. eapply dc_bad_throw; eassumption.
    - split; [|discriminate]. intros _ o2 r2 c2 H2. exact H2.
  Qed.

  (* the relation is a function of the input *)
  Lemma decoded_fun inp o rest c : decoded inp o rest c ->
    forall o' rest' c', decoded inp o' rest' c' -> o = o' /\ rest = rest' /\ c = c'.
  Proof.
    intros H. induction H as [|inp sym n o rest c Hne ED H IH|inp n o rest c Hp Hne ED H IH|inp n Hp Hne ED|inp Hne ED];
      intros o' rest' c' H'; inversion H'; subst; try congruence; try (repeat split; reflexivity).
    - match goal with E : decf src inp = DOk ?s ?k |- _ => rewrite ED in E; injection E as <- <- end.
      match goal with D : decoded (skipn n inp) _ _ _ |- _ => destruct (IH _ _ _ D) as [-> [-> ->]] end.
      repeat split; reflexivity.
    - match goal with E : decf src inp = DBad ?k |- _ => rewrite ED in E; injection E as <- end.
      match goal with D : decoded (skipn n inp) _ _ _ |- _ => destruct (IH _ _ _ D) as [-> [-> ->]] end.
      repeat split; reflexivity.
  Qed.

  (* the codes the two policies can end with *)
  Lemma decoded_code inp o rest c : decoded inp o rest c ->
    match pol with
    | Skip => c = Success \/ c = UnexpectedEnd
    | ThrowError => c = Success \/ c = UnexpectedEnd \/ c = InvalidSequence
    end.
  Proof.
    intros H. induction H; try assumption.
    - destruct pol; tauto.
    - subst pol. tauto.
    - destruct pol; tauto.
  Qed.
End Decoded.


(* ---------- in terms of the specifications ---------- *)

(* Skip: the output - extended by one more mark when the input ends inside a sequence - is the input with each
   ill-formed sequence replaced by the mark, the well-formed text preserved (skip_spec, UtfSpec.v) *)
Lemma decoded_skip_spec src dst mark : src <> dst -> forall inp o rest c,
  units src inp -> decoded src dst Skip mark inp o rest c ->
  exists n, skip_spec src dst mark inp (o ++ match c with UnexpectedEnd => mark | _ => [] end) n.
Proof.
  intros Hne inp o rest c Hu H.
  induction H as [|inp sym k o rest c Hnil ED H IH|inp k o rest c Hp Hnil ED H IH|inp k Hp Hnil ED|inp Hnil ED].
  - exists 0. constructor.
  - destruct (decf_sound src inp sym k Hu ED) as [Hsym [Hinp Hk]].
    destruct (IH (units_skipn _ _ _ Hu)) as [n Hn]. exists n.
    rewrite Hinp at 1. rewrite <- app_assoc, encf_spec by assumption. apply ss_good; assumption.
  - destruct (decf_bad src inp k Hu ED) as [Hk1 Hk2].
    destruct (IH (units_skipn _ _ _ Hu)) as [n Hn]. exists (S n).
    rewrite <- (firstn_skipn k inp) at 1. rewrite <- app_assoc. apply ss_bad; [rewrite firstn_length; lia| |exact Hn].
    rewrite firstn_skipn. apply no_good_prefix; [exact Hu | right; exists k; exact ED].
  - discriminate.
  - exists 1. cbn [app].
    assert (G : skip_spec src dst mark (inp ++ []) (mark ++ []) 1); [|rewrite !app_nil_r in G; exact G].
    apply ss_bad; [| |constructor].
    + pose proof (decf_trunc src inp Hu ED). destruct inp; [congruence | cbn [length] in *; lia].
    + rewrite app_nil_r. apply no_good_prefix; [exact Hu | left; exact ED].
Qed.

(* ThrowError: the output is the target encoding of the longest well-formed prefix that the decoder walks through;
   what is left starts with an ill-formed (InvalidSequence) or incomplete (UnexpectedEnd) sequence *)
Lemma decoded_throw_spec src dst mark : src <> dst -> forall inp o rest c,
  units src inp -> decoded src dst ThrowError mark inp o rest c ->
  exists cps, Forall scalar cps /\ inp = encs src cps ++ rest /\ o = encs dst cps /\
    (c = Success -> rest = []) /\
    (c <> Success -> rest <> [] /\ forall s, scalar s -> ~ is_prefix (enc src s) rest).
Proof.
  intros Hne inp o rest c Hu H.
  induction H as [|inp sym k o rest c Hnil ED H IH|inp k o rest c Hp Hnil ED H IH|inp k Hp Hnil ED|inp Hnil ED].
  - exists []. repeat split; try constructor; try reflexivity; congruence.
  - destruct (decf_sound src inp sym k Hu ED) as [Hsym [Hinp Hk]].
    destruct (IH (units_skipn _ _ _ Hu)) as [cps [Hs [E1 [E2 [E3 E4]]]]].
    exists (sym :: cps). split; [constructor; assumption|]. split; [|split; [|split]].
    + change (encs src (sym :: cps)) with (enc src sym ++ encs src cps). rewrite <- app_assoc, <- E1. exact Hinp.
    + change (encs dst (sym :: cps)) with (enc dst sym ++ encs dst cps). rewrite encf_spec by assumption. rewrite E2. reflexivity.
    + exact E3.
    + exact E4.
  - discriminate.
  - exists []. cbn [encs flat_map app]. repeat split; try constructor; try congruence.
    apply no_good_prefix; [exact Hu | right; exists k; exact ED].
  - exists []. cbn [encs flat_map app]. repeat split; try constructor; try congruence.
    apply no_good_prefix; [exact Hu | left; exact ED].
Qed.
