(* StreamDetAt.v — C13, DetectEncoding(std::istream&, skipBomWhenFound) on a stream the caller has already read from:
   the verdict is the one of the 128 bytes that follow the get position, and the stream is left good at that position
   (skipBomWhenFound = false) or just behind the BOM found there (true) — relative to where the stream stood, not to
   its beginning.  detect_stream_spec (StreamDetProofs.v) is the instance p = 0. *)
From BS Require Import Base UtfSpec UtfModel UtfLemmas UtfProofs UtfOrder StreamIStream StreamSpec StreamModel StreamLemmas StreamUnits StreamDetProofs.
From Coq Require Import ZifyBool ZifyN ZifyNat.
Local Open Scope N_scope.
Ltac Zify.zify_post_hook ::= Z.div_mod_to_equations.

(* a good seekable stream over data whose get position is p *)
Definition stream_at (data : list N) (p : nat) : istream := mkIS data p false false true 0.

Theorem detect_stream_at skip data p : (p <= length data)%nat ->
  exists e off, detect (firstn 128 (skipn p data)) = Ok (e, off) /\
    exists s', detect_stream skip (stream_at data p) = Ok (e, s') /\
      is_data s' = data /\ is_eof s' = false /\ is_fail s' = false /\
      is_pos s' = (p + (if skip then off else 0))%nat.
Proof.
  intros Hp.
  destruct (detect_ok (firstn 128 (skipn p data))) as [e [off [E [Hoff _]]]].
  exists e, off. split; [exact E|].
  unfold detect_stream. cbn [is_tellg stream_at is_sentry is_good is_eof is_fail negb andb is_seekable is_pos].
  pose proof (is_read_spec 128 (stream_at data p)) as R. cbn zeta in R.
  change (is_good (stream_at data p)) with true in R. cbn iota in R.
  destruct (is_read 128 (mkIS data p false false true 0)) as [got s2] eqn:ER.
  change (mkIS data p false false true 0) with (stream_at data p) in ER. rewrite ER in R. cbn [fst snd] in R.
  rewrite ER.
  destruct R as [R1 [R2 [R3 [R4 R5]]]]. cbn [stream_at is_data is_pos] in R1, R2.
  assert (Eg : got = firstn 128 (skipn p data)) by (rewrite R1; reflexivity).
  rewrite Eg in *. rewrite E. cbn [bind fst snd].
  pose proof (is_read_data 128 (stream_at data p)) as RD. rewrite ER in RD. cbn [snd stream_at is_data] in RD.
  pose proof (is_read_seekable 128 (stream_at data p)) as RS. rewrite ER in RS. cbn [snd stream_at is_seekable] in RS.
  rewrite firstn_length, skipn_length in *.
  set (s3 := if is_eof s2 then is_clear s2 else s2).
  assert (H3 : is_data s3 = data /\ is_seekable s3 = true /\ is_pos s3 = (p + Nat.min 128 (length data - p))%nat /\
               is_eof s3 = false /\ is_fail s3 = false).
  { subst s3. destruct (is_eof s2) eqn:Ee.
    - unfold is_clear. cbn. repeat split; try assumption; try lia.
    - repeat split; try assumption; try lia. rewrite R5, <- R4. reflexivity. }
  destruct H3 as [D3 [S3 [P3 [E3 F3]]]]. rewrite R3.
  assert (Hseek : forall z q, z = Z.of_nat q -> (q <= length data)%nat ->
            let s' := is_seekg z s3 in
            is_data s' = data /\ is_eof s' = false /\ is_fail s' = false /\ is_pos s' = q).
  { intros z q -> Hq. unfold is_seekg, is_sentry, is_good, is_set_fail. cbn. rewrite F3, S3, D3. cbn.
    replace (0 <=? Z.of_nat q)%Z with true by lia. replace (Z.of_nat q <=? Z.of_nat (length data))%Z with true by lia.
    cbn. repeat split; try assumption. lia. }
  destruct skip.
  - destruct (Nat.min 128 (length data - p) =? off)%nat eqn:En; cbn [negb].
    + apply Nat.eqb_eq in En. eexists. split; [reflexivity|]. repeat split; try assumption. lia.
    + destruct (Hseek (Z.of_nat p + Z.of_nat off)%Z (p + off)%nat) as [A [B [C D]]]; [lia | lia |].
      eexists. split; [reflexivity|]. repeat split; assumption.
  - destruct (Hseek (Z.of_nat p) p) as [A [B [C D]]]; [lia | lia |].
    eexists. split; [reflexivity|]. repeat split; try assumption. lia.
Qed.

(* reading p bytes from a fresh seekable stream (what a caller does before handing the stream over) gives stream_at *)
Lemma read_gives_stream_at data p : (p <= length data)%nat ->
  let s := snd (is_read p (stream_of data true)) in
  is_data s = data /\ is_pos s = p /\ is_eof s = false /\ is_fail s = false /\ is_seekable s = true.
Proof.
  intros Hp. pose proof (is_read_spec p (stream_of data true)) as R. cbn zeta in R.
  change (is_good (stream_of data true)) with true in R. cbn iota in R.
  destruct R as [R1 [R2 [R3 [R4 R5]]]]. cbn [stream_of is_data is_pos] in R1, R2.
  pose proof (is_read_data p (stream_of data true)) as RD. pose proof (is_read_seekable p (stream_of data true)) as RS.
  cbn [stream_of is_data is_seekable] in RD, RS.
  assert (L : length (fst (is_read p (stream_of data true))) = p).
  { rewrite R1. unfold slice. rewrite firstn_length, skipn_length. cbn. lia. }
  cbn zeta. rewrite L in *. rewrite Nat.eqb_refl in *. cbn in R4, R5.
  repeat split; assumption.
Qed.
