(* StreamDetProofs.v — C13, DetectEncoding: BOM recognition, BOM-less recognition, the stream overload. *)
From BS Require Import Base UtfSpec UtfModel UtfLemmas UtfProofs UtfOrder StreamIStream StreamSpec StreamModel StreamLemmas StreamUnits.
From Coq Require Import ZifyBool ZifyN ZifyNat.
Local Open Scope N_scope.
Ltac Zify.zify_post_hook ::= Z.div_mod_to_equations.

(* ---------- the two probes, arithmetically ---------- *)

Lemma land_FF00 b0 b1 : b0 < 256 -> b1 < 256 -> N.land (le16 b0 b1) 0xFF00 = b1 * 256.
Proof.
  intros H0 H1. unfold le16.
  assert (E8 : 2 ^ 8 = 256) by reflexivity.
  replace (b0 + 256 * b1) with (b1 * 2 ^ 8 + b0) by lia.
  change 0xFF00 with (255 * 2 ^ 8 + 0). rewrite land_split by lia.
  rewrite N.land_0_r. change 255 with (N.ones 8). rewrite land_mask. lia.
Qed.

Lemma land_00FF b0 b1 : b0 < 256 -> b1 < 256 -> N.land (le16 b0 b1) 0x00FF = b0.
Proof.
  intros H0 H1. unfold le16. change 0x00FF with (N.ones 8). rewrite land_mask.
  assert (E8 : 2 ^ 8 = 256) by reflexivity. lia.
Qed.

Lemma land_FFFF0000 b0 b1 b2 b3 : b0 < 256 -> b1 < 256 -> b2 < 256 -> b3 < 256 ->
  N.land (le32 b0 b1 b2 b3) 0xFFFF0000 = (b2 + 256 * b3) * 65536.
Proof.
  intros H0 H1 H2 H3. unfold le32.
  assert (E16 : 2 ^ 16 = 65536) by reflexivity.
  replace (b0 + 256 * b1 + 65536 * b2 + 16777216 * b3) with ((b2 + 256 * b3) * 2 ^ 16 + (b0 + 256 * b1)) by lia.
  change 0xFFFF0000 with (65535 * 2 ^ 16 + 0). rewrite land_split by lia.
  rewrite N.land_0_r. change 65535 with (N.ones 16). rewrite land_mask. lia.
Qed.

Lemma land_0000FFFF b0 b1 b2 b3 : b0 < 256 -> b1 < 256 -> b2 < 256 -> b3 < 256 ->
  N.land (le32 b0 b1 b2 b3) 0x0000FFFF = b0 + 256 * b1.
Proof.
  intros H0 H1 H2 H3. unfold le32. change 0x0000FFFF with (N.ones 16). rewrite land_mask.
  assert (E16 : 2 ^ 16 = 65536) by reflexivity. lia.
Qed.

Lemma probe16_spec b0 b1 : b0 < 256 -> b1 < 256 ->
  probe16 (le16 b0 b1) =
    if (b0 =? 0) && (b1 =? 0) then None
    else if b1 =? 0 then Some Utf16le
    else if b0 =? 0 then Some Utf16be else None.
Proof.
  intros H0 H1. unfold probe16. rewrite land_FF00, land_00FF by assumption. unfold le16.
  destruct (N.eqb_spec b0 0), (N.eqb_spec b1 0); subst; cbn [andb];
    repeat match goal with |- context [(?a =? 0)] => destruct (N.eqb_spec a 0); try lia end; reflexivity.
Qed.

Lemma probe32_spec b0 b1 b2 b3 : b0 < 256 -> b1 < 256 -> b2 < 256 -> b3 < 256 ->
  probe32 (le32 b0 b1 b2 b3) =
    if (b0 =? 0) && (b1 =? 0) && (b2 =? 0) && (b3 =? 0) then None
    else if (b2 =? 0) && (b3 =? 0) then Some Utf32le
    else if (b0 =? 0) && (b1 =? 0) then Some Utf32be else None.
Proof.
  intros H0 H1 H2 H3. unfold probe32. rewrite land_FFFF0000, land_0000FFFF by assumption. unfold le32.
  destruct (N.eqb_spec b0 0), (N.eqb_spec b1 0), (N.eqb_spec b2 0), (N.eqb_spec b3 0); subst; cbn [andb];
    repeat match goal with |- context [(?a =? 0)] => destruct (N.eqb_spec a 0); try lia end; reflexivity.
Qed.

(* ---------- the scan never reads beyond the input ---------- *)

Lemma det_scan_ok : forall l i size, (i + length l = size)%nat -> exists e, det_scan i size l = Ok e.
Proof.
  induction l as [|b0 t IH]; intros i size H; [exists Utf8; reflexivity|].
  cbn [det_scan length] in *.
  assert (H32 : exists r, (if ((i mod 4 =? 0)%nat && (i + 4 <=? size)%nat)%bool
                 then match t with b1 :: b2 :: b3 :: _ => Ok (probe32 (le32 b0 b1 b2 b3)) | _ => Fault end
                 else Ok None) = Ok r).
  { destruct ((i mod 4 =? 0)%nat && (i + 4 <=? size)%nat)%bool eqn:E; [|eexists; reflexivity].
    apply andb_true_iff in E. destruct E as [_ E]. apply Nat.leb_le in E.
    destruct t as [|b1 [|b2 [|b3 t']]]; cbn [length] in H; try lia. eexists; reflexivity. }
  destruct H32 as [r32 ->]. cbn [bind]. destruct r32 as [e|]; [exists e; reflexivity|].
  assert (H16 : exists r, (if ((i mod 2 =? 0)%nat && (i + 2 <=? size)%nat)%bool
                 then match t with b1 :: _ => Ok (probe16 (le16 b0 b1)) | _ => Fault end
                 else Ok None) = Ok r).
  { destruct ((i mod 2 =? 0)%nat && (i + 2 <=? size)%nat)%bool eqn:E; [|eexists; reflexivity].
    apply andb_true_iff in E. destruct E as [_ E]. apply Nat.leb_le in E.
    destruct t as [|b1 t']; cbn [length] in H; try lia. eexists; reflexivity. }
  destruct H16 as [r16 ->]. cbn [bind]. destruct r16 as [e|]; [exists e; reflexivity|].
  apply IH. lia.
Qed.

Theorem detect_ok inp : exists e off, detect inp = Ok (e, off) /\ (off <= length inp)%nat /\ (off <= 4)%nat.
Proof.
  unfold detect. destruct inp as [|b0 t]; [exists Utf8, 0%nat; repeat split; lia|].
  remember (b0 :: t) as inp eqn:Ei.
  assert (Hsw : forall p, starts_with p inp = true -> (length p <= length inp)%nat).
  { clear. intros p. revert inp. induction p as [|x p IH]; intros inp H; [cbn; lia|].
    destruct inp as [|y inp]; [discriminate|]. cbn in H. apply andb_true_iff in H. destruct H as [_ H].
    apply IH in H. cbn. lia. }
  destruct (starts_with (bom Utf8) inp) eqn:E1; [apply Hsw in E1; exists Utf8, 3%nat; repeat split; cbn in *; lia|].
  destruct (starts_with (bom Utf32le) inp) eqn:E2; [apply Hsw in E2; exists Utf32le, 4%nat; repeat split; cbn in *; lia|].
  destruct (starts_with (bom Utf32be) inp) eqn:E3; [apply Hsw in E3; exists Utf32be, 4%nat; repeat split; cbn in *; lia|].
  destruct (starts_with (bom Utf16le) inp) eqn:E4; [apply Hsw in E4; exists Utf16le, 2%nat; repeat split; cbn in *; lia|].
  destruct (starts_with (bom Utf16be) inp) eqn:E5; [apply Hsw in E5; exists Utf16be, 2%nat; repeat split; cbn in *; lia|].
  destruct (det_scan_ok inp 0 (length inp) eq_refl) as [e ->]. cbn [bind].
  exists e, 0%nat. repeat split; lia.
Qed.

(* ---------- with a BOM ---------- *)

Definition starts_00 (l : list N) : bool :=
  match l with 0 :: 0 :: _ => true | _ => false end.

(* every BOM is recognised with its length, whatever bytes follow — except that FF FE 00 00 is read
   as the UTF-32LE BOM *)
Theorem detect_bom_bytes e rest : (e = Utf16le -> starts_00 rest = false) ->
  detect (bom e ++ rest) = Ok (e, length (bom e)).
Proof.
  intros H. destruct e; cbn [bom app]; unfold detect; cbn [starts_with bom]; try reflexivity.
  (* UTF-16LE: the UTF-32LE test comes first *)
  specialize (H eq_refl). change (0xEF =? 0xFF) with false. cbn [andb].
  rewrite !N.eqb_refl. cbn [andb].
  destruct rest as [|x [|y rest]]; try reflexivity.
  - destruct (0 =? x); reflexivity.
  - unfold starts_00 in H. destruct x; [|reflexivity]. destruct y; [discriminate|].
    cbn. reflexivity.
Qed.

Example detect_bom_refuted_witness : detect (bom Utf16le ++ text_bytes Utf16le [0; 0x61]) = Ok (Utf32le, 4%nat).
Proof. vm_compute. reflexivity. Qed.

(* the first bytes of a text in each scheme *)
Lemma text_bytes_cons e c text : text_bytes e (c :: text) = text_bytes e [c] ++ text_bytes e text.
Proof.
  unfold text_bytes. change (c :: text) with ([c] ++ text). rewrite encs_app. apply units_bytes_app.
Qed.

Lemma enc16_first_zero c : scalar c -> match enc16 c with u :: _ => u = 0 <-> c = 0 | [] => False end.
Proof.
  intros Hc. unfold enc16. destruct (c <? 0x10000) eqn:E; [tauto|]. split; lia.
Qed.

Lemma starts_00_text16 e text : Forall scalar text -> utf_width e = W16 ->
  starts_00 (text_bytes e text) = match text with 0 :: _ => true | _ => false end.
Proof.
  intros Hs Hw. destruct text as [|c text]; [reflexivity|].
  inversion Hs as [|? ? Hc _]; subst. rewrite text_bytes_cons. unfold text_bytes at 1. rewrite Hw.
  cbn [encs flat_map enc]. rewrite app_nil_r.
  pose proof (enc16_first_zero c Hc) as Hz. pose proof (enc_units W16 c Hc) as Hu. cbn [enc] in Hu.
  destruct (enc16 c) as [|u us]; [contradiction|]. inversion Hu as [|? ? Hub _]; subst. cbn [unit_bound] in Hub.
  cbn [units_bytes flat_map]. destruct (utf_endian e); cbn [unit_bytes app starts_00].
  - destruct (N.eqb_spec c 0) as [->|Hn].
    + replace u with 0 by (symmetry; apply Hz; reflexivity). reflexivity.
    + assert (u <> 0) by tauto. destruct c; [congruence|].
      destruct (u mod 256) eqn:E1; [|reflexivity]. destruct (u / 256) eqn:E2; [lia | reflexivity].
  - destruct (N.eqb_spec c 0) as [->|Hn].
    + replace u with 0 by (symmetry; apply Hz; reflexivity). reflexivity.
    + assert (u <> 0) by tauto. destruct c; [congruence|].
      destruct (u / 256) eqn:E1; [|reflexivity]. destruct (u mod 256) eqn:E2; [lia | reflexivity].
Qed.

(* ---------- without a BOM ---------- *)

Ltac eqb_false :=
  repeat match goal with
  | |- context [(?a =? ?b)] =>
      replace (a =? b) with false by (symmetry; apply N.eqb_neq; lia)
  end.

(* UTF-8 text without U+0000: no byte is zero, so no probe ever fires *)
Lemma det_scan_nonzero : forall l i size, (i + length l = size)%nat ->
  Forall (fun b => 0 < b < 256) l -> det_scan i size l = Ok Utf8.
Proof.
  induction l as [|b0 t IH]; intros i size H Hb; [reflexivity|].
  pose proof (Forall_inv Hb) as Hb0. pose proof (Forall_inv_tail Hb) as Hbt. cbn beta in Hb0.
  cbn [det_scan length] in *.
  assert (H32 : (if ((i mod 4 =? 0)%nat && (i + 4 <=? size)%nat)%bool
                 then match t with b1 :: b2 :: b3 :: _ => Ok (probe32 (le32 b0 b1 b2 b3)) | _ => Fault end
                 else Ok None) = Ok None).
  { destruct ((i mod 4 =? 0)%nat && (i + 4 <=? size)%nat)%bool eqn:E; [|reflexivity].
    apply andb_true_iff in E. destruct E as [_ E]. apply Nat.leb_le in E.
    destruct t as [|b1 [|b2 [|b3 t']]]; cbn [length] in H; try lia.
    pose proof (Forall_inv Hbt) as Hb1. pose proof (Forall_inv_tail Hbt) as Hbt1.
    pose proof (Forall_inv Hbt1) as Hb2. pose proof (Forall_inv_tail Hbt1) as Hbt2.
    pose proof (Forall_inv Hbt2) as Hb3. cbn beta in Hb1, Hb2, Hb3.
    rewrite probe32_spec by lia. eqb_false. reflexivity. }
  rewrite H32. cbn [bind].
  assert (H16 : (if ((i mod 2 =? 0)%nat && (i + 2 <=? size)%nat)%bool
                 then match t with b1 :: _ => Ok (probe16 (le16 b0 b1)) | _ => Fault end
                 else Ok None) = Ok None).
  { destruct ((i mod 2 =? 0)%nat && (i + 2 <=? size)%nat)%bool eqn:E; [|reflexivity].
    apply andb_true_iff in E. destruct E as [_ E]. apply Nat.leb_le in E.
    destruct t as [|b1 t']; cbn [length] in H; try lia.
    pose proof (Forall_inv Hbt) as Hb1. cbn beta in Hb1.
    rewrite probe16_spec by lia. eqb_false. reflexivity. }
  rewrite H16. cbn [bind]. apply IH; [lia | exact Hbt].
Qed.

Lemma detect_utf8_bytes c l : 0 < c < 128 -> Forall (fun b => 0 < b < 256) l ->
  detect (c :: l) = Ok (Utf8, 0%nat).
Proof.
  intros Hc Hl. unfold detect. cbn [starts_with bom]. eqb_false. cbn [andb].
  rewrite det_scan_nonzero; [reflexivity | reflexivity |].
  constructor; [lia | exact Hl].
Qed.

Lemma detect_utf16le_bytes c rest : 0 < c < 128 -> bytes rest -> starts_00 rest = false ->
  detect (c :: 0 :: rest) = Ok (Utf16le, 0%nat).
Proof.
  intros Hc Hb H0. unfold detect. cbn [starts_with bom]. eqb_false. cbn [andb].
  destruct rest as [|x [|y rest]].
  - cbn [det_scan length Nat.modulo Nat.divmod fst snd Nat.eqb Nat.add Nat.leb andb Nat.sub bind]. rewrite probe16_spec by lia. eqb_false. reflexivity.
  - cbn [det_scan length Nat.modulo Nat.divmod fst snd Nat.eqb Nat.add Nat.leb andb Nat.sub bind]. rewrite probe16_spec by lia. eqb_false. reflexivity.
  - inversion Hb as [|? ? Hx Hb1]; subst. inversion Hb1 as [|? ? Hy _]; subst.
    cbn [det_scan length Nat.modulo Nat.divmod fst snd Nat.eqb Nat.add Nat.leb andb Nat.sub].
    rewrite probe32_spec by lia.
    replace ((x =? 0) && (y =? 0))%bool with false.
    2:{ unfold starts_00 in H0. destruct x; [|reflexivity]. destruct y; [discriminate | reflexivity]. }
    eqb_false. cbn [andb bind]. rewrite probe16_spec by lia. eqb_false. reflexivity.
Qed.

Lemma detect_utf16be_bytes c rest : 0 < c < 128 -> bytes rest -> starts_00 rest = false ->
  detect (0 :: c :: rest) = Ok (Utf16be, 0%nat).
Proof.
  intros Hc Hb H0. unfold detect. cbn [starts_with bom].
  change (0xEF =? 0) with false. change (0xFF =? 0) with false. change (0xFE =? 0) with false.
  rewrite N.eqb_refl. eqb_false. cbn [andb].
  destruct rest as [|x [|y rest]].
  - cbn [det_scan length Nat.modulo Nat.divmod fst snd Nat.eqb Nat.add Nat.leb andb Nat.sub bind]. rewrite probe16_spec by lia. eqb_false. rewrite N.eqb_refl. reflexivity.
  - cbn [det_scan length Nat.modulo Nat.divmod fst snd Nat.eqb Nat.add Nat.leb andb Nat.sub bind]. rewrite probe16_spec by lia. eqb_false. rewrite N.eqb_refl. reflexivity.
  - inversion Hb as [|? ? Hx Hb1]; subst. inversion Hb1 as [|? ? Hy _]; subst.
    cbn [det_scan length Nat.modulo Nat.divmod fst snd Nat.eqb Nat.add Nat.leb andb Nat.sub].
    rewrite probe32_spec by lia.
    replace ((x =? 0) && (y =? 0))%bool with false.
    2:{ unfold starts_00 in H0. destruct x; [|reflexivity]. destruct y; [discriminate | reflexivity]. }
    rewrite N.eqb_refl. eqb_false. cbn [andb bind]. rewrite probe16_spec by lia. eqb_false.
    rewrite N.eqb_refl. reflexivity.
Qed.

Lemma detect_utf32le_bytes c rest : 0 < c < 128 -> detect (c :: 0 :: 0 :: 0 :: rest) = Ok (Utf32le, 0%nat).
Proof.
  intros Hc. unfold detect. cbn [starts_with bom]. eqb_false. cbn [andb].
  cbn [det_scan length Nat.modulo Nat.divmod fst snd Nat.eqb Nat.add Nat.leb andb Nat.sub].
  rewrite probe32_spec by lia. rewrite !N.eqb_refl. eqb_false. reflexivity.
Qed.

Lemma detect_utf32be_bytes c rest : 0 < c < 128 -> detect (0 :: 0 :: 0 :: c :: rest) = Ok (Utf32be, 0%nat).
Proof.
  intros Hc. unfold detect. cbn [starts_with bom].
  change (0xEF =? 0) with false. change (0xFF =? 0) with false. change (0xFE =? 0) with false.
  rewrite !N.eqb_refl. cbn [andb].
  cbn [det_scan length Nat.modulo Nat.divmod fst snd Nat.eqb Nat.add Nat.leb andb Nat.sub].
  rewrite probe32_spec by lia. rewrite !N.eqb_refl. eqb_false. reflexivity.
Qed.

(* ---------- texts ---------- *)

Lemma unit_bytes_bytes e w u : u < unit_bound w -> bytes (unit_bytes e w u).
Proof.
  intros H. destruct w, e; cbn [unit_bytes unit_bound] in *; repeat constructor; lia.
Qed.

Lemma units_bytes_bytes e w l : units w l -> bytes (units_bytes e w l).
Proof.
  intros H. unfold units_bytes. induction H as [|u l Hu _ IH]; [constructor|].
  cbn [flat_map]. apply Forall_app. split; [apply unit_bytes_bytes; exact Hu | exact IH].
Qed.

Lemma text_bytes_bytes e text : Forall scalar text -> bytes (text_bytes e text).
Proof. intros H. apply units_bytes_bytes. apply encs_units. exact H. Qed.

Lemma units_bytes_W8 e l : units_bytes e W8 l = l.
Proof. unfold units_bytes. induction l as [|x l IH]; [reflexivity|]. cbn. f_equal. exact IH. Qed.

Lemma enc8_nonzero c : scalar c -> c <> 0 -> Forall (fun b => 0 < b < 256) (enc8 c).
Proof.
  intros Hc Hn. apply scalar_lt in Hc. unfold enc8.
  repeat match goal with |- context [if ?b then _ else _] => destruct b eqn:? end;
    repeat constructor; lia.
Qed.

Lemma encs8_nonzero text : Forall scalar text -> existsb (N.eqb 0) text = false ->
  Forall (fun b => 0 < b < 256) (encs W8 text).
Proof.
  intros Hs. induction Hs as [|c text Hc _ IH]; intros Hz; [constructor|].
  cbn [existsb] in Hz. apply orb_false_iff in Hz. destruct Hz as [Hz1 Hz2]. apply N.eqb_neq in Hz1.
  change (encs W8 (c :: text)) with (enc8 c ++ encs W8 text). apply Forall_app. split.
  - apply enc8_nonzero; [exact Hc | congruence].
  - apply IH. exact Hz2.
Qed.

(* the BOM-less texts the heuristic cannot recognise although they start with an ASCII character:
   UTF-8 with a U+0000 somewhere, UTF-16 whose second character is U+0000 *)
Definition nobom_defect (e : utftype) (rest : list N) : bool :=
  match e with
  | Utf8 => existsb (N.eqb 0) rest
  | Utf16le | Utf16be => match rest with 0 :: _ => true | _ => false end
  | _ => false
  end.

Lemma ascii_enc w c : 0 < c < 128 -> enc w c = [c].
Proof.
  intros H. destruct w; cbn [enc]; [unfold enc8 | unfold enc16 | reflexivity].
  - replace (c <? 0x80) with true by lia. reflexivity.
  - replace (c <? 0x10000) with true by lia. reflexivity.
Qed.

Lemma starts_00_firstn l j : starts_00 l = false -> starts_00 (firstn j l) = false.
Proof.
  intros H. destruct j as [|[|j]]; try reflexivity.
  - destruct l as [|x l]; [reflexivity|]. cbn. destruct x; reflexivity.
  - destruct l as [|x [|y l]]; try exact H; try reflexivity.
    all: cbn; destruct x; reflexivity.
Qed.

Lemma firstn_cons_S {A} (x : A) l k : (1 <= k)%nat -> firstn k (x :: l) = x :: firstn (k - 1) l.
Proof. intros H. destruct k; [lia|]. replace (S k - 1)%nat with k by lia. reflexivity. Qed.

Lemma Forall_firstn {A} (P : A -> Prop) l k : Forall P l -> Forall P (firstn k l).
Proof.
  intros H. rewrite <- (firstn_skipn k l) in H. apply Forall_app in H. apply H.
Qed.

(* the verdict on the first k bytes (at least the first code unit) of a BOM-less text: what
   CEncodedStreamReader looks at *)
Theorem detect_nobom_prefix e c rest k : (unit_size (utf_width e) <= k)%nat -> 0 < c < 128 -> Forall scalar rest ->
  nobom_defect e rest = false -> detect (firstn k (text_bytes e (c :: rest))) = Ok (e, 0%nat).
Proof.
  intros Hk Hc Hs Hd. rewrite text_bytes_cons. unfold text_bytes at 1.
  cbn [encs flat_map]. rewrite app_nil_r, (ascii_enc _ c Hc). cbn [units_bytes flat_map]. rewrite app_nil_r.
  pose proof (text_bytes_bytes e rest Hs) as Hb.
  destruct e; cbn [utf_width utf_endian unit_bytes nobom_defect unit_size] in *.
  - unfold text_bytes. cbn [utf_width]. rewrite units_bytes_W8. cbn [app].
    rewrite firstn_cons_S by lia.
    apply detect_utf8_bytes; [exact Hc | apply Forall_firstn; apply encs8_nonzero; assumption].
  - replace (c mod 256) with c by lia. replace (c / 256) with 0 by lia. cbn [app].
    rewrite firstn_cons_S by lia. rewrite firstn_cons_S by lia.
    apply detect_utf16le_bytes; [exact Hc | apply Forall_firstn; exact Hb |].
    apply starts_00_firstn. rewrite starts_00_text16 by (try assumption; reflexivity). exact Hd.
  - replace (c mod 256) with c by lia. replace (c / 256) with 0 by lia. cbn [app].
    rewrite firstn_cons_S by lia. rewrite firstn_cons_S by lia.
    apply detect_utf16be_bytes; [exact Hc | apply Forall_firstn; exact Hb |].
    apply starts_00_firstn. rewrite starts_00_text16 by (try assumption; reflexivity). exact Hd.
  - replace (c mod 256) with c by lia. replace (c / 256 mod 256) with 0 by lia.
    replace (c / 65536 mod 256) with 0 by lia. replace (c / 16777216) with 0 by lia. cbn [app].
    do 4 (rewrite firstn_cons_S by lia).
    apply detect_utf32le_bytes. exact Hc.
  - replace (c mod 256) with c by lia. replace (c / 256 mod 256) with 0 by lia.
    replace (c / 65536 mod 256) with 0 by lia. replace (c / 16777216) with 0 by lia. cbn [app].
    do 4 (rewrite firstn_cons_S by lia).
    apply detect_utf32be_bytes. exact Hc.
Qed.

Theorem detect_nobom_outside e c rest : 0 < c < 128 -> Forall scalar rest ->
  nobom_defect e rest = false -> detect (text_bytes e (c :: rest)) = Ok (e, 0%nat).
Proof.
  intros Hc Hs Hd.
  rewrite <- (firstn_all2 (text_bytes e (c :: rest)) (n := Nat.max 4 (length (text_bytes e (c :: rest))))) by lia.
  apply detect_nobom_prefix; try assumption.
  pose proof (Nat.le_max_l 4 (length (text_bytes e (c :: rest)))) as Hm.
  assert (unit_size (utf_width e) <= 4)%nat by (destruct e; cbn; lia). lia.
Qed.

Example detect_nobom_refuted_utf8 : detect (text_bytes Utf8 [0x61; 0; 0x62]) = Ok (Utf16le, 0%nat).
Proof. vm_compute. reflexivity. Qed.
Example detect_nobom_refuted_utf16le : detect (text_bytes Utf16le [0x61; 0; 0x62]) = Ok (Utf32le, 0%nat).
Proof. vm_compute. reflexivity. Qed.
Example detect_nobom_refuted_utf16be : detect (text_bytes Utf16be [0x61; 0; 0x62]) = Ok (Utf32le, 0%nat).
Proof. vm_compute. reflexivity. Qed.

(* with a BOM, on texts *)
Definition bom_defect (e : utftype) (text : list N) : bool :=
  match e, text with Utf16le, 0 :: _ => true | _, _ => false end.

Theorem detect_bom_outside e text : Forall scalar text -> bom_defect e text = false ->
  detect (bom e ++ text_bytes e text) = Ok (e, length (bom e)).
Proof.
  intros Hs Hd. apply detect_bom_bytes. intros ->.
  rewrite starts_00_text16 by (try assumption; reflexivity). exact Hd.
Qed.

(* ---------- the stream overload ---------- *)

(* on a fresh seekable stream: same verdict as on the first 128 bytes, the stream is left good, at the
   first byte after the BOM (skipBomWhenFound) or at its start *)
Theorem detect_stream_spec skip data :
  exists e off, detect (firstn 128 data) = Ok (e, off) /\
    exists s', detect_stream skip (stream_of data true) = Ok (e, s') /\
      is_data s' = data /\ is_eof s' = false /\ is_fail s' = false /\
      is_pos s' = (if skip then off else 0%nat).
Proof.
  destruct (detect_ok (firstn 128 data)) as [e [off [E [Hoff _]]]].
  exists e, off. split; [exact E|].
  unfold detect_stream. cbn [is_tellg stream_of is_sentry is_good is_eof is_fail negb andb is_seekable is_pos].
  pose proof (is_read_spec 128 (stream_of data true)) as R. cbn zeta in R.
  change (is_good (stream_of data true)) with true in R. cbn iota in R.
  destruct (is_read 128 (mkIS data 0 false false true 0)) as [got s2] eqn:ER.
  change (mkIS data 0 false false true 0) with (stream_of data true) in ER. rewrite ER in R. cbn [fst snd] in R.
  rewrite ER.
  destruct R as [R1 [R2 [R3 [R4 R5]]]]. cbn [stream_of is_data is_pos] in R1, R2.
  assert (Eg : got = firstn 128 data) by (rewrite R1; reflexivity).
  rewrite Eg in *. rewrite E. cbn [bind fst snd].
  pose proof (is_read_data 128 (stream_of data true)) as RD. rewrite ER in RD. cbn [snd stream_of is_data] in RD.
  pose proof (is_read_seekable 128 (stream_of data true)) as RS. rewrite ER in RS. cbn [snd stream_of is_seekable] in RS.
  rewrite firstn_length in *.
  set (s3 := if is_eof s2 then is_clear s2 else s2).
  assert (H3 : is_data s3 = data /\ is_seekable s3 = true /\ is_pos s3 = Nat.min 128 (length data) /\
               is_eof s3 = false /\ is_fail s3 = false).
  { subst s3. destruct (is_eof s2) eqn:Ee.
    - unfold is_clear. cbn. repeat split; try assumption; try lia.
    - repeat split; try assumption; try lia. rewrite R5, <- R4. reflexivity. }
  destruct H3 as [D3 [S3 [P3 [E3 F3]]]]. rewrite R3.
  assert (Hseek : forall z p, z = Z.of_nat p -> (p <= length data)%nat ->
            let s' := is_seekg z s3 in
            is_data s' = data /\ is_eof s' = false /\ is_fail s' = false /\ is_pos s' = p).
  { intros z p -> Hp. unfold is_seekg, is_sentry, is_good, is_set_fail. cbn. rewrite F3, S3, D3. cbn.
    replace (0 <=? Z.of_nat p)%Z with true by lia. replace (Z.of_nat p <=? Z.of_nat (length data))%Z with true by lia.
    cbn. repeat split; try assumption. lia. }
  destruct skip.
  - destruct (Nat.min 128 (length data) =? off)%nat eqn:En; cbn [negb].
    + apply Nat.eqb_eq in En. eexists. split; [reflexivity|]. repeat split; try assumption. lia.
    + destruct (Hseek (Z.of_nat 0 + Z.of_nat off)%Z off) as [A [B [C D]]]; [lia | lia |].
      eexists. split; [reflexivity|]. repeat split; assumption.
  - destruct (Hseek (Z.of_nat 0) 0%nat) as [A [B [C D]]]; [lia | lia |].
    eexists. split; [reflexivity|]. repeat split; assumption.
Qed.
