(* StreamEsrProofs.v — C13, CEncodedStreamReader: representation invariant, what one
   ReadNextEncodedChunk / DecodeChunk does to the window, progress on every byte stream. *)
From BS Require Import Base UtfSpec UtfModel UtfLemmas UtfProofs UtfOrder
  StreamIStream StreamSpec StreamModel StreamLemmas StreamUnits StreamDetProofs.
From Coq Require Import ZifyBool ZifyN ZifyNat.
Local Open Scope nat_scope.
Ltac Zify.zify_post_hook ::= Z.div_mod_to_equations.

Lemma le_units_units w l : bytes l -> units w (le_units w l).
Proof.
  intros H. destruct w; cbn [le_units].
  - exact H.
  - revert H. generalize (le_n (length l)). generalize (length l) at 2 as n. intros n. revert l.
    induction n as [|n IH]; intros l Hn H.
    + destruct l; [constructor | cbn in Hn; lia].
    + destruct l as [|b0 [|b1 t]]; try constructor.
      * inversion H as [|? ? H0 H']; subst. inversion H' as [|? ? H1 H'']; subst.
        cbn [unit_bound]. unfold le16. lia.
      * apply IH; [cbn in Hn; lia|]. inversion H as [|? ? H0 H']; subst. inversion H'; assumption.
  - revert H. generalize (le_n (length l)). generalize (length l) at 2 as n. intros n. revert l.
    induction n as [|n IH]; intros l Hn H.
    + destruct l; [constructor | cbn in Hn; lia].
    + destruct l as [|b0 [|b1 [|b2 [|b3 t]]]]; try constructor.
      * inversion H as [|? ? H0 H']; subst. inversion H' as [|? ? H1 H'']; subst.
        inversion H'' as [|? ? H2 H3']; subst. inversion H3' as [|? ? H3 _]; subst.
        cbn [unit_bound]. unfold le32. lia.
      * apply IH; [cbn in Hn; lia|]. inversion H as [|? ? H0 H']; subst. inversion H' as [|? ? H1 H'']; subst.
        inversion H'' as [|? ? H2 H3']; subst. inversion H3'; assumption.
Qed.

Lemma le_units_length w l : length (le_units w l) = length l / unit_size w.
Proof.
  destruct w; cbn [le_units unit_size].
  - rewrite Nat.div_1_r. reflexivity.
  - generalize (le_n (length l)). generalize (length l) at 2 as n. intros n. revert l.
    induction n as [|n IH]; intros l Hn.
    + destruct l; [reflexivity | cbn in Hn; lia].
    + destruct l as [|b0 [|b1 t]]; try reflexivity. cbn [le_units16 length].
      rewrite IH by (cbn in Hn; lia).
      change (S (S (length t))) with (1 * 2 + length t). rewrite Nat.div_add_l by lia. lia.
  - generalize (le_n (length l)). generalize (length l) at 2 as n. intros n. revert l.
    induction n as [|n IH]; intros l Hn.
    + destruct l; [reflexivity | cbn in Hn; lia].
    + destruct l as [|b0 [|b1 [|b2 [|b3 t]]]]; try reflexivity. cbn [le_units32 length].
      rewrite IH by (cbn in Hn; lia).
      change (S (S (S (S (length t))))) with (1 * 4 + length t). rewrite Nat.div_add_l by lia. lia.
Qed.


(* what the three decoding paths guarantee on ANY unit sequence *)
Lemma core_bounds src dst pol mark inp out0 : units src inp ->
  let r := core_decode src dst pol mark inp out0 in
  r_code r <> OutOfFuel /\ r_pos r <= length inp /\
  (r_code r = Success -> r_pos r = length inp) /\
  (r_code r = UnexpectedEnd -> r_pos r < length inp /\ length inp - r_pos r < maxlen src).
Proof.
  intros Hu. cbn zeta.
  assert (Htr : forall s d, width_eqb s d = false -> units s inp ->
            let r := transcode s d pol mark inp out0 in
            r_code r <> OutOfFuel /\ r_pos r <= length inp /\
            (r_code r = Success -> r_pos r = length inp) /\
            (r_code r = UnexpectedEnd -> r_pos r < length inp /\ length inp - r_pos r < maxlen s)).
  { intros s d E Hu'. cbn zeta.
    destruct (transcode_char s d pol mark inp out0 E Hu') as [consumed [rest [o [n [E1 [_ [_ [_ [E5 E6]]]]]]]]].
    assert (Hur : units s rest) by (rewrite E1 in Hu'; apply units_app in Hu'; tauto).
    assert (Hl : length inp = length consumed + length rest) by (rewrite E1, app_length; reflexivity).
    rewrite E5, Hl.
    destruct E6 as [[E6 [-> _]]|[[E6 [E7 [E8 _]]]|[E6 _]]]; rewrite E6; cbn [length];
      repeat split; try discriminate; try lia.
    - apply decf_trunc in E7; [|exact Hur]. destruct rest; [congruence | cbn [length]; lia].
    - apply decf_trunc in E7; [|exact Hur]. lia. }
  assert (Hsame : forall s, let r := transcode s s pol mark inp out0 in
            r_code r <> OutOfFuel /\ r_pos r <= length inp /\
            (r_code r = Success -> r_pos r = length inp) /\
            (r_code r = UnexpectedEnd -> r_pos r < length inp /\ length inp - r_pos r < maxlen s)).
  { intros s. cbn zeta. unfold transcode. replace (width_eqb s s) with true by (destruct s; reflexivity).
    cbn [r_code r_pos]. repeat split; try discriminate; lia. }
  destruct src, dst; unfold core_decode;
    try (apply Htr; [reflexivity | exact Hu]); try apply Hsame.
  - (* 16 -> 16 *)
    rewrite copy16_spec. destruct (rev inp) as [|lastu rl] eqn:Er.
    + assert (inp = []) by (rewrite <- (rev_involutive inp), Er; reflexivity). subst inp.
      cbn. repeat split; try discriminate; lia.
    + assert (0 < length inp).
      { apply (f_equal (@length N)) in Er. rewrite rev_length in Er. cbn in Er. lia. }
      destruct (holds_back lastu); cbn [r_code r_pos maxlen]; repeat split; try discriminate; lia.
  - (* 32 -> 32 *)
    cbn [r_code r_pos]. repeat split; try discriminate; lia.
Qed.

Section ESRP.
  Variable K : nat.
  Hypothesis HK4 : K mod 4 = 0.
  Hypothesis HK32 : 32 <= K.
  Variable tgt : width.
  Variable pol : policy.
  Variable mark : list N.
  Variable data : list N.
  Hypothesis Hdata : bytes data.

  (* representation invariant; the flag part describes a stream that is only ever read *)
  Record EInv (s : esr) : Prop := mkEInv {
    e_data : is_data (e_is s) = data;
    e_len : length (e_buf s) = K;
    e_se : e_start s <= e_end s;
    e_eK : e_end s <= K;
    e_pl : is_pos (e_is s) <= length data;
    e_fe : is_fail (e_is s) = true -> is_eof (e_is s) = true;
    e_ee : is_eof (e_is s) = true -> is_pos (e_is s) = length data;
    e_by : bytes (e_buf s) }.

  Definition win (s : esr) : list N := slice (e_buf s) (e_start s) (e_end s - e_start s).
  Definition unread (s : esr) : list N := skipn (is_pos (e_is s)) data.
  (* bytes of the stream not yet decoded *)
  Definition remaining (s : esr) : nat := length (win s) + length (unread s).

  Lemma win_length s : EInv s -> length (win s) = e_end s - e_start s.
  Proof. intros I. destruct I. unfold win. rewrite slice_length. lia. Qed.

  Lemma bytes_slice (l : list N) a n : bytes l -> bytes (slice l a n).
  Proof. intros H. apply (units_slice W8). exact H. Qed.

  Lemma bytes_app (a b : list N) : bytes a -> bytes b -> bytes (a ++ b).
  Proof. intros. apply Forall_app. split; assumption. Qed.

  Lemma bytes_firstn (l : list N) n : bytes l -> bytes (firstn n l).
  Proof. intros H. apply (bytes_slice l 0 n H). Qed.

  Lemma bytes_skipn (l : list N) n : bytes l -> bytes (skipn n l).
  Proof. intros H. apply (units_skipn W8). exact H. Qed.

  (* ---------- ReadNextEncodedChunk ---------- *)

  Lemma read_next_shape s : EInv s ->
    exists buf1, length buf1 = K /\ bytes buf1 /\ firstn (e_end s - e_start s) buf1 = win s /\
      esr_read_next K s =
        (let n1 := e_end s - e_start s in
         let r := is_read (K - n1) (e_is s) in
         (negb (is_gcount (snd r) =? 0),
          mkE (snd r) (write_at buf1 n1 (fst r)) 0 (n1 + is_gcount (snd r)) (e_type s))).
  Proof.
    intros I. destruct I. unfold esr_read_next, win.
    destruct (e_start s =? K) eqn:E1.
    - apply Nat.eqb_eq in E1. exists (e_buf s). replace (e_end s - e_start s) with 0 by lia.
      repeat split; try assumption. cbn zeta. destruct (is_read (K - 0) (e_is s)). reflexivity.
    - destruct (e_start s =? 0) eqn:E2; cbn [negb].
      + apply Nat.eqb_eq in E2. exists (e_buf s). rewrite E2, Nat.sub_0_r.
        repeat split; try assumption. cbn zeta. destruct (is_read (K - e_end s) (e_is s)). reflexivity.
      + exists (squeeze (e_buf s) (e_start s) (e_end s - e_start s)). repeat split.
        * rewrite squeeze_length; lia.
        * unfold squeeze. apply bytes_app; [apply bytes_slice | apply bytes_skipn]; assumption.
        * apply squeeze_prefix. lia.
        * cbn zeta. destruct (is_read (K - (e_end s - e_start s)) (e_is s)). reflexivity.
  Qed.

  Lemma read_next_spec s : EInv s ->
    let r := esr_read_next K s in
    EInv (snd r) /\ e_start (snd r) = 0 /\ e_type (snd r) = e_type s /\
    exists got, win (snd r) = win s ++ got /\ unread s = got ++ unread (snd r) /\
      fst r = negb (length got =? 0) /\
      (is_eof (e_is (snd r)) = false -> length (win (snd r)) = K) /\
      (is_eof (e_is (snd r)) = true -> unread (snd r) = []) /\
      (fst r = false -> win s = [] -> unread s = []).
  Proof.
    intros I. cbn zeta. destruct (read_next_shape s I) as [buf1 [L1 [B1 [P1 ->]]]]. cbn zeta.
    set (n1 := e_end s - e_start s) in *.
    pose proof (is_read_spec (K - n1) (e_is s)) as R. cbn zeta in R.
    pose proof (is_read_data (K - n1) (e_is s)) as RD.
    destruct (is_read (K - n1) (e_is s)) as [got is1]. cbn [fst snd] in *.
    pose proof (win_length s I) as WL. fold n1 in WL.
    destruct I. unfold win, unread, remaining in *. cbn [e_is e_buf e_start e_end e_type].
    assert (Hn1 : n1 <= K) by lia.
    destruct (is_good (e_is s)) eqn:G.
    - destruct R as [R1 [R2 [R3 [R4 R5]]]]. rewrite e_data0 in R1.
      assert (Lg : length got = Nat.min (K - n1) (length data - is_pos (e_is s))).
      { rewrite R1, slice_length. reflexivity. }
      assert (Bg : bytes got) by (rewrite R1; apply bytes_slice; exact Hdata).
      rewrite R3. split.
      { constructor; cbn [e_is e_buf e_start e_end e_type]; try lia; try congruence.
        - rewrite write_at_length; lia.
        - rewrite R4. intros H. apply negb_true_iff, Nat.eqb_neq in H. lia.
        - unfold write_at. apply bytes_app; [apply bytes_firstn; exact B1|].
          apply bytes_app; [exact Bg | apply bytes_skipn; exact B1]. }
      repeat split.
      exists got. rewrite Nat.sub_0_r.
      assert (Ew : slice (write_at buf1 n1 got) 0 (n1 + length got) = slice (e_buf s) (e_start s) n1 ++ got).
      { rewrite slice_0. rewrite write_at_prefix by lia. rewrite P1. reflexivity. }
      rewrite Ew. repeat split.
      + rewrite R2. rewrite R1. unfold slice.
        rewrite <- (firstn_skipn (K - n1) (skipn (is_pos (e_is s)) data)) at 1. f_equal.
        rewrite skipn_skipn, firstn_length, skipn_length.
        destruct (Nat.le_gt_cases (K - n1) (length data - is_pos (e_is s)));
          [f_equal; lia | rewrite !skipn_all2 by lia; reflexivity].
      + rewrite R4. intros H. apply negb_false_iff, Nat.eqb_eq in H. rewrite app_length, slice_length. lia.
      + rewrite R4, R2. intros H. apply negb_true_iff, Nat.eqb_neq in H. apply skipn_all2. lia.
      + intros H Hw. apply negb_false_iff, Nat.eqb_eq in H.
        assert (n1 = 0) by (rewrite <- WL, Hw; reflexivity).
        apply skipn_all2. lia.
    - destruct R as [R1 [R2 [R3 [R4 R5]]]]. subst got. rewrite R3.
      assert (Eof : is_eof (e_is s) = true).
      { unfold is_good in G. destruct (is_eof (e_is s)); [reflexivity|].
        destruct (is_fail (e_is s)) eqn:F; [apply e_fe0; reflexivity | discriminate]. }
      pose proof (e_ee0 Eof) as Hend.
      split.
      { constructor; cbn [e_is e_buf e_start e_end e_type]; try lia; try congruence.
        - rewrite write_at_length; cbn [length]; lia.
        - unfold write_at. apply bytes_app; [apply bytes_firstn; exact B1|]. cbn [app length].
          apply bytes_skipn; exact B1. }
      repeat split.
      exists []. rewrite Nat.sub_0_r, Nat.add_0_r, app_nil_r.
      assert (Ew : slice (write_at buf1 n1 []) 0 n1 = slice (e_buf s) (e_start s) n1).
      { rewrite slice_0. pose proof (write_at_prefix buf1 n1 [] ltac:(lia)) as Hw.
        cbn [length] in Hw. rewrite Nat.add_0_r, app_nil_r in Hw. rewrite Hw. exact P1. }
      rewrite Ew. repeat split.
      + rewrite R2. reflexivity.
      + rewrite R4, Eof. discriminate.
      + intros _. rewrite R2. apply skipn_all2. lia.
      + intros _ _. apply skipn_all2. lia.
  Qed.

  (* ---------- DecodeChunk on any window ---------- *)

  Lemma unit_size_cases w : unit_size w = 1 \/ unit_size w = 2 \/ unit_size w = 4.
  Proof. destruct w; cbn; tauto. Qed.

  Lemma K_aligned w : K mod unit_size w = 0 /\ 8 <= K / unit_size w.
  Proof.
    assert (E : K = 4 * (K / 4)) by (pose proof (Nat.div_mod K 4); lia).
    destruct w; cbn [unit_size].
    - rewrite Nat.mod_1_r, Nat.div_1_r. lia.
    - split; [lia|]. apply Nat.div_le_lower_bound; lia.
    - split; [exact HK4|]. apply Nat.div_le_lower_bound; lia.
  Qed.

  Lemma decode_chunk_progress e s out : EInv s -> 0 < e_end s - e_start s ->
    (is_eof (e_is s) = false -> e_end s - e_start s = K) ->
    exists c s' out', esr_decode_chunk tgt pol mark e s out = Ok (c, s', out') /\
      EInv s' /\ e_is s' = e_is s /\ e_type s' = e_type s /\
      (c = ChSuccess -> e_end s' - e_start s' < e_end s - e_start s).
  Proof.
    intros I Hne Hfull. unfold esr_decode_chunk.
    set (w := utf_width e). set (u := unit_size w). set (n := e_end s - e_start s) in *.
    set (a := n - n mod u).
    assert (Hu : 1 <= u) by (subst u; destruct (unit_size_cases w) as [H|[H|H]]; rewrite H; lia).
    assert (Hq : exists q, a = u * q /\ a <= n /\ n / u = q /\ (n = K -> 8 <= q)).
    { exists (n / u). subst a. pose proof (Nat.div_mod n u ltac:(lia)) as Hdm.
      assert (HK8 : n = K -> 8 <= n / u) by (intros ->; apply K_aligned).
      set (q := n / u) in *. set (md := n mod u) in *. clearbody q md.
      repeat split; try assumption; nia. }
    destruct Hq as [q [Ha [Han [Hdiv Hq8]]]].
    pose proof I as I'. destruct I'.
    assert (Ls : length (slice (e_buf s) (e_start s) a) = a) by (rewrite slice_length; lia).
    rewrite class_decode_core.
    set (W := adapt (utf_endian e) w (le_units w (slice (e_buf s) (e_start s) a))).
    assert (HW : units w W).
    { subst W. apply adapt_units. apply le_units_units. apply bytes_slice. exact e_by0. }
    assert (LW : length W = q).
    { subst W. assert (L0 : length (le_units w (slice (e_buf s) (e_start s) a)) = q).
      { rewrite le_units_length, Ls. fold u. rewrite Ha, Nat.mul_comm, Nat.div_mul by lia. reflexivity. }
      destruct (utf_endian e); cbn [adapt]; [exact L0 | rewrite map_length; exact L0]. }
    destruct (core_bounds w tgt pol mark W out HW) as [B1 [B2 [B3 B4]]].
    set (r := core_decode w tgt pol mark W out) in *.
    clear Hdiv. rewrite LW in *.
    assert (Hp : exists p, r_pos r * u = p /\ p <= a /\ (1 <= r_pos r -> 1 <= p)).
    { exists (r_pos r * u). repeat split; nia. }
    destruct Hp as [p [Ep [Hpa Hp1]]]. rewrite Ep.
    assert (Hmax : maxlen w <= 6) by (destruct w; cbn; lia).
    set (s1 := mkE (e_is s) (e_buf s) (e_start s + p) (e_end s) (e_type s)).
    assert (I1 : EInv s1).
    { subst s1. constructor; cbn [e_is e_buf e_start e_end e_type]; try assumption; lia. }
    assert (I0 : EInv (mkE (e_is s) (e_buf s) 0 0 (e_type s))).
    { constructor; cbn [e_is e_buf e_start e_end e_type]; try assumption; lia. }
    destruct (r_code r) eqn:Ec; try congruence.
    - (* Success *)
      specialize (B3 eq_refl).
      destruct (is_eof (e_is s)) eqn:Eeof.
      + destruct (negb (e_start s1 =? e_end s1)) eqn:Et.
        * destruct pol.
          -- eexists _, _, _. split; [reflexivity|]. splits; try reflexivity; try exact I0. try subst s1; cbn [e_start e_end]; lia.
          -- eexists _, _, _. split; [reflexivity|]. splits; try reflexivity; try exact I1. discriminate.
        * apply negb_false_iff, Nat.eqb_eq in Et. subst s1. cbn [e_start e_end] in Et.
          eexists _, _, _. split; [reflexivity|]. splits; try reflexivity; try exact I1. try subst s1; cbn [e_start e_end]; lia.
      + specialize (Hfull eq_refl). specialize (Hq8 Hfull).
        eexists _, _, _. split; [reflexivity|]. splits; try reflexivity; try exact I1. intros _. try subst s1; cbn [e_start e_end]; lia.
    - (* InvalidSequence *)
      destruct (is_eof (e_is s)); eexists _, _, _; (split; [reflexivity|]); splits; try reflexivity; try exact I1; discriminate.
    - (* UnexpectedEnd *)
      destruct (B4 eq_refl) as [B5 B6].
      destruct (is_eof (e_is s)) eqn:Eeof.
      + destruct pol.
        * eexists _, _, _. split; [reflexivity|]. splits; try reflexivity; try exact I0. try subst s1; cbn [e_start e_end]; lia.
        * eexists _, _, _. split; [reflexivity|]. splits; try reflexivity; try exact I1. discriminate.
      + specialize (Hfull eq_refl). specialize (Hq8 Hfull).
        eexists _, _, _. split; [reflexivity|]. splits; try reflexivity; try exact I1. intros _. try subst s1; cbn [e_start e_end]; lia.
  Qed.

  (* ---------- ReadChunk on any stream: it ends, reports an error, or consumes ---------- *)

  Lemma remaining_read_next s : EInv s ->
    remaining (snd (esr_read_next K s)) = remaining s.
  Proof.
    intros I. destruct (read_next_spec s I) as [_ [_ [_ [got [G1 [G2 _]]]]]].
    unfold remaining. rewrite G1, G2, !app_length. lia.
  Qed.

  Lemma read_chunk_progress s out : EInv s ->
    exists c s' out', esr_read_chunk K tgt pol mark s out = Ok (c, s', out') /\ EInv s' /\
      (c = ChSuccess -> remaining s' < remaining s) /\ (c = ChEndFile -> out' = out).
  Proof.
    intros I. unfold esr_read_chunk. destruct (esr_is_end s) eqn:Eend.
    { eexists _, _, _. split; [reflexivity|]. splits; try reflexivity; try exact I; discriminate. }
    pose proof (read_next_spec s I) as RN. cbn zeta in RN.
    pose proof (remaining_read_next s I) as RR.
    destruct (esr_read_next K s) as [ok s1]. cbn [fst snd] in *.
    destruct RN as [I1 [St1 [Ty1 [got [G1 [G2 [G3 [G4 [G5 G6]]]]]]]]].
    pose proof (win_length s1 I1) as WL1.
    destruct (negb ok && (e_start s1 =? e_end s1)) eqn:Eempty.
    { eexists _, _, _. split; [reflexivity|]. splits; try reflexivity; try exact I1; discriminate. }
    (* the window is not empty *)
    assert (Hne : 0 < e_end s1 - e_start s1).
    { apply andb_false_iff in Eempty. destruct Eempty as [E|E].
      - apply negb_false_iff in E. rewrite G3 in E. apply negb_true_iff, Nat.eqb_neq in E.
        rewrite <- WL1, G1, app_length. lia.
      - apply Nat.eqb_neq in E. destruct I1. lia. }
    assert (Hfull : is_eof (e_is s1) = false -> e_end s1 - e_start s1 = K).
    { intros H. rewrite <- WL1. apply G4. exact H. }
    assert (Hdec : forall e, exists c s' out', esr_decode_chunk tgt pol mark e s1 out = Ok (c, s', out') /\
              EInv s' /\ (c = ChSuccess -> remaining s' < remaining s) /\ (c = ChEndFile -> out' = out)).
    { intros e. destruct (decode_chunk_progress e s1 out I1 Hne Hfull) as [c [s' [out' [E1 [I' [Eis [_ Hlt]]]]]]].
      exists c, s', out'. split; [exact E1|]. split; [exact I'|]. split.
      - intros Hc. specialize (Hlt Hc). rewrite <- RR. unfold remaining, unread. rewrite Eis.
        rewrite (win_length s' I'), WL1. lia.
      - intros Hc. subst c. exfalso. clear - E1. unfold esr_decode_chunk in E1.
        repeat match type of E1 with
        | context [match ?x with _ => _ end] => destruct x; try discriminate
        end; inversion E1. }
    destruct (e_type s1) eqn:Ety; try apply Hdec.
    destruct tgt eqn:Etgt; try apply Hdec.
    (* UTF-8 to char: the window is appended as it is *)
    eexists _, _, _. split; [reflexivity|].
    assert (I0 : EInv (mkE (e_is s1) (e_buf s1) 0 0 (e_type s1))).
    { destruct I1. constructor; cbn [e_is e_buf e_start e_end e_type]; try assumption; lia. }
    rewrite <- Ety. splits; try reflexivity; try exact I0; try discriminate.
    intros _. rewrite <- RR. unfold remaining, unread, win. cbn [e_is e_buf e_start e_end].
    rewrite slice_length. fold (win s1). rewrite WL1. cbn. lia.
  Qed.

  (* ---------- the constructor ---------- *)

  Lemma new_spec sk :
    exists s0, esr_new K (stream_of data sk) = Ok s0 /\ EInv s0 /\ remaining s0 <= length data /\
      (data = [] -> e_type s0 = Utf8 /\ win s0 = [] /\ unread s0 = []) /\
      (data <> [] -> exists e off, detect (firstn K data) = Ok (e, off) /\ e_type s0 = e /\
                win s0 ++ unread s0 = skipn off data).
  Proof.
    unfold esr_new.
    set (si := mkE (stream_of data sk) (repeat 0%N K) 0 0 Utf8).
    assert (Ii : EInv si).
    { subst si. constructor; cbn [e_is e_buf e_start e_end stream_of is_data is_pos is_eof is_fail];
        try lia; try discriminate; try reflexivity.
      - apply repeat_length.
      - apply Forall_forall. intros x Hx. apply repeat_spec in Hx. subst x. reflexivity. }
    pose proof (read_next_spec si Ii) as RN. cbn zeta in RN.
    destruct (esr_read_next K si) as [ok s1]. cbn [fst snd] in *.
    destruct RN as [I1 [St1 [Ty1 [got [G1 [G2 [G3 [G4 [G5 G6]]]]]]]]].
    assert (Wi : win si = []) by reflexivity.
    assert (Ui : unread si = data) by reflexivity.
    rewrite Wi in G1. rewrite Ui in G2. cbn [app] in G1.
    pose proof (win_length s1 I1) as WL1.
    assert (Egot : got = firstn K data).
    { destruct (is_eof (e_is s1)) eqn:Ee.
      - rewrite (G5 eq_refl), app_nil_r in G2. rewrite <- G2. symmetry. apply firstn_all2.
        rewrite G2, <- G1, WL1. destruct I1. lia.
      - specialize (G4 eq_refl). rewrite G1 in G4. rewrite G2. rewrite <- G4. symmetry. apply firstn_app_exact. }
    destruct ok.
    - (* something was read: detect the encoding on the window *)
      fold (win s1). rewrite G1, Egot.
      destruct (detect_ok (firstn K data)) as [e [off [Ed [Ho1 Ho2]]]]. rewrite Ed. cbn [bind fst snd].
      eexists. split; [reflexivity|].
      assert (Hoff : off <= e_end s1 - e_start s1) by (rewrite <- WL1, G1, Egot; exact Ho1).
      assert (I2 : EInv (mkE (e_is s1) (e_buf s1) (e_start s1 + off) (e_end s1) e)).
      { destruct I1. constructor; cbn [e_is e_buf e_start e_end e_type]; try assumption; lia. }
      assert (W2 : win (mkE (e_is s1) (e_buf s1) (e_start s1 + off) (e_end s1) e) = skipn off (win s1)).
      { unfold win. cbn [e_buf e_start e_end]. unfold slice.
        rewrite <- skipn_skipn. replace (e_end s1 - (e_start s1 + off)) with (e_end s1 - e_start s1 - off) by lia.
        rewrite <- skipn_firstn_comm'. f_equal. f_equal. lia. }
      split; [exact I2|]. split.
      + unfold remaining. rewrite W2, skipn_length. unfold unread at 1. cbn [e_is].
        fold (unread s1). assert (Ld : length data = length got + length (unread s1)) by (rewrite G2 at 1; apply app_length).
        rewrite G1. lia.
      + split.
        * intros Hd. exfalso. symmetry in G3. apply negb_true_iff, Nat.eqb_neq in G3.
          rewrite Hd in G2. apply (f_equal (@length N)) in G2. rewrite app_length in G2. cbn in G2. lia.
        * intros _. exists e, off. split; [reflexivity|]. split; [reflexivity|].
          rewrite W2. unfold unread at 1. cbn [e_is]. fold (unread s1).
          transitivity (skipn off (got ++ unread s1)); [|rewrite <- G2; reflexivity].
          rewrite skipn_app. rewrite G1. f_equal.
          replace (off - length got) with 0 by (rewrite Egot; lia). reflexivity.
    - (* nothing could be read: the stream is empty *)
      eexists. split; [reflexivity|]. split; [exact I1|].
      symmetry in G3. apply negb_false_iff, Nat.eqb_eq in G3.
      destruct got; [|discriminate]. cbn [app] in G2.
      assert (Hd : data = []) by (apply G6; [reflexivity | exact Wi]).
      split; [unfold remaining; rewrite G1, <- G2, Hd; cbn; lia|].
      split; [|intros Hn; contradiction].
      intros _. rewrite Hd in G2. repeat split; try assumption; try congruence.
  Qed.

  (* ---------- the read loop ends on every stream ---------- *)

  Definition final (c : chres) : Prop := c = ChEndFile \/ c = ChDecodeError.

  Lemma loop_total : forall fuel s out acc, EInv s -> remaining s < fuel ->
    exists k c out' ty,
      esr_loop K tgt pol mark fuel s out acc = RunDone (acc ++ repeat ChSuccess k ++ [c]) out' ty /\
      final c /\ k <= remaining s.
  Proof.
    induction fuel as [|fuel IH]; intros s out acc I Hf; [lia|].
    cbn [esr_loop].
    destruct (read_chunk_progress s out I) as [c [s' [out' [E [I' [Hlt _]]]]]]. rewrite E.
    destruct c.
    - specialize (Hlt eq_refl).
      destruct (IH s' out' (acc ++ [ChSuccess]) I' ltac:(lia)) as [k [c [o [ty [E2 [Fc Hk]]]]]].
      exists (S k), c, o, ty. rewrite E2. rewrite <- app_assoc. cbn [repeat app].
      repeat split; try assumption. lia.
    - exists 0, ChDecodeError, out', (e_type s'). cbn [repeat app]. repeat split; [right; reflexivity | lia].
    - exists 0, ChEndFile, out', (e_type s'). cbn [repeat app]. repeat split; [left; reflexivity | lia].
  Qed.

  Theorem esr_run_total sk fuel : length data < fuel ->
    exists k c out ty,
      esr_run K tgt pol mark fuel (stream_of data sk) = RunDone (repeat ChSuccess k ++ [c]) out ty /\
      final c /\ k <= length data.
  Proof.
    intros Hf. unfold esr_run. destruct (new_spec sk) as [s0 [E [I0 [Hr _]]]]. rewrite E.
    destruct (loop_total fuel s0 [] [] I0 ltac:(lia)) as [k [c [o [ty [E2 [Fc Hk]]]]]].
    exists k, c, o, ty. rewrite E2. repeat split; try assumption. lia.
  Qed.

  (* ---------- a stream that ends inside a code unit (the F05 history) ---------- *)

  (* at end of file a window whose length is not a whole number of code units is never passed over
     silently: under Skip the mark is appended and the window dropped, under ThrowError the call
     reports DecodeError *)
  Lemma decode_chunk_partial_unit e s out : EInv s ->
    is_eof (e_is s) = true -> (e_end s - e_start s) mod unit_size (utf_width e) <> 0 ->
    exists c s' o, esr_decode_chunk tgt pol mark e s out = Ok (c, s', o) /\
      (c = ChDecodeError \/
       (pol = Skip /\ c = ChSuccess /\ e_start s' = e_end s' /\ exists o', o = o' ++ mark)).
  Proof.
    intros I Heof Hmod. unfold esr_decode_chunk. rewrite Heof.
    set (w := utf_width e) in *. set (u := unit_size w) in *. set (n := e_end s - e_start s) in *.
    set (a := n - n mod u).
    assert (Hu : 1 <= u) by (subst u; destruct (unit_size_cases w) as [H|[H|H]]; rewrite H; lia).
    assert (Hq : exists q, a = u * q /\ a < n).
    { exists (n / u). subst a. pose proof (Nat.div_mod n u ltac:(lia)) as Hdm.
      set (q := n / u) in *. set (md := n mod u) in *. clearbody q md. split; lia. }
    destruct Hq as [q [Ha Han]].
    pose proof I as I'. destruct I'.
    assert (Ls : length (slice (e_buf s) (e_start s) a) = a) by (rewrite slice_length; lia).
    rewrite class_decode_core.
    set (W := adapt (utf_endian e) w (le_units w (slice (e_buf s) (e_start s) a))).
    assert (HW : units w W).
    { subst W. apply adapt_units. apply le_units_units. apply bytes_slice. exact e_by0. }
    assert (LW : length W = q).
    { subst W. assert (L0 : length (le_units w (slice (e_buf s) (e_start s) a)) = q).
      { rewrite le_units_length, Ls. fold u. rewrite Ha, Nat.mul_comm, Nat.div_mul by lia. reflexivity. }
      destruct (utf_endian e); cbn [adapt]; [exact L0 | rewrite map_length; exact L0]. }
    destruct (core_bounds w tgt pol mark W out HW) as [B1 [B2 _]].
    set (r := core_decode w tgt pol mark W out) in *. rewrite LW in B2.
    assert (Hp : e_start s + r_pos r * u < e_end s) by nia.
    destruct (r_code r) eqn:Ec; try congruence.
    - cbn [e_start e_end].
      replace (negb (e_start s + r_pos r * u =? e_end s)) with true by (symmetry; apply negb_true_iff, Nat.eqb_neq; lia).
      destruct pol; eexists _, _, _; (split; [reflexivity|]).
      + right. cbn [e_start e_end]. repeat split. eexists; reflexivity.
      + left. reflexivity.
    - eexists _, _, _. split; [reflexivity|]. left. reflexivity.
    - destruct pol; eexists _, _, _; (split; [reflexivity|]).
      + right. cbn [e_start e_end]. repeat split. eexists; reflexivity.
      + left. reflexivity.
  Qed.
End ESRP.
