(* StreamEsrProofs.v — C13, CEncodedStreamReader: representation invariant, what one
   ReadNextEncodedChunk / DecodeChunk does to the window, progress on every byte stream. *)
From BS Require Import Base UtfSpec UtfModel UtfLemmas UtfProofs UtfOrder
  StreamIStream StreamSpec StreamModel StreamLemmas StreamUnits StreamDetProofs.
From Coq Require Import ZifyBool ZifyN ZifyNat.
Local Open Scope nat_scope.
Ltac Zify.zify_post_hook ::= Z.div_mod_to_equations.

Lemma le_units_units w l : bytes l -> units w (le_units w l).
Proof.
  intros H. destruct w; cbn [le_units].
  - exact H.
  - revert H. generalize (le_n (length l)). generalize (length l) at 2 as n. intros n. revert l.
    induction n as [|n IH]; intros l Hn H.
    + destruct l; [constructor | cbn in Hn; lia].
    + destruct l as [|b0 [|b1 t]]; try constructor.
      * inversion H as [|? ? H0 H']; subst. inversion H' as [|? ? H1 H'']; subst.
        cbn [unit_bound]. unfold le16. lia.
      * apply IH; [cbn in Hn; lia|]. inversion H as [|? ? H0 H']; subst. inversion H'; assumption.
  - revert H. generalize (le_n (length l)). generalize (length l) at 2 as n. intros n. revert l.
    induction n as [|n IH]; intros l Hn H.
    + destruct l; [constructor | cbn in Hn; lia].
    + destruct l as [|b0 [|b1 [|b2 [|b3 t]]]]; try constructor.
      * inversion H as [|? ? H0 H']; subst. inversion H' as [|? ? H1 H'']; subst.
        inversion H'' as [|? ? H2 H3']; subst. inversion H3' as [|? ? H3 _]; subst.
        cbn [unit_bound]. unfold le32. lia.
      * apply IH; [cbn in Hn; lia|]. inversion H as [|? ? H0 H']; subst. inversion H' as [|? ? H1 H'']; subst.
        inversion H'' as [|? ? H2 H3']; subst. inversion H3'; assumption.
Qed.

Lemma le_units_length w l : length (le_units w l) = length l / unit_size w.
Proof.
  destruct w; cbn [le_units unit_size].
  - rewrite Nat.div_1_r. reflexivity.
  - generalize (le_n (length l)). generalize (length l) at 2 as n. intros n. revert l.
    induction n as [|n IH]; intros l Hn.
    + destruct l; [reflexivity | cbn in Hn; lia].
    + destruct l as [|b0 [|b1 t]]; try reflexivity. cbn [le_units16 length].
      rewrite IH by (cbn in Hn; lia).
      change (S (S (length t))) with (1 * 2 + length t). rewrite Nat.div_add_l by lia. lia.
  - generalize (le_n (length l)). generalize (length l) at 2 as n. intros n. revert l.
    induction n as [|n IH]; intros l Hn.
    + destruct l; [reflexivity | cbn in Hn; lia].
    + destruct l as [|b0 [|b1 [|b2 [|b3 t]]]]; try reflexivity. cbn [le_units32 length].
      rewrite IH by (cbn in Hn; lia).
      change (S (S (S (S (length t))))) with (1 * 4 + length t). rewrite Nat.div_add_l by lia. lia.
Qed.


(* what the three decoding paths guarantee on ANY unit sequence *)
Lemma core_bounds src dst pol mark inp out0 : units src inp ->
  let r := core_decode src dst pol mark inp out0 in
  r_code r <> OutOfFuel /\ r_pos r <= length inp /\
  (r_code r = Success -> r_pos r = length inp) /\
  (r_code r = UnexpectedEnd -> r_pos r < length inp /\ length inp - r_pos r < maxlen src).
Proof.
  intros Hu. cbn zeta.
  assert (Htr : forall s d, width_eqb s d = false -> units s inp ->
            let r := transcode s d pol mark inp out0 in
            r_code r <> OutOfFuel /\ r_pos r <= length inp /\
            (r_code r = Success -> r_pos r = length inp) /\
            (r_code r = UnexpectedEnd -> r_pos r < length inp /\ length inp - r_pos r < maxlen s)).
  { intros s d E Hu'. cbn zeta.
    destruct (transcode_char s d pol mark inp out0 E Hu') as [consumed [rest [o [n [E1 [_ [_ [_ [E5 E6]]]]]]]]].
    assert (Hur : units s rest) by (rewrite E1 in Hu'; apply units_app in Hu'; tauto).
    assert (Hl : length inp = length consumed + length rest) by (rewrite E1, app_length; reflexivity).
    rewrite E5, Hl.
    destruct E6 as [[E6 [-> _]]|[[E6 [E7 [E8 _]]]|[E6 _]]]; rewrite E6; cbn [length];
      repeat split; try discriminate; try lia.
    - apply decf_trunc in E7; [|exact Hur]. destruct rest; [congruence | cbn [length]; lia].
    - apply decf_trunc in E7; [|exact Hur]. lia. }
  assert (Hsame : forall s, let r := transcode s s pol mark inp out0 in
            r_code r <> OutOfFuel /\ r_pos r <= length inp /\
            (r_code r = Success -> r_pos r = length inp) /\
            (r_code r = UnexpectedEnd -> r_pos r < length inp /\ length inp - r_pos r < maxlen s)).
  { intros s. cbn zeta. unfold transcode. replace (width_eqb s s) with true by (destruct s; reflexivity).
    cbn [r_code r_pos]. repeat split; try discriminate; lia. }
  destruct src, dst; unfold core_decode;
    try (apply Htr; [reflexivity | exact Hu]); try apply Hsame.
  - (* 16 -> 16 *)
    rewrite copy16_spec. destruct (rev inp) as [|lastu rl] eqn:Er.
    + assert (inp = []) by (rewrite <- (rev_involutive inp), Er; reflexivity). subst inp.
      cbn. repeat split; try discriminate; lia.
    + assert (0 < length inp).
      { apply (f_equal (@length N)) in Er. rewrite rev_length in Er. cbn in Er. lia. }
      destruct (holds_back lastu); cbn [r_code r_pos maxlen]; repeat split; try discriminate; lia.
  - (* 32 -> 32 *)
    cbn [r_code r_pos]. repeat split; try discriminate; lia.
Qed.

Section ESRP.
  Variable K : nat.
  Hypothesis HK4 : K mod 4 = 0.
  Hypothesis HK32 : 32 <= K.
  Variable tgt : width.
  Variable pol : policy.
  Variable mark : list N.
  Variable data : list N.
  Hypothesis Hdata : bytes data.

  (* representation invariant; the flag part describes a stream that is only ever read *)
  Record EInv (s : esr) : Prop := mkEInv {
    e_data : is_data (e_is s) = data;
    e_len : length (e_buf s) = K;
    e_se : e_start s <= e_end s;
    e_eK : e_end s <= K;
    e_pl : is_pos (e_is s) <= length data;
    e_fe : is_fail (e_is s) = true -> is_eof (e_is s) = true;
    e_ee : is_eof (e_is s) = true -> is_pos (e_is s) = length data;
    e_by : bytes (e_buf s) }.

  Definition win (s : esr) : list N := slice (e_buf s) (e_start s) (e_end s - e_start s).
  Definition unread (s : esr) : list N := skipn (is_pos (e_is s)) data.
  (* bytes of the stream not yet decoded *)
  Definition remaining (s : esr) : nat := length (win s) + length (unread s).

  Lemma win_length s : EInv s -> length (win s) = e_end s - e_start s.
  Proof. intros I. destruct I. unfold win. rewrite slice_length. lia. Qed.

  Lemma bytes_slice (l : list N) a n : bytes l -> bytes (slice l a n).
  Proof. intros H. apply (units_slice W8). exact H. Qed.

  Lemma bytes_app (a b : list N) : bytes a -> bytes b -> bytes (a ++ b).
  Proof. intros. apply Forall_app. split; assumption. Qed.

  Lemma bytes_firstn (l : list N) n : bytes l -> bytes (firstn n l).
  Proof. intros H. apply (bytes_slice l 0 n H). Qed.

  Lemma bytes_skipn (l : list N) n : bytes l -> bytes (skipn n l).
  Proof. intros H. apply (units_skipn W8). exact H. Qed.

  (* ---------- ReadNextEncodedChunk ---------- *)

  Lemma read_next_shape s : EInv s ->
    exists buf1, length buf1 = K /\ bytes buf1 /\ firstn (e_end s - e_start s) buf1 = win s /\
      esr_read_next K s =
        (let n1 := e_end s - e_start s in
         let r := is_read (K - n1) (e_is s) in
         (negb (is_gcount (snd r) =? 0),
          mkE (snd r) (write_at buf1 n1 (fst r)) 0 (n1 + is_gcount (snd r)) (e_type s))).
  Proof.
    intros I. destruct I. unfold esr_read_next, win.
    destruct (e_start s =? K) eqn:E1.
    - apply Nat.eqb_eq in E1. exists (e_buf s). replace (e_end s - e_start s) with 0 by lia.
      repeat split; try assumption. cbn zeta. destruct (is_read (K - 0) (e_is s)). reflexivity.
    - destruct (e_start s =? 0) eqn:E2; cbn [negb].
      + apply Nat.eqb_eq in E2. exists (e_buf s). rewrite E2, Nat.sub_0_r.
        repeat split; try assumption. cbn zeta. destruct (is_read (K - e_end s) (e_is s)). reflexivity.
      + exists (squeeze (e_buf s) (e_start s) (e_end s - e_start s)). repeat split.
        * rewrite squeeze_length; lia.
        * unfold squeeze. apply bytes_app; [apply bytes_slice | apply bytes_skipn]; assumption.
        * apply squeeze_prefix. lia.
        * cbn zeta. destruct (is_read (K - (e_end s - e_start s)) (e_is s)). reflexivity.
  Qed.

  Lemma read_next_spec s : EInv s ->
    let r := esr_read_next K s in
    EInv (snd r) /\ e_start (snd r) = 0 /\ e_type (snd r) = e_type s /\
    exists got, win (snd r) = win s ++ got /\ unread s = got ++ unread (snd r) /\
      fst r = negb (length got =? 0) /\
      (is_eof (e_is (snd r)) = false -> length (win (snd r)) = K) /\
      (is_eof (e_is (snd r)) = true -> unread (snd r) = []) /\
      (fst r = false -> win s = [] -> unread s = []).
  Proof.
    intros I. cbn zeta. destruct (read_next_shape s I) as [buf1 [L1 [B1 [P1 ->]]]]. cbn zeta.
    set (n1 := e_end s - e_start s) in *.
    pose proof (is_read_spec (K - n1) (e_is s)) as R. cbn zeta in R.
    pose proof (is_read_data (K - n1) (e_is s)) as RD.
    destruct (is_read (K - n1) (e_is s)) as [got is1]. cbn [fst snd] in *.
    pose proof (win_length s I) as WL. fold n1 in WL.
    destruct I. unfold win, unread, remaining in *. cbn [e_is e_buf e_start e_end e_type].
    assert (Hn1 : n1 <= K) by lia.
    destruct (is_good (e_is s)) eqn:G.
    - destruct R as [R1 [R2 [R3 [R4 R5]]]]. rewrite e_data0 in R1.
      assert (Lg : length got = Nat.min (K - n1) (length data - is_pos (e_is s))).
      { rewrite R1, slice_length. reflexivity. }
      assert (Bg : bytes got) by (rewrite R1; apply bytes_slice; exact Hdata).
      rewrite R3. split.
      { constructor; cbn [e_is e_buf e_start e_end e_type]; try lia; try congruence.
        - rewrite write_at_length; lia.
        - rewrite R4. intros H. apply negb_true_iff, Nat.eqb_neq in H. lia.
        - unfold write_at. apply bytes_app; [apply bytes_firstn; exact B1|].
          apply bytes_app; [exact Bg | apply bytes_skipn; exact B1]. }
      repeat split.
      exists got. rewrite Nat.sub_0_r.
      assert (Ew : slice (write_at buf1 n1 got) 0 (n1 + length got) = slice (e_buf s) (e_start s) n1 ++ got).
      { rewrite slice_0. rewrite write_at_prefix by lia. rewrite P1. reflexivity. }
      rewrite Ew. repeat split.
      + rewrite R2. rewrite R1. unfold slice.
        rewrite <- (firstn_skipn (K - n1) (skipn (is_pos (e_is s)) data)) at 1. f_equal.
        rewrite skipn_skipn, firstn_length, skipn_length.
        destruct (Nat.le_gt_cases (K - n1) (length data - is_pos (e_is s)));
          [f_equal; lia | rewrite !skipn_all2 by lia; reflexivity].
      + rewrite R4. intros H. apply negb_false_iff, Nat.eqb_eq in H. rewrite app_length, slice_length. lia.
      + rewrite R4, R2. intros H. apply negb_true_iff, Nat.eqb_neq in H. apply skipn_all2. lia.
      + intros H Hw. apply negb_false_iff, Nat.eqb_eq in H.
        assert (n1 = 0) by (rewrite <- WL, Hw; reflexivity).
        apply skipn_all2. lia.
    - destruct R as [R1 [R2 [R3 [R4 R5]]]]. subst got. rewrite R3.
      assert (Eof : is_eof (e_is s) = true).
      { unfold is_good in G. destruct (is_eof (e_is s)); [reflexivity|].
        destruct (is_fail (e_is s)) eqn:F; [apply e_fe0; reflexivity | discriminate]. }
      pose proof (e_ee0 Eof) as Hend.
      split.
      { constructor; cbn [e_is e_buf e_start e_end e_type]; try lia; try congruence.
        - rewrite write_at_length; cbn [length]; lia.
        - unfold write_at. apply bytes_app; [apply bytes_firstn; exact B1|]. cbn [app length].
          apply bytes_skipn; exact B1. }
      repeat split.
      exists []. rewrite Nat.sub_0_r, Nat.add_0_r, app_nil_r.
      assert (Ew : slice (write_at buf1 n1 []) 0 n1 = slice (e_buf s) (e_start s) n1).
      { rewrite slice_0. pose proof (write_at_prefix buf1 n1 [] ltac:(lia)) as Hw.
        cbn [length] in Hw. rewrite Nat.add_0_r, app_nil_r in Hw. rewrite Hw. exact P1. }
      rewrite Ew. repeat split.
      + rewrite R2. reflexivity.
      + rewrite R4, Eof. discriminate.
      + intros _. rewrite R2. apply skipn_all2. lia.
      + intros _ _. apply skipn_all2. lia.
  Qed.
End ESRP.
