(* StreamEswProofs.v — C13, CEncodedStreamWriter: the bytes written are exactly the BOM (when asked
   for) followed by each piece in the configured encoding scheme; under ThrowError a piece is
   refused (and nothing of it written) exactly when it is ill-formed. *)
From BS Require Import Base UtfSpec UtfModel UtfLemmas UtfProofs UtfOrder
  StreamIStream StreamSpec StreamModel StreamLemmas StreamUnits StreamDetProofs.
From Coq Require Import ZifyBool ZifyN ZifyNat.
Local Open Scope nat_scope.
Ltac Zify.zify_post_hook ::= Z.div_mod_to_equations.

(* one Write of a well-formed piece *)
Lemma esw_write_valid out e pol sw cps : Forall scalar cps ->
  esw_write (mkW out e pol) sw (encs sw cps) = (Success, mkW (out ++ text_bytes e cps) e pol).
Proof.
  intros Hs. unfold esw_write. cbn [w_type w_out w_pol]. unfold text_bytes.
  set (dw := utf_width e). set (en := utf_endian e).
  assert (Hgen : forall r, r_code r = Success -> units_bytes LE dw (r_out r) = units_bytes en dw (encs dw cps) ->
            match r_code r with
            | Success => (Success, mkW (out ++ units_bytes LE dw (r_out r)) e pol)
            | c => (c, mkW out e pol)
            end = (Success, mkW (out ++ units_bytes en dw (encs dw cps)) e pol)).
  { intros r -> ->. reflexivity. }
  assert (Hcross : sw <> dw ->
            let r := class_encode dw en sw pol (default_mark dw) (encs sw cps) [] in
            r_code r = Success /\ units_bytes LE dw (r_out r) = units_bytes en dw (encs dw cps)).
  { intros Hne. destruct (class_encode_scheme dw en sw pol (default_mark dw) cps Hne Hs) as [A [_ [_ B]]].
    split; assumption. }
  assert (Hsame16 : sw = W16 -> dw = W16 ->
            let r := class_encode dw en sw pol (default_mark dw) (encs sw cps) [] in
            r_code r = Success /\ units_bytes LE dw (r_out r) = units_bytes en dw (encs dw cps)).
  { intros -> E16. rewrite E16. cbn zeta. unfold class_encode. rewrite copy16_spec.
    pose proof (encs16_last_not_high cps Hs) as HL.
    destruct (rev (encs W16 cps)) as [|lastu rl] eqn:Er.
    - assert (En : encs W16 cps = []) by (rewrite <- (rev_involutive (encs W16 cps)), Er; reflexivity).
      rewrite En. cbn [r_code r_out app]. split; [reflexivity|]. destruct en; reflexivity.
    - rewrite HL. cbn [r_code r_out app]. split; [reflexivity|].
      apply adapt_bytes. apply encs_units. exact Hs. }
  assert (Hsame32 : sw = W32 -> dw = W32 ->
            let r := class_encode dw en sw pol (default_mark dw) (encs sw cps) [] in
            r_code r = Success /\ units_bytes LE dw (r_out r) = units_bytes en dw (encs dw cps)).
  { intros -> E32. rewrite E32. cbn zeta. unfold class_encode. cbn [r_code r_out app]. split; [reflexivity|].
    rewrite map_cast32_id by (apply encs_units; exact Hs).
    apply adapt_bytes. apply encs_units. exact Hs. }
  destruct sw eqn:Esw, dw eqn:Edw.
  - (* char piece to a UTF-8 stream: written as it is *)
    rewrite units_bytes_W8. reflexivity.
  - apply Hgen; apply Hcross; discriminate.
  - apply Hgen; apply Hcross; discriminate.
  - apply Hgen; apply Hcross; discriminate.
  - apply Hgen; apply Hsame16; reflexivity.
  - apply Hgen; apply Hcross; discriminate.
  - apply Hgen; apply Hcross; discriminate.
  - apply Hgen; apply Hcross; discriminate.
  - apply Hgen; apply Hsame32; reflexivity.
Qed.

Lemma esw_writes_valid : forall pieces out e pol,
  Forall (fun p => Forall scalar (snd p)) pieces ->
  esw_writes (mkW out e pol) (map (fun p => (fst p, encs (fst p) (snd p))) pieces) =
    (repeat Success (length pieces),
     mkW (out ++ flat_map (fun p => text_bytes e (snd p)) pieces) e pol).
Proof.
  induction pieces as [|[sw cps] ps IH]; intros out e pol H.
  - cbn. rewrite app_nil_r. reflexivity.
  - inversion H as [|? ? H1 H2]; subst. cbn [map fst snd esw_writes].
    rewrite esw_write_valid by exact H1. rewrite IH by exact H2.
    cbn [repeat length flat_map snd]. rewrite app_assoc. reflexivity.
Qed.

Theorem esw_exact e add_bom pol pieces :
  Forall (fun p => Forall scalar (snd p)) pieces ->
  esw_run e add_bom pol (map (fun p => (fst p, encs (fst p) (snd p))) pieces) =
    (repeat Success (length pieces),
     (if add_bom then bom e else []) ++ flat_map (fun p => text_bytes e (snd p)) pieces).
Proof.
  intros H. unfold esw_run, esw_new. rewrite esw_writes_valid by exact H. reflexivity.
Qed.

(* ThrowError: a piece whose width differs from the stream's is refused exactly when it is
   ill-formed, and then nothing is written *)
Theorem esw_write_throw out e sw str :
  width_eqb sw (utf_width e) = false -> units sw str ->
  let r := esw_write (mkW out e ThrowError) sw str in
  (fst r = Success <-> wf sw str) /\ (fst r <> Success -> snd r = mkW out e ThrowError).
Proof.
  intros Hne Hu. cbn zeta. unfold esw_write. cbn [w_type w_out w_pol].
  set (dw := utf_width e) in *. set (en := utf_endian e).
  destruct (transcode_throw sw dw (default_mark dw) str [] Hne Hu) as [Hiff _]. cbn zeta in Hiff.
  assert (Ecode : r_code (class_encode dw en sw ThrowError (default_mark dw) str []) =
                  r_code (transcode sw dw ThrowError (default_mark dw) str [])).
  { unfold class_encode. destruct sw, dw; try discriminate; reflexivity. }
  assert (Hm : forall r, r_code r = r_code (transcode sw dw ThrowError (default_mark dw) str []) ->
            let res := match r_code r with
                       | Success => (Success, mkW (out ++ units_bytes LE dw (r_out r)) e ThrowError)
                       | c => (c, mkW out e ThrowError)
                       end in
            (fst res = Success <-> wf sw str) /\ (fst res <> Success -> snd res = mkW out e ThrowError)).
  { intros r Er. cbn zeta. rewrite <- Hiff, <- Er. destruct (r_code r); cbn [fst snd]; split; try tauto; try congruence. }
  destruct sw eqn:Esw, dw eqn:Edw; try discriminate; apply Hm; exact Ecode.
Qed.

Example esw_example :
  esw_run Utf16be true ThrowError [(W8, [0x61; 0xC3; 0xA9]%N); (W16, [0xD800]%N); (W32, [0x1F600]%N)] =
    ([Success; UnexpectedEnd; Success], [0xFE; 0xFF; 0x00; 0x61; 0x00; 0xE9; 0xD8; 0x3D; 0xDE; 0x00]%N).
Proof. vm_compute. reflexivity. Qed.
