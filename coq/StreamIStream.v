(* StreamIStream.v — M-IS: abstract std::istream over a byte list.

   This is a MODELLED standard-library component (trusted base; validated by its own correspondence
   op `is` of harness/drv_stream.cpp against std::stringstream, a short-read streambuf and a
   non-seekable streambuf).  Semantics follow [istream.unformatted] / [istream::sentry] of C++17 with
   LWG 60/129/136 and N3168 as implemented by libstdc++:

     sentry(noskipws=true) : good() ? ok : (setstate(failbit), not ok)
     read(s,n)   : gcount=0; sentry; ok -> extract min(n, remaining); gcount = #extracted;
                   fewer than n -> setstate(eofbit|failbit)
     peek()      : gcount=0; sentry; ok -> next byte without extracting, or eofbit at the end
     seekg(pos)  : clear eofbit; sentry; ok and !fail() -> pubseekpos(pos); failure -> failbit
                   (stringbuf: succeeds iff 0 <= pos <= size; default streambuf: always fails)
     tellg()     : sentry; ok and !fail() -> pubseekoff(0,cur) (default streambuf: -1), else -1
     clear()     : rdstate = goodbit
   badbit is never set (the streambufs used do not throw).  How the streambuf delivers the bytes
   (all at once, 1..k per underflow) cannot be observed through read(): xsgetn loops until n bytes
   or end of sequence — validated by the short-read streambuf of the driver.
   No proofs in this file. *)
From BS Require Import Base.
Local Open Scope N_scope.

Record istream := mkIS {
  is_data : list N;        (* the character sequence behind the streambuf *)
  is_pos : nat;            (* get position *)
  is_eof : bool;           (* eofbit *)
  is_fail : bool;          (* failbit *)
  is_seekable : bool;      (* streambuf supports seekpos/seekoff (stringbuf) or not (default) *)
  is_gcount : nat }.       (* result of gcount() *)

Definition stream_of (data : list N) (seekable : bool) : istream :=
  mkIS data 0 false false seekable 0.

Definition is_good (s : istream) : bool := negb (is_eof s) && negb (is_fail s).

Definition is_set_fail (s : istream) : istream :=
  mkIS (is_data s) (is_pos s) (is_eof s) true (is_seekable s) (is_gcount s).
Definition is_set_gcount (n : nat) (s : istream) : istream :=
  mkIS (is_data s) (is_pos s) (is_eof s) (is_fail s) (is_seekable s) n.

(* basic_istream::sentry(is, true) *)
Definition is_sentry (s : istream) : bool * istream :=
  if is_good s then (true, s) else (false, is_set_fail s).

Definition slice {A} (l : list A) (a n : nat) : list A := firstn n (skipn a l).

(* read(buf, n): the extracted bytes and the new stream state *)
Definition is_read (n : nat) (s : istream) : list N * istream :=
  let s0 := is_set_gcount 0 s in
  let (ok, s1) := is_sentry s0 in
  if ok then
    let got := slice (is_data s1) (is_pos s1) n in
    let k := length got in
    let short := negb (k =? n)%nat in
    (got, mkIS (is_data s1) (is_pos s1 + k) (is_eof s1 || short) (is_fail s1 || short) (is_seekable s1) k)
  else ([], s1).

(* peek(): Some byte, or None for traits::eof() *)
Definition is_peek (s : istream) : option N * istream :=
  let s0 := is_set_gcount 0 s in
  let (ok, s1) := is_sentry s0 in
  if ok then
    match nth_error (is_data s1) (is_pos s1) with
    | Some b => (Some b, s1)
    | None => (None, mkIS (is_data s1) (is_pos s1) true (is_fail s1) (is_seekable s1) (is_gcount s1))
    end
  else (None, s1).

(* seekg(pos_type(pos)); pos is a signed stream offset *)
Definition is_seekg (p : Z) (s : istream) : istream :=
  let s0 := mkIS (is_data s) (is_pos s) false (is_fail s) (is_seekable s) (is_gcount s) in
  let (ok, s1) := is_sentry s0 in
  if ok then
    if is_seekable s1 && (0 <=? p)%Z && (p <=? Z.of_nat (length (is_data s1)))%Z
    then mkIS (is_data s1) (Z.to_nat p) (is_eof s1) (is_fail s1) (is_seekable s1) (is_gcount s1)
    else is_set_fail s1
  else s1.

(* tellg(): position or -1 *)
Definition is_tellg (s : istream) : Z * istream :=
  let (ok, s1) := is_sentry s in
  if ok then ((if is_seekable s1 then Z.of_nat (is_pos s1) else (-1)%Z), s1)
  else ((-1)%Z, s1).

Definition is_clear (s : istream) : istream :=
  mkIS (is_data s) (is_pos s) false false (is_seekable s) (is_gcount s).
