(* StreamIllFormed.v — C13: reading ANY sequence of code units (ill-formed sequences included) through
   CEncodedStreamReader, every pair of widths except UTF-8 into char (the raw-append path).
   The byte stream is a prefix (the BOM, or nothing) followed by the bytes of the code units U and by a trailing
   part of a code unit (tail, possibly empty).  Section ILL is generic in what DecodeChunk's decoder does with a
   window, given as a relation dec W o rest c with five properties (the decoder computes it, it is stable under
   extension of the input, Success leaves nothing, UnexpectedEnd leaves less than a window, the codes); result
   esr_ill: for every chunk size the reader's answer is dec on the WHOLE of U followed by the end-of-file rule.
   Where the chunk boundaries fall plays no role: a sequence that the end of the window leaves undecided
   (UnexpectedEnd) stays in the window for the next chunk, and a decision taken inside a window is stable under
   extension.  At end of file an uncompleted sequence or a trailing part of a code unit is answered by the mark
   (Skip) or DecodeError (ThrowError).  Two instances:
     decoded (StreamDecoded.v)  source width <> target width, the validating Transcode loop of the utf family:
                                esr_one_run, esr_ill_skip (skip_spec), esr_ill_throw (the well-formed prefix)
     copied                     same widths (16 -> 16, 32 -> 32): copied unvalidated, a final first half of a
                                surrogate pair held back: esr_samewidth *)
From BS Require Import Base UtfSpec UtfModel UtfLemmas UtfProofs UtfOrder
  StreamIStream StreamSpec StreamModel StreamLemmas StreamUnits StreamDetProofs StreamEsrProofs StreamLossless
  StreamTruncated StreamDecoded.
From Coq Require Import ZifyBool ZifyN ZifyNat.
Local Open Scope nat_scope.
Ltac Zify.zify_post_hook ::= Z.div_mod_to_equations.

(* the validating decoders compute the decoding relation *)
Lemma core_decoded w tgt pol mark W out : width_eqb w tgt = false -> units w W ->
  let r := core_decode w tgt pol mark W out in
  exists o rest pre, decoded w tgt pol mark W o rest (r_code r) /\ W = pre ++ rest /\
    r_out r = out ++ o /\ r_pos r = length pre.
Proof.
  intros Hx HW r.
  assert (E : r = loop (decf w) (encf w tgt) (trunc_cnt w tgt) pol mark (S (length W)) W 0 0 out).
  { subst r. unfold core_decode, transcode. rewrite Hx. destruct w, tgt; try discriminate; reflexivity. }
  rewrite E.
  destruct (loop_decoded w tgt pol mark (S (length W)) W 0 0 out HW ltac:(lia)) as [o [rest [pre [D [E1 [E2 E3]]]]]].
  exists o, rest, pre. repeat split; assumption.
Qed.

Lemma maxlen_le6 w : maxlen w <= 6.
Proof. destruct w; cbn; lia. Qed.

Section ILL.
  Variable K : nat.
  Hypothesis HK4 : K mod 4 = 0.
  Hypothesis HK32 : 32 <= K.
  Variable tgt : width.
  Variable pol : policy.
  Variable mark : list N.
  Variable e : utftype.
  Variable pre : list N.        (* what precedes the payload: the BOM or nothing *)
  Variable U : list N.          (* the code units, any *)
  Variable tail : list N.       (* a trailing part of a code unit *)

  Let w := utf_width e.
  Let en := utf_endian e.
  Let u := unit_size w.
  Let Pay := units_bytes en w U ++ tail.
  Let data := pre ++ Pay.

  Hypothesis HU : units w U.
  Hypothesis Hraw : ~ (w = W8 /\ tgt = W8).        (* not the raw-append path UTF-8 -> char *)

  (* what DecodeChunk's decoder does with a window, as a relation on unit sequences: dec W o rest c = W is turned into
     o, the decoder stops with code c and leaves rest.  Two instances: decoded (StreamDecoded.v, the validating
     transcoders, source width <> target width) and copied (below, the same-width copies) *)
  Variable dec : list N -> list N -> list N -> code -> Prop.
  Hypothesis dec_core : forall W out, units w W ->
    let r := core_decode w tgt pol mark W out in
    exists o rest pre, dec W o rest (r_code r) /\ W = pre ++ rest /\ r_out r = out ++ o /\ r_pos r = length pre.
  Hypothesis dec_app : forall A oA rA cA B, dec A oA rA cA ->
    (cA <> InvalidSequence -> forall o2 r2 c2, dec (rA ++ B) o2 r2 c2 -> dec (A ++ B) (oA ++ o2) r2 c2) /\
    (cA = InvalidSequence -> dec (A ++ B) oA (rA ++ B) InvalidSequence).
  Hypothesis dec_code : forall W o rest c, dec W o rest c ->
    c = Success \/ c = UnexpectedEnd \/ (c = InvalidSequence /\ pol = ThrowError).
  Hypothesis dec_success : forall W o rest, dec W o rest Success -> rest = [].
  Hypothesis dec_short : forall W o rest, units w W -> dec W o rest UnexpectedEnd -> length rest < 8.
  Hypothesis dec_nil : dec [] [] [] Success.
  Hypothesis Hpre : bytes pre.
  Hypothesis Htb : bytes tail.
  Hypothesis Htl : length tail < u.

  Lemma HdataI : bytes data.
  Proof.
    unfold data, Pay. apply Forall_app. split; [exact Hpre|]. apply Forall_app. split; [|exact Htb].
    apply units_bytes_bytes. exact HU.
  Qed.

  Lemma Hu1I : 1 <= u.
  Proof. unfold u. destruct w; cbn; lia. Qed.

  Lemma P_length : length Pay = u * length U + length tail.
  Proof. unfold Pay. rewrite app_length, units_bytes_length. reflexivity. Qed.

  Notation EI := (EInv K data).
  Notation unreadE := (unread data).
  Notation rem := (remaining data).

  (* the payload bytes from unit m on *)
  Definition restI (m : nat) : list N := skipn (u * m) Pay.

  Lemma restI_length m : length (restI m) = length Pay - u * m.
  Proof. unfold restI. apply skipn_length. Qed.

  Lemma restI_skip m k : skipn (u * k) (restI m) = restI (m + k).
  Proof. unfold restI. rewrite skipn_skipn. f_equal. lia. Qed.

  Lemma restI_prefix m a : u * m + a <= u * length U ->
    firstn a (restI m) = firstn a (units_bytes en w (skipn m U)).
  Proof.
    intros H. unfold restI, Pay. rewrite skipn_app. rewrite units_bytes_length. fold u.
    replace (u * m - u * length U) with 0 by lia. cbn [skipn].
    rewrite firstn_app_le by (rewrite skipn_length, units_bytes_length; fold u; lia).
    unfold u. rewrite units_bytes_skipn. reflexivity.
  Qed.

  (* does the stream end short: inside a sequence, at an ill-formed one (ThrowError), or inside a code unit *)
  Definition short (c : code) : bool :=
    match c with Success => negb (length tail =? 0) | _ => true end.

  Definition IInv (s : esr) (out : list N) : Prop :=
    EI s /\ e_type s = e /\
    exists m, m <= length U /\
      (forall o rest c, dec (skipn m U) o rest c -> dec U (out ++ o) rest c) /\
      win s ++ unreadE s = restI m.

  (* what the last ReadChunk of a stream that ends short answers; o is the decoded output *)
  Definition final_stepI (s : esr) (out o : list N) : Prop :=
    match pol with
    | Skip => exists s', esr_read_chunk K tgt pol mark s out = Ok (ChSuccess, s', o ++ mark) /\
                EI s' /\ e_type s' = e /\ rem s' = 0
    | ThrowError => exists s', esr_read_chunk K tgt pol mark s out = Ok (ChDecodeError, s', o) /\ e_type s' = e
    end.

  Lemma read_chunk_ill s out : IInv s out ->
    (rem s = 0 -> short Success = false /\ dec U out [] Success /\
                  exists s', esr_read_chunk K tgt pol mark s out = Ok (ChEndFile, s', out) /\ e_type s' = e) /\
    (0 < rem s ->
       (exists s' out', esr_read_chunk K tgt pol mark s out = Ok (ChSuccess, s', out') /\
                        IInv s' out' /\ rem s' < rem s)
       \/ (exists o rest c, dec U o rest c /\ short c = true /\ final_stepI s out o)).
  Proof.
    intros [I [Ety [m [Hm [Hinv HB]]]]].
    pose proof HdataI as Hd. pose proof Hu1I as Hu1. pose proof P_length as PLen.
    assert (Hrem : rem s = length Pay - u * m).
    { unfold remaining. rewrite <- app_length, HB. apply restI_length. }
    split.
    { (* nothing is left *)
      intros Hz.
      assert (Hm' : m = length U /\ length tail = 0) by nia.
      destruct Hm' as [-> Ht]. split; [unfold short; rewrite Ht; reflexivity|]. split.
      - specialize (Hinv [] [] Success). rewrite skipn_all, app_nil_r in Hinv. apply Hinv. exact dec_nil.
      - destruct (read_chunk_drained K HK4 HK32 tgt pol mark data Hd s out I Hz) as [s' [E1 E2]].
        exists s'. split; [exact E1 | congruence]. }
    intros Hpos.
    unfold final_stepI, esr_read_chunk.
    pose proof (read_next_spec K HK4 HK32 data Hd s I) as RN. cbn zeta in RN.
    pose proof (remaining_read_next K HK4 HK32 data Hd s I) as RR.
    pose proof (win_length K HK4 HK32 data s I) as WL.
    destruct (esr_is_end s) eqn:Eend.
    { exfalso. unfold esr_is_end in Eend. apply andb_true_iff in Eend. destruct Eend as [E1 E2]. apply Nat.eqb_eq in E1.
      assert (Hz : rem s = 0).
      { unfold remaining, unread. rewrite WL, (e_ee K data s I E2), skipn_all. cbn. lia. }
      lia. }
    destruct (esr_read_next K s) as [ok s1]. cbn [fst snd] in *.
    destruct RN as [I1 [St1 [Ty1 [got [G1 [G2 [G3 [G4 [G5 G6]]]]]]]]].
    pose proof (win_length K HK4 HK32 data s1 I1) as WL1.
    assert (HB1 : win s1 ++ unreadE s1 = restI m).
    { rewrite G1, <- app_assoc, <- G2. exact HB. }
    assert (Hne : 0 < e_end s1 - e_start s1).
    { destruct ok.
      - symmetry in G3. apply negb_true_iff, Nat.eqb_neq in G3. rewrite <- WL1, G1, app_length. lia.
      - destruct (win s) as [|x l] eqn:Ew.
        + specialize (G6 eq_refl eq_refl). unfold remaining in Hpos. rewrite Ew, G6 in Hpos. cbn in Hpos. lia.
        + rewrite <- WL1, G1. cbn. lia. }
    replace (negb ok && (e_start s1 =? e_end s1)) with false
      by (symmetry; apply andb_false_iff; right; apply Nat.eqb_neq; lia).
    assert (Ety1 : e_type s1 = e) by congruence.
    set (n := e_end s1) in *. rewrite St1, Nat.sub_0_r in *.
    assert (Hnle : n <= length Pay - u * m).
    { rewrite <- restI_length, <- HB1, app_length, WL1. lia. }
    assert (Ewin : win s1 = firstn n (restI m)).
    { rewrite <- HB1. rewrite <- WL1. symmetry. apply firstn_app_exact. }
    rewrite Ety1.
    (* different widths: never the raw path *)
    assert (Hdisp : forall (raw : outcome (chres * esr * list N)),
              match e with
              | Utf8 => match tgt with W8 => raw | _ => esr_decode_chunk tgt pol mark Utf8 s1 out end
              | Utf16le => esr_decode_chunk tgt pol mark Utf16le s1 out
              | Utf16be => esr_decode_chunk tgt pol mark Utf16be s1 out
              | Utf32le => esr_decode_chunk tgt pol mark Utf32le s1 out
              | Utf32be => esr_decode_chunk tgt pol mark Utf32be s1 out
              end = esr_decode_chunk tgt pol mark e s1 out).
    { intros raw. rewrite (read_chunk_dispatch e tgt raw (fun e' => esr_decode_chunk tgt pol mark e' s1 out)).
      destruct (utftype_eqb e Utf8 && width_eqb tgt W8) eqn:Ed; [|reflexivity].
      exfalso. apply andb_true_iff in Ed. destruct Ed as [Ed1 Ed2].
      apply utftype_eqb_eq in Ed1. apply width_eqb_eq in Ed2.
      apply Hraw. split; [unfold w; rewrite Ed1; reflexivity | exact Ed2]. }
    rewrite Hdisp. clear Hdisp.
    unfold esr_decode_chunk. fold w u en. fold n. rewrite St1, Nat.sub_0_r, Nat.add_0_l.
    set (a := n - n mod u).
    assert (Hq : exists q, a = u * q /\ a <= n /\ n < a + u /\ (n = K -> 8 <= q)).
    { exists (n / u). subst a. pose proof (Nat.div_mod n u ltac:(lia)) as Hdm.
      pose proof (Nat.mod_upper_bound n u ltac:(lia)) as Hmu.
      assert (HK8 : n = K -> 8 <= n / u) by (intros ->; apply (K_aligned K HK4 HK32)).
      set (q := n / u) in *. set (md := n mod u) in *. clearbody q md.
      repeat split; try assumption; nia. }
    destruct Hq as [q [Ha [Han [Hau Hq8]]]].
    assert (Hqm : m + q <= length U) by nia.
    assert (Esl : slice (e_buf s1) 0 a = units_bytes en w (slice U m q)).
    { transitivity (firstn a (win s1)).
      - unfold win. fold n. rewrite St1, Nat.sub_0_r. unfold slice. cbn [skipn].
        rewrite firstn_firstn. rewrite Nat.min_l by lia. reflexivity.
      - rewrite Ewin, firstn_firstn, Nat.min_l by lia. rewrite restI_prefix by nia.
        rewrite Ha. unfold u. rewrite units_bytes_firstn. reflexivity. }
    rewrite Esl. rewrite class_decode_core.
    assert (HW : units w (slice U m q)) by (apply units_slice; exact HU).
    rewrite (window_units en w (slice U m q)) by exact HW.
    destruct (dec_core (slice U m q) out HW) as [oW [restW [preW [DW [EW [Eout Epos]]]]]].
    set (r := core_decode w tgt pol mark (slice U m q) out) in *.
    set (B := skipn (m + q) U).
    assert (EmU : skipn m U = slice U m q ++ B).
    { unfold slice, B. rewrite <- (firstn_skipn q (skipn m U)) at 1. rewrite skipn_skipn. reflexivity. }
    assert (Lsl : length (slice U m q) = q) by (rewrite slice_length; lia).
    assert (Lpr : length preW + length restW = q) by (rewrite <- Lsl, EW, app_length; reflexivity).
    assert (Em'U : skipn (m + r_pos r) U = restW ++ B).
    { rewrite <- skipn_skipn, EmU, EW, <- app_assoc, Epos. apply skipn_app_exact. }
    pose proof (dec_code _ _ _ _ DW) as Hcode.
    assert (Hpol : pol = Skip \/ pol = ThrowError) by (destruct pol; auto).
    assert (Hp : exists p, r_pos r * u = p /\ p = u * r_pos r /\ p <= a).
    { exists (r_pos r * u). repeat split; nia. }
    destruct Hp as [p [Ep [Ep' Hpa]]]. rewrite Ep.
    set (s' := mkE (e_is s1) (e_buf s1) p n (e_type s1)).
    assert (I' : EI s').
    { destruct I1. subst s'. constructor; cbn [e_is e_buf e_start e_end e_type]; try assumption; lia. }
    assert (Hw' : win s' = skipn p (win s1)).
    { unfold win. subst s'. cbn [e_buf e_start e_end]. fold n. rewrite St1, Nat.sub_0_r. unfold slice. cbn [skipn].
      replace n with (p + (n - p)) at 2 by lia. rewrite skipn_firstn_comm'. reflexivity. }
    (* a chunk that leaves the reader going: the invariant moves on by what the window decided *)
    assert (Go : r_code r <> InvalidSequence -> 0 < p ->
              IInv s' (r_out r) /\ rem s' < rem s).
    { intros Hc Hp0. split.
      - split; [exact I'|]. split; [exact Ety1|]. exists (m + r_pos r). split; [lia|]. split.
        + intros o rest c D. rewrite Em'U in D. rewrite Eout, <- app_assoc. apply Hinv. rewrite EmU.
          exact (proj1 (dec_app _ _ _ _ B DW) Hc o rest c D).
        + rewrite <- restI_skip, <- Ep'. rewrite <- HB1. rewrite skipn_app.
          rewrite WL1. replace (p - n) with 0 by lia. cbn [skipn]. rewrite Hw'. reflexivity.
      - rewrite <- RR. unfold remaining. rewrite Hw', skipn_length, WL1. unfold unread. subst s'. cbn [e_is]. lia. }
    destruct (is_eof (e_is s1)) eqn:Eeof.
    - (* the rest of the stream is in the window *)
      assert (Hun : unreadE s1 = []) by (apply G5; reflexivity).
      assert (Hn : n = length Pay - u * m).
      { rewrite Hun, app_nil_r in HB1. rewrite <- WL1, HB1. apply restI_length. }
      assert (HqU : m + q = length U) by nia.
      assert (HB0 : B = []) by (unfold B; rewrite HqU; apply skipn_all).
      assert (Hnt : n = a + length tail) by nia.
      (* what this window decides is the decision on the whole of U *)
      assert (DU : dec U (r_out r) restW (r_code r)).
      { rewrite Eout. apply Hinv. rewrite EmU, HB0, app_nil_r. exact DW. }
      assert (I0 : EI (mkE (e_is s1) (e_buf s1) 0 0 (e_type s1))).
      { destruct I1. constructor; cbn [e_is e_buf e_start e_end e_type]; try assumption; lia. }
      assert (R0 : rem (mkE (e_is s1) (e_buf s1) 0 0 (e_type s1)) = 0).
      { unfold remaining, unread, win. cbn [e_is e_buf e_start e_end]. fold (unreadE s1). rewrite Hun. reflexivity. }
      destruct (r_code r) eqn:Ec.
      + (* Success: everything decoded; a trailing part of a code unit? *)
        pose proof (dec_success _ _ _ DW) as Hr0. subst restW. cbn [length] in Lpr.
        assert (Hpa' : p = a) by nia.
        cbn [e_start e_end s'].
        unfold short. destruct (Nat.eq_dec (length tail) 0) as [Et|Et].
        * left.
          replace (negb (p =? n)) with false by (symmetry; apply negb_false_iff, Nat.eqb_eq; lia).
          eexists _, _. split; [reflexivity|]. apply Go; [discriminate | lia].
        * right.
          replace (negb (p =? n)) with true by (symmetry; apply negb_true_iff, Nat.eqb_neq; lia).
          exists (r_out r), [], Success. split; [exact DU|]. split; [apply negb_true_iff, Nat.eqb_neq; exact Et|].
          destruct Hpol as [Epol|Epol]; rewrite Epol; eexists; (split; [reflexivity|]);
            [split; [exact I0 | split; [exact Ety1 | exact R0]] | exact Ety1].
      + (* InvalidSequence: ThrowError *)
        right. exists (r_out r), restW, InvalidSequence. split; [exact DU|]. split; [reflexivity|].
        destruct Hcode as [Hc|[Hc|[_ Epol]]]; try discriminate. rewrite Epol. eexists. split; [reflexivity | exact Ety1].
      + (* UnexpectedEnd *)
        right. exists (r_out r), restW, UnexpectedEnd. split; [exact DU|]. split; [reflexivity|].
        destruct Hpol as [Epol|Epol]; rewrite Epol; eexists; (split; [reflexivity|]);
          [split; [exact I0 | split; [exact Ety1 | exact R0]] | exact Ety1].
      + exfalso. destruct Hcode as [Hc|[Hc|[Hc _]]]; discriminate.
    - (* a full window, more to come *)
      assert (Hfull : n = K) by (rewrite <- WL1; apply G4; reflexivity).
      specialize (Hq8 Hfull).
      destruct (r_code r) eqn:Ec.
      + left. pose proof (dec_success _ _ _ DW) as Hr0. subst restW. cbn [length] in Lpr.
        eexists _, _. split; [reflexivity|]. apply Go; [discriminate | nia].
      + right. exists (r_out r), (restW ++ B), InvalidSequence. split; [|split; [reflexivity|]].
        * rewrite Eout. apply Hinv. rewrite EmU.
          exact (proj2 (dec_app _ _ _ _ B DW) eq_refl).
        * destruct Hcode as [Hc|[Hc|[_ Epol]]]; try discriminate. rewrite Epol. eexists. split; [reflexivity | exact Ety1].
      + left. pose proof (dec_short _ _ _ HW DW) as Hr3.
        eexists _, _. split; [reflexivity|]. apply Go; [discriminate | nia].
      + exfalso. destruct Hcode as [Hc|[Hc|[Hc _]]]; discriminate.
  Qed.

  (* ---------- the whole run ---------- *)

  Definition ill_result (k : nat) (o : list N) (c : code) : runres :=
    match pol with
    | Skip => RunDone (repeat ChSuccess k ++ [ChEndFile]) (o ++ if short c then mark else []) e
    | ThrowError => RunDone (repeat ChSuccess k ++ [if short c then ChDecodeError else ChEndFile]) o e
    end.

  Lemma loop_ill : forall fuel s out acc, IInv s out -> S (rem s) < fuel ->
    exists k o rest c, dec U o rest c /\
      esr_loop K tgt pol mark fuel s out acc =
      match ill_result k o c with
      | RunDone rs o' ty => RunDone (acc ++ rs) o' ty
      | other => other
      end.
  Proof.
    induction fuel as [|fuel IH]; intros s out acc T Hf; [lia|].
    cbn [esr_loop]. destruct (read_chunk_ill s out T) as [H0 H1].
    destruct (Nat.eq_dec (rem s) 0) as [Hz|Hnz].
    { destruct (H0 Hz) as [Hsh [D [s' [E Ety']]]]. rewrite E.
      exists 0, out, [], Success. split; [exact D|]. unfold ill_result. rewrite Hsh.
      destruct pol; cbn [repeat app]; rewrite ?app_nil_r; congruence. }
    destruct (H1 ltac:(lia)) as [[s' [out' [E [T' Hlt]]]]|[o [rest [c [D [Hsh Hfin]]]]]].
    - rewrite E. destruct (IH s' out' (acc ++ [ChSuccess]) T' ltac:(lia)) as [k [o [rest [c [D Ek]]]]].
      exists (S k), o, rest, c. split; [exact D|]. rewrite Ek. unfold ill_result. destruct pol.
      + rewrite <- app_assoc. reflexivity.
      + rewrite <- app_assoc. reflexivity.
    - unfold final_stepI, ill_result in *. destruct pol.
      + destruct Hfin as [s' [E [I' [Ety' Hz]]]]. rewrite E.
        destruct fuel; [lia|]. cbn [esr_loop].
        destruct (read_chunk_drained K HK4 HK32 tgt Skip mark data HdataI s' (o ++ mark) I' Hz) as [s'' [E2 Ety2]].
        rewrite E2. exists 1, o, rest, c. split; [exact D|]. rewrite Hsh. cbn [repeat app]. rewrite <- app_assoc. cbn [app]. congruence.
      + destruct Hfin as [s' [E Ety']]. rewrite E. exists 0, o, rest, c. split; [exact D|]. rewrite Hsh. cbn [repeat app]. congruence.
  Qed.

  Hypothesis Hne : data <> [].
  Hypothesis Hdt : detect (firstn K data) = Ok (e, length pre).

  Theorem esr_ill sk fuel : S (length data) < fuel ->
    exists k o rest c, dec U o rest c /\
      esr_run K tgt pol mark fuel (stream_of data sk) = ill_result k o c.
  Proof.
    intros Hf. unfold esr_run.
    destruct (new_spec K HK4 HK32 data HdataI sk) as [s0 [E [I0 [Hr [_ Hn]]]]]. rewrite E.
    destruct (Hn Hne) as [e' [off [Ed [Ety Hw]]]].
    rewrite Hdt in Ed. injection Ed as <- <-.
    assert (T0 : IInv s0 []).
    { split; [exact I0|]. split; [exact Ety|]. exists 0. split; [lia|]. split; [intros o rest c D; exact D|].
      rewrite Hw. unfold restI. rewrite Nat.mul_0_r. cbn [skipn]. unfold data. rewrite skipn_app_exact. reflexivity. }
    destruct (loop_ill fuel s0 [] [] T0 ltac:(lia)) as [k [o [rest [c [D Ek]]]]]. exists k, o, rest, c.
    split; [exact D|]. rewrite Ek. unfold ill_result. destruct pol; reflexivity.
  Qed.
End ILL.

(* ---------- the statements ---------- *)

Lemma width_eqb_neq a b : width_eqb a b = false -> a <> b.
Proof. intros H E. subst b. destruct a; discriminate. Qed.

(* ---------- first instance: the validating transcoders, source width <> target width ---------- *)

Lemma esr_ill_decoded K (H4 : K mod 4 = 0) (H32 : 32 <= K) tgt pol mark e pre U tail :
  units (utf_width e) U -> width_eqb (utf_width e) tgt = false ->
  bytes pre -> bytes tail -> length tail < unit_size (utf_width e) ->
  let data := pre ++ units_bytes (utf_endian e) (utf_width e) U ++ tail in
  data <> [] -> detect (firstn K data) = Ok (e, length pre) -> forall sk fuel, S (length data) < fuel ->
  exists k o rest c, decoded (utf_width e) tgt pol mark U o rest c /\
    esr_run K tgt pol mark fuel (stream_of data sk) = ill_result pol mark e tail k o c.
Proof.
  intros HU Hx Hp Ht Hl data Hne Hdt sk fuel Hf.
  apply (esr_ill K H4 H32 tgt pol mark e pre U tail HU) with (dec := decoded (utf_width e) tgt pol mark); try assumption.
  - intros [E1 E2]. rewrite E1, E2 in Hx. discriminate.
  - intros W out HW. exact (core_decoded (utf_width e) tgt pol mark W out Hx HW).
  - intros A oA rA cA B D. exact (decoded_app _ _ _ _ _ _ _ _ B D).
  - intros W o rest c D. pose proof (decoded_code _ _ _ _ _ _ _ _ D) as Hc. destruct pol; intuition.
  - intros W o rest D. exact (decoded_success _ _ _ _ _ _ _ D).
  - intros W o rest HW D. destruct (decoded_unexpected _ _ _ _ _ _ _ D) as [Hr1 Hr2].
    destruct (decoded_suffix _ _ _ _ _ _ _ _ D) as [p Ep].
    assert (HrW : units (utf_width e) rest) by (rewrite Ep in HW; apply units_app in HW; tauto).
    pose proof (decf_trunc _ rest HrW Hr2). pose proof (maxlen_le6 (utf_width e)). lia.
  - constructor.
Qed.

(* for every chunk size: ONE run of the Transcode loop over the whole of U, then the end-of-file rule *)
Theorem esr_one_run K tgt pol mark e pre U tail sk fuel :
  K mod 4 = 0 -> 32 <= K ->
  units (utf_width e) U -> width_eqb (utf_width e) tgt = false ->
  bytes pre -> bytes tail -> length tail < unit_size (utf_width e) ->
  let data := pre ++ units_bytes (utf_endian e) (utf_width e) U ++ tail in
  data <> [] -> detect (firstn K data) = Ok (e, length pre) -> S (length data) < fuel ->
  let r := transcode (utf_width e) tgt pol mark U [] in
  let short := match r_code r with Success => negb (length tail =? 0) | _ => true end in
  exists k, esr_run K tgt pol mark fuel (stream_of data sk) =
    match pol with
    | Skip => RunDone (repeat ChSuccess k ++ [ChEndFile]) (r_out r ++ if short then mark else []) e
    | ThrowError => RunDone (repeat ChSuccess k ++ [if short then ChDecodeError else ChEndFile]) (r_out r) e
    end.
Proof.
  intros H4 H32 HU Hx Hp Ht Hl data Hne Hdt Hf r sh.
  destruct (esr_ill_decoded K H4 H32 tgt pol mark e pre U tail HU Hx Hp Ht Hl Hne Hdt sk fuel Hf) as [k [o [rest [c [D E]]]]].
  destruct (core_decoded (utf_width e) tgt pol mark U [] Hx HU) as [o' [rest' [pre' [D' [_ [Eo _]]]]]].
  assert (Er : core_decode (utf_width e) tgt pol mark U [] = r).
  { subst r. unfold core_decode. destruct (utf_width e), tgt; try discriminate; reflexivity. }
  rewrite Er in D', Eo. cbn [app] in Eo.
  destruct (decoded_fun _ _ _ _ _ _ _ _ D _ _ _ D') as [-> [-> ->]].
  exists k. fold data in E. rewrite E. unfold ill_result, short. subst sh. rewrite Eo. reflexivity.
Qed.

(* Skip: each ill-formed sequence replaced by the mark, the well-formed text preserved - skip_spec (UtfSpec.v) -,
   whatever the chunk size; a trailing part of a code unit adds one mark when the units end complete *)
Theorem esr_ill_skip K tgt mark e pre U tail sk fuel :
  K mod 4 = 0 -> 32 <= K ->
  units (utf_width e) U -> width_eqb (utf_width e) tgt = false ->
  bytes pre -> bytes tail -> length tail < unit_size (utf_width e) ->
  let data := pre ++ units_bytes (utf_endian e) (utf_width e) U ++ tail in
  data <> [] -> detect (firstn K data) = Ok (e, length pre) -> S (length data) < fuel ->
  exists k o n extra, skip_spec (utf_width e) tgt mark U o n /\
    (extra = [] \/ (extra = mark /\ tail <> [])) /\
    esr_run K tgt Skip mark fuel (stream_of data sk) = RunDone (repeat ChSuccess k ++ [ChEndFile]) (o ++ extra) e.
Proof.
  intros H4 H32 HU Hx Hp Ht Hl data Hne Hdt Hf.
  destruct (esr_ill_decoded K H4 H32 tgt Skip mark e pre U tail HU Hx Hp Ht Hl Hne Hdt sk fuel Hf) as [k [o [rest [c [D E]]]]].
  fold data in E. unfold ill_result, short in E.
  destruct (decoded_skip_spec _ _ mark (width_eqb_neq _ _ Hx) U o rest c HU D) as [n Hn].
  pose proof (decoded_code _ _ _ _ _ _ _ _ D) as Hc. cbn in Hc.
  destruct Hc as [-> | ->].
  - rewrite app_nil_r in Hn. destruct (length tail =? 0) eqn:El; cbn [negb] in E.
    + exists k, o, n, []. split; [exact Hn|]. split; [left; reflexivity | exact E].
    + exists k, o, n, mark. split; [exact Hn|]. split; [|exact E].
      right. split; [reflexivity|]. intros ->. discriminate.
  - exists k, (o ++ mark), n, []. split; [exact Hn|]. split; [left; reflexivity|]. rewrite app_nil_r. exact E.
Qed.

(* ThrowError: the run ends with DecodeError at the first ill-formed or uncompleted sequence (or trailing part of a
   code unit), the output is the target encoding of exactly the well-formed prefix; a well-formed whole ends with
   EndFile *)
Theorem esr_ill_throw K tgt mark e pre U tail sk fuel :
  K mod 4 = 0 -> 32 <= K ->
  units (utf_width e) U -> width_eqb (utf_width e) tgt = false ->
  bytes pre -> bytes tail -> length tail < unit_size (utf_width e) ->
  let data := pre ++ units_bytes (utf_endian e) (utf_width e) U ++ tail in
  data <> [] -> detect (firstn K data) = Ok (e, length pre) -> S (length data) < fuel ->
  exists k cps rest, Forall scalar cps /\ U = encs (utf_width e) cps ++ rest /\
    (rest <> [] -> forall s, scalar s -> ~ is_prefix (enc (utf_width e) s) rest) /\
    esr_run K tgt ThrowError mark fuel (stream_of data sk) =
      RunDone (repeat ChSuccess k ++ [if (length rest =? 0) && (length tail =? 0) then ChEndFile else ChDecodeError])
              (encs tgt cps) e.
Proof.
  intros H4 H32 HU Hx Hp Ht Hl data Hne Hdt Hf.
  destruct (esr_ill_decoded K H4 H32 tgt ThrowError mark e pre U tail HU Hx Hp Ht Hl Hne Hdt sk fuel Hf) as [k [o [rest [c [D E]]]]].
  fold data in E. unfold ill_result, short in E.
  destruct (decoded_throw_spec _ _ mark (width_eqb_neq _ _ Hx) U o rest c HU D) as [cps [Hs [EU [Eo [Hc1 Hc2]]]]].
  exists k, cps, rest. split; [exact Hs|]. split; [exact EU|]. split.
  - intros Hr. destruct c; try (apply Hc2; discriminate). exfalso. apply Hr. apply Hc1. reflexivity.
  - rewrite E, Eo. destruct c.
    + rewrite (Hc1 eq_refl). cbn [length Nat.eqb andb]. destruct (length tail =? 0); reflexivity.
    + destruct (Hc2 ltac:(discriminate)) as [Hr _]. destruct rest; [congruence | reflexivity].
    + destruct (Hc2 ltac:(discriminate)) as [Hr _]. destruct rest; [congruence | reflexivity].
    + destruct (Hc2 ltac:(discriminate)) as [Hr _]. destruct rest; [congruence | reflexivity].
Qed.

(* the hypotheses on the detection hold for every stream that begins with a BOM *)
Theorem ill_detect_bom K e rest : 32 <= K -> (e = Utf16le -> starts_00 rest = false) ->
  bytes (bom e) /\ bom e ++ rest <> [] /\ detect (firstn K (bom e ++ rest)) = Ok (e, length (bom e)).
Proof.
  intros HK H. split; [apply bom_bytes|]. split; [destruct e; discriminate|].
  assert (Hbl : length (bom e) <= K) by (destruct e; cbn; lia).
  rewrite firstn_app, (firstn_all2 (bom e)) by exact Hbl.
  apply detect_bom_bytes. intros E16. apply starts_00_firstn. exact (H E16).
Qed.

(* ---------- second instance: the same-width copies (UTF-16 into char16_t, UTF-32 into char32_t) ---------- *)

(* does the sequence end with the first half of a surrogate pair (only the UTF-16 copy looks) *)
Definition ends_high (w : width) (W : list N) : bool :=
  match w with
  | W16 => match rev W with h :: _ => holds_back h | [] => false end
  | _ => false
  end.

(* everything is copied unvalidated, except a final first half of a pair, which is held back *)
Inductive copied (w : width) : list N -> list N -> list N -> code -> Prop :=
| cp_all W : ends_high w W = false -> copied w W W [] Success
| cp_held W h : w = W16 -> holds_back h = true -> copied w (W ++ [h]) W [h] UnexpectedEnd.

Lemma ends_high_app w P X : X <> [] -> ends_high w (P ++ X) = ends_high w X.
Proof.
  intros HX. unfold ends_high. destruct w; try reflexivity. rewrite rev_app_distr.
  destruct (rev X) as [|h r] eqn:E; [|reflexivity].
  exfalso. apply HX. apply (f_equal (@rev N)) in E. rewrite rev_involutive in E. exact E.
Qed.

Lemma ends_high_snoc W h : ends_high W16 (W ++ [h]) = holds_back h.
Proof. unfold ends_high. rewrite rev_app_distr. reflexivity. Qed.

Lemma copied_prefix w P X o r c : X <> [] -> copied w X o r c -> copied w (P ++ X) (P ++ o) r c.
Proof.
  intros HX H. destruct H as [W Hh|W h Hw Hh].
  - apply cp_all. rewrite ends_high_app by exact HX. exact Hh.
  - rewrite app_assoc. apply cp_held; assumption.
Qed.

Lemma copied_nil w o r c : copied w [] o r c -> o = [] /\ r = [] /\ c = Success.
Proof.
  intros H. remember [] as X eqn:EX. destruct H as [W Hh|W h Hw Hh].
  - subst W. repeat split; reflexivity.
  - exfalso. destruct W; discriminate.
Qed.

Lemma copied_app w A oA rA cA B : copied w A oA rA cA ->
  (cA <> InvalidSequence -> forall o2 r2 c2, copied w (rA ++ B) o2 r2 c2 -> copied w (A ++ B) (oA ++ o2) r2 c2) /\
  (cA = InvalidSequence -> copied w (A ++ B) oA (rA ++ B) InvalidSequence).
Proof.
  intros H. destruct H as [W Hh|W h Hw Hh]; (split; [intros _ o2 r2 c2 D | discriminate]).
  - cbn [app] in D. destruct B as [|b B'].
    + destruct (copied_nil _ _ _ _ D) as [-> [-> ->]]. rewrite !app_nil_r. apply cp_all. exact Hh.
    + apply copied_prefix; [discriminate | exact D].
  - rewrite <- app_assoc. apply copied_prefix; [discriminate | exact D].
Qed.

Lemma core_copied w tgt pol mark W out : w = tgt -> w <> W8 -> units w W ->
  let r := core_decode w tgt pol mark W out in
  exists o rest pre, copied w W o rest (r_code r) /\ W = pre ++ rest /\ r_out r = out ++ o /\ r_pos r = length pre.
Proof.
  intros <- Hw HW r. subst r. destruct w; [congruence| |].
  - unfold core_decode. rewrite copy16_spec.
    destruct (rev W) as [|lastu rl] eqn:Er.
    + apply (f_equal (@rev N)) in Er. rewrite rev_involutive in Er. cbn in Er. subst W.
      exists [], [], []. cbn [r_code r_out r_pos app length]. rewrite app_nil_r.
      repeat split. apply cp_all. reflexivity.
    + assert (EW : W = rev rl ++ [lastu]).
      { apply (f_equal (@rev N)) in Er. rewrite rev_involutive in Er. exact Er. }
      destruct (holds_back lastu) eqn:Eh; cbn [r_code r_out r_pos].
      * exists (rev rl), [lastu], (rev rl). rewrite EW. rewrite removelast_last, app_length. cbn [length].
        split; [apply cp_held; [reflexivity | exact Eh]|]. repeat split. lia.
      * exists W, [], W. rewrite app_nil_r. split; [|repeat split].
        apply cp_all. rewrite EW, ends_high_snoc. exact Eh.
  - unfold core_decode. cbn [r_code r_out r_pos]. rewrite (map_cast32_id W HW).
    exists W, [], W. rewrite app_nil_r. split; [|repeat split]. apply cp_all. reflexivity.
Qed.

(* any units, whole or cut: UTF-16 into char16_t, UTF-32 into char32_t copy the units as they are - nothing is
   validated, by design of the same-width paths -, except that a first half of a surrogate pair at the very end
   (UTF-16) and a trailing part of a code unit are answered by the mark (Skip) / DecodeError (ThrowError) *)
Theorem esr_samewidth K tgt pol mark e pre U tail sk fuel :
  K mod 4 = 0 -> 32 <= K ->
  units (utf_width e) U -> utf_width e = tgt -> tgt <> W8 ->
  bytes pre -> bytes tail -> length tail < unit_size (utf_width e) ->
  let data := pre ++ units_bytes (utf_endian e) (utf_width e) U ++ tail in
  data <> [] -> detect (firstn K data) = Ok (e, length pre) -> S (length data) < fuel ->
  let copy := if ends_high tgt U then removelast U else U in
  let short := ends_high tgt U || negb (length tail =? 0) in
  exists k, esr_run K tgt pol mark fuel (stream_of data sk) =
    match pol with
    | Skip => RunDone (repeat ChSuccess k ++ [ChEndFile]) (copy ++ if short then mark else []) e
    | ThrowError => RunDone (repeat ChSuccess k ++ [if short then ChDecodeError else ChEndFile]) copy e
    end.
Proof.
  intros H4 H32 HU Hw H8 Hp Ht Hl data Hne Hdt Hf copy sh.
  assert (Hw8 : utf_width e <> W8) by congruence.
  destruct (esr_ill K H4 H32 tgt pol mark e pre U tail HU) with (dec := copied (utf_width e)) (sk := sk) (fuel := fuel)
    as [k [o [rest [c [D E]]]]]; try assumption.
  - intros [E1 _]. congruence.
  - intros W out HW. exact (core_copied (utf_width e) tgt pol mark W out Hw Hw8 HW).
  - intros A oA rA cA B D. exact (copied_app _ _ _ _ _ B D).
  - intros W o rest c D. destruct D; auto.
  - intros W o rest D. inversion D. reflexivity.
  - intros W o rest _ D. inversion D. cbn. lia.
  - apply cp_all. destruct (utf_width e); reflexivity.
  - exists k. fold data in E. rewrite E. unfold ill_result, short. subst copy sh. rewrite <- Hw.
    inversion D as [W Hh E1|W h Hw16 Hh E1]; subst.
    + rewrite Hh. cbn [orb]. reflexivity.
    + rewrite Hw16, ends_high_snoc, Hh, removelast_last. cbn [orb]. reflexivity.
Qed.

(* ---------- examples: the hypotheses are satisfiable, chunk boundaries inside ill-formed sequences ---------- *)

(* 27 x 'a', E2 82 41 (cut euro sign), C3 A9, FF, 'b', F0 9F (uncompleted at the end): with K = 32 the first window
   ends between E2 82 and 41, with K = 64 everything is in one window *)
Definition ill_ex8 : list N := (repeat 0x61 27 ++ [0xE2; 0x82; 0x41; 0xC3; 0xA9; 0xFF; 0x62; 0xF0; 0x9F])%N.
(* 14 x 'a', lone high surrogate, 'b', lone low surrogate, U+1F600, lone high surrogate at the end *)
Definition ill_ex16 : list N := (repeat 0x61 14 ++ [0xD83D; 0x62; 0xDE00; 0xD83D; 0xDE00; 0xD800])%N.

Lemma ill_example_proof :
  esr_run 32 W16 Skip [0xFFFD]%N 100 (stream_of (bom Utf8 ++ ill_ex8) true)
    = RunDone [ChSuccess; ChSuccess; ChEndFile] (repeat 0x61 27 ++ [0xFFFD; 0xE9; 0xFFFD; 0x62; 0xFFFD])%N Utf8 /\
  esr_run 64 W16 Skip [0xFFFD]%N 100 (stream_of (bom Utf8 ++ ill_ex8) true)
    = RunDone [ChSuccess; ChEndFile] (repeat 0x61 27 ++ [0xFFFD; 0xE9; 0xFFFD; 0x62; 0xFFFD])%N Utf8 /\
  r_out (transcode W8 W16 Skip [0xFFFD]%N ill_ex8 []) = (repeat 0x61 27 ++ [0xFFFD; 0xE9; 0xFFFD; 0x62])%N /\
  esr_run 32 W16 ThrowError [0xFFFD]%N 100 (stream_of (bom Utf8 ++ ill_ex8) true)
    = RunDone [ChDecodeError] (repeat 0x61 27)%N Utf8 /\
  esr_run 32 W8 Skip [0x3F]%N 100 (stream_of (bom Utf16be ++ units_bytes BE W16 ill_ex16 ++ [0xD8]%N) true)
    = RunDone [ChSuccess; ChSuccess; ChEndFile]
        (repeat 0x61 14 ++ [0x3F; 0x62; 0x3F; 0xF0; 0x9F; 0x98; 0x80; 0x3F])%N Utf16be /\
  esr_run 40 W8 ThrowError [0x3F]%N 100 (stream_of (bom Utf16be ++ units_bytes BE W16 ill_ex16) true)
    = RunDone [ChDecodeError] (repeat 0x61 14)%N Utf16be.
Proof. vm_compute. repeat split; reflexivity. Qed.

(* same widths are copied, not validated (by design, as Utf16::Decode / Utf32::Decode into the same width) *)
Lemma ill_example_samewidth_proof :
  esr_run 32 W16 Skip [0xFFFD]%N 100 (stream_of (bom Utf16le ++ units_bytes LE W16 [0x61; 0xDC00; 0x62]%N) true)
    = RunDone [ChSuccess; ChEndFile] [0x61; 0xDC00; 0x62]%N Utf16le.
Proof. vm_compute. reflexivity. Qed.
