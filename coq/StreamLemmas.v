(* StreamLemmas.v — list facts about slice / write_at / squeeze, and the behaviour of the abstract
   istream on its own data (used by all stream proofs). *)
From BS Require Import Base UtfSpec UtfModel StreamIStream StreamSpec StreamModel.
From Coq Require Import ZifyBool ZifyN ZifyNat.
Local Open Scope nat_scope.
Ltac Zify.zify_post_hook ::= Z.div_mod_to_equations.

(* ---------- slice ---------- *)

Lemma slice_length {A} (l : list A) a n : length (slice l a n) = Nat.min n (length l - a).
Proof. unfold slice. rewrite firstn_length, skipn_length. reflexivity. Qed.

Lemma slice_nil {A} (l : list A) a : slice l a 0 = [].
Proof. reflexivity. Qed.

Lemma slice_0 {A} (l : list A) n : slice l 0 n = firstn n l.
Proof. reflexivity. Qed.

Lemma skipn_skipn {A} (l : list A) a b : skipn a (skipn b l) = skipn (b + a) l.
Proof.
  revert l. induction b as [|b IH]; intros l; [reflexivity|].
  destruct l as [|x l]; [rewrite !skipn_nil; reflexivity|]. cbn [skipn Nat.add]. apply IH.
Qed.

Lemma slice_app_split {A} (l : list A) a n m : slice l a (n + m) = slice l a n ++ slice l (a + n) m.
Proof.
  unfold slice. rewrite <- skipn_skipn.
  generalize (skipn a l) as r. clear. intros r. revert r.
  induction n as [|n IH]; intros r; [reflexivity|].
  destruct r as [|x r]; [cbn; rewrite firstn_nil; reflexivity|].
  cbn [Nat.add firstn skipn app]. f_equal. apply IH.
Qed.

Lemma firstn_firstn_min {A} (l : list A) a b : firstn a (firstn b l) = firstn (Nat.min a b) l.
Proof. apply firstn_firstn. Qed.

Lemma skipn_firstn_comm' {A} (l : list A) a n : skipn a (firstn (a + n) l) = firstn n (skipn a l).
Proof.
  revert l. induction a as [|a IH]; intros l; [reflexivity|].
  destruct l as [|x l]; [cbn; rewrite firstn_nil; reflexivity|]. cbn [Nat.add firstn skipn]. apply IH.
Qed.

Lemma slice_slice {A} (l : list A) a n b m : b + m <= n -> slice (slice l a n) b m = slice l (a + b) m.
Proof.
  intros H. unfold slice.
  replace n with (b + (n - b)) by lia. rewrite skipn_firstn_comm'.
  rewrite firstn_firstn. rewrite Nat.min_l by lia. rewrite skipn_skipn. reflexivity.
Qed.

Lemma slice_firstn {A} (l : list A) e a n : a + n <= e -> slice (firstn e l) a n = slice l a n.
Proof. intros H. rewrite <- (slice_0 l e). rewrite slice_slice by lia. reflexivity. Qed.

Lemma slice_length_id {A} (l : list A) a n : slice l a (length (slice l a n)) = slice l a n.
Proof.
  unfold slice. generalize (skipn a l). clear. intros r. revert r.
  induction n as [|n IH]; intros r; [reflexivity|].
  destruct r as [|x r]; [reflexivity|]. cbn [firstn length]. f_equal. apply IH.
Qed.

Lemma slice_all {A} (l : list A) a n : length l <= a -> slice l a n = [].
Proof. intros H. unfold slice. rewrite skipn_all2 by exact H. apply firstn_nil. Qed.

Lemma nth_error_firstn_lt {A} (l : list A) e i : i < e -> nth_error (firstn e l) i = nth_error l i.
Proof.
  revert l e. induction i as [|i IH]; intros l e H; destruct e as [|e]; try lia; destruct l as [|x l]; try reflexivity.
  cbn. apply IH. lia.
Qed.

Lemma nth_error_skipn' {A} (l : list A) a i : nth_error (skipn a l) i = nth_error l (a + i).
Proof.
  revert l. induction a as [|a IH]; intros l; [reflexivity|].
  destruct l as [|x l]; [destruct i; reflexivity|]. cbn. apply IH.
Qed.

Lemma nth_error_slice {A} (l : list A) a n i : i < n -> nth_error (slice l a n) i = nth_error l (a + i).
Proof.
  intros H. unfold slice. rewrite nth_error_firstn_lt by exact H. apply nth_error_skipn'.
Qed.

Lemma slice_one {A} (l : list A) a x : nth_error l a = Some x -> slice l a 1 = [x].
Proof.
  revert l. induction a as [|a IH]; intros l H; destruct l as [|y l]; try discriminate.
  - cbn in H. injection H as ->. reflexivity.
  - cbn in H. apply IH in H. exact H.
Qed.

Lemma firstn_app_le {A} (l r : list A) n : n <= length l -> firstn n (l ++ r) = firstn n l.
Proof. intros H. rewrite firstn_app. replace (n - length l) with 0 by lia. cbn. apply app_nil_r. Qed.

(* ---------- write_at / squeeze ---------- *)

Lemma write_at_length buf off got : off + length got <= length buf -> length (write_at buf off got) = length buf.
Proof.
  intros H. unfold write_at. rewrite !app_length, firstn_length, skipn_length. lia.
Qed.

Lemma write_at_prefix buf off got : off <= length buf ->
  firstn (off + length got) (write_at buf off got) = firstn off buf ++ got.
Proof.
  intros H. unfold write_at. rewrite app_assoc.
  assert (E : length (firstn off buf ++ got) = off + length got).
  { rewrite app_length, firstn_length. lia. }
  rewrite <- E. apply firstn_app_exact.
Qed.

Lemma squeeze_length buf st n : st + n <= length buf -> length (squeeze buf st n) = length buf.
Proof.
  intros H. unfold squeeze. rewrite app_length, slice_length, skipn_length. lia.
Qed.

Lemma squeeze_prefix buf st n : st + n <= length buf -> firstn n (squeeze buf st n) = slice buf st n.
Proof.
  intros H. unfold squeeze.
  assert (E : length (slice buf st n) = n) by (rewrite slice_length; lia).
  rewrite <- E at 1. apply firstn_app_exact.
Qed.

Lemma repeat_length' {A} (x : A) n : length (repeat x n) = n.
Proof. apply repeat_length. Qed.

(* ---------- the abstract istream ---------- *)

Lemma is_read_data n s : is_data (snd (is_read n s)) = is_data s.
Proof.
  unfold is_read, is_sentry, is_set_gcount, is_set_fail. cbn.
  destruct (is_good _); reflexivity.
Qed.

Lemma is_read_seekable n s : is_seekable (snd (is_read n s)) = is_seekable s.
Proof.
  unfold is_read, is_sentry, is_set_gcount, is_set_fail. cbn.
  destruct (is_good _); reflexivity.
Qed.

(* complete description of read(n) *)
Lemma is_read_spec n s :
  let r := is_read n s in
  if is_good s then
    fst r = slice (is_data s) (is_pos s) n /\
    is_pos (snd r) = is_pos s + length (fst r) /\
    is_gcount (snd r) = length (fst r) /\
    is_eof (snd r) = negb (length (fst r) =? n) /\
    is_fail (snd r) = negb (length (fst r) =? n)
  else
    fst r = [] /\ is_pos (snd r) = is_pos s /\ is_gcount (snd r) = 0 /\
    is_eof (snd r) = is_eof s /\ is_fail (snd r) = true.
Proof.
  unfold is_read, is_sentry, is_set_gcount, is_set_fail, is_good. cbn.
  destruct (is_eof s) eqn:E1, (is_fail s) eqn:E2; cbn; rewrite ?E1, ?E2; cbn; repeat split; reflexivity.
Qed.
