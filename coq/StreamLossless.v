(* StreamLossless.v — C13: reading a well-formed text through CEncodedStreamReader gives exactly the
   text in the target encoding, for every chunk size, encoding scheme, BOM choice, target width,
   and wherever the characters fall relative to the chunk boundaries.
   Invariant: window ++ unread stream = the bytes of the code units not yet consumed, and what has
   been consumed is a whole number of characters (Consumed, StreamUnits.v). *)
From BS Require Import Base UtfSpec UtfModel UtfLemmas UtfProofs UtfOrder
  StreamIStream StreamSpec StreamModel StreamLemmas StreamUnits StreamDetProofs StreamEsrProofs.
From Coq Require Import ZifyBool ZifyN ZifyNat.
Local Open Scope nat_scope.
Ltac Zify.zify_post_hook ::= Z.div_mod_to_equations.

Lemma bom_bytes e : bytes (bom e).
Proof. destruct e; repeat constructor. Qed.

Lemma units_bytes_W8' en w l : w = W8 -> units_bytes en w l = l.
Proof. intros ->. apply units_bytes_W8. Qed.

(* the switch of ReadChunk *)
Lemma read_chunk_dispatch {A} (e : utftype) (tgt : width) (raw : A) (dec : utftype -> A) :
  match e with
  | Utf8 => match tgt with W8 => raw | _ => dec Utf8 end
  | Utf16le => dec Utf16le | Utf16be => dec Utf16be | Utf32le => dec Utf32le | Utf32be => dec Utf32be
  end = if utftype_eqb e Utf8 && width_eqb tgt W8 then raw else dec e.
Proof. destruct e, tgt; reflexivity. Qed.

Lemma utftype_eqb_eq a b : utftype_eqb a b = true <-> a = b.
Proof. destruct a, b; cbn; split; congruence. Qed.

Lemma width_eqb_eq a b : width_eqb a b = true <-> a = b.
Proof. destruct a, b; cbn; split; congruence. Qed.

Section LOSSLESS.
  Variable K : nat.
  Hypothesis HK4 : K mod 4 = 0.
  Hypothesis HK32 : 32 <= K.
  Variable tgt : width.
  Variable pol : policy.
  Variable mark : list N.
  Variable e : utftype.
  Variable b : bool.
  Variable text : list N.
  Hypothesis Hs : Forall scalar text.

  Let w := utf_width e.
  Let en := utf_endian e.
  Let u := unit_size w.
  Let U := encs w text.
  Let data := with_bom b e text.

  Lemma Hdata : bytes data.
  Proof.
    unfold data, with_bom. apply Forall_app. split; [destruct b; [apply bom_bytes | constructor]|].
    apply text_bytes_bytes. exact Hs.
  Qed.

  Lemma HU : units w U.
  Proof. apply encs_units. exact Hs. Qed.

  Lemma Hu1 : 1 <= u.
  Proof. unfold u. destruct w; cbn; lia. Qed.

  Notation EI := (EInv K data).
  Notation winE := win.
  Notation unreadE := (unread data).
  Notation rem := (remaining data).

  (* the bytes of the units from index m on *)
  Definition rest_bytes (m : nat) : list N := units_bytes en w (skipn m U).

  Definition LInv (s : esr) (out : list N) : Prop :=
    EI s /\ e_type s = e /\
    exists m, m <= length U /\ Consumed w tgt text m out /\ winE s ++ unreadE s = rest_bytes m.

  Lemma rest_bytes_length m : length (rest_bytes m) = u * (length U - m).
  Proof. unfold rest_bytes. rewrite units_bytes_length, skipn_length. reflexivity. Qed.

  Lemma rest_bytes_skip m k : skipn (u * k) (rest_bytes m) = rest_bytes (m + k).
  Proof. unfold rest_bytes. unfold u. rewrite units_bytes_skipn, skipn_skipn. reflexivity. Qed.

  (* one ReadChunk *)
  Lemma read_chunk_lossless s out : LInv s out ->
    (rem s = 0 -> exists s', esr_read_chunk K tgt pol mark s out = Ok (ChEndFile, s', out) /\ e_type s' = e) /\
    (0 < rem s -> exists s' out', esr_read_chunk K tgt pol mark s out = Ok (ChSuccess, s', out') /\
                    LInv s' out' /\ rem s' < rem s).
  Proof.
    intros [I [Ety [m [Hm [HC HB]]]]].
    pose proof Hdata as Hd. pose proof Hu1 as Hu1.
    unfold esr_read_chunk.
    pose proof (read_next_spec K HK4 HK32 data Hd s I) as RN. cbn zeta in RN.
    pose proof (remaining_read_next K HK4 HK32 data Hd s I) as RR.
    pose proof (win_length K HK4 HK32 data s I) as WL.
    assert (Hrem : rem s = length (rest_bytes m)).
    { unfold remaining. rewrite <- HB, app_length. reflexivity. }
    destruct (esr_is_end s) eqn:Eend.
    { (* window empty and eofbit set: everything has been consumed *)
      unfold esr_is_end in Eend. apply andb_true_iff in Eend. destruct Eend as [E1 E2]. apply Nat.eqb_eq in E1.
      assert (Hz : rem s = 0).
      { unfold remaining, unread. rewrite WL, (e_ee K data s I E2), skipn_all. cbn. lia. }
      split; [intros _; exists s; split; [reflexivity | exact Ety] | intros H; lia]. }
    destruct (esr_read_next K s) as [ok s1]. cbn [fst snd] in *.
    destruct RN as [I1 [St1 [Ty1 [got [G1 [G2 [G3 [G4 [G5 G6]]]]]]]]].
    pose proof (win_length K HK4 HK32 data s1 I1) as WL1.
    assert (HB1 : winE s1 ++ unreadE s1 = rest_bytes m).
    { rewrite G1, <- app_assoc, <- G2. exact HB. }
    destruct (negb ok && (e_start s1 =? e_end s1)) eqn:Eempty.
    { (* nothing arrived and the window is empty *)
      apply andb_true_iff in Eempty. destruct Eempty as [E1 E2]. apply negb_true_iff in E1. apply Nat.eqb_eq in E2.
      rewrite E1 in G3, G6. symmetry in G3. apply negb_false_iff, Nat.eqb_eq in G3.
      assert (Hz : rem s = 0).
      { rewrite <- RR. unfold remaining. rewrite WL1.
        assert (winE s = []).
        { apply (f_equal (@length N)) in G1. rewrite app_length, WL1 in G1. destruct (winE s); [reflexivity | cbn in G1; lia]. }
        rewrite (G6 eq_refl H) in G2. destruct got; [|discriminate]. cbn [app] in G2. rewrite <- G2. cbn. lia. }
      split; [intros _; exists s1; split; [reflexivity | congruence] | intros H; lia]. }
    (* the window is not empty: there is something to decode *)
    assert (Hne : 0 < e_end s1 - e_start s1).
    { apply andb_false_iff in Eempty. destruct Eempty as [E|E].
      - apply negb_false_iff in E. rewrite G3 in E. apply negb_true_iff, Nat.eqb_neq in E.
        rewrite <- WL1, G1, app_length. lia.
      - apply Nat.eqb_neq in E. pose proof (e_se K data s1 I1). lia. }
    assert (Hpos : 0 < rem s).
    { rewrite <- RR. unfold remaining. rewrite WL1. lia. }
    split; [intros H; lia | intros _].
    assert (Ety1 : e_type s1 = e) by congruence.
    set (n := e_end s1) in *. rewrite St1, Nat.sub_0_r in *.
    assert (Ewin : winE s1 = firstn n (rest_bytes m)).
    { rewrite <- HB1. rewrite <- WL1. symmetry. apply firstn_app_exact. }
    assert (Hnle : n <= length (rest_bytes m)).
    { rewrite <- HB1, app_length, WL1. lia. }
    assert (Hunread : unreadE s1 = skipn n (rest_bytes m)).
    { rewrite <- HB1. rewrite <- WL1. symmetry. apply skipn_app_exact. }
    (* the raw path and the decoding paths end the same way: [consumed] bytes leave the window *)
    assert (Fin : forall (s' : esr) (out' : list N) (p k : nat),
              EI s' -> e_type s' = e -> e_is s' = e_is s1 ->
              p = u * k -> 0 < p -> p <= n -> winE s' = skipn p (winE s1) ->
              Consumed w tgt text (m + k) out' ->
              LInv s' out' /\ rem s' < rem s).
    { intros s' out' p k I' Ty' Is' Ep Hp0 Hpn Hw' HC'.
      assert (Hk : m + k <= length U).
      { rewrite rest_bytes_length in Hnle. nia. }
      split.
      - split; [exact I'|]. split; [exact Ty'|]. exists (m + k). split; [exact Hk|]. split; [exact HC'|].
        rewrite <- rest_bytes_skip, <- Ep. rewrite <- HB1. rewrite skipn_app.
        rewrite WL1. replace (p - n) with 0 by lia. cbn [skipn]. rewrite Hw'.
        unfold unread. rewrite Is'. reflexivity.
      - rewrite <- RR. unfold remaining. rewrite Hw', skipn_length, WL1. unfold unread. rewrite Is'. lia. }
    rewrite Ety1.
    assert (Hraw : e = Utf8 -> tgt = W8 ->
              exists s' out', Ok (ChSuccess, mkE (e_is s1) (e_buf s1) 0 0 e, out ++ slice (e_buf s1) 0 n)
                              = Ok (ChSuccess, s', out') /\
                LInv s' out' /\ rem s' < rem s).
    { intros E8 T8. eexists _, _. split; [reflexivity|].
      assert (Ewin0 : slice (e_buf s1) 0 n = winE s1).
      { unfold win. fold n. rewrite St1, Nat.sub_0_r. reflexivity. }
      rewrite Ewin0.
      assert (Hw8 : w = W8) by (unfold w; rewrite E8; reflexivity).
      assert (Hu8 : u = 1) by (unfold u; rewrite Hw8; reflexivity).
      apply (Fin _ _ n n).
      - destruct I1. constructor; cbn [e_is e_buf e_start e_end e_type]; try assumption; lia.
      - reflexivity.
      - reflexivity.
      - rewrite Hu8. lia.
      - lia.
      - lia.
      - unfold win at 1. cbn [e_buf e_start e_end]. cbn. rewrite <- WL1. symmetry. apply skipn_all.
      - (* 8 -> 8: consumed = copied *)
        unfold Consumed in HC |- *.
        replace (width_eqb w tgt) with true in HC |- * by (rewrite Hw8, T8; reflexivity).
        destruct HC as [_ ->]. fold U. split.
        + rewrite rest_bytes_length, Hu8 in Hnle. lia.
        + rewrite Ewin. unfold rest_bytes. rewrite (units_bytes_W8' en w _ Hw8).
          rewrite firstn_add_split. reflexivity. }
    assert (Hdec : (e = Utf8 -> tgt <> W8) ->
              exists s' out', esr_decode_chunk tgt pol mark e s1 out = Ok (ChSuccess, s', out') /\
                LInv s' out' /\ rem s' < rem s).
    { intros Hnraw. unfold esr_decode_chunk. fold w u en. fold n. rewrite St1, Nat.sub_0_r, Nat.add_0_l.
      set (a := n - n mod u).
      assert (Hq : exists q, a = u * q /\ a <= n /\ (n = K -> 8 <= q) /\ (n mod u = 0 -> a = n)).
      { exists (n / u). subst a. pose proof (Nat.div_mod n u ltac:(lia)) as Hdm.
        assert (HK8 : n = K -> 8 <= n / u) by (intros ->; apply (K_aligned K HK4 HK32)).
        set (q := n / u) in *. set (md := n mod u) in *. clearbody q md.
        repeat split; try assumption; nia. }
      destruct Hq as [q [Ha [Han [Hq8 Hqn]]]].
      assert (Hqm : m + q <= length U).
      { rewrite rest_bytes_length in Hnle. nia. }
      assert (Esl : slice (e_buf s1) 0 a = units_bytes en w (slice U m q)).
      { transitivity (firstn a (winE s1)).
        - unfold win. fold n. rewrite St1, Nat.sub_0_r. unfold slice. cbn [skipn].
          rewrite firstn_firstn. rewrite Nat.min_l by lia. reflexivity.
        - rewrite Ewin, firstn_firstn, Nat.min_l by lia. rewrite Ha. unfold rest_bytes, u.
          rewrite units_bytes_firstn. reflexivity. }
      rewrite Esl. rewrite class_decode_core.
      rewrite (window_units en w (slice U m q)) by (apply units_slice; apply HU).
      pose proof (decode_step w tgt pol mark text m out q Hs HC Hqm) as DS. cbn zeta in DS. fold U in DS.
      set (r := core_decode w tgt pol mark (slice U m q) out) in *.
      destruct DS as [D1 [D2 [D3 [D4 [D5 _]]]]].
      assert (Hp : exists p, r_pos r * u = p /\ p = u * r_pos r /\ p <= a).
      { exists (r_pos r * u). repeat split; nia. }
      destruct Hp as [p [Ep [Ep' Hpa]]]. rewrite Ep.
      set (s' := mkE (e_is s1) (e_buf s1) p n (e_type s1)).
      assert (I' : EI s').
      { destruct I1. subst s'. constructor; cbn [e_is e_buf e_start e_end e_type]; try assumption; lia. }
      assert (Hw' : winE s' = skipn p (winE s1)).
      { unfold win. subst s'. cbn [e_buf e_start e_end]. fold n. rewrite St1, Nat.sub_0_r. unfold slice. cbn [skipn].
        replace n with (p + (n - p)) at 2 by lia. rewrite skipn_firstn_comm'. reflexivity. }
      destruct (is_eof (e_is s1)) eqn:Eeof.
      - (* the whole rest of the stream is in the window: whole units, all of them decodable *)
        assert (Hun : unreadE s1 = []) by (apply G5; reflexivity).
        assert (Hn : n = length (rest_bytes m)).
        { rewrite Hunread in Hun. apply (f_equal (@length N)) in Hun. rewrite skipn_length in Hun. cbn in Hun. lia. }
        rewrite rest_bytes_length in Hn.
        assert (Hmod : n mod u = 0) by (rewrite Hn, Nat.mul_comm; apply Nat.mod_mul; lia).
        specialize (Hqn Hmod).
        assert (Hq' : q = length U - m) by nia.
        destruct D1 as [D1|D1].
        + specialize (D4 D1). rewrite D1.
          assert (Hpn : p = n) by nia.
          replace (negb (e_start s' =? e_end s')) with false
            by (subst s'; cbn [e_start e_end]; symmetry; apply negb_false_iff, Nat.eqb_eq; exact Hpn).
          eexists _, _. split; [reflexivity|].
          apply (Fin _ _ p (r_pos r)); try assumption; try reflexivity; try lia; try nia.
        + exfalso. destruct (D5 D1) as [_ [_ D6]]. lia.
      - (* more to come: a character cut by the end of the window stays for the next chunk *)
        assert (Hfull : n = K) by (rewrite <- WL1; apply G4; reflexivity).
        specialize (Hq8 Hfull).
        assert (Hp0 : 0 < p).
        { destruct D1 as [D1|D1]; [specialize (D4 D1) | destruct (D5 D1) as [D6 [D7 _]]]; nia. }
        assert (Hres : exists c, r_code r = c /\ (c = Success \/ c = UnexpectedEnd)) by (eexists; split; [reflexivity | exact D1]).
        destruct Hres as [c [Ec Hc]]. rewrite Ec.
        assert (Hgoal : exists s'0 out', Ok (ChSuccess, s', r_out r) = Ok (ChSuccess, s'0, out') /\
                   LInv s'0 out' /\ rem s'0 < rem s).
        { eexists _, _. split; [reflexivity|].
          apply (Fin _ _ p (r_pos r)); try assumption; try reflexivity; try lia. }
        destruct Hc as [-> | ->]; exact Hgoal. }
    match goal with |- exists s' out', ?X = _ /\ _ =>
      replace X with (if utftype_eqb e Utf8 && width_eqb tgt W8
                      then Ok (ChSuccess, mkE (e_is s1) (e_buf s1) 0 0 e, out ++ slice (e_buf s1) 0 n)
                      else esr_decode_chunk tgt pol mark e s1 out)
        by (symmetry; apply (read_chunk_dispatch e tgt _ (fun e' => esr_decode_chunk tgt pol mark e' s1 out)))
    end.
    destruct (utftype_eqb e Utf8 && width_eqb tgt W8) eqn:Ed.
    - apply andb_true_iff in Ed. destruct Ed as [Ed1 Ed2].
      apply utftype_eqb_eq in Ed1. apply width_eqb_eq in Ed2. apply Hraw; assumption.
    - apply Hdec. intros E8 T8. rewrite E8, T8 in Ed. discriminate.
  Qed.

  (* ---------- the whole run ---------- *)

  Lemma loop_lossless : forall fuel s out acc, LInv s out -> rem s < fuel ->
    exists k, esr_loop K tgt pol mark fuel s out acc =
                RunDone (acc ++ repeat ChSuccess k ++ [ChEndFile]) (encs tgt text) e.
  Proof.
    induction fuel as [|fuel IH]; intros s out acc L Hf; [lia|].
    cbn [esr_loop]. destruct (read_chunk_lossless s out L) as [H0 H1].
    destruct (Nat.eq_dec (rem s) 0) as [Hz|Hnz].
    - destruct (H0 Hz) as [s' [E Ety]]. rewrite E. exists 0. cbn [repeat app]. rewrite Ety. f_equal.
      (* nothing remains: every unit has been consumed *)
      destruct L as [_ [_ [m [Hm [HC HB]]]]].
      assert (Hl : length (rest_bytes m) = 0).
      { rewrite <- HB, app_length. unfold remaining in Hz. exact Hz. }
      rewrite rest_bytes_length in Hl. pose proof Hu1.
      assert (m = length U) by nia. subst m.
      apply (consumed_end w tgt text out Hs HC).
    - destruct (H1 ltac:(lia)) as [s' [out' [E [L' Hlt]]]]. rewrite E.
      destruct (IH s' out' (acc ++ [ChSuccess]) L' ltac:(lia)) as [k Ek].
      exists (S k). rewrite Ek. rewrite <- app_assoc. reflexivity.
  Qed.

  Definition stream_defect : bool :=
    if b then bom_defect e text
    else match text with c :: rest => nobom_defect e rest | [] => false end.

  Hypothesis Hdet : detectable b text.
  Hypothesis Hnd : stream_defect = false.

  Lemma text_bytes_length : length (text_bytes e text) = u * length U.
  Proof. unfold text_bytes. apply units_bytes_length. Qed.

  Lemma data_detect : data <> [] /\
    detect (firstn K data) = Ok (e, length (if b then bom e else [])) .
  Proof.
    unfold data, with_bom, stream_defect in *. destruct b.
    - split; [destruct e; discriminate|].
      assert (Hbl : length (bom e) <= K) by (destruct e; cbn; lia).
      rewrite firstn_app, (firstn_all2 (bom e)) by exact Hbl.
      apply detect_bom_bytes. intros E16. apply starts_00_firstn.
      rewrite starts_00_text16 by (try exact Hs; rewrite E16; reflexivity).
      rewrite E16 in Hnd. unfold bom_defect in Hnd. exact Hnd.
    - destruct Hdet as [Hb|[c [rest [Et Hc]]]]; [discriminate|]. cbn [app length].
      assert (Hs' : Forall scalar rest) by (rewrite Et in Hs; inversion Hs; assumption).
      split.
      + intros H. apply (f_equal (@length N)) in H. rewrite text_bytes_length in H. cbn [length] in H.
        pose proof Hu1. unfold U in H. rewrite Et in H.
        change (encs w (c :: rest)) with (enc w c ++ encs w rest) in H. rewrite app_length in H.
        pose proof (enc_len_pos w c). nia.
      + revert Hnd. rewrite Et. intros Hnd'. apply detect_nobom_prefix; try assumption; try lia.
        pose proof (unit_size_le4 (utf_width e)). lia.
  Qed.

  Theorem esr_lossless sk fuel : length data < fuel ->
    exists k, esr_run K tgt pol mark fuel (stream_of data sk) =
                RunDone (repeat ChSuccess k ++ [ChEndFile]) (encs tgt text) e.
  Proof.
    intros Hf. unfold esr_run.
    destruct (new_spec K HK4 HK32 data Hdata sk) as [s0 [E [I0 [Hr [_ Hne]]]]]. rewrite E.
    destruct data_detect as [Hd Hdt].
    destruct (Hne Hd) as [e' [off [Ed [Ety Hw]]]].
    rewrite Hdt in Ed. injection Ed as <- <-.
    assert (L0 : LInv s0 []).
    { split; [exact I0|]. split; [exact Ety|]. exists 0. split; [lia|]. split; [apply consumed_start|].
      rewrite Hw. unfold rest_bytes. cbn [skipn]. unfold data, with_bom. rewrite skipn_app_exact. reflexivity. }
    destruct (loop_lossless fuel s0 [] [] L0 ltac:(lia)) as [k Ek]. exists k. exact Ek.
  Qed.
End LOSSLESS.

(* U+0000 inside a BOM-less UTF-8 text: read as UTF-16LE *)
Example lossless_refuted_witness :
  esr_run 32 W8 Skip [] 100 (stream_of (with_bom false Utf8 [0x61; 0; 0x62]%N) true) =
    RunDone [ChSuccess; ChEndFile] [0x61]%N Utf16le.
Proof. vm_compute. reflexivity. Qed.
