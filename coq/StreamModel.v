(* StreamModel.v — executable mirrors of
     src/common/binary_stream_reader.{h,cpp}   CBinaryStreamReader            (M-BSR)
     convert_utf.h  StartsWithBom / DetectEncoding(string_view) / DetectEncoding(istream)   (M-DET)
     convert_utf.h  CEncodedStreamReader<TTargetCharType, ChunkSize>         (M-ESR)
     convert_utf.h  WriteBom / CEncodedStreamWriter                          (M-ESW)
   over the abstract istream of StreamIStream.v and the UTF model of UtfModel.v.
   The chunk size K is a parameter everywhere.  Buffers are explicit lists of length K, the
   C++ pointers mStartDataPtr / mEndDataPtr are offsets into them.  The code is mirrored as it is.
   No proofs in this file. *)
From BS Require Import Base UtfSpec UtfModel StreamIStream StreamSpec.
Local Open Scope N_scope.

(* [Fault] = the C++ would read through a pointer outside the valid part of its buffer (or the UTF
   loop would run out of fuel).  Proved unreachable (StreamBsrProofs.bsr_run_ok, StreamDetProofs,
   StreamEsrProofs); kept explicit so that no default value hides such a read. *)
Inductive outcome (A : Type) := Ok (a : A) | Fault.
Arguments Ok {A} a.
Arguments Fault {A}.

Definition bind {A B} (x : outcome A) (f : A -> outcome B) : outcome B :=
  match x with Ok a => f a | Fault => Fault end.
Notation "'do' x <- e ; f" := (bind e (fun x => f)) (at level 200, x pattern, e at level 100, f at level 200).

(* storing [got] at offset [off] of a buffer (istream::read into mEndDataPtr) *)
Definition write_at (buf : list N) (off : nat) (got : list N) : list N :=
  firstn off buf ++ got ++ skipn (off + length got) buf.

(* std::memmove(buffer, buffer + start, n) *)
Definition squeeze (buf : list N) (start n : nat) : list N :=
  slice buf start n ++ skipn n buf.

(* ================================================================== M-BSR *)

Record bsr := mkB {
  b_is : istream;          (* mStream *)
  b_buf : list N;          (* mBuffer[chunk_size] *)
  b_start : nat;           (* mStartDataPtr - mBuffer *)
  b_end : nat;             (* mEndDataPtr - mBuffer *)
  b_spos : nat }.          (* mStreamPos *)

Section BSR.
  Variable K : nat.        (* chunk_size *)

  Definition bsr_is_end (s : bsr) : bool := (b_start s =? b_end s)%nat && is_eof (b_is s).
  Definition bsr_is_failed (s : bsr) : bool := is_fail (b_is s).
  (* mStreamPos - (mEndDataPtr - mStartDataPtr); never wraps: b_end - b_start <= b_spos is an invariant *)
  Definition bsr_get_position (s : bsr) : nat := (b_spos s - (b_end s - b_start s))%nat.

  Definition bsr_read_next_chunk (s : bsr) : bool * bsr :=
    if bsr_is_end s then (false, s)
    else
      let '(buf1, st1, en1) :=
        if (b_start s =? K)%nat then (b_buf s, 0%nat, 0%nat)
        else if negb (b_start s =? 0)%nat
             then (squeeze (b_buf s) (b_start s) (b_end s - b_start s), 0%nat, (b_end s - b_start s)%nat)
             else (b_buf s, b_start s, b_end s) in
      let (got, is1) := is_read (K - en1) (b_is s) in
      let n := is_gcount is1 in
      (negb (n =? 0)%nat, mkB is1 (write_at buf1 en1 got) st1 (en1 + n) (b_spos s + n)).

  (* constructor *)
  Definition bsr_new (is0 : istream) : bsr :=
    snd (bsr_read_next_chunk (mkB is0 (repeat 0 K) 0 0 0)).

  Definition set_start (s : bsr) (st : nat) : bsr := mkB (b_is s) (b_buf s) st (b_end s) (b_spos s).
  Definition set_is (s : bsr) (i : istream) : bsr := mkB i (b_buf s) (b_start s) (b_end s) (b_spos s).

  (* static_cast<std::streamoff>(size_t) *)
  Definition to_streamoff (p : N) : Z :=
    if p <? 0x8000000000000000 then Z.of_N p else (Z.of_N p - 0x10000000000000000)%Z.

  Definition bsr_set_position (s : bsr) (pos : N) : bool * bsr :=
    let cached := b_end s in                                   (* mEndDataPtr - mBuffer *)
    if (N.of_nat (b_spos s - cached) <=? pos) && (pos <? N.of_nat (b_spos s))
    then (true, set_start s (N.to_nat pos - (b_spos s - cached)))
    else
      if pos =? N.of_nat (b_spos s)
      then (true, snd (bsr_read_next_chunk (mkB (b_is s) (b_buf s) 0 0 (N.to_nat pos))))
      else
        (* pos != mStreamPos: mStream.clear(), then seekg *)
        let is1 := is_seekg (to_streamoff pos) (is_clear (b_is s)) in
        if negb (is_fail is1)
        then (true, snd (bsr_read_next_chunk (mkB is1 (b_buf s) 0 0 (N.to_nat pos))))
        else (false, set_is s is1).

  (* "if (mStartDataPtr != mEndDataPtr || ReadNextChunk())" *)
  Definition bsr_ensure (s : bsr) : bool * bsr :=
    if negb (b_start s =? b_end s)%nat then (true, s) else bsr_read_next_chunk s.

  Definition bsr_peek_byte (s : bsr) : outcome (option N * bsr) :=
    let (ok, s1) := bsr_ensure s in
    if ok then
      match nth_error (b_buf s1) (b_start s1) with
      | Some b => if (b_start s1 <? b_end s1)%nat then Ok (Some b, s1) else Fault
      | None => Fault
      end
    else Ok (None, s1).

  Definition bsr_goto_next_byte (s : bsr) : bsr :=
    let (ok, s1) := bsr_ensure s in
    if ok then
      let s2 := set_start s1 (S (b_start s1)) in
      if (b_start s2 =? b_end s2)%nat then snd (bsr_read_next_chunk s2) else s2
    else s1.

  Definition bsr_read_byte (s : bsr) : outcome (option N * bsr) :=
    let (ok, s1) := bsr_ensure s in
    if ok then
      match nth_error (b_buf s1) (b_start s1) with
      | Some b =>
        if (b_start s1 <? b_end s1)%nat then
          let s2 := set_start s1 (S (b_start s1)) in
          Ok (Some b, if (b_start s2 =? b_end s2)%nat then snd (bsr_read_next_chunk s2) else s2)
        else Fault
      | None => Fault
      end
    else Ok (None, s1).

  (* the tail shared by ReadSolidBlock / ReadByChunks: hand out [n] bytes at mStartDataPtr *)
  Definition bsr_take (s : bsr) (n : nat) : outcome (list N * bsr) :=
    if (b_start s + n <=? b_end s)%nat && (b_end s <=? length (b_buf s))%nat then
      let s1 := set_start s (b_start s + n) in
      Ok (slice (b_buf s) (b_start s) n,
          if (b_start s1 =? b_end s1)%nat then set_is s1 (snd (is_peek (b_is s1))) else s1)
    else Fault.

  Definition bsr_read_solid_block (s : bsr) (size : N) : outcome (list N * bsr) :=
    if N.of_nat K <? size then Ok ([], s)
    else
      let n := N.to_nat size in
      if (b_end s <? b_start s + n)%nat then
        let (ok, s1) := bsr_read_next_chunk s in
        if negb ok || (b_end s1 <? b_start s1 + n)%nat then Ok ([], s1)
        else bsr_take s1 n
      else bsr_take s n.

  Definition bsr_read_by_chunks (s : bsr) (remaining : N) : outcome (list N * bsr) :=
    let (ok, s1) := bsr_ensure s in
    if ok then bsr_take s1 (N.to_nat (N.min (N.of_nat (b_end s1 - b_start s1)) remaining))
    else Ok ([], s1).

  Definition bsr_step (s : bsr) (op : bop) : outcome (bres * bsr) :=
    match op with
    | OIsEnd => Ok (RBool (bsr_is_end s), s)
    | OIsFailed => Ok (RBool (bsr_is_failed s), s)
    | OGetPos => Ok (RPos (bsr_get_position s), s)
    | OSetPos p => let (b, s1) := bsr_set_position s p in Ok (RBool b, s1)
    | OPeek => do r <- bsr_peek_byte s; Ok (RByte (fst r), snd r)
    | OGoto => Ok (RUnit, bsr_goto_next_byte s)
    | OReadByte => do r <- bsr_read_byte s; Ok (RByte (fst r), snd r)
    | OSolid n => do r <- bsr_read_solid_block s n; Ok (RBlock (fst r), snd r)
    | OChunks n => do r <- bsr_read_by_chunks s n; Ok (RBlock (fst r), snd r)
    end.

  Fixpoint bsr_steps (s : bsr) (ops : list bop) : outcome (list bres * bsr) :=
    match ops with
    | [] => Ok ([], s)
    | op :: ops' =>
      do r <- bsr_step s op;
      do rest <- bsr_steps (snd r) ops';
      Ok (fst r :: fst rest, snd rest)
    end.

  (* construct a reader on a stream and run an operation list *)
  Definition bsr_run (is0 : istream) (ops : list bop) : outcome (list bres) :=
    do r <- bsr_steps (bsr_new is0) ops; Ok (fst r).

  (* the loop every caller wraps around ReadByChunks (msgpack_readers.cpp ReadValue(string)):
       while (remaining) { chunk = ReadByChunks(remaining); if empty -> error; append; remaining -= size } *)
  Fixpoint bsr_read_blob (fuel : nat) (s : bsr) (remaining : N) (acc : list N) : outcome (option (list N) * bsr) :=
    if remaining =? 0 then Ok (Some acc, s)
    else match fuel with
    | O => Fault
    | S f =>
      do r <- bsr_read_by_chunks s remaining;
      match fst r with
      | [] => Ok (None, snd r)
      | chunk => bsr_read_blob f (snd r) (remaining - N.of_nat (length chunk)) (acc ++ chunk)
      end
    end.
End BSR.

(* ================================================================== M-DET *)

(* StartsWithBom<TUtfTraits>(inputString) *)
Fixpoint starts_with (p l : list N) : bool :=
  match p with
  | [] => true
  | x :: p' => match l with [] => false | y :: l' => (x =? y) && starts_with p' l' end
  end.

(* *reinterpret_cast<const uint16_t*>(&s[i]) / uint32_t on the little-endian host;
   Memory::NativeToLittleEndian is the identity there *)
Definition le16 (b0 b1 : N) : N := b0 + 256 * b1.
Definition le32 (b0 b1 b2 b3 : N) : N := b0 + 256 * b1 + 65536 * b2 + 16777216 * b3.

Definition probe32 (sym : N) : option utftype :=
  if sym =? 0 then None
  else if N.land sym 0xFFFF0000 =? 0 then Some Utf32le
  else if N.land sym 0x0000FFFF =? 0 then Some Utf32be
  else None.

Definition probe16 (sym : N) : option utftype :=
  if sym =? 0 then None
  else if N.land sym 0xFF00 =? 0 then Some Utf16le
  else if N.land sym 0x00FF =? 0 then Some Utf16be
  else None.

(* the analysis loop "for (size_t i = 0; i < inputString.size(); ++i)"; [l] = the bytes from index i *)
Fixpoint det_scan (i size : nat) (l : list N) : outcome utftype :=
  match l with
  | [] => Ok Utf8
  | b0 :: t =>
    do r32 <-
      (if (i mod 4 =? 0)%nat && (i + 4 <=? size)%nat then
         match t with
         | b1 :: b2 :: b3 :: _ => Ok (probe32 (le32 b0 b1 b2 b3))
         | _ => Fault
         end
       else Ok None);
    match r32 with
    | Some e => Ok e
    | None =>
      do r16 <-
        (if (i mod 2 =? 0)%nat && (i + 2 <=? size)%nat then
           match t with
           | b1 :: _ => Ok (probe16 (le16 b0 b1))
           | _ => Fault
           end
         else Ok None);
      match r16 with
      | Some e => Ok e
      | None => det_scan (S i) size t
      end
    end
  end.

(* DetectEncoding(std::string_view, size_t& out_dataOffset) *)
Definition detect (inp : list N) : outcome (utftype * nat) :=
  match inp with
  | [] => Ok (Utf8, 0%nat)
  | _ =>
    if starts_with (bom Utf8) inp then Ok (Utf8, 3%nat)
    else if starts_with (bom Utf32le) inp then Ok (Utf32le, 4%nat)
    else if starts_with (bom Utf32be) inp then Ok (Utf32be, 4%nat)
    else if starts_with (bom Utf16le) inp then Ok (Utf16le, 2%nat)
    else if starts_with (bom Utf16be) inp then Ok (Utf16be, 2%nat)
    else do e <- det_scan 0 (length inp) inp; Ok (e, 0%nat)
  end.

(* DetectEncoding(std::istream&, bool skipBomWhenFound) with tempBufferSize = 128 *)
Definition detect_stream (skip : bool) (s : istream) : outcome (utftype * istream) :=
  let (orig, s1) := is_tellg s in
  let (got, s2) := is_read 128 s1 in
  let n := is_gcount s2 in
  do d <- detect got;
  let s3 := if is_eof s2 then is_clear s2 else s2 in
  let s4 := if skip
            then (if negb (n =? snd d)%nat then is_seekg (orig + Z.of_nat (snd d)) s3 else s3)
            else is_seekg orig s3 in
  Ok (fst d, s4).

(* ================================================================== M-ESR *)

Inductive chres := ChSuccess | ChDecodeError | ChEndFile.

Record esr := mkE {
  e_is : istream;            (* mInputStream *)
  e_buf : list N;            (* mEncodedBuffer[ChunkSize] *)
  e_start : nat;             (* mStartDataPtr - mEncodedBuffer *)
  e_end : nat;               (* mEndDataPtr - mEncodedBuffer *)
  e_type : utftype }.        (* mUtfType (initialised to Utf8) *)

(* reinterpret_cast<char16_t*> / <char32_t*> of an aligned byte range on the little-endian host *)
Fixpoint le_units16 (l : list N) : list N :=
  match l with b0 :: b1 :: t => le16 b0 b1 :: le_units16 t | _ => [] end.
Fixpoint le_units32 (l : list N) : list N :=
  match l with b0 :: b1 :: b2 :: b3 :: t => le32 b0 b1 b2 b3 :: le_units32 t | _ => [] end.
Definition le_units (w : width) (l : list N) : list N :=
  match w with W8 => l | W16 => le_units16 l | W32 => le_units32 l end.

Section ESR.
  Variable K : nat.          (* ChunkSize: static_assert K mod 4 = 0, K >= 32 *)
  Variable tgt : width.      (* sizeof(TTargetCharType) *)
  Variable pol : policy.     (* mEncodingErrorPolicy *)
  Variable mark : list N.    (* mErrorMark ([] for nullptr) *)

  Definition esr_is_end (s : esr) : bool := (e_start s =? e_end s)%nat && is_eof (e_is s).

  Definition esr_read_next (s : esr) : bool * esr :=
    let '(buf1, st1, en1) :=
      if (e_start s =? K)%nat then (e_buf s, 0%nat, 0%nat)
      else if negb (e_start s =? 0)%nat
           then (squeeze (e_buf s) (e_start s) (e_end s - e_start s), 0%nat, (e_end s - e_start s)%nat)
           else (e_buf s, e_start s, e_end s) in
    let (got, is1) := is_read (K - en1) (e_is s) in
    let n := is_gcount is1 in
    (negb (n =? 0)%nat, mkE is1 (write_at buf1 en1 got) st1 (en1 + n) (e_type s)).

  (* constructor *)
  Definition esr_new (is0 : istream) : outcome esr :=
    let (ok, s1) := esr_read_next (mkE is0 (repeat 0 K) 0 0 Utf8) in
    if ok then
      do d <- detect (slice (e_buf s1) (e_start s1) (e_end s1 - e_start s1));
      Ok (mkE (e_is s1) (e_buf s1) (e_start s1 + snd d) (e_end s1) (fst d))
    else Ok s1.

  (* DecodeChunk<TUtf>(outStr) *)
  Definition esr_decode_chunk (e : utftype) (s : esr) (out : list N) : outcome (chres * esr * list N) :=
    let w := utf_width e in
    let u := unit_size w in
    let n := (e_end s - e_start s)%nat in
    let aligned := (n - n mod u)%nat in                       (* GetAlignedEndDataPtr *)
    let units := le_units w (slice (e_buf s) (e_start s) aligned) in
    let r := class_decode w (utf_endian e) tgt pol mark units out in
    let s1 := mkE (e_is s) (e_buf s) (e_start s + r_pos r * u) (e_end s) (e_type s) in
    match r_code r with
    | OutOfFuel => Fault
    | c =>
      if is_eof (e_is s) then
        (* an uncompleted sequence at the end of file, also a trailing part of a code unit *)
        let truncated := match c with
                         | UnexpectedEnd => true
                         | Success => negb (e_start s1 =? e_end s1)%nat
                         | _ => false
                         end in
        if truncated then
          match pol with
          | Skip =>                                             (* HandleEncodingError appends the mark *)
              Ok (ChSuccess, mkE (e_is s) (e_buf s) 0 0 (e_type s), r_out r ++ mark)
          | ThrowError => Ok (ChDecodeError, s1, r_out r)
          end
        else
          match c with
          | Success => Ok (ChSuccess, s1, r_out r)
          | _ => Ok (ChDecodeError, s1, r_out r)
          end
      else
        match c with
        | Success | UnexpectedEnd => Ok (ChSuccess, s1, r_out r)
        | _ => Ok (ChDecodeError, s1, r_out r)
        end
    end.

  (* ReadChunk(outStr) *)
  Definition esr_read_chunk (s : esr) (out : list N) : outcome (chres * esr * list N) :=
    if esr_is_end s then Ok (ChEndFile, s, out)
    else
      let (ok, s1) := esr_read_next s in
      if negb ok && (e_start s1 =? e_end s1)%nat then Ok (ChEndFile, s1, out)
      else
        match e_type s1 with
        | Utf8 =>
          match tgt with
          | W8 => Ok (ChSuccess, mkE (e_is s1) (e_buf s1) 0 0 (e_type s1),
                      out ++ slice (e_buf s1) (e_start s1) (e_end s1 - e_start s1))
          | _ => esr_decode_chunk Utf8 s1 out
          end
        | e => esr_decode_chunk e s1 out
        end.

  (* the user's loop: call ReadChunk until it stops returning Success, at most [fuel] times *)
  Inductive runres :=
  | RunDone (rs : list chres) (out : list N) (ty : utftype)
  | RunHang                                                     (* still Success after [fuel] calls *)
  | RunFault.

  Fixpoint esr_loop (fuel : nat) (s : esr) (out : list N) (acc : list chres) : runres :=
    match fuel with
    | O => RunHang
    | S f =>
      match esr_read_chunk s out with
      | Fault => RunFault
      | Ok (ChSuccess, s1, out1) => esr_loop f s1 out1 (acc ++ [ChSuccess])
      | Ok (c, s1, out1) => RunDone (acc ++ [c]) out1 (e_type s1)
      end
    end.

  Definition esr_run (fuel : nat) (is0 : istream) : runres :=
    match esr_new is0 with
    | Fault => RunFault
    | Ok s => esr_loop fuel s [] []
    end.
End ESR.

(* ================================================================== M-ESW *)

(* Detail::GetDefaultErrorMark<TChar>()  (U+2610) *)
Definition default_mark (w : width) : list N :=
  match w with W8 => [0xE2; 0x98; 0x90] | _ => [0x2610] end.

Record esw := mkW { w_out : list N; w_type : utftype; w_pol : policy }.

(* constructor: WriteBom when addBom *)
Definition esw_new (e : utftype) (add_bom : bool) (pol : policy) : esw :=
  mkW (if add_bom then bom e else []) e pol.

(* Write(std::basic_string_view<TCharType>) with sizeof(TCharType) = [sw] *)
Definition esw_write (s : esw) (sw : width) (str : list N) : code * esw :=
  let e := w_type s in
  let dw := utf_width e in
  match sw, dw with
  | W8, W8 => (Success, mkW (w_out s ++ str) e (w_pol s))        (* written "as is" *)
  | _, _ =>
    let r := class_encode dw (utf_endian e) sw (w_pol s) (default_mark dw) str [] in
    match r_code r with
    | Success => (Success, mkW (w_out s ++ units_bytes LE dw (r_out r)) e (w_pol s))
    | c => (c, s)
    end
  end.

Fixpoint esw_writes (s : esw) (pieces : list (width * list N)) : list code * esw :=
  match pieces with
  | [] => ([], s)
  | (sw, str) :: ps =>
    let (c, s1) := esw_write s sw str in
    let (cs, s2) := esw_writes s1 ps in
    (c :: cs, s2)
  end.

Definition esw_run (e : utftype) (add_bom : bool) (pol : policy) (pieces : list (width * list N)) : list code * list N :=
  let (cs, s) := esw_writes (esw_new e add_bom pol) pieces in (cs, w_out s).
