(* StreamPropProofs.v - proofs moved out of Properties_C13.v (the properties file keeps statements closed by `exact`). *)
From BS Require Import Base UtfSpec UtfModel UtfLemmas StreamIStream StreamSpec StreamModel
  StreamUnits StreamDetProofs StreamEsrProofs StreamLossless StreamTruncated StreamEswProofs.
Local Open Scope nat_scope.

Lemma T_C13_detect_bom_refuted_proof :
  ~ (forall e text, Forall scalar text -> detect (bom e ++ text_bytes e text) = Ok (e, length (bom e))).
Proof.
  intros H. specialize (H Utf16le [0; 0x61]%N).
  rewrite detect_bom_refuted_witness in H. discriminate H. repeat constructor.
Qed.

Lemma T_C13_detect_nobom_refuted_proof :
  ~ (forall e c rest, (0 < c < 128)%N -> Forall scalar rest -> detect (text_bytes e (c :: rest)) = Ok (e, 0)).
Proof.
  intros H. specialize (H Utf8 0x61%N [0; 0x62]%N).
  rewrite detect_nobom_refuted_utf8 in H. discriminate H. lia. repeat constructor.
Qed.

Lemma T_C13_stream_lossless_refuted_proof :
  ~ (forall K tgt pol mark e b text sk fuel,
       K mod 4 = 0 -> 32 <= K -> Forall scalar text -> detectable b text ->
       length (with_bom b e text) < fuel ->
       exists k, esr_run K tgt pol mark fuel (stream_of (with_bom b e text) sk) =
                   RunDone (repeat ChSuccess k ++ [ChEndFile]) (encs tgt text) e).
Proof.
  intros H.
  destruct (H 32 W8 Skip [] Utf8 false [0x61; 0; 0x62]%N true 100) as [k Hk]; try reflexivity; try lia.
  - repeat constructor.
  - right. exists 0x61%N, [0; 0x62]%N. split; [reflexivity | lia].
  - cbn; lia.
  - rewrite lossless_refuted_witness in Hk. discriminate Hk.
Qed.

Lemma T_C13_stream_lossless_outside_proof : forall K tgt pol mark e b text sk fuel,
  K mod 4 = 0 -> 32 <= K -> Forall scalar text -> detectable b text ->
  stream_defect e b text = false ->
  length (with_bom b e text) < fuel ->
  exists k, esr_run K tgt pol mark fuel (stream_of (with_bom b e text) sk) =
              RunDone (repeat ChSuccess k ++ [ChEndFile]) (encs tgt text) e.
Proof.
  intros K tgt pol mark e b text sk fuel H4 H32 Hs Hd Hn Hf.
  exact (esr_lossless K H4 H32 tgt pol mark e b text Hs Hd Hn sk fuel Hf).
Qed.

Lemma T_C13_progress_proof : forall K tgt pol mark data sk fuel,
  K mod 4 = 0 -> 32 <= K -> bytes data -> length data < fuel ->
  exists k c out ty,
    esr_run K tgt pol mark fuel (stream_of data sk) = RunDone (repeat ChSuccess k ++ [c]) out ty /\
    (c = ChEndFile \/ c = ChDecodeError) /\ k <= length data.
Proof.
  intros K tgt pol mark data sk fuel H4 H32 Hb Hf.
  exact (esr_run_total K H4 H32 tgt pol mark data Hb sk fuel Hf).
Qed.

Lemma T_C13_truncated_refuted_proof :
  ~ (forall K tgt pol mark e b done c L sk fuel,
       K mod 4 = 0 -> 32 <= K -> Forall scalar (done ++ [c]) ->
       unit_size (utf_width e) * length (encs (utf_width e) done) < L <
         unit_size (utf_width e) * length (encs (utf_width e) (done ++ [c])) ->
       (b = true \/ starts_ascii done) -> trunc_defect e b done c = false ->
       S (length ((if b then bom e else []) ++ firstn L (text_bytes e (done ++ [c])))) < fuel ->
       exists k, esr_run K tgt pol mark fuel
                   (stream_of ((if b then bom e else []) ++ firstn L (text_bytes e (done ++ [c]))) sk) =
                 trunc_result tgt pol mark e done k).
Proof.
  intros H.
  destruct (H 32 W8 Skip [0x3F]%N Utf8 true [0x61]%N 0x20AC%N 3 true 100) as [k Hk]; try reflexivity; try lia.
  - repeat constructor.
  - cbn; lia.
  - cbn; lia.
  - assert (W : esr_run 32 W8 Skip [0x3F]%N 100
                  (stream_of ((if true then bom Utf8 else []) ++ firstn 3 (text_bytes Utf8 ([0x61]%N ++ [0x20AC]%N))) true) =
                RunDone [ChSuccess; ChEndFile] [0x61; 0xE2; 0x82]%N Utf8) by (vm_compute; reflexivity).
    rewrite W in Hk. unfold trunc_result in Hk. cbn [encs flat_map enc app] in Hk.
    injection Hk as _ Hout. vm_compute in Hout. discriminate Hout.
Qed.

Lemma T_C13_truncated_outside_proof : forall K tgt pol mark e b done c L sk fuel,
  K mod 4 = 0 -> 32 <= K -> Forall scalar (done ++ [c]) ->
  unit_size (utf_width e) * length (encs (utf_width e) done) < L <
    unit_size (utf_width e) * length (encs (utf_width e) (done ++ [c])) ->
  ~ (utf_width e = W8 /\ tgt = W8) ->
  (b = true \/ starts_ascii done) -> trunc_defect e b done c = false ->
  S (length ((if b then bom e else []) ++ firstn L (text_bytes e (done ++ [c])))) < fuel ->
  exists k, esr_run K tgt pol mark fuel
              (stream_of ((if b then bom e else []) ++ firstn L (text_bytes e (done ++ [c]))) sk) =
            trunc_result tgt pol mark e done k.
Proof.
  intros K tgt pol mark e b done c L sk fuel H4 H32 Hs HL Hx Hd Hn Hf.
  exact (esr_truncated K H4 H32 tgt pol mark e b done c L Hs HL Hx Hd Hn sk fuel Hf).
Qed.

Lemma T_C13_truncated_partial_unit_proof : forall K tgt pol mark data e s out,
  K mod 4 = 0 -> 32 <= K -> EInv K data s ->
  is_eof (e_is s) = true -> (e_end s - e_start s) mod unit_size (utf_width e) <> 0 ->
  exists c s' o, esr_decode_chunk tgt pol mark e s out = Ok (c, s', o) /\
    (c = ChDecodeError \/
     (pol = Skip /\ c = ChSuccess /\ e_start s' = e_end s' /\ exists o', o = o' ++ mark)).
Proof.
  intros K tgt pol mark data e s out H4 H32 I He Hm.
  exact (decode_chunk_partial_unit K H4 H32 tgt pol mark data e s out I He Hm).
Qed.

Lemma T_C13_truncated_example_utf8_proof :
  esr_run 32 W16 Skip [0xFFFD]%N 100 (stream_of (firstn 6 (with_bom true Utf8 [0x61; 0x20AC]%N)) true)
    = RunDone [ChSuccess; ChEndFile] [0x61; 0xFFFD]%N Utf8 /\
  esr_run 32 W16 ThrowError [0xFFFD]%N 100 (stream_of (firstn 6 (with_bom true Utf8 [0x61; 0x20AC]%N)) true)
    = RunDone [ChDecodeError] [0x61]%N Utf8.
Proof. split; vm_compute; reflexivity. Qed.

Lemma T_C13_truncated_example_utf16_proof :
  esr_run 32 W8 Skip [0x3F]%N 100 (stream_of (firstn 5 (with_bom true Utf16be [0x61; 0x20AC]%N)) true)
    = RunDone [ChSuccess; ChEndFile] [0x61; 0x3F]%N Utf16be /\
  esr_run 32 W8 ThrowError [0x3F]%N 100 (stream_of (firstn 7 (with_bom true Utf16le [0x61; 0x1F600]%N)) true)
    = RunDone [ChDecodeError] [0x61]%N Utf16le.
Proof. split; vm_compute; reflexivity. Qed.

Lemma T_C13_truncated_example_utf32_proof :
  esr_run 32 W16 Skip [0xFFFD]%N 100 (stream_of (firstn 11 (with_bom true Utf32le [0x61; 0x20AC]%N)) true)
    = RunDone [ChSuccess; ChEndFile] [0x61; 0xFFFD]%N Utf32le.
Proof. vm_compute. reflexivity. Qed.

Lemma T_C13_truncated_example_samewidth_proof :
  esr_run 32 W16 ThrowError [0xFFFD]%N 100 (stream_of (firstn 6 (with_bom true Utf16le [0x61; 0x10FFFF]%N)) true)
    = RunDone [ChDecodeError] [0x61]%N Utf16le /\
  esr_run 32 W8 Skip [0x3F]%N 100 (stream_of (firstn 6 (with_bom true Utf8 [0x61; 0x20AC]%N)) true)
    = RunDone [ChSuccess; ChEndFile] [0x61; 0xE2; 0x82]%N Utf8.
Proof. split; vm_compute; reflexivity. Qed.

Lemma T_C13_lossless_example_proof :
  esr_run 32 W16 ThrowError [] 100
    (stream_of (with_bom true Utf8 (repeat 0x61%N 28 ++ [0x20AC; 0x1F600; 0xE9]%N)) true) =
  RunDone [ChSuccess; ChSuccess; ChEndFile] (repeat 0x61%N 28 ++ [0x20AC; 0xD83D; 0xDE00; 0xE9]%N) Utf8.
Proof. vm_compute. reflexivity. Qed.

(* same widths: UTF-16 into char16_t cut inside a code unit (1 byte of U+20AC), between the halves of a pair
   (2 bytes of U+1F600) and inside the second half (3 bytes); UTF-32 into char32_t cut inside the code unit *)
Lemma T_C13_truncated_example_samewidth16_proof :
  esr_run 32 W16 Skip [0xFFFD]%N 100 (stream_of (firstn 5 (with_bom true Utf16le [0x61; 0x20AC]%N)) true)
    = RunDone [ChSuccess; ChEndFile] [0x61; 0xFFFD]%N Utf16le /\
  esr_run 32 W16 Skip [0xFFFD]%N 100 (stream_of (firstn 6 (with_bom true Utf16be [0x61; 0x1F600]%N)) true)
    = RunDone [ChSuccess; ChEndFile] [0x61; 0xFFFD]%N Utf16be /\
  esr_run 32 W16 ThrowError [0xFFFD]%N 100 (stream_of (firstn 7 (with_bom true Utf16le [0x61; 0x1F600]%N)) true)
    = RunDone [ChDecodeError] [0x61]%N Utf16le /\
  esr_run 32 W32 Skip [0xFFFD]%N 100 (stream_of (firstn 11 (with_bom true Utf32be [0x61; 0x1F600]%N)) true)
    = RunDone [ChSuccess; ChEndFile] [0x61; 0xFFFD]%N Utf32be.
Proof. repeat split; vm_compute; reflexivity. Qed.
