(* StreamSpec.v — independent specifications of the stream family (C10 binary-stream-reader half, C13).
   Nothing here mentions how the C++ computes.

   C10: the reference for CBinaryStreamReader is the trivial in-memory reader: a byte list and a
        position.  Its observations are fixed by the data alone, except (i) how ReadByChunks cuts a
        long value into pieces (any non-empty prefix of the remaining data of at most the requested
        size is a legal piece) and (ii) IsFailed (a stream concept; only required to be true once a
        SetPosition beyond the end has been refused).  The reference is therefore an executable
        acceptor of (operation, result) traces.
   C13: the five Unicode encoding schemes with their byte order marks (Unicode ch. 3, D93-D101,
        Table 2-4 "BOM"), and when a BOM-less text must be recognisable. *)
From BS Require Import Base UtfSpec StreamIStream.
Local Open Scope N_scope.

(* ------------------------------------------------------------------ C10: in-memory reader *)

Inductive bop :=
| OIsEnd | OIsFailed | OGetPos | OSetPos (p : N) | OPeek | OGoto | OReadByte
| OSolid (n : N) | OChunks (n : N).

Inductive bres := RBool (b : bool) | RPos (p : nat) | RByte (o : option N) | RBlock (l : list N) | RUnit.

Fixpoint list_eqb (a b : list N) : bool :=
  match a, b with
  | [], [] => true
  | x :: a', y :: b' => (x =? y) && list_eqb a' b'
  | _, _ => false
  end.

Definition opt_eqb (a b : option N) : bool :=
  match a, b with
  | None, None => true
  | Some x, Some y => x =? y
  | _, _ => false
  end.

(* state of the reference reader: position; [m_failed] once a SetPosition beyond the end was refused
   (the caller's contract is to stop then; nothing more is required of the reader.  That IsFailed
   reports the refusal is stated separately: StreamBsrProofs.bsr_refused_is_failed) *)
Record mem := mkM { m_pos : nat; m_failed : bool }.

(* [mem_step K data m op r] = Some m' iff answering [r] to [op] in state [m] is correct.
   K is the documented limit of ReadSolidBlock ("contiguous block of at most chunk_size bytes"). *)
Definition mem_step (K : nat) (data : list N) (m : mem) (op : bop) (r : bres) : option mem :=
  let pos := m_pos m in
  let len := length data in
  if m_failed m then Some m
  else
    match op, r with
    | OIsEnd, RBool b => if Bool.eqb b (pos =? len)%nat then Some m else None
    | OIsFailed, RBool _ => Some m
    | OGetPos, RPos p => if (p =? pos)%nat then Some m else None
    | OSetPos p, RBool b =>
        if p <=? N.of_nat len
        then (if b then Some (mkM (N.to_nat p) false) else None)
        else (if b then None else Some (mkM pos true))
    | OPeek, RByte o => if opt_eqb o (nth_error data pos) then Some m else None
    | OGoto, RUnit => Some (mkM (if (pos <? len)%nat then S pos else pos) false)
    | OReadByte, RByte o =>
        if opt_eqb o (nth_error data pos)
        then Some (mkM (match o with Some _ => S pos | None => pos end) false)
        else None
    | OSolid n, RBlock l =>
        let want := if (n <=? N.of_nat K) && (N.of_nat pos + n <=? N.of_nat len)
                    then slice data pos (N.to_nat n) else [] in
        if list_eqb l want then Some (mkM (pos + length l) false) else None
    | OChunks n, RBlock l =>
        let k := length l in
        if (N.of_nat k <=? n) && list_eqb l (slice data pos k)
           && (negb (k =? 0)%nat || (n =? 0) || (pos =? len)%nat)
        then Some (mkM (pos + k) false) else None
    | _, _ => None
    end.

Fixpoint mem_accepts (K : nat) (data : list N) (m : mem) (ops : list bop) (rs : list bres) : bool :=
  match ops, rs with
  | [], [] => true
  | op :: ops', r :: rs' =>
      match mem_step K data m op r with
      | Some m' => mem_accepts K data m' ops' rs'
      | None => false
      end
  | _, _ => false
  end.

Definition mem_start : mem := mkM 0 false.

(* ------------------------------------------------------------------ C13: encoding schemes *)

Inductive utftype := Utf8 | Utf16le | Utf16be | Utf32le | Utf32be.

Definition utf_width (e : utftype) : width :=
  match e with Utf8 => W8 | Utf16le | Utf16be => W16 | Utf32le | Utf32be => W32 end.
Definition utf_endian (e : utftype) : endian :=
  match e with Utf16be | Utf32be => BE | _ => LE end.

Definition utftype_eqb (a b : utftype) : bool :=
  match a, b with
  | Utf8, Utf8 | Utf16le, Utf16le | Utf16be, Utf16be | Utf32le, Utf32le | Utf32be, Utf32be => true
  | _, _ => false
  end.

(* U+FEFF serialised in each scheme *)
Definition bom (e : utftype) : list N :=
  match e with
  | Utf8 => [0xEF; 0xBB; 0xBF]
  | Utf16le => [0xFF; 0xFE]
  | Utf16be => [0xFE; 0xFF]
  | Utf32le => [0xFF; 0xFE; 0x00; 0x00]
  | Utf32be => [0x00; 0x00; 0xFE; 0xFF]
  end.

(* the byte stream of a text (list of scalar values) in an encoding scheme *)
Definition text_bytes (e : utftype) (text : list N) : list N :=
  units_bytes (utf_endian e) (utf_width e) (encs (utf_width e) text).

Definition with_bom (b : bool) (e : utftype) (text : list N) : list N :=
  (if b then bom e else []) ++ text_bytes e text.

(* C13: "always when it starts with a BOM, and without a BOM whenever the text begins with an
   ASCII character other than NUL" *)
Definition starts_ascii (text : list N) : Prop :=
  exists c rest, text = c :: rest /\ 0 < c < 128.
Definition detectable (b : bool) (text : list N) : Prop := b = true \/ starts_ascii text.

(* width of one code unit in bytes *)
Definition unit_size (w : width) : nat := match w with W8 => 1 | W16 => 2 | W32 => 4 end.
