(* StreamTruncated.v — C13: a stream that ends in the middle of a character.
   Text = done ++ [c]; the byte stream is the BOM (optional) followed by the first L bytes of the
   text's encoding, with L strictly inside the bytes of the last character c.  For every pair of source
   and target widths except UTF-8 into char (raw append, known finding F39): under Skip the output is
   exactly the complete prefix followed by the mark and the reader then reports EndFile; under ThrowError
   the last result is DecodeError and the output is exactly the complete prefix.  No hang, no silent loss.
   Same widths (UTF-16 into char16_t, UTF-32 into char32_t) go through the copy paths of Utf16::Decode /
   Utf32::Decode: a stream cut inside a code unit leaves a partial unit in the window at end of file, a
   stream cut between the halves of a surrogate pair leaves the first half held back by the copy
   (UnexpectedEnd); both are answered by the mark / DecodeError. *)
From BS Require Import Base UtfSpec UtfModel UtfLemmas UtfProofs UtfOrder
  StreamIStream StreamSpec StreamModel StreamLemmas StreamUnits StreamDetProofs StreamEsrProofs StreamLossless.
From Coq Require Import ZifyBool ZifyN ZifyNat.
Local Open Scope nat_scope.
Ltac Zify.zify_post_hook ::= Z.div_mod_to_equations.

(* character boundaries of an encoded text *)
Lemma encs_firstn_mono w text : forall j j', j < j' -> j' <= length text ->
  length (encs w (firstn j text)) < length (encs w (firstn j' text)).
Proof.
  intros j j' Hlt Hle.
  replace j' with (j + (j' - j)) by lia. rewrite firstn_add_split, encs_app, app_length.
  assert (H : 1 <= length (firstn (j' - j) (skipn j text))).
  { rewrite firstn_length, skipn_length. lia. }
  destruct (firstn (j' - j) (skipn j text)) as [|x l]; [cbn in H; lia|].
  change (encs w (x :: l)) with (enc w x ++ encs w l). rewrite app_length.
  pose proof (enc_len_pos w x). lia.
Qed.

Lemma encs_firstn_le w text j : length (encs w (firstn j text)) <= length (encs w text).
Proof.
  rewrite <- (firstn_skipn j text) at 2. rewrite encs_app, app_length. lia.
Qed.

(* a drained reader answers EndFile *)
Lemma read_chunk_drained K (HK4 : K mod 4 = 0) (HK32 : 32 <= K) tgt pol mark data (Hd : bytes data) s out :
  EInv K data s -> remaining data s = 0 ->
  exists s', esr_read_chunk K tgt pol mark s out = Ok (ChEndFile, s', out) /\ e_type s' = e_type s.
Proof.
  intros I Hz. unfold esr_read_chunk.
  destruct (esr_is_end s) eqn:Eend; [exists s; split; reflexivity|].
  pose proof (read_next_spec K HK4 HK32 data Hd s I) as RN. cbn zeta in RN.
  destruct (esr_read_next K s) as [ok s1]. cbn [fst snd] in *.
  destruct RN as [I1 [St1 [Ty1 [got [G1 [G2 [G3 _]]]]]]].
  pose proof (win_length K HK4 HK32 data s1 I1) as WL1.
  unfold remaining in Hz.
  assert (Hw : win s = []) by (destruct (win s); [reflexivity | cbn in Hz; lia]).
  assert (Hu : unread data s = []) by (destruct (unread data s); [reflexivity | cbn in Hz; lia]).
  rewrite Hu in G2. destruct got; [|discriminate]. rewrite Hw in G1. cbn [app] in G1.
  cbn [length Nat.eqb negb] in G3. subst ok. cbn [negb andb].
  replace (e_start s1 =? e_end s1) with true
    by (symmetry; apply Nat.eqb_eq; rewrite G1 in WL1; cbn in WL1; pose proof (e_se K data s1 I1); lia).
  exists s1. split; [reflexivity | exact Ty1].
Qed.

(* ---------- the copy paths (16 -> 16, 32 -> 32) at the cut ---------- *)
Lemma rev_head_skipn {A} (X : list A) m x r : rev X = x :: r -> skipn m X <> [] ->
  exists r', rev (skipn m X) = x :: r'.
Proof.
  intros HX Hne. rewrite <- (firstn_skipn m X), rev_app_distr in HX.
  destruct (rev (skipn m X)) as [|y r'] eqn:E.
  - exfalso. apply Hne. apply (f_equal (@rev A)) in E. rewrite rev_involutive in E. exact E.
  - cbn [app] in HX. injection HX as -> _. eexists. reflexivity.
Qed.

(* same source and target width (16 or 32 bit), text = done ++ [c]: what the copy path does with a window of
   q units starting at unit m when the window ends at or one unit after the last complete character *)
Lemma same_width_step w tgt pol mark done c m q out :
  w = tgt -> w <> W8 -> Forall scalar (done ++ [c]) ->
  let U' := encs w (done ++ [c]) in
  let D := length (encs w done) in
  m <= D -> m + q < length U' ->
  let r := core_decode w tgt pol mark (slice U' m q) out in
  (r_code r = UnexpectedEnd -> S (r_pos r) = q) /\
  (m + q = S D -> r_code r = UnexpectedEnd) /\
  (m + q = D -> r_code r = Success) /\
  m + q <= S D.
Proof.
  intros <- Hw Hs U' D Hm Hq r.
  assert (EU : U' = encs w done ++ enc w c).
  { unfold U'. rewrite encs_app. cbn [encs flat_map]. rewrite app_nil_r. reflexivity. }
  assert (Hc : scalar c).
  { apply Forall_app in Hs. destruct Hs as [_ Hs]. inversion Hs; assumption. }
  assert (Hsd : Forall scalar done) by (apply Forall_app in Hs; apply Hs).
  assert (LU : length U' = D + length (enc w c)) by (rewrite EU, app_length; reflexivity).
  assert (Lsl : length (slice U' m q) = q) by (rewrite slice_length; lia).
  destruct w; [congruence| |].
  - (* W16 *)
    assert (Le : length (enc W16 c) <= 2).
    { cbn [enc]. unfold enc16. destruct (c <? 0x10000)%N; cbn; lia. }
    subst r. unfold core_decode. rewrite copy16_spec.
    split; [|split; [|split]].
    + destruct (rev (slice U' m q)) as [|lastu rl] eqn:Er; [discriminate|].
      destruct (holds_back lastu); cbn [r_code r_pos]; [|discriminate]. intros _. rewrite Lsl.
      apply (f_equal (@length N)) in Er. rewrite rev_length, Lsl in Er. cbn in Er. lia.
    + intros HSD.
      (* the window ends with the first half of the cut pair *)
      assert (L2 : length (enc W16 c) = 2) by lia.
      cbn [enc] in L2, EU. unfold enc16 in L2, EU. destruct (c <? 0x10000)%N eqn:Elt; [cbn in L2; lia|].
      set (hi := (0xD800 + (c - 0x10000) / 1024)%N) in *. set (lo := (0xDC00 + (c - 0x10000) mod 1024)%N) in *.
      assert (Esl : slice U' m q = skipn m (encs W16 done) ++ [hi]).
      { unfold slice. rewrite EU. rewrite skipn_app. replace (m - length (encs W16 done)) with 0 by (fold D; lia).
        cbn [skipn]. rewrite firstn_app. rewrite skipn_length. fold D.
        replace (q - (D - m)) with 1 by lia. cbn [firstn].
        rewrite firstn_all2 by (rewrite skipn_length; fold D; lia). reflexivity. }
      rewrite Esl, rev_app_distr. cbn [rev app].
      assert (Hh : holds_back hi = true).
      { unfold holds_back, hi. apply scalar_lt in Hc. lia. }
      rewrite Hh. reflexivity.
    + intros HD.
      assert (Esl : slice U' m q = skipn m (encs W16 done)).
      { unfold slice. rewrite EU. rewrite skipn_app. replace (m - length (encs W16 done)) with 0 by (fold D; lia).
        cbn [skipn]. rewrite firstn_app. rewrite skipn_length. fold D.
        replace (q - (D - m)) with 0 by lia. cbn [firstn]. rewrite app_nil_r.
        apply firstn_all2. rewrite skipn_length. fold D. lia. }
      rewrite Esl.
      destruct (rev (skipn m (encs W16 done))) as [|lastu rl] eqn:Er; [reflexivity|].
      pose proof (encs16_last_not_high done Hsd) as HL.
      destruct (rev (encs W16 done)) as [|l0 rl0] eqn:Er0.
      { exfalso. apply (f_equal (@rev N)) in Er0. rewrite rev_involutive in Er0. cbn in Er0.
        rewrite Er0 in Er. rewrite skipn_nil in Er. discriminate. }
      destruct (rev_head_skipn (encs W16 done) m l0 rl0 Er0) as [r' Er'].
      { intros E0. rewrite E0 in Er. discriminate. }
      rewrite Er in Er'. injection Er' as -> _. rewrite HL. reflexivity.
    + lia.
  - (* W32 *)
    assert (Le : length (enc W32 c) = 1) by reflexivity.
    subst r. unfold core_decode. cbn [r_code r_pos].
    split; [discriminate|]. split; [intros; lia|]. split; [reflexivity | lia].
Qed.

Section TRUNC.
  Variable K : nat.
  Hypothesis HK4 : K mod 4 = 0.
  Hypothesis HK32 : 32 <= K.
  Variable tgt : width.
  Variable pol : policy.
  Variable mark : list N.
  Variable e : utftype.
  Variable b : bool.
  Variable done : list N.       (* the complete characters *)
  Variable c : N.               (* the character that is cut *)
  Variable L : nat.             (* payload bytes that made it into the stream *)
  Hypothesis Hs : Forall scalar (done ++ [c]).

  Let text' := done ++ [c].
  Let w := utf_width e.
  Let en := utf_endian e.
  Let u := unit_size w.
  Let U' := encs w text'.
  Let D := length (encs w done).
  Let B' := text_bytes e text'.
  Let data := (if b then bom e else []) ++ firstn L B'.

  Hypothesis HL : u * D < L < u * length U'.
  Hypothesis Hraw : ~ (w = W8 /\ tgt = W8).        (* not the raw-append path UTF-8 -> char *)

  Lemma HdataT : bytes data.
  Proof.
    unfold data. apply Forall_app. split; [destruct b; [apply bom_bytes | constructor]|].
    apply Forall_firstn. apply text_bytes_bytes. exact Hs.
  Qed.

  Lemma Hu1T : 1 <= u.
  Proof. unfold u. destruct w; cbn; lia. Qed.

  Lemma HUT : units w U'.
  Proof. apply encs_units. exact Hs. Qed.

  Lemma U'_split : U' = encs w done ++ enc w c.
  Proof. unfold U', text'. rewrite encs_app. cbn [encs flat_map]. rewrite app_nil_r. reflexivity. Qed.

  Lemma B'_length : length B' = u * length U'.
  Proof. unfold B', text_bytes. apply units_bytes_length. Qed.

  Notation EI := (EInv K data).
  Notation unreadE := (unread data).
  Notation rem := (remaining data).

  (* the payload bytes from unit m on that exist in the cut stream *)
  Definition avail (m : nat) : list N := skipn (u * m) (firstn L B').

  Lemma avail_length m : length (avail m) = L - u * m.
  Proof.
    unfold avail. rewrite skipn_length, firstn_length, B'_length. pose proof HL. lia.
  Qed.

  Lemma avail_skip m k : skipn (u * k) (avail m) = avail (m + k).
  Proof. unfold avail. rewrite skipn_skipn. f_equal. lia. Qed.

  Lemma avail_prefix m a : u * m + a <= L ->
    firstn a (avail m) = firstn a (units_bytes en w (skipn m U')).
  Proof.
    intros H. unfold avail.
    replace L with (u * m + (L - u * m)) by lia. rewrite skipn_firstn_comm'.
    rewrite firstn_firstn, Nat.min_l by lia. unfold B', text_bytes. fold w en U'. unfold u.
    rewrite units_bytes_skipn. reflexivity.
  Qed.

  (* a character boundary that lies before the end of the text lies before the cut character *)
  Lemma boundary_le_D j : j <= length text' -> length (encs w (firstn j text')) < length U' ->
    j <= length done /\ length (encs w (firstn j text')) <= D /\
    (length (encs w (firstn j text')) = D -> firstn j text' = done).
  Proof.
    intros Hj Hlt.
    assert (Hlen : length text' = S (length done)) by (unfold text'; rewrite app_length; cbn; lia).
    assert (Hjd : j <= length done).
    { destruct (Nat.le_gt_cases j (length done)); [assumption|]. exfalso.
      assert (j = length text') by lia. subst j. rewrite firstn_all in Hlt. unfold U' in Hlt. lia. }
    assert (Ef : firstn j text' = firstn j done).
    { unfold text'. rewrite firstn_app. replace (j - length done) with 0 by lia. cbn. apply app_nil_r. }
    split; [exact Hjd|]. rewrite Ef. split; [apply encs_firstn_le|].
    intros HD. destruct (Nat.eq_dec j (length done)) as [->|Hne]; [apply firstn_all|].
    exfalso. pose proof (encs_firstn_mono w done j (length done) ltac:(lia) (le_n _)) as Hm.
    rewrite firstn_all in Hm. unfold D in HD. lia.
  Qed.

  Definition TInv (s : esr) (out : list N) : Prop :=
    EI s /\ e_type s = e /\
    exists m, m <= D /\ Consumed w tgt text' m out /\ win s ++ unreadE s = avail m.

  (* what the last ReadChunk (the one that meets the cut) answers *)
  Definition final_step (s : esr) (out : list N) : Prop :=
    match pol with
    | Skip => exists s', esr_read_chunk K tgt pol mark s out = Ok (ChSuccess, s', encs tgt done ++ mark) /\
                EI s' /\ e_type s' = e /\ rem s' = 0
    | ThrowError => exists s', esr_read_chunk K tgt pol mark s out = Ok (ChDecodeError, s', encs tgt done) /\
                      e_type s' = e
    end.

  Lemma read_chunk_trunc s out : TInv s out ->
    (exists s' out', esr_read_chunk K tgt pol mark s out = Ok (ChSuccess, s', out') /\
                     TInv s' out' /\ rem s' < rem s)
    \/ final_step s out.
  Proof.
    intros [I [Ety [m [Hm [HC HB]]]]].
    pose proof HdataT as Hd. pose proof Hu1T as Hu1. pose proof HL as HL'.
    unfold final_step, esr_read_chunk.
    pose proof (read_next_spec K HK4 HK32 data Hd s I) as RN. cbn zeta in RN.
    pose proof (remaining_read_next K HK4 HK32 data Hd s I) as RR.
    pose proof (win_length K HK4 HK32 data s I) as WL.
    assert (Hrem : rem s = L - u * m).
    { unfold remaining. rewrite <- app_length, HB. apply avail_length. }
    assert (HumL : u * m < L) by nia.
    destruct (esr_is_end s) eqn:Eend.
    { exfalso. unfold esr_is_end in Eend. apply andb_true_iff in Eend. destruct Eend as [E1 E2]. apply Nat.eqb_eq in E1.
      assert (Hz : rem s = 0).
      { unfold remaining, unread. rewrite WL, (e_ee K data s I E2), skipn_all. cbn. lia. }
      lia. }
    destruct (esr_read_next K s) as [ok s1]. cbn [fst snd] in *.
    destruct RN as [I1 [St1 [Ty1 [got [G1 [G2 [G3 [G4 [G5 G6]]]]]]]]].
    pose proof (win_length K HK4 HK32 data s1 I1) as WL1.
    assert (HB1 : win s1 ++ unreadE s1 = avail m).
    { rewrite G1, <- app_assoc, <- G2. exact HB. }
    assert (Hne : 0 < e_end s1 - e_start s1).
    { destruct ok.
      - symmetry in G3. apply negb_true_iff, Nat.eqb_neq in G3. rewrite <- WL1, G1, app_length. lia.
      - destruct (win s) as [|x l] eqn:Ew.
        + specialize (G6 eq_refl eq_refl). unfold remaining in Hrem. rewrite Ew, G6 in Hrem. cbn in Hrem. lia.
        + rewrite <- WL1, G1. cbn. lia. }
    replace (negb ok && (e_start s1 =? e_end s1)) with false
      by (symmetry; apply andb_false_iff; right; apply Nat.eqb_neq; lia).
    assert (Ety1 : e_type s1 = e) by congruence.
    set (n := e_end s1) in *. rewrite St1, Nat.sub_0_r in *.
    assert (Hnle : n <= L - u * m).
    { rewrite <- avail_length, <- HB1, app_length, WL1. lia. }
    assert (Ewin : win s1 = firstn n (avail m)).
    { rewrite <- HB1. rewrite <- WL1. symmetry. apply firstn_app_exact. }
    rewrite Ety1.
    (* the raw path is excluded by the hypothesis on the widths *)
    match goal with |- context [match e with Utf8 => ?A | Utf16le => _ | Utf16be => _ | Utf32le => _ | Utf32be => _ end] => idtac end.
    assert (Hdisp : forall (raw : outcome (chres * esr * list N)),
              match e with
              | Utf8 => match tgt with W8 => raw | _ => esr_decode_chunk tgt pol mark Utf8 s1 out end
              | Utf16le => esr_decode_chunk tgt pol mark Utf16le s1 out
              | Utf16be => esr_decode_chunk tgt pol mark Utf16be s1 out
              | Utf32le => esr_decode_chunk tgt pol mark Utf32le s1 out
              | Utf32be => esr_decode_chunk tgt pol mark Utf32be s1 out
              end = esr_decode_chunk tgt pol mark e s1 out).
    { intros raw. rewrite (read_chunk_dispatch e tgt raw (fun e' => esr_decode_chunk tgt pol mark e' s1 out)).
      destruct (utftype_eqb e Utf8 && width_eqb tgt W8) eqn:Ed; [|reflexivity].
      exfalso. apply andb_true_iff in Ed. destruct Ed as [Ed1 Ed2].
      apply utftype_eqb_eq in Ed1. apply width_eqb_eq in Ed2.
      apply Hraw. split; [unfold w; rewrite Ed1; reflexivity | exact Ed2]. }
    rewrite Hdisp. clear Hdisp.
    unfold esr_decode_chunk. fold w u en. fold n. rewrite St1, Nat.sub_0_r, Nat.add_0_l.
    set (a := n - n mod u).
    assert (Hq : exists q, a = u * q /\ a <= n /\ n < a + u /\ (n = K -> 8 <= q)).
    { exists (n / u). subst a. pose proof (Nat.div_mod n u ltac:(lia)) as Hdm.
      pose proof (Nat.mod_upper_bound n u ltac:(lia)) as Hmu.
      assert (HK8 : n = K -> 8 <= n / u) by (intros ->; apply (K_aligned K HK4 HK32)).
      set (q := n / u) in *. set (md := n mod u) in *. clearbody q md.
      repeat split; try assumption; nia. }
    destruct Hq as [q [Ha [Han [Hau Hq8]]]].
    assert (Hqm : m + q <= length U') by nia.
    assert (Esl : slice (e_buf s1) 0 a = units_bytes en w (slice U' m q)).
    { transitivity (firstn a (win s1)).
      - unfold win. fold n. rewrite St1, Nat.sub_0_r. unfold slice. cbn [skipn].
        rewrite firstn_firstn. rewrite Nat.min_l by lia. reflexivity.
      - rewrite Ewin, firstn_firstn, Nat.min_l by lia. rewrite avail_prefix by lia.
        rewrite Ha. unfold u. rewrite units_bytes_firstn. reflexivity. }
    rewrite Esl. rewrite class_decode_core.
    rewrite (window_units en w (slice U' m q)) by (apply units_slice; apply HUT).
    pose proof (decode_step w tgt pol mark text' m out q Hs HC Hqm) as DS. cbn zeta in DS. fold U' in DS.
    set (r := core_decode w tgt pol mark (slice U' m q) out) in *.
    destruct DS as [D1 [D2 [D3 [D4 [D5 D6]]]]].
    assert (Hp : exists p, r_pos r * u = p /\ p = u * r_pos r /\ p <= a).
    { exists (r_pos r * u). repeat split; nia. }
    destruct Hp as [p [Ep [Ep' Hpa]]]. rewrite Ep.
    set (s' := mkE (e_is s1) (e_buf s1) p n (e_type s1)).
    assert (I' : EI s').
    { destruct I1. subst s'. constructor; cbn [e_is e_buf e_start e_end e_type]; try assumption; lia. }
    assert (Hw' : win s' = skipn p (win s1)).
    { unfold win. subst s'. cbn [e_buf e_start e_end]. fold n. rewrite St1, Nat.sub_0_r. unfold slice. cbn [skipn].
      replace n with (p + (n - p)) at 2 by lia. rewrite skipn_firstn_comm'. reflexivity. }
    (* same widths: the copy path, see same_width_step *)
    assert (SW : width_eqb w tgt = true ->
              (r_code r = UnexpectedEnd -> S (r_pos r) = q) /\ (m + q = S D -> r_code r = UnexpectedEnd) /\
              (m + q = D -> r_code r = Success) /\ m + q <= S D).
    { intros Hxb. apply width_eqb_eq in Hxb.
      assert (Hw8 : w <> W8) by (intros E8; apply Hraw; split; [exact E8 | rewrite <- Hxb; exact E8]).
      assert (Hlt : m + q < length U') by nia.
      exact (same_width_step w tgt pol mark done c m q out Hxb Hw8 Hs Hm Hlt). }
    (* what has been consumed ends at a character boundary before the cut character *)
    assert (HCD : m + r_pos r <= D /\ (m + r_pos r = D -> r_out r = encs tgt done)).
    { destruct (width_eqb w tgt) eqn:Hx.
      { destruct (SW eq_refl) as [S1 [S2 [S3 S4]]].
        pose proof D3 as D3'. unfold Consumed in D3'. rewrite Hx in D3'. destruct D3' as [Hle Hout].
        apply width_eqb_eq in Hx. split.
        - destruct (Nat.le_gt_cases (m + q) D) as [Hle'|Hgt]; [lia|].
          assert (HSD : m + q = S D) by lia. specialize (S1 (S2 HSD)). lia.
        - intros HD. rewrite Hout, HD. fold U'. rewrite U'_split. rewrite <- Hx. unfold D. apply firstn_app_exact. }
      pose proof D3 as D3'. unfold Consumed in D3'. rewrite Hx in D3'. destruct D3' as [j [Hj [Hmj Hout]]].
      assert (Hlt : length (encs w (firstn j text')) < length U') by (rewrite <- Hmj; nia).
      destruct (boundary_le_D j Hj Hlt) as [B1 [B2 B3]]. rewrite Hmj. split; [exact B2|].
      intros HD. rewrite Hout, (B3 HD). reflexivity. }
    destruct HCD as [HCD1 HCD2].
    destruct (is_eof (e_is s1)) eqn:Eeof.
    - (* the cut is in this window *)
      right.
      assert (Hun : unreadE s1 = []) by (apply G5; reflexivity).
      assert (Hn : n = L - u * m).
      { rewrite Hun, app_nil_r in HB1. rewrite <- WL1, HB1. apply avail_length. }
      (* all complete units are in the window: D <= m + q *)
      assert (HDq : D <= m + q) by nia.
      assert (Hout : m + r_pos r = D /\ (r_code r = Success -> p < n)).
      { destruct D1 as [D1|D1].
        - specialize (D4 D1). split; [lia|]. intros _. nia.
        - split; [|intros H; congruence].
          destruct (width_eqb w tgt) eqn:Hx.
          { destruct (SW eq_refl) as [S1 [S2 [S3 S4]]]. specialize (S1 D1).
            destruct (Nat.eq_dec (m + q) D) as [HqD|HqD]; [specialize (S3 HqD); congruence | lia]. }
          destruct (D6 D1 eq_refl) as [j0 [J1 [J2 [J3 J4]]]].
          (* the character left behind is the cut one *)
          assert (Hlen : length text' = S (length done)) by (unfold text'; rewrite app_length; cbn; lia).
          destruct (Nat.eq_dec j0 (length done)) as [->|Hne0].
          + rewrite J2. unfold text'. rewrite firstn_app, Nat.sub_diag, firstn_all. cbn. rewrite app_nil_r. reflexivity.
          + exfalso. assert (Hj0 : S j0 <= length done) by lia.
            assert (Ef : firstn (S j0) text' = firstn (S j0) done).
            { unfold text'. rewrite firstn_app. replace (S j0 - length done) with 0 by lia. cbn. apply app_nil_r. }
            rewrite Ef in J4. pose proof (encs_firstn_le w done (S j0)). unfold D in HDq. lia. }
      destruct Hout as [HoutD Hsucc]. specialize (HCD2 HoutD).
      assert (Htr : match r_code r with
                    | UnexpectedEnd => true
                    | Success => negb (e_start s' =? e_end s')
                    | _ => false
                    end = true).
      { destruct D1 as [D1|D1]; rewrite D1; [|reflexivity].
        subst s'. cbn [e_start e_end]. apply negb_true_iff, Nat.eqb_neq. specialize (Hsucc D1). lia. }
      assert (Hcode : r_code r <> OutOfFuel) by (destruct D1 as [D1|D1]; rewrite D1; discriminate).
      destruct (r_code r) eqn:Ec; try congruence; try (destruct D1; discriminate).
      + rewrite Htr. destruct pol.
        * eexists. rewrite HCD2. split; [reflexivity|].
          assert (I0 : EI (mkE (e_is s1) (e_buf s1) 0 0 (e_type s1))).
          { destruct I1. constructor; cbn [e_is e_buf e_start e_end e_type]; try assumption; lia. }
          split; [exact I0|]. split; [exact Ety1|].
          unfold remaining, unread, win. cbn [e_is e_buf e_start e_end]. fold (unreadE s1). rewrite Hun. reflexivity.
        * eexists. rewrite HCD2. split; [reflexivity | exact Ety1].
      + destruct pol.
        * eexists. rewrite HCD2. split; [reflexivity|].
          assert (I0 : EI (mkE (e_is s1) (e_buf s1) 0 0 (e_type s1))).
          { destruct I1. constructor; cbn [e_is e_buf e_start e_end e_type]; try assumption; lia. }
          split; [exact I0|]. split; [exact Ety1|].
          unfold remaining, unread, win. cbn [e_is e_buf e_start e_end]. fold (unreadE s1). rewrite Hun. reflexivity.
        * eexists. rewrite HCD2. split; [reflexivity | exact Ety1].
    - (* a full window, more to come *)
      left.
      assert (Hfull : n = K) by (rewrite <- WL1; apply G4; reflexivity).
      specialize (Hq8 Hfull).
      assert (Hp0 : 0 < p).
      { destruct D1 as [D1|D1]; [specialize (D4 D1) | destruct (D5 D1) as [D7 [D8 _]]]; nia. }
      assert (Hgoal : exists s'0 out', Ok (ChSuccess, s', r_out r) = Ok (ChSuccess, s'0, out') /\
                 TInv s'0 out' /\ rem s'0 < rem s).
      { eexists _, _. split; [reflexivity|]. split.
        - split; [exact I'|]. split; [exact Ety1|]. exists (m + r_pos r). split; [exact HCD1|]. split; [exact D3|].
          rewrite <- avail_skip, <- Ep'. rewrite <- HB1. rewrite skipn_app.
          rewrite WL1. replace (p - n) with 0 by lia. cbn [skipn]. rewrite Hw'. reflexivity.
        - rewrite <- RR. unfold remaining. rewrite Hw', skipn_length, WL1. unfold unread. subst s'. cbn [e_is]. lia. }
      destruct D1 as [D1|D1]; rewrite D1; exact Hgoal.
  Qed.

  (* ---------- the whole run ---------- *)

  Definition trunc_result (k : nat) : runres :=
    match pol with
    | Skip => RunDone (repeat ChSuccess (S k) ++ [ChEndFile]) (encs tgt done ++ mark) e
    | ThrowError => RunDone (repeat ChSuccess k ++ [ChDecodeError]) (encs tgt done) e
    end.

  Lemma repeat_snoc {A} (x : A) k : repeat x k ++ [x] = repeat x (S k).
  Proof. induction k as [|k IH]; [reflexivity|]. cbn [repeat app]. rewrite IH. reflexivity. Qed.

  Lemma loop_trunc : forall fuel s out acc, TInv s out -> S (rem s) < fuel ->
    exists k, esr_loop K tgt pol mark fuel s out acc =
      match trunc_result k with
      | RunDone rs o ty => RunDone (acc ++ rs) o ty
      | other => other
      end.
  Proof.
    induction fuel as [|fuel IH]; intros s out acc T Hf; [lia|].
    cbn [esr_loop]. destruct (read_chunk_trunc s out T) as [[s' [out' [E [T' Hlt]]]]|Hfin].
    - rewrite E. destruct (IH s' out' (acc ++ [ChSuccess]) T' ltac:(lia)) as [k Ek].
      exists (S k). rewrite Ek. unfold trunc_result. destruct pol.
      + rewrite <- app_assoc. reflexivity.
      + rewrite <- app_assoc. reflexivity.
    - unfold final_step, trunc_result in *. destruct pol.
      + destruct Hfin as [s' [E [I' [Ety' Hz]]]]. rewrite E.
        destruct fuel; [lia|]. cbn [esr_loop].
        destruct (read_chunk_drained K HK4 HK32 tgt Skip mark data HdataT s' (encs tgt done ++ mark) I' Hz) as [s'' [E2 Ety2]].
        rewrite E2. exists 0. cbn [repeat app]. rewrite <- app_assoc. cbn [app]. congruence.
      + destruct Hfin as [s' [E Ety']]. rewrite E. exists 0. cbn [repeat app]. congruence.
  Qed.

  (* detection on the cut stream *)
  Definition trunc_defect : bool :=
    if b then bom_defect e text'
    else match text' with c0 :: rest => nobom_defect e rest | [] => false end.

  Hypothesis Hdet : b = true \/ starts_ascii done.
  Hypothesis Hnd : trunc_defect = false.

  Lemma data_detectT : data <> [] /\ detect (firstn K data) = Ok (e, length (if b then bom e else [])).
  Proof.
    pose proof Hu1T as Hu1. pose proof HL as HL'.
    unfold data, trunc_defect in *. destruct b.
    - split; [destruct e; discriminate|].
      assert (Hbl : length (bom e) <= K) by (destruct e; cbn; lia).
      rewrite firstn_app, (firstn_all2 (bom e)) by exact Hbl.
      apply detect_bom_bytes. intros E16. apply starts_00_firstn. apply starts_00_firstn.
      unfold B'. rewrite starts_00_text16 by (try exact Hs; rewrite E16; reflexivity).
      rewrite E16 in Hnd. unfold bom_defect in Hnd. exact Hnd.
    - destruct Hdet as [Hb|[c0 [rest0 [Et Hc]]]]; [discriminate|]. cbn [app length].
      assert (Et' : text' = c0 :: (rest0 ++ [c])) by (unfold text'; rewrite Et; reflexivity).
      assert (Hs' : Forall scalar (rest0 ++ [c])) by (pose proof Hs as H; fold text' in H; rewrite Et' in H; inversion H; assumption).
      assert (HD1 : 1 <= D).
      { unfold D. rewrite Et. change (encs w (c0 :: rest0)) with (enc w c0 ++ encs w rest0). rewrite app_length.
        pose proof (enc_len_pos w c0). lia. }
      split.
      + intros H. apply (f_equal (@length N)) in H. rewrite firstn_length, B'_length in H. cbn [length] in H. nia.
      + rewrite firstn_firstn. unfold B'. rewrite Et'. rewrite Et' in Hnd.
        apply detect_nobom_prefix; try assumption.
        fold w u. pose proof (unit_size_le4 w). unfold u in *. nia.
  Qed.

  Theorem esr_truncated sk fuel : S (length data) < fuel ->
    exists k, esr_run K tgt pol mark fuel (stream_of data sk) = trunc_result k.
  Proof.
    intros Hf. unfold esr_run.
    destruct (new_spec K HK4 HK32 data HdataT sk) as [s0 [E [I0 [Hr [_ Hne]]]]]. rewrite E.
    destruct data_detectT as [Hd Hdt].
    destruct (Hne Hd) as [e' [off [Ed [Ety Hw]]]].
    rewrite Hdt in Ed. injection Ed as <- <-.
    assert (T0 : TInv s0 []).
    { split; [exact I0|]. split; [exact Ety|]. exists 0. split; [lia|]. split; [apply consumed_start|].
      rewrite Hw. unfold avail. rewrite Nat.mul_0_r. cbn [skipn]. unfold data. rewrite skipn_app_exact. reflexivity. }
    destruct (loop_trunc fuel s0 [] [] T0 ltac:(lia)) as [k Ek]. exists k. rewrite Ek.
    unfold trunc_result. destruct pol; reflexivity.
  Qed.
End TRUNC.
