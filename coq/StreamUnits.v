(* StreamUnits.v — code units <-> bytes as CEncodedStreamReader sees them (reinterpret_cast of the
   byte window on the little-endian host, then the LE/BE class adapter), and how a window of a
   valid text decodes: the "consumed so far" relation and its step lemma for all nine width pairs. *)
From BS Require Import Base UtfSpec UtfModel UtfLemmas UtfProofs UtfOrder StreamIStream StreamSpec StreamModel StreamLemmas.
From Coq Require Import ZifyBool ZifyN ZifyNat.
Local Open Scope N_scope.
Ltac Zify.zify_post_hook ::= Z.div_mod_to_equations.

Ltac splits := repeat match goal with |- _ /\ _ => split end.

Lemma unit_size_le4 w : (1 <= unit_size w <= 4)%nat.
Proof. destruct w; cbn; lia. Qed.

(* ---------- bytes <-> native units ---------- *)

Lemma unit_bytes_length e w u : length (unit_bytes e w u) = unit_size w.
Proof. destruct w, e; reflexivity. Qed.

Lemma units_bytes_length e w l : length (units_bytes e w l) = (unit_size w * length l)%nat.
Proof.
  unfold units_bytes. induction l as [|u l IH]; [cbn; lia|].
  cbn [flat_map length]. rewrite app_length, unit_bytes_length, IH. lia.
Qed.

Lemma units_bytes_app e w a b : units_bytes e w (a ++ b) = units_bytes e w a ++ units_bytes e w b.
Proof. unfold units_bytes. apply flat_map_app. Qed.

Lemma units_bytes_firstn e w l n :
  firstn (unit_size w * n) (units_bytes e w l) = units_bytes e w (firstn n l).
Proof.
  rewrite <- (firstn_skipn n l) at 1. rewrite units_bytes_app.
  destruct (Nat.le_gt_cases n (length l)) as [H|H].
  - replace (unit_size w * n)%nat with (length (units_bytes e w (firstn n l))).
    + apply firstn_app_exact.
    + rewrite units_bytes_length, firstn_length. f_equal. lia.
  - rewrite skipn_all2 by lia. cbn [units_bytes flat_map]. rewrite app_nil_r.
    apply firstn_all2. rewrite units_bytes_length, firstn_length.
    assert (1 <= unit_size w)%nat by (destruct w; cbn; lia). nia.
Qed.

Lemma units_bytes_skipn e w l n :
  skipn (unit_size w * n) (units_bytes e w l) = units_bytes e w (skipn n l).
Proof.
  rewrite <- (firstn_skipn n l) at 1. rewrite units_bytes_app.
  destruct (Nat.le_gt_cases n (length l)) as [H|H].
  - replace (unit_size w * n)%nat with (length (units_bytes e w (firstn n l))).
    + apply skipn_app_exact.
    + rewrite units_bytes_length, firstn_length. f_equal. lia.
  - rewrite (skipn_all2 l) by lia. cbn [units_bytes flat_map]. rewrite app_nil_r.
    apply skipn_all2. rewrite units_bytes_length, firstn_length.
    assert (1 <= unit_size w)%nat by (destruct w; cbn; lia). nia.
Qed.

Lemma le_units_bytes_LE w l : units w l -> le_units w (units_bytes LE w l) = l.
Proof.
  intros H. unfold units_bytes. induction H as [|u l Hu _ IH]; [destruct w; reflexivity|].
  destruct w; cbn [unit_bound] in Hu; cbn [flat_map unit_bytes app le_units le_units16 le_units32] in *.
  - f_equal. exact IH.
  - f_equal; [unfold le16; lia | exact IH].
  - f_equal; [unfold le32; lia | exact IH].
Qed.

Lemma adapt_involutive e w l : units w l -> adapt e w (adapt e w l) = l.
Proof.
  intros H. apply (units_bytes_inj LE w).
  - apply adapt_units. apply adapt_units. exact H.
  - exact H.
  - rewrite adapt_bytes by (apply adapt_units; exact H). apply adapt_bytes'. exact H.
Qed.

(* what the reader's reinterpret_cast + class adapter recover from the bytes of [l] *)
Lemma window_units e w l : units w l -> adapt e w (le_units w (units_bytes e w l)) = l.
Proof.
  intros H. rewrite <- (adapt_bytes e w l H). rewrite le_units_bytes_LE by (apply adapt_units; exact H).
  apply adapt_involutive. exact H.
Qed.

(* ---------- the decoders used by DecodeChunk, on native-order units ---------- *)

Definition core_decode (src dst : width) (pol : policy) (mark : list N) (inp out0 : list N) : result :=
  match src, dst with
  | W16, W16 => copy16 inp 0 out0
  | W32, W32 => mkR Success (length inp) 0 (out0 ++ map cast32 inp)
  | _, _ => transcode src dst pol mark inp out0
  end.

Lemma class_decode_core src e dst pol mark inp out0 :
  class_decode src e dst pol mark inp out0 = core_decode src dst pol mark (adapt e src inp) out0.
Proof.
  unfold class_decode, core_decode. destruct src, dst; reflexivity.
Qed.

(* ---------- prefixes of a valid text's code units ---------- *)

(* a proper prefix of one character's encoding *)
Definition partial_of (w : width) (part : list N) (c : N) : Prop :=
  exists tl, tl <> [] /\ enc w c = part ++ tl.

Lemma prefix_split w : forall text n, Forall scalar text -> (n <= length (encs w text))%nat ->
  exists j part, firstn n (encs w text) = encs w (firstn j text) ++ part /\
    skipn n (encs w text) = skipn (length part) (encs w (skipn j text)) /\
    (part = [] \/ exists c rest, skipn j text = c :: rest /\ partial_of w part c /\ part <> []).
Proof.
  induction text as [|c text IH]; intros n Hs Hn.
  - exists 0%nat, []. cbn in *. rewrite firstn_nil, skipn_nil. splits; try reflexivity. left. reflexivity.
  - inversion Hs as [|? ? Hc Hs']; subst.
    change (encs w (c :: text)) with (enc w c ++ encs w text) in *.
    destruct (Nat.le_gt_cases (length (enc w c)) n) as [H|H].
    + (* the whole first character is inside *)
      rewrite app_length in Hn.
      destruct (IH (n - length (enc w c))%nat Hs') as [j [part [E1 [E2 E3]]]]; [lia|].
      exists (S j), part. cbn [firstn skipn].
      change (encs w (c :: firstn j text)) with (enc w c ++ encs w (firstn j text)).
      splits.
      * rewrite firstn_app. rewrite firstn_all2 by lia. rewrite E1. rewrite app_assoc. reflexivity.
      * rewrite skipn_app. rewrite skipn_all2 by lia. cbn [app]. exact E2.
      * exact E3.
    + (* the cut falls inside the first character *)
      exists 0%nat, (firstn n (enc w c)). cbn [firstn skipn encs flat_map app].
      change (flat_map (enc w) (c :: text)) with (enc w c ++ encs w text).
      splits.
      * rewrite firstn_app. replace (n - length (enc w c))%nat with 0%nat by lia. cbn. rewrite app_nil_r. reflexivity.
      * rewrite firstn_length. rewrite Nat.min_l by lia. reflexivity.
      * destruct n as [|n]; [left; reflexivity|]. right. exists c, text. splits; try reflexivity.
        -- exists (skipn (S n) (enc w c)). split.
           ++ intros E. apply (f_equal (@length N)) in E. rewrite skipn_length in E. cbn in E. lia.
           ++ symmetry. apply firstn_skipn.
        -- pose proof (enc_len_pos w c). destruct (enc w c); cbn in *; [lia | discriminate].
Qed.

Lemma DOk_inj_len a n b m : DOk a n = DOk b m -> n = m.
Proof. intros H. injection H. auto. Qed.

(* a sequence the decoder accepts as exactly one character: every proper non-empty prefix of it is
   "incomplete" for the decoder (purely structural: no arithmetic on the byte values) *)
Lemma decf_prefix_trunc w part tl sym : units w (part ++ tl) -> part <> [] -> tl <> [] ->
  decf w (part ++ tl) = DOk sym (length (part ++ tl)) -> decf w part = DTrunc.
Proof.
  intros Hu Hp Ht D. destruct w; cbn [decf] in *.
  - (* UTF-8 *)
    assert (Hb : bytes part) by (apply units_app in Hu; apply Hu).
    rewrite dec8_arith in D by exact Hu. rewrite dec8_arith by exact Hb.
    destruct part as [|b0 t]; [congruence|]. cbn [app] in D. unfold dec8a in *.
    destruct (b0 <? 0x80).
    + apply DOk_inj_len in D. rename D into H2.
      cbn [length] in H2. rewrite app_length in H2. destruct tl; [congruence | cbn in H2; lia].
    + destruct (classify8a b0) as [[[n sym0] minSym] w0].
      destruct (tails_loop_a n (t ++ tl) sym0 w0) as [[sy wr]|] eqn:ET; [|discriminate].
      destruct (wr || (sy <? minSym) || (0x10FFFF <? sy) || in_surr sy); [discriminate|].
      apply DOk_inj_len in D. rename D into H2.
      cbn [length] in H2. rewrite app_length in H2.
      destruct (tails_loop_a n t sym0 w0) as [r|] eqn:ET2; [|reflexivity].
      apply tails_some_len in ET2. destruct tl; [congruence | cbn in H2; lia].
  - (* UTF-16 *)
    destruct part as [|s t]; [congruence|]. cbn [app] in D. unfold dec16 in *.
    destruct (in_surr s).
    + destruct (0xDC00 <=? s); [discriminate|].
      destruct t as [|t0 t].
      * reflexivity.
      * cbn [app] in D. destruct ((0xDC00 <=? t0) && (t0 <=? 0xDFFF)); [|discriminate].
        apply DOk_inj_len in D. rename D into H2.
        cbn [length app] in H2. rewrite app_length in H2. destruct tl; [congruence | cbn in H2; lia].
    + apply DOk_inj_len in D. rename D into H2.
      cbn [length] in H2. rewrite app_length in H2. destruct tl; [congruence | cbn in H2; lia].
  - (* UTF-32 *)
    destruct part as [|s t]; [congruence|]. cbn [app] in D. unfold dec32 in D.
    destruct (in_surr s || (0x10FFFF <? s)); [discriminate|].
    apply DOk_inj_len in D. rename D into H2.
    cbn [length] in H2. rewrite app_length in H2. destruct tl; [congruence | cbn in H2; lia].
Qed.

Lemma partial_trunc w part c : scalar c -> partial_of w part c -> part <> [] -> decf w part = DTrunc.
Proof.
  intros Hc [tl [Htl E]] Hp.
  pose proof (decf_complete w c [] (Forall_nil _) Hc) as D. rewrite app_nil_r in D.
  pose proof (enc_units w c Hc) as Hu. rewrite E in D, Hu.
  exact (decf_prefix_trunc w part tl c Hu Hp Htl D).
Qed.

(* ---------- decoding a valid text followed by the first units of its next character ---------- *)

Lemma loop_valid_prefix src dst pol mark part :
  src <> dst -> units src part -> (part = [] \/ decf src part = DTrunc) ->
  forall cps fuel pos cnt out, Forall scalar cps ->
  (length (encs src cps ++ part) < fuel)%nat ->
  loop (decf src) (encf src dst) (trunc_cnt src dst) pol mark fuel (encs src cps ++ part) pos cnt out =
    mkR (match part with [] => Success | _ => UnexpectedEnd end) (pos + length (encs src cps))
        (match part with [] => cnt | _ => trunc_cnt src dst cnt end) (out ++ encs dst cps).
Proof.
  intros Hne Hup Hpart. induction cps as [|c cps IH]; intros fuel pos cnt out Hs Hf.
  - cbn [encs flat_map app length]. rewrite Nat.add_0_r, app_nil_r.
    destruct fuel; [cbn in Hf; lia|]. cbn [loop].
    destruct part as [|p0 part]; [reflexivity|].
    destruct Hpart as [Hpart|Hpart]; [discriminate|]. rewrite Hpart. reflexivity.
  - inversion Hs as [|? ? Hc Hs']; subst.
    change (encs src (c :: cps)) with (enc src c ++ encs src cps) in *.
    change (encs dst (c :: cps)) with (enc dst c ++ encs dst cps).
    rewrite <- app_assoc in *. rewrite !app_length in *. pose proof (enc_len_pos src c) as Hp.
    destruct fuel; [lia|]. cbn [loop].
    destruct (enc src c ++ encs src cps ++ part) as [|x xs] eqn:E.
    { apply (f_equal (@length N)) in E. rewrite !app_length in E. cbn in E. lia. }
    rewrite <- E. rewrite decf_complete.
    + rewrite skipn_app_exact. rewrite IH by (try assumption; lia).
      rewrite encf_spec by assumption. rewrite <- app_assoc. f_equal. lia.
    + apply units_app. split; [apply encs_units; exact Hs' | exact Hup].
    + exact Hc.
Qed.

Lemma transcode_valid_prefix src dst pol mark cps part out0 :
  width_eqb src dst = false -> Forall scalar cps -> units src part ->
  (part = [] \/ decf src part = DTrunc) ->
  transcode src dst pol mark (encs src cps ++ part) out0 =
    mkR (match part with [] => Success | _ => UnexpectedEnd end) (length (encs src cps)) 0 (out0 ++ encs dst cps).
Proof.
  intros E Hs Hu Hp. unfold transcode. rewrite E.
  rewrite (loop_valid_prefix src dst pol mark part (width_neq _ _ E) Hu Hp cps) by (try assumption; lia).
  destruct part; [reflexivity|]. f_equal. destruct src, dst; reflexivity.
Qed.

(* ---------- same-width paths ---------- *)

(* Utf16::Decode to char16_t: everything is copied except a final first half of a pair *)
Definition holds_back (u : N) : bool := (0xD800 <=? u) && (u <=? 0xDBFF).

Lemma copy16_spec : forall inp pos out,
  copy16 inp pos out =
    match rev inp with
    | [] => mkR Success pos 0 out
    | lastu :: _ =>
      if holds_back lastu then mkR UnexpectedEnd (pos + (length inp - 1)) 0 (out ++ removelast inp)
      else mkR Success (pos + length inp) 0 (out ++ inp)
    end.
Proof.
  induction inp as [|s t IH]; intros pos out; [reflexivity|].
  cbn [copy16]. destruct t as [|t0 t'].
  - cbn [rev app length removelast]. unfold holds_back. destruct ((0xD800 <=? s) && (s <=? 0xDBFF)).
    + rewrite app_nil_r. f_equal. lia.
    + f_equal. lia.
  - rewrite IH. cbn [rev]. destruct (rev t' ++ [t0]) as [|l0 l'] eqn:E.
    { apply (f_equal (@length N)) in E. rewrite app_length in E. cbn in E. lia. }
    cbn [app]. destruct (holds_back l0).
    + f_equal; [cbn [length]; lia|]. rewrite <- app_assoc. reflexivity.
    + f_equal; [cbn [length]; lia|]. rewrite <- app_assoc. reflexivity.
Qed.

(* the last code unit of a well-formed UTF-16 text is never the first half of a pair *)
Lemma encs16_last_not_high : forall text, Forall scalar text ->
  match rev (encs W16 text) with [] => True | lastu :: _ => holds_back lastu = false end.
Proof.
  intros text Hs. induction Hs as [|c text Hc _ IH] using Forall_ind.
  - exact I.
  - change (encs W16 (c :: text)) with (enc16 c ++ encs W16 text). rewrite rev_app_distr.
    destruct (rev (encs W16 text)) as [|l0 l'] eqn:E; [|exact IH].
    cbn [app]. unfold enc16. apply scalar_lt in Hc as Hlt. apply scalar_cases in Hc.
    destruct (c <? 0x10000) eqn:E1; cbn [rev app]; unfold holds_back; lia.
Qed.

(* ---------- "consumed so far" and one DecodeChunk over a window of a valid text ---------- *)

(* after consuming the first m code units of the text the output is o *)
Definition Consumed (w tgt : width) (text : list N) (m : nat) (o : list N) : Prop :=
  if width_eqb w tgt
  then (m <= length (encs w text))%nat /\ o = firstn m (encs w text)
  else exists j, (j <= length text)%nat /\ m = length (encs w (firstn j text)) /\ o = encs tgt (firstn j text).

Lemma consumed_start w tgt text : Consumed w tgt text 0 [].
Proof.
  unfold Consumed. destruct (width_eqb w tgt).
  - split; [lia | reflexivity].
  - exists 0%nat. splits; try reflexivity. lia.
Qed.

Lemma consumed_end w tgt text o : Forall scalar text ->
  Consumed w tgt text (length (encs w text)) o -> o = encs tgt text.
Proof.
  intros Hs. unfold Consumed. destruct (width_eqb w tgt) eqn:E.
  - intros [_ ->]. rewrite firstn_all. destruct w, tgt; try discriminate; reflexivity.
  - intros [j [Hj [Hm ->]]]. f_equal.
    rewrite <- (firstn_skipn j text) in Hm at 1. rewrite encs_app, app_length in Hm.
    assert (Hz : length (encs w (skipn j text)) = 0%nat) by lia.
    destruct (skipn j text) as [|c rest] eqn:Esk.
    + rewrite <- (firstn_skipn j text) at 2. rewrite Esk. symmetry. apply app_nil_r.
    + change (encs w (c :: rest)) with (enc w c ++ encs w rest) in Hz. rewrite app_length in Hz.
      pose proof (enc_len_pos w c). lia.
Qed.

Lemma firstn_add_split {A} (l : list A) a b : firstn (a + b) l = firstn a l ++ firstn b (skipn a l).
Proof.
  revert l. induction a as [|a IH]; intros l; [reflexivity|].
  destruct l as [|x l]; [cbn; rewrite firstn_nil; reflexivity|]. cbn [Nat.add firstn skipn app]. f_equal. apply IH.
Qed.

Lemma units_slice w l a n : units w l -> units w (slice l a n).
Proof.
  intros H. unfold slice. apply (units_skipn w a) in H.
  rewrite <- (firstn_skipn n (skipn a l)) in H. apply units_app in H. apply H.
Qed.

Lemma map_cast32_id l : units W32 l -> map cast32 l = l.
Proof.
  intros Hu. induction Hu as [|x l Hx _ IH]; [reflexivity|]. cbn [map]. rewrite IH. f_equal.
  unfold cast32. cbn [unit_bound] in Hx. apply N.mod_small. exact Hx.
Qed.

Lemma decode_step w tgt pol mark text m o n :
  Forall scalar text -> Consumed w tgt text m o -> (m + n <= length (encs w text))%nat ->
  let r := core_decode w tgt pol mark (slice (encs w text) m n) o in
  (r_code r = Success \/ r_code r = UnexpectedEnd) /\
  (r_pos r <= n)%nat /\ Consumed w tgt text (m + r_pos r) (r_out r) /\
  (r_code r = Success -> r_pos r = n) /\
  (r_code r = UnexpectedEnd -> (r_pos r < n)%nat /\ (n - r_pos r < 4)%nat /\ (m + n < length (encs w text))%nat) /\
  (* different widths: what stays behind is the beginning of character number j0 *)
  (r_code r = UnexpectedEnd -> width_eqb w tgt = false ->
     exists j0, (j0 < length text)%nat /\ (m + r_pos r)%nat = length (encs w (firstn j0 text)) /\
       r_out r = encs tgt (firstn j0 text) /\ (m + n < length (encs w (firstn (S j0) text)))%nat).
Proof.
  intros Hs HC Hn. cbn zeta. unfold Consumed in *.
  remember (encs w text) as U eqn:EU0.
  assert (Lsl : length (slice U m n) = n) by (rewrite slice_length; lia).
  destruct (width_eqb w tgt) eqn:E.
  - (* same width: copies *)
    destruct HC as [Hm ->].
    assert (Eapp : firstn m U ++ slice U m n = firstn (m + n) U).
    { rewrite firstn_add_split. reflexivity. }
    destruct w, tgt; try discriminate; unfold core_decode.
    + (* 8 -> 8 : Transcode copies *)
      unfold transcode. cbn [width_eqb]. cbn [r_code r_pos r_out]. rewrite Lsl, Eapp.
      splits; try tauto; try lia; try reflexivity; try discriminate; try (intros _ Hx; discriminate Hx).
    + (* 16 -> 16 *)
      rewrite copy16_spec. destruct (rev (slice U m n)) as [|lastu rl] eqn:Er.
      * assert (n = 0%nat).
        { apply (f_equal (@length N)) in Er. rewrite rev_length, Lsl in Er. exact Er. }
        subst n. cbn [r_code r_pos r_out]. rewrite Nat.add_0_r.
        splits; try tauto; try lia; try reflexivity; try discriminate; try (intros _ Hx; discriminate Hx).
      * assert (Hn0 : (0 < n)%nat).
        { apply (f_equal (@length N)) in Er. rewrite rev_length, Lsl in Er. cbn in Er. lia. }
        assert (Esl : slice U m n = rev rl ++ [lastu]).
        { rewrite <- (rev_involutive (slice U m n)), Er. reflexivity. }
        destruct (holds_back lastu) eqn:Eh; cbn [r_code r_pos r_out]; rewrite Lsl.
        -- (* the last unit of the window is the first half of a pair: kept for the next chunk *)
           assert (Erm : removelast (slice U m n) = slice U m (n - 1)).
           { rewrite Esl, removelast_last.
             replace n with ((n - 1) + 1)%nat in Esl by lia. rewrite slice_app_split in Esl.
             assert (L1 : length (slice U m (n - 1)) = length (rev rl)).
             { apply (f_equal (@length N)) in Esl. rewrite !app_length in Esl.
               rewrite (slice_length U (m + (n - 1)) 1) in Esl. cbn [length] in Esl.
               rewrite slice_length in *. lia. }
             apply (f_equal (firstn (length (rev rl)))) in Esl.
             rewrite firstn_app_exact in Esl. rewrite <- L1 in Esl. rewrite firstn_app_exact in Esl. symmetry. exact Esl. }
           rewrite Erm.
           assert (Eapp2 : firstn m U ++ slice U m (n - 1) = firstn (m + (n - 1)) U).
           { rewrite firstn_add_split. reflexivity. }
           rewrite Eapp2. cbn [Nat.add].
           splits; try tauto; try lia; try reflexivity; try discriminate; try (intros _ Hx; discriminate Hx).
           intros _. splits; try lia.
           (* the window cannot be the end of the text *)
           destruct (Nat.eq_dec (m + n) (length U)) as [Heq|Hneq]; [|lia]. exfalso.
           pose proof (encs16_last_not_high text Hs) as HL. rewrite <- EU0 in HL.
           assert (EU : U = firstn m U ++ slice U m n).
           { rewrite Eapp, Heq. symmetry. apply firstn_all. }
           rewrite EU, Esl, app_assoc, rev_app_distr in HL. cbn [rev app] in HL. congruence.
        -- rewrite Eapp. cbn [Nat.add].
           splits; try tauto; try lia; try reflexivity; try discriminate; try (intros _ Hx; discriminate Hx).
    + (* 32 -> 32 *)
      cbn [r_code r_pos r_out]. rewrite Lsl.
      assert (Ec : map cast32 (slice U m n) = slice U m n).
      { apply map_cast32_id. apply units_slice. rewrite EU0. apply encs_units. exact Hs. }
      rewrite Ec, Eapp. splits; try tauto; try lia; try reflexivity; try discriminate; try (intros _ Hx; discriminate Hx).
  - (* different widths: Transcode *)
    destruct HC as [j [Hj [Hm ->]]].
    assert (EU : U = encs w (firstn j text) ++ encs w (skipn j text)).
    { rewrite EU0. rewrite <- encs_app, firstn_skipn. reflexivity. }
    assert (Hs2 : Forall scalar (skipn j text)).
    { rewrite <- (firstn_skipn j text) in Hs. apply Forall_app in Hs. apply Hs. }
    assert (Esk : skipn m U = encs w (skipn j text)).
    { rewrite EU, Hm. apply skipn_app_exact. }
    assert (Hn2 : (n <= length (encs w (skipn j text)))%nat).
    { rewrite EU, app_length in Hn. lia. }
    destruct (prefix_split w (skipn j text) n Hs2 Hn2) as [j' [part [P1 [P2 P3]]]].
    unfold slice. rewrite Esk, P1.
    assert (Hs3 : Forall scalar (firstn j' (skipn j text))).
    { rewrite <- (firstn_skipn j' (skipn j text)) in Hs2. apply Forall_app in Hs2. apply Hs2. }
    assert (Hcore : core_decode w tgt pol mark (encs w (firstn j' (skipn j text)) ++ part) (encs tgt (firstn j text)) =
                    transcode w tgt pol mark (encs w (firstn j' (skipn j text)) ++ part) (encs tgt (firstn j text))).
    { unfold core_decode. destruct w, tgt; try discriminate; reflexivity. }
    rewrite Hcore.
    assert (Hpu : units w part /\ (part = [] \/ decf w part = DTrunc)).
    { destruct P3 as [->|[c [rest [Ec [Hpa Hne]]]]].
      - split; [constructor | left; reflexivity].
      - assert (Hc : scalar c).
        { pose proof Hs2 as Hs4. rewrite <- (firstn_skipn j' (skipn j text)) in Hs4.
          apply Forall_app in Hs4. destruct Hs4 as [_ Hs4]. rewrite Ec in Hs4. inversion Hs4; assumption. }
        split.
        + destruct Hpa as [tl [_ Et]]. pose proof (enc_units w c Hc) as Hu. rewrite Et in Hu.
          apply units_app in Hu. apply Hu.
        + right. apply (partial_trunc w part c Hc Hpa Hne). }
    destruct Hpu as [Hpu Hpt].
    rewrite (transcode_valid_prefix w tgt pol mark _ part _ E Hs3 Hpu Hpt).
    assert (Lp : n = (length (encs w (firstn j' (skipn j text))) + length part)%nat).
    { apply (f_equal (@length N)) in P1. rewrite firstn_length, app_length in P1. lia. }
    assert (Hj' : (j' <= length (skipn j text))%nat \/ firstn j' (skipn j text) = skipn j text).
    { destruct (Nat.le_gt_cases j' (length (skipn j text))); [left; assumption | right; apply firstn_all2; lia]. }
    assert (HC' : exists j0, (j0 <= length text)%nat /\
              (m + length (encs w (firstn j' (skipn j text))))%nat = length (encs w (firstn j0 text)) /\
              encs tgt (firstn j text) ++ encs tgt (firstn j' (skipn j text)) = encs tgt (firstn j0 text)).
    { exists (Nat.min (j + j') (length text)). split; [lia|].
      assert (Ef : firstn (Nat.min (j + j') (length text)) text = firstn j text ++ firstn j' (skipn j text)).
      { destruct (Nat.le_gt_cases (j + j') (length text)).
        - rewrite Nat.min_l by lia. apply firstn_add_split.
        - rewrite Nat.min_r by lia. rewrite firstn_all. rewrite <- (firstn_skipn j text) at 1. f_equal.
          symmetry. apply firstn_all2. rewrite skipn_length. lia. }
      rewrite Ef, !encs_app, app_length. split; [lia | reflexivity]. }
    cbn [r_code r_pos r_out].
    destruct part as [|p0 part'].
    + cbn [length] in Lp. rewrite Nat.add_0_r in Lp.
      splits; try tauto; try lia; try discriminate; try exact HC'.
    + destruct P3 as [P3|[c [rest [Ec [[tl [Htl Et]] Hne]]]]]; [discriminate|].
      cbn [length] in Lp.
      assert (Hl4 : (length (enc w c) <= 4)%nat).
      { destruct w; cbn [enc]; [unfold enc8 | unfold enc16 | unfold enc32];
          repeat match goal with |- context [if ?b then _ else _] => destruct b end; cbn; lia. }
      assert (Let : length (enc w c) = (S (length part') + length tl)%nat).
      { apply (f_equal (@length N)) in Et. rewrite app_length in Et. cbn [length] in Et. exact Et. }
      assert (Ltl : (1 <= length tl)%nat) by (destruct tl; [congruence | cbn; lia]).
      (* the text up to and including the character that is cut *)
      assert (Hjj : (j + j' < length text)%nat).
      { assert (Hl : length (skipn j' (skipn j text)) = S (length rest)) by (rewrite Ec; reflexivity).
        rewrite !skipn_length in Hl. lia. }
      assert (Ef : firstn (j + j') text = firstn j text ++ firstn j' (skipn j text)) by apply firstn_add_split.
      assert (Ef1 : firstn (S (j + j')) text = firstn (j + j') text ++ [c]).
      { replace (S (j + j')) with ((j + j') + 1)%nat by lia. rewrite firstn_add_split. f_equal.
        rewrite <- skipn_skipn, Ec. reflexivity. }
      splits; try tauto; try (cbn [length] in Lp; lia); try discriminate; try exact HC'.
      * intros _. splits; try lia.
        rewrite EU, app_length, <- Hm.
        rewrite <- (firstn_skipn j' (skipn j text)), Ec, encs_app, app_length.
        change (encs w (c :: rest)) with (enc w c ++ encs w rest). rewrite app_length. lia.
      * intros _ _. exists (j + j')%nat. splits.
        -- exact Hjj.
        -- rewrite Ef, encs_app, app_length. lia.
        -- rewrite Ef, encs_app. reflexivity.
        -- rewrite Ef1, Ef, !encs_app, !app_length. cbn [encs flat_map]. rewrite app_nil_r. lia.
Qed.
