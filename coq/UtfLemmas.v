(* UtfLemmas.v — characterising lemmas of the UTF model against the spec. *)
From BS Require Import Base UtfSpec UtfModel.
From Coq Require Import ZifyBool ZifyN ZifyNat.
Local Open Scope N_scope.
Ltac Zify.zify_post_hook ::= Z.div_mod_to_equations.

Lemma cons_eq {A} (a b : A) l m : a = b -> l = m -> a :: l = b :: m.
Proof. intros -> ->. reflexivity. Qed.
Ltac list_lia := repeat (apply cons_eq; [lia|]); reflexivity.

Lemma lor_const (k a b n : N) : k = a * 2 ^ n -> b < 2 ^ n -> N.lor k b = k + b.
Proof. intros -> Hb. apply lor_add. exact Hb. Qed.

Lemma land_3F x : N.land x 0x3F = x mod 64.
Proof. change 0x3F with (N.ones 6). rewrite land_mask. reflexivity. Qed.
Lemma land_3FF x : N.land x 0x3FF = x mod 1024.
Proof. change 0x3FF with (N.ones 10). rewrite land_mask. reflexivity. Qed.
Lemma shr6 x : N.shiftr x 6 = x / 64.  Proof. rewrite shiftr_div. reflexivity. Qed.
Lemma shr10 x : N.shiftr x 10 = x / 1024.  Proof. rewrite shiftr_div. reflexivity. Qed.
Lemma shr12 x : N.shiftr x 12 = x / 4096.  Proof. rewrite shiftr_div. reflexivity. Qed.
Lemma shr18 x : N.shiftr x 18 = x / 262144.  Proof. rewrite shiftr_div. reflexivity. Qed.
Lemma shl6 x : N.shiftl x 6 = x * 2 ^ 6.  Proof. apply shiftl_mul. Qed.
Lemma shl10 x : N.shiftl x 10 = x * 2 ^ 10.  Proof. apply shiftl_mul. Qed.

(* ---------- encoders of the model = encoding forms of the spec ---------- *)

Lemma enc8m_spec c : c < 0x110000 -> enc8m c = enc8 c.
Proof.
  intros Hc. unfold enc8m, enc8, cast8.
  rewrite !land_3F, ?shr6, ?shr12, ?shr18.
  destruct (c <? 0x80) eqn:E1; [list_lia|].
  destruct (c <? 0x800) eqn:E2.
  { rewrite (lor_const 0xC0 3 (c / 64) 6) by (reflexivity || lia).
    rewrite (lor_const 0x80 2 (c mod 64) 6) by (reflexivity || lia).
    list_lia. }
  destruct (c <? 0x10000) eqn:E3.
  { rewrite (lor_const 0xE0 7 (c / 4096) 5) by (reflexivity || lia).
    rewrite (lor_const 0x80 2 ((c / 64) mod 64) 6) by (reflexivity || lia).
    rewrite (lor_const 0x80 2 (c mod 64) 6) by (reflexivity || lia).
    list_lia. }
  rewrite (lor_const 0xF0 15 (c / 262144) 4) by (reflexivity || lia).
  rewrite (lor_const 0x80 2 ((c / 4096) mod 64) 6) by (reflexivity || lia).
  rewrite (lor_const 0x80 2 ((c / 64) mod 64) 6) by (reflexivity || lia).
  rewrite (lor_const 0x80 2 (c mod 64) 6) by (reflexivity || lia).
  list_lia.
Qed.

Lemma enc16m_b_spec c : c < 0x110000 -> enc16m_b c = enc16 c.
Proof.
  intros Hc. unfold enc16m_b, enc16, cast16.
  destruct (c <? 0x10000) eqn:E1; [list_lia|].
  rewrite land_3FF, shr10.
  rewrite (lor_const 0xD800 54 ((c - 65536) / 1024) 10) by (reflexivity || lia).
  rewrite (lor_const 0xDC00 55 ((c - 65536) mod 1024) 10) by (reflexivity || lia).
  list_lia.
Qed.

Lemma enc16m_a_spec c : c < 0x110000 -> enc16m_a c = enc16 c.
Proof.
  intros Hc. unfold enc16m_a, enc16, cast16.
  destruct (0xFFFF <? c) eqn:E1; destruct (c <? 0x10000) eqn:E2; try lia; [|list_lia].
  rewrite !land_3FF, shr10.
  rewrite (lor_const 0xD800 54 (((c - 65536) / 1024) mod 1024) 10) by (reflexivity || lia).
  rewrite (lor_const 0xDC00 55 ((c - 65536) mod 1024) 10) by (reflexivity || lia).
  list_lia.
Qed.

Lemma scalar_lt c : scalar c -> c < 0x110000.
Proof. unfold scalar, scalarb. lia. Qed.

Lemma encf_spec src dst c : src <> dst -> scalar c -> encf src dst c = enc dst c.
Proof.
  intros Hne Hc. pose proof (scalar_lt c Hc) as Hlt.
  destruct src, dst; try congruence; cbn [encf enc].
  - apply enc16m_a_spec; exact Hlt.
  - unfold enc32m, enc32, cast32. list_lia.
  - apply enc8m_spec; exact Hlt.
  - unfold enc32m, enc32, cast32. list_lia.
  - apply enc8m_spec; exact Hlt.
  - apply enc16m_b_spec; exact Hlt.
Qed.

(* ---------- lead/tail byte classification: kernel sweep over all 256 byte values ---------- *)

Definition byte_facts (b : N) : bool :=
  Bool.eqb (N.land b 0x80 =? 0) (b <? 0x80) &&
  Bool.eqb (N.land b 0xE0 =? 0xC0) ((0xC0 <=? b) && (b <? 0xE0)) &&
  Bool.eqb (N.land b 0xF0 =? 0xE0) ((0xE0 <=? b) && (b <? 0xF0)) &&
  Bool.eqb (N.land b 0xF8 =? 0xF0) ((0xF0 <=? b) && (b <? 0xF8)) &&
  Bool.eqb (N.land b 0xFC =? 0xF8) ((0xF8 <=? b) && (b <? 0xFC)) &&
  Bool.eqb (N.land b 0xFE =? 0xFC) ((0xFC <=? b) && (b <? 0xFE)) &&
  Bool.eqb (N.land b 0xC0 =? 0x80) ((0x80 <=? b) && (b <? 0xC0)).

Lemma byte_facts_all : all_below 8 byte_facts = true.
Proof. vm_compute. reflexivity. Qed.

Lemma byte_facts_at b : b < 256 -> byte_facts b = true.
Proof. intros H. apply (all_below_spec 8 _ byte_facts_all). exact H. Qed.

Ltac split_facts H :=
  unfold byte_facts in H; repeat (apply andb_true_iff in H; let H' := fresh "BF" in destruct H as [H H']);
  repeat match goal with X : Bool.eqb _ _ = true |- _ => apply Bool.eqb_prop in X end.

Lemma land_1F x : N.land x 0x1F = x mod 32.
Proof. change 0x1F with (N.ones 5). rewrite land_mask. reflexivity. Qed.
Lemma land_0F x : N.land x 0x0F = x mod 16.
Proof. change 0x0F with (N.ones 4). rewrite land_mask. reflexivity. Qed.
Lemma land_07 x : N.land x 0x07 = x mod 8.
Proof. change 0x07 with (N.ones 3). rewrite land_mask. reflexivity. Qed.

(* arithmetic reading of classify8 *)
Definition classify8a (b0 : N) : nat * N * N * bool :=
  if (0xC0 <=? b0) && (b0 <? 0xE0) then (1%nat, b0 mod 32, 0x80, false)
  else if (0xE0 <=? b0) && (b0 <? 0xF0) then (2%nat, b0 mod 16, 0x800, false)
  else if (0xF0 <=? b0) && (b0 <? 0xF8) then (3%nat, b0 mod 8, 0x10000, false)
  else if (0xF8 <=? b0) && (b0 <? 0xFC) then (4%nat, b0, 0, true)
  else if (0xFC <=? b0) && (b0 <? 0xFE) then (5%nat, b0, 0, true)
  else (0%nat, b0, 0, true).

Lemma classify8_arith b0 : b0 < 256 -> classify8 b0 = classify8a b0.
Proof.
  intros Hb. pose proof (byte_facts_at b0 Hb) as H. split_facts H.
  unfold classify8, classify8a. rewrite land_1F, land_0F, land_07.
  repeat match goal with X : (N.land b0 _ =? _) = _ |- _ => rewrite X; clear X end.
  reflexivity.
Qed.

Lemma tail_test b : b < 256 -> (N.land b 0xC0 =? 0x80) = ((0x80 <=? b) && (b <? 0xC0)).
Proof. intros Hb. pose proof (byte_facts_at b Hb) as H. split_facts H. assumption. Qed.

Lemma ascii_test b : b < 256 -> (N.land b 0x80 =? 0) = (b <? 0x80).
Proof. intros Hb. pose proof (byte_facts_at b Hb) as H. split_facts H. assumption. Qed.

Lemma tail_acc sym b : N.lor (N.shiftl sym 6) (N.land b 0x3F) = sym * 64 + b mod 64.
Proof.
  rewrite land_3F, shl6. rewrite lor_add by (apply N.mod_upper_bound; discriminate). reflexivity.
Qed.

(* arithmetic reading of the tail loop *)
Fixpoint tails_loop_a (n : nat) (t : list N) (sym : N) (wrong : bool) : option (N * bool) :=
  match n with
  | O => Some (sym, wrong)
  | S n' =>
    match t with
    | [] => None
    | b :: t' =>
      if wrong then tails_loop_a n' t' sym true
      else if (0x80 <=? b) && (b <? 0xC0) then tails_loop_a n' t' (sym * 64 + b mod 64) false
           else tails_loop_a n' t' sym true
    end
  end.

Definition bytes (l : list N) : Prop := Forall (fun b => b < 256) l.

Lemma tails_loop_arith n : forall t sym w, bytes t -> tails_loop n t sym w = tails_loop_a n t sym w.
Proof.
  induction n as [|n IH]; intros t sym w Ht; [reflexivity|].
  destruct t as [|b t']; [reflexivity|]. inversion Ht as [|? ? Hb Ht']; subst.
  cbn [tails_loop tails_loop_a]. rewrite tail_test by exact Hb. rewrite tail_acc.
  destruct w; [apply IH; exact Ht'|].
  destruct ((0x80 <=? b) && (b <? 0xC0)); apply IH; exact Ht'.
Qed.

Definition dec8a (l : list N) : dres :=
  match l with
  | [] => DTrunc
  | b0 :: t =>
    if b0 <? 0x80 then DOk b0 1
    else
      let '(n, sym0, minSym, w0) := classify8a b0 in
      match tails_loop_a n t sym0 w0 with
      | None => DTrunc
      | Some (sym, wrong) =>
        if wrong || (sym <? minSym) || (0x10FFFF <? sym) || in_surr sym then DBad (S n)
        else DOk sym (S n)
      end
  end.

Lemma dec8_arith l : bytes l -> dec8 l = dec8a l.
Proof.
  intros Hl. destruct l as [|b0 t]; [reflexivity|]. inversion Hl as [|? ? Hb Ht]; subst.
  unfold dec8, dec8a. rewrite ascii_test by exact Hb. rewrite classify8_arith by exact Hb.
  destruct (b0 <? 0x80); [reflexivity|].
  destruct (classify8a b0) as [[[n sym0] minSym] w0]. rewrite tails_loop_arith by exact Ht. reflexivity.
Qed.

Ltac if_lia :=
  repeat match goal with
  | |- context [if ?b then _ else _] =>
    first [ replace b with true by (symmetry; lia) | replace b with false by (symmetry; lia) ]
  end.

Lemma scalar_cases c : scalar c -> c < 0xD800 \/ (0xE000 <= c /\ c < 0x110000).
Proof. unfold scalar, scalarb. lia. Qed.

Lemma dec8a_complete c rest : scalar c -> dec8a (enc8 c ++ rest) = DOk c (length (enc8 c)).
Proof.
  intros Hc. apply scalar_cases in Hc. unfold enc8.
  destruct (c <? 0x80) eqn:E1.
  { cbn [app length dec8a]. rewrite E1. reflexivity. }
  destruct (c <? 0x800) eqn:E2.
  { cbn [app length]. unfold dec8a, classify8a. if_lia. cbn [tails_loop_a]. if_lia.
    cbn [orb]. unfold in_surr. if_lia. f_equal. lia. }
  destruct (c <? 0x10000) eqn:E3.
  { cbn [app length]. unfold dec8a, classify8a. if_lia. cbn [tails_loop_a]. if_lia.
    cbn [orb]. unfold in_surr. if_lia. f_equal. lia. }
  cbn [app length]. unfold dec8a, classify8a. if_lia. cbn [tails_loop_a]. if_lia.
  cbn [orb]. unfold in_surr. if_lia. f_equal. lia.
Qed.

Lemma tails_wrong_stays n : forall t sym r, tails_loop_a n t sym true = Some r -> snd r = true.
Proof.
  induction n as [|n IH]; intros t sym r H; cbn in H.
  - inversion H; reflexivity.
  - destruct t as [|b t']; [discriminate|]. eapply IH; exact H.
Qed.

Definition tailb (b : N) : Prop := 0x80 <= b < 0xC0.

Lemma tails_ok n : forall t sym sym', tails_loop_a n t sym false = Some (sym', false) ->
  exists tl rest, t = tl ++ rest /\ length tl = n /\ Forall tailb tl /\
                  sym' = fold_left (fun s b => s * 64 + b mod 64) tl sym.
Proof.
  induction n as [|n IH]; intros t sym sym' H; cbn [tails_loop_a] in H.
  - inversion H; subst. exists [], t. repeat split; constructor.
  - destruct t as [|b t']; [discriminate|].
    destruct ((0x80 <=? b) && (b <? 0xC0)) eqn:E.
    + destruct (IH _ _ _ H) as [tl [rest [-> [Hlen [Hall ->]]]]].
      exists (b :: tl), rest. repeat split; cbn; try congruence.
      constructor; [unfold tailb; lia | exact Hall].
    + apply tails_wrong_stays in H. discriminate.
Qed.

Lemma dec8a_sound l sym n : bytes l -> dec8a l = DOk sym n ->
  scalar sym /\ l = enc8 sym ++ skipn n l /\ n = length (enc8 sym).
Proof.
  intros Hl H. destruct l as [|b0 t]; [discriminate|].
  inversion Hl as [|? ? Hb0 Ht]; subst. unfold dec8a in H.
  destruct (b0 <? 0x80) eqn:E0.
  { inversion H; subst. unfold scalar, scalarb, enc8. rewrite E0. cbn. repeat split; lia. }
  destruct (classify8a b0) as [[[k sym0] minSym] w0] eqn:EC.
  destruct (tails_loop_a k t sym0 w0) as [[sym' wrong]|] eqn:ET; [|discriminate].
  destruct wrong; [cbn [orb] in H; discriminate|]. cbn [orb] in H.
  destruct (sym' <? minSym) eqn:E1; [discriminate|]. cbn [orb] in H.
  destruct (0x10FFFF <? sym') eqn:E2; [discriminate|]. cbn [orb] in H.
  destruct (in_surr sym') eqn:E3; [discriminate|]. inversion H; subst sym' n; clear H.
  destruct w0; [apply tails_wrong_stays in ET; discriminate|].
  apply tails_ok in ET. destruct ET as [tl [rest [-> [Hlen [Hall Hsym]]]]].
  unfold classify8a in EC. unfold in_surr in E3.
  destruct ((0xC0 <=? b0) && (b0 <? 0xE0)) eqn:C1.
  { inversion EC; subst k sym0 minSym; clear EC.
    destruct tl as [|b1 [|? ?]]; try discriminate. inversion Hall as [|? ? Hb1 _]; subst. unfold tailb in Hb1.
    cbn [fold_left] in *. unfold scalar, scalarb, enc8. if_lia. cbn [app skipn length].
    split; [lia|]. split; [|reflexivity]. repeat (apply cons_eq; [lia|]). reflexivity. }
  destruct ((0xE0 <=? b0) && (b0 <? 0xF0)) eqn:C2.
  { inversion EC; subst k sym0 minSym; clear EC.
    destruct tl as [|b1 [|b2 [|? ?]]]; try discriminate.
    inversion Hall as [|? ? Hb1 Hall']; subst. inversion Hall' as [|? ? Hb2 _]; subst. unfold tailb in Hb1, Hb2.
    cbn [fold_left] in *. unfold scalar, scalarb, enc8. if_lia. cbn [app skipn length].
    split; [lia|]. split; [|reflexivity]. repeat (apply cons_eq; [lia|]). reflexivity. }
  destruct ((0xF0 <=? b0) && (b0 <? 0xF8)) eqn:C3.
  { inversion EC; subst k sym0 minSym; clear EC.
    destruct tl as [|b1 [|b2 [|b3 [|? ?]]]]; try discriminate.
    inversion Hall as [|? ? Hb1 Hall']; subst. inversion Hall' as [|? ? Hb2 Hall'']; subst.
    inversion Hall'' as [|? ? Hb3 _]; subst. unfold tailb in Hb1, Hb2, Hb3.
    cbn [fold_left] in *. unfold scalar, scalarb, enc8. if_lia. cbn [app skipn length].
    split; [lia|]. split; [|reflexivity]. repeat (apply cons_eq; [lia|]). reflexivity. }
  destruct ((0xF8 <=? b0) && (b0 <? 0xFC)); [inversion EC|].
  destruct ((0xFC <=? b0) && (b0 <? 0xFE)); inversion EC.
Qed.

Lemma tails_some_len n : forall t sym w r, tails_loop_a n t sym w = Some r -> (n <= length t)%nat.
Proof.
  induction n as [|n IH]; intros t sym w r H; [lia|].
  destruct t as [|b t']; [discriminate|]. cbn [tails_loop_a] in H. cbn [length].
  destruct w; [apply IH in H; lia|].
  destruct ((0x80 <=? b) && (b <? 0xC0)); apply IH in H; lia.
Qed.

Lemma tails_none_len n : forall t sym w, tails_loop_a n t sym w = None -> (length t < n)%nat.
Proof.
  induction n as [|n IH]; intros t sym w H; [discriminate|].
  destruct t as [|b t']; [cbn; lia|]. cbn [tails_loop_a] in H. cbn [length].
  destruct w; [apply IH in H; lia|].
  destruct ((0x80 <=? b) && (b <? 0xC0)); apply IH in H; lia.
Qed.

Lemma classify8a_k b0 : (fst (fst (fst (classify8a b0))) <= 5)%nat.
Proof. unfold classify8a. repeat match goal with |- context [if ?b then _ else _] => destruct b end; cbn; lia. Qed.

Lemma dec8a_bad l n : dec8a l = DBad n -> (1 <= n <= length l)%nat /\ (n <= 6)%nat.
Proof.
  intros H. destruct l as [|b0 t]; [discriminate|]. unfold dec8a in H.
  destruct (b0 <? 0x80); [discriminate|].
  pose proof (classify8a_k b0) as Hk.
  destruct (classify8a b0) as [[[k sym0] minSym] w0]. cbn in Hk.
  destruct (tails_loop_a k t sym0 w0) as [[sym' wrong]|] eqn:ET; [|discriminate].
  apply tails_some_len in ET.
  destruct (wrong || (sym' <? minSym) || (0x10FFFF <? sym') || in_surr sym'); inversion H; subst.
  cbn [length]. lia.
Qed.

Lemma dec8a_trunc l : dec8a l = DTrunc -> (length l < 6)%nat.
Proof.
  intros H. destruct l as [|b0 t]; [cbn; lia|]. unfold dec8a in H.
  destruct (b0 <? 0x80); [discriminate|].
  pose proof (classify8a_k b0) as Hk.
  destruct (classify8a b0) as [[[k sym0] minSym] w0]. cbn in Hk.
  destruct (tails_loop_a k t sym0 w0) as [[sym' wrong]|] eqn:ET.
  - destruct (wrong || (sym' <? minSym) || (0x10FFFF <? sym') || in_surr sym'); discriminate.
  - apply tails_none_len in ET. cbn [length]. lia.
Qed.

(* ---------- UTF-16 ---------- *)

Lemma pair_value s low :
  0x10000 + N.lor (N.shiftl (N.land s 0x3FF) 10) (N.land low 0x3FF) = 0x10000 + (s mod 1024) * 1024 + low mod 1024.
Proof.
  rewrite !land_3FF, shl10. rewrite lor_add by (apply N.mod_upper_bound; discriminate).
  change (2 ^ 10) with 1024. lia.
Qed.

Lemma dec16_complete c rest : scalar c -> dec16 (enc16 c ++ rest) = DOk c (length (enc16 c)).
Proof.
  intros Hc. apply scalar_cases in Hc. unfold enc16.
  destruct (c <? 0x10000) eqn:E1.
  - cbn [app length dec16]. unfold in_surr. if_lia. reflexivity.
  - cbn [app length dec16]. rewrite pair_value. unfold in_surr. if_lia. f_equal. lia.
Qed.

Lemma dec16_sound l sym n : Forall (fun u => u < 65536) l -> dec16 l = DOk sym n ->
  scalar sym /\ l = enc16 sym ++ skipn n l /\ n = length (enc16 sym).
Proof.
  intros Hl H. destruct l as [|s t]; [discriminate|]. inversion Hl as [|? ? Hs Ht]; subst.
  unfold dec16 in H. unfold in_surr in H.
  destruct ((0xD800 <=? s) && (s <=? 0xDFFF)) eqn:E1.
  - destruct (0xDC00 <=? s) eqn:E2; [discriminate|].
    destruct t as [|low t']; [discriminate|]. inversion Ht as [|? ? Hlow _]; subst.
    destruct ((0xDC00 <=? low) && (low <=? 0xDFFF)) eqn:E3; [|discriminate].
    rewrite pair_value in H.
    remember (0x10000 + s mod 1024 * 1024 + low mod 1024) as v eqn:Ev.
    injection H as <- <-.
    assert (Ha : s mod 1024 = s - 0xD800) by lia.
    assert (Hb : low mod 1024 = low - 0xDC00) by lia.
    rewrite Ha, Hb in Ev. clear Ha Hb.
    set (a := s - 0xD800) in *. set (b := low - 0xDC00) in *.
    assert (Hab : a < 1024 /\ b < 1024 /\ s = 0xD800 + a /\ low = 0xDC00 + b) by (subst a b; lia).
    clearbody a b. destruct Hab as [Ha [Hb [-> ->]]].
    assert (Hlt : (v <? 0x10000) = false) by lia.
    assert (Hd : (v - 0x10000) / 1024 = a) by lia.
    assert (Hm : (v - 0x10000) mod 1024 = b) by lia.
    unfold scalar, scalarb, enc16. rewrite Hlt, Hd, Hm. cbn [app skipn length].
    split; [lia|]. split; reflexivity.
  - injection H as <- <-. unfold scalar, scalarb, enc16.
    assert (Hlt : (s <? 0x10000) = true) by lia. rewrite Hlt. cbn [app skipn length].
    split; [lia|]. split; reflexivity.
Qed.

Lemma dec16_bad l n : dec16 l = DBad n -> n = 1%nat /\ (1 <= length l)%nat.
Proof.
  intros H. destruct l as [|s t]; [discriminate|]. unfold dec16 in H. cbn [length].
  destruct (in_surr s); [|discriminate].
  destruct (0xDC00 <=? s); [inversion H; lia|].
  destruct t as [|low t']; [discriminate|].
  destruct ((0xDC00 <=? low) && (low <=? 0xDFFF)); inversion H; lia.
Qed.

Lemma dec16_trunc l : dec16 l = DTrunc -> (length l < 2)%nat.
Proof.
  intros H. destruct l as [|s t]; [cbn; lia|]. unfold dec16 in H.
  destruct (in_surr s); [|discriminate].
  destruct (0xDC00 <=? s); [discriminate|].
  destruct t as [|low t']; [cbn; lia|].
  destruct ((0xDC00 <=? low) && (low <=? 0xDFFF)); discriminate.
Qed.

(* ---------- all three source widths at once ---------- *)

Definition units (w : width) (l : list N) : Prop := Forall (fun u => u < unit_bound w) l.

Lemma enc_units w c : scalar c -> units w (enc w c).
Proof.
  intros Hc. apply scalar_cases in Hc. unfold units. destruct w; cbn [enc unit_bound].
  - unfold enc8. repeat match goal with |- context [if ?b then _ else _] => destruct b eqn:? end;
      repeat (constructor; [lia|]); constructor.
  - unfold enc16. destruct (c <? 0x10000) eqn:?; repeat (constructor; [lia|]); constructor.
  - unfold enc32. constructor; [lia|constructor].
Qed.

Lemma encs_units w cps : Forall scalar cps -> units w (encs w cps).
Proof.
  induction 1 as [|c cps Hc _ IH]; [constructor|]. cbn. apply Forall_app. split; [apply enc_units; exact Hc | exact IH].
Qed.

Lemma enc_len_pos w c : (1 <= length (enc w c))%nat.
Proof.
  destruct w; cbn [enc]; [unfold enc8 | unfold enc16 | unfold enc32];
  repeat match goal with |- context [if ?b then _ else _] => destruct b end; cbn; lia.
Qed.

Lemma decf_complete src c rest : units src rest -> scalar c ->
  decf src (enc src c ++ rest) = DOk c (length (enc src c)).
Proof.
  intros Hr Hc. destruct src; cbn [decf enc].
  - rewrite dec8_arith. { apply dec8a_complete; exact Hc. }
    apply Forall_app. split; [apply (enc_units W8); exact Hc | exact Hr].
  - apply dec16_complete; exact Hc.
  - unfold enc32. cbn [app length dec32]. apply scalar_cases in Hc. unfold in_surr. if_lia. reflexivity.
Qed.

Lemma decf_sound src l sym n : units src l -> decf src l = DOk sym n ->
  scalar sym /\ l = enc src sym ++ skipn n l /\ n = length (enc src sym).
Proof.
  intros Hl H. destruct src; cbn [decf enc] in *.
  - rewrite dec8_arith in H by exact Hl. apply dec8a_sound; assumption.
  - apply dec16_sound; assumption.
  - destruct l as [|s t]; [discriminate|]. unfold dec32 in H. unfold in_surr in H.
    destruct (((0xD800 <=? s) && (s <=? 0xDFFF)) || (0x10FFFF <? s)) eqn:E; [discriminate|].
    inversion H; subst. unfold scalar, scalarb, enc32. cbn. repeat split; lia.
Qed.

Lemma decf_bad src l n : units src l -> decf src l = DBad n -> (1 <= n <= length l)%nat /\ (n <= maxlen src)%nat.
Proof.
  intros Hl H. destruct src; cbn [decf maxlen] in *.
  - rewrite dec8_arith in H by exact Hl. apply dec8a_bad in H. lia.
  - apply dec16_bad in H. lia.
  - destruct l as [|s t]; [discriminate|]. unfold dec32 in H.
    destruct (in_surr s || (0x10FFFF <? s)); inversion H. cbn. lia.
Qed.

Lemma decf_trunc src l : units src l -> decf src l = DTrunc -> (length l < maxlen src)%nat.
Proof.
  intros Hl H. destruct src; cbn [decf maxlen] in *.
  - rewrite dec8_arith in H by exact Hl. apply dec8a_trunc in H. exact H.
  - apply dec16_trunc in H. exact H.
  - destruct l as [|s t]; [cbn; lia|]. unfold dec32 in H.
    destruct (in_surr s || (0x10FFFF <? s)); discriminate.
Qed.
