(* UtfModel.v — executable mirror of include/bitserializer/conversion_detail/convert_utf.h:
   Utf8::Decode / Utf8::Encode / Utf16::Decode / Utf16::Encode / Utf32::Decode / Utf32::Encode,
   the LE/BE class wrappers, Memory::Reverse, Transcode, HandleEncodingError.
   Bit operations and casts are written as in the C++ (N.land / N.lor / N.shiftl / N.shiftr, mod 2^k).
   No proofs in this file. *)
From BS Require Import Base UtfSpec.
Local Open Scope N_scope.

Inductive policy := Skip | ThrowError.
Inductive code := Success | InvalidSequence | UnexpectedEnd | OutOfFuel.
Record result := mkR { r_code : code; r_pos : nat; r_cnt : nat; r_out : list N }.

(* outcome of decoding ONE source sequence (one iteration of the C++ while loop) *)
Inductive dres := DOk (sym : N) (n : nat) | DBad (n : nat) | DTrunc.

Definition in_surr (s : N) : bool := (0xD800 <=? s) && (s <=? 0xDFFF).   (* IsInSurrogatesRange *)

Definition cast8 (x : N) : N := x mod 256.
Definition cast16 (x : N) : N := x mod 65536.
Definition cast32 (x : N) : N := x mod 4294967296.

(* ---- Utf8::Decode: one iteration ---- *)

(* lead byte -> (number of tail bytes, initial sym, minimal code point of that length, isWrongSeq) *)
Definition classify8 (b0 : N) : nat * N * N * bool :=
  if N.land b0 0xE0 =? 0xC0 then (1%nat, N.land b0 0x1F, 0x80, false)
  else if N.land b0 0xF0 =? 0xE0 then (2%nat, N.land b0 0x0F, 0x800, false)
  else if N.land b0 0xF8 =? 0xF0 then (3%nat, N.land b0 0x07, 0x10000, false)
  else if N.land b0 0xFC =? 0xF8 then (4%nat, b0, 0, true)
  else if N.land b0 0xFE =? 0xFC then (5%nat, b0, 0, true)
  else (0%nat, b0, 0, true).

(* "for (; tails > 1; --tails)" *)
Fixpoint tails_loop (n : nat) (t : list N) (sym : N) (wrong : bool) : option (N * bool) :=
  match n with
  | O => Some (sym, wrong)
  | S n' =>
    match t with
    | [] => None                                   (* in == end -> UnexpectedEnd *)
    | b :: t' =>
      if wrong then tails_loop n' t' sym true
      else if N.land b 0xC0 =? 0x80
           then tails_loop n' t' (N.lor (N.shiftl sym 6) (N.land b 0x3F)) false
           else tails_loop n' t' sym true
    end
  end.

Definition dec8 (l : list N) : dres :=
  match l with
  | [] => DTrunc
  | b0 :: t =>
    if N.land b0 0x80 =? 0 then DOk b0 1
    else
      let '(n, sym0, minSym, w0) := classify8 b0 in
      match tails_loop n t sym0 w0 with
      | None => DTrunc
      | Some (sym, wrong) =>
        if wrong || (sym <? minSym) || (0x10FFFF <? sym) || in_surr sym then DBad (S n)
        else DOk sym (S n)
      end
  end.

(* ---- surrogate handling shared by Utf8::Encode (16-bit input) and Utf16::Decode (32-bit output) ---- *)
Definition dec16 (l : list N) : dres :=
  match l with
  | [] => DTrunc
  | s :: t =>
    if in_surr s then
      if 0xDC00 <=? s then DBad 1
      else match t with
           | [] => DTrunc
           | low :: _ =>
             if (0xDC00 <=? low) && (low <=? 0xDFFF)
             then DOk (0x10000 + N.lor (N.shiftl (N.land s 0x3FF) 10) (N.land low 0x3FF)) 2
             else DBad 1
           end
    else DOk s 1
  end.

(* ---- 32-bit input (Utf8::Encode / Utf16::Encode from char32_t) ---- *)
Definition dec32 (l : list N) : dres :=
  match l with
  | [] => DTrunc
  | s :: _ => if in_surr s || (0x10FFFF <? s) then DBad 1 else DOk s 1
  end.

Definition decf (src : width) : list N -> dres :=
  match src with W8 => dec8 | W16 => dec16 | W32 => dec32 end.

(* ---- encoders, as the push_back/append sequences of the C++ ---- *)

(* Utf8::Encode tail *)
Definition enc8m (sym : N) : list N :=
  if sym <? 0x80 then [cast8 sym]
  else if sym <? 0x800 then
    [cast8 (N.lor 0xC0 (N.shiftr sym 6)); cast8 (N.lor 0x80 (N.land sym 0x3F))]
  else if sym <? 0x10000 then
    [cast8 (N.lor 0xE0 (N.shiftr sym 12)); cast8 (N.lor 0x80 (N.land (N.shiftr sym 6) 0x3F));
     cast8 (N.lor 0x80 (N.land sym 0x3F))]
  else
    [cast8 (N.lor 0xF0 (N.shiftr sym 18)); cast8 (N.lor 0x80 (N.land (N.shiftr sym 12) 0x3F));
     cast8 (N.lor 0x80 (N.land (N.shiftr sym 6) 0x3F)); cast8 (N.lor 0x80 (N.land sym 0x3F))].

(* Utf8::Decode tail for 16-bit output: sym > 0xFFFF -> pair, with the (>>10)&0x3FF mask *)
Definition enc16m_a (sym : N) : list N :=
  if 0xFFFF <? sym then
    let s := sym - 0x10000 in
    [cast16 (N.lor 0xD800 (N.land (N.shiftr s 10) 0x3FF)); cast16 (N.lor 0xDC00 (N.land s 0x3FF))]
  else [cast16 sym].

(* Utf16::Encode from char32_t *)
Definition enc16m_b (sym : N) : list N :=
  if sym <? 0x10000 then [cast16 sym]
  else
    let s := sym - 0x10000 in
    [cast16 (N.lor 0xD800 (N.shiftr s 10)); cast16 (N.lor 0xDC00 (N.land s 0x3FF))].

Definition enc32m (sym : N) : list N := [cast32 sym].

Definition encf (src dst : width) : N -> list N :=
  match dst with
  | W8 => enc8m
  | W16 => match src with W8 => enc16m_a | _ => enc16m_b end
  | W32 => enc32m
  end.

(* count reported together with UnexpectedEnd: Utf16::Decode to 32 bit returns a literal 0 *)
Definition trunc_cnt (src dst : width) (cnt : nat) : nat :=
  match src, dst with W16, W32 => 0%nat | _, _ => cnt end.

Section Loop.
  Variable dec : list N -> dres.
  Variable encu : N -> list N.
  Variable tcnt : nat -> nat.
  Variable pol : policy.
  Variable mark : list N.

  Fixpoint loop (fuel : nat) (inp : list N) (pos cnt : nat) (out : list N) : result :=
    match fuel with
    | O => mkR OutOfFuel pos cnt out
    | S f =>
      match inp with
      | [] => mkR Success pos cnt out
      | _ =>
        match dec inp with
        | DOk sym n => loop f (skipn n inp) (pos + n) cnt (out ++ encu sym)
        | DBad n =>
          match pol with
          | ThrowError => mkR InvalidSequence pos (S cnt) out
          | Skip => loop f (skipn n inp) (pos + n) (S cnt) (out ++ mark)
          end
        | DTrunc => mkR UnexpectedEnd pos (tcnt cnt) out
        end
      end
    end.
End Loop.

(* Utf16::Decode / Utf16::Encode with equal widths: copy, refusing a trailing first half of a pair
   (D800..DBFF) *)
Fixpoint copy16 (inp : list N) (pos : nat) (out : list N) : result :=
  match inp with
  | [] => mkR Success pos 0 out
  | s :: t =>
    match t with
    | [] => if (0xD800 <=? s) && (s <=? 0xDBFF) then mkR UnexpectedEnd pos 0 out
            else mkR Success (S pos) 0 (out ++ [s])
    | _ => copy16 t (S pos) (out ++ [s])
    end
  end.

(* Convert::Utf::Transcode(in, end, outStr, policy, mark) *)
Definition transcode (src dst : width) (pol : policy) (mark : list N) (inp out0 : list N) : result :=
  if width_eqb src dst then mkR Success (length inp) 0 (out0 ++ inp)
  else loop (decf src) (encf src dst) (trunc_cnt src dst) pol mark (S (length inp)) inp 0 0 out0.

(* Memory::Reverse for 2- and 4-byte integers, as written *)
Definition rev16 (v : N) : N :=
  N.lxor (cast16 (N.shiftl (N.land v 0x00ff) 8)) (cast16 (N.land (N.shiftr v 8) 0x00ff)).
Definition rev32 (v : N) : N :=
  let v1 := cast32 (N.lxor (N.shiftl (N.land v 0x0000ffff) 16) (N.land (N.shiftr v 16) 0x0000ffff)) in
  cast32 (N.lxor (N.shiftl (N.land v1 0x00ff00ff) 8) (N.land (N.shiftr v1 8) 0x00ff00ff)).
Definition rev64 (v : N) : N :=
  let c64 x := x mod 18446744073709551616 in
  let v1 := c64 (N.lxor (N.shiftl (N.land v 0x00000000ffffffff) 32) (N.land (N.shiftr v 32) 0x00000000ffffffff)) in
  let v2 := c64 (N.lxor (N.shiftl (N.land v1 0x0000ffff0000ffff) 16) (N.land (N.shiftr v1 16) 0x0000ffff0000ffff)) in
  c64 (N.lxor (N.shiftl (N.land v2 0x00ff00ff00ff00ff) 8) (N.land (N.shiftr v2 8) 0x00ff00ff00ff00ff)).

Definition rev_unit (w : width) (u : N) : N :=
  match w with W8 => u | W16 => rev16 u | W32 => rev32 u end.

(* the host is little-endian: the LE classes are the native ones, the BE classes swap *)
Definition adapt (e : endian) (w : width) (l : list N) : list N :=
  match e with LE => l | BE => map (rev_unit w) l end.

(* UtfXXyy::Decode(in, end, out...) : source class (width, endian) -> native string of width dst.
   Same-width cases are the copy paths of Utf16::Decode / Utf32::Decode. *)
Definition class_decode (src : width) (e : endian) (dst : width) (pol : policy) (mark : list N)
                        (inp out0 : list N) : result :=
  let inp' := adapt e src inp in
  match src, dst with
  | W16, W16 => copy16 inp' 0 out0
  | W32, W32 => mkR Success (length inp') 0 (out0 ++ map cast32 inp')
  | _, _ => transcode src dst pol mark inp' out0
  end.

(* UtfXXyy::Encode(in, end, out...) : native units of width src -> target class (dst, e);
   the part appended to out is byte-reversed afterwards when e is not native. *)
Definition class_encode (dst : width) (e : endian) (src : width) (pol : policy) (mark : list N)
                        (inp out0 : list N) : result :=
  let r := match src, dst with
           | W16, W16 => copy16 inp 0 []
           | W32, W32 => mkR Success (length inp) 0 (map cast32 inp)
           | _, _ => transcode src dst pol mark inp []
           end in
  mkR (r_code r) (r_pos r) (r_cnt r) (out0 ++ adapt e dst (r_out r)).
