(* UtfOrder.v — byte order: Memory::Reverse as modelled (rev16/rev32) is the byte swap, and the
   LE/BE encoder classes produce / consume the Unicode encoding schemes. *)
From BS Require Import Base UtfSpec UtfModel UtfLemmas UtfProofs.
From Coq Require Import ZifyBool ZifyN ZifyNat.
Local Open Scope N_scope.
Ltac Zify.zify_post_hook ::= Z.div_mod_to_equations.

Definition rev16_ok (u : N) : bool := rev16 u =? (u mod 256) * 256 + u / 256.

Lemma rev16_sweep : all_below 16 rev16_ok = true.
Proof. vm_compute. reflexivity. Qed.

Lemma rev16_spec u : u < 65536 -> rev16 u = (u mod 256) * 256 + u / 256.
Proof.
  intros H. apply N.eqb_eq. apply (all_below_spec 16 rev16_ok rev16_sweep). exact H.
Qed.

Lemma land_255 x : N.land x 255 = x mod 256.
Proof. change 255 with (N.ones 8). apply land_mask. Qed.
Lemma land_FFFF x : N.land x 0xffff = x mod 65536.
Proof. change 0xffff with (N.ones 16). apply land_mask. Qed.

(* one "swap the bytes inside each 16-bit half" step on a 32-bit value given as two halves *)
Lemma swap8_step x y : x < 65536 -> y < 65536 ->
  N.lxor (N.shiftl (N.land (x * 65536 + y) 0x00ff00ff) 8) (N.land (N.shiftr (x * 65536 + y) 8) 0x00ff00ff)
  = ((x mod 256) * 256 + x / 256) * 65536 + ((y mod 256) * 256 + y / 256).
Proof.
  intros Hx Hy.
  assert (E1 : N.land (x * 65536 + y) 0x00ff00ff = (x mod 256) * 65536 + y mod 256).
  { change 0x00ff00ff with (255 * 2 ^ 16 + 255). change 65536 with (2 ^ 16).
    rewrite land_split by (cbn; lia). rewrite !land_255. reflexivity. }
  assert (E2 : N.land (N.shiftr (x * 65536 + y) 8) 0x00ff00ff = (x / 256) * 65536 + y / 256).
  { rewrite shiftr_div. change (2 ^ 8) with 256.
    replace ((x * 65536 + y) / 256) with ((x / 256) * 2 ^ 16 + ((x mod 256) * 2 ^ 8 + y / 256)) by (cbn; lia).
    change 0x00ff00ff with (255 * 2 ^ 16 + (0 * 2 ^ 8 + 255)).
    rewrite land_split by (cbn; lia). rewrite land_split by (cbn; lia).
    rewrite !land_255, N.land_0_r. cbn [N.mul N.add]. change (2 ^ 16) with 65536.
    rewrite (N.mod_small (x / 256)) by lia. rewrite (N.mod_small (y / 256)) by lia. lia. }
  rewrite E1, E2, shiftl_mul. change (2 ^ 8) with 256.
  set (a := x mod 256). set (b := y mod 256). set (c := x / 256). set (d := y / 256).
  assert (Hb : a < 256 /\ b < 256 /\ c < 256 /\ d < 256) by (subst a b c d; lia).
  clearbody a b c d.
  replace ((a * 65536 + b) * 256) with ((a * 2 ^ 8) * 2 ^ 16 + b * 2 ^ 8) by (cbn; lia).
  replace (c * 65536 + d) with (c * 2 ^ 16 + d) by (cbn; lia).
  rewrite <- N.add_nocarry_lxor.
  - cbn; lia.
  - rewrite land_split by (cbn; lia).
    rewrite !land_disjoint_shift by (cbn; lia). reflexivity.
Qed.

Lemma rev32_spec u : u < 4294967296 ->
  rev32 u = (u mod 256) * 16777216 + ((u / 256) mod 256) * 65536 + ((u / 65536) mod 256) * 256 + u / 16777216.
Proof.
  intros Hu. unfold rev32, cast32.
  rewrite !land_FFFF, (shiftl_mul (u mod 65536) 16), (shiftr_div u 16).
  assert (H16 : 2 ^ 16 = 65536) by reflexivity.
  assert (Hhi : u / 2 ^ 16 < 2 ^ 16) by (rewrite H16; lia).
  rewrite (N.mod_small (u / 2 ^ 16)) by (rewrite H16 in *; lia).
  rewrite lxor_add by exact Hhi. rewrite H16 in *.
  rewrite (N.mod_small (u mod 65536 * 65536 + u / 65536)) by lia.
  rewrite swap8_step by lia.
  rewrite N.mod_small by lia. lia.
Qed.

(* ---------- encoding schemes of the LE/BE classes ---------- *)

Lemma bytes32_bounds u : u < 4294967296 ->
  u mod 256 < 256 /\ (u / 256) mod 256 < 256 /\ (u / 65536) mod 256 < 256 /\ u / 16777216 < 256.
Proof. intros H. repeat split; lia. Qed.

Lemma rev_unit_bytes w u : u < unit_bound w -> unit_bytes LE w (rev_unit w u) = unit_bytes BE w u.
Proof.
  intros Hu. destruct w; cbn [unit_bound rev_unit unit_bytes] in *.
  - reflexivity.
  - rewrite rev16_spec by exact Hu.
    destruct (recomp16 (u mod 256) (u / 256)) as [E1 E2]; [lia | lia |]. rewrite E1, E2. reflexivity.
  - rewrite rev32_spec by exact Hu. destruct (bytes32_bounds u Hu) as [B0 [B1 [B2 B3]]].
    destruct (recomp32 _ _ _ _ B0 B1 B2 B3) as [E0 [E1 [E2 E3]]]. cbn zeta in *.
    rewrite E0, E1, E2, E3. reflexivity.
Qed.

Lemma rev_unit_bound w u : u < unit_bound w -> rev_unit w u < unit_bound w.
Proof.
  intros Hu. destruct w; cbn [unit_bound rev_unit] in *.
  - exact Hu.
  - rewrite rev16_spec by exact Hu. lia.
  - rewrite rev32_spec by exact Hu. destruct (bytes32_bounds u Hu) as [B0 [B1 [B2 B3]]]. lia.
Qed.

Lemma rev_unit_bytes' w u : u < unit_bound w -> unit_bytes BE w (rev_unit w u) = unit_bytes LE w u.
Proof.
  intros Hu. destruct w; cbn [unit_bound rev_unit unit_bytes] in *.
  - reflexivity.
  - rewrite rev16_spec by exact Hu.
    destruct (recomp16 (u mod 256) (u / 256)) as [E1 E2]; [lia | lia |]. rewrite E1, E2. reflexivity.
  - rewrite rev32_spec by exact Hu. destruct (bytes32_bounds u Hu) as [B0 [B1 [B2 B3]]].
    destruct (recomp32 _ _ _ _ B0 B1 B2 B3) as [E0 [E1 [E2 E3]]]. cbn zeta in *.
    rewrite E0, E1, E2, E3. reflexivity.
Qed.

Lemma adapt_bytes e w l : units w l -> units_bytes LE w (adapt e w l) = units_bytes e w l.
Proof.
  intros Hl. destruct e; [reflexivity|]. unfold adapt, units_bytes.
  induction Hl as [|u l Hu _ IH]; [reflexivity|]. cbn [map flat_map].
  rewrite rev_unit_bytes by exact Hu. rewrite IH. reflexivity.
Qed.

Lemma unit_bytes_inj e w u v rest1 rest2 : u < unit_bound w -> v < unit_bound w ->
  unit_bytes e w u ++ rest1 = unit_bytes e w v ++ rest2 -> u = v /\ rest1 = rest2.
Proof.
  intros Hu Hv H. destruct w.
  - destruct e; cbn [unit_bytes app] in H; injection H as -> ->; split; reflexivity.
  - rewrite (decomp16 u), (decomp16 v).
    destruct e; cbn [unit_bytes app] in H; injection H as -> -> ->; split; reflexivity.
  - rewrite (decomp32 u), (decomp32 v).
    destruct e; cbn [unit_bytes app] in H; injection H as -> -> -> -> ->; split; reflexivity.
Qed.

Lemma units_bytes_inj e w l1 : forall l2, units w l1 -> units w l2 ->
  units_bytes e w l1 = units_bytes e w l2 -> l1 = l2.
Proof.
  unfold units_bytes.
  induction l1 as [|u l1 IH]; intros l2 H1 H2 H.
  - destruct l2 as [|v l2]; [reflexivity|]. cbn in H. destruct w, e; discriminate.
  - destruct l2 as [|v l2]; [cbn in H; destruct w, e; discriminate|].
    inversion H1 as [|? ? Hu H1']; inversion H2 as [|? ? Hv H2']; subst. cbn [flat_map] in H.
    apply unit_bytes_inj in H; [|assumption..]. destruct H as [-> H]. f_equal. apply IH; assumption.
Qed.

Theorem class_encode_scheme dst e src pol mark cps : src <> dst -> Forall scalar cps ->
  let r := class_encode dst e src pol mark (encs src cps) [] in
  r_code r = Success /\ r_cnt r = 0%nat /\ r_pos r = length (encs src cps) /\
  units_bytes LE dst (r_out r) = units_bytes e dst (encs dst cps).
Proof.
  intros Hne Hs. cbn zeta. unfold class_encode.
  assert (E : match src, dst with
              | W16, W16 => copy16 (encs src cps) 0 []
              | W32, W32 => mkR Success (length (encs src cps)) 0 (map cast32 (encs src cps))
              | _, _ => transcode src dst pol mark (encs src cps) []
              end = mkR Success (length (encs src cps)) 0 (encs dst cps)).
  { destruct src, dst; try congruence; apply (transcode_exact' _ _ pol mark cps [] Hs). }
  rewrite E. cbn [r_code r_pos r_cnt r_out app]. splits; try reflexivity.
  apply adapt_bytes. apply encs_units. exact Hs.
Qed.

Lemma adapt_units e w l : units w l -> units w (adapt e w l).
Proof.
  intros H. destruct e; [exact H|]. unfold adapt, units in *. apply Forall_map.
  eapply Forall_impl; [|exact H]. intros u Hu. apply rev_unit_bound. exact Hu.
Qed.

Lemma adapt_bytes' e w l : units w l -> units_bytes e w (adapt e w l) = units_bytes LE w l.
Proof.
  intros Hl. destruct e; [reflexivity|]. unfold adapt, units_bytes.
  induction Hl as [|u l Hu _ IH]; [reflexivity|]. cbn [map flat_map].
  rewrite rev_unit_bytes' by exact Hu. rewrite IH. reflexivity.
Qed.

Theorem class_decode_scheme src e dst pol mark cps stored : src <> dst -> Forall scalar cps ->
  Forall (fun u => u < unit_bound src) stored ->
  units_bytes LE src stored = units_bytes e src (encs src cps) ->
  class_decode src e dst pol mark stored [] = mkR Success (length stored) 0 (encs dst cps).
Proof.
  intros Hne Hs Hst Hb. unfold class_decode.
  assert (Ead : adapt e src stored = encs src cps).
  { apply (units_bytes_inj e src); [apply adapt_units; exact Hst | apply encs_units; exact Hs |].
    rewrite adapt_bytes' by exact Hst. exact Hb. }
  assert (Elen : length stored = length (encs src cps)).
  { rewrite <- Ead. destruct e; cbn [adapt]; [reflexivity | rewrite map_length; reflexivity]. }
  rewrite Ead, Elen.
  destruct src, dst; try congruence; apply (transcode_exact' _ _ pol mark cps [] Hs).
Qed.
