(* UtfProofs.v — the transcoding loop against the spec: exactness on well-formed input (C11) and the
   complete characterisation of its behaviour on arbitrary input (C12). *)
From BS Require Import Base UtfSpec UtfModel UtfLemmas.
Local Open Scope N_scope.

Lemma units_app w a b : units w (a ++ b) <-> units w a /\ units w b.
Proof. unfold units. apply Forall_app. Qed.

Lemma units_skipn w n l : units w l -> units w (skipn n l).
Proof.
  intros H. rewrite <- (firstn_skipn n l) in H. apply units_app in H. tauto.
Qed.

Lemma skip_spec_wf src dst mark inp o n :
  wf dst mark -> skip_spec src dst mark inp o n -> wf dst o.
Proof.
  intros Hm H. induction H as [|c r o n Hc _ IH|chunk r o n _ _ _ IH].
  - apply wf_nil.
  - apply wf_app; [apply wf_enc; exact Hc | exact IH].
  - apply wf_app; assumption.
Qed.

Lemma skip_spec_zero src dst mark inp o :
  skip_spec src dst mark inp o 0 -> exists cps, Forall scalar cps /\ inp = encs src cps /\ o = encs dst cps.
Proof.
  intros H. remember 0%nat as z eqn:Ez. induction H as [|c r o n Hc _ IH|]; [| |discriminate].
  - exists []. repeat split. constructor.
  - destruct (IH Ez) as [cps [Hs [-> ->]]]. exists (c :: cps). repeat split.
    constructor; assumption.
Qed.

Lemma skip_spec_of_good src dst mark cps :
  Forall scalar cps -> skip_spec src dst mark (encs src cps) (encs dst cps) 0.
Proof.
  induction 1 as [|c cps Hc _ IH]; [constructor|]. cbn. apply ss_good; assumption.
Qed.

Ltac splits := repeat match goal with |- _ /\ _ => split end.

Section Loop.
  Variables src dst : width.
  Hypothesis Hne : src <> dst.
  Variable pol : policy.
  Variable mark : list N.

  Notation L := (loop (decf src) (encf src dst) (trunc_cnt src dst) pol mark).

  (* C11: on well-formed input the loop emits exactly the target encoding form *)
  Lemma loop_good cps : forall fuel pos cnt out, Forall scalar cps ->
    (length (encs src cps) < fuel)%nat ->
    L fuel (encs src cps) pos cnt out =
      mkR Success (pos + length (encs src cps)) cnt (out ++ encs dst cps).
  Proof.
    induction cps as [|c cps IH]; intros fuel pos cnt out Hs Hf.
    - destruct fuel; [cbn in Hf; lia|]. cbn. rewrite Nat.add_0_r, app_nil_r. reflexivity.
    - inversion Hs as [|? ? Hc Hs']; subst.
      change (encs src (c :: cps)) with (enc src c ++ encs src cps) in *.
      change (encs dst (c :: cps)) with (enc dst c ++ encs dst cps).
      rewrite app_length in *. pose proof (enc_len_pos src c) as Hp.
      destruct fuel; [lia|]. cbn [loop].
      destruct (enc src c ++ encs src cps) as [|x xs] eqn:E.
      { apply (f_equal (@length N)) in E. rewrite app_length in E. cbn in E. lia. }
      rewrite <- E. rewrite decf_complete by (try apply encs_units; assumption).
      rewrite skipn_app_exact. rewrite IH by (try assumption; lia).
      rewrite encf_spec by assumption. rewrite <- app_assoc. f_equal. lia.
  Qed.

  (* C12: every run of the loop, on any unit sequence *)
  Lemma loop_char : forall fuel inp pos cnt out, units src inp -> (length inp < fuel)%nat ->
    exists consumed rest o n,
      inp = consumed ++ rest /\ skip_spec src dst mark consumed o n /\
      (pol = ThrowError -> n = 0%nat) /\
      r_out (L fuel inp pos cnt out) = out ++ o /\
      r_pos (L fuel inp pos cnt out) = (pos + length consumed)%nat /\
      ( (r_code (L fuel inp pos cnt out) = Success /\ rest = [] /\
         r_cnt (L fuel inp pos cnt out) = (cnt + n)%nat)
      \/ (r_code (L fuel inp pos cnt out) = UnexpectedEnd /\ decf src rest = DTrunc /\ rest <> [] /\
         r_cnt (L fuel inp pos cnt out) = trunc_cnt src dst (cnt + n))
      \/ (r_code (L fuel inp pos cnt out) = InvalidSequence /\ pol = ThrowError /\
         (exists k, decf src rest = DBad k) /\ r_cnt (L fuel inp pos cnt out) = S (cnt + n)) ).
  Proof.
    induction fuel as [|fuel IH]; intros inp pos cnt out Hu Hf; [lia|].
    cbn [loop]. destruct inp as [|x xs] eqn:Einp.
    { exists [], [], [], 0%nat. cbn [app length r_out r_pos r_code r_cnt]. rewrite app_nil_r, !Nat.add_0_r.
      splits; try reflexivity; [constructor|]. left. splits; reflexivity. }
    rewrite <- Einp in *. assert (Hnil : inp <> []) by (rewrite Einp; discriminate). clear x xs Einp.
    destruct (decf src inp) as [sym k|k|] eqn:ED.
    - (* one well-formed sequence *)
      destruct (decf_sound src inp sym k Hu ED) as [Hsym [Hinp Hk]].
      pose proof (enc_len_pos src sym) as Hp.
      assert (Hlen : length inp = (k + length (skipn k inp))%nat).
      { rewrite Hinp at 1. rewrite app_length. lia. }
      destruct (IH (skipn k inp) (pos + k)%nat cnt (out ++ encf src dst sym)) as
        [consumed [rest [o [n [E1 [E2 [E3 [E4 [E5 E6]]]]]]]]].
      { apply units_skipn. exact Hu. } { lia. }
      exists (enc src sym ++ consumed), rest, (enc dst sym ++ o), n.
      split. { rewrite <- app_assoc, <- E1. exact Hinp. }
      split. { apply ss_good; assumption. }
      split. { exact E3. }
      split. { rewrite E4. rewrite encf_spec by assumption. rewrite app_assoc. reflexivity. }
      split. { rewrite E5. rewrite app_length. lia. }
      exact E6.
    - (* one ill-formed sequence *)
      destruct (decf_bad src inp k Hu ED) as [Hk1 Hk2].
      assert (Hnopre : forall c, scalar c -> ~ is_prefix (enc src c) inp).
      { intros c Hc [r Hr]. rewrite Hr in ED, Hu. apply units_app in Hu.
        rewrite decf_complete in ED by tauto. discriminate. }
      destruct pol eqn:Epol.
      + assert (Hlen : length inp = (k + length (skipn k inp))%nat).
        { rewrite <- (firstn_skipn k inp) at 1. rewrite app_length, firstn_length. lia. }
        destruct (IH (skipn k inp) (pos + k)%nat (S cnt) (out ++ mark)) as
          [consumed [rest [o [n [E1 [E2 [E3 [E4 [E5 E6]]]]]]]]].
        { apply units_skipn. exact Hu. } { lia. }
        exists (firstn k inp ++ consumed), rest, (mark ++ o), (S n).
        split. { rewrite <- app_assoc, <- E1. symmetry. apply firstn_skipn. }
        split. { apply ss_bad; [rewrite firstn_length; lia | | exact E2].
                 intros c Hc [r Hr]. apply (Hnopre c Hc). exists (r ++ rest).
                 rewrite app_assoc, <- Hr, <- app_assoc, <- E1. symmetry. apply firstn_skipn. }
        split. { discriminate. }
        split. { rewrite E4. rewrite app_assoc. reflexivity. }
        split. { rewrite E5. rewrite app_length, firstn_length. lia. }
        replace (cnt + S n)%nat with (S cnt + n)%nat by lia.
        destruct E6 as [E6|[E6|E6]]; [left|right;left|right;right]; try exact E6.
      + exists [], inp, [], 0%nat. cbn [app length r_out r_pos r_code r_cnt].
        rewrite app_nil_r, !Nat.add_0_r. splits; try reflexivity; [constructor|].
        right; right. splits; try reflexivity. exists k. exact ED.
    - (* incomplete sequence at the end of input *)
      exists [], inp, [], 0%nat. cbn [app length r_out r_pos r_code r_cnt].
      rewrite app_nil_r, !Nat.add_0_r. splits; try reflexivity; [constructor|].
      right; left. splits; try reflexivity; assumption.
  Qed.
End Loop.

(* ---------- statements about Transcode itself ---------- *)

Definition appended (out0 out : list N) (o : list N) : Prop := out = out0 ++ o.

Theorem transcode_exact src dst pol mark cps out0 : Forall scalar cps ->
  transcode src dst pol mark (encs src cps) out0 =
    mkR Success (length (encs src cps)) 0 (out0 ++ encs dst cps) \/
  (src = dst /\ transcode src dst pol mark (encs src cps) out0 =
    mkR Success (length (encs src cps)) 0 (out0 ++ encs src cps)).
Proof.
  intros Hs. unfold transcode. destruct (width_eqb src dst) eqn:E.
  - right. split; [destruct src, dst; (reflexivity || discriminate) | reflexivity].
  - left. apply loop_good; [intros ->; destruct dst; discriminate | exact Hs | lia].
Qed.

Theorem transcode_exact' src dst pol mark cps out0 : Forall scalar cps ->
  transcode src dst pol mark (encs src cps) out0 =
    mkR Success (length (encs src cps)) 0 (out0 ++ encs dst cps).
Proof.
  intros Hs. destruct (transcode_exact src dst pol mark cps out0 Hs) as [H|[-> H]]; exact H.
Qed.

Theorem transcode_roundtrip src dst pol mark cps : Forall scalar cps ->
  let r1 := transcode src dst pol mark (encs src cps) [] in
  r_code r1 = Success /\
  transcode dst src pol mark (r_out r1) [] = mkR Success (length (encs dst cps)) 0 (encs src cps).
Proof.
  intros Hs. cbn zeta. rewrite transcode_exact' by exact Hs. cbn [r_code r_out app].
  split; [reflexivity|]. apply (transcode_exact' dst src pol mark cps [] Hs).
Qed.

Lemma width_neq src dst : width_eqb src dst = false -> src <> dst.
Proof. intros E ->. destruct dst; discriminate. Qed.

Theorem transcode_char src dst pol mark inp out0 :
  width_eqb src dst = false -> units src inp ->
  let r := transcode src dst pol mark inp out0 in
  exists consumed rest o n,
    inp = consumed ++ rest /\ skip_spec src dst mark consumed o n /\
    (pol = ThrowError -> n = 0%nat) /\
    r_out r = out0 ++ o /\ r_pos r = length consumed /\
    ( (r_code r = Success /\ rest = [] /\ r_cnt r = n)
    \/ (r_code r = UnexpectedEnd /\ decf src rest = DTrunc /\ rest <> [] /\ r_cnt r = trunc_cnt src dst n)
    \/ (r_code r = InvalidSequence /\ pol = ThrowError /\ (exists k, decf src rest = DBad k) /\ r_cnt r = S n) ).
Proof.
  intros E Hu. cbn zeta. unfold transcode. rewrite E.
  destruct (loop_char src dst (width_neq _ _ E) pol mark (S (length inp)) inp 0%nat 0%nat out0 Hu (Nat.lt_succ_diag_r _))
    as [consumed [rest [o [n H]]]].
  exists consumed, rest, o, n. exact H.
Qed.

(* a tail that the decoder calls ill-formed or incomplete starts with no well-formed sequence *)
Lemma no_good_prefix src rest : units src rest ->
  (decf src rest = DTrunc \/ exists k, decf src rest = DBad k) ->
  forall c, scalar c -> ~ is_prefix (enc src c) rest.
Proof.
  intros Hu H c Hc [r Hr]. rewrite Hr in H, Hu. apply units_app in Hu.
  rewrite decf_complete in H by tauto. destruct H as [H|[k H]]; discriminate.
Qed.

Lemma decf_trunc_nonempty_short src rest : units src rest -> decf src rest = DTrunc ->
  (length rest < maxlen src)%nat.
Proof. apply decf_trunc. Qed.

(* C12, bounds and termination: the fuel S (length inp) always suffices and the reported position
   is inside the input (also for the same-width copy path) *)
Theorem transcode_in_bounds src dst pol mark inp out0 : units src inp ->
  let r := transcode src dst pol mark inp out0 in
  (r_pos r <= length inp)%nat /\ r_code r <> OutOfFuel /\
  exists o, r_out r = out0 ++ o.
Proof.
  intros Hu. cbn zeta. destruct (width_eqb src dst) eqn:E.
  - unfold transcode. rewrite E. cbn. splits; [lia | discriminate | eexists; reflexivity].
  - destruct (transcode_char src dst pol mark inp out0 E Hu) as
      [consumed [rest [o [n [E1 [_ [_ [E4 [E5 E6]]]]]]]]].
    splits.
    + rewrite E5, E1, app_length. lia.
    + destruct E6 as [[E6 _]|[[E6 _]|[E6 _]]]; rewrite E6; discriminate.
    + exists o. exact E4.
Qed.

(* C12, Skip policy *)
Theorem transcode_skip src dst mark inp out0 :
  width_eqb src dst = false -> units src inp ->
  let r := transcode src dst Skip mark inp out0 in
  exists consumed rest o,
    inp = consumed ++ rest /\ r_out r = out0 ++ o /\ r_pos r = length consumed /\
    (wf dst mark -> wf dst o) /\
    ( (r_code r = Success /\ rest = [] /\ skip_spec src dst mark inp o (r_cnt r))
    \/ (r_code r = UnexpectedEnd /\ (0 < length rest < maxlen src)%nat /\
        (forall c, scalar c -> ~ is_prefix (enc src c) rest) /\
        exists n, skip_spec src dst mark consumed o n /\ r_cnt r = trunc_cnt src dst n) ).
Proof.
  intros E Hu. cbn zeta.
  destruct (transcode_char src dst Skip mark inp out0 E Hu) as
    [consumed [rest [o [n [E1 [E2 [_ [E4 [E5 E6]]]]]]]]].
  exists consumed, rest, o. splits; try assumption.
  - intros Hm. eapply skip_spec_wf; eassumption.
  - assert (Hur : units src rest) by (rewrite E1 in Hu; apply units_app in Hu; tauto).
    destruct E6 as [[E6 [-> E7]]|[[E6 [E7 [E8 E9]]]|[_ [E6 _]]]]; [left|right|discriminate].
    + rewrite app_nil_r in E1. subst consumed. rewrite E7. splits; try reflexivity; assumption.
    + splits; try assumption.
      * destruct rest; [congruence | cbn; lia].
      * apply decf_trunc; assumption.
      * apply no_good_prefix; [assumption | left; assumption].
      * exists n. split; assumption.
Qed.

(* C12, fail policy: success exactly on well-formed input; otherwise the good prefix has been
   transcoded exactly and the reported position is where the offending sequence starts *)
Theorem transcode_throw src dst mark inp out0 :
  width_eqb src dst = false -> units src inp ->
  let r := transcode src dst ThrowError mark inp out0 in
  (r_code r = Success <-> wf src inp) /\
  exists cps rest,
    Forall scalar cps /\ inp = encs src cps ++ rest /\
    r_out r = out0 ++ encs dst cps /\ r_pos r = length (encs src cps) /\
    ( (rest = [] /\ r_code r = Success /\ r_cnt r = 0%nat)
    \/ (rest <> [] /\ (forall c, scalar c -> ~ is_prefix (enc src c) rest) /\
        ( (r_code r = InvalidSequence /\ r_cnt r = 1%nat)
        \/ (r_code r = UnexpectedEnd /\ (length rest < maxlen src)%nat) )) ).
Proof.
  intros E Hu. cbn zeta.
  destruct (transcode_char src dst ThrowError mark inp out0 E Hu) as
    [consumed [rest [o [n [E1 [E2 [E3 [E4 [E5 E6]]]]]]]]].
  rewrite (E3 eq_refl) in *. destruct (skip_spec_zero _ _ _ _ _ E2) as [cps [Hs [-> ->]]].
  assert (Hur : units src rest) by (rewrite E1 in Hu; apply units_app in Hu; tauto).
  split.
  - split.
    + intros HS. destruct E6 as [[_ [-> _]]|[[E6 _]|[E6 _]]]; try congruence.
      rewrite app_nil_r in E1. exists cps. split; assumption.
    + intros [cps' [Hs' ->]]. rewrite transcode_exact' by exact Hs'. reflexivity.
  - exists cps, rest. splits; try assumption.
    destruct E6 as [[E6 [-> E7]]|[[E6 [E7 [E8 E9]]]|[E6 [_ [[k E7] E8]]]]]; [left|right|right].
    + splits; try reflexivity; assumption.
    + splits; try assumption.
      * apply no_good_prefix; [assumption | left; assumption].
      * right. split; [assumption | apply decf_trunc; assumption].
    + assert (Hne : rest <> []).
      { intros ->. destruct src; discriminate. }
      splits; try assumption.
      * apply no_good_prefix; [assumption | right; exists k; assumption].
      * left. split; assumption.
Qed.

(* non-vacuity: concrete ill-formed inputs exercise the bad / incomplete branches *)
Example skip_example :
  transcode W8 W16 Skip [0xFFFD] [0x41; 0xC0; 0x80; 0xE4; 0xB8; 0xAD; 0xF0; 0x9F] [] =
    mkR UnexpectedEnd 6 1 [0x41; 0xFFFD; 0x4E2D].
Proof. vm_compute. reflexivity. Qed.

Example throw_example :
  transcode W16 W8 ThrowError [] [0x41; 0xD800; 0xE000] [0x7E] = mkR InvalidSequence 1 1 [0x7E; 0x41].
Proof. vm_compute. reflexivity. Qed.

Example exact_example :
  transcode W32 W8 Skip [] [0x41; 0x20AC; 0x1F600] [] =
    mkR Success 3 0 [0x41; 0xE2; 0x82; 0xAC; 0xF0; 0x9F; 0x98; 0x80].
Proof. vm_compute. reflexivity. Qed.
