(* UtfSpec.v — the Unicode encoding forms, written arithmetically from the Unicode Standard
   ch. 3 (Table 3-6 bit distribution, D91 surrogate pairs, D76 scalar values).
   Independent of the C++ code: nothing here mentions how BitSerializer computes. *)
From BS Require Import Base.
Local Open Scope N_scope.

Inductive width := W8 | W16 | W32.

Definition width_eqb (a b : width) : bool :=
  match a, b with W8, W8 | W16, W16 | W32, W32 => true | _, _ => false end.

Definition unit_bound (w : width) : N := match w with W8 => 256 | W16 => 65536 | W32 => 4294967296 end.

(* D76: Unicode scalar value = any code point except the surrogates *)
Definition scalarb (c : N) : bool := (c <? 0xD800) || ((0xE000 <=? c) && (c <? 0x110000)).
Definition scalar (c : N) : Prop := scalarb c = true.

(* Table 3-6 *)
Definition enc8 (c : N) : list N :=
  if c <? 0x80 then [c]
  else if c <? 0x800 then [0xC0 + c / 64; 0x80 + c mod 64]
  else if c <? 0x10000 then [0xE0 + c / 4096; 0x80 + (c / 64) mod 64; 0x80 + c mod 64]
  else [0xF0 + c / 262144; 0x80 + (c / 4096) mod 64; 0x80 + (c / 64) mod 64; 0x80 + c mod 64].

(* D91 *)
Definition enc16 (c : N) : list N :=
  if c <? 0x10000 then [c]
  else [0xD800 + (c - 0x10000) / 1024; 0xDC00 + (c - 0x10000) mod 1024].

Definition enc32 (c : N) : list N := [c].

Definition enc (w : width) (c : N) : list N :=
  match w with W8 => enc8 c | W16 => enc16 c | W32 => enc32 c end.

Definition encs (w : width) (cps : list N) : list N := flat_map (enc w) cps.

(* well-formed code unit sequence (D84-D90) *)
Definition wf (w : width) (l : list N) : Prop := exists cps, Forall scalar cps /\ l = encs w cps.

(* the longest code unit sequence the library treats as one ill-formed sequence *)
Definition maxlen (w : width) : nat := match w with W8 => 6 | W16 => 2 | W32 => 1 end.

(* byte serialisation of code units (encoding schemes, D93-D101) *)
Inductive endian := LE | BE.

Definition unit_bytes (e : endian) (w : width) (u : N) : list N :=
  match w, e with
  | W8, _ => [u]
  | W16, LE => [u mod 256; u / 256]
  | W16, BE => [u / 256; u mod 256]
  | W32, LE => [u mod 256; (u / 256) mod 256; (u / 65536) mod 256; u / 16777216]
  | W32, BE => [u / 16777216; (u / 65536) mod 256; (u / 256) mod 256; u mod 256]
  end.

Definition units_bytes (e : endian) (w : width) (l : list N) : list N := flat_map (unit_bytes e w) l.

Lemma encs_app w a b : encs w (a ++ b) = encs w a ++ encs w b.
Proof. unfold encs. apply flat_map_app. Qed.

Lemma wf_nil w : wf w [].
Proof. exists []. split; [constructor | reflexivity]. Qed.

Lemma wf_app w a b : wf w a -> wf w b -> wf w (a ++ b).
Proof.
  intros [ca [Ha ->]] [cb [Hb ->]]. exists (ca ++ cb). split.
  - apply Forall_app. split; assumption.
  - symmetry. apply encs_app.
Qed.

Lemma wf_enc w c : scalar c -> wf w (enc w c).
Proof.
  intros H. exists [c]. split; [constructor; [exact H | constructor] |].
  cbn. symmetry. apply app_nil_r.
Qed.

(* C12: what "each ill-formed sequence is replaced by the mark, the well-formed text around it is
   preserved, the count equals the number of replacements" means.  Segmentation is specified, not
   imposed: an ill-formed chunk is any non-empty run of at most [maxlen src] units standing where no
   well-formed sequence starts. *)
Inductive skip_spec (src dst : width) (mark : list N) : list N -> list N -> nat -> Prop :=
| ss_nil : skip_spec src dst mark [] [] 0
| ss_good c r o n : scalar c -> skip_spec src dst mark r o n ->
    skip_spec src dst mark (enc src c ++ r) (enc dst c ++ o) n
| ss_bad chunk r o n : (1 <= length chunk <= maxlen src)%nat ->
    (forall c, scalar c -> ~ is_prefix (enc src c) (chunk ++ r)) ->
    skip_spec src dst mark r o n ->
    skip_spec src dst mark (chunk ++ r) (mark ++ o) (S n).
