// CEncodedStreamReader: a read fault (badbit, no eofbit) while an incomplete character is pending
// at the end of a chunk makes ReadChunk() return Success forever without progress; IsEnd() stays false.
#include <csignal>
#include <unistd.h>
#include <iostream>
#include <istream>
#include <stdexcept>
#include <streambuf>
#include <string>
#include <vector>
#include "bitserializer/bit_serializer.h"
#include "bitserializer/csv_archive.h"
#include "bitserializer/types/std/vector.h"

using namespace BitSerializer;
using namespace BitSerializer::Convert::Utf;

// Delivers the first `failAt` bytes, then the device "breaks": underflow() throws.
// How this becomes "bad without EOF": std::istream::read() calls rdbuf()->sgetn() inside a try block;
// an exception from underflow() is caught by the stream, which sets badbit (ios_base::badbit, not rethrown
// because exceptions() == goodbit by default). eofbit is NOT set (that needs underflow() to RETURN traits::eof()).
// Every later read() fails in its sentry (stream not good) and adds failbit, so: bad()=1, fail()=1, eof()=0.
struct FaultyBuf : std::streambuf
{
	std::string data; size_t failAt; size_t pos = 0; char ch = 0;
	FaultyBuf(std::string d, size_t f) : data(std::move(d)), failAt(f) {}
	int_type underflow() override
	{
		if (pos >= failAt) throw std::runtime_error("device error");
		if (pos >= data.size()) return traits_type::eof();
		ch = data[pos++];
		setg(&ch, &ch, &ch + 1);
		return traits_type::to_int_type(ch);
	}
};

static std::string Utf16LeBytes(const std::u16string& s) {
	std::string out;
	for (char16_t c : s) { out.push_back(static_cast<char>(c & 0xFF)); out.push_back(static_cast<char>(c >> 8)); }
	return out;
}

struct Row {
	template <class TArchive> void Serialize(TArchive& archive) { archive << KeyValue("Name", Name); }
	std::string Name;
};

static void OnAlarm(int) {
	static const char msg[] = "\n[3] CSV: LoadObject<CsvArchive> did not return within 5 seconds -> SPINS\nRESULT: exit 1\n";
	(void)!write(1, msg, sizeof msg - 1);
	_exit(1);
}

int main()
{
	std::cout << std::unitbuf;
	bool spins = false;

	// [2] The reader alone, chunk = 32 bytes. UTF-16LE: 15 x 'a', U+1F600 (surrogate pair: units 15,16), text.
	// The high surrogate occupies bytes 30..31 = the end of the first chunk; the device breaks at byte 32.
	{
		const std::u16string text = std::u16string(15, u'a') + u"\U0001F600" + std::u16string(20, u'b');
		FaultyBuf buf(Utf16LeBytes(text), 32);
		std::istream stream(&buf);
		CEncodedStreamReader<char32_t, 32> reader(stream);
		std::u32string out;
		int i = 0, noProgress = 0;
		auto last = EncodedStreamReadResult::Success;
		for (; i < 1000 && !reader.IsEnd(); ++i)
		{
			const size_t before = out.size();
			last = reader.ReadChunk(out);
			if (last != EncodedStreamReadResult::Success) break;
			if (out.size() == before) ++noProgress;
		}
		std::cout << "[2] reader: iterations=" << i << " decoded=" << out.size() << " chars, calls that returned Success without progress="
			<< noProgress << ", last result=" << static_cast<int>(last) << ", IsEnd()=" << reader.IsEnd() << ", IsFailed()=" << reader.IsFailed()
			<< ", stream bad/fail/eof=" << stream.bad() << stream.fail() << stream.eof() << "\n";
		if (i >= 1000) { spins = true; std::cout << "    -> SPINS: 1000 calls, IsEnd() never true, never EndFile/DecodeError\n"; }
	}

	// [2b] Control: same fault but no character is pending (device breaks one unit later, after the pair): terminates.
	{
		const std::u16string text = std::u16string(14, u'a') + u"\U0001F600" + std::u16string(20, u'b');
		FaultyBuf buf(Utf16LeBytes(text), 32);
		std::istream stream(&buf);
		CEncodedStreamReader<char32_t, 32> reader(stream);
		std::u32string out;
		int i = 0;
		for (; i < 1000 && !reader.IsEnd(); ++i) {
			if (reader.ReadChunk(out) != EncodedStreamReadResult::Success) break;
		}
		std::cout << "[2b] control (nothing pending): iterations=" << i << " IsEnd()=" << reader.IsEnd() << " IsFailed()=" << reader.IsFailed() << "\n";
		if (i >= 1000) spins = true;
	}

	// [3] CSV loader (default chunk = 256 bytes). UTF-16LE CSV; code unit 127 (bytes 254..255) is a high surrogate,
	// the device breaks at byte 256.
	{
		std::u16string csv = u"Name\r\n";
		csv += std::u16string(127 - csv.size(), u'a');
		csv += u"\U0001F600\r\nsecond\r\n";
		FaultyBuf buf(Utf16LeBytes(csv), 256);
		std::istream stream(&buf);
		std::vector<Row> rows;
		std::signal(SIGALRM, OnAlarm);
		alarm(5);
		try {
			LoadObject<Csv::CsvArchive>(rows, stream);
			std::cout << "[3] CSV: returned normally, rows=" << rows.size() << " (silent loss?)\n";
		}
		catch (const std::exception& ex) {
			std::cout << "[3] CSV: exception: " << ex.what() << "\n";
		}
		alarm(0);
	}

	std::cout << "RESULT: exit " << (spins ? 1 : 0) << "\n";
	return spins ? 1 : 0;
}
