// Shared glue for the correspondence drivers (trusted, kept dumb): line protocol helpers.
// One case per input line, exactly one output line per case.
#pragma once
#include <cstdint>
#include <cstdio>
#include <cstdlib>
#include <iostream>
#include <sstream>
#include <string>
#include <vector>

namespace vh {

using U = uint64_t;

inline std::vector<std::string> split(const std::string& s, char sep = ' ') {
	std::vector<std::string> out; std::string cur;
	for (char c : s) { if (c == sep) { out.push_back(cur); cur.clear(); } else cur.push_back(c); }
	out.push_back(cur);
	return out;
}

// "-" = empty list, otherwise comma separated hex numbers
inline std::vector<U> parse_list(const std::string& s) {
	std::vector<U> v;
	if (s == "-" || s.empty()) return v;
	for (auto& t : split(s, ',')) v.push_back(std::strtoull(t.c_str(), nullptr, 16));
	return v;
}

template <class It>
inline std::string fmt_list(It b, It e) {
	if (b == e) return "-";
	std::string r; char buf[32]; bool first = true;
	for (; b != e; ++b) {
		if (!first) r.push_back(',');
		first = false;
		std::snprintf(buf, sizeof buf, "%llx", (unsigned long long)(U)(*b));
		r += buf;
	}
	return r;
}

// hex string of bytes ("-" = empty)
inline std::string parse_hex(const std::string& s) {
	std::string r;
	if (s == "-") return r;
	for (size_t i = 0; i + 1 < s.size(); i += 2) r.push_back((char)std::strtoul(s.substr(i, 2).c_str(), nullptr, 16));
	return r;
}
inline std::string fmt_hex(const std::string& b) {
	if (b.empty()) return "-";
	static const char* d = "0123456789abcdef";
	std::string r;
	for (unsigned char c : b) { r.push_back(d[c >> 4]); r.push_back(d[c & 15]); }
	return r;
}

// rolling hash shared with the OCaml model drivers: h' = (h * 1000003 + x) mod 2^62
struct Hash {
	U h = 0; U n = 0;
	void add(U x) { h = (h * 1000003ULL + (x & ((1ULL << 62) - 1))) & ((1ULL << 62) - 1); }
	void tick() { ++n; }
};

}  // namespace vh
