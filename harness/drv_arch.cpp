// Correspondence driver for the arch family (C17 validation, C18 loading into populated targets).
// Public API only: BitSerializer::LoadObject<Archive>(object, input, options) on real archives
// (RapidJSON, MsgPack, CSV), the std type serializers, KeyValue + validators.
//
//   popload  <arch> <type#> <mode> <pol> <prior> <doc>   -> OK <value> | EXC:<code>
//   validate <arch> <class#> <max> <pol> <doc>           -> OK <value> | VAL <path>:<msg>,..;.. <state|-> | EXC:<code>
//
// arch: json | mp | csv | xml, and jsons | mps | xmls = the same document through std::istream (implementation only)    mode: - | c | o | u (MapLoadMode)    pol: two letters (mismatch, overflow; S = Skip, T = ThrowError)
// values / documents, one token:  n | t | f | i<decimal> | s<hex> | [x,..] | {k:x,..}  keys i<decimal> | s<hex>
// The catalogues (type#, class#) are the same lists as type_catalogue / class_catalogue in coq/ArchCodec.v.
#include "common.h"
#include <sstream>
#include <algorithm>
#include <functional>
#include "bitserializer/bit_serializer.h"
#include "bitserializer/rapidjson_archive.h"
#include "bitserializer/msgpack_archive.h"
#include "bitserializer/csv_archive.h"
#include "bitserializer/pugixml_archive.h"
#include "bitserializer/types/std/array.h"
#include "bitserializer/types/std/bitset.h"
#include "bitserializer/types/std/deque.h"
#include "bitserializer/types/std/forward_list.h"
#include "bitserializer/types/std/list.h"
#include "bitserializer/types/std/map.h"
#include "bitserializer/types/std/memory.h"
#include "bitserializer/types/std/optional.h"
#include "bitserializer/types/std/pair.h"
#include "bitserializer/types/std/queue.h"
#include "bitserializer/types/std/set.h"
#include "bitserializer/types/std/stack.h"
#include "bitserializer/types/std/unordered_map.h"
#include "bitserializer/types/std/unordered_set.h"
#include "bitserializer/types/std/valarray.h"
#include "bitserializer/types/std/vector.h"

using namespace BitSerializer;
using JsonArchive = BitSerializer::Json::RapidJson::JsonArchive;
using MsgPackArchive = BitSerializer::MsgPack::MsgPackArchive;
using CsvArchive = BitSerializer::Csv::CsvArchive;
using XmlArchive = BitSerializer::Xml::PugiXml::XmlArchive;

// ------------------------------------------------------------------ document trees
struct Tree {
	enum Kind { Null, Bool, Int, Str, Arr, Map } k = Null;
	bool b = false; long long i = 0; std::string s;
	std::vector<Tree> a;
	std::vector<std::pair<Tree, Tree>> m;
};
struct Syntax { const char* what; };

struct Parser {
	const std::string& s; size_t pos = 0;
	char peek() const { return pos < s.size() ? s[pos] : '\0'; }
	static bool is_hex(char c) { return (c >= '0' && c <= '9') || (c >= 'a' && c <= 'f'); }
	Tree value() {
		Tree t;
		switch (peek()) {
		case 'n': ++pos; t.k = Tree::Null; return t;
		case 't': ++pos; t.k = Tree::Bool; t.b = true; return t;
		case 'f': ++pos; t.k = Tree::Bool; t.b = false; return t;
		case 'i': {
			++pos; size_t st = pos;
			if (peek() == '-') ++pos;
			while (peek() >= '0' && peek() <= '9') ++pos;
			if (pos == st) throw Syntax{"int"};
			t.k = Tree::Int; t.i = std::stoll(s.substr(st, pos - st)); return t; }
		case 's': {
			++pos; size_t st = pos;
			while (is_hex(peek())) ++pos;
			if ((pos - st) % 2) throw Syntax{"hex"};
			t.k = Tree::Str; t.s = vh::parse_hex(pos == st ? "-" : s.substr(st, pos - st)); return t; }
		case '[': {
			++pos; t.k = Tree::Arr;
			if (peek() == ']') { ++pos; return t; }
			t.a.push_back(value());
			while (peek() == ',') { ++pos; t.a.push_back(value()); }
			if (peek() != ']') throw Syntax{"]"};
			++pos; return t; }
		case '{': {
			++pos; t.k = Tree::Map;
			if (peek() == '}') { ++pos; return t; }
			for (;;) {
				Tree key = value();
				if (key.k != Tree::Int && key.k != Tree::Str) throw Syntax{"key"};
				if (peek() != ':') throw Syntax{":"};
				++pos;
				Tree v = value();
				t.m.emplace_back(std::move(key), std::move(v));
				if (peek() == ',') { ++pos; continue; }
				break;
			}
			if (peek() != '}') throw Syntax{"}"};
			++pos; return t; }
		default: throw Syntax{"value"};
		}
	}
};
static Tree parse_tree(const std::string& s) {
	Parser p{s}; Tree t = p.value();
	if (p.pos != s.size()) throw Syntax{"trailing"};
	return t;
}

// ------------------------------------------------------------------ document encoders
static void json_str(const std::string& s, std::string& out) {
	out.push_back('"');
	for (unsigned char c : s) {
		if (c == '"' || c == '\\') { out.push_back('\\'); out.push_back((char)c); }
		else if (c < 0x20) { char buf[8]; std::snprintf(buf, sizeof buf, "\\u%04x", c); out += buf; }
		else out.push_back((char)c);
	}
	out.push_back('"');
}
static void to_json(const Tree& t, std::string& out) {
	switch (t.k) {
	case Tree::Null: out += "null"; break;
	case Tree::Bool: out += t.b ? "true" : "false"; break;
	case Tree::Int: out += std::to_string(t.i); break;
	case Tree::Str: json_str(t.s, out); break;
	case Tree::Arr: {
		out.push_back('[');
		for (size_t i = 0; i < t.a.size(); ++i) { if (i) out.push_back(','); to_json(t.a[i], out); }
		out.push_back(']'); break; }
	case Tree::Map: {
		out.push_back('{');
		for (size_t i = 0; i < t.m.size(); ++i) {
			if (i) out.push_back(',');
			json_str(t.m[i].first.k == Tree::Int ? std::to_string(t.m[i].first.i) : t.m[i].first.s, out);
			out.push_back(':'); to_json(t.m[i].second, out);
		}
		out.push_back('}'); break; }
	}
}
static void be(std::string& out, unsigned long long v, int bytes) {
	for (int i = bytes - 1; i >= 0; --i) out.push_back((char)((v >> (8 * i)) & 0xFF));
}
static void mp_int(long long v, std::string& out) {
	if (v >= 0) {
		if (v < 128) out.push_back((char)v);
		else if (v < 256) { out.push_back((char)0xCC); be(out, v, 1); }
		else if (v < 65536) { out.push_back((char)0xCD); be(out, v, 2); }
		else if (v < 4294967296LL) { out.push_back((char)0xCE); be(out, v, 4); }
		else { out.push_back((char)0xCF); be(out, v, 8); }
	} else {
		if (v >= -32) out.push_back((char)(unsigned char)(v & 0xFF));
		else if (v >= -128) { out.push_back((char)0xD0); be(out, (unsigned long long)v, 1); }
		else if (v >= -32768) { out.push_back((char)0xD1); be(out, (unsigned long long)v, 2); }
		else if (v >= -2147483648LL) { out.push_back((char)0xD2); be(out, (unsigned long long)v, 4); }
		else { out.push_back((char)0xD3); be(out, (unsigned long long)v, 8); }
	}
}
static void mp_str(const std::string& s, std::string& out) {
	if (s.size() < 32) out.push_back((char)(0xA0 | s.size()));
	else if (s.size() < 256) { out.push_back((char)0xD9); be(out, s.size(), 1); }
	else { out.push_back((char)0xDA); be(out, s.size(), 2); }
	out += s;
}
static void to_msgpack(const Tree& t, std::string& out) {
	switch (t.k) {
	case Tree::Null: out.push_back((char)0xC0); break;
	case Tree::Bool: out.push_back((char)(t.b ? 0xC3 : 0xC2)); break;
	case Tree::Int: mp_int(t.i, out); break;
	case Tree::Str: mp_str(t.s, out); break;
	case Tree::Arr:
		if (t.a.size() < 16) out.push_back((char)(0x90 | t.a.size())); else { out.push_back((char)0xDC); be(out, t.a.size(), 2); }
		for (auto& e : t.a) to_msgpack(e, out);
		break;
	case Tree::Map:
		if (t.m.size() < 16) out.push_back((char)(0x80 | t.m.size())); else { out.push_back((char)0xDE); be(out, t.m.size(), 2); }
		for (auto& e : t.m) { to_msgpack(e.first, out); to_msgpack(e.second, out); }
		break;
	}
}
// CSV: the root must be an array of rows (maps); header = keys of the first row ("key,value" when there is none)
static std::string csv_cell(const Tree& t) {
	switch (t.k) {
	case Tree::Null: return "";
	case Tree::Bool: return t.b ? "true" : "false";
	case Tree::Int: return std::to_string(t.i);
	case Tree::Str: return t.s;
	default: throw Syntax{"csv cell"};
	}
}
static std::string to_csv(const Tree& t) {
	if (t.k != Tree::Arr) throw Syntax{"csv root"};
	std::vector<std::string> header;
	if (t.a.empty()) header = {"key", "value"};
	else {
		if (t.a[0].k != Tree::Map) throw Syntax{"csv row"};
		for (auto& kv : t.a[0].m) header.push_back(kv.first.k == Tree::Int ? std::to_string(kv.first.i) : kv.first.s);
	}
	std::string out;
	for (size_t i = 0; i < header.size(); ++i) { if (i) out.push_back(','); out += header[i]; }
	out += "\r\n";
	for (auto& row : t.a) {
		if (row.k != Tree::Map || row.m.size() != header.size()) throw Syntax{"csv row"};
		for (size_t i = 0; i < row.m.size(); ++i) { if (i) out.push_back(','); out += csv_cell(row.m[i].second); }
		out += "\r\n";
	}
	return out;
}
// XML: the naming convention of the model's xml_arch (coq/ArchModel.v xml_names; the library's writer names array items
// the same way): an element that is not an object member is <value> (scalar, null), <array> or <object>; members are
// named by their key (integer keys as k<i>: element names cannot start with a digit); null and the empty string are
// child-less elements
static void xml_text(const std::string& s, std::string& out) {
	for (char c : s) { if (c == '<') out += "&lt;"; else if (c == '&') out += "&amp;"; else if (c == '>') out += "&gt;"; else out.push_back(c); }
}
static void to_xml(const Tree& t, const std::string* member, std::string& out) {
	const std::string name = member ? *member : t.k == Tree::Arr ? "array" : t.k == Tree::Map ? "object" : "value";
	switch (t.k) {
	case Tree::Null: out += "<" + name + "/>"; break;
	case Tree::Bool: out += "<" + name + ">" + (t.b ? "true" : "false") + "</" + name + ">"; break;
	case Tree::Int: out += "<" + name + ">" + std::to_string(t.i) + "</" + name + ">"; break;
	case Tree::Str: out += "<" + name + ">"; xml_text(t.s, out); out += "</" + name + ">"; break;
	case Tree::Arr: {
		out += "<" + name + ">";
		for (auto& e : t.a) to_xml(e, nullptr, out);
		out += "</" + name + ">"; break; }
	case Tree::Map: {
		// members whose key starts with '@' are attributes of the element (value always text; null / containers: "")
		out += "<" + name;
		for (auto& kv : t.m) {
			if (kv.first.k != Tree::Str || kv.first.s.empty() || kv.first.s[0] != '@') continue;
			const Tree& v = kv.second;
			std::string txt = v.k == Tree::Int ? std::to_string(v.i) : v.k == Tree::Bool ? (v.b ? "true" : "false") : v.k == Tree::Str ? v.s : std::string();
			out += " " + kv.first.s.substr(1) + "=\"";
			for (char c : txt) { if (c == '<') out += "&lt;"; else if (c == '&') out += "&amp;"; else if (c == '"') out += "&quot;"; else out.push_back(c); }
			out += "\"";
		}
		out += ">";
		for (auto& kv : t.m) {
			if (kv.first.k == Tree::Str && !kv.first.s.empty() && kv.first.s[0] == '@') continue;
			const std::string key = kv.first.k == Tree::Int ? "k" + std::to_string(kv.first.i) : kv.first.s; to_xml(kv.second, &key, out);
		}
		out += "</" + name + ">"; break; }
	}
}
static std::string encode(const std::string& arch, const Tree& doc) {
	std::string out;
	if (arch == "json" || arch == "jsons") to_json(doc, out);
	else if (arch == "mp" || arch == "mps") to_msgpack(doc, out);
	else if (arch == "csv") out = to_csv(doc);
	else if (arch == "xml" || arch == "xmls") { out = "<?xml version=\"1.0\"?>"; to_xml(doc, nullptr, out); }
	else throw Syntax{"arch"};
	return out;
}

// ------------------------------------------------------------------ typed values <-> trees
static std::string join_sorted(std::vector<std::string> items, char open, char close, bool sort) {
	if (sort) std::sort(items.begin(), items.end());
	std::string r(1, open);
	for (size_t i = 0; i < items.size(); ++i) { if (i) r.push_back(','); r += items[i]; }
	r.push_back(close);
	return r;
}

static bool build(const Tree& t, int& v) { if (t.k != Tree::Int) return false; v = (int)t.i; return true; }
static bool build(const Tree& t, bool& v) { if (t.k != Tree::Bool) return false; v = t.b; return true; }
static bool build(const Tree& t, std::string& v) { if (t.k != Tree::Str) return false; v = t.s; return true; }
static std::string show(const int& v) { return "i" + std::to_string(v); }
static std::string show(const bool& v) { return v ? "t" : "f"; }
static std::string show(const std::string& v) { return "s" + (v.empty() ? std::string() : vh::fmt_hex(v)); }
static std::string show_key(const int& v) { return show(v); }
static std::string show_key(const std::string& v) { return show(v); }

template <class T> bool build(const Tree&, std::vector<T>&);
template <class T> bool build(const Tree&, std::deque<T>&);
template <class T> bool build(const Tree&, std::list<T>&);
template <class T> bool build(const Tree&, std::forward_list<T>&);
template <class T> bool build(const Tree&, std::valarray<T>&);
template <class T> bool build(const Tree&, std::queue<T>&);
template <class T> bool build(const Tree&, std::stack<T>&);
template <class T> bool build(const Tree&, std::priority_queue<T>&);
template <class T, size_t N> bool build(const Tree&, std::array<T, N>&);
template <class T, size_t N> bool build(const Tree&, T (&)[N]);
template <size_t N> bool build(const Tree&, std::bitset<N>&);
template <class T> bool build(const Tree&, std::set<T>&);
template <class T> bool build(const Tree&, std::multiset<T>&);
template <class T> bool build(const Tree&, std::unordered_set<T>&);
template <class T> bool build(const Tree&, std::unordered_multiset<T>&);
template <class K, class V> bool build(const Tree&, std::map<K, V>&);
template <class K, class V> bool build(const Tree&, std::unordered_map<K, V>&);
template <class K, class V> bool build(const Tree&, std::multimap<K, V>&);
template <class K, class V> bool build(const Tree&, std::unordered_multimap<K, V>&);
template <class T> bool build(const Tree&, std::optional<T>&);
template <class T> bool build(const Tree&, std::unique_ptr<T>&);
template <class T> bool build(const Tree&, std::shared_ptr<T>&);
template <class A, class B> bool build(const Tree&, std::pair<A, B>&);

template <class T> std::string show(const std::vector<T>&);
template <class T> std::string show(const std::deque<T>&);
template <class T> std::string show(const std::list<T>&);
template <class T> std::string show(const std::forward_list<T>&);
template <class T> std::string show(const std::valarray<T>&);
template <class T> std::string show(const std::queue<T>&);
template <class T> std::string show(const std::stack<T>&);
template <class T> std::string show(const std::priority_queue<T>&);
template <class T, size_t N> std::string show(const std::array<T, N>&);
template <class T, size_t N> std::string show(const T (&)[N]);
template <size_t N> std::string show(const std::bitset<N>&);
template <class T> std::string show(const std::set<T>&);
template <class T> std::string show(const std::multiset<T>&);
template <class T> std::string show(const std::unordered_set<T>&);
template <class T> std::string show(const std::unordered_multiset<T>&);
template <class K, class V> std::string show(const std::map<K, V>&);
template <class K, class V> std::string show(const std::unordered_map<K, V>&);
template <class K, class V> std::string show(const std::multimap<K, V>&);
template <class K, class V> std::string show(const std::unordered_multimap<K, V>&);
template <class T> std::string show(const std::optional<T>&);
template <class T> std::string show(const std::unique_ptr<T>&);
template <class T> std::string show(const std::shared_ptr<T>&);
template <class A, class B> std::string show(const std::pair<A, B>&);

template <class C, class T = typename C::value_type> bool build_seq(const Tree& t, C& c) {
	if (t.k != Tree::Arr) return false;
	c.clear();
	for (auto& e : t.a) { T x{}; if (!build(e, x)) return false; c.push_back(std::move(x)); }
	return true;
}
template <class C> std::string show_seq(const C& c, bool sort = false) {
	std::vector<std::string> items;
	for (const auto& e : c) items.push_back(show(e));
	return join_sorted(std::move(items), '[', ']', sort);
}
template <class T> bool build(const Tree& t, std::vector<T>& v) { return build_seq(t, v); }
template <class T> bool build(const Tree& t, std::deque<T>& v) { return build_seq(t, v); }
template <class T> bool build(const Tree& t, std::list<T>& v) { return build_seq(t, v); }
template <class T> bool build(const Tree& t, std::forward_list<T>& v) {
	std::vector<T> tmp; if (!build_seq(t, tmp)) return false;
	v.clear(); for (auto it = tmp.rbegin(); it != tmp.rend(); ++it) v.push_front(std::move(*it));
	return true;
}
template <class T> bool build(const Tree& t, std::valarray<T>& v) {
	std::vector<T> tmp; if (!build_seq(t, tmp)) return false;
	v.resize(tmp.size()); for (size_t i = 0; i < tmp.size(); ++i) v[i] = tmp[i];
	return true;
}
template <class T> bool build(const Tree& t, std::queue<T>& v) { return build_seq(t, Detail::GetBaseContainer(v)); }
template <class T> bool build(const Tree& t, std::stack<T>& v) { return build_seq(t, Detail::GetBaseContainer(v)); }
template <class T> bool build(const Tree& t, std::priority_queue<T>& v) { return build_seq(t, Detail::GetBaseContainer(v)); }
template <class T, size_t N> bool build(const Tree& t, std::array<T, N>& v) {
	if (t.k != Tree::Arr || t.a.size() != N) return false;
	for (size_t i = 0; i < N; ++i) if (!build(t.a[i], v[i])) return false;
	return true;
}
template <class T, size_t N> bool build(const Tree& t, T (&v)[N]) {
	if (t.k != Tree::Arr || t.a.size() != N) return false;
	for (size_t i = 0; i < N; ++i) if (!build(t.a[i], v[i])) return false;
	return true;
}
template <size_t N> bool build(const Tree& t, std::bitset<N>& v) {
	if (t.k != Tree::Arr || t.a.size() != N) return false;
	for (size_t i = 0; i < N; ++i) { bool b; if (!build(t.a[i], b)) return false; v.set(i, b); }
	return true;
}
template <class C, class T = typename C::value_type> bool build_set(const Tree& t, C& c) {
	if (t.k != Tree::Arr) return false;
	c.clear();
	for (auto& e : t.a) { T x{}; if (!build(e, x)) return false; c.insert(std::move(x)); }
	return true;
}
template <class T> bool build(const Tree& t, std::set<T>& v) { return build_set(t, v); }
template <class T> bool build(const Tree& t, std::multiset<T>& v) { return build_set(t, v); }
template <class T> bool build(const Tree& t, std::unordered_set<T>& v) { return build_set(t, v); }
template <class T> bool build(const Tree& t, std::unordered_multiset<T>& v) { return build_set(t, v); }
template <class C, class K = typename C::key_type, class V = typename C::mapped_type> bool build_map(const Tree& t, C& c) {
	if (t.k != Tree::Map) return false;
	c.clear();
	for (auto& kv : t.m) { K k{}; V v{}; if (!build(kv.first, k) || !build(kv.second, v)) return false; c.emplace(std::move(k), std::move(v)); }
	return true;
}
template <class K, class V> bool build(const Tree& t, std::map<K, V>& v) { return build_map(t, v); }
template <class K, class V> bool build(const Tree& t, std::unordered_map<K, V>& v) { return build_map(t, v); }
template <class K, class V> bool build(const Tree& t, std::multimap<K, V>& v) { return build_map(t, v); }
template <class K, class V> bool build(const Tree& t, std::unordered_multimap<K, V>& v) { return build_map(t, v); }
template <class T> bool build(const Tree& t, std::optional<T>& v) {
	if (t.k == Tree::Null) { v.reset(); return true; }
	T x{}; if (!build(t, x)) return false; v = std::move(x); return true;
}
template <class T> bool build(const Tree& t, std::unique_ptr<T>& v) {
	if (t.k == Tree::Null) { v.reset(); return true; }
	auto p = std::make_unique<T>(); if (!build(t, *p)) return false; v = std::move(p); return true;
}
template <class T> bool build(const Tree& t, std::shared_ptr<T>& v) {
	if (t.k == Tree::Null) { v.reset(); return true; }
	auto p = std::make_shared<T>(); if (!build(t, *p)) return false; v = std::move(p); return true;
}
template <class A, class B> bool build(const Tree& t, std::pair<A, B>& v) {
	return t.k == Tree::Arr && t.a.size() == 2 && build(t.a[0], v.first) && build(t.a[1], v.second);
}

template <class T> std::string show(const std::vector<T>& v) { return show_seq(v); }
template <class T> std::string show(const std::deque<T>& v) { return show_seq(v); }
template <class T> std::string show(const std::list<T>& v) { return show_seq(v); }
template <class T> std::string show(const std::forward_list<T>& v) { return show_seq(v); }
template <class T> std::string show(const std::valarray<T>& v) {
	std::vector<std::string> items; for (size_t i = 0; i < v.size(); ++i) items.push_back(show(v[i]));
	return join_sorted(std::move(items), '[', ']', false);
}
template <class T> std::string show(const std::queue<T>& v) { return show_seq(Detail::GetBaseContainer(v)); }
template <class T> std::string show(const std::stack<T>& v) { return show_seq(Detail::GetBaseContainer(v)); }
template <class T> std::string show(const std::priority_queue<T>& v) { return show_seq(Detail::GetBaseContainer(v)); }
template <class T, size_t N> std::string show(const std::array<T, N>& v) { return show_seq(v); }
template <class T, size_t N> std::string show(const T (&v)[N]) {
	std::vector<std::string> items; for (size_t i = 0; i < N; ++i) items.push_back(show(v[i]));
	return join_sorted(std::move(items), '[', ']', false);
}
template <size_t N> std::string show(const std::bitset<N>& v) {
	std::vector<std::string> items; for (size_t i = 0; i < N; ++i) items.push_back(show(v.test(i)));
	return join_sorted(std::move(items), '[', ']', false);
}
template <class T> std::string show(const std::set<T>& v) { return show_seq(v, true); }
template <class T> std::string show(const std::multiset<T>& v) { return show_seq(v, true); }
template <class T> std::string show(const std::unordered_set<T>& v) { return show_seq(v, true); }
template <class T> std::string show(const std::unordered_multiset<T>& v) { return show_seq(v, true); }
template <class C> std::string show_map(const C& c) {
	std::vector<std::string> items;
	for (const auto& kv : c) items.push_back(show_key(kv.first) + ":" + show(kv.second));
	return join_sorted(std::move(items), '{', '}', true);
}
template <class K, class V> std::string show(const std::map<K, V>& v) { return show_map(v); }
template <class K, class V> std::string show(const std::unordered_map<K, V>& v) { return show_map(v); }
template <class K, class V> std::string show(const std::multimap<K, V>& v) { return show_map(v); }
template <class K, class V> std::string show(const std::unordered_multimap<K, V>& v) { return show_map(v); }
template <class T> std::string show(const std::optional<T>& v) { return v ? show(*v) : "n"; }
template <class T> std::string show(const std::unique_ptr<T>& v) { return v ? show(*v) : "n"; }
template <class T> std::string show(const std::shared_ptr<T>& v) { return v ? show(*v) : "n"; }
template <class A, class B> std::string show(const std::pair<A, B>& v) { return "[" + show(v.first) + "," + show(v.second) + "]"; }

// ------------------------------------------------------------------ running one load
static const char* code_name(SerializationErrorCode c) {
	switch (c) {
	case SerializationErrorCode::InvalidOptions: return "InvalidOptions";
	case SerializationErrorCode::ParsingError: return "ParsingError";
	case SerializationErrorCode::InputOutputError: return "InputOutputError";
	case SerializationErrorCode::UnsupportedEncoding: return "UnsupportedEncoding";
	case SerializationErrorCode::UtfEncodingError: return "UtfEncodingError";
	case SerializationErrorCode::OutOfRange: return "OutOfRange";
	case SerializationErrorCode::Overflow: return "Overflow";
	case SerializationErrorCode::MismatchedTypes: return "MismatchedTypes";
	case SerializationErrorCode::FailedValidation: return "FailedValidation";
	case SerializationErrorCode::UnregisteredEnum: return "UnregisteredEnum";
	}
	return "?";
}

static SerializationOptions make_options(const std::string& pol, unsigned max) {
	if (pol.size() != 2) throw Syntax{"pol"};
	SerializationOptions o;
	o.mismatchedTypesPolicy = pol[0] == 'S' ? MismatchedTypesPolicy::Skip : MismatchedTypesPolicy::ThrowError;
	o.overflowNumberPolicy = pol[1] == 'S' ? OverflowNumberPolicy::Skip : OverflowNumberPolicy::ThrowError;
	o.maxValidationErrors = max;
	return o;
}

template <bool Csv, bool Xml, class T>
static void load_with(const std::string& arch, T& obj, const std::string& input, const SerializationOptions& o) {
	if (arch == "json") LoadObject<JsonArchive>(obj, input, o);
	else if (arch == "jsons") { std::istringstream is(input); LoadObject<JsonArchive>(obj, is, o); }       // the same through std::istream
	else if (arch == "mp") LoadObject<MsgPackArchive>(obj, input, o);
	else if (arch == "mps") { std::istringstream is(input); LoadObject<MsgPackArchive>(obj, is, o); }   // the same through the stream reader
	else if (arch == "csv") {
		if constexpr (Csv) LoadObject<CsvArchive>(obj, input, o);
		else throw Syntax{"type not loadable from csv"};
	}
	else if (arch == "xml" || arch == "xmls") {
		if constexpr (Xml) {
			if (arch == "xml") LoadObject<XmlArchive>(obj, input, o);
			else { std::istringstream is(input); LoadObject<XmlArchive>(obj, is, o); }                 // the same through std::istream
		}
		else throw Syntax{"type not loadable from xml"};
	}
	else throw Syntax{"arch"};
}

// user code that passes a MapLoadMode: a class whose Serialize forwards to SerializeObject(scope, map, mode)
template <class M> struct MapWithMode {
	M& map; MapLoadMode mode;
	template <class TArchive> void Serialize(TArchive& archive) { BitSerializer::SerializeObject(archive, map, mode); }
};
template <class T> struct is_std_map : std::false_type {};
template <class K, class V> struct is_std_map<std::map<K, V>> : std::true_type {};
template <class K, class V> struct is_std_map<std::unordered_map<K, V>> : std::true_type {};

struct Case { std::string arch; char mode; std::string pol; Tree prior; Tree doc; };

template <class T, bool Csv = false, bool Xml = true>
static std::string popload(const Case& c) {
	T obj{};
	if (!build(c.prior, obj)) return "BADCASE";
	const std::string input = encode(c.arch, c.doc);
	const SerializationOptions o = make_options(c.pol, 0);
	if (c.mode == '-') load_with<Csv, Xml>(c.arch, obj, input, o);
	else {
		if constexpr (is_std_map<T>::value) {
			MapWithMode<T> w{ obj, c.mode == 'c' ? MapLoadMode::Clean : c.mode == 'o' ? MapLoadMode::OnlyExistKeys : MapLoadMode::UpdateKeys };
			load_with<false, Xml>(c.arch, w, input, o);
		}
		else return "BADCASE";
	}
	return "OK " + show(obj);
}

using PairII = std::pair<int, int>;
static const std::vector<std::function<std::string(const Case&)>> type_catalogue = {
	popload<std::vector<int>>,                                   //  0
	popload<std::deque<int>>,                                    //  1
	popload<std::list<int>>,                                     //  2
	popload<std::forward_list<int>>,                             //  3
	popload<std::valarray<int>>,                                 //  4
	popload<std::queue<int>>,                                    //  5
	popload<std::stack<int>>,                                    //  6
	popload<std::priority_queue<int>>,                           //  7
	popload<std::vector<bool>>,                                  //  8
	popload<std::array<int, 3>>,                                 //  9
	popload<std::bitset<4>>,                                     // 10
	popload<std::set<int>>,                                      // 11
	popload<std::multiset<int>>,                                 // 12
	popload<std::unordered_set<std::string>>,                    // 13
	popload<std::unordered_multiset<std::string>>,               // 14
	popload<std::map<int, int>>,                                 // 15
	popload<std::unordered_map<int, int>>,                       // 16
	popload<std::map<std::string, int>>,                         // 17
	popload<std::multimap<int, int>, true>,                      // 18
	popload<std::unordered_multimap<std::string, int>>,          // 19
	popload<std::optional<int>, false, false>,                                 // 20
	popload<std::unique_ptr<int>, false, false>,                               // 21
	popload<std::shared_ptr<int>, false, false>,                               // 22
	popload<std::vector<std::string>>,                           // 23
	popload<std::vector<std::vector<int>>>,                      // 24
	popload<std::vector<std::optional<int>>>,                    // 25
	popload<std::vector<std::map<std::string, int>>>,            // 26
	popload<std::map<std::string, std::vector<int>>>,            // 27
	popload<std::optional<std::vector<int>>>,                    // 28
	popload<std::vector<PairII>, true>,                          // 29
	popload<std::list<PairII>, true>,                            // 30
	popload<std::deque<PairII>, true>,                           // 31
	popload<std::forward_list<PairII>, true>,                    // 32
	popload<std::array<std::vector<int>, 2>>,                    // 33
	popload<std::vector<std::array<int, 2>>>,                    // 34
	popload<std::pair<int, std::vector<int>>>,                   // 35
	popload<std::map<int, std::map<int, int>>>,                  // 36
	popload<std::vector<std::unique_ptr<std::vector<int>>>>,     // 37
	popload<int[3]>,                                             // 38
	popload<std::deque<std::list<std::string>>>,                 // 39
	popload<std::string, false, false>,                                        // 40
	popload<int, false, false>,                                                // 41
	popload<std::vector<std::vector<bool>>>,                     // 42
	popload<std::list<std::set<std::string>>>,                   // 43
};

// ------------------------------------------------------------------ validated classes (same as class_catalogue)
static std::optional<std::string> must_be_even(const int& v, bool loaded) {
	if (loaded && v % 2 != 0) return "must be even";
	return std::nullopt;
}
static std::optional<std::string> no_spaces(const std::string& v, bool loaded) {
	if (!loaded || v.find(' ') == std::string::npos) return std::nullopt;
	return "The field must not contain spaces";
}

struct Flat {
	int x = 0; std::string s; int y = 0;
	template <class A> void Serialize(A& ar) {
		ar << KeyValue("x", x, Required(), Range(1, 5));
		ar << KeyValue("s", s, Required(), MinSize(2), MaxSize(4));
		ar << KeyValue("y", y, Required());
	}
};
static std::string show(const Flat& v) { return "[" + show(v.x) + "," + show(v.s) + "," + show(v.y) + "]"; }

struct Multi {
	int a = 0; std::string b; int c = 0; std::string d;
	template <class A> void Serialize(A& ar) {
		ar << KeyValue("a", a, Range(1, 5), Range(3, 9, "custom r2"), [](const int& v, bool l) { return must_be_even(v, l); });
		ar << KeyValue("b", b, MinSize(5), MaxSize(2), Required("b required"));
		ar << KeyValue("c", c, Required(), Range(-3, 3));
		ar << KeyValue("d", d, MaxSize(0));
	}
};
static std::string show(const Multi& v) { return "[" + show(v.a) + "," + show(v.b) + "," + show(v.c) + "," + show(v.d) + "]"; }

struct Text {
	std::string e, p, q, r, nick;
	template <class A> void Serialize(A& ar) {
		ar << KeyValue("e", e, Required(), Email());
		ar << KeyValue("p", p, PhoneNumber(7, 15, true));
		ar << KeyValue("q", q, PhoneNumber(3, 3, false, "bad q"));
		ar << KeyValue("r", r, PhoneNumber(2, 4, false), Email("custom email"));
		ar << KeyValue("nick", nick, [](const std::string& v, bool l) { return no_spaces(v, l); });
	}
};
static std::string show(const Text& v) { return "[" + show(v.e) + "," + show(v.p) + "," + show(v.q) + "," + show(v.r) + "," + show(v.nick) + "]"; }

struct Nested {
	int id = 0; Flat inner; int tail = 0;
	template <class A> void Serialize(A& ar) {
		ar << KeyValue("id", id, Required());
		ar << KeyValue("inner", inner, Required());
		ar << KeyValue("tail", tail, Range(0, 10));
	}
};
static std::string show(const Nested& v) { return "[" + show(v.id) + "," + show(v.inner) + "," + show(v.tail) + "]"; }

struct InArray {
	std::vector<Flat> items; int n = 0;
	template <class A> void Serialize(A& ar) {
		ar << KeyValue("items", items, MinSize(1), MaxSize(3));
		ar << KeyValue("n", n, Required());
	}
};
static std::string show(const InArray& v) { return "[" + show(v.items) + "," + show(v.n) + "]"; }

struct InMap {
	std::map<std::string, Flat> m; int z = 0;
	template <class A> void Serialize(A& ar) {
		ar << KeyValue("m", m, MaxSize(2), Required());
		ar << KeyValue("z", z, Required());
	}
};
static std::string show(const InMap& v) { return "[" + show(v.m) + "," + show(v.z) + "]"; }

struct Dup {
	int x1 = 0, x2 = 0; std::vector<int> v;
	template <class A> void Serialize(A& ar) {
		ar << KeyValue("x", x1, Range(1, 5));
		ar << KeyValue("x", x2, Required(), Range(2, 9, "second"));
		ar << KeyValue("v", v, MinSize(2), MaxSize(3), Required());
	}
};
static std::string show(const Dup& v) { return "[" + show(v.x1) + "," + show(v.x2) + "," + show(v.v) + "]"; }

struct Many {
	int f1 = 0, f2 = 0, f3 = 0, f4 = 0, f5 = 0;
	template <class A> void Serialize(A& ar) {
		auto even = [](const int& v, bool l) { return must_be_even(v, l); };
		ar << KeyValue("f1", f1, Required("f1 missing"), Range(0, 9), even);
		ar << KeyValue("f2", f2, Required("f2 missing"), Range(0, 9), even);
		ar << KeyValue("f3", f3, Required("f3 missing"), Range(0, 9), even);
		ar << KeyValue("f4", f4, Required("f4 missing"), Range(0, 9), even);
		ar << KeyValue("f5", f5, Required("f5 missing"), Range(0, 9), even);
	}
};
static std::string show(const Many& v) { return "[" + show(v.f1) + "," + show(v.f2) + "," + show(v.f3) + "," + show(v.f4) + "," + show(v.f5) + "]"; }

struct Deep {
	std::vector<Nested> list; int k = 0;
	template <class A> void Serialize(A& ar) {
		ar << KeyValue("list", list, MinSize(1));
		ar << KeyValue("k", k, Required());
	}
};
static std::string show(const Deep& v) { return "[" + show(v.list) + "," + show(v.k) + "]"; }

// XML only: members serialized with AttributeValue (same lists as fields_attr / fields_attrlist in coq/ArchCodec.v)
struct Attr {
	int id = 0; std::string name; int x = 0; int ax = 0;
	template <class A> void Serialize(A& ar) {
		ar << AttributeValue("id", id, Required(), Range(1, 5));
		ar << AttributeValue("name", name, MinSize(2), MaxSize(4));
		ar << KeyValue("x", x, Required());
		ar << AttributeValue("x", ax, Range(0, 9, "attr x"));
	}
};
static std::string show(const Attr& v) { return "[" + show(v.id) + "," + show(v.name) + "," + show(v.x) + "," + show(v.ax) + "]"; }

struct AttrList {
	std::vector<Attr> list; int k = 0;
	template <class A> void Serialize(A& ar) {
		ar << KeyValue("list", list, MinSize(1));
		ar << AttributeValue("k", k, Required());
	}
};
static std::string show(const AttrList& v) { return "[" + show(v.list) + "," + show(v.k) + "]"; }

struct VCase { std::string arch; unsigned max; std::string pol; Tree doc; };

template <class T, bool Csv = false>
static std::string validate(const VCase& c) {
	T obj{};
	const std::string input = encode(c.arch, c.doc);
	const SerializationOptions o = make_options(c.pol, c.max);
	try {
		load_with<Csv, true>(c.arch, obj, input, o);
	}
	catch (const ValidationException& ex) {
		std::string r = "VAL ";
		bool first = true;
		for (const auto& kv : ex.GetValidationErrors()) {       // std::map: ordered by path
			if (!first) r.push_back(';');
			first = false;
			r += vh::fmt_hex(kv.first); r.push_back(':');
			for (size_t i = 0; i < kv.second.size(); ++i) { if (i) r.push_back(','); r += vh::fmt_hex(kv.second[i]); }
		}
		r.push_back(' ');
		r += c.max == 0 ? show(obj) : std::string("-");
		return r;
	}
	return "OK " + show(obj);
}

// classes that only an archive with attributes can load: XML, from memory or through std::istream
template <class T>
static std::string validate_xml(const VCase& c) {
	if (c.arch != "xml" && c.arch != "xmls") throw Syntax{"class only loadable from xml"};
	T obj{};
	const std::string input = encode(c.arch, c.doc);
	const SerializationOptions o = make_options(c.pol, c.max);
	try {
		if (c.arch == "xml") LoadObject<XmlArchive>(obj, input, o);
		else { std::istringstream is(input); LoadObject<XmlArchive>(obj, is, o); }
	}
	catch (const ValidationException& ex) {
		std::string r = "VAL ";
		bool first = true;
		for (const auto& kv : ex.GetValidationErrors()) {
			if (!first) r.push_back(';');
			first = false;
			r += vh::fmt_hex(kv.first); r.push_back(':');
			for (size_t i = 0; i < kv.second.size(); ++i) { if (i) r.push_back(','); r += vh::fmt_hex(kv.second[i]); }
		}
		r.push_back(' ');
		r += c.max == 0 ? show(obj) : std::string("-");
		return r;
	}
	return "OK " + show(obj);
}

static const std::vector<std::function<std::string(const VCase&)>> class_catalogue = {
	validate<Flat>, validate<Multi>, validate<Text>, validate<Nested>, validate<InArray>,
	validate<InMap>, validate<Dup>, validate<Many>, validate<std::vector<Flat>, true>, validate<Deep>,
	validate_xml<Attr>, validate_xml<AttrList>,
};

int main() {
	std::ios::sync_with_stdio(false);
	std::string line;
	while (std::getline(std::cin, line)) {
		std::string out;
		try {
			auto t = vh::split(line);
			if (t.at(0) == "popload" && t.size() == 7) {
				Case c{ t[1], t[3].at(0), t[4], parse_tree(t[5]), parse_tree(t[6]) };
				out = type_catalogue.at(std::stoul(t[2]))(c);
			}
			else if (t.at(0) == "validate" && t.size() == 6) {
				VCase c{ t[1], (unsigned)std::stoul(t[3]), t[4], parse_tree(t[5]) };
				out = class_catalogue.at(std::stoul(t[2]))(c);
			}
			else out = "UNSUPPORTED";
		}
		catch (const Syntax& e) { out = std::string("BADCASE ") + e.what; }
		catch (const SerializationException& e) { out = std::string("EXC:") + code_name(e.GetErrorCode()); }
		catch (const std::invalid_argument&) { out = "EXC:invalid_argument"; }
		catch (const std::out_of_range&) { out = "EXC:out_of_range"; }
		catch (const std::exception&) { out = "EXC:other"; }
		std::cout << out << "\n";
	}
	return 0;
}
