// Correspondence driver for the chrono family (C14, C15).
// Calls the public API (BitSerializer::Convert::To<...> / Convert::ToString) and the CBinTimestamp conversions
// exactly as a user / the archives would.  One case per line, one answer line per case.
//
//   tp.print  <P> <R> <count>            Convert::ToString(time_point<system_clock, duration<R,P>>(count))
//   tp.parse  <P> <R> <hex>              Convert::To<time_point<...>>(std::string_view)
//   tp.parse16 / tp.parse32 <P> <R> <units>   same through std::u16string_view / std::u32string_view
//   dur.print <P> <R> <count>            Convert::ToString(duration<R,P>(count))
//   dur.parse <P> <R> <hex>              Convert::To<duration<R,P>>(std::string_view)   (dur.parse16/32 likewise)
//   ts.to   <tp|dur> <P> <R> <count>     BitSerializer::Detail::To(value, CBinTimestamp&)
//   ts.from <tp|dur> <P> <R> <sec> <ns>  BitSerializer::Detail::To(CBinTimestamp, value&)
//   rt.print <time_t> / rt.parse <hex>   CRawTime
//   ts.wire <tp|dur> <P> <R> <count>      MsgPack archive: OK <hex bytes written> <count loaded back>
//   tm.print <year> <mon> <mday> <hour> <min> <sec> / tm.parse <hex>      struct tm
//   cast <Psrc> <Rsrc> <Pdst> <Rdst> <count>    Convert::Detail::SafeDurationCast (fixed catalogue, see cast_dispatch)
//   sweep.print <tp|dur> <P> <R> <start> <n> <step>    answers of tp.print/dur.print for start + i*step folded into a hash
//   sweep.rt    <tp|dur> <P> <R> <start> <n> <step>    print, then parse the printed text; both answers folded
//   sweep.ts    <tp|dur> <P> <R> <start> <n> <step>    ts.to, then ts.from of the result; both answers folded
// P: ns us ms s min h d     R: i64 i32 u64 i8     counts decimal; text as lowercase hex of the bytes ("-" = empty)
// Answers:  OK <hex text> | OK <count> | OK <sec> <ns> | EXC:<category> | UNSUPPORTED ;  sweeps: H <hash> <count> <nontrivial>
#include "common.h"
#include <chrono>
#include <ctime>
#include <stdexcept>
#include <string_view>
#include <type_traits>
#include "bitserializer/convert.h"
#include "bitserializer/serialization_detail/errors_handling.h"
#include "bitserializer/serialization_detail/bin_timestamp.h"
#include "bitserializer/bit_serializer.h"
#include "bitserializer/msgpack_archive.h"
#include "bitserializer/types/std/chrono.h"

using vh::U;
namespace bs = BitSerializer;

template <class R, class Per> struct Tag { using rep = R; using period = Per; };
using PerMin = std::ratio<60>; using PerH = std::ratio<3600>; using PerD = std::ratio<86400>;

struct Unsupported {};
struct BadCase {};

// ---- (P,R) catalogue ----
template <class F> static std::string with_rep(const std::string& r, F f) {
	if (r == "i64") return f(int64_t{});
	if (r == "i32") return f(int32_t{});
	if (r == "u64") return f(uint64_t{});
	if (r == "i8") return f(int8_t{});
	throw Unsupported{};
}
template <class F> static std::string with_types(const std::string& p, const std::string& r, F f) {
	return with_rep(r, [&](auto rv) -> std::string {
		using R = decltype(rv);
		if (p == "ns") return f(Tag<R, std::nano>{});
		if (p == "us") return f(Tag<R, std::micro>{});
		if (p == "ms") return f(Tag<R, std::milli>{});
		if (p == "s") return f(Tag<R, std::ratio<1>>{});
		if (p == "min") return f(Tag<R, PerMin>{});
		if (p == "h") return f(Tag<R, PerH>{});
		if (p == "d") return f(Tag<R, PerD>{});
		throw Unsupported{};
	});
}

// Printing with an unsigned representation does not compile in the library where PrintSecondsFractions is
// instantiated (std::abs(unsigned long) is ambiguous): every time_point (its fraction type is
// common_type<milliseconds, D>) and every sub-second duration.  Those pairs are not in the catalogue.
template <class R, class Per> constexpr bool can_print_tp = std::is_signed_v<R>;
template <class R, class Per> constexpr bool can_print_dur = std::is_signed_v<R> || !std::ratio_less_v<Per, std::ratio<1>>;

template <class R> static R parse_count(const std::string& s) {
	if (s.empty()) throw BadCase{};
	errno = 0; char* e = nullptr;
	if constexpr (std::is_signed_v<R>) {
		long long v = std::strtoll(s.c_str(), &e, 10);
		if (errno || *e || v < (long long)std::numeric_limits<R>::min() || v > (long long)std::numeric_limits<R>::max()) throw BadCase{};
		return static_cast<R>(v);
	} else {
		if (s[0] == '-') throw BadCase{};
		unsigned long long v = std::strtoull(s.c_str(), &e, 10);
		if (errno || *e || v > (unsigned long long)std::numeric_limits<R>::max()) throw BadCase{};
		return static_cast<R>(v);
	}
}
template <class R> static std::string fmt_count(R v) {
	if constexpr (std::is_signed_v<R>) return std::to_string((long long)v);
	else return std::to_string((unsigned long long)v);
}

template <class F> static std::string guarded(F f) {
	try { return f(); }
	catch (const bs::SerializationException& ex) { return "EXC:serialization:" + std::to_string((int)ex.GetErrorCode()); }
	catch (const std::invalid_argument&) { return "EXC:invalid_argument"; }
	catch (const std::out_of_range&) { return "EXC:out_of_range"; }
	catch (const std::runtime_error&) { return "EXC:runtime_error"; }
	catch (const std::exception&) { return "EXC:other"; }
}

template <class S> static S units_to(const std::string& tok) {
	S s; for (U x : vh::parse_list(tok)) s.push_back(static_cast<typename S::value_type>(x)); return s;
}

// ---- single operations, generic in (R, Per) ----
template <class R, class Per> static std::string tp_print(R c) {
	if constexpr (!can_print_tp<R, Per>) { throw Unsupported{}; }
	else {
		using D = std::chrono::duration<R, Per>;
		using T = std::chrono::time_point<std::chrono::system_clock, D>;
		return guarded([&] { return "OK " + vh::fmt_hex(bs::Convert::ToString(T(D(c)))); });
	}
}
template <class R, class Per, class SV> static std::string tp_parse(SV text) {
	using D = std::chrono::duration<R, Per>;
	using T = std::chrono::time_point<std::chrono::system_clock, D>;
	return guarded([&] { T t = bs::Convert::To<T>(text); return "OK " + fmt_count<R>(t.time_since_epoch().count()); });
}
template <class R, class Per> static std::string dur_print(R c) {
	if constexpr (!can_print_dur<R, Per>) { throw Unsupported{}; }
	else {
		using D = std::chrono::duration<R, Per>;
		return guarded([&] { return "OK " + vh::fmt_hex(bs::Convert::ToString(D(c))); });
	}
}
template <class R, class Per, class SV> static std::string dur_parse(SV text) {
	using D = std::chrono::duration<R, Per>;
	return guarded([&] { D d = bs::Convert::To<D>(text); return "OK " + fmt_count<R>(d.count()); });
}
template <class R, class Per> static std::string ts_to(bool isTp, R c, int64_t* osec = nullptr, int32_t* onsec = nullptr) {
	using D = std::chrono::duration<R, Per>;
	using T = std::chrono::time_point<std::chrono::system_clock, D>;
	return guarded([&] {
		bs::Detail::CBinTimestamp ts;
		if (isTp) bs::Detail::To(T(D(c)), ts); else bs::Detail::To(D(c), ts);
		if (osec) { *osec = ts.Seconds; *onsec = ts.Nanoseconds; }
		return "OK " + std::to_string((long long)ts.Seconds) + " " + std::to_string((long long)ts.Nanoseconds);
	});
}
template <class R, class Per> static std::string ts_from(bool isTp, int64_t sec, int32_t nsec) {
	using D = std::chrono::duration<R, Per>;
	using T = std::chrono::time_point<std::chrono::system_clock, D>;
	return guarded([&] {
		bs::Detail::CBinTimestamp ts(sec, nsec);
		if (isTp) { T t; bs::Detail::To(ts, t); return "OK " + fmt_count<R>(t.time_since_epoch().count()); }
		D d; bs::Detail::To(ts, d); return "OK " + fmt_count<R>(d.count());
	});
}

// ts.wire: the value saved as the root of a MsgPack archive (types/std/chrono.h: To(value, CBinTimestamp&), then
// WriteValue(const CBinTimestamp&)), the bytes, and the value loaded back from them.  An overflow of the
// conversion is reported by the archive as SerializationException(Overflow) = out_of_range of the conversion.
template <class R, class Per> static std::string ts_wire(bool isTp, R c) {
	using D = std::chrono::duration<R, Per>;
	using T = std::chrono::time_point<std::chrono::system_clock, D>;
	return guarded([&] {
		std::string bytes;
		if (isTp) {
			T v{D(c)};
			bs::SaveObject<bs::MsgPack::MsgPackArchive>(v, bytes);
			T w{};
			bs::LoadObject<bs::MsgPack::MsgPackArchive>(w, bytes);
			return "OK " + vh::fmt_hex(bytes) + " " + fmt_count<R>(w.time_since_epoch().count());
		}
		D v(c);
		bs::SaveObject<bs::MsgPack::MsgPackArchive>(v, bytes);
		D w{};
		bs::LoadObject<bs::MsgPack::MsgPackArchive>(w, bytes);
		return "OK " + vh::fmt_hex(bytes) + " " + fmt_count<R>(w.count());
	});
}

// ---- SafeDurationCast catalogue (incl. two ratio pairs that reach the general num/den branch) ----
using Per7 = std::ratio<7>; using Per5 = std::ratio<5>; using Per2_3 = std::ratio<2, 3>;
template <class SR, class SP, class DR, class DP> static std::string do_cast(const std::string& c) {
	SR v = parse_count<SR>(c);
	return guarded([&] {
		auto d = bs::Convert::Detail::SafeDurationCast<std::chrono::duration<DR, DP>>(std::chrono::duration<SR, SP>(v));
		return "OK " + fmt_count<DR>(d.count());
	});
}
template <class F> static std::string with_per(const std::string& p, F f) {
	if (p == "ns") return f(std::nano{});
	if (p == "us") return f(std::micro{});
	if (p == "ms") return f(std::milli{});
	if (p == "s") return f(std::ratio<1>{});
	if (p == "min") return f(PerMin{});
	if (p == "h") return f(PerH{});
	if (p == "d") return f(PerD{});
	if (p == "w") return f(std::ratio<604800>{});
	if (p == "r7") return f(Per7{});
	if (p == "r5") return f(Per5{});
	if (p == "r2_3") return f(Per2_3{});
	throw Unsupported{};
}
static std::string cast_dispatch(const std::string& sp, const std::string& sr, const std::string& dp, const std::string& dr, const std::string& c) {
	// sources: the representations SafeDurationCast is instantiated with by the library (int64, uint64) plus int32;
	// periods: the standard units plus r7/r5/r2_3 (general-ratio branch)
	auto with_src = [&](auto f) -> std::string {
		if (sr == "i64") return f(int64_t{});
		if (sr == "u64") return f(uint64_t{});
		if (sr == "i32") return f(int32_t{});
		throw Unsupported{};
	};
	const bool odd = sp[0] == 'r' || dp[0] == 'r';
	return with_src([&](auto srv) -> std::string {
		using SR = decltype(srv);
		return with_rep(dr, [&](auto drv) -> std::string {
			using DR = decltype(drv);
			if (odd) {
				// small fixed set for the general branch
				if (sp == "r7" && dp == "r5") return do_cast<SR, Per7, DR, Per5>(c);
				if (sp == "r5" && dp == "r7") return do_cast<SR, Per5, DR, Per7>(c);
				if (sp == "s" && dp == "r2_3") return do_cast<SR, std::ratio<1>, DR, Per2_3>(c);
				if (sp == "r2_3" && dp == "s") return do_cast<SR, Per2_3, DR, std::ratio<1>>(c);
				throw Unsupported{};
			}
			return with_per(sp, [&](auto spv) -> std::string {
				using SP = decltype(spv);
				if constexpr (std::is_same_v<SP, Per7> || std::is_same_v<SP, Per5> || std::is_same_v<SP, Per2_3>) { throw Unsupported{}; }
				else return with_per(dp, [&](auto dpv) -> std::string {
					using DP = decltype(dpv);
					if constexpr (std::is_same_v<DP, Per7> || std::is_same_v<DP, Per5> || std::is_same_v<DP, Per2_3>) { throw Unsupported{}; }
					else return do_cast<SR, SP, DR, DP>(c);
				});
			});
		});
	});
}

// ---- sweeps ----
static U g_nontrivial = 0;
static void fold(vh::Hash& h, const std::string& ans) {
	for (unsigned char ch : ans) h.add(ch);
	h.add(10);
}
// text of an "OK <hex>" answer
static bool ok_text(const std::string& ans, std::string& text) {
	if (ans.rfind("OK ", 0) != 0) return false;
	text = vh::parse_hex(ans.substr(3));
	return true;
}

template <class R, class Per> static std::string sweep(const std::string& kind, bool isTp, const std::string& startS, U n, U step) {
	R start = parse_count<R>(startS);
	vh::Hash h; g_nontrivial = 0;
	using UR = std::make_unsigned_t<R>;
	for (U i = 0; i < n; ++i) {
		R c = static_cast<R>(static_cast<UR>(start) + static_cast<UR>(i * step));
		bool nt = c < 0;
		if (kind == "sweep.print" || kind == "sweep.rt") {
			std::string a = isTp ? tp_print<R, Per>(c) : dur_print<R, Per>(c);
			fold(h, a);
			std::string text;
			if (!ok_text(a, text)) nt = true;
			else if (kind == "sweep.rt") {
				std::string b = isTp ? tp_parse<R, Per>(std::string_view(text)) : dur_parse<R, Per>(std::string_view(text));
				fold(h, b);
				if (b.rfind("OK ", 0) != 0) nt = true;
			}
		} else if (kind == "sweep.ts") {
			int64_t sec = 0; int32_t nsec = 0;
			std::string a = ts_to<R, Per>(isTp, c, &sec, &nsec);
			fold(h, a);
			if (a.rfind("OK ", 0) != 0) nt = true;
			else {
				std::string b = ts_from<R, Per>(isTp, sec, nsec);
				fold(h, b);
				if (b.rfind("OK ", 0) != 0) nt = true;
			}
		} else throw Unsupported{};
		h.tick();
		if (nt) ++g_nontrivial;
	}
	return "H " + std::to_string(h.h) + " " + std::to_string(h.n) + " " + std::to_string(g_nontrivial);
}

static std::string run_line(const std::vector<std::string>& t) {
	const std::string& op = t.at(0);
	if (op == "tp.print") return with_types(t.at(1), t.at(2), [&](auto tag) { using G = decltype(tag); return tp_print<typename G::rep, typename G::period>(parse_count<typename G::rep>(t.at(3))); });
	if (op == "dur.print") return with_types(t.at(1), t.at(2), [&](auto tag) { using G = decltype(tag); return dur_print<typename G::rep, typename G::period>(parse_count<typename G::rep>(t.at(3))); });
	if (op == "tp.parse") { std::string s = vh::parse_hex(t.at(3)); return with_types(t.at(1), t.at(2), [&](auto tag) { using G = decltype(tag); return tp_parse<typename G::rep, typename G::period>(std::string_view(s)); }); }
	if (op == "dur.parse") { std::string s = vh::parse_hex(t.at(3)); return with_types(t.at(1), t.at(2), [&](auto tag) { using G = decltype(tag); return dur_parse<typename G::rep, typename G::period>(std::string_view(s)); }); }
	if (op == "tp.parse16") { auto s = units_to<std::u16string>(t.at(3)); return with_types(t.at(1), t.at(2), [&](auto tag) { using G = decltype(tag); return tp_parse<typename G::rep, typename G::period>(std::u16string_view(s)); }); }
	if (op == "tp.parse32") { auto s = units_to<std::u32string>(t.at(3)); return with_types(t.at(1), t.at(2), [&](auto tag) { using G = decltype(tag); return tp_parse<typename G::rep, typename G::period>(std::u32string_view(s)); }); }
	if (op == "dur.parse16") { auto s = units_to<std::u16string>(t.at(3)); return with_types(t.at(1), t.at(2), [&](auto tag) { using G = decltype(tag); return dur_parse<typename G::rep, typename G::period>(std::u16string_view(s)); }); }
	if (op == "dur.parse32") { auto s = units_to<std::u32string>(t.at(3)); return with_types(t.at(1), t.at(2), [&](auto tag) { using G = decltype(tag); return dur_parse<typename G::rep, typename G::period>(std::u32string_view(s)); }); }
	if (op == "ts.to") { bool isTp = t.at(1) == "tp"; return with_types(t.at(2), t.at(3), [&](auto tag) { using G = decltype(tag); return ts_to<typename G::rep, typename G::period>(isTp, parse_count<typename G::rep>(t.at(4))); }); }
	if (op == "ts.wire") {
		bool isTp = t.at(1) == "tp";
		std::string a = with_types(t.at(2), t.at(3), [&](auto tag) { using G = decltype(tag); return ts_wire<typename G::rep, typename G::period>(isTp, parse_count<typename G::rep>(t.at(4))); });
		if (a == "EXC:serialization:" + std::to_string((int)bs::SerializationErrorCode::Overflow)) return "EXC:out_of_range";
		return a;
	}
	if (op == "ts.from") {
		bool isTp = t.at(1) == "tp";
		int64_t sec = parse_count<int64_t>(t.at(4)); int32_t nsec = parse_count<int32_t>(t.at(5));
		return with_types(t.at(2), t.at(3), [&](auto tag) { using G = decltype(tag); return ts_from<typename G::rep, typename G::period>(isTp, sec, nsec); });
	}
	if (op == "rt.print") { time_t v = parse_count<int64_t>(t.at(1)); return guarded([&] { return "OK " + vh::fmt_hex(bs::Convert::ToString(bs::CRawTime(v))); }); }
	if (op == "rt.parse") { std::string s = vh::parse_hex(t.at(1)); return guarded([&] { bs::CRawTime r = bs::Convert::To<bs::CRawTime>(std::string_view(s)); return "OK " + std::to_string((long long)r.Time); }); }
	if (op == "tm.print") {
		tm v{}; v.tm_year = parse_count<int32_t>(t.at(1)); v.tm_mon = parse_count<int32_t>(t.at(2)); v.tm_mday = parse_count<int32_t>(t.at(3));
		v.tm_hour = parse_count<int32_t>(t.at(4)); v.tm_min = parse_count<int32_t>(t.at(5)); v.tm_sec = parse_count<int32_t>(t.at(6));
		return guarded([&] { return "OK " + vh::fmt_hex(bs::Convert::ToString(v)); });
	}
	if (op == "tm.parse") {
		std::string s = vh::parse_hex(t.at(1));
		return guarded([&] {
			tm v = bs::Convert::To<tm>(std::string_view(s));
			return "OK " + std::to_string(v.tm_year) + " " + std::to_string(v.tm_mon) + " " + std::to_string(v.tm_mday) + " " +
				std::to_string(v.tm_hour) + " " + std::to_string(v.tm_min) + " " + std::to_string(v.tm_sec);
		});
	}
	if (op == "cast") return cast_dispatch(t.at(1), t.at(2), t.at(3), t.at(4), t.at(5));
	if (op == "sweep.print" || op == "sweep.rt" || op == "sweep.ts") {
		bool isTp = t.at(1) == "tp";
		U n = std::strtoull(t.at(5).c_str(), nullptr, 10), step = std::strtoull(t.at(6).c_str(), nullptr, 10);
		return with_types(t.at(2), t.at(3), [&](auto tag) { using G = decltype(tag); return sweep<typename G::rep, typename G::period>(op, isTp, t.at(4), n, step); });
	}
	throw Unsupported{};
}

int main() {
	std::ios::sync_with_stdio(false);
	std::string line;
	while (std::getline(std::cin, line)) {
		auto t = vh::split(line);
		std::string ans;
		try { ans = run_line(t); }
		catch (const Unsupported&) { ans = "UNSUPPORTED"; }
		catch (const BadCase&) { ans = "BADCASE"; }
		catch (const std::exception& ex) { ans = std::string("DRIVER-EXC ") + ex.what(); }
		std::cout << ans << "\n" << std::flush;
	}
	return 0;
}
