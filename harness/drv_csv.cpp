// Correspondence driver for the CSV family (C09; reused by C01/C03/C10).
//
//   csvw  <mem|stream|streambom> <sep> <table>        public API: BitSerializer::SaveObject<CsvArchive>(std::vector<Row>)
//   csvwi <mem|stream|streambom> <H|N> <sep> <table>   internal writer classes (src/csv/csv_writers.h): WriteValue* / NextLine per row
//   csvh  <mem|stream> <sep> <prog>/<prog>/... <bytes>  the same with a request program per row (C03): the i-th row object asks
//                                                  for the keys of the i-th program in that order; answer as csvr, '~!<hex>' = not loaded but the target was written
//   csvr  <mem|stream> <sep> <keys> <bytes>            public API: BitSerializer::LoadObject<CsvArchive>(std::vector<Row>), each row
//                                                      requests the listed keys in the listed order
//   sepv  <sep>                                        the four root scope constructors with this separator
//
// sep    two hex digits.
// table  <hdr>/<row>/<row>...   (no rows: just <hdr>); hdr and row are field lists.
// field list   fields joined by ','; a field is lowercase hex, '-' = empty field, '_' alone = list of zero fields.
// bytes  hex, '-' = empty.
// Row i writes its field j under the key hdr[j] (empty key when j >= |hdr|).
//
// Answers:  csvw/csvwi  OK <hex of output> | EXC:<category>
//           csvr        OK <row>/<row>...  ('.' = zero rows; a cell that was not loaded is '~')  | EXC:<category>
//           sepv        <w> <ws> <r> <rs>   each OK or EXC:<category>
// A failure that leaves a destructor (std::terminate) kills the process; tools/vlib.py records it as TERMINATE.
#include "common.h"
#include <sstream>
#include "bitserializer/bit_serializer.h"
#include "bitserializer/csv_archive.h"
#include "bitserializer/types/std/vector.h"
#include "csv/csv_writers.h"

using namespace BitSerializer;
using BitSerializer::Csv::CsvArchive;

using Fields = std::vector<std::string>;

static Fields parse_fields(const std::string& s) {
	Fields r;
	if (s == "_") return r;
	for (auto& t : vh::split(s, ',')) r.push_back(vh::parse_hex(t));
	return r;
}
static std::string fmt_field(const std::string& f) { return vh::fmt_hex(f); }

// configuration of the dynamic row class for the case being run
static Fields g_names;   // save: key of column j; load: keys requested, in this order

struct Row {
	Fields vals;
	std::vector<char> found;

	template <class TArchive>
	void Serialize(TArchive& archive) {
		if constexpr (TArchive::IsLoading()) {
			vals.assign(g_names.size(), std::string());
			found.assign(g_names.size(), 0);
			for (size_t i = 0; i < g_names.size(); ++i)
				found[i] = BitSerializer::Serialize(archive, g_names[i], vals[i]) ? 1 : 0;
		} else {
			static const std::string emptyKey;
			for (size_t j = 0; j < vals.size(); ++j)
				BitSerializer::Serialize(archive, j < g_names.size() ? g_names[j] : emptyKey, vals[j]);
		}
	}
};

static std::string category(const SerializationException& e) {
	switch (e.GetErrorCode()) {
	case SerializationErrorCode::InvalidOptions: return "EXC:InvalidOptions";
	case SerializationErrorCode::ParsingError: return "EXC:ParsingError";
	case SerializationErrorCode::InputOutputError: return "EXC:InputOutputError";
	case SerializationErrorCode::UnsupportedEncoding: return "EXC:UnsupportedEncoding";
	case SerializationErrorCode::UtfEncodingError: return "EXC:UtfEncodingError";
	case SerializationErrorCode::OutOfRange: return "EXC:OutOfRange";
	case SerializationErrorCode::Overflow: return "EXC:Overflow";
	case SerializationErrorCode::MismatchedTypes: return "EXC:MismatchedTypes";
	case SerializationErrorCode::FailedValidation: return "EXC:FailedValidation";
	case SerializationErrorCode::UnregisteredEnum: return "EXC:UnregisteredEnum";
	}
	return "EXC:other";
}

template <class F>
static std::string guarded(F f) {
	try { return f(); }
	catch (const SerializationException& e) { return category(e); }
	catch (const std::invalid_argument&) { return "EXC:std::invalid_argument"; }
	catch (const std::out_of_range&) { return "EXC:std::out_of_range"; }
	catch (const std::exception&) { return "EXC:std::exception"; }
	catch (...) { return "EXC:unknown"; }
}

// ---- csvh: a request program per row (C03).  The i-th row object to be loaded runs the i-th program: each key is
// requested through BitSerializer::Serialize(archive, key, std::string&) with the target preset to a sentinel, so that
// "not loaded" can be told from "loaded as something" and a not-loaded target that was written to shows up ("~!<hex>")
static std::vector<Fields> g_progs;
static size_t g_next_row = 0;
static const std::string kSentinel("\x01unset\x02", 7);

struct HRow {
	Fields vals;
	std::vector<char> found;

	template <class TArchive>
	void Serialize(TArchive& archive) {
		if constexpr (TArchive::IsLoading()) {
			static const Fields none;
			const Fields& prog = g_next_row < g_progs.size() ? g_progs[g_next_row] : none;
			++g_next_row;
			vals.assign(prog.size(), kSentinel);
			found.assign(prog.size(), 0);
			for (size_t i = 0; i < prog.size(); ++i)
				found[i] = BitSerializer::Serialize(archive, prog[i], vals[i]) ? 1 : 0;
		}
	}
};

static std::string op_csvh(const std::string& mode, char sep, const std::vector<Fields>& progs, const std::string& bytes) {
	g_progs = progs;
	g_next_row = 0;
	SerializationOptions options;
	options.valuesSeparator = sep;
	return guarded([&]() -> std::string {
		std::vector<HRow> rows;
		if (mode == "mem") {
			BitSerializer::LoadObject<CsvArchive>(rows, bytes, options);
		} else {
			std::istringstream is(bytes, std::ios::in | std::ios::binary);
			BitSerializer::LoadObject<CsvArchive>(rows, is, options);
		}
		if (rows.empty()) return "OK .";
		std::string r = "OK ";
		for (size_t i = 0; i < rows.size(); ++i) {
			if (i) r.push_back('/');
			if (rows[i].vals.empty()) { r.push_back('_'); continue; }
			for (size_t j = 0; j < rows[i].vals.size(); ++j) {
				if (j) r.push_back(',');
				if (rows[i].found[j]) r += fmt_field(rows[i].vals[j]);
				else if (rows[i].vals[j] == kSentinel) r += "~";
				else r += "~!" + fmt_field(rows[i].vals[j]);
			}
		}
		return r;
	});
}

static char parse_sep(const std::string& s) { return static_cast<char>(std::strtoul(s.c_str(), nullptr, 16)); }

struct Table { Fields hdr; std::vector<Fields> rows; };
static Table parse_table(const std::string& s) {
	Table t;
	auto parts = vh::split(s, '/');
	t.hdr = parse_fields(parts[0]);
	for (size_t i = 1; i < parts.size(); ++i) t.rows.push_back(parse_fields(parts[i]));
	return t;
}

static std::string op_csvw(const std::string& mode, char sep, const Table& t) {
	g_names = t.hdr;
	std::vector<Row> rows(t.rows.size());
	for (size_t i = 0; i < t.rows.size(); ++i) rows[i].vals = t.rows[i];
	SerializationOptions options;
	options.valuesSeparator = sep;
	return guarded([&]() -> std::string {
		if (mode == "mem") {
			std::string out;
			BitSerializer::SaveObject<CsvArchive>(rows, out, options);
			return "OK " + vh::fmt_hex(out);
		}
		options.streamOptions.writeBom = (mode == "streambom");
		options.streamOptions.encoding = Convert::Utf::UtfType::Utf8;
		std::ostringstream os(std::ios::out | std::ios::binary);
		BitSerializer::SaveObject<CsvArchive>(rows, os, options);
		return "OK " + vh::fmt_hex(os.str());
	});
}

static std::string op_csvwi(const std::string& mode, bool withHeader, char sep, const Table& t) {
	using namespace BitSerializer::Csv::Detail;
	static const std::string emptyKey;
	return guarded([&]() -> std::string {
		std::string out;
		std::ostringstream os(std::ios::out | std::ios::binary);
		std::unique_ptr<ICsvWriter> w;
		if (mode == "mem") w = std::make_unique<CCsvStringWriter>(out, withHeader, sep);
		else {
			StreamOptions so; so.writeBom = (mode == "streambom"); so.encoding = Convert::Utf::UtfType::Utf8;
			w = std::make_unique<CCsvStreamWriter>(os, withHeader, sep, Convert::Utf::UtfEncodingErrorPolicy::Skip, so);
		}
		for (auto& row : t.rows) {
			for (size_t j = 0; j < row.size(); ++j)
				w->WriteValue(j < t.hdr.size() ? std::string_view(t.hdr[j]) : std::string_view(emptyKey), std::string_view(row[j]));
			w->NextLine();
		}
		return "OK " + vh::fmt_hex(mode == "mem" ? out : os.str());
	});
}

static std::string op_csvr(const std::string& mode, char sep, const Fields& keys, const std::string& bytes) {
	g_names = keys;
	SerializationOptions options;
	options.valuesSeparator = sep;
	return guarded([&]() -> std::string {
		std::vector<Row> rows;
		if (mode == "mem") {
			BitSerializer::LoadObject<CsvArchive>(rows, bytes, options);
		} else {
			std::istringstream is(bytes, std::ios::in | std::ios::binary);
			BitSerializer::LoadObject<CsvArchive>(rows, is, options);
		}
		if (rows.empty()) return "OK .";
		std::string r = "OK ";
		for (size_t i = 0; i < rows.size(); ++i) {
			if (i) r.push_back('/');
			if (rows[i].vals.empty()) { r.push_back('_'); continue; }
			for (size_t j = 0; j < rows[i].vals.size(); ++j) {
				if (j) r.push_back(',');
				r += rows[i].found[j] ? fmt_field(rows[i].vals[j]) : std::string("~");
			}
		}
		return r;
	});
}

static std::string op_sepv(char sep) {
	SerializationOptions options;
	options.valuesSeparator = sep;
	auto probe = [&](int which) {
		return guarded([&]() -> std::string {
			SerializationContext context(options);
			std::string out; std::ostringstream os; std::string in = "a"; std::istringstream is(in);
			switch (which) {
			case 0: { CsvArchive::output_archive_type a(out, context); break; }
			case 1: { CsvArchive::output_archive_type a(os, context); break; }
			case 2: { CsvArchive::input_archive_type a(in, context); break; }
			default: { CsvArchive::input_archive_type a(is, context); break; }
			}
			return "OK";
		});
	};
	return probe(0) + " " + probe(1) + " " + probe(2) + " " + probe(3);
}

int main() {
	std::ios::sync_with_stdio(false);
	std::string line;
	while (std::getline(std::cin, line)) {
		auto t = vh::split(line);
		std::string ans = "UNSUPPORTED";
		const std::string& op = t[0];
		if (op == "csvw" && t.size() == 4) ans = op_csvw(t[1], parse_sep(t[2]), parse_table(t[3]));
		else if (op == "csvwi" && t.size() == 5) ans = op_csvwi(t[1], t[2] == "H", parse_sep(t[3]), parse_table(t[4]));
		else if (op == "csvr" && t.size() == 5) ans = op_csvr(t[1], parse_sep(t[2]), parse_fields(t[3]), vh::parse_hex(t[4]));
		else if (op == "csvh" && t.size() == 5) {
			std::vector<Fields> progs;
			for (auto& p : vh::split(t[3], '/')) progs.push_back(parse_fields(p));
			ans = op_csvh(t[1], parse_sep(t[2]), progs, vh::parse_hex(t[4]));
		}
		else if (op == "sepv" && t.size() == 2) ans = op_sepv(parse_sep(t[1]));
		std::cout << ans << "\n" << std::flush;
	}
	return 0;
}
