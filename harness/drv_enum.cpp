// drv_enum.cpp — correspondence driver of the `enum` family (C01): the enum conversion code of
// conversion_detail/convert_enum.h through the public API (Convert::To / ToString / TryTo) for the four
// character widths, and enum values / enum map keys through MsgPackArchive and JsonArchive.
// Trusted glue, kept dumb.  Line protocol (tokens separated by one blank):
//   tl <shex>                              -> <shex>                       std::tolower
//   reg <id>                               -> REG <dump>                   the registry as the library holds it
//   from|try <w> <id> <dump> <units>       -> OK <shex> | EXC:<cat> | NONE Convert::To<E>(text) / TryTo
//   to <w> <id> <dump> <shex>              -> OK <units> | EXC:<cat>       Convert::To<basic_string<TSym>>(E)
//   rt <w> <id> <dump> <shex>              -> OK <shex> | EXC-TO:<cat> | EXC-FROM:<cat>:<units>
//   svn m|j <id> <dump> <shex>             -> OK <hex of the saved string> | EXC:<cat>   class{E e} saved, loaded as class{string e}
//   ldn m|j <id> <dump> t|s <hex>          -> OK <shex> | KEPT | EXC:<cat>               class{string e} saved, loaded as class{E e}
//   mp m|j <id> <dump> <shex,shex,..>      -> OK <shex>=<i>;... | EXC:<cat>              std::map<E,int> saved and loaded
// <w> in 8 16 32 w; <dump> = <shex>:<hex name>;... ("-" = no descriptors) must equal the answer of `reg <id>`
// (else the answer is REGDRIFT); units are the unsigned bit patterns of the code units, comma separated hex.
#include "common.h"
#include <map>
#include <optional>
#include <cctype>
#include <cstring>
#include "bitserializer/bit_serializer.h"
#include "bitserializer/convert.h"
#include "bitserializer/msgpack_archive.h"
#include "bitserializer/rapidjson_archive.h"
#include "bitserializer/types/std/map.h"

using namespace BitSerializer;
using MsgPackArchive = BitSerializer::MsgPack::MsgPackArchive;
using JsonArchive = BitSerializer::Json::RapidJson::JsonArchive;

enum class Plain : int { Red = -2, Green = 0, Blue = 100000 };
REGISTER_ENUM(Plain, { { Plain::Red, "Red" }, { Plain::Green, "Green" }, { Plain::Blue, "Blue" } })

enum class Mixed : int { M0, M1, M2, M3, M4, M5, M6, M7, M8, M9, M10 };
REGISTER_ENUM(Mixed, {
	{ Mixed::M0, "camelCase" }, { Mixed::M1, "UPPER" }, { Mixed::M2, "lower" }, { Mixed::M3, "MiXeD_1" }, { Mixed::M4, "x" },
	{ Mixed::M5, "Z9" }, { Mixed::M6, "a@" }, { Mixed::M7, "a`" }, { Mixed::M8, "a[" }, { Mixed::M9, "a{" }, { Mixed::M10, "Ab" }
})

enum class Dup : int { D1 = 1, D2 = 2, D3 = 3, D4 = 4, D5 = 5 };
REGISTER_ENUM(Dup, {
	{ Dup::D1, "Same" }, { Dup::D2, "SAME" }, { Dup::D1, "Other" }, { Dup::D3, "same" }, { Dup::D4, "Four" }, { Dup::D4, "Vier" }, { Dup::D5, "oTHER" }
})

enum class Utf : int { U0, U1, U2, U3, U4, U5 };
REGISTER_ENUM(Utf, {
	{ Utf::U0, "caf\xC3\xA9" }, { Utf::U1, "\xC3\x89t\xC3\xA9" }, { Utf::U2, "\xFF" }, { Utf::U3, "na\xC3\xAFve" }, { Utf::U4, "ascii" }, { Utf::U5, "\xC3\xA9t\xC3\xA9" }
})

enum class Edge : int { E5 = 5, E6, E7, E8, E9 };
REGISTER_ENUM(Edge, { { Edge::E5, "" }, { Edge::E6, "a" }, { Edge::E7, "A " }, { Edge::E8, " a" }, { Edge::E9, "aa" } })

enum class Unreg : int { A, B };      // deliberately not registered

// ------------------------------------------------------------------ helpers
static std::string shex(long long v) {
	char buf[40];
	if (v < 0) std::snprintf(buf, sizeof buf, "-%llx", (unsigned long long)(-v)); else std::snprintf(buf, sizeof buf, "+%llx", (unsigned long long)v);
	return buf;
}
static long long parse_shex(const std::string& s) {
	long long m = (long long)std::strtoull(s.c_str() + 1, nullptr, 16);
	return s[0] == '-' ? -m : m;
}
static const char* code_name(SerializationErrorCode c) {
	switch (c) {
	case SerializationErrorCode::InvalidOptions: return "InvalidOptions";
	case SerializationErrorCode::ParsingError: return "ParsingError";
	case SerializationErrorCode::InputOutputError: return "InputOutputError";
	case SerializationErrorCode::UnsupportedEncoding: return "UnsupportedEncoding";
	case SerializationErrorCode::UtfEncodingError: return "UtfEncodingError";
	case SerializationErrorCode::OutOfRange: return "OutOfRange";
	case SerializationErrorCode::Overflow: return "Overflow";
	case SerializationErrorCode::MismatchedTypes: return "MismatchedTypes";
	case SerializationErrorCode::FailedValidation: return "FailedValidation";
	case SerializationErrorCode::UnregisteredEnum: return "UnregisteredEnum";
	}
	return "?";
}
template <class F> static std::string guarded(F f, const char* prefix = "EXC:") {
	try { return f(); }
	catch (const SerializationException& e) { return std::string(prefix) + code_name(e.GetErrorCode()); }
	catch (const std::invalid_argument&) { return std::string(prefix) + "invalid_argument"; }
	catch (const std::out_of_range&) { return std::string(prefix) + "out_of_range"; }
	catch (const std::exception&) { return std::string(prefix) + "other"; }
}

template <class TSym> static uint64_t pattern(TSym c) {
	if constexpr (sizeof(TSym) == 1) return (unsigned char)c;
	else if constexpr (sizeof(TSym) == 2) return (uint16_t)c;
	else return (uint32_t)c;
}
template <class TSym> static std::basic_string<TSym> to_units(const std::string& tok) {
	std::basic_string<TSym> s;
	for (auto u : vh::parse_list(tok)) {
		if constexpr (sizeof(TSym) == 1) s.push_back((TSym)(unsigned char)u);
		else if constexpr (sizeof(TSym) == 2) s.push_back((TSym)(uint16_t)u);
		else s.push_back((TSym)(int32_t)(uint32_t)u);
	}
	return s;
}
template <class TSym> static std::string fmt_units(const std::basic_string<TSym>& s) {
	std::vector<uint64_t> v; for (auto c : s) v.push_back(pattern(c));
	return vh::fmt_list(v.begin(), v.end());
}

template <class E> static std::string dump() {
	using R = Convert::Detail::EnumRegistry<E>;
	std::string r;
	for (auto it = R::cbegin(); it != R::cend(); ++it) {
		if (!r.empty()) r.push_back(';');
		r += shex((long long)static_cast<int>(it->Value)) + ":" + vh::fmt_hex(std::string(it->Name));
	}
	return r.empty() ? "-" : r;
}

template <class E> struct HoldE {
	E e{};
	template <class TArchive> void Serialize(TArchive& archive) { archive << KeyValue("e", e); }
};
struct HoldS {
	std::string e;
	template <class TArchive> void Serialize(TArchive& archive) { archive << KeyValue("e", e); }
};

template <class TArchive, class E> static std::string arch(const std::string& op, const std::vector<std::string>& t) {
	if (op == "svn") {
		HoldE<E> src; src.e = static_cast<E>((int)parse_shex(t[4]));
		std::string doc;
		BitSerializer::SaveObject<TArchive>(src, doc);
		HoldS dst;
		BitSerializer::LoadObject<TArchive>(dst, doc);
		return "OK " + vh::fmt_hex(dst.e);
	}
	if (op == "ldn") {
		HoldS src; src.e = vh::parse_hex(t[5]);
		std::string doc;
		BitSerializer::SaveObject<TArchive>(src, doc);
		SerializationOptions opt;
		opt.mismatchedTypesPolicy = t[4] == "t" ? MismatchedTypesPolicy::ThrowError : MismatchedTypesPolicy::Skip;
		const int sentinel = 0x5EA7;
		HoldE<E> dst; dst.e = static_cast<E>(sentinel);
		BitSerializer::LoadObject<TArchive>(dst, doc, opt);
		if (static_cast<int>(dst.e) == sentinel) return "KEPT";
		return "OK " + shex(static_cast<int>(dst.e));
	}
	if (op == "mp") {
		std::map<E, int> src; int i = 0;
		if (t[4] != "-") for (auto& k : vh::split(t[4], ',')) src[static_cast<E>((int)parse_shex(k))] = i++;
		std::string doc;
		BitSerializer::SaveObject<TArchive>(src, doc);
		std::map<E, int> dst;
		BitSerializer::LoadObject<TArchive>(dst, doc);
		std::string r;
		for (auto& kv : dst) { if (!r.empty()) r.push_back(';'); r += shex(static_cast<int>(kv.first)) + "=" + std::to_string(kv.second); }
		return "OK " + (r.empty() ? std::string("-") : r);
	}
	return "BAD-OP";
}

template <class E, class TSym> static std::string conv(const std::string& op, const std::vector<std::string>& t) {
	using S = std::basic_string<TSym>;
	if (op == "from") {
		S text = to_units<TSym>(t[4]);
		return guarded([&] { return "OK " + shex(static_cast<int>(Convert::To<E>(text))); });
	}
	if (op == "try") {
		S text = to_units<TSym>(t[4]);
		auto r = Convert::TryTo<E>(text);
		return r ? "OK " + shex(static_cast<int>(*r)) : std::string("NONE");
	}
	E v = static_cast<E>((int)parse_shex(t[4]));
	if (op == "to") {
		return guarded([&] {
			if constexpr (std::is_same_v<TSym, char>) return "OK " + fmt_units<TSym>(Convert::ToString(v));
			else if constexpr (std::is_same_v<TSym, wchar_t>) return "OK " + fmt_units<TSym>(Convert::ToWString(v));
			else return "OK " + fmt_units<TSym>(Convert::To<S>(v));
		});
	}
	if (op == "rt") {
		S text;
		std::string e1 = guarded([&] { text = Convert::To<S>(v); return std::string(); }, "EXC-TO:");
		if (!e1.empty()) return e1;
		std::string e2 = guarded([&] { return "OK " + shex(static_cast<int>(Convert::To<E>(text))); }, "EXC-FROM:");
		if (e2.rfind("EXC-FROM:", 0) == 0) e2 += ":" + fmt_units<TSym>(text);
		return e2;
	}
	return "BAD-OP";
}

template <class E> static std::string handle(const std::vector<std::string>& t) {
	const std::string& op = t[0];
	if (op == "reg") return "REG " + dump<E>();
	if (t.size() < 5) return "BAD-CASE";
	if (t[3] != dump<E>()) return "REGDRIFT";
	if (op == "svn" || op == "ldn" || op == "mp") {
		if (op == "ldn" && t.size() < 6) return "BAD-CASE";
		return guarded([&] { return t[1] == "m" ? arch<MsgPackArchive, E>(op, t) : arch<JsonArchive, E>(op, t); });
	}
	const std::string& w = t[1];
	if (w == "8") return conv<E, char>(op, t);
	if (w == "16") return conv<E, char16_t>(op, t);
	if (w == "32") return conv<E, char32_t>(op, t);
	if (w == "w") return conv<E, wchar_t>(op, t);
	return "BAD-WIDTH";
}

int main() {
	static_assert(sizeof(wchar_t) == 4 && std::is_signed_v<wchar_t> && std::is_signed_v<char>, "the model assumes a signed char and a signed 32-bit wchar_t");
	std::ios::sync_with_stdio(false);
	std::string line;
	while (std::getline(std::cin, line)) {
		auto t = vh::split(line);
		std::string out;
		if (t[0] == "tl" && t.size() == 2) out = shex(std::tolower((int)parse_shex(t[1])));
		else if (t.size() < 2) out = "BAD-CASE";
		else {
			const std::string& id = t[0] == "reg" ? t[1] : (t.size() > 2 ? t[2] : t[1]);
			if (id == "plain") out = handle<Plain>(t);
			else if (id == "mixed") out = handle<Mixed>(t);
			else if (id == "dup") out = handle<Dup>(t);
			else if (id == "utf") out = handle<Utf>(t);
			else if (id == "edge") out = handle<Edge>(t);
			else if (id == "unreg") out = handle<Unreg>(t);
			else out = "BAD-REGISTRY";
		}
		std::cout << out << "\n" << std::flush;
	}
	return 0;
}
