// Fault-injection driver of C20 (built with ASan + LSan + UBSan by vlib.build_cpp).
// Every case runs in a forked child; the parent reports how the child ended.
//
//   mpmap <hex>                LoadObject<MsgPackArchive>(std::map<std::string,int>&, bytes)      (model-comparable)
//   csvrows <w1,w2,...>        SaveObject<CsvArchive>(vector<map<string,int>>) with these row widths (hex; model-comparable)
//   list                       -> names of the scenarios of the catalogue, space separated
//   scen <name> count          -> N <input length> <allocations> <stream bytes>     (sizes of the fault axes)
//   scen <name> plain          no fault
//   scen <name> trunc <k>      input cut to its first k bytes                               (load scenarios)
//   scen <name> alloc <k>      the k-th operator new inside the operation throws std::bad_alloc
//   scen <name> sfail <k>      the underlying streambuf fails (returns eof) from byte k on   (stream scenarios)
//   scen <name> sthrow <k>     the underlying streambuf throws from byte k on; the stream has exceptions(badbit)
//
// Answer: OK | EXC(<category>) | TERMINATE | LEAK(<what happened before>) | CRASH(<signal or sanitizer>) | NA
// (NA = the axis does not apply to the scenario).  k is decimal.
#include "common.h"
#include "inv_entities.h"
#include <csignal>
#include <cstring>
#include <execinfo.h>
#include <fcntl.h>
#include <functional>
#include <new>
#include <regex>
#include <sanitizer/common_interface_defs.h>
#include <sys/wait.h>
#include <unistd.h>

using namespace inv;

// ---------------------------------------------------------------------------------------------- allocation faults
static bool g_armed = false;          // inside the operation under test
static long g_allocs = 0;             // operator new calls while armed
static long g_fail_at = 0;            // 1-based index of the allocation that fails (0 = none)

static void* inv_alloc(std::size_t n) {
	if (g_armed) {
		++g_allocs;
		if (g_fail_at != 0 && g_allocs == g_fail_at) throw std::bad_alloc();
	}
	void* p = std::malloc(n ? n : 1);
	if (!p) throw std::bad_alloc();
	return p;
}
static void* inv_alloc_aligned(std::size_t n, std::size_t al) {
	if (g_armed) {
		++g_allocs;
		if (g_fail_at != 0 && g_allocs == g_fail_at) throw std::bad_alloc();
	}
	void* p = nullptr;
	if (posix_memalign(&p, al < sizeof(void*) ? sizeof(void*) : al, n ? n : 1) != 0) throw std::bad_alloc();
	return p;
}
void* operator new(std::size_t n) { return inv_alloc(n); }
void* operator new[](std::size_t n) { return inv_alloc(n); }
void* operator new(std::size_t n, const std::nothrow_t&) noexcept { try { return inv_alloc(n); } catch (...) { return nullptr; } }
void* operator new[](std::size_t n, const std::nothrow_t&) noexcept { try { return inv_alloc(n); } catch (...) { return nullptr; } }
void* operator new(std::size_t n, std::align_val_t al) { return inv_alloc_aligned(n, static_cast<std::size_t>(al)); }
void* operator new[](std::size_t n, std::align_val_t al) { return inv_alloc_aligned(n, static_cast<std::size_t>(al)); }
void operator delete(void* p) noexcept { std::free(p); }
void operator delete[](void* p) noexcept { std::free(p); }
void operator delete(void* p, std::size_t) noexcept { std::free(p); }
void operator delete[](void* p, std::size_t) noexcept { std::free(p); }
void operator delete(void* p, const std::nothrow_t&) noexcept { std::free(p); }
void operator delete[](void* p, const std::nothrow_t&) noexcept { std::free(p); }
void operator delete(void* p, std::align_val_t) noexcept { std::free(p); }
void operator delete[](void* p, std::align_val_t) noexcept { std::free(p); }
void operator delete(void* p, std::size_t, std::align_val_t) noexcept { std::free(p); }
void operator delete[](void* p, std::size_t, std::align_val_t) noexcept { std::free(p); }

// ---------------------------------------------------------------------------------------------- stream faults
struct StreamFault { int mode = 0; long at = -1; long bytes = 0; };   // mode 0 none, 1 fail, 2 throw
static StreamFault g_sf;

struct FaultError : std::runtime_error { FaultError() : std::runtime_error("injected stream fault") {} };

// input: a get area over the first `at` bytes of the data (all of it when no fault is armed); an attempt to read
// byte `at` throws.  std::istream catches it and sets badbit; in mode 2 the stream has exceptions(badbit) and
// rethrows to the library, in mode 1 the library only sees a short read with badbit set.
class FaultyInBuf : public std::streambuf {
public:
	explicit FaultyInBuf(const std::string& data) : mData(data) {
		mLimit = (g_sf.mode != 0 && g_sf.at >= 0 && static_cast<size_t>(g_sf.at) < data.size()) ? static_cast<size_t>(g_sf.at) : data.size();
		char* b = const_cast<char*>(mData.data());
		setg(b, b, b + mLimit);
	}
protected:
	int_type underflow() override {
		if (gptr() < egptr()) return traits_type::to_int_type(*gptr());
		if (mLimit < mData.size()) throw FaultError();
		return traits_type::eof();
	}
	pos_type seekoff(off_type off, std::ios_base::seekdir dir, std::ios_base::openmode) override {
		const off_type cur = gptr() - eback();
		const off_type base = dir == std::ios_base::beg ? 0 : dir == std::ios_base::cur ? cur : static_cast<off_type>(mData.size());
		const off_type np = base + off;
		if (np < 0 || np > static_cast<off_type>(mLimit)) return pos_type(off_type(-1));
		setg(eback(), eback() + np, egptr());
		return pos_type(np);
	}
	pos_type seekpos(pos_type p, std::ios_base::openmode m) override { return seekoff(off_type(p), std::ios_base::beg, m); }
private:
	const std::string& mData;
	size_t mLimit = 0;
};

// output: collects bytes; from byte g_sf.at on it refuses (mode 1) or throws (mode 2)
class FaultyOutBuf : public std::streambuf {
public:
	std::string data;
protected:
	int_type overflow(int_type c) override {
		if (traits_type::eq_int_type(c, traits_type::eof())) return traits_type::not_eof(c);
		if (g_sf.mode != 0 && g_sf.bytes >= g_sf.at) {
			if (g_sf.mode == 2) throw FaultError();
			return traits_type::eof();
		}
		data.push_back(traits_type::to_char_type(c));
		++g_sf.bytes;
		return c;
	}
	std::streamsize xsputn(const char* s, std::streamsize n) override {
		std::streamsize put = 0;
		while (put < n) {
			if (traits_type::eq_int_type(overflow(traits_type::to_int_type(s[put])), traits_type::eof())) break;
			++put;
		}
		return put;
	}
};

// ---------------------------------------------------------------------------------------------- scenarios
struct Ctx { std::string input; bool truncated = false; };

struct Scenario {
	const char* name;
	bool load;            // has an input that can be truncated
	bool stream;          // goes through a std::istream / std::ostream
	std::function<std::string()> make_input;                    // golden input (load scenarios)
	std::function<void(const std::string& input)> run;          // the operation under test
};

template <class TArchive, class T> static std::string save_str(T obj) { std::string out; SaveObject<TArchive>(obj, out); return out; }

template <class TArchive, class T> static std::string save_enc(T obj, Convert::Utf::UtfType enc) {
	std::ostringstream os; SerializationOptions o; o.streamOptions.encoding = enc; o.streamOptions.writeBom = true; SaveObject<TArchive>(obj, os, o); return os.str();
}
template <class TArchive, class T> static void load_mem(const std::string& in) { T obj{}; LoadObject<TArchive>(obj, in); }
template <class TArchive, class T> static void load_stream(const std::string& in) {
	FaultyInBuf buf(in); std::istream is(&buf);
	if (g_sf.mode == 2) is.exceptions(std::ios_base::badbit);
	T obj{}; LoadObject<TArchive>(obj, is);
}
template <class TArchive, class T> static void save_mem(T obj) { std::string out; SaveObject<TArchive>(obj, out); }
template <class TArchive, class T> static void save_stream(T obj) {
	FaultyOutBuf buf; std::ostream os(&buf);
	if (g_sf.mode == 2) os.exceptions(std::ios_base::badbit);
	SaveObject<TArchive>(obj, os);
}

static SerializationOptions skip_opts() {
	SerializationOptions o; o.mismatchedTypesPolicy = MismatchedTypesPolicy::Skip; o.overflowNumberPolicy = OverflowNumberPolicy::Skip; return o;
}

using RaggedRows = std::vector<std::map<std::string, int>>;
static RaggedRows ragged() { return { { { "a", 1 }, { "b", 2 } }, { { "a", 3 } } }; }
static std::vector<Row> bad_utf_rows() { auto r = make_rows(1); r[2].name = "bad \xC3\x28 utf \xFF"; return r; }
static Doc bad_utf_doc() { Doc d = make_doc(2); d.text = "bad \xC3\x28 utf \xFF"; return d; }

static std::vector<Scenario> catalogue() {
	std::vector<Scenario> s;
	auto doc = [] { return make_doc(3); };
	auto rows = [] { return make_rows(3); };
	// ---- round-trip documents, four archives, memory and stream, load and save
	s.push_back({ "mp_load_mem", true, false, [=] { return save_str<MsgPackArchive>(doc()); }, [](const std::string& in) { load_mem<MsgPackArchive, Doc>(in); } });
	s.push_back({ "mp_load_stream", true, true, [=] { return save_str<MsgPackArchive>(doc()); }, [](const std::string& in) { load_stream<MsgPackArchive, Doc>(in); } });
	s.push_back({ "mp_save_mem", false, false, nullptr, [=](const std::string&) { save_mem<MsgPackArchive>(doc()); } });
	s.push_back({ "mp_save_stream", false, true, nullptr, [=](const std::string&) { save_stream<MsgPackArchive>(doc()); } });
	s.push_back({ "csv_load_mem", true, false, [=] { return save_str<CsvArchive>(rows()); }, [](const std::string& in) { load_mem<CsvArchive, std::vector<Row>>(in); } });
	s.push_back({ "csv_load_stream", true, true, [=] { auto r = rows(); r[1].name = "plain"; return save_str<CsvArchive>(r); }, [](const std::string& in) { load_stream<CsvArchive, std::vector<Row>>(in); } });
	s.push_back({ "csv_load_stream_quoted", true, true, [=] { return save_str<CsvArchive>(rows()); }, [](const std::string& in) { load_stream<CsvArchive, std::vector<Row>>(in); } });
	s.push_back({ "csv_save_mem", false, false, nullptr, [=](const std::string&) { save_mem<CsvArchive>(rows()); } });
	s.push_back({ "csv_save_stream", false, true, nullptr, [=](const std::string&) { save_stream<CsvArchive>(rows()); } });
	s.push_back({ "json_load_mem", true, false, [=] { return save_str<JsonArchive>(doc()); }, [](const std::string& in) { load_mem<JsonArchive, Doc>(in); } });
	s.push_back({ "json_load_stream", true, true, [=] { return save_str<JsonArchive>(doc()); }, [](const std::string& in) { load_stream<JsonArchive, Doc>(in); } });
	s.push_back({ "json_save_mem", false, false, nullptr, [=](const std::string&) { save_mem<JsonArchive>(doc()); } });
	s.push_back({ "json_save_stream", false, true, nullptr, [=](const std::string&) { save_stream<JsonArchive>(doc()); } });
	s.push_back({ "xml_load_mem", true, false, [=] { return save_str<XmlArchive>(doc()); }, [](const std::string& in) { load_mem<XmlArchive, Doc>(in); } });
	s.push_back({ "xml_load_stream", true, true, [=] { return save_str<XmlArchive>(doc()); }, [](const std::string& in) { load_stream<XmlArchive, Doc>(in); } });
	s.push_back({ "xml_save_mem", false, false, nullptr, [=](const std::string&) { save_mem<XmlArchive>(doc()); } });
	s.push_back({ "xml_save_stream", false, true, nullptr, [=](const std::string&) { save_stream<XmlArchive>(doc()); } });
	// ---- encoded text streams whose characters take several bytes: a stream that fails between the bytes of one character
	auto astral_rows = [] { auto r = make_rows(3); for (auto& x : r) { std::string n; for (int i = 0; i < 60 + x.id; ++i) n += "\xF0\x9F\x98\x80"; x.name = n; } return r; };      // surrogate pairs straddle the 256-byte chunk boundaries of the reader
	s.push_back({ "csv_u16_astral_load_stream", true, true, [=] { return save_enc<CsvArchive>(astral_rows(), Convert::Utf::UtfType::Utf16le); }, [](const std::string& in) { load_stream<CsvArchive, std::vector<Row>>(in); } });
	s.push_back({ "csv_u16_load_stream", true, true, [=] { return save_enc<CsvArchive>(rows(), Convert::Utf::UtfType::Utf16le); }, [](const std::string& in) { load_stream<CsvArchive, std::vector<Row>>(in); } });
	s.push_back({ "csv_u32_load_stream", true, true, [=] { return save_enc<CsvArchive>(rows(), Convert::Utf::UtfType::Utf32be); }, [](const std::string& in) { load_stream<CsvArchive, std::vector<Row>>(in); } });
	s.push_back({ "json_u16_load_stream", true, true, [=] { return save_enc<JsonArchive>(doc(), Convert::Utf::UtfType::Utf16be); }, [](const std::string& in) { load_stream<JsonArchive, Doc>(in); } });
	s.push_back({ "xml_u16_load_stream", true, true, [=] { return save_enc<XmlArchive>(doc(), Convert::Utf::UtfType::Utf16le); }, [](const std::string& in) { load_stream<XmlArchive, Doc>(in); } });
	// ---- byte containers (MsgPack bin): as the last member, as the root, as elements; the payload is written byte by byte
	s.push_back({ "mp_bin_save_stream", false, true, nullptr, [](const std::string&) { save_stream<MsgPackArchive>(make_bindoc(3)); } });
	s.push_back({ "mp_bin_save_mem", false, false, nullptr, [](const std::string&) { save_mem<MsgPackArchive>(make_bindoc(3)); } });
	s.push_back({ "mp_binroot_save_stream", false, true, nullptr, [](const std::string&) { save_stream<MsgPackArchive>(make_bindoc(5).blob); } });
	s.push_back({ "mp_bin_load_mem", true, false, [] { return save_str<MsgPackArchive>(make_bindoc(3)); }, [](const std::string& in) { load_mem<MsgPackArchive, BinDoc>(in); } });
	s.push_back({ "mp_bin_load_stream", true, true, [] { return save_str<MsgPackArchive>(make_bindoc(3)); }, [](const std::string& in) { load_stream<MsgPackArchive, BinDoc>(in); } });
	s.push_back({ "json_bin_save_stream", false, true, nullptr, [](const std::string&) { save_stream<JsonArchive>(make_bindoc(3)); } });
	// ---- owning members (unique_ptr / shared_ptr / optional of classes and containers, also as elements): a load that throws
	//      (truncation, allocation failure, stream failure) must not leak the objects created for loading
	auto odoc = [] { return make_owner_doc(5); };
	s.push_back({ "mp_owner_mem", true, false, [=] { return save_str<MsgPackArchive>(odoc()); }, [](const std::string& in) { load_mem<MsgPackArchive, OwnerDoc>(in); } });
	s.push_back({ "mp_owner_stream", true, true, [=] { return save_str<MsgPackArchive>(odoc()); }, [](const std::string& in) { load_stream<MsgPackArchive, OwnerDoc>(in); } });
	s.push_back({ "json_owner_mem", true, false, [=] { return save_str<JsonArchive>(odoc()); }, [](const std::string& in) { load_mem<JsonArchive, OwnerDoc>(in); } });
	s.push_back({ "xml_owner_mem", true, false, [=] { return save_str<XmlArchive>(odoc()); }, [](const std::string& in) { load_mem<XmlArchive, OwnerDoc>(in); } });
	s.push_back({ "mp_owner_save", false, false, nullptr, [=](const std::string&) { save_mem<MsgPackArchive>(odoc()); } });
	// ---- containers at the root
	s.push_back({ "mp_map_mem", true, false, [] { return save_str<MsgPackArchive>(std::map<std::string, int>{ { "a", 1 }, { "bb", 2 }, { "ccc", 3 } }); },
		[](const std::string& in) { load_mem<MsgPackArchive, std::map<std::string, int>>(in); } });
	s.push_back({ "mp_map_stream", true, true, [] { return save_str<MsgPackArchive>(std::map<std::string, int>{ { "a", 1 }, { "bb", 2 }, { "ccc", 3 } }); },
		[](const std::string& in) { load_stream<MsgPackArchive, std::map<std::string, int>>(in); } });
	s.push_back({ "mp_vec_mem", true, false, [] { return save_str<MsgPackArchive>(std::vector<Inner>{ { 1, "x" }, { 2, "yy" }, { 3, "zzz" } }); },
		[](const std::string& in) { load_mem<MsgPackArchive, std::vector<Inner>>(in); } });
	s.push_back({ "json_vec_mem", true, false, [] { return save_str<JsonArchive>(std::vector<Inner>{ { 1, "x" }, { 2, "yy" }, { 3, "zzz" } }); },
		[](const std::string& in) { load_mem<JsonArchive, std::vector<Inner>>(in); } });
	// ---- loads that fail on their own: validation, mismatched types (fail policy), and the same under Skip
	s.push_back({ "mp_validation", true, false, [=] { return save_str<MsgPackArchive>(doc()); }, [](const std::string& in) { load_mem<MsgPackArchive, ValidatedDoc>(in); } });
	s.push_back({ "json_validation", true, false, [=] { return save_str<JsonArchive>(doc()); }, [](const std::string& in) { load_mem<JsonArchive, ValidatedDoc>(in); } });
	s.push_back({ "xml_validation", true, false, [=] { return save_str<XmlArchive>(doc()); }, [](const std::string& in) { load_mem<XmlArchive, ValidatedDoc>(in); } });
	s.push_back({ "mp_mismatch", true, false, [] { return save_str<MsgPackArchive>(WrongDoc{}); }, [](const std::string& in) { load_mem<MsgPackArchive, Doc>(in); } });
	s.push_back({ "json_mismatch", true, false, [] { return save_str<JsonArchive>(WrongDoc{}); }, [](const std::string& in) { load_mem<JsonArchive, Doc>(in); } });
	s.push_back({ "mp_mismatch_skip", true, false, [] { return save_str<MsgPackArchive>(WrongDoc{}); },
		[](const std::string& in) { Doc d; LoadObject<MsgPackArchive>(d, in, skip_opts()); } });
	// ---- errors the library detects in the middle of a save
	s.push_back({ "csv_ragged_mem", false, false, nullptr, [](const std::string&) { save_mem<CsvArchive>(ragged()); } });
	s.push_back({ "csv_ragged_stream", false, true, nullptr, [](const std::string&) { save_stream<CsvArchive>(ragged()); } });
	s.push_back({ "csv_badutf_stream", false, true, nullptr, [](const std::string&) {
		FaultyOutBuf buf; std::ostream os(&buf); if (g_sf.mode == 2) os.exceptions(std::ios_base::badbit);
		SerializationOptions o; o.streamOptions.encoding = Convert::Utf::UtfType::Utf16le; auto r = bad_utf_rows(); SaveObject<CsvArchive>(r, os, o); } });
	s.push_back({ "json_badutf_stream", false, true, nullptr, [](const std::string&) {
		FaultyOutBuf buf; std::ostream os(&buf); if (g_sf.mode == 2) os.exceptions(std::ios_base::badbit);
		SerializationOptions o; o.streamOptions.encoding = Convert::Utf::UtfType::Utf16le; auto d = bad_utf_doc(); SaveObject<JsonArchive>(d, os, o); } });
	s.push_back({ "xml_badutf_mem", false, false, nullptr, [](const std::string&) { save_mem<XmlArchive>(bad_utf_doc()); } });
	s.push_back({ "mp_unreg_enum", false, false, nullptr, [](const std::string&) { save_mem<MsgPackArchive>(WithUnreg{}); } });
	s.push_back({ "json_unreg_enum", false, false, nullptr, [](const std::string&) { save_mem<JsonArchive>(WithUnreg{}); } });
	s.push_back({ "csv_bad_separator", false, false, nullptr, [=](const std::string&) {
		SerializationOptions o; o.valuesSeparator = '#'; std::string out; auto r = rows(); SaveObject<CsvArchive>(r, out, o); } });
	return s;
}

// ---------------------------------------------------------------------------------------------- child / parent
static int g_result_fd = -1;

static void write_all(int fd, const std::string& s) { size_t o = 0; while (o < s.size()) { ssize_t w = ::write(fd, s.data() + o, s.size() - o); if (w <= 0) break; o += static_cast<size_t>(w); } }

[[noreturn]] static void on_terminate() {
	g_armed = false;
	// result = TERMINATE + the raw return addresses of the stack; the parent (same address space layout, it forked us)
	// symbolises them once and caches, which is much cheaper than symbolising in every child
	void* pcs[64];
	int n = backtrace(pcs, 64);
	std::string r = "TERMINATE";
	char b[32];
	for (int i = 0; i < n; ++i) { std::snprintf(b, sizeof b, " %p", pcs[i]); r += b; }
	write_all(g_result_fd, r);
	_exit(0);
}

static const std::string& symbolize(const std::string& pc) {
	static std::map<std::string, std::string> cache;
	auto it = cache.find(pc);
	if (it != cache.end()) return it->second;
	char buf[2048];
	buf[0] = 0;
	void* addr = reinterpret_cast<void*>(std::strtoull(pc.c_str(), nullptr, 16) - 1);   // return address -> call site
	__sanitizer_symbolize_pc(addr, "%f", buf, sizeof buf);
	return cache.emplace(pc, buf).first->second;
}

// "ret<T> ns::f<U>(args) const"  ->  "ns::f"
static std::string simplify_frame(const std::string& fr) {
	static const std::regex ops("operator(\\(\\)|<<=?|>>=?|<=|>=|<|>|->\\*?)");
	std::string t = std::regex_replace(fr, ops, "operator#");
	std::string q;
	int depth = 0;
	for (char c : t) {
		if (c == '<') { ++depth; continue; }
		if (c == '>') { if (depth > 0) --depth; continue; }
		if (depth > 0) continue;
		if (c == '(') break;
		q += c;
	}
	while (!q.empty() && q.back() == ' ') q.pop_back();
	size_t sp = q.rfind(' ');
	if (sp != std::string::npos) q = q.substr(sp + 1);
	return q;
}

// which destructor let the exception out: walking up from the throw, the first frame that is a destructor (X::~X)
// or the reset of the std::optional that owns a scope object; else the innermost library function
static std::string attribute_terminate(const std::string& res) {
	auto pcs = vh::split(res);
	std::string who = "?", first_lib;
	int nlib = 0;
	bool below_throw = true;
	bool has_throw = false;
	std::vector<std::string> frames;
	for (size_t i = 1; i < pcs.size(); ++i) frames.push_back(symbolize(pcs[i]));
	for (auto& f : frames) if (f.find("__cxa_throw") != std::string::npos || f.find("__cxa_rethrow") != std::string::npos) has_throw = true;
	for (auto& fr : frames) {
		if (has_throw && below_throw) {
			if (fr.find("__cxa_throw") != std::string::npos || fr.find("__cxa_rethrow") != std::string::npos) below_throw = false;
			continue;
		}
		if (fr == "main") break;
		size_t q = fr.find("::~");
		if (q != std::string::npos) {
			size_t e = q + 3;
			while (e < fr.size() && (std::isalnum(static_cast<unsigned char>(fr[e])) || fr[e] == '_')) ++e;
			const std::string name = fr.substr(q + 2, e - q - 2);
			if (name.rfind("~_Optional", 0) == 0 || name == "~optional") continue;    // libstdc++ wrappers around the scope object
			who = name;
			break;
		}
		if (fr.find("_Optional_payload") != std::string::npos && (fr.find("_M_reset") != std::string::npos || fr.find("_M_destroy") != std::string::npos)) {
			static const std::regex re("BitSerializer::(?:\\w+::)*(\\w+)");
			std::smatch m;
			if (std::regex_search(fr, m, re)) { who = "~" + m[1].str(); break; }
		}
		// no destructor yet: remember the chain of library functions (last two name components each, innermost first)
		if (nlib < 6) {
			const std::string q = simplify_frame(fr);
			if (q.rfind("BitSerializer::", 0) == 0) {
				size_t c2 = q.rfind("::");
				size_t c1 = c2 == std::string::npos || c2 == 0 ? std::string::npos : q.rfind("::", c2 - 1);
				std::string shortq = c1 == std::string::npos ? q : q.substr(c1 + 2);
				if (first_lib.find(shortq) == std::string::npos) { first_lib += (nlib ? " <- " : "in ") + shortq; ++nlib; }
			}
		}
	}
	if (who == "?" && !first_lib.empty()) who = first_lib;
	return "TERMINATE(" + who + ")";
}

// runs `op` in a forked child; returns the answer line
static std::string in_child(const std::function<std::string()>& op) {
	int rp[2];
	if (pipe(rp) != 0) return "CRASH(pipe)";
	char errname[] = "/tmp/inv_fault_err_XXXXXX";
	int efd = mkstemp(errname);
	if (efd >= 0) unlink(errname);
	std::cout.flush();
	pid_t pid = fork();
	if (pid < 0) return "CRASH(fork)";
	if (pid == 0) {
		close(rp[0]);
		g_result_fd = rp[1];
		if (efd >= 0) dup2(efd, 2);
		std::set_terminate(on_terminate);
		alarm(6);
		std::string r = op();
		write_all(g_result_fd, r);
		close(g_result_fd);
		std::exit(0);       // normal exit: LeakSanitizer runs now
	}
	close(rp[1]);
	std::string res; char buf[256]; ssize_t n;
	while ((n = ::read(rp[0], buf, sizeof buf)) > 0) res.append(buf, static_cast<size_t>(n));
	close(rp[0]);
	int st = 0; waitpid(pid, &st, 0);
	std::string err;
	if (efd >= 0) { lseek(efd, 0, SEEK_SET); while ((n = ::read(efd, buf, sizeof buf)) > 0 && err.size() < 65536) err.append(buf, static_cast<size_t>(n)); close(efd); }
	if (res.rfind("TERMINATE", 0) == 0) return attribute_terminate(res);
	auto san = [&]() -> std::string {
		size_t p;
		if ((p = err.find("AddressSanitizer: ")) != std::string::npos) { size_t e = err.find_first_of(" \n", p + 18); return "asan:" + err.substr(p + 18, e - p - 18); }
		if ((p = err.find("runtime error: ")) != std::string::npos) { size_t e = err.find('\n', p); return "ubsan:" + err.substr(p + 15, std::min<size_t>(60, e - p - 15)); }
		return "";
	};
	if (WIFSIGNALED(st)) {
		int sg = WTERMSIG(st);
		if (sg == SIGALRM) return "HANG";
		std::string s = san();
		return "CRASH(" + (s.empty() ? "signal " + std::to_string(sg) : s) + ")";
	}
	int code = WEXITSTATUS(st);
	if (code != 0) {
		if (err.find("LeakSanitizer: detected memory leaks") != std::string::npos) return "LEAK(" + (res.empty() ? std::string("?") : res) + ")";
		std::string s = san();
		return "CRASH(" + (s.empty() ? "exit " + std::to_string(code) : s) + (res.empty() ? "" : " after " + res) + ")";
	}
	return res.empty() ? "CRASH(no result)" : res;
}

static std::string guarded(const std::function<void()>& f) {
	std::string r = "OK";
	g_allocs = 0; g_sf.bytes = 0;
	g_armed = true;
	try { f(); }
	catch (...) { g_armed = false; r = current_exception_name(); }
	g_armed = false;
	return r;
}

int main() {
	std::ios::sync_with_stdio(false);
	const auto scenarios = catalogue();
	std::string line;
	while (std::getline(std::cin, line)) {
		auto t = vh::split(line);
		std::string ans = "UNSUPPORTED";
		if (t[0] == "mpmap" && t.size() == 2) {
			const std::string in = vh::parse_hex(t[1]);
			ans = in_child([&] { return guarded([&] { std::map<std::string, int> m; LoadObject<MsgPackArchive>(m, in); }); });
		}
		else if (t[0] == "csvrows" && t.size() == 2) {
			RaggedRows rows;
			for (auto w : vh::parse_list(t[1])) { std::map<std::string, int> r; for (vh::U i = 0; i < w; ++i) r["k" + std::to_string(i)] = static_cast<int>(i); rows.push_back(r); }
			ans = in_child([&] { return guarded([&] { std::string out; SaveObject<CsvArchive>(rows, out); }); });
		}
		else if (t[0] == "list") {
			ans.clear();
			for (auto& s : scenarios) { if (!ans.empty()) ans += ' '; ans += s.name; ans += s.load ? (s.stream ? ":ls" : ":lm") : (s.stream ? ":ss" : ":sm"); }
		}
		else if (t[0] == "scen" && t.size() >= 3) {
			const Scenario* sc = nullptr;
			for (auto& s : scenarios) if (t[1] == s.name) sc = &s;
			const std::string axis = t[2];
			const long k = t.size() >= 4 ? std::atol(t[3].c_str()) : 0;
			if (!sc) ans = "UNSUPPORTED";
			else if ((axis == "trunc" && !sc->load) || ((axis == "sfail" || axis == "sthrow") && !sc->stream)) ans = "NA";
			else {
				ans = in_child([&]() -> std::string {
					std::string input = sc->make_input ? sc->make_input() : std::string();
					if (axis == "count") {
						g_fail_at = 0; g_sf = StreamFault{};
						std::string r = guarded([&] { sc->run(input); });
						return "N " + std::to_string(input.size()) + " " + std::to_string(g_allocs) + " " + std::to_string(sc->load ? static_cast<long>(input.size()) : g_sf.bytes) + " " + r;
					}
					g_fail_at = 0; g_sf = StreamFault{};
					if (axis == "trunc") input.resize(std::min<size_t>(input.size(), static_cast<size_t>(k)));
					else if (axis == "alloc") g_fail_at = k;
					else if (axis == "sfail") { g_sf.mode = 1; g_sf.at = k; }
					else if (axis == "sthrow") { g_sf.mode = 2; g_sf.at = k; }
					else if (axis != "plain") return "UNSUPPORTED";
					return guarded([&] { sc->run(input); });
				});
			}
		}
		std::cout << ans << "\n";
		std::cout.flush();
	}
	return 0;
}
