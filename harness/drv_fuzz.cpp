// Robustness driver for C02: arbitrary bytes into every loader / string converter.
//   load <arch> <target#> <m|s> <pol> <hexdata>     arch: mp csv json xml ; pol: two letters (mismatch, overflow) T|S
//   conv <kind> <hextext>                            kind: i8 u8 i16 u16 i32 u32 i64 u64 f32 f64 bool tp_ns tp_s tp_d dur_ns dur_s time_t enum
// Answer: OK | EXC:<category>   (anything else — CRASH / SANITIZER / TERMINATE / HANG — is produced by the harness
// from the way the process dies: that is the property violation)
#include "common.h"
#include <csignal>
#include <cstring>
#include <sstream>
#include <unistd.h>
#include <chrono>
#include "bitserializer/bit_serializer.h"
#include "bitserializer/msgpack_archive.h"
#include "bitserializer/csv_archive.h"
#include "bitserializer/rapidjson_archive.h"
#include "bitserializer/pugixml_archive.h"
#include "bitserializer/types/std/vector.h"
#include "bitserializer/types/std/map.h"
#include "bitserializer/types/std/optional.h"
#include "bitserializer/types/std/tuple.h"
#include "bitserializer/types/std/pair.h"
#include "bitserializer/types/std/array.h"
#include "bitserializer/types/std/chrono.h"
#include "bitserializer/types/std/ctime.h"
#include "bitserializer/types/std/memory.h"
#include "bitserializer/types/std/set.h"
#include "bitserializer/types/std/list.h"

using namespace BitSerializer;
using MsgPack::MsgPackArchive;
using Csv::CsvArchive;
using Json::RapidJson::JsonArchive;
using Xml::PugiXml::XmlArchive;

enum class Color { Red, Green, Blue };
REGISTER_ENUM(Color, { { Color::Red, "Red" }, { Color::Green, "Green" }, { Color::Blue, "Blue" } })

struct Inner {
	int a = 0; std::string s;
	template <class T> void Serialize(T& ar) { ar << KeyValue("a", a) << KeyValue("s", s); }
};
struct Flat {   // also usable as a CSV row
	int id = 0; std::string name; double score = 0; bool flag = false;
	template <class T> void Serialize(T& ar) { ar << KeyValue("id", id) << KeyValue("name", name) << KeyValue("score", score) << KeyValue("flag", flag); }
};
struct Outer {
	int8_t i8 = 0; uint64_t u64 = 0; float f = 0; std::string str; std::u16string wstr;
	std::vector<int> vec; std::map<std::string, int> mp; Inner inner; std::vector<Inner> inners;
	std::optional<int> opt; std::unique_ptr<Inner> ptr; std::tuple<int, std::string> tup; std::array<int, 3> arr{};
	std::chrono::system_clock::time_point tp; std::chrono::seconds dur{}; Color color = Color::Red; std::vector<uint8_t> bytes;
	template <class T> void Serialize(T& ar) {
		ar << KeyValue("i8", i8) << KeyValue("u64", u64) << KeyValue("f", f) << KeyValue("str", str) << KeyValue("wstr", wstr)
		   << KeyValue("vec", vec) << KeyValue("mp", mp) << KeyValue("inner", inner) << KeyValue("inners", inners)
		   << KeyValue("opt", opt) << KeyValue("ptr", ptr) << KeyValue("tup", tup) << KeyValue("arr", arr)
		   << KeyValue("tp", tp) << KeyValue("dur", dur) << KeyValue("color", color);
		if constexpr (T::is_binary) { ar << KeyValue("bytes", bytes); }
	}
};

static std::string cat_of_current_exception() {
	try { throw; }
	catch (const SerializationException& e) { return "SER" + std::to_string(static_cast<int>(e.GetErrorCode())); }
	catch (const std::invalid_argument&) { return "IA"; }
	catch (const std::out_of_range&) { return "OOR"; }
	catch (const std::bad_alloc&) { return "BADALLOC"; }
	catch (const std::length_error&) { return "LENGTH"; }
	catch (const std::exception&) { return "STD"; }
	catch (...) { return "NONSTD"; }   // not derived from std::exception: a violation, reported by the check
}

template <class TArchive, class T>
static void load_one(const std::string& data, bool stream, const SerializationOptions& opt) {
	T target{};
	if (stream) { std::istringstream is(data); LoadObject<TArchive>(target, is, opt); }
	else LoadObject<TArchive>(target, data, opt);
}

template <class TArchive, bool RootScalars = true>
static bool load_target(int tgt, const std::string& data, bool stream, const SerializationOptions& opt) {
	if constexpr (RootScalars) {
		switch (tgt) {
		case 0: load_one<TArchive, int>(data, stream, opt); return true;
		case 1: load_one<TArchive, std::string>(data, stream, opt); return true;
		case 8: load_one<TArchive, double>(data, stream, opt); return true;
		default: break;
		}
	}
	switch (tgt) {
	case 2: load_one<TArchive, std::vector<int>>(data, stream, opt); return true;
	case 3: load_one<TArchive, std::vector<std::string>>(data, stream, opt); return true;
	case 4: load_one<TArchive, std::map<std::string, int>>(data, stream, opt); return true;
	case 5: load_one<TArchive, Outer>(data, stream, opt); return true;
	case 6: load_one<TArchive, std::vector<Inner>>(data, stream, opt); return true;
	case 7: load_one<TArchive, std::vector<std::vector<std::map<std::string, std::vector<int>>>>>(data, stream, opt); return true;
	case 9: load_one<TArchive, std::tuple<int, std::string, std::vector<int>>>(data, stream, opt); return true;
	default: return false;
	}
}

static bool load_csv(int tgt, const std::string& data, bool stream, const SerializationOptions& opt) {
	switch (tgt) {
	case 0: load_one<CsvArchive, std::vector<Flat>>(data, stream, opt); return true;
	case 1: load_one<CsvArchive, std::list<Flat>>(data, stream, opt); return true;
	case 2: load_one<CsvArchive, std::vector<Inner>>(data, stream, opt); return true;
	default: return false;
	}
}

template <class T> static void conv_one(const std::string& text) { (void)Convert::To<T>(text); }

static bool conv(const std::string& kind, const std::string& text) {
	using namespace std::chrono;
	if (kind == "i8") conv_one<int8_t>(text); else if (kind == "u8") conv_one<uint8_t>(text);
	else if (kind == "i16") conv_one<int16_t>(text); else if (kind == "u16") conv_one<uint16_t>(text);
	else if (kind == "i32") conv_one<int32_t>(text); else if (kind == "u32") conv_one<uint32_t>(text);
	else if (kind == "i64") conv_one<int64_t>(text); else if (kind == "u64") conv_one<uint64_t>(text);
	else if (kind == "f32") conv_one<float>(text); else if (kind == "f64") conv_one<double>(text);
	else if (kind == "bool") conv_one<bool>(text);
	else if (kind == "tp_ns") conv_one<time_point<system_clock, nanoseconds>>(text);
	else if (kind == "tp_s") conv_one<time_point<system_clock, seconds>>(text);
	else if (kind == "tp_d") conv_one<time_point<system_clock, duration<int64_t, std::ratio<86400>>>>(text);
	else if (kind == "dur_ns") conv_one<nanoseconds>(text);
	else if (kind == "dur_s") conv_one<seconds>(text);
	else if (kind == "dur_h32") conv_one<duration<int32_t, std::ratio<3600>>>(text);
	else if (kind == "time_t") conv_one<CRawTime>(text);
	else if (kind == "enum") conv_one<Color>(text);
	else if (kind == "u16s") { std::u16string w; for (unsigned char c : text) w.push_back(c); (void)Convert::To<int>(w); }
	else return false;
	return true;
}

static void on_terminate() { const char m[] = "TERMINATE\n"; (void)!write(2, m, sizeof m - 1); _exit(3); }
static void on_alarm(int) { const char m[] = "HANG\n"; (void)!write(2, m, sizeof m - 1); _exit(4); }

int main() {
	std::ios::sync_with_stdio(false);
	std::set_terminate(on_terminate);
	std::signal(SIGALRM, on_alarm);
	std::string line;
	while (std::getline(std::cin, line)) {
		auto t = vh::split(line);
		alarm(10);
		try {
			bool known = true;
			if (t.at(0) == "load") {
				SerializationOptions opt;
				opt.mismatchedTypesPolicy = t.at(4).at(0) == 'T' ? MismatchedTypesPolicy::ThrowError : MismatchedTypesPolicy::Skip;
				opt.overflowNumberPolicy = t.at(4).at(1) == 'T' ? OverflowNumberPolicy::ThrowError : OverflowNumberPolicy::Skip;
				if (t.at(4).size() > 2 && t.at(4).at(2) == 'S') opt.utfEncodingErrorPolicy = Convert::Utf::UtfEncodingErrorPolicy::Skip;
				const std::string data = vh::parse_hex(t.at(5));
				const int tgt = std::stoi(t.at(2));
				const bool stream = t.at(3) == "s";
				const std::string& a = t.at(1);
				if (a == "mp") known = load_target<MsgPackArchive>(tgt, data, stream, opt);
				else if (a == "json") known = load_target<JsonArchive>(tgt, data, stream, opt);
				else if (a == "xml") known = load_target<XmlArchive, false>(tgt, data, stream, opt);
				else if (a == "csv") known = load_csv(tgt, data, stream, opt);
				else known = false;
			}
			else if (t.at(0) == "conv") known = conv(t.at(1), vh::parse_hex(t.at(2)));
			else known = false;
			alarm(0);
			std::cout << (known ? "OK" : "UNSUPPORTED") << std::endl;
		} catch (...) {
			alarm(0);
			std::cout << "EXC:" << cat_of_current_exception() << std::endl;
		}
	}
	return 0;
}
