// Correspondence / validation driver for the jx family (C08, JSON/XML half of C01).
// Public API only: BitSerializer::SaveObject / LoadObject on JsonArchive (RapidJSON) and XmlArchive (pugixml).
//
//   jx.save <json|xml> <cfg> <type#> <rootkey|-> <value>          -> OK <hex bytes> | EXC:<category> | UNSUPPORTED
//   jx.load <json|xml> <mem|stream> <type#> <rootkey|-> <pol> <hex bytes>  -> OK <value> | EXC:<category> | UNSUPPORTED
//   jx.rt   <json|xml> <cfg> <type#> <rootkey|-> <value>          -> <save answer> | <load answer>   (load from the same medium, fresh target)
//
//   jx.val  <json|xml> <mem|stream> <vclass#> <pol> <hex bytes>      -> OK | VAL <hex path>:<codes>;.. | EXC:<category>
//           loads a class with validators (vcatalogue in coq/JxPathModel.v); the map of the ValidationException in its own order
//           (std::map: by path); codes: R = Required, G = Range(0, 9), one letter per message in order of arrival
// cfg  = <mem|stream>:<utf8|utf16le|utf16be|utf32le|utf32be>:<bom 0|1>:<c | s<count> | t<count>>   (compact / pretty with spaces / tabs)
// pol  = two letters: mismatched types policy, overflow policy (T = ThrowError, S = Skip)
// value, one token:  n | t | f | i<decimal> | d<16 hex digits: IEEE bits> | s<hex of the UTF-8 bytes> | [v,..] | {s<hex>:v,..}
// type# indexes the catalogue below, the same list as [catalogue] in coq/JxModel.v.
#include "common.h"
#include <cstring>
#include <map>
#include <memory>
#include <optional>
#include <sstream>
#include "bitserializer/bit_serializer.h"
#include "bitserializer/rapidjson_archive.h"
#include "bitserializer/pugixml_archive.h"
#include "bitserializer/types/std/map.h"
#include "bitserializer/types/std/memory.h"
#include "bitserializer/types/std/optional.h"
#include "bitserializer/types/std/vector.h"

using namespace BitSerializer;
using JsonArchive = BitSerializer::Json::RapidJson::JsonArchive;
using XmlArchive = BitSerializer::Xml::PugiXml::XmlArchive;

// ------------------------------------------------------------------ value trees
struct Tree {
	enum Kind { Null, Bool, Int, Dbl, Str, Arr, Obj, None, Some, Flt, Enum } k = Null;
	bool b = false; bool neg = false; uint64_t mag = 0; uint64_t bits = 0; std::string s;
	std::vector<Tree> a;
	std::vector<std::pair<std::string, Tree>> m;
};
struct Syntax { const char* what; };

struct Parser {
	const std::string& s; size_t pos = 0;
	char peek() const { return pos < s.size() ? s[pos] : '\0'; }
	static bool is_hex(char c) { return (c >= '0' && c <= '9') || (c >= 'a' && c <= 'f'); }
	std::string hexstr() {
		size_t st = pos;
		while (is_hex(peek())) ++pos;
		if ((pos - st) % 2) throw Syntax{"hex"};
		return vh::parse_hex(pos == st ? "-" : s.substr(st, pos - st));
	}
	Tree value() {
		Tree t;
		switch (peek()) {
		case 'n': ++pos; t.k = Tree::Null; return t;
		case 't': ++pos; t.k = Tree::Bool; t.b = true; return t;
		case 'f': ++pos; t.k = Tree::Bool; t.b = false; return t;
		case 'i': {
			++pos; t.k = Tree::Int;
			if (peek() == '-') { t.neg = true; ++pos; }
			size_t st = pos;
			while (peek() >= '0' && peek() <= '9') ++pos;
			if (pos == st) throw Syntax{"int"};
			t.mag = std::strtoull(s.substr(st, pos - st).c_str(), nullptr, 10);
			if (t.mag == 0) t.neg = false;
			return t; }
		case 'd': {
			++pos; size_t st = pos;
			while (is_hex(peek())) ++pos;
			if (pos - st != 16) throw Syntax{"double"};
			t.k = Tree::Dbl; t.bits = std::strtoull(s.substr(st, 16).c_str(), nullptr, 16); return t; }
		case 's': ++pos; t.k = Tree::Str; t.s = hexstr(); return t;
		case 'g': {
			++pos; size_t st = pos;
			while (is_hex(peek())) ++pos;
			if (pos - st != 16) throw Syntax{"float"};
			t.k = Tree::Flt; t.bits = std::strtoull(s.substr(st, 16).c_str(), nullptr, 16); return t; }
		case 'e': {
			++pos; size_t st = pos;
			while (peek() >= '0' && peek() <= '9') ++pos;
			if (pos == st) throw Syntax{"enum"};
			t.k = Tree::Enum; t.mag = std::strtoull(s.substr(st, pos - st).c_str(), nullptr, 10); return t; }
		case 'o': {
			++pos;
			if (peek() == '-') { ++pos; t.k = Tree::None; return t; }
			if (peek() != '+') throw Syntax{"optional"};
			++pos; t.k = Tree::Some; t.a.push_back(value()); return t; }
		case '[': {
			++pos; t.k = Tree::Arr;
			if (peek() == ']') { ++pos; return t; }
			t.a.push_back(value());
			while (peek() == ',') { ++pos; t.a.push_back(value()); }
			if (peek() != ']') throw Syntax{"]"};
			++pos; return t; }
		case '{': {
			++pos; t.k = Tree::Obj;
			if (peek() == '}') { ++pos; return t; }
			for (;;) {
				if (peek() != 's') throw Syntax{"key"};
				++pos; std::string key = hexstr();
				if (peek() != ':') throw Syntax{":"};
				++pos; t.m.emplace_back(key, value());
				if (peek() == ',') { ++pos; continue; }
				break;
			}
			if (peek() != '}') throw Syntax{"}"};
			++pos; return t; }
		default: throw Syntax{"value"};
		}
	}
};

static std::string hexs(const std::string& b) { return b.empty() ? std::string() : vh::fmt_hex(b); }

// ------------------------------------------------------------------ catalogue classes
struct Inner {
	int32_t x = 0; std::string name;
	template <class A> void Serialize(A& a) { a << KeyValue("x", x); a << KeyValue("name", name); }
};
struct Mix {
	bool b = false; int8_t i8 = 0; uint8_t u8 = 0; int16_t i16 = 0; uint16_t u16 = 0; int32_t i32 = 0; uint32_t u32 = 0;
	int64_t i64 = 0; uint64_t u64 = 0; double d = 0; std::string s; std::nullptr_t n = nullptr;
	std::vector<int32_t> vi; std::vector<std::string> vs; std::map<std::string, std::string> ms;
	Inner inner; std::vector<Inner> inners; std::vector<std::vector<int32_t>> vv;
	template <class A> void Serialize(A& a) {
		a << KeyValue("b", b); a << KeyValue("i8", i8); a << KeyValue("u8", u8); a << KeyValue("i16", i16); a << KeyValue("u16", u16);
		a << KeyValue("i32", i32); a << KeyValue("u32", u32); a << KeyValue("i64", i64); a << KeyValue("u64", u64);
		a << KeyValue("d", d); a << KeyValue("s", s); a << KeyValue("n", n);
		a << KeyValue("vi", vi); a << KeyValue("vs", vs); a << KeyValue("ms", ms);
		a << KeyValue("inner", inner); a << KeyValue("inners", inners); a << KeyValue("vv", vv);
	}
};
struct Attr {   // XML only
	int32_t a = 0; std::string s; bool b = false; uint64_t u = 0; int32_t v = 0; std::string t;
	template <class A> void Serialize(A& ar) {
		ar << AttributeValue("a", a); ar << AttributeValue("s", s); ar << AttributeValue("b", b); ar << AttributeValue("u", u);
		ar << KeyValue("v", v); ar << KeyValue("t", t);
	}
};

enum class Colour { Red, Green, DarkBlue };
REGISTER_ENUM(Colour, {
	{ Colour::Red, "Red" },
	{ Colour::Green, "green" },
	{ Colour::DarkBlue, "Dark Blue&<" }
})

struct OptC {   // optional / smart pointer members, float, enum, vector<bool>, char
	std::optional<int32_t> oi; std::optional<std::string> os; std::unique_ptr<std::vector<int32_t>> uv; std::shared_ptr<Inner> sp;
	float f = 0; Colour e = Colour::Red; std::vector<bool> vb; char c = 0;
	template <class A> void Serialize(A& a) {
		a << KeyValue("oi", oi); a << KeyValue("os", os); a << KeyValue("uv", uv); a << KeyValue("sp", sp);
		a << KeyValue("f", f); a << KeyValue("e", e); a << KeyValue("vb", vb); a << KeyValue("c", c);
	}
};

struct AttrNum {   // XML only: numbers of every width and a bool as attributes
	int8_t i8 = 0; uint8_t u8 = 0; int16_t i16 = 0; uint32_t u32 = 0; int64_t i64 = 0; bool b = false; double d = 0;
	template <class A> void Serialize(A& ar) {
		ar << AttributeValue("i8", i8); ar << AttributeValue("u8", u8); ar << AttributeValue("i16", i16); ar << AttributeValue("u32", u32);
		ar << AttributeValue("i64", i64); ar << AttributeValue("b", b); ar << AttributeValue("d", d);
	}
};
struct AttrOnly {   // XML only: attributes and no element member (the pattern of the documentation's CPoint / CRectangle)
	int32_t x = 0; std::string type;
	template <class A> void Serialize(A& ar) { ar << AttributeValue("x", x); ar << AttributeValue("type", type); }
};

template <class T> struct is_optional_like : std::false_type {};
template <class T> struct is_optional_like<std::optional<T>> : std::true_type {};
template <class T> struct is_optional_like<std::unique_ptr<T>> : std::true_type {};
template <class T> struct is_optional_like<std::shared_ptr<T>> : std::true_type {};

template <class T> struct is_attr : std::false_type {};
template <> struct is_attr<Attr> : std::true_type {};
template <> struct is_attr<AttrOnly> : std::true_type {};
template <> struct is_attr<AttrNum> : std::true_type {};
template <class T> struct is_attr<std::vector<T>> : is_attr<T> {};
template <class T> struct is_attr<std::map<std::string, T>> : is_attr<T> {};

// ------------------------------------------------------------------ Tree <-> C++ values
struct BadValue {};

static void fill(std::nullptr_t&, const Tree& t) { if (t.k != Tree::Null) throw BadValue{}; }
static void fill(bool& v, const Tree& t) { if (t.k != Tree::Bool) throw BadValue{}; v = t.b; }
template <class T, std::enable_if_t<std::is_integral_v<T> && !std::is_same_v<T, bool>, int> = 0>
static void fill(T& v, const Tree& t) {
	if (t.k != Tree::Int) throw BadValue{};
	if (t.neg) {
		if (!std::is_signed_v<T>) throw BadValue{};
		const uint64_t lim = static_cast<uint64_t>(std::numeric_limits<T>::max()) + 1;
		if (t.mag > lim) throw BadValue{};
		v = static_cast<T>(0 - t.mag);
	} else {
		if (t.mag > static_cast<uint64_t>(std::numeric_limits<T>::max())) throw BadValue{};
		v = static_cast<T>(t.mag);
	}
}
static void fill(double& v, const Tree& t) { if (t.k != Tree::Dbl) throw BadValue{}; std::memcpy(&v, &t.bits, 8); }
// a float is given by (and shown as) the IEEE bits of the same number as a double
static void fill(float& v, const Tree& t) { if (t.k != Tree::Flt) throw BadValue{}; double d; std::memcpy(&d, &t.bits, 8); v = static_cast<float>(d); }
static void fill(Colour& v, const Tree& t) { if (t.k != Tree::Enum || t.mag > 2) throw BadValue{}; v = static_cast<Colour>(t.mag); }
static void fill(char& v, const Tree& t) {
	if (t.k != Tree::Int) throw BadValue{};
	if (t.neg) { if (t.mag > 128) throw BadValue{}; v = static_cast<char>(static_cast<signed char>(0 - static_cast<int>(t.mag))); }
	else { if (t.mag > 127) throw BadValue{}; v = static_cast<char>(t.mag); }
}
static void fill(OptC& v, const Tree& t);
template <class T> static void fill(std::optional<T>& v, const Tree& t);
template <class T> static void fill(std::unique_ptr<T>& v, const Tree& t);
template <class T> static void fill(std::shared_ptr<T>& v, const Tree& t);
static void fill(std::vector<bool>& v, const Tree& t) {
	if (t.k != Tree::Arr) throw BadValue{};
	v.clear();
	for (auto& e : t.a) { if (e.k != Tree::Bool) throw BadValue{}; v.push_back(e.b); }
}
static void fill(std::string& v, const Tree& t) { if (t.k != Tree::Str) throw BadValue{}; v = t.s; }
// the driver's own UTF-8 <-> UTF-16/32 (not the library's): values are valid UTF-8 by construction
static std::vector<uint32_t> cps_of_utf8(const std::string& s) {
	std::vector<uint32_t> r;
	for (size_t i = 0; i < s.size();) {
		unsigned char c = s[i];
		int n = c < 0x80 ? 1 : c < 0xE0 ? 2 : c < 0xF0 ? 3 : 4;
		uint32_t v = n == 1 ? c : n == 2 ? (c & 0x1F) : n == 3 ? (c & 0x0F) : (c & 0x07);
		for (int k = 1; k < n && i + k < s.size(); ++k) v = (v << 6) | (static_cast<unsigned char>(s[i + k]) & 0x3F);
		r.push_back(v); i += n;
	}
	return r;
}
template <class TStr> static void fill_wide(TStr& v, const Tree& t) {
	if (t.k != Tree::Str) throw BadValue{};
	v.clear();
	for (uint32_t c : cps_of_utf8(t.s)) {
		if (sizeof(typename TStr::value_type) == 2 && c >= 0x10000) {
			v.push_back(static_cast<typename TStr::value_type>(0xD800 + ((c - 0x10000) >> 10)));
			v.push_back(static_cast<typename TStr::value_type>(0xDC00 + ((c - 0x10000) & 0x3FF)));
		} else v.push_back(static_cast<typename TStr::value_type>(c));
	}
}
static void fill(std::u16string& v, const Tree& t) { fill_wide(v, t); }
static void fill(std::u32string& v, const Tree& t) { fill_wide(v, t); }
static void fill(std::wstring& v, const Tree& t) { fill_wide(v, t); }
static void fill(Inner& v, const Tree& t);
static void fill(Mix& v, const Tree& t);
static void fill(Attr& v, const Tree& t);
static void fill(AttrOnly& v, const Tree& t);
static void fill(AttrNum& v, const Tree& t);
template <class T> static void fill(std::vector<T>& v, const Tree& t);
template <class T> static void fill(std::optional<T>& v, const Tree& t) {
	if (t.k == Tree::None) { v.reset(); return; }
	if (t.k != Tree::Some) throw BadValue{};
	T x{}; fill(x, t.a[0]); v = std::move(x);
}
template <class T> static void fill(std::unique_ptr<T>& v, const Tree& t) {
	if (t.k == Tree::None) { v.reset(); return; }
	if (t.k != Tree::Some) throw BadValue{};
	v = std::make_unique<T>(); fill(*v, t.a[0]);
}
template <class T> static void fill(std::shared_ptr<T>& v, const Tree& t) {
	if (t.k == Tree::None) { v.reset(); return; }
	if (t.k != Tree::Some) throw BadValue{};
	v = std::make_shared<T>(); fill(*v, t.a[0]);
}
template <class T> static void fill(std::map<std::string, T>& v, const Tree& t) {
	if (t.k != Tree::Obj) throw BadValue{};
	v.clear();
	for (auto& kv : t.m) { T x{}; fill(x, kv.second); v.emplace(kv.first, std::move(x)); }
}
template <class T> static void fill(std::vector<T>& v, const Tree& t) {
	if (t.k != Tree::Arr) throw BadValue{};
	v.clear();
	for (auto& e : t.a) { T x{}; fill(x, e); v.push_back(std::move(x)); }
}
static const Tree& member(const Tree& t, size_t i, const char* name) {
	if (t.k != Tree::Obj || i >= t.m.size() || t.m[i].first != name) throw BadValue{};
	return t.m[i].second;
}
static void fill(Inner& v, const Tree& t) { fill(v.x, member(t, 0, "x")); fill(v.name, member(t, 1, "name")); if (t.m.size() != 2) throw BadValue{}; }
static void fill(Mix& v, const Tree& t) {
	size_t i = 0;
	fill(v.b, member(t, i++, "b")); fill(v.i8, member(t, i++, "i8")); fill(v.u8, member(t, i++, "u8")); fill(v.i16, member(t, i++, "i16"));
	fill(v.u16, member(t, i++, "u16")); fill(v.i32, member(t, i++, "i32")); fill(v.u32, member(t, i++, "u32")); fill(v.i64, member(t, i++, "i64"));
	fill(v.u64, member(t, i++, "u64")); fill(v.d, member(t, i++, "d")); fill(v.s, member(t, i++, "s")); fill(v.n, member(t, i++, "n"));
	fill(v.vi, member(t, i++, "vi")); fill(v.vs, member(t, i++, "vs")); fill(v.ms, member(t, i++, "ms")); fill(v.inner, member(t, i++, "inner"));
	fill(v.inners, member(t, i++, "inners")); fill(v.vv, member(t, i++, "vv"));
	if (t.m.size() != i) throw BadValue{};
}
static void fill(Attr& v, const Tree& t) {
	size_t i = 0;
	fill(v.a, member(t, i++, "a")); fill(v.s, member(t, i++, "s")); fill(v.b, member(t, i++, "b")); fill(v.u, member(t, i++, "u"));
	fill(v.v, member(t, i++, "v")); fill(v.t, member(t, i++, "t"));
	if (t.m.size() != i) throw BadValue{};
}

static void fill(OptC& v, const Tree& t) {
	size_t i = 0;
	fill(v.oi, member(t, i++, "oi")); fill(v.os, member(t, i++, "os")); fill(v.uv, member(t, i++, "uv")); fill(v.sp, member(t, i++, "sp"));
	fill(v.f, member(t, i++, "f")); fill(v.e, member(t, i++, "e")); fill(v.vb, member(t, i++, "vb")); fill(v.c, member(t, i++, "c"));
	if (t.m.size() != i) throw BadValue{};
}
static void fill(AttrNum& v, const Tree& t) {
	size_t i = 0;
	fill(v.i8, member(t, i++, "i8")); fill(v.u8, member(t, i++, "u8")); fill(v.i16, member(t, i++, "i16")); fill(v.u32, member(t, i++, "u32"));
	fill(v.i64, member(t, i++, "i64")); fill(v.b, member(t, i++, "b")); fill(v.d, member(t, i++, "d"));
	if (t.m.size() != i) throw BadValue{};
}
static void fill(AttrOnly& v, const Tree& t) { fill(v.x, member(t, 0, "x")); fill(v.type, member(t, 1, "type")); if (t.m.size() != 2) throw BadValue{}; }

static std::string dump(const std::nullptr_t&) { return "n"; }
static std::string dump(const bool& v) { return v ? "t" : "f"; }
template <class T, std::enable_if_t<std::is_integral_v<T> && !std::is_same_v<T, bool>, int> = 0>
static std::string dump(const T& v) { return "i" + std::to_string(v); }
static std::string dump(const double& v) { uint64_t b; std::memcpy(&b, &v, 8); char buf[32]; std::snprintf(buf, sizeof buf, "d%016llx", (unsigned long long)b); return buf; }
static std::string dump(const std::string& v) { return "s" + hexs(v); }
static std::string dump(const float& v) { const double d = v; uint64_t b; std::memcpy(&b, &d, 8); char buf[32]; std::snprintf(buf, sizeof buf, "g%016llx", (unsigned long long)b); return buf; }
static std::string dump(const Colour& v) { return "e" + std::to_string(static_cast<int>(v)); }
static std::string dump(const char& v) { return "i" + std::to_string(static_cast<int>(v)); }
static std::string dump(const OptC& v);
static std::string dump(const Inner& v);
template <class T> static std::string dump(const std::vector<T>& v);
template <class T> static std::string dump(const std::optional<T>& v) { return v.has_value() ? "o+" + dump(*v) : std::string("o-"); }
template <class T> static std::string dump(const std::unique_ptr<T>& v) { return v ? "o+" + dump(*v) : std::string("o-"); }
template <class T> static std::string dump(const std::shared_ptr<T>& v) { return v ? "o+" + dump(*v) : std::string("o-"); }
static std::string dump(const std::vector<bool>& v) {
	std::string r = "["; bool first = true;
	for (bool e : v) { if (!first) r += ","; first = false; r += e ? "t" : "f"; }
	return r + "]";
}
// wide strings are shown as the UTF-8 of their code units read as UTF-16 / UTF-32 (a lone surrogate or a value above
// 0x10FFFF is shown as an over-long / out-of-range UTF-8-style sequence, never matching a valid expectation)
template <class TStr> static std::string dump_wide(const TStr& v) {
	std::string r;
	auto put = [&r](uint32_t c) {
		if (c < 0x80) r.push_back((char)c);
		else if (c < 0x800) { r.push_back((char)(0xC0 | (c >> 6))); r.push_back((char)(0x80 | (c & 0x3F))); }
		else if (c < 0x10000) { r.push_back((char)(0xE0 | (c >> 12))); r.push_back((char)(0x80 | ((c >> 6) & 0x3F))); r.push_back((char)(0x80 | (c & 0x3F))); }
		else { r.push_back((char)(0xF0 | ((c >> 18) & 0x07))); r.push_back((char)(0x80 | ((c >> 12) & 0x3F))); r.push_back((char)(0x80 | ((c >> 6) & 0x3F))); r.push_back((char)(0x80 | (c & 0x3F))); }
	};
	for (size_t i = 0; i < v.size(); ++i) {
		uint32_t c = static_cast<uint32_t>(v[i]);
		if (sizeof(typename TStr::value_type) == 2 && c >= 0xD800 && c <= 0xDBFF && i + 1 < v.size()) {
			uint32_t d = static_cast<uint32_t>(v[i + 1]);
			if (d >= 0xDC00 && d <= 0xDFFF) { put(0x10000 + ((c - 0xD800) << 10) + (d - 0xDC00)); ++i; continue; }
		}
		put(c);
	}
	return "s" + hexs(r);
}
static std::string dump(const std::u16string& v) { return dump_wide(v); }
static std::string dump(const std::u32string& v) { return dump_wide(v); }
static std::string dump(const std::wstring& v) { return dump_wide(v); }
static std::string dump(const Inner& v);
static std::string dump(const Mix& v);
static std::string dump(const Attr& v);
static std::string dump(const AttrOnly& v);
static std::string dump(const AttrNum& v);
template <class T> static std::string dump(const std::map<std::string, T>& v);
template <class T> static std::string dump(const std::vector<T>& v) {
	std::string r = "["; bool first = true;
	for (const auto& e : v) { if (!first) r += ","; first = false; r += dump(e); }
	return r + "]";
}
template <class T> static std::string dump(const std::map<std::string, T>& v) {
	std::string r = "{"; bool first = true;
	for (const auto& kv : v) { if (!first) r += ","; first = false; r += "s" + hexs(kv.first) + ":" + dump(kv.second); }
	return r + "}";
}
static std::string key(const char* k) { return "s" + hexs(k) + ":"; }
static std::string dump(const Inner& v) { return "{" + key("x") + dump(v.x) + "," + key("name") + dump(v.name) + "}"; }
static std::string dump(const Mix& v) {
	return "{" + key("b") + dump(v.b) + "," + key("i8") + dump(v.i8) + "," + key("u8") + dump(v.u8) + "," + key("i16") + dump(v.i16) + "," +
		key("u16") + dump(v.u16) + "," + key("i32") + dump(v.i32) + "," + key("u32") + dump(v.u32) + "," + key("i64") + dump(v.i64) + "," +
		key("u64") + dump(v.u64) + "," + key("d") + dump(v.d) + "," + key("s") + dump(v.s) + "," + key("n") + dump(v.n) + "," +
		key("vi") + dump(v.vi) + "," + key("vs") + dump(v.vs) + "," + key("ms") + dump(v.ms) + "," + key("inner") + dump(v.inner) + "," +
		key("inners") + dump(v.inners) + "," + key("vv") + dump(v.vv) + "}";
}
static std::string dump(const Attr& v) {
	return "{" + key("a") + dump(v.a) + "," + key("s") + dump(v.s) + "," + key("b") + dump(v.b) + "," + key("u") + dump(v.u) + "," +
		key("v") + dump(v.v) + "," + key("t") + dump(v.t) + "}";
}

static std::string dump(const OptC& v) {
	return "{" + key("oi") + dump(v.oi) + "," + key("os") + dump(v.os) + "," + key("uv") + dump(v.uv) + "," + key("sp") + dump(v.sp) + "," +
		key("f") + dump(v.f) + "," + key("e") + dump(v.e) + "," + key("vb") + dump(v.vb) + "," + key("c") + dump(v.c) + "}";
}
static std::string dump(const AttrNum& v) {
	return "{" + key("i8") + dump(v.i8) + "," + key("u8") + dump(v.u8) + "," + key("i16") + dump(v.i16) + "," + key("u32") + dump(v.u32) + "," +
		key("i64") + dump(v.i64) + "," + key("b") + dump(v.b) + "," + key("d") + dump(v.d) + "}";
}
static std::string dump(const AttrOnly& v) { return "{" + key("x") + dump(v.x) + "," + key("type") + dump(v.type) + "}"; }

// ------------------------------------------------------------------ configuration
struct Cfg { bool stream = false; Convert::Utf::UtfType enc = Convert::Utf::UtfType::Utf8; bool bom = false; bool pretty = false; char pad = ' '; uint16_t count = 0; };

static Cfg parse_cfg(const std::string& s) {
	auto p = vh::split(s, ':');
	if (p.size() != 4) throw Syntax{"cfg"};
	Cfg c;
	if (p[0] == "stream") c.stream = true; else if (p[0] != "mem") throw Syntax{"cfg medium"};
	if (p[1] == "utf8") c.enc = Convert::Utf::UtfType::Utf8;
	else if (p[1] == "utf16le") c.enc = Convert::Utf::UtfType::Utf16le;
	else if (p[1] == "utf16be") c.enc = Convert::Utf::UtfType::Utf16be;
	else if (p[1] == "utf32le") c.enc = Convert::Utf::UtfType::Utf32le;
	else if (p[1] == "utf32be") c.enc = Convert::Utf::UtfType::Utf32be;
	else throw Syntax{"cfg encoding"};
	c.bom = p[2] == "1";
	if (p[3] == "c") c.pretty = false;
	else if (!p[3].empty() && (p[3][0] == 's' || p[3][0] == 't')) { c.pretty = true; c.pad = p[3][0] == 's' ? ' ' : '\t'; c.count = (uint16_t)std::stoul(p[3].substr(1)); }
	else throw Syntax{"cfg format"};
	return c;
}

static SerializationOptions options_of(const Cfg& c) {
	SerializationOptions o;
	o.streamOptions.encoding = c.enc;
	o.streamOptions.writeBom = c.bom;
	o.formatOptions.enableFormat = c.pretty;
	o.formatOptions.paddingChar = c.pad;
	o.formatOptions.paddingCharNum = c.count;
	return o;
}

static const char* code_name(SerializationErrorCode c) {
	switch (c) {
	case SerializationErrorCode::InvalidOptions: return "InvalidOptions";
	case SerializationErrorCode::ParsingError: return "ParsingError";
	case SerializationErrorCode::InputOutputError: return "InputOutputError";
	case SerializationErrorCode::UnsupportedEncoding: return "UnsupportedEncoding";
	case SerializationErrorCode::UtfEncodingError: return "UtfEncodingError";
	case SerializationErrorCode::OutOfRange: return "OutOfRange";
	case SerializationErrorCode::Overflow: return "Overflow";
	case SerializationErrorCode::MismatchedTypes: return "MismatchedTypes";
	case SerializationErrorCode::FailedValidation: return "FailedValidation";
	case SerializationErrorCode::UnregisteredEnum: return "UnregisteredEnum";
	}
	return "?";
}

template <class F> static std::string guarded(F f) {
	try { return f(); }
	catch (const SerializationException& e) { return std::string("EXC:") + code_name(e.GetErrorCode()); }
	catch (const std::invalid_argument&) { return "EXC:invalid_argument"; }
	catch (const std::out_of_range&) { return "EXC:out_of_range"; }
	catch (const std::exception&) { return "EXC:other"; }
}

// ------------------------------------------------------------------ typed operations
template <class TArchive, class T> constexpr bool supported() {
	constexpr bool is_xml = std::is_same_v<TArchive, XmlArchive>;
	constexpr bool scalar = std::is_fundamental_v<T> || std::is_same_v<T, std::nullptr_t> || std::is_same_v<T, std::string> ||
		std::is_same_v<T, std::u16string> || std::is_same_v<T, std::u32string> || std::is_same_v<T, std::wstring> ||
		std::is_enum_v<T> || is_optional_like<T>::value;     // an empty optional at the root would be a nullptr at the root
	if (is_xml) return !scalar;            // the XML root scope serialises arrays and objects only
	return !is_attr<T>::value;             // attributes exist in XML only
}

template <class TArchive, class T>
static std::string do_save(const Cfg& cfg, const std::string& rootkey, const T& obj, std::string& bytes) {
	return guarded([&]() -> std::string {
		const auto o = options_of(cfg);
		if (cfg.stream) {
			std::stringstream ss(std::ios::in | std::ios::out | std::ios::binary);
			if constexpr (std::is_same_v<TArchive, XmlArchive>) {
				if (rootkey != "-") SaveObject<TArchive>(KeyValue(rootkey, obj), ss, o); else SaveObject<TArchive>(obj, ss, o);
			} else SaveObject<TArchive>(obj, ss, o);
			bytes = ss.str();
		} else {
			if constexpr (std::is_same_v<TArchive, XmlArchive>) {
				if (rootkey != "-") SaveObject<TArchive>(KeyValue(rootkey, obj), bytes, o); else SaveObject<TArchive>(obj, bytes, o);
			} else SaveObject<TArchive>(obj, bytes, o);
		}
		return "OK " + vh::fmt_hex(bytes);
	});
}

template <class TArchive, class T>
static std::string do_load(bool stream, const std::string& rootkey, const std::string& pol, const std::string& bytes) {
	// the target lives outside the lambda: with g++ 12 -O1 -fsanitize=address,undefined a smart-pointer target declared inside it was
	// not destroyed when LoadObject threw (LeakSanitizer report; not reproducible at -O0, with asan alone, or in a small program)
	T obj{};
	return guarded([&]() -> std::string {
		SerializationOptions o;
		o.mismatchedTypesPolicy = pol.size() > 0 && pol[0] == 'S' ? MismatchedTypesPolicy::Skip : MismatchedTypesPolicy::ThrowError;
		o.overflowNumberPolicy = pol.size() > 1 && pol[1] == 'S' ? OverflowNumberPolicy::Skip : OverflowNumberPolicy::ThrowError;
		if (stream) {
			std::istringstream is(bytes, std::ios::in | std::ios::binary);
			if constexpr (std::is_same_v<TArchive, XmlArchive>) {
				if (rootkey != "-") LoadObject<TArchive>(KeyValue(rootkey, obj), is, o); else LoadObject<TArchive>(obj, is, o);
			} else LoadObject<TArchive>(obj, is, o);
		} else {
			if constexpr (std::is_same_v<TArchive, XmlArchive>) {
				if (rootkey != "-") LoadObject<TArchive>(KeyValue(rootkey, obj), bytes, o); else LoadObject<TArchive>(obj, bytes, o);
			} else LoadObject<TArchive>(obj, bytes, o);
		}
		return "OK " + dump(obj);
	});
}

template <class TArchive, class T>
static std::string run_typed(const std::vector<std::string>& t) {
	if constexpr (!supported<TArchive, T>()) return "UNSUPPORTED";
	else {
		const std::string& op = t[0];
		if (op == "jx.load") {
			if (t.size() != 7) return "BAD-CASE";
			return do_load<TArchive, T>(t[2] == "stream", t[4], t[5], vh::parse_hex(t[6]));
		}
		if (t.size() != 6) return "BAD-CASE";
		const Cfg cfg = parse_cfg(t[2]);
		Parser p{t[5]};
		Tree tree = p.value();
		if (p.pos != t[5].size()) throw Syntax{"trailing"};
		T obj{};
		try { fill(obj, tree); } catch (const BadValue&) { return "BAD-VALUE"; }
		std::string bytes;
		std::string r = do_save<TArchive, T>(cfg, t[4], obj, bytes);
		if (op == "jx.save") return r;
		// jx.rt: load what was produced, from the same kind of medium
		if (r.compare(0, 2, "OK") != 0) return r + " | -";
		return r + " | " + do_load<TArchive, T>(cfg.stream, t[4], "TT", bytes);
	}
}

template <class TArchive>
static std::string run_arch(const std::vector<std::string>& t) {
	const int idx = std::atoi(t[3].c_str());
	using VS = std::vector<std::string>;
	switch (idx) {
	case 0: return run_typed<TArchive, std::nullptr_t>(t);
	case 1: return run_typed<TArchive, bool>(t);
	case 2: return run_typed<TArchive, int8_t>(t);
	case 3: return run_typed<TArchive, uint8_t>(t);
	case 4: return run_typed<TArchive, int16_t>(t);
	case 5: return run_typed<TArchive, uint16_t>(t);
	case 6: return run_typed<TArchive, int32_t>(t);
	case 7: return run_typed<TArchive, uint32_t>(t);
	case 8: return run_typed<TArchive, int64_t>(t);
	case 9: return run_typed<TArchive, uint64_t>(t);
	case 10: return run_typed<TArchive, double>(t);
	case 11: return run_typed<TArchive, std::string>(t);
	case 12: return run_typed<TArchive, std::vector<int32_t>>(t);
	case 13: return run_typed<TArchive, std::vector<uint32_t>>(t);
	case 14: return run_typed<TArchive, std::vector<int64_t>>(t);
	case 15: return run_typed<TArchive, std::vector<uint64_t>>(t);
	case 16: return run_typed<TArchive, std::vector<double>>(t);
	case 17: return run_typed<TArchive, VS>(t);
	case 18: return run_typed<TArchive, std::vector<std::nullptr_t>>(t);
	case 19: return run_typed<TArchive, std::vector<std::vector<int32_t>>>(t);
	case 20: return run_typed<TArchive, std::vector<VS>>(t);
	case 21: return run_typed<TArchive, std::vector<std::map<std::string, int32_t>>>(t);
	case 22: return run_typed<TArchive, std::map<std::string, bool>>(t);
	case 23: return run_typed<TArchive, std::map<std::string, int32_t>>(t);
	case 24: return run_typed<TArchive, std::map<std::string, uint64_t>>(t);
	case 25: return run_typed<TArchive, std::map<std::string, double>>(t);
	case 26: return run_typed<TArchive, std::map<std::string, std::string>>(t);
	case 27: return run_typed<TArchive, std::map<std::string, std::vector<int32_t>>>(t);
	case 28: return run_typed<TArchive, std::map<std::string, std::map<std::string, std::string>>>(t);
	case 29: return run_typed<TArchive, Inner>(t);
	case 30: return run_typed<TArchive, Mix>(t);
	case 31: return run_typed<TArchive, std::vector<Inner>>(t);
	case 32: return run_typed<TArchive, std::map<std::string, Inner>>(t);
	case 33: return run_typed<TArchive, Attr>(t);
	case 34: return run_typed<TArchive, std::vector<Attr>>(t);
	case 35: return run_typed<TArchive, AttrOnly>(t);
	case 36: return run_typed<TArchive, std::vector<AttrOnly>>(t);
	case 37: return run_typed<TArchive, std::u16string>(t);
	case 38: return run_typed<TArchive, std::u32string>(t);
	case 39: return run_typed<TArchive, std::wstring>(t);
	case 40: return run_typed<TArchive, std::vector<std::u16string>>(t);
	case 41: return run_typed<TArchive, std::map<std::string, std::u32string>>(t);
	case 42: return run_typed<TArchive, std::vector<bool>>(t);
	case 43: return run_typed<TArchive, float>(t);
	case 44: return run_typed<TArchive, std::vector<float>>(t);
	case 45: return run_typed<TArchive, std::map<std::string, float>>(t);
	case 46: return run_typed<TArchive, Colour>(t);
	case 47: return run_typed<TArchive, std::vector<Colour>>(t);
	case 48: return run_typed<TArchive, std::map<std::string, Colour>>(t);
	case 49: return run_typed<TArchive, char>(t);
	case 50: return run_typed<TArchive, std::vector<char>>(t);
	case 51: return run_typed<TArchive, std::optional<int32_t>>(t);
	case 52: return run_typed<TArchive, std::optional<std::string>>(t);
	case 53: return run_typed<TArchive, std::vector<std::optional<int32_t>>>(t);
	case 54: return run_typed<TArchive, std::vector<std::optional<std::string>>>(t);
	case 55: return run_typed<TArchive, std::map<std::string, std::optional<double>>>(t);
	case 56: return run_typed<TArchive, std::unique_ptr<std::vector<int32_t>>>(t);
	case 57: return run_typed<TArchive, OptC>(t);
	case 58: return run_typed<TArchive, std::vector<OptC>>(t);
	case 59: return run_typed<TArchive, AttrNum>(t);
	case 60: return run_typed<TArchive, std::vector<AttrNum>>(t);
	default: return "BAD-TYPE";
	}
}

// ------------------------------------------------------------------ validated classes (jx.val): vcatalogue in coq/JxPathModel.v
template <class A, class V, class... TVal>
static void attr_or_elem(A& ar, const char* key, V& v, TVal&&... val) {
	if constexpr (can_serialize_attribute_v<A>) ar << AttributeValue(key, v, std::forward<TVal>(val)...);
	else ar << KeyValue(key, v, std::forward<TVal>(val)...);
}
using R9 = Range<int32_t>;
struct VLeafC {
	int32_t v = 0, w = 0, a = 0;
	template <class A> void Serialize(A& ar) {
		ar << KeyValue("v", v, Required(), R9(0, 9));
		ar << KeyValue("w", w, R9(0, 9));
		attr_or_elem(ar, "a", a, R9(0, 9));
	}
};
struct VMidC {
	VLeafC leaf; std::vector<VLeafC> list; std::map<std::string, VLeafC> dict; std::vector<std::vector<VLeafC>> grid;
	int32_t own = 0, sl = 0, ti = 0, em = 0, ea = 0;
	template <class A> void Serialize(A& ar) {
		ar << KeyValue("leaf", leaf);
		ar << KeyValue("list", list, Required());
		ar << KeyValue("dict", dict);
		ar << KeyValue("grid", grid);
		ar << KeyValue("own", own, R9(0, 9));
		ar << KeyValue("a/b", sl, R9(0, 9));
		ar << KeyValue("m~n", ti, R9(0, 9));
		ar << KeyValue("", em, R9(0, 9));
		ar << KeyValue(L"\u00e9", ea, R9(0, 9));
	}
};
struct VTopC {
	VMidC mid; std::vector<VMidC> mids; std::map<std::string, VMidC> named;
	std::vector<std::map<std::string, std::vector<VLeafC>>> deep; std::vector<int32_t> nums; int32_t id = 0;
	template <class A> void Serialize(A& ar) {
		ar << KeyValue("mid", mid, Required());
		ar << KeyValue("mids", mids);
		ar << KeyValue("named", named);
		ar << KeyValue("deep", deep);
		ar << KeyValue("nums", nums, Required());
		attr_or_elem(ar, "id", id, Required(), R9(0, 9));
	}
};

template <class TArchive, class T>
static std::string do_validate(bool stream, const std::string& pol, const std::string& bytes) {
	T obj{};
	try {
		return guarded([&]() -> std::string {
			SerializationOptions o;
			o.mismatchedTypesPolicy = pol.size() > 0 && pol[0] == 'S' ? MismatchedTypesPolicy::Skip : MismatchedTypesPolicy::ThrowError;
			o.overflowNumberPolicy = pol.size() > 1 && pol[1] == 'S' ? OverflowNumberPolicy::Skip : OverflowNumberPolicy::ThrowError;
			try {
				if (stream) { std::istringstream is(bytes, std::ios::in | std::ios::binary); LoadObject<TArchive>(obj, is, o); }
				else LoadObject<TArchive>(obj, bytes, o);
			}
			catch (const ValidationException& ex) {
				std::string out = "VAL ";
				bool first = true;
				for (const auto& kv : ex.GetValidationErrors()) {
					if (!first) out += ";";
					first = false;
					out += vh::fmt_hex(kv.first) + ":";
					for (const auto& msg : kv.second) {
						if (msg == "This field is required") out += "R";
						else if (msg == "Value must be between 0 and 9") out += "G";
						else out += "?";
					}
				}
				return out;
			}
			return "OK";
		});
	}
	catch (const Syntax&) { throw; }
}

template <class TArchive>
static std::string run_validate(const std::vector<std::string>& t) {
	const bool stream = t[2] == "stream";
	const std::string bytes = vh::parse_hex(t[5]);
	switch (std::atoi(t[3].c_str())) {
	case 0: return do_validate<TArchive, VLeafC>(stream, t[4], bytes);
	case 1: return do_validate<TArchive, VMidC>(stream, t[4], bytes);
	case 2: return do_validate<TArchive, VTopC>(stream, t[4], bytes);
	case 3: return do_validate<TArchive, std::vector<VLeafC>>(stream, t[4], bytes);
	case 4: return do_validate<TArchive, std::vector<VMidC>>(stream, t[4], bytes);
	case 5: return do_validate<TArchive, std::map<std::string, VMidC>>(stream, t[4], bytes);
	case 6: return do_validate<TArchive, std::vector<std::vector<VLeafC>>>(stream, t[4], bytes);
	case 7: return do_validate<TArchive, std::map<std::string, std::vector<VLeafC>>>(stream, t[4], bytes);
	case 8: return do_validate<TArchive, std::vector<VTopC>>(stream, t[4], bytes);
	default: return "BAD-TYPE";
	}
}

// ------------------------------------------------------------------ request histories on the low-level scopes (jx.hist, C03)
//   jx.hist <json|xml> <mem|stream> <pol> <doc hex> <program>
//   program = R{reqs} (root.OpenObjectScope) | S{reqs} (root.OpenArrayScope); reqs separated by ','
//   object scope: g<t>=<hexkey>  SerializeValue(key, v)      t<t>=<hexkey>  OpenAttributeScope()->SerializeValue(key, v)
//                 o=<hexkey>{reqs} OpenObjectScope(key)       a=<hexkey>{reqs} OpenArrayScope(key)      k  VisitKeys
//   array scope:  G<t>  SerializeValue(v)   O{reqs}   A{reqs}   e  IsEnd()
//   <t> = b bool | i int32 | l int64 | u uint64 | d double | s string | n nullptr
//   answers, ',' separated: L<value> loaded | N not loaded and target unchanged (N!<value> if it changed) | O1 / O0 scope opened or not
//                           K[hex.hex..] | E1 / E0 | B not available in this scope | EXC:<code> ends the history
struct HP {
	const std::string& s; size_t pos = 0;
	char peek() const { return pos < s.size() ? s[pos] : '\0'; }
	char take() { return pos < s.size() ? s[pos++] : '\0'; }
	std::string key() {
		if (take() != '=') throw Syntax{"="};
		size_t st = pos;
		while ((peek() >= '0' && peek() <= '9') || (peek() >= 'a' && peek() <= 'f')) ++pos;
		if ((pos - st) % 2) throw Syntax{"hexkey"};
		return pos == st ? std::string() : vh::parse_hex(s.substr(st, pos - st));
	}
	void skip_block() { if (take() != '{') throw Syntax{"{"}; int d = 1; while (d > 0) { char c = take(); if (c == '\0') throw Syntax{"}"}; if (c == '{') ++d; if (c == '}') --d; } }
};
static void add(std::string& out, const std::string& a) { if (!out.empty()) out += ","; out += a; }

template <class S, class TGet> static void hist_get(char t, TGet get, std::string& out) {
	auto fin = [&](bool ok, auto& v, const auto& sentinel) { add(out, ok ? "L" + dump(v) : (v == sentinel ? std::string("N") : "N!" + dump(v))); };
	switch (t) {
	case 'b': { bool v = true; const bool s0 = v; fin(get(v), v, s0); break; }
	case 'i': { int32_t v = 7777; const int32_t s0 = v; fin(get(v), v, s0); break; }
	case 'l': { int64_t v = 7777; const int64_t s0 = v; fin(get(v), v, s0); break; }
	case 'u': { uint64_t v = 7777; const uint64_t s0 = v; fin(get(v), v, s0); break; }
	case 'd': { double v = 7777.5; const double s0 = v; fin(get(v), v, s0); break; }
	case 'n': { std::nullptr_t v = nullptr; add(out, get(v) ? "Ln" : "N"); break; }
	case 's': { typename S::string_view_type v = "~"; const bool ok = get(v); const std::string sv(v); add(out, ok ? "L" + dump(sv) : (sv == "~" ? std::string("N") : "N!" + dump(sv))); break; }
	default: throw Syntax{"type"};
	}
}

template <class TArr> static void hist_arr(TArr& sc, HP& p, std::string& out);
template <class TObj> static void hist_obj(TObj& sc, HP& p, std::string& out) {
	if (p.take() != '{') throw Syntax{"{"};
	while (p.peek() != '}') {
		const char c = p.take();
		if (c == 'g') { const char t = p.take(); const std::string k = p.key(); hist_get<TObj>(t, [&](auto& v) { return sc.SerializeValue(k, v); }, out); }
		else if (c == 't') {
			const char t = p.take(); const std::string k = p.key();
			if constexpr (can_serialize_attribute_v<TObj>) { auto as = sc.OpenAttributeScope(); if (as) hist_get<TObj>(t, [&](auto& v) { return as->SerializeValue(k, v); }, out); else add(out, "B"); }
			else add(out, "B");
		}
		else if (c == 'o') { const std::string k = p.key(); auto sub = sc.OpenObjectScope(k, 0); if (sub) { add(out, "O1"); hist_obj(*sub, p, out); } else { add(out, "O0"); p.skip_block(); } }
		else if (c == 'a') { const std::string k = p.key(); auto sub = sc.OpenArrayScope(k, 0); if (sub) { add(out, "O1"); hist_arr(*sub, p, out); } else { add(out, "O0"); p.skip_block(); } }
		else if (c == 'k') { std::string ks; bool first = true; sc.VisitKeys([&](auto&& name) { if (!first) ks += "."; first = false; ks += hexs(std::string(name)); }); add(out, "K[" + ks + "]"); }
		else throw Syntax{"request"};
		if (p.peek() == ',') p.take();
	}
	p.take();
}
template <class TArr> static void hist_arr(TArr& sc, HP& p, std::string& out) {
	if (p.take() != '{') throw Syntax{"{"};
	while (p.peek() != '}') {
		const char c = p.take();
		if (c == 'G') { const char t = p.take(); hist_get<TArr>(t, [&](auto& v) { return sc.SerializeValue(v); }, out); }
		else if (c == 'O') { auto sub = sc.OpenObjectScope(0); if (sub) { add(out, "O1"); hist_obj(*sub, p, out); } else { add(out, "O0"); p.skip_block(); } }
		else if (c == 'A') { auto sub = sc.OpenArrayScope(0); if (sub) { add(out, "O1"); hist_arr(*sub, p, out); } else { add(out, "O0"); p.skip_block(); } }
		else if (c == 'e') add(out, sc.IsEnd() ? "E1" : "E0");
		else throw Syntax{"request"};
		if (p.peek() == ',') p.take();
	}
	p.take();
}

template <class TArchive>
static std::string run_hist(const std::vector<std::string>& t) {
	const bool stream = t[2] == "stream";
	const std::string& pol = t[3];
	const std::string bytes = vh::parse_hex(t[4]);
	std::string out;
	const std::string tail = guarded([&]() -> std::string {
		SerializationOptions o;
		o.mismatchedTypesPolicy = pol.size() > 0 && pol[0] == 'S' ? MismatchedTypesPolicy::Skip : MismatchedTypesPolicy::ThrowError;
		o.overflowNumberPolicy = pol.size() > 1 && pol[1] == 'S' ? OverflowNumberPolicy::Skip : OverflowNumberPolicy::ThrowError;
		SerializationContext context(o);
		HP p{t[5]};
		const char root = p.take();
		auto go = [&](auto& archive) {
			if (root == 'R') { auto sc = archive.OpenObjectScope(0); if (sc) { add(out, "O1"); hist_obj(*sc, p, out); } else add(out, "O0"); }
			else if (root == 'S') { auto sc = archive.OpenArrayScope(0); if (sc) { add(out, "O1"); hist_arr(*sc, p, out); } else add(out, "O0"); }
			else throw Syntax{"root"};
		};
		if (stream) { std::istringstream is(bytes, std::ios::in | std::ios::binary); typename TArchive::input_archive_type archive(static_cast<std::istream&>(is), context); go(archive); }
		else { typename TArchive::input_archive_type archive(bytes, context); go(archive); }
		return "";
	});
	if (!tail.empty()) add(out, tail);
	return out.empty() ? "-" : out;
}

static std::string run_case(const std::string& line) {
	auto t = vh::split(line);
	if (t.size() < 6) return "BAD-CASE";
	if (t[0] == "jx.hist") {
		try {
			if (t[1] == "json") return run_hist<JsonArchive>(t);
			if (t[1] == "xml") return run_hist<XmlArchive>(t);
			return "BAD-ARCH";
		}
		catch (const Syntax& e) { return std::string("BAD-SYNTAX ") + e.what; }
	}
	if (t[0] == "jx.val") {
		if (t[1] == "json") return run_validate<JsonArchive>(t);
		if (t[1] == "xml") return run_validate<XmlArchive>(t);
		return "BAD-ARCH";
	}
	if (t[0] != "jx.save" && t[0] != "jx.load" && t[0] != "jx.rt") return "BAD-OP";
	try {
		if (t[1] == "json") return run_arch<JsonArchive>(t);
		if (t[1] == "xml") return run_arch<XmlArchive>(t);
		return "BAD-ARCH";
	}
	catch (const Syntax& e) { return std::string("BAD-SYNTAX ") + e.what; }
}

int main() {
	std::ios::sync_with_stdio(false);
	std::string line;
	while (std::getline(std::cin, line)) {
		if (line.empty()) { std::cout << "\n"; continue; }
		std::cout << run_case(line) << "\n" << std::flush;
	}
	return 0;
}
