// Typed-level MsgPack LOAD driver (MsgPack half of C01): loads a document through the PUBLIC archive API
// (LoadObject<MsgPackArchive>) into a dynamic target tree of a given static shape — root scope, array /
// object / binary read scopes and the generic serialization layer (SerializeContainer, classes with a
// Serialize() method issuing KeyValue requests in declaration order, byte containers, strings) — and
// prints the loaded tree.
//   ld  <m|s> <pol> <shape> <hexdoc>           m = from std::string, s = from std::istream; pol = mismatch,overflow in T|S
//   ldp <m|s> <pol> <shape> <prior> <hexdoc>   the same into a target that already holds <prior> (the tree syntax the driver
//                                              prints, read along the shape: a std::map as {key=value;..}, a class as {s<name>=value;..})
//   shape := n | T | F | i<kind>:+0 | f0 | d0 | s- | b- | [shape] | {s<hexname>=shape;...} | <kshape=shape> | (N|shape) | v | ^shape;..$ | ?shape | *shape | &shape | %shape;shape$ | <m|kshape=shape> | #kshape | @kshape
//            (the tree syntax of drv_mpsave.cpp; scalars give the kind, a vector holds exactly one element: the
//             shape of its elements; <k=v> is std::map<K, v> with K = std::string (k = s-) or an integer type
//             (k = i<kind>:+0), loaded by the library's own SerializeMapImpl in MapLoadMode::Clean; <o|k=v> and <u|k=v> load it
//             in OnlyExistKeys / UpdateKeys (SerializeMapImpl(ar, map, mode), as user code passes a mode); the target is
//             value-initialised from the shape); (N|e) is std::array<e, N> (the library's SerializeFixedSizeArray),
//             v is std::vector<bool> (the library's own overload), ^s1;..;sn$ is std::tuple<s1,..,sn> with n <= 4 (the library's
//             SerializeArray(std::tuple) on a tuple of references to the component nodes); ?e / *e / &e are std::optional /
//             std::unique_ptr / std::shared_ptr of a node of shape e (the library's own Serialize overloads; the wrapped node is
//             created by the library through a default constructor that copies the prototype of that position), printed n when empty;
//             %a;b$ is std::pair<a, b> (the library's SerializeObject(std::pair) on a pair of references), printed as the class
//             {s6b6579=..;s76616c7565=..} ("key", "value") it is serialized as; <m|k=v> is std::multimap<K, v> (the library's
//             SerializeMultiMapImpl on a real std::multimap), printed as the array of its pairs [{s6b6579=key;s76616c7565=value};..];
//             #k / @k are std::set<K> / std::multiset<K> (the library's SerializeSetImpl), printed as the array of the elements.  A loaded map prints as {key=value;...} in the
//             map's order, a fixed-size array and a vector<bool> as [..;..]
//   answer: OK <tree> | ERR <cat>
#include "common.h"
#include <cmath>
#include <cstring>
#include <map>
#include <memory>
#include <optional>
#include <set>
#include <tuple>
#include <sstream>
#include <vector>
#include "bitserializer/bit_serializer.h"
#include "bitserializer/msgpack_archive.h"
#include "bitserializer/types/std/vector.h"
#include "bitserializer/types/std/tuple.h"
#include "bitserializer/types/std/optional.h"
#include "bitserializer/types/std/memory.h"
#include "bitserializer/types/std/pair.h"
#include "bitserializer/serialization_detail/generic_set.h"
#include "bitserializer/serialization_detail/generic_map.h"

namespace dyn {
struct Node;

// sequence container of nodes of one shape, with the interface SerializeContainer needs
struct Vec {
	using value_type = Node;
	std::shared_ptr<Node> proto;
	std::vector<Node> items;
	void resize(size_t n);
	auto begin() { return items.begin(); }
	auto end() { return items.end(); }
	Node& emplace_back();
	[[nodiscard]] size_t size() const { return items.size(); }
};

// fixed-size array of nodes of one shape (std::array<T, N>), loaded by SerializeFixedSizeArray
struct Fix {
	std::vector<Node> items;
	[[nodiscard]] size_t size() const { return items.size(); }
};
template <class TArchive> void SerializeArray(TArchive& ar, Fix& v) { BitSerializer::Detail::SerializeFixedSizeArray(ar, v.items.begin(), v.items.end()); }

// std::map<K, Node> behind a type-erased, deep-copying handle (Node is incomplete here)
struct MapBase {
	virtual ~MapBase() = default;
	[[nodiscard]] virtual std::unique_ptr<MapBase> clone() const = 0;
	[[nodiscard]] virtual std::string print() const = 0;
	virtual void put_prior(const std::string& keyText, const Node& value) = 0;
	[[nodiscard]] virtual Node make_value() const = 0;
};
struct MapHandle {
	std::unique_ptr<MapBase> p;
	int kk = -1;                     // key type: -1 = std::string, 0..7 = u8 u16 u32 u64 s8 s16 s32 s64
	MapHandle() = default;
	MapHandle(const MapHandle& o) : p(o.p ? o.p->clone() : nullptr), kk(o.kk) {}
	MapHandle(MapHandle&&) = default;
	MapHandle& operator=(const MapHandle& o) { if (this != &o) { p = o.p ? o.p->clone() : nullptr; kk = o.kk; } return *this; }
	MapHandle& operator=(MapHandle&&) = default;
};

struct Node {
	char kind = 'n';                 // n B i f d s b [ { <
	int ik = 0;                      // 0..7 = u8 u16 u32 u64 s8 s16 s32 s64
	bool b = false; uint64_t u = 0; int64_t i = 0; float f = 0; double d = 0;
	std::string s; std::vector<unsigned char> bytes;
	Vec arr;
	std::vector<std::pair<std::string, Node>> obj;
	MapHandle map;
	Fix fix;
	std::vector<bool> vb;
	std::vector<Node> comps;         // tuple components
	char wrap = '?';                 // ? optional, * unique_ptr, & shared_ptr
	std::shared_ptr<Node> optproto;  // the shape of the wrapped value
	std::vector<Node> opt;           // empty, or the wrapped value
};

// what std::optional / unique_ptr / shared_ptr wrap: a node whose DEFAULT constructor (the library writes TValue() /
// make_unique<TValue>()) copies the prototype of the wrapper being loaded
inline std::vector<const Node*> g_protos;
struct ProtoGuard { explicit ProtoGuard(const Node* p) { g_protos.push_back(p); } ~ProtoGuard() { g_protos.pop_back(); } };
struct OptNode {
	Node n;
	OptNode() : n(*g_protos.back()) {}
	explicit OptNode(const Node& x) : n(x) {}
};

std::string print_node(const Node& n);
std::string print_key(const std::string& k);
std::string print_key_int(int kk, int64_t i, uint64_t u);
std::string parse_key_str(const std::string& keyText);
int64_t parse_key_int(const std::string& keyText);

template <class F> auto with_key_type(int kk, F&& f) {
	switch (kk) {
	case 0: return f(uint8_t{}); case 1: return f(uint16_t{}); case 2: return f(uint32_t{}); case 3: return f(uint64_t{});
	case 4: return f(int8_t{}); case 5: return f(int16_t{}); case 6: return f(int32_t{}); case 7: return f(int64_t{});
	default: return f(std::string{});
	}
}
template <class K> std::string print_any_key(int kk, const K& k) {
	if constexpr (std::is_same_v<K, std::string>) return print_key(k);
	else return print_key_int(kk, static_cast<int64_t>(k), static_cast<uint64_t>(k));
}
template <class K> K parse_any_key(const std::string& t) {
	if constexpr (std::is_same_v<K, std::string>) return parse_key_str(t);
	else return static_cast<K>(parse_key_int(t));
}

// std::multimap<K, node>: the mapped nodes are created by the library (value_type pair;) from the prototype on top of the stack
template <class K>
struct MMapOf : MapBase {
	int kk = -1;
	std::shared_ptr<Node> proto;
	std::multimap<K, OptNode> items;
	[[nodiscard]] size_t size() const { return items.size(); }
	[[nodiscard]] std::unique_ptr<MapBase> clone() const override { return std::make_unique<MMapOf<K>>(*this); }
	[[nodiscard]] Node make_value() const override { return *proto; }
	void put_prior(const std::string& keyText, const Node& value) override { items.emplace(parse_any_key<K>(keyText), OptNode(value)); }
	[[nodiscard]] std::string print() const override {
		std::string r = "["; bool first = true;
		for (auto& kv : items) { if (!first) r += ";"; first = false; r += "{s6b6579=" + print_any_key<K>(kk, kv.first) + ";s76616c7565=" + print_node(kv.second.n) + "}"; }
		return r + "]";
	}
};
template <class TArchive, class K> void SerializeArray(TArchive& ar, MMapOf<K>& m) { BitSerializer::Detail::SerializeMultiMapImpl(ar, m.items); }

// std::set<K> / std::multiset<K>
template <class K, bool Multi>
struct SetOf : MapBase {
	int kk = -1;
	std::conditional_t<Multi, std::multiset<K>, std::set<K>> items;
	[[nodiscard]] size_t size() const { return items.size(); }
	[[nodiscard]] std::unique_ptr<MapBase> clone() const override { return std::make_unique<SetOf<K, Multi>>(*this); }
	[[nodiscard]] Node make_value() const override { return Node(); }
	void put_prior(const std::string& keyText, const Node&) override { items.insert(parse_any_key<K>(keyText)); }
	[[nodiscard]] std::string print() const override {
		std::string r = "["; bool first = true;
		for (auto& k : items) { if (!first) r += ";"; first = false; r += print_any_key<K>(kk, k); }
		return r + "]";
	}
};
template <class TArchive, class K, bool Multi> void SerializeArray(TArchive& ar, SetOf<K, Multi>& m) { BitSerializer::Detail::SerializeSetImpl(ar, m.items); }

std::string print_node(const Node& n);
std::string print_key(const std::string& k);
std::string print_key_int(int kk, int64_t i, uint64_t u);
std::string parse_key_str(const std::string& keyText);
int64_t parse_key_int(const std::string& keyText);

// the map target: the interface SerializeMapImpl needs of a std::map whose mapped values are nodes of one shape
template <class K>
struct MapOf : MapBase {
	using key_type = K;
	using mapped_type = Node;
	using iterator = typename std::map<K, Node>::iterator;
	int kk = -1;
	BitSerializer::MapLoadMode mode = BitSerializer::MapLoadMode::Clean;
	std::shared_ptr<Node> proto;
	std::map<K, Node> items;
	void clear() { items.clear(); }
	iterator begin() { return items.begin(); }
	iterator end() { return items.end(); }
	iterator find(const K& k) { return items.find(k); }
	iterator try_emplace(iterator hint, K&& key) { return items.try_emplace(hint, std::move(key), *proto); }
	Node& operator[](const K& k) { return items.try_emplace(k, *proto).first->second; }
	[[nodiscard]] std::unique_ptr<MapBase> clone() const override { return std::make_unique<MapOf<K>>(*this); }
	[[nodiscard]] std::string print() const override {
		std::string r = "{"; bool first = true;
		for (auto& kv : items) {
			if (!first) r += ";"; first = false;
			if constexpr (std::is_same_v<K, std::string>) r += print_key(kv.first);
			else r += print_key_int(kk, static_cast<int64_t>(kv.first), static_cast<uint64_t>(kv.first));
			r += "=" + print_node(kv.second);
		}
		return r + "}";
	}
	[[nodiscard]] Node make_value() const override { return *proto; }
	void put_prior(const std::string& keyText, const Node& value) override {
		if constexpr (std::is_same_v<K, std::string>) items.insert_or_assign(parse_key_str(keyText), value);
		else items.insert_or_assign(static_cast<K>(parse_key_int(keyText)), value);
	}
};
template <class TArchive, class K> void SerializeObject(TArchive& ar, MapOf<K>& m) { BitSerializer::Detail::SerializeMapImpl(ar, m, m.mode); }

inline void Vec::resize(size_t n) { items.resize(n, *proto); }
inline Node& Vec::emplace_back() { items.push_back(*proto); return items.back(); }

template <class TArchive> void SerializeArray(TArchive& ar, Vec& v) { BitSerializer::Detail::SerializeContainer(ar, v); }

// a class whose members are the pairs of an object node, declared in this order
struct ObjView {
	Node& n;
	template <class TArchive> void Serialize(TArchive& ar);
};

// run f on the C++ object of the node's static type
template <class F>
bool with_target(Node& v, F&& f) {
	switch (v.kind) {
	case 'n': { std::nullptr_t x = nullptr; return f(x); }
	case 'B': return f(v.b);
	case 'i':
		switch (v.ik) {
		case 0: { auto x = static_cast<uint8_t>(v.u); bool r = f(x); v.u = x; return r; }
		case 1: { auto x = static_cast<uint16_t>(v.u); bool r = f(x); v.u = x; return r; }
		case 2: { auto x = static_cast<uint32_t>(v.u); bool r = f(x); v.u = x; return r; }
		case 3: return f(v.u);
		case 4: { auto x = static_cast<int8_t>(v.i); bool r = f(x); v.i = x; return r; }
		case 5: { auto x = static_cast<int16_t>(v.i); bool r = f(x); v.i = x; return r; }
		case 6: { auto x = static_cast<int32_t>(v.i); bool r = f(x); v.i = x; return r; }
		default: return f(v.i);
		}
	case 'f': return f(v.f);
	case 'd': return f(v.d);
	case 's': return f(v.s);
	case 'b': return f(v.bytes);
	case '[': return f(v.arr);
	case '(': return f(v.fix);
	case 'v': return f(v.vb);
	case '%': { std::pair<Node&, Node&> pr(v.comps[0], v.comps[1]); return f(pr); }
	case 'M': {
		ProtoGuard guard(v.optproto.get());
		return with_key_type(v.map.kk, [&](auto tag) { using K = decltype(tag); return f(static_cast<MMapOf<K>&>(*v.map.p)); });
	}
	case 'S': return with_key_type(v.map.kk, [&](auto tag) { using K = decltype(tag); return f(static_cast<SetOf<K, false>&>(*v.map.p)); });
	case 'U': return with_key_type(v.map.kk, [&](auto tag) { using K = decltype(tag); return f(static_cast<SetOf<K, true>&>(*v.map.p)); });
	case '?': {
		ProtoGuard guard(v.optproto.get());
		switch (v.wrap) {
		case '?': {
			std::optional<OptNode> o; if (!v.opt.empty()) o.emplace(v.opt[0]);
			bool r = f(o); v.opt.clear(); if (o) v.opt.push_back(o->n); return r;
		}
		case '*': {
			std::unique_ptr<OptNode> o; if (!v.opt.empty()) o = std::make_unique<OptNode>(v.opt[0]);
			bool r = f(o); v.opt.clear(); if (o) v.opt.push_back(o->n); return r;
		}
		default: {
			std::shared_ptr<OptNode> o; if (!v.opt.empty()) o = std::make_shared<OptNode>(v.opt[0]);
			bool r = f(o); v.opt.clear(); if (o) v.opt.push_back(o->n); return r;
		}
		}
	}
	case '^':
		switch (v.comps.size()) {
		case 0: { std::tuple<> t; return f(t); }
		case 1: { auto t = std::tie(v.comps[0]); return f(t); }
		case 2: { auto t = std::tie(v.comps[0], v.comps[1]); return f(t); }
		case 3: { auto t = std::tie(v.comps[0], v.comps[1], v.comps[2]); return f(t); }
		default: { auto t = std::tie(v.comps[0], v.comps[1], v.comps[2], v.comps[3]); return f(t); }
		}
	case '<':
		switch (v.map.kk) {
		case 0: return f(static_cast<MapOf<uint8_t>&>(*v.map.p));
		case 1: return f(static_cast<MapOf<uint16_t>&>(*v.map.p));
		case 2: return f(static_cast<MapOf<uint32_t>&>(*v.map.p));
		case 3: return f(static_cast<MapOf<uint64_t>&>(*v.map.p));
		case 4: return f(static_cast<MapOf<int8_t>&>(*v.map.p));
		case 5: return f(static_cast<MapOf<int16_t>&>(*v.map.p));
		case 6: return f(static_cast<MapOf<int32_t>&>(*v.map.p));
		case 7: return f(static_cast<MapOf<int64_t>&>(*v.map.p));
		default: return f(static_cast<MapOf<std::string>&>(*v.map.p));
		}
	default: { ObjView o{ v }; return f(o); }
	}
}

template <class TArchive> bool Serialize(TArchive& ar, Node& v) {
	return with_target(v, [&](auto& x) { return BitSerializer::Serialize(ar, x); });
}
template <class TArchive, class TKey> bool Serialize(TArchive& ar, TKey&& key, Node& v) {
	return with_target(v, [&](auto& x) { return BitSerializer::Serialize(ar, key, x); });
}

template <class TArchive> bool Serialize(TArchive& ar, OptNode& v) { return Serialize(ar, v.n); }
template <class TArchive, class TKey> bool Serialize(TArchive& ar, TKey&& key, OptNode& v) { return Serialize(ar, std::forward<TKey>(key), v.n); }

template <class TArchive> void ObjView::Serialize(TArchive& ar) {
	for (auto& kv : n.obj) ar << BitSerializer::KeyValue(kv.first, kv.second);
}
}  // namespace dyn

using dyn::Node;

static Node parse(const std::string& t, size_t& p) {
	Node n; char c = t.at(p++);
	auto token = [&]() { size_t q = p; while (q < t.size() && t[q] != ';' && t[q] != ']' && t[q] != '}' && t[q] != '=' && t[q] != '>' && t[q] != '|' && t[q] != ')' && t[q] != '$') ++q; std::string r = t.substr(p, q - p); p = q; return r; };
	switch (c) {
	case 'n': n.kind = 'n'; break;
	case 'T': case 'F': n.kind = 'B'; break;
	case 'i': {
		n.kind = 'i';
		std::string tok = token(); auto col = tok.find(':');
		static const char* kinds[] = { "u8", "u16", "u32", "u64", "s8", "s16", "s32", "s64" };
		std::string k = tok.substr(0, col);
		n.ik = -1;
		for (int i = 0; i < 8; ++i) if (k == kinds[i]) n.ik = i;
		if (n.ik < 0) throw std::runtime_error("bad kind");
		break;
	}
	case 'f': n.kind = 'f'; token(); break;
	case 'd': n.kind = 'd'; token(); break;
	case 's': n.kind = 's'; token(); break;
	case 'b': n.kind = 'b'; token(); break;
	case '[': {
		n.kind = '[';
		n.arr.proto = std::make_shared<Node>(parse(t, p));
		if (t.at(p) != ']') throw std::runtime_error("a vector shape holds one element shape");
		++p;
		break;
	}
	case 'v': n.kind = 'v'; break;
	case '#': case '@': {
		n.kind = c == '#' ? 'S' : 'U';
		Node k = parse(t, p);
		if (k.kind != 's' && k.kind != 'i') throw std::runtime_error("set elements are strings or integers");
		n.map.kk = k.kind == 's' ? -1 : k.ik;
		const bool multi = c == '@';
		dyn::with_key_type(n.map.kk, [&](auto tag) {
			using K = decltype(tag);
			if (multi) { auto m = std::make_unique<dyn::SetOf<K, true>>(); m->kk = n.map.kk; n.map.p = std::move(m); }
			else { auto m = std::make_unique<dyn::SetOf<K, false>>(); m->kk = n.map.kk; n.map.p = std::move(m); }
			return true;
		});
		break;
	}
	case '?': case '*': case '&': {
		n.kind = '?'; n.wrap = c;
		n.optproto = std::make_shared<Node>(parse(t, p));
		if (n.optproto->kind == 'n' || n.optproto->kind == '?') throw std::runtime_error("a wrapper holds a shape that is never nil");
		break;
	}
	case '%': {
		n.kind = '%';
		n.comps.push_back(parse(t, p)); if (t.at(p) != ';') throw std::runtime_error("bad pair shape"); ++p;
		n.comps.push_back(parse(t, p)); if (t.at(p) != '$') throw std::runtime_error("bad pair shape"); ++p;
		break;
	}
	case '^':
		n.kind = '^';
		if (t.at(p) == '$') { ++p; break; }
		for (;;) {
			n.comps.push_back(parse(t, p));
			if (t.at(p) == ';') { ++p; continue; } if (t.at(p) == '$') { ++p; break; } throw std::runtime_error("bad tuple shape");
		}
		if (n.comps.size() > 4) throw std::runtime_error("tuples of up to 4 components");
		break;
	case '(': {
		n.kind = '(';
		const size_t count = std::stoul(token());
		if (count > 4096 || t.at(p) != '|') throw std::runtime_error("bad array shape"); ++p;
		Node e = parse(t, p);
		if (t.at(p) != ')') throw std::runtime_error("bad array shape"); ++p;
		n.fix.items.assign(count, e);
		break;
	}
	case '<': {
		n.kind = '<';
		BitSerializer::MapLoadMode mode = BitSerializer::MapLoadMode::Clean;
		if (p + 1 < t.size() && t[p] == 'm' && t[p + 1] == '|') {
			p += 2; n.kind = 'M';
			Node k = parse(t, p);
			if (k.kind != 's' && k.kind != 'i') throw std::runtime_error("multimap keys are strings or integers");
			if (t.at(p) != '=') throw std::runtime_error("bad multimap shape"); ++p;
			auto proto = std::make_shared<Node>(parse(t, p));
			if (t.at(p) != '>') throw std::runtime_error("bad multimap shape"); ++p;
			n.map.kk = k.kind == 's' ? -1 : k.ik; n.optproto = proto;
			dyn::with_key_type(n.map.kk, [&](auto tag) { using K = decltype(tag); auto m = std::make_unique<dyn::MMapOf<K>>(); m->kk = n.map.kk; m->proto = proto; n.map.p = std::move(m); return true; });
			break;
		}
		if (p + 1 < t.size() && t[p + 1] == '|' && (t[p] == 'c' || t[p] == 'o' || t[p] == 'u')) {
			mode = t[p] == 'o' ? BitSerializer::MapLoadMode::OnlyExistKeys : t[p] == 'u' ? BitSerializer::MapLoadMode::UpdateKeys : BitSerializer::MapLoadMode::Clean;
			p += 2;
		}
		Node k = parse(t, p);
		if (k.kind != 's' && k.kind != 'i') throw std::runtime_error("map keys are strings or integers");
		if (t.at(p) != '=') throw std::runtime_error("bad map shape"); ++p;
		auto proto = std::make_shared<Node>(parse(t, p));
		if (t.at(p) != '>') throw std::runtime_error("bad map shape"); ++p;
		n.map.kk = k.kind == 's' ? -1 : k.ik;
		auto make = [&](auto tag) { using K = decltype(tag); auto m = std::make_unique<dyn::MapOf<K>>(); m->kk = n.map.kk; m->mode = mode; m->proto = proto; n.map.p = std::move(m); };
		switch (n.map.kk) {
		case 0: make(uint8_t{}); break; case 1: make(uint16_t{}); break; case 2: make(uint32_t{}); break; case 3: make(uint64_t{}); break;
		case 4: make(int8_t{}); break; case 5: make(int16_t{}); break; case 6: make(int32_t{}); break; case 7: make(int64_t{}); break;
		default: make(std::string{}); break;
		}
		break;
	}
	case '{':
		n.kind = '{';
		if (t.at(p) == '}') { ++p; break; }
		for (;;) {
			if (t.at(p) != 's') throw std::runtime_error("member names are strings");
			++p; std::string name = vh::parse_hex(token());
			if (t.at(p) != '=') throw std::runtime_error("bad class shape"); ++p;
			Node v = parse(t, p); n.obj.emplace_back(std::move(name), std::move(v));
			if (t.at(p) == ';') { ++p; continue; } if (t.at(p) == '}') { ++p; break; } throw std::runtime_error("bad class shape");
		}
		break;
	default: throw std::runtime_error("bad shape");
	}
	return n;
}

static std::string shex(int64_t v) {
	char buf[40];
	if (v < 0) std::snprintf(buf, sizeof buf, "-%llx", (unsigned long long)(0 - static_cast<uint64_t>(v)));
	else std::snprintf(buf, sizeof buf, "+%llx", (unsigned long long)v);
	return buf;
}

static std::string print(const Node& n);
// an element that was not loaded has been reset to value_type(): for the node type that is the nil node; a
// container of a static element type holds the value-initialised element there, which is what is printed
static std::string print_elem(const Node& item, const Node& proto) {
	if (item.kind == 'n' && proto.kind != 'n') {
		Node d = proto;
		return print(d);
	}
	return print(item);
}

static std::string print(const Node& n) {
	static const char* kinds[] = { "u8", "u16", "u32", "u64", "s8", "s16", "s32", "s64" };
	char buf[48];
	switch (n.kind) {
	case 'n': return "n";
	case 'B': return n.b ? "T" : "F";
	case 'i':
		if (n.ik < 4) { std::snprintf(buf, sizeof buf, "+%llx", (unsigned long long)n.u); return std::string("i") + kinds[n.ik] + ":" + buf; }
		return std::string("i") + kinds[n.ik] + ":" + shex(n.i);
	case 'f': { if (std::isnan(n.f)) return "fnan"; uint32_t b; std::memcpy(&b, &n.f, 4); std::snprintf(buf, sizeof buf, "f%x", b); return buf; }
	case 'd': { if (std::isnan(n.d)) return "dnan"; uint64_t b; std::memcpy(&b, &n.d, 8); std::snprintf(buf, sizeof buf, "d%llx", (unsigned long long)b); return buf; }
	case 's': return "s" + vh::fmt_hex(n.s);
	case 'b': return "b" + vh::fmt_hex(std::string(n.bytes.begin(), n.bytes.end()));
	case '[': {
		std::string r = "[";
		for (size_t i = 0; i < n.arr.items.size(); ++i) { if (i) r += ";"; r += print_elem(n.arr.items[i], *n.arr.proto); }
		return r + "]";
	}
	case '<': case 'M': case 'S': case 'U': return n.map.p->print();
	case '?': return n.opt.empty() ? std::string("n") : print(n.opt[0]);
	case '%': return "{s6b6579=" + print(n.comps[0]) + ";s76616c7565=" + print(n.comps[1]) + "}";
	case '(': {
		std::string r = "[";
		for (size_t i = 0; i < n.fix.items.size(); ++i) { if (i) r += ";"; r += print(n.fix.items[i]); }
		return r + "]";
	}
	case '^': {
		std::string r = "[";
		for (size_t i = 0; i < n.comps.size(); ++i) { if (i) r += ";"; r += print(n.comps[i]); }
		return r + "]";
	}
	case 'v': {
		std::string r = "[";
		for (size_t i = 0; i < n.vb.size(); ++i) { if (i) r += ";"; r += n.vb[i] ? "T" : "F"; }
		return r + "]";
	}
	default: {
		std::string r = "{";
		for (size_t i = 0; i < n.obj.size(); ++i) { if (i) r += ";"; r += "s" + vh::fmt_hex(n.obj[i].first) + "=" + print(n.obj[i].second); }
		return r + "}";
	}
	}
}

std::string dyn::print_node(const Node& n) { return print(n); }
std::string dyn::print_key(const std::string& k) { return "s" + vh::fmt_hex(k); }
std::string dyn::print_key_int(int kk, int64_t i, uint64_t u) {
	static const char* kinds[] = { "u8", "u16", "u32", "u64", "s8", "s16", "s32", "s64" };
	char buf[48];
	if (kk < 4) { std::snprintf(buf, sizeof buf, "+%llx", (unsigned long long)u); return std::string("i") + kinds[kk] + ":" + buf; }
	return std::string("i") + kinds[kk] + ":" + shex(i);
}

std::string dyn::parse_key_str(const std::string& k) {
	if (k.empty() || k[0] != 's') throw std::runtime_error("bad prior key");
	return vh::parse_hex(k.substr(1));
}
int64_t dyn::parse_key_int(const std::string& k) {
	auto col = k.find(':');
	if (k.empty() || k[0] != 'i' || col == std::string::npos) throw std::runtime_error("bad prior key");
	const std::string v = k.substr(col + 1);
	uint64_t mag = std::strtoull(v.c_str() + 1, nullptr, 16);
	return v[0] == '-' ? static_cast<int64_t>(0 - mag) : static_cast<int64_t>(mag);
}

// the content the target holds before the load: the printed tree syntax, read along the (already shaped) target
static void fill_prior(Node& n, const std::string& t, size_t& p) {
	auto token = [&]() { size_t q = p; while (q < t.size() && t[q] != ';' && t[q] != ']' && t[q] != '}' && t[q] != '=') ++q; std::string r = t.substr(p, q - p); p = q; return r; };
	auto expect = [&](char c) { if (p >= t.size() || t[p] != c) throw std::runtime_error("bad prior"); ++p; };
	switch (n.kind) {
	case 'n': expect('n'); break;
	case 'B': { std::string k = token(); if (k != "T" && k != "F") throw std::runtime_error("bad prior"); n.b = k == "T"; break; }
	case 'i': { std::string k = token(); const int64_t v = dyn::parse_key_int(k); n.i = v; n.u = static_cast<uint64_t>(v);
		auto col = k.find(':'); if (k[col + 1] == '+') n.u = std::strtoull(k.c_str() + col + 2, nullptr, 16); break; }
	case 'f': { std::string k = token(); uint32_t b = static_cast<uint32_t>(std::strtoul(k.c_str() + 1, nullptr, 16)); std::memcpy(&n.f, &b, 4); break; }
	case 'd': { std::string k = token(); uint64_t b = std::strtoull(k.c_str() + 1, nullptr, 16); std::memcpy(&n.d, &b, 8); break; }
	case 's': { std::string k = token(); n.s = vh::parse_hex(k.substr(1)); break; }
	case 'b': { std::string k = token(); const std::string raw = vh::parse_hex(k.substr(1)); n.bytes.assign(raw.begin(), raw.end()); break; }
	case '[': {
		expect('['); n.arr.items.clear();
		if (t.at(p) == ']') { ++p; break; }
		for (;;) { Node e = *n.arr.proto; fill_prior(e, t, p); n.arr.items.push_back(std::move(e)); if (t.at(p) == ';') { ++p; continue; } expect(']'); break; }
		break;
	}
	case '(': {
		expect('[');
		for (size_t i = 0; i < n.fix.items.size(); ++i) { if (i) expect(';'); fill_prior(n.fix.items[i], t, p); }
		expect(']'); break;
	}
	case '^': {
		expect('[');
		for (size_t i = 0; i < n.comps.size(); ++i) { if (i) expect(';'); fill_prior(n.comps[i], t, p); }
		expect(']'); break;
	}
	case '%': {
		expect('{'); token(); expect('='); fill_prior(n.comps[0], t, p); expect(';'); token(); expect('='); fill_prior(n.comps[1], t, p); expect('}');
		break;
	}
	case '?': {
		n.opt.clear();
		if (p < t.size() && t[p] == 'n') { ++p; break; }
		Node e = *n.optproto; fill_prior(e, t, p); n.opt.push_back(std::move(e));
		break;
	}
	case 'v': {
		expect('['); n.vb.clear();
		if (t.at(p) == ']') { ++p; break; }
		for (;;) { std::string k = token(); n.vb.push_back(k == "T"); if (t.at(p) == ';') { ++p; continue; } expect(']'); break; }
		break;
	}
	case 'M': {
		expect('[');
		if (t.at(p) == ']') { ++p; break; }
		for (;;) {
			expect('{'); token(); expect('='); std::string k = token(); expect(';'); token(); expect('=');
			Node e = n.map.p->make_value(); fill_prior(e, t, p); n.map.p->put_prior(k, e); expect('}');
			if (t.at(p) == ';') { ++p; continue; } expect(']'); break;
		}
		break;
	}
	case 'S': case 'U': {
		expect('[');
		if (t.at(p) == ']') { ++p; break; }
		for (;;) { std::string k = token(); n.map.p->put_prior(k, Node()); if (t.at(p) == ';') { ++p; continue; } expect(']'); break; }
		break;
	}
	case '<': {
		expect('{');
		if (t.at(p) == '}') { ++p; break; }
		for (;;) {
			std::string k = token(); expect('=');
			Node e = n.map.p->make_value(); fill_prior(e, t, p); n.map.p->put_prior(k, e);
			if (t.at(p) == ';') { ++p; continue; } expect('}'); break;
		}
		break;
	}
	default: {   // class
		expect('{');
		for (size_t i = 0; i < n.obj.size(); ++i) { if (i) expect(';'); token(); expect('='); fill_prior(n.obj[i].second, t, p); }
		expect('}'); break;
	}
	}
}

template <class T> static void load_as(T& v, const std::string& data, bool stream, const BitSerializer::SerializationOptions& opt) {
	using BitSerializer::MsgPack::MsgPackArchive;
	if (stream) { std::istringstream is(data); BitSerializer::LoadObject<MsgPackArchive>(v, is, opt); }
	else BitSerializer::LoadObject<MsgPackArchive>(v, data, opt);
}

static std::string cat_of_current_exception() {
	using namespace BitSerializer;
	try { throw; }
	catch (const SerializationException& e) {
		switch (e.GetErrorCode()) {
		case SerializationErrorCode::ParsingError: return "P";
		case SerializationErrorCode::MismatchedTypes: return "M";
		case SerializationErrorCode::Overflow: return "O";
		case SerializationErrorCode::OutOfRange: return "R";
		case SerializationErrorCode::InputOutputError: return "IO";
		case SerializationErrorCode::UtfEncodingError: return "UTF";
		case SerializationErrorCode::FailedValidation: return "VAL";
		default: return "SER";
		}
	}
	catch (const std::invalid_argument&) { return "IA"; }
	catch (const std::out_of_range&) { return "OOR"; }
	catch (const std::exception&) { return "STD"; }
	catch (...) { return "UNK"; }
}

int main() {
	std::ios::sync_with_stdio(false);
	std::string line;
	while (std::getline(std::cin, line)) {
		auto t = vh::split(line);
		try {
			const bool withPrior = t.at(0) == "ldp";
			if ((t.at(0) != "ld" && !withPrior) || t.size() != (withPrior ? 6u : 5u)) { std::cout << "UNSUPPORTED" << std::endl; continue; }
			BitSerializer::SerializationOptions opt;
			opt.mismatchedTypesPolicy = t[2].at(0) == 'T' ? BitSerializer::MismatchedTypesPolicy::ThrowError : BitSerializer::MismatchedTypesPolicy::Skip;
			opt.overflowNumberPolicy = t[2].at(1) == 'T' ? BitSerializer::OverflowNumberPolicy::ThrowError : BitSerializer::OverflowNumberPolicy::Skip;
			size_t p = 0; Node n;
			try {
				n = parse(t[3], p); if (p != t[3].size()) throw std::runtime_error("trailing shape text");
				if (withPrior) { size_t q = 0; fill_prior(n, t[4], q); if (q != t[4].size()) throw std::runtime_error("trailing prior text"); }
			}
			catch (const std::exception& e) { std::cout << "EXC " << e.what() << std::endl; continue; }
			const std::string data = vh::parse_hex(t[withPrior ? 5 : 4]);
			const bool stream = t[1] == "s";
			dyn::with_target(n, [&](auto& x) { load_as(x, data, stream, opt); return true; });
			std::cout << "OK " << print(n) << std::endl;
		}
		catch (...) { std::cout << "ERR " << cat_of_current_exception() << std::endl; }
	}
	return 0;
}
