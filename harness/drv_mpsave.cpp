// Typed-level MsgPack save driver (C06 at the scope level): saves an arbitrary value tree through the
// PUBLIC archive API (SaveObject<MsgPackArchive>) — root scope, array/object/binary write scopes and the
// generic serialization layer (containers, classes, maps) — and prints the produced bytes.
//   sv <m|s> <tree>          m = to std::string, s = to std::ostream
// tree := n | T | F | i<kind>:<shex> | f<hex bits32> | d<hex bits64> | s<hexbytes|-> | b<hexbytes|->
//       | [tree;tree;...] | {key=tree;key=tree;...}     key := s<hex> (class member / map<string,..>) | i<kind>:<shex> (map with integer keys)
//   kinds: u8 u16 u32 u64 s8 s16 s32 s64
// All elements of one array / all values of one object may be of different kinds: they are held in a
// dynamic node whose Serialize overloads dispatch at run time to the library's own Serialize functions.
#include "common.h"
#include <cstring>
#include <map>
#include <sstream>
#include <vector>
#include "bitserializer/bit_serializer.h"
#include "bitserializer/msgpack_archive.h"
#include "bitserializer/types/std/vector.h"
#include "bitserializer/types/std/map.h"

namespace dyn {
struct Node {
	char kind = 'n';                 // n T F i f d s b [ {
	int ik = 0;                      // 0..7 = u8 u16 u32 u64 s8 s16 s32 s64
	uint64_t u = 0; int64_t i = 0; float f = 0; double d = 0;
	std::string s; std::vector<unsigned char> bytes;
	std::vector<Node> arr;
	std::vector<std::pair<Node, Node>> obj;
};

template <class TArchive, class F>
bool with_scalar(Node& v, F&& f) {
	switch (v.kind) {
	case 'n': { std::nullptr_t x = nullptr; return f(x); }
	case 'T': { bool x = true; return f(x); }
	case 'F': { bool x = false; return f(x); }
	case 'i':
		switch (v.ik) {
		case 0: { auto x = static_cast<uint8_t>(v.u); return f(x); }
		case 1: { auto x = static_cast<uint16_t>(v.u); return f(x); }
		case 2: { auto x = static_cast<uint32_t>(v.u); return f(x); }
		case 3: { auto x = static_cast<uint64_t>(v.u); return f(x); }
		case 4: { auto x = static_cast<int8_t>(v.i); return f(x); }
		case 5: { auto x = static_cast<int16_t>(v.i); return f(x); }
		case 6: { auto x = static_cast<int32_t>(v.i); return f(x); }
		default: { auto x = static_cast<int64_t>(v.i); return f(x); }
		}
	case 'f': return f(v.f);
	case 'd': return f(v.d);
	case 's': return f(v.s);
	case 'b': return f(v.bytes);
	case '[': return f(v.arr);
	default: return false;
	}
}

// a class whose members are the pairs of an object node (string keys), or a map with integer keys
struct ObjView {
	Node& n;
	template <class TArchive> void Serialize(TArchive& ar);
};

template <class TArchive> bool Serialize(TArchive& ar, Node& v);
template <class TArchive, class TKey> bool Serialize(TArchive& ar, TKey&& key, Node& v);

template <class TArchive> void ObjView::Serialize(TArchive& ar) {
	for (auto& kv : n.obj) {
		if (kv.first.kind == 's') ar << BitSerializer::KeyValue(kv.first.s, kv.second);
		else if (kv.first.ik < 4) ar << BitSerializer::KeyValue(kv.first.u, kv.second);
		else ar << BitSerializer::KeyValue(kv.first.i, kv.second);
	}
}

template <class TArchive> bool Serialize(TArchive& ar, Node& v) {
	if (v.kind == '{') { ObjView o{ v }; return BitSerializer::Serialize(ar, o); }
	return with_scalar<TArchive>(v, [&](auto& x) { return BitSerializer::Serialize(ar, x); });
}
template <class TArchive, class TKey> bool Serialize(TArchive& ar, TKey&& key, Node& v) {
	if (v.kind == '{') { ObjView o{ v }; return BitSerializer::Serialize(ar, key, o); }
	return with_scalar<TArchive>(v, [&](auto& x) { return BitSerializer::Serialize(ar, key, x); });
}
}  // namespace dyn

using dyn::Node;

static int64_t parse_shex(const std::string& s) {
	uint64_t mag = std::strtoull(s.c_str() + 1, nullptr, 16);
	return s[0] == '-' ? static_cast<int64_t>(0 - mag) : static_cast<int64_t>(mag);
}

static Node parse(const std::string& t, size_t& p) {
	Node n; n.kind = t.at(p++);
	auto token = [&]() { size_t q = p; while (q < t.size() && t[q] != ';' && t[q] != ']' && t[q] != '}' && t[q] != '=') ++q; std::string r = t.substr(p, q - p); p = q; return r; };
	switch (n.kind) {
	case 'n': case 'T': case 'F': break;
	case 'i': {
		std::string tok = token(); auto c = tok.find(':');
		static const char* kinds[] = { "u8", "u16", "u32", "u64", "s8", "s16", "s32", "s64" };
		std::string k = tok.substr(0, c);
		for (int i = 0; i < 8; ++i) if (k == kinds[i]) n.ik = i;
		int64_t v = parse_shex(tok.substr(c + 1));
		n.i = v; n.u = static_cast<uint64_t>(v);
		if (tok[c + 1] == '+') n.u = std::strtoull(tok.c_str() + c + 2, nullptr, 16);
		break;
	}
	case 'f': { uint32_t b = static_cast<uint32_t>(std::strtoull(token().c_str(), nullptr, 16)); std::memcpy(&n.f, &b, 4); break; }
	case 'd': { uint64_t b = std::strtoull(token().c_str(), nullptr, 16); std::memcpy(&n.d, &b, 8); break; }
	case 's': n.s = vh::parse_hex(token()); break;
	case 'b': { std::string b = vh::parse_hex(token()); n.bytes.assign(b.begin(), b.end()); break; }
	case '[':
		if (t.at(p) == ']') { ++p; break; }
		for (;;) { n.arr.push_back(parse(t, p)); if (t.at(p) == ';') { ++p; continue; } if (t.at(p) == ']') { ++p; break; } throw std::runtime_error("bad array"); }
		break;
	case '{':
		if (t.at(p) == '}') { ++p; break; }
		for (;;) {
			Node k = parse(t, p); if (t.at(p) != '=') throw std::runtime_error("bad object"); ++p;
			Node v = parse(t, p); n.obj.emplace_back(std::move(k), std::move(v));
			if (t.at(p) == ';') { ++p; continue; } if (t.at(p) == '}') { ++p; break; } throw std::runtime_error("bad object");
		}
		break;
	default: throw std::runtime_error("bad tree");
	}
	return n;
}

template <class T> static std::string save_as(T& v, bool stream) {
	using BitSerializer::MsgPack::MsgPackArchive;
	if (stream) { std::ostringstream os; BitSerializer::SaveObject<MsgPackArchive>(v, os); return os.str(); }
	std::string out; BitSerializer::SaveObject<MsgPackArchive>(v, out); return out;
}

static std::string save_root(Node& n, bool stream) {
	if (n.kind == '{') { dyn::ObjView o{ n }; return save_as(o, stream); }
	std::string out;
	dyn::with_scalar<void>(n, [&](auto& x) { out = save_as(x, stream); return true; });
	return out;
}

int main() {
	std::ios::sync_with_stdio(false);
	std::string line;
	while (std::getline(std::cin, line)) {
		auto t = vh::split(line);
		try {
			if (t.at(0) != "sv") { std::cout << "UNSUPPORTED\n"; continue; }
			size_t p = 0; Node n = parse(t.at(2), p);
			std::cout << vh::fmt_hex(save_root(n, t.at(1) == "s")) << "\n";
		}
		catch (const BitSerializer::SerializationException& e) { std::cout << "ERR " << (e.GetErrorCode() == BitSerializer::SerializationErrorCode::OutOfRange ? "R" : "SER") << "\n"; }
		catch (const std::exception& e) { std::cout << "ERR STD " << e.what() << "\n"; }
	}
	return 0;
}
