// Correspondence driver for the MsgPack read scopes (C03, scope half of C05): interprets a request
// history with REAL scope calls on CMsgPackReadObjectScope / CMsgPackReadArrayScope /
// CMsgPackReadBinaryScope of /repo/include/bitserializer/msgpack_archive.h.
//
//   hist  <kind> <pol> <hexdoc> <history>     root opened with ReadMapSize   + object scope
//   ahist <kind> <pol> <hexdoc> <history>     root opened with ReadArraySize + array scope
//     kind: m = CMsgPackStringReader, s = CMsgPackStreamReader (scopes constructed the way
//           MsgPackReadRootScope::OpenObjectScope does), M / S = through MsgPackReadRootScope itself
//           (string / istream; the reader position is not visible there and is printed as '?')
//     pol : two letters, mismatched-types policy and overflow policy, T(hrow) | S(kip)
//     history: comma separated items, '-' = empty
//        object scope:  G:<key>:<target>   SerializeValue(key, T&)
//                       O:<key>,(,..,)     OpenObjectScope(key) ; items in the child ; child destroyed
//                       A:<key>,(,..,)     OpenArrayScope(key)  ; array items        ; child destroyed
//                       B:<key>:<n>        OpenBinaryScope(key) ; n x SerializeValue(char&) ; destroyed
//                       V                  VisitKeys
//                       E,(,acts,)         VisitKeys with a callback that runs the i-th action on the i-th key it is handed:
//                                          k (nothing) | x:<M|O> (throws that SerializationException) | g:<target> | o,(,..,) | a,(,..,)
//                                          | b:<n> | c:<n>,(,..,) (binary scope and n bytes, array scope when declined)
//        array scope:   g:<target> | o,(,..,) | a,(,..,) | b:<n> | e (IsEnd)
//                       | t,(,item,) : try { item } catch (SerializationException of code OutOfRange) { } (what SerializeArray(std::tuple)
//                         does around its components)   | x:<R|M|O> : the caller throws that SerializationException
//        key   : s<hex|-> std::string | u<hex> uint64_t | i<shex> int64_t | f<hexbits> float
//                | d<hexbits> double | t<shex>_<shex> CBinTimestamp
//        target: u1 u8 u16 u32 u64 c8 s8 s16 s32 s64 nil f32 f64 str ts
//   answer: <tokens> END <pos> <sentinel> <fin>   |   <tokens> ERR <cat>   |  (process) TERMINATE
//     fin: kinds m, s: CF0 | CF1 = IMsgPackReader::IsCloseScopeFailed(); kinds M, S: OK | ERR:<cat> = MsgPackReadRootScope::Finalize()
//     tokens (comma separated, '-' = none): T<value> | F | ( | ) | n | x<hex> | K[key;key..] | E0 | E1 | C (OutOfRange caught)
//     sentinel: one more ReadValue(int64_t&) after the root scope is gone: T<shex> | F | ERR:<cat>
#include "common.h"
#include <cmath>
#include <cstring>
#include <sstream>
#include <unistd.h>
#include "msgpack/msgpack_readers.h"
#include "bitserializer/msgpack_archive.h"

using namespace BitSerializer;
using namespace BitSerializer::MsgPack::Detail;
using vh::U;

using ObjScope = CMsgPackReadObjectScope<IMsgPackReader>;
using ArrScope = CMsgPackReadArrayScope<IMsgPackReader>;
using BinScope = CMsgPackReadBinaryScope<IMsgPackReader>;

static std::string cat_of_current_exception() {
	try { throw; }
	catch (const SerializationException& e) {
		switch (e.GetErrorCode()) {
		case SerializationErrorCode::ParsingError: return "P";
		case SerializationErrorCode::MismatchedTypes: return "M";
		case SerializationErrorCode::Overflow: return "O";
		case SerializationErrorCode::OutOfRange: return "R";
		case SerializationErrorCode::InputOutputError: return "IO";
		case SerializationErrorCode::UtfEncodingError: return "UTF";
		case SerializationErrorCode::UnregisteredEnum: return "ENUM";
		case SerializationErrorCode::FailedValidation: return "VAL";
		default: return "SER";
		}
	}
	catch (const std::invalid_argument&) { return "IA"; }
	catch (const std::out_of_range&) { return "OOR"; }
	catch (const std::exception&) { return "STD"; }
	catch (...) { return "UNK"; }
}

static int64_t parse_shex(const std::string& s) {
	uint64_t mag = std::strtoull(s.c_str() + 1, nullptr, 16);
	return s[0] == '-' ? static_cast<int64_t>(0 - mag) : static_cast<int64_t>(mag);
}
static std::string fmt_shex(int64_t v) {
	char buf[40];
	if (v < 0) std::snprintf(buf, sizeof buf, "-%llx", (unsigned long long)(0 - static_cast<uint64_t>(v)));
	else std::snprintf(buf, sizeof buf, "+%llx", (unsigned long long)v);
	return buf;
}
static std::string fmt_hexnum(uint64_t v) { char buf[40]; std::snprintf(buf, sizeof buf, "%llx", (unsigned long long)v); return buf; }
static std::string fmt_f32(float f) { if (std::isnan(f)) return "nan"; uint32_t b; std::memcpy(&b, &f, 4); return fmt_hexnum(b); }
static std::string fmt_f64(double f) { if (std::isnan(f)) return "nan"; uint64_t b; std::memcpy(&b, &f, 8); return fmt_hexnum(b); }

// driver-level syntax errors (never a std::exception, so they cannot be confused with the library's)
struct DriverError { std::string what; };

// ---- history syntax tree
struct Node {
	char kind = 0;              // G O A B V   g o a b e
	std::string key, target;
	size_t n = 0;
	std::vector<Node> body;
};

static std::vector<Node> parse_items(const std::vector<std::string>& t, size_t& i) {
	std::vector<Node> out;
	while (i < t.size() && t[i] != ")") {
		auto f = vh::split(t[i], ':');
		++i;
		Node nd;
		if (f.at(0).size() != 1) throw DriverError{"bad history item"};
		nd.kind = f[0][0];
		switch (nd.kind) {
		case 'G': nd.key = f.at(1); nd.target = f.at(2); break;
		case 'B': nd.key = f.at(1); nd.n = std::strtoull(f.at(2).c_str(), nullptr, 10); break;
		case 'O': case 'A': nd.key = f.at(1); break;
		case 'g': nd.target = f.at(1); break;
		case 'b': nd.n = std::strtoull(f.at(1).c_str(), nullptr, 10); break;
		case 'V': case 'e': case 'o': case 'a': case 'E': case 'k': case 't': break;
		case 'x': nd.target = f.at(1); break;
		case 'c': nd.n = std::strtoull(f.at(1).c_str(), nullptr, 10); break;
		default: throw DriverError{"bad history item"};
		}
		if (nd.kind == 'O' || nd.kind == 'A' || nd.kind == 'o' || nd.kind == 'a' || nd.kind == 'E' || nd.kind == 'c' || nd.kind == 't') {
			if (i >= t.size() || t[i] != "(") throw DriverError{"( expected"};
			++i;
			nd.body = parse_items(t, i);
			if (i >= t.size() || t[i] != ")") throw DriverError{") expected"};
			++i;
		}
		out.push_back(std::move(nd));
	}
	return out;
}

// ---- observations
static std::string g_out;
static void emit(const std::string& tok) { if (!g_out.empty()) g_out.push_back(','); g_out += tok; }

static std::string key_text(std::string_view k) { return "s" + vh::fmt_hex(std::string(k)); }
static std::string key_text(uint64_t k) { return "i+" + fmt_hexnum(k); }
static std::string key_text(int64_t k) { return "i" + fmt_shex(k); }
static std::string key_text(float k) { return "f" + fmt_f32(k); }
static std::string key_text(double k) { return "d" + fmt_f64(k); }
static std::string key_text(const CBinTimestamp& k) { return "t" + fmt_shex(k.Seconds) + "_" + fmt_shex(k.Nanoseconds); }

// call f with the key as a C++ value of its type
template <class F>
static auto with_key(const std::string& k, F&& f) -> decltype(f(std::declval<const uint64_t&>())) {
	const std::string body = k.substr(1);
	switch (k.at(0)) {
	case 's': { const std::string v = vh::parse_hex(body); return f(v); }
	case 'u': { const uint64_t v = std::strtoull(body.c_str(), nullptr, 16); return f(v); }
	case 'i': { const int64_t v = parse_shex(body); return f(v); }
	case 'f': { const uint32_t b = static_cast<uint32_t>(std::strtoull(body.c_str(), nullptr, 16)); float v; std::memcpy(&v, &b, 4); return f(v); }
	case 'd': { const uint64_t b = std::strtoull(body.c_str(), nullptr, 16); double v; std::memcpy(&v, &b, 8); return f(v); }
	case 't': { auto p = vh::split(body, '_'); const CBinTimestamp v(parse_shex(p.at(0)), static_cast<int32_t>(parse_shex(p.at(1)))); return f(v); }
	default: throw DriverError{"bad key"};
	}
}

// call f with a fresh target of the kind, then report
template <class F>
static void with_target(const std::string& ty, F&& f) {
#define TG(NAME, T, FMT) if (ty == NAME) { T v{}; const bool ok = f(v); emit(ok ? std::string("T") + (FMT) : std::string("F")); return; }
	TG("u1", bool, std::string(v ? "+1" : "+0"))
	TG("u8", uint8_t, fmt_shex(v)) TG("u16", uint16_t, fmt_shex(v)) TG("u32", uint32_t, fmt_shex(v))
	TG("u64", uint64_t, "+" + fmt_hexnum(v))
	TG("c8", char, fmt_shex(v))
	TG("s8", int8_t, fmt_shex(v)) TG("s16", int16_t, fmt_shex(v)) TG("s32", int32_t, fmt_shex(v)) TG("s64", int64_t, fmt_shex(v))
	TG("nil", std::nullptr_t, std::string("nil"))
	TG("f32", float, "f" + fmt_f32(v)) TG("f64", double, "d" + fmt_f64(v))
	TG("str", std::string_view, "s" + vh::fmt_hex(std::string(v)))
	TG("ts", CBinTimestamp, "t" + fmt_shex(v.Seconds) + "_" + fmt_shex(v.Nanoseconds))
#undef TG
	throw DriverError{"bad target"};
}

static void walk_arr(ArrScope& sc, const std::vector<Node>& items);

static void read_bytes(BinScope& sc, size_t n) {
	for (size_t i = 0; i < n; ++i) {
		char c = 0;
		sc.SerializeValue(c);
		emit("x" + fmt_hexnum(static_cast<unsigned char>(c)));
	}
}

static void walk_obj(ObjScope& sc, const std::vector<Node>& items) {
	for (const Node& nd : items) {
		switch (nd.kind) {
		case 'G':
			with_target(nd.target, [&](auto& value) {
				return with_key(nd.key, [&](const auto& key) { return sc.SerializeValue(key, value); });
			});
			break;
		case 'O': {
			auto child = with_key(nd.key, [&](const auto& key) { return sc.OpenObjectScope(key, 0); });
			if (child) { emit("("); walk_obj(*child, nd.body); emit(")"); } else emit("n");
			break;
		}
		case 'A': {
			auto child = with_key(nd.key, [&](const auto& key) { return sc.OpenArrayScope(key, 0); });
			if (child) { emit("("); walk_arr(*child, nd.body); emit(")"); } else emit("n");
			break;
		}
		case 'B': {
			auto child = with_key(nd.key, [&](const auto& key) { return sc.OpenBinaryScope(key, 0); });
			if (child) { emit("("); read_bytes(*child, nd.n); emit(")"); } else emit("n");
			break;
		}
		case 'V': {
			std::string keys;
			sc.VisitKeys([&](auto&& key) { if (!keys.empty()) keys.push_back(';'); keys += key_text(key); });
			emit("K[" + keys + "]");
			break;
		}
		case 'E': {
			size_t i = 0;
			sc.VisitKeys([&](auto&& key) {
				if (i >= nd.body.size()) return;
				const Node& act = nd.body[i++];
				switch (act.kind) {
				case 'k': break;
				case 'x':
					throw SerializationException(act.target == "O" ? SerializationErrorCode::Overflow : SerializationErrorCode::MismatchedTypes, "thrown by the callback");
				case 'g':
					with_target(act.target, [&](auto& value) { return sc.SerializeValue(key, value); });
					break;
				case 'o': {
					auto child = sc.OpenObjectScope(key, 0);
					if (child) { emit("("); walk_obj(*child, act.body); emit(")"); } else emit("n");
					break;
				}
				case 'a': {
					auto child = sc.OpenArrayScope(key, 0);
					if (child) { emit("("); walk_arr(*child, act.body); emit(")"); } else emit("n");
					break;
				}
				case 'b': {
					auto child = sc.OpenBinaryScope(key, 0);
					if (child) { emit("("); read_bytes(*child, act.n); emit(")"); } else emit("n");
					break;
				}
				case 'c': {
					bool done = false;
					{
						auto child = sc.OpenBinaryScope(key, 0);
						if (child) { emit("("); read_bytes(*child, act.n); emit(")"); done = true; } else emit("n");
					}
					if (!done) {
						auto child = sc.OpenArrayScope(key, 0);
						if (child) { emit("("); walk_arr(*child, act.body); emit(")"); } else emit("n");
					}
					break;
				}
				default: throw DriverError{"bad callback action"};
				}
			});
			break;
		}
		default: throw DriverError{"array item in an object scope"};
		}
	}
}

static void walk_arr(ArrScope& sc, const std::vector<Node>& items) {
	for (const Node& nd : items) {
		switch (nd.kind) {
		case 'g':
			with_target(nd.target, [&](auto& value) { return sc.SerializeValue(value); });
			break;
		case 'o': {
			auto child = sc.OpenObjectScope(0);
			if (child) { emit("("); walk_obj(*child, nd.body); emit(")"); } else emit("n");
			break;
		}
		case 'a': {
			auto child = sc.OpenArrayScope(0);
			if (child) { emit("("); walk_arr(*child, nd.body); emit(")"); } else emit("n");
			break;
		}
		case 'b': {
			auto child = sc.OpenBinaryScope(0);
			if (child) { emit("("); read_bytes(*child, nd.n); emit(")"); } else emit("n");
			break;
		}
		case 'e': emit(sc.IsEnd() ? "E1" : "E0"); break;
		case 't':
			if (nd.body.size() != 1) throw DriverError{"t,(,one item,) expected"};
			try { walk_arr(sc, nd.body); }
			catch (const SerializationException& ex) {
				if (ex.GetErrorCode() != SerializationErrorCode::OutOfRange) throw;
				emit("C");
			}
			break;
		case 'x':
			throw SerializationException(nd.target == "R" ? SerializationErrorCode::OutOfRange
				: nd.target == "O" ? SerializationErrorCode::Overflow : SerializationErrorCode::MismatchedTypes, "thrown by the caller");
		default: throw DriverError{"object item in an array scope"};
		}
	}
}

// the root opened directly on a reader, the way MsgPackReadRootScope::OpenObjectScope/OpenArrayScope do
static void run_on_reader(IMsgPackReader& r, SerializationContext& ctx, bool arrayRoot, const std::vector<Node>& items) {
	if (arrayRoot) {
		if (size_t sz = 0; r.ReadArraySize(sz)) {
			ArrScope sc(sz, &r, ctx);
			emit("("); walk_arr(sc, items); emit(")");
		}
		else emit("n");
	}
	else {
		if (size_t sz = 0; r.ReadMapSize(sz)) {
			ObjScope sc(sz, &r, ctx);
			emit("("); walk_obj(sc, items); emit(")");
		}
		else emit("n");
	}
}

static void run_on_root(MsgPackReadRootScope& root, bool arrayRoot, const std::vector<Node>& items) {
	if (arrayRoot) {
		auto sc = root.OpenArrayScope(0);
		if (sc) { emit("("); walk_arr(*sc, items); emit(")"); } else emit("n");
	}
	else {
		auto sc = root.OpenObjectScope(0);
		if (sc) { emit("("); walk_obj(*sc, items); emit(")"); } else emit("n");
	}
}

template <class R>
static std::string sentinel(R&& readInt64) {
	try {
		int64_t v = 0;
		return readInt64(v) ? "T" + fmt_shex(v) : std::string("F");
	} catch (...) { return "ERR:" + cat_of_current_exception(); }
}

// what LoadObject does after Serialize() returned normally
static std::string finalize(MsgPackReadRootScope& root) {
	try { root.Finalize(); return "OK"; }
	catch (...) { return "ERR:" + cat_of_current_exception(); }
}

static void on_terminate() {
	std::cout.flush();
	const char msg[] = "TERMINATE\n";
	(void)!write(2, msg, sizeof msg - 1);
	_exit(3);
}

int main() {
	std::ios::sync_with_stdio(false);
	std::set_terminate(on_terminate);
	std::string line;
	while (std::getline(std::cin, line)) {
		auto t = vh::split(line);
		g_out.clear();
		try {
			if ((t.at(0) == "hist" || t.at(0) == "ahist") && t.size() == 5) {
				const bool arrayRoot = t[0] == "ahist";
				SerializationOptions opt;
				opt.mismatchedTypesPolicy = t.at(2).at(0) == 'T' ? MismatchedTypesPolicy::ThrowError : MismatchedTypesPolicy::Skip;
				opt.overflowNumberPolicy = t.at(2).at(1) == 'T' ? OverflowNumberPolicy::ThrowError : OverflowNumberPolicy::Skip;
				const std::string data = vh::parse_hex(t.at(3));
				std::vector<Node> items;
				if (t.at(4) != "-") { auto ht = vh::split(t.at(4), ','); size_t i = 0; items = parse_items(ht, i); if (i != ht.size()) throw DriverError{"unbalanced )"}; }
				SerializationContext ctx(opt);
				std::string tail;
				const char kind = t.at(1).at(0);
				if (kind == 'm') {
					CMsgPackStringReader r(data, opt);
					run_on_reader(r, ctx, arrayRoot, items);
					tail = std::to_string(r.GetPosition());
					tail += " " + sentinel([&](int64_t& v) { return r.ReadValue(v); });
					tail += r.IsCloseScopeFailed() ? " CF1" : " CF0";
				}
				else if (kind == 's') {
					std::istringstream is(data);
					CMsgPackStreamReader r(is, opt);
					run_on_reader(r, ctx, arrayRoot, items);
					tail = std::to_string(r.GetPosition());
					tail += " " + sentinel([&](int64_t& v) { return r.ReadValue(v); });
					tail += r.IsCloseScopeFailed() ? " CF1" : " CF0";
				}
				else if (kind == 'M') {
					MsgPackReadRootScope root(std::string_view(data), ctx);
					run_on_root(root, arrayRoot, items);
					tail = "? " + sentinel([&](int64_t& v) { return root.SerializeValue(v); });
					tail += " " + finalize(root);
				}
				else if (kind == 'S') {
					std::istringstream is(data);
					MsgPackReadRootScope root(is, ctx);
					run_on_root(root, arrayRoot, items);
					tail = "? " + sentinel([&](int64_t& v) { return root.SerializeValue(v); });
					tail += " " + finalize(root);
				}
				else throw DriverError{"bad kind"};
				std::cout << (g_out.empty() ? "-" : g_out) << " END " << tail << std::endl;
			}
			else std::cout << "UNSUPPORTED" << std::endl;
		} catch (const DriverError& e) {
			std::cout << "EXC " << e.what << std::endl;
		} catch (...) {
			std::cout << (g_out.empty() ? "-" : g_out) << " ERR " << cat_of_current_exception() << std::endl;
		}
	}
	return 0;
}
