// Correspondence driver for the MsgPack value codec (C06, C07, C05, C04 positions).
// Calls the internal writer/reader classes of /repo/src/msgpack (compiled into this binary).
//
// writer ops  (kind: m = CMsgPackStringWriter, s = CMsgPackStreamWriter)     -> hex bytes | ERR <cat>
//   w <kind> nil | bool <0|1> | u8|u16|u32|u64 <hex> | i8|i16|i32|i64 <shex> | f32|f64 <hexbits>
//            | str <hexbytes> | strn <hexlen> | arr|map|bin <hexlen> | ts <shex secs> <shex nanos>
// reader ops  (kind: m = CMsgPackStringReader, s = CMsgPackStreamReader on std::istringstream (s<K> in q / p lines: the same, and K
//              must be the compiled chunk_size),
//              n<K> = CMsgPackStreamReader on a streambuf WITHOUT seek support delivering 1..3 bytes per underflow; K must be the
//              compiled CBinaryStreamReader::chunk_size, else the answer is UNSUPPORTED;
//              pol = two letters mismatch,overflow in T|S)
//   r <kind> <pol> int <u|s><bits> <hexdata> | nil | f32 | f64 | str | arr | map | bin | ts | type | skip | byte
//   (in q / p sequences also  seek:<decimal pos> = SetPosition(pos), answered OK - <pos after>;  end = IsEnd(), answered OK <0|1> <pos>)
//   answers: OK <value> <consumed> | NOT <consumed> | ERR <cat>
//   q <kind> <pol> <op,op,...> <hexdata>   a sequence of reads on one reader (int ops written int:<type>), answers joined by ';'
//   p <kind> <pol> <op,op,...> <hexdata>   the same, and an exception is answered ERR <cat> <GetPosition() after the throw>
// byte order:  rev <16|32|64> <hex>  -> the bytes NativeToBigEndian(value) has in memory ('!' appended if BigEndianToNative does not invert it)
// signed hex (shex): '-' or '+' followed by hex magnitude
#include "common.h"
#include <cmath>
#include <cstring>
#include <sstream>
#include <streambuf>
#include <algorithm>
#include "bitserializer/conversion_detail/memory_utils.h"
#include "msgpack/msgpack_writers.h"
#include "msgpack/msgpack_readers.h"

using namespace BitSerializer;
using namespace BitSerializer::MsgPack::Detail;
using vh::U;

static std::string cat_of_current_exception() {
	try { throw; }
	catch (const SerializationException& e) {
		switch (e.GetErrorCode()) {
		case SerializationErrorCode::ParsingError: return "P";
		case SerializationErrorCode::MismatchedTypes: return "M";
		case SerializationErrorCode::Overflow: return "O";
		case SerializationErrorCode::OutOfRange: return "R";
		case SerializationErrorCode::InputOutputError: return "IO";
		case SerializationErrorCode::UtfEncodingError: return "UTF";
		case SerializationErrorCode::UnregisteredEnum: return "ENUM";
		case SerializationErrorCode::FailedValidation: return "VAL";
		default: return "SER";
		}
	}
	catch (const std::invalid_argument&) { return "IA"; }
	catch (const std::out_of_range&) { return "OOR"; }
	catch (const std::exception&) { return "STD"; }
	catch (...) { return "UNK"; }
}

static int64_t parse_shex(const std::string& s) {
	uint64_t mag = std::strtoull(s.c_str() + 1, nullptr, 16);
	return s[0] == '-' ? static_cast<int64_t>(0 - mag) : static_cast<int64_t>(mag);
}
static std::string fmt_shex(int64_t v) {
	char buf[40];
	if (v < 0) std::snprintf(buf, sizeof buf, "-%llx", (unsigned long long)(0 - static_cast<uint64_t>(v)));
	else std::snprintf(buf, sizeof buf, "+%llx", (unsigned long long)v);
	return buf;
}
// a character sequence whose streambuf has no seekpos/seekoff (std::streambuf's defaults fail) and underflows 1..3 bytes at a time
class NoSeekBuf : public std::streambuf {
public:
	explicit NoSeekBuf(std::string data) : mData(std::move(data)) {}
protected:
	int_type underflow() override {
		if (mPos >= mData.size()) return traits_type::eof();
		const size_t n = std::min(mNext, mData.size() - mPos);
		mNext = mNext % 3 + 1;
		char* p = &mData[mPos];
		setg(p, p, p + n);
		mPos += n;
		return traits_type::to_int_type(*p);
	}
private:
	std::string mData; size_t mPos = 0; size_t mNext = 1;
};

static std::string fmt_hexnum(uint64_t v) { char buf[40]; std::snprintf(buf, sizeof buf, "%llx", (unsigned long long)v); return buf; }

template <class W>
static void do_write(W& w, const std::vector<std::string>& t) {
	const std::string& op = t.at(2);
	if (op == "nil") w.WriteValue(nullptr);
	else if (op == "bool") w.WriteValue(t.at(3) == "1");
	else if (op == "u8") w.WriteValue(static_cast<uint8_t>(std::strtoull(t.at(3).c_str(), nullptr, 16)));
	else if (op == "u16") w.WriteValue(static_cast<uint16_t>(std::strtoull(t.at(3).c_str(), nullptr, 16)));
	else if (op == "u32") w.WriteValue(static_cast<uint32_t>(std::strtoull(t.at(3).c_str(), nullptr, 16)));
	else if (op == "u64") w.WriteValue(static_cast<uint64_t>(std::strtoull(t.at(3).c_str(), nullptr, 16)));
	else if (op == "i8") w.WriteValue(static_cast<int8_t>(parse_shex(t.at(3))));
	else if (op == "i16") w.WriteValue(static_cast<int16_t>(parse_shex(t.at(3))));
	else if (op == "i32") w.WriteValue(static_cast<int32_t>(parse_shex(t.at(3))));
	else if (op == "i64") w.WriteValue(static_cast<int64_t>(parse_shex(t.at(3))));
	else if (op == "f32") { uint32_t b = static_cast<uint32_t>(std::strtoull(t.at(3).c_str(), nullptr, 16)); float f; std::memcpy(&f, &b, 4); w.WriteValue(f); }
	else if (op == "f64") { uint64_t b = std::strtoull(t.at(3).c_str(), nullptr, 16); double f; std::memcpy(&f, &b, 8); w.WriteValue(f); }
	else if (op == "str") { std::string s = vh::parse_hex(t.at(3)); w.WriteValue(std::string_view(s)); }
	else if (op == "strn") { std::string s(std::strtoull(t.at(3).c_str(), nullptr, 16), 'a'); w.WriteValue(std::string_view(s)); }
	else if (op == "arr") w.BeginArray(std::strtoull(t.at(3).c_str(), nullptr, 16));
	else if (op == "map") w.BeginMap(std::strtoull(t.at(3).c_str(), nullptr, 16));
	else if (op == "bin") w.BeginBinary(std::strtoull(t.at(3).c_str(), nullptr, 16));
	else if (op == "ts") w.WriteValue(CBinTimestamp(parse_shex(t.at(3)), static_cast<int32_t>(parse_shex(t.at(4)))));
	else throw std::runtime_error("unknown writer op");
}

static std::string fmt_f32(float f) { if (std::isnan(f)) return "nan"; uint32_t b; std::memcpy(&b, &f, 4); return fmt_hexnum(b); }
static std::string fmt_f64(double f) { if (std::isnan(f)) return "nan"; uint64_t b; std::memcpy(&b, &f, 8); return fmt_hexnum(b); }

template <class R>
static std::string do_read1(R& r, const std::string& op, const std::string& ty);

template <class R>
static std::string do_read(R& r, const std::vector<std::string>& t) {
	return do_read1(r, t.at(3), t.size() > 5 ? t.at(4) : std::string());
}

// q <kind> <pol> <op,op,...> <hexdata>: a sequence of reads on one reader; int ops are written int:<type>
template <class R>
static std::string do_seq(R& r, const std::string& ops, bool errpos = false) {
	std::string out;
	for (auto& o : vh::split(ops, ',')) {
		std::string op = o, ty;
		if (auto p = o.find(':'); p != std::string::npos) { op = o.substr(0, p); ty = o.substr(p + 1); }
		if (!out.empty()) out += ";";
		try { out += do_read1(r, op, ty); }
		catch (...) {
			out += "ERR " + cat_of_current_exception();
			if (errpos) out += " " + std::to_string(r.GetPosition());      // where the reader stands after the throw
			break;
		}
	}
	return out;
}

template <class R>
static std::string do_read1(R& r, const std::string& op, const std::string& ty) {
	auto done = [&](bool ok, const std::string& val) {
		return ok ? "OK " + val + " " + std::to_string(r.GetPosition()) : "NOT " + std::to_string(r.GetPosition());
	};
	if (op == "int") {
#define RI(NAME, T, FMT) if (ty == NAME) { T v{}; bool ok = r.ReadValue(v); return done(ok, FMT); }
		RI("u1", bool, std::string(v ? "+1" : "+0"))
		RI("u8", uint8_t, fmt_shex(v)) RI("u16", uint16_t, fmt_shex(v)) RI("u32", uint32_t, fmt_shex(v))
		if (ty == "u64") { uint64_t v{}; bool ok = r.ReadValue(v); return done(ok, "+" + fmt_hexnum(v)); }
		RI("c8", char, fmt_shex(v))
		RI("s8", int8_t, fmt_shex(v)) RI("s16", int16_t, fmt_shex(v)) RI("s32", int32_t, fmt_shex(v)) RI("s64", int64_t, fmt_shex(v))
#undef RI
		throw std::runtime_error("unknown int type");
	}
	if (op == "nil") { std::nullptr_t v{}; bool ok = r.ReadValue(v); return done(ok, "nil"); }
	if (op == "f32") { float v{}; bool ok = r.ReadValue(v); return done(ok, fmt_f32(v)); }
	if (op == "f64") { double v{}; bool ok = r.ReadValue(v); return done(ok, fmt_f64(v)); }
	if (op == "str") { std::string_view v; bool ok = r.ReadValue(v); return done(ok, vh::fmt_hex(std::string(v))); }
	if (op == "arr") { size_t v{}; bool ok = r.ReadArraySize(v); return done(ok, fmt_hexnum(v)); }
	if (op == "map") { size_t v{}; bool ok = r.ReadMapSize(v); return done(ok, fmt_hexnum(v)); }
	if (op == "bin") { size_t v{}; bool ok = r.ReadBinarySize(v); return done(ok, fmt_hexnum(v)); }
	if (op == "byte") { char c = r.ReadBinary(); return done(true, fmt_hexnum(static_cast<unsigned char>(c))); }
	if (op == "ts") { CBinTimestamp v; bool ok = r.ReadValue(v); return done(ok, fmt_shex(v.Seconds) + "," + fmt_shex(v.Nanoseconds)); }
	if (op == "skip") { r.SkipValue(); return done(true, "-"); }
	if (op == "type") { auto v = r.ReadValueType(); return done(true, std::to_string(static_cast<int>(v))); }
	if (op == "seek") { r.SetPosition(std::stoul(ty)); return done(true, "-"); }      // seek:<decimal position>
	if (op == "end") { const bool e = r.IsEnd(); return done(true, e ? "1" : "0"); }
	throw std::runtime_error("unknown reader op");
}

int main() {
	std::ios::sync_with_stdio(false);
	std::string line;
	while (std::getline(std::cin, line)) {
		auto t = vh::split(line);
		try {
			if (t.at(0) == "w") {
				std::string out;
				if (t.at(1) == "m") { CMsgPackStringWriter w(out); do_write(w, t); }
				else { std::ostringstream os; { CMsgPackStreamWriter w(os); do_write(w, t); } out = os.str(); }
				std::cout << vh::fmt_hex(out) << "\n";
			}
			else if (t.at(0) == "rev") {
				// rev <16|32|64> <hex>: Memory::NativeToBigEndian on the unsigned type of that width, then the object
				// representation (raw copy, as the writers emit it); BigEndianToNative of that gives the value back
				const unsigned long long v = std::stoull(t.at(2), nullptr, 16);
				std::string raw;
				auto emit = [&raw](auto x, auto orig) {
					raw.assign(reinterpret_cast<const char*>(&x), sizeof x);
					if (BitSerializer::Memory::BigEndianToNative(x) != orig) raw += "!";
				};
				if (t.at(1) == "16") emit(BitSerializer::Memory::NativeToBigEndian(static_cast<uint16_t>(v)), static_cast<uint16_t>(v));
				else if (t.at(1) == "32") emit(BitSerializer::Memory::NativeToBigEndian(static_cast<uint32_t>(v)), static_cast<uint32_t>(v));
				else emit(BitSerializer::Memory::NativeToBigEndian(static_cast<uint64_t>(v)), static_cast<uint64_t>(v));
				std::cout << vh::fmt_hex(raw) << "\n";
			}
			else if (t.at(0) == "q" || t.at(0) == "p") {
				const bool errpos = t.at(0) == "p";
				SerializationOptions opt;
				opt.mismatchedTypesPolicy = t.at(2).at(0) == 'T' ? MismatchedTypesPolicy::ThrowError : MismatchedTypesPolicy::Skip;
				opt.overflowNumberPolicy = t.at(2).at(1) == 'T' ? OverflowNumberPolicy::ThrowError : OverflowNumberPolicy::Skip;
				std::string data = vh::parse_hex(t.back());
				if (t.at(1) == "m") { CMsgPackStringReader r(data, opt); std::cout << do_seq(r, t.at(3), errpos) << "\n"; }
				else if (t.at(1).at(0) == 'n') {
					if (std::stoul(t.at(1).substr(1)) != BitSerializer::Detail::CBinaryStreamReader::chunk_size) std::cout << "UNSUPPORTED\n";
					else { NoSeekBuf buf(data); std::istream is(&buf); CMsgPackStreamReader r(is, opt); std::cout << do_seq(r, t.at(3), errpos) << "\n"; }
				}
				else if (t.at(1).size() > 1 && std::stoul(t.at(1).substr(1)) != BitSerializer::Detail::CBinaryStreamReader::chunk_size) std::cout << "UNSUPPORTED\n";   // s<K>
				else { std::istringstream is(data); CMsgPackStreamReader r(is, opt); std::cout << do_seq(r, t.at(3), errpos) << "\n"; }
			}
			else if (t.at(0) == "r") {
				SerializationOptions opt;
				opt.mismatchedTypesPolicy = t.at(2).at(0) == 'T' ? MismatchedTypesPolicy::ThrowError : MismatchedTypesPolicy::Skip;
				opt.overflowNumberPolicy = t.at(2).at(1) == 'T' ? OverflowNumberPolicy::ThrowError : OverflowNumberPolicy::Skip;
				std::string data = vh::parse_hex(t.back());
				if (t.at(1) == "m") { CMsgPackStringReader r(data, opt); std::cout << do_read(r, t) << "\n"; }
				else { std::istringstream is(data); CMsgPackStreamReader r(is, opt); std::cout << do_read(r, t) << "\n"; }
			}
			else std::cout << "UNSUPPORTED\n";
		} catch (...) {
			std::cout << "ERR " << cat_of_current_exception() << "\n";
		}
	}
	return 0;
}
