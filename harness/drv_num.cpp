// Correspondence driver for the num family (C04, C16): Convert::To / TryTo between arithmetic types,
// Detail::ConvertByPolicy, number <-> text in the four string widths, the bool parser, and the real
// std::from_chars / std::to_chars (against which the MODELLED standard functions are validated).
//
// Types:  bool char i8 u8 i16 u16 i32 u32 i64 u64 f32 f64        widths: 8 16 32 wc (wchar_t)
// Integers travel as [-]hex, floats as the hex of their bit pattern, strings as unit lists.
//
//   conv <S> <T> <value>                         Convert::To<T>(S) and TryTo<T>(S)
//   policy <S> <T> <value> <old> <ovf> <mism>    Detail::ConvertByPolicy(S, T& = old, mism, ovf)      (S|T = Skip|ThrowError)
//   policyx <T> <old> <ovf> <mism>               same with a source type that has no conversion at all
//   policys <w> <T> <units> <old> <ovf> <mism>   same with a string_view source
//   num.tostr <T> <w> <value> <out0>             Convert::To<basic_string<C>>(T, out0)
//   num.parse <T> <w> <units>                    Convert::To<T>(basic_string_view<C>)
//   bool.parse <w> <units>                       Convert::To<bool>(basic_string_view<C>)
//   stdfc <T> <units8>                           std::from_chars(first, last, T&)
//   stdtc <T> <cap> <value>                      std::to_chars(buf, buf + cap, T)
//   sweepconv <S> <lo> <hi>                      all 10 integer targets for source values lo(S)+i, i in [lo,hi): hashed
//   sweeppol <S> <lo> <hi>                       ... through ConvertByPolicy with the 4 policy combinations: hashed
//   sweeptext <T> <w> <lo> <hi>                  tostr, parse back, parse into every 8/16-bit type: hashed
//   sweepstd <T> <lo> <hi>                       std::to_chars then std::from_chars into every integer type: hashed
//   fp.rt <T> <w> <bits>                         text of a float/double and what it parses back to: OK <units> <OK bits|OOR|INV>
//   fp.parse <T> <w> <units>                     Convert::To<T>(basic_string_view<C>) for T = f32 | f64
//   sweepfp <T> <lo> <hi> <step>                 bit patterns lo, lo+step, .. < hi: text parses back bit-identically, glibc strtof/strtod
//                                                reads the same value from it, no decimal that round-trips can be written with fewer characters: FPSWEEP <count> <bad> <first bad>
// Answers: OK <v> | OOR | INV | OTHER ;  LOADED <t> | NOTLOADED <t> | EXC <code> <t> ;  H <hash> <count> <nontrivial>
//
// Build variants (to keep compile time down the checks build three binaries from this file, in parallel):
//   -DNUM_PART_CONV   conv / policy* / sweepconv / sweeppol          (C04)
//   -DNUM_PART_TEXT   num.* / bool.parse / std* / sweeptext / sweepstd / fp.rt / fp.parse   (C16)
//   -DNUM_PART_FP     fp.rt / fp.parse / sweepfp only (built -O2 without sanitizers for the 2^32 float sweep)
//   none of them      everything
#if !defined(NUM_PART_CONV) && !defined(NUM_PART_TEXT) && !defined(NUM_PART_FP)
#define NUM_PART_CONV
#define NUM_PART_TEXT
#define NUM_PART_FP
#endif
#include "common.h"
#include "bitserializer/bit_serializer.h"
#include "bitserializer/convert.h"
#include <algorithm>
#include <charconv>
#include <cstring>
#include <limits>

using namespace BitSerializer;
using vh::U;

template <class T> struct Tag { using type = T; };

template <class F> static bool with_int_type(const std::string& n, F f) {
	if (n == "bool") { f(Tag<bool>{}); return true; }
	if (n == "char") { f(Tag<char>{}); return true; }
	if (n == "i8") { f(Tag<int8_t>{}); return true; }
	if (n == "u8") { f(Tag<uint8_t>{}); return true; }
	if (n == "i16") { f(Tag<int16_t>{}); return true; }
	if (n == "u16") { f(Tag<uint16_t>{}); return true; }
	if (n == "i32") { f(Tag<int32_t>{}); return true; }
	if (n == "u32") { f(Tag<uint32_t>{}); return true; }
	if (n == "i64") { f(Tag<int64_t>{}); return true; }
	if (n == "u64") { f(Tag<uint64_t>{}); return true; }
	return false;
}
template <class F> static bool with_type(const std::string& n, F f) {
	if (with_int_type(n, f)) return true;
	if (n == "f32") { f(Tag<float>{}); return true; }
	if (n == "f64") { f(Tag<double>{}); return true; }
	return false;
}
template <class F> static bool with_width(const std::string& n, F f) {
	if (n == "8") { f(Tag<char>{}); return true; }
	if (n == "16") { f(Tag<char16_t>{}); return true; }
	if (n == "32") { f(Tag<char32_t>{}); return true; }
	if (n == "wc") { f(Tag<wchar_t>{}); return true; }
	return false;
}
static const char* INT_TYPES[] = { "bool", "char", "i8", "u8", "i16", "u16", "i32", "u32", "i64", "u64" };

struct BadCase : std::runtime_error { BadCase(const std::string& s) : std::runtime_error(s) {} };

// ---- values ----
struct Big { bool neg; U mag; };   // sign and magnitude
static Big parse_big(const std::string& s) {
	Big b{ false, 0 };
	size_t i = 0;
	if (!s.empty() && s[0] == '-') { b.neg = true; i = 1; }
	if (i >= s.size() || s.size() - i > 16) throw BadCase("value");
	b.mag = std::strtoull(s.c_str() + i, nullptr, 16);
	if (b.mag == 0) b.neg = false;
	return b;
}
static std::string fmt_big(bool neg, U mag) {
	char buf[40]; std::snprintf(buf, sizeof buf, "%s%llx", (neg && mag) ? "-" : "", (unsigned long long)mag); return buf;
}
template <class T> static T value_of(const std::string& s) {
	if constexpr (std::is_same_v<T, float>) { uint32_t b = (uint32_t)std::strtoul(s.c_str(), nullptr, 16); float f; std::memcpy(&f, &b, 4); return f; }
	else if constexpr (std::is_same_v<T, double>) { uint64_t b = std::strtoull(s.c_str(), nullptr, 16); double f; std::memcpy(&f, &b, 8); return f; }
	else if constexpr (std::is_same_v<T, bool>) { Big b = parse_big(s); if (b.neg || b.mag > 1) throw BadCase("range"); return b.mag == 1; }
	else {
		Big b = parse_big(s);
		if (b.neg) {
			if (!std::is_signed_v<T>) throw BadCase("range");
			U lim = U(1) << (sizeof(T) * 8 - 1);
			if (b.mag > lim) throw BadCase("range");
			return static_cast<T>(-static_cast<int64_t>(b.mag - 1) - 1);
		}
		if (b.mag > static_cast<U>(std::numeric_limits<T>::max())) throw BadCase("range");
		return static_cast<T>(b.mag);
	}
}
template <class T> static std::string fmt_value(T v) {
	if constexpr (std::is_same_v<T, float>) { if (v != v) return "NAN"; uint32_t b; std::memcpy(&b, &v, 4); char buf[20]; std::snprintf(buf, sizeof buf, "%08x", b); return buf; }
	else if constexpr (std::is_same_v<T, double>) { if (v != v) return "NAN"; uint64_t b; std::memcpy(&b, &v, 8); char buf[24]; std::snprintf(buf, sizeof buf, "%016llx", (unsigned long long)b); return buf; }
	else if constexpr (std::is_same_v<T, bool>) { return v ? "1" : "0"; }
	else if constexpr (std::is_signed_v<T>) {
		if (v < 0) return fmt_big(true, U(0) - static_cast<U>(static_cast<int64_t>(v)));
		return fmt_big(false, static_cast<U>(v));
	}
	else return fmt_big(false, static_cast<U>(v));
}
// i-th value of an integer type counted from its minimum
template <class T> static T nth_value(U i) {
	if constexpr (std::is_same_v<T, bool>) return i != 0;
	else return static_cast<T>(static_cast<int64_t>(std::numeric_limits<T>::min()) + static_cast<int64_t>(i));
}

template <class C> static std::basic_string<C> to_str(const std::vector<U>& v) {
	std::basic_string<C> s; for (U x : v) s.push_back(static_cast<C>(x)); return s;
}
template <class C> static std::string fmt_str(const std::basic_string<C>& s) {
	std::vector<U> v;
	for (auto c : s) v.push_back(static_cast<U>(static_cast<std::make_unsigned_t<C>>(c)));
	return vh::fmt_list(v.begin(), v.end());
}

// ---- single operations; each returns the canonical answer ----
template <class F> static std::string guarded(F f) {
	try { return f(); }
	catch (const BadCase&) { throw; }
	catch (const SerializationException& e) { return std::string("SEXC ") + std::to_string((int)e.GetErrorCode()); }
	catch (const std::out_of_range&) { return "OOR"; }
	catch (const std::invalid_argument&) { return "INV"; }
	catch (const std::exception&) { return "OTHER"; }
}

template <class S, class T> static std::string op_conv(S v) {
	std::string a = guarded([&] { return "OK " + fmt_value<T>(Convert::To<T>(v)); });
	auto t = Convert::TryTo<T>(v);
	std::string b = t.has_value() ? "OK " + fmt_value<T>(*t) : "NONE";
	if ((a.rfind("OK ", 0) == 0) != t.has_value() || (t.has_value() && a != b)) return "TRYMISMATCH " + a + " / " + b;
	return a;
}

static const char* code_name(SerializationErrorCode c) {
	switch (c) {
	case SerializationErrorCode::Overflow: return "Overflow";
	case SerializationErrorCode::MismatchedTypes: return "MismatchedTypes";
	case SerializationErrorCode::ParsingError: return "ParsingError";
	case SerializationErrorCode::UnregisteredEnum: return "UnregisteredEnum";
	default: return "OtherCode";
	}
}
static MismatchedTypesPolicy mism_of(const std::string& s) { return s == "S" ? MismatchedTypesPolicy::Skip : MismatchedTypesPolicy::ThrowError; }
static OverflowNumberPolicy ovf_of(const std::string& s) { return s == "S" ? OverflowNumberPolicy::Skip : OverflowNumberPolicy::ThrowError; }

template <class S, class T> static std::string op_policy(S src, T old, OverflowNumberPolicy ovf, MismatchedTypesPolicy mism) {
	T target = old;
	try {
		bool r = BitSerializer::Detail::ConvertByPolicy(src, target, mism, ovf);
		return std::string(r ? "LOADED " : "NOTLOADED ") + fmt_value<T>(target);
	}
	catch (const SerializationException& e) { return std::string("EXC ") + code_name(e.GetErrorCode()) + " " + fmt_value<T>(target); }
	catch (const std::exception&) { return "EXC foreign " + fmt_value<T>(target); }
}

struct NoConversion {};   // a source type for which Convert::IsConvertible is false

template <class T, class C> static std::string op_tostr(T v, const std::basic_string<C>& out0) {
	return guarded([&] { return "OK " + fmt_str<C>(Convert::To<std::basic_string<C>>(v, out0)); });
}
template <class T, class C> static std::string op_parse(const std::basic_string<C>& s) {
	std::string a = guarded([&] { return "OK " + fmt_value<T>(Convert::To<T>(std::basic_string_view<C>(s))); });
	auto t = Convert::TryTo<T>(std::basic_string_view<C>(s));
	if ((a.rfind("OK ", 0) == 0) != t.has_value()) return "TRYMISMATCH " + a;
	return a;
}

template <class T> static std::string op_stdfc(const std::string& s) {
	if constexpr (std::is_same_v<T, bool>) return "UNSUPPORTED";
	else {
		T v = 0;
		auto rc = std::from_chars(s.data(), s.data() + s.size(), v);
		const char* ec = rc.ec == std::errc() ? "ok" : rc.ec == std::errc::invalid_argument ? "inv" : rc.ec == std::errc::result_out_of_range ? "oor" : "other";
		std::string r = std::string(ec) + " " + std::to_string(rc.ptr - s.data());
		r += rc.ec == std::errc() ? " " + fmt_value<T>(v) : " -";
		return r;
	}
}
template <class T> static std::string op_stdtc(size_t cap, T v) {
	if constexpr (std::is_same_v<T, bool>) return "UNSUPPORTED";
	else {
		std::vector<char> buf(cap + 1);
		auto rc = std::to_chars(buf.data(), buf.data() + cap, v);
		if (rc.ec != std::errc()) return "TOOLARGE";
		return "OK " + fmt_str<char>(std::string(buf.data(), rc.ptr));
	}
}

// ---- floating-point text ----
template <class T> static T strto(const char* s) { if constexpr (std::is_same_v<T, float>) return std::strtof(s, nullptr); else return std::strtod(s, nullptr); }
template <class T> static bool same_bits(T a, T b) { if (a != a && b != b) return true; return std::memcmp(&a, &b, sizeof(T)) == 0; }

// digits and decimal exponent of a finite to_chars text: value = 0.D1D2..Dn * 10^e10, no leading/trailing zero digits
static bool decimal_parts(const std::string& txt, std::string& digits, long& e10) {
	size_t i = 0;
	if (i < txt.size() && txt[i] == '-') ++i;
	std::string ip, fp; long ex = 0;
	while (i < txt.size() && std::isdigit((unsigned char)txt[i])) ip.push_back(txt[i++]);
	if (i < txt.size() && txt[i] == '.') { ++i; while (i < txt.size() && std::isdigit((unsigned char)txt[i])) fp.push_back(txt[i++]); }
	if (i < txt.size() && (txt[i] == 'e' || txt[i] == 'E')) { ex = std::strtol(txt.c_str() + i + 1, nullptr, 10); i = txt.size(); }
	if (i != txt.size() || (ip.empty() && fp.empty())) return false;
	digits = ip + fp; e10 = (long)ip.size() + ex;
	size_t lead = 0; while (lead < digits.size() && digits[lead] == '0') ++lead;
	digits.erase(0, lead); e10 -= (long)lead;
	while (!digits.empty() && digits.back() == '0') digits.pop_back();
	return true;
}
// fewest characters needed to write D * 10^k (D has nd digits, no trailing zero) in printf %f or %e style
static long min_chars(long nd, long k) {
	long fixed = k >= 0 ? nd + k : (k > -nd ? nd + 1 : 2 - k);
	long E = k + nd - 1, aE = E < 0 ? -E : E;
	long ed = aE >= 100 ? 3 : 2;
	long sci = (nd == 1 ? 1 : nd + 1) + 2 + ed;
	return fixed < sci ? fixed : sci;
}
// [charconv.to.chars]: "the smallest number of characters such that ... from_chars recovers value exactly".
// Is there a decimal with fewer significant digits that reads back as x AND can be written with fewer characters?
template <class T> static bool fewer_chars_exists(const std::string& digits, long e10, bool neg, T x, long textlen) {
	// an n-digit decimal that reads back as x can be padded to n+1 digits, so walking downwards from one digit
	// less than the text we may stop at the first length that has no such decimal
	for (size_t n = digits.size() - 1; n >= 1; --n) {
		std::string d = digits.substr(0, n);
		bool found = false;
		for (int up = 0; up < 2; ++up) {
			std::string c = d; long e = e10;
			if (up) {
				int k = (int)c.size() - 1;
				while (k >= 0 && c[k] == '9') { c[k] = '0'; --k; }
				if (k >= 0) ++c[k]; else { c.insert(c.begin(), '1'); ++e; }
			}
			std::string t = std::string(neg ? "-" : "") + "0." + c + "e" + std::to_string(e);
			if (!same_bits(strto<T>(t.c_str()), x)) continue;
			found = true;
			while (c.size() > 1 && c.back() == '0') c.pop_back();
			if (min_chars((long)c.size(), e - (long)c.size()) < textlen) return true;
		}
		if (!found) break;
	}
	return false;
}
// returns "" when all three facts hold for x, else what failed
template <class T> static std::string fp_check(T x) {
	std::string txt;
	try { txt = Convert::ToString(x); } catch (const std::exception&) { return "tostring-throws"; }
	T back;
	try { back = Convert::To<T>(std::string_view(txt)); } catch (const std::exception&) { return "parse-back-throws"; }
	if (!same_bits(back, x)) return "parse-back-differs";
	if (x != x || x == std::numeric_limits<T>::infinity() || x == -std::numeric_limits<T>::infinity()) return "";
	if (!same_bits(strto<T>(txt.c_str()), x)) return "strtod-reads-another-value";
	std::string digits; long e10;
	if (!decimal_parts(txt, digits, e10)) return "unexpected-text-form";
	if (digits.empty()) return "";
	bool neg = txt[0] == '-';
	if (fewer_chars_exists<T>(digits, e10, neg, x, (long)txt.size() - (neg ? 1 : 0))) return "not-shortest";
	return "";
}
template <class T> static T fp_from_pattern(U b) {
	if constexpr (std::is_same_v<T, float>) { uint32_t v = (uint32_t)b; float f; std::memcpy(&f, &v, 4); return f; }
	else { uint64_t v = b; double f; std::memcpy(&f, &v, 8); return f; }
}

// ---- hashing of answers ----
static U g_nontrivial = 0;
static void fold(vh::Hash& h, const std::string& ans) {
	for (unsigned char c : ans) h.add(c);
	h.add(0x100); h.tick();
	if (ans.rfind("OK ", 0) != 0 && ans.rfind("LOADED ", 0) != 0) ++g_nontrivial;
}

int main() {
	std::ios::sync_with_stdio(false);
	std::string line;
	while (std::getline(std::cin, line)) {
		auto t = vh::split(line);
		std::string ans = "UNSUPPORTED";
		try {
			const std::string& op = t.at(0);
			if (false) {}
#ifdef NUM_PART_CONV
			else if (op == "conv") {
				with_type(t.at(1), [&](auto s) { using S = typename decltype(s)::type;
					with_type(t.at(2), [&](auto d) { using T = typename decltype(d)::type;
						ans = op_conv<S, T>(value_of<S>(t.at(3))); }); });
			}
			else if (op == "policy") {
				with_type(t.at(1), [&](auto s) { using S = typename decltype(s)::type;
					with_type(t.at(2), [&](auto d) { using T = typename decltype(d)::type;
						ans = op_policy<S, T>(value_of<S>(t.at(3)), value_of<T>(t.at(4)), ovf_of(t.at(5)), mism_of(t.at(6))); }); });
			}
			else if (op == "policyx") {
				with_type(t.at(1), [&](auto d) { using T = typename decltype(d)::type;
					ans = op_policy<NoConversion, T>(NoConversion{}, value_of<T>(t.at(2)), ovf_of(t.at(3)), mism_of(t.at(4))); });
			}
			else if (op == "policys") {
				with_width(t.at(1), [&](auto c) { using C = typename decltype(c)::type;
					with_int_type(t.at(2), [&](auto d) { using T = typename decltype(d)::type;
						auto s = to_str<C>(vh::parse_list(t.at(3)));
						ans = op_policy<std::basic_string_view<C>, T>(std::basic_string_view<C>(s), value_of<T>(t.at(4)), ovf_of(t.at(5)), mism_of(t.at(6))); }); });
			}
#endif
#ifdef NUM_PART_TEXT
			else if (op == "num.tostr") {
				with_int_type(t.at(1), [&](auto d) { using T = typename decltype(d)::type;
					with_width(t.at(2), [&](auto c) { using C = typename decltype(c)::type;
						ans = op_tostr<T, C>(value_of<T>(t.at(3)), to_str<C>(vh::parse_list(t.at(4)))); }); });
			}
			else if (op == "num.parse") {
				with_int_type(t.at(1), [&](auto d) { using T = typename decltype(d)::type;
					with_width(t.at(2), [&](auto c) { using C = typename decltype(c)::type;
						ans = op_parse<T, C>(to_str<C>(vh::parse_list(t.at(3)))); }); });
			}
			else if (op == "bool.parse") {
				with_width(t.at(1), [&](auto c) { using C = typename decltype(c)::type;
					ans = op_parse<bool, C>(to_str<C>(vh::parse_list(t.at(2)))); });
			}
#endif
#if defined(NUM_PART_TEXT) || defined(NUM_PART_FP)
			else if (op == "fp.rt" || op == "fp.parse") {
				auto run = [&](auto d) { using T = typename decltype(d)::type;
					with_width(t.at(2), [&](auto c) { using C = typename decltype(c)::type;
						if (op == "fp.parse") { ans = op_parse<T, C>(to_str<C>(vh::parse_list(t.at(3)))); return; }
						T x = value_of<T>(t.at(3));
						std::basic_string<C> txt;
						ans = guarded([&] { txt = Convert::To<std::basic_string<C>>(x); return "OK " + fmt_str<C>(txt); });
						if (ans.rfind("OK ", 0) == 0) ans += " " + op_parse<T, C>(txt); }); };
				if (t.at(1) == "f32") run(Tag<float>{}); else if (t.at(1) == "f64") run(Tag<double>{});
			}
#endif
#ifdef NUM_PART_FP
			else if (op == "sweepfp") {
				U lo = std::strtoull(t.at(2).c_str(), nullptr, 16), hi = std::strtoull(t.at(3).c_str(), nullptr, 16), step = std::strtoull(t.at(4).c_str(), nullptr, 16);
				U count = 0, bad = 0; std::string first = "-";
				auto run = [&](auto d) { using T = typename decltype(d)::type;
					for (U b = lo; b < hi; b += step) {
						std::string why = fp_check<T>(fp_from_pattern<T>(b));
						++count;
						if (!why.empty()) { if (!bad) { char buf[40]; std::snprintf(buf, sizeof buf, "%llx:", (unsigned long long)b); first = buf + why; } ++bad; }
						if (hi - b <= step) break;
					} };
				if (t.at(1) == "f32") run(Tag<float>{}); else if (t.at(1) == "f64") run(Tag<double>{});
				ans = "FPSWEEP " + std::to_string(count) + " " + std::to_string(bad) + " " + first;
			}
#endif
#ifdef NUM_PART_TEXT
			else if (op == "stdfc") {
				with_int_type(t.at(1), [&](auto d) { using T = typename decltype(d)::type;
					ans = op_stdfc<T>(to_str<char>(vh::parse_list(t.at(2)))); });
			}
			else if (op == "stdtc") {
				with_int_type(t.at(1), [&](auto d) { using T = typename decltype(d)::type;
					ans = op_stdtc<T>(std::stoul(t.at(2)), value_of<T>(t.at(3))); });
			}
#endif
#ifdef NUM_PART_CONV
			else if (op == "sweepconv" || op == "sweeppol") {
				U lo = std::strtoull(t.at(2).c_str(), nullptr, 16), hi = std::strtoull(t.at(3).c_str(), nullptr, 16);
				vh::Hash h; g_nontrivial = 0; bool ok = false;
				ok = with_int_type(t.at(1), [&](auto s) { using S = typename decltype(s)::type;
					for (U i = lo; i < hi; ++i) {
						S v = nth_value<S>(i);
						for (const char* tn : INT_TYPES) with_int_type(tn, [&](auto d) { using T = typename decltype(d)::type;
							if (op == "sweepconv") fold(h, op_conv<S, T>(v));
							else for (int p = 0; p < 4; ++p)
								fold(h, op_policy<S, T>(v, static_cast<T>(1), (p & 1) ? OverflowNumberPolicy::ThrowError : OverflowNumberPolicy::Skip,
									(p & 2) ? MismatchedTypesPolicy::ThrowError : MismatchedTypesPolicy::Skip)); });
					} });
				if (ok) ans = "H " + std::to_string(h.h) + " " + std::to_string(h.n) + " " + std::to_string(g_nontrivial);
			}
#endif
#ifdef NUM_PART_TEXT
			else if (op == "sweeptext") {
				U lo = std::strtoull(t.at(3).c_str(), nullptr, 16), hi = std::strtoull(t.at(4).c_str(), nullptr, 16);
				vh::Hash h; g_nontrivial = 0; bool ok = false;
				ok = with_int_type(t.at(1), [&](auto d) { using T = typename decltype(d)::type;
					with_width(t.at(2), [&](auto c) { using C = typename decltype(c)::type;
						for (U i = lo; i < hi; ++i) {
							T v = nth_value<T>(i);
							std::basic_string<C> txt;
							std::string a = guarded([&] { txt = Convert::To<std::basic_string<C>>(v); return "OK " + fmt_str<C>(txt); });
							fold(h, a);
							if constexpr (std::is_same_v<T, bool>) fold(h, op_parse<bool, C>(txt));
							else for (const char* tn : { "char", "i8", "u8", "i16", "u16" }) with_int_type(tn, [&](auto e) { using T2 = typename decltype(e)::type;
								fold(h, op_parse<T2, C>(txt)); });
						} }); });
				if (ok) ans = "H " + std::to_string(h.h) + " " + std::to_string(h.n) + " " + std::to_string(g_nontrivial);
			}
			else if (op == "sweepstd") {
				U lo = std::strtoull(t.at(2).c_str(), nullptr, 16), hi = std::strtoull(t.at(3).c_str(), nullptr, 16);
				vh::Hash h; g_nontrivial = 0; bool ok = false;
				ok = with_int_type(t.at(1), [&](auto d) { using T = typename decltype(d)::type;
					if constexpr (!std::is_same_v<T, bool>) {
						for (U i = lo; i < hi; ++i) {
							T v = nth_value<T>(i);
							char buf[42];
							auto rc = std::to_chars(buf, buf + sizeof buf, v);
							std::string txt(buf, rc.ptr);
							fold(h, "OK " + fmt_str<char>(txt));
							for (const char* tn : INT_TYPES) with_int_type(tn, [&](auto e) { using T2 = typename decltype(e)::type;
								if constexpr (!std::is_same_v<T2, bool>) fold(h, op_stdfc<T2>(txt)); });
						}
					} });
				if (ok) ans = "H " + std::to_string(h.h) + " " + std::to_string(h.n) + " " + std::to_string(g_nontrivial);
			}
#endif
		}
		catch (const BadCase& e) { ans = std::string("BADCASE ") + e.what(); }
		catch (const std::exception& e) { ans = std::string("DRIVEREXC ") + e.what(); }
		std::cout << ans << "\n" << std::flush;
	}
	return 0;
}
