// Round-trip driver for C01: save a value with an archive under an output configuration, load the
// result into a FRESH object, compare.  The property is its own oracle: the answer must be OK (equal)
// or SAVE-EXC (the save failed with an exception); anything else is a violation.
//   rt  <arch> <type#> <cfg> <seed> [root|memb] [features]     value from the seeded generator
//   doc <arch> <type#> <cfg> <seed> [root|memb] [features]     prints the saved document (hex) only
//   lsl <arch> <type#> <cfg> <hexdoc> [root|memb]              value = LoadObject(document); answer REJECT:<cat> when the
//                                                             loader refuses it, else the round trip of the loaded value
//     features (letters; default none = the "clean" generator, which stays inside what the format can carry and outside
//     the known findings; each letter lifts one restriction):
//       e  XML: null optional/unique_ptr/shared_ptr of a string, class or container (XML has no null: F29n)
//       w  XML: empty strings (an empty string and null are the same XML document: F53)
//       c  XML: CR in text (written raw, normalised to LF by every XML parser: F52)
//       n  text formats: NaN / Infinity (the save must then throw)
//       k  XML: map keys that are not XML names (integer keys, arbitrary text)
//       d  JSON streams in UTF-16/32 without BOM whose root is a scalar (RapidJSON detects the encoding from the first four
//          bytes assuming an object/array root, RFC 4627: a one-digit number or a string starting with non-ASCII fails; F50)
//     arch: mp json xml csv        cfg: <m|s><enc><bom><pretty>  e.g. m000, s211
//       enc: 0 utf8, 1 utf16le, 2 utf16be, 3 utf32le, 4 utf32be (stream only; ignored for memory)
//       bom: 0/1 (stream only)    pretty: 0 none, 1 spaces x2, 2 tab x1, 3 spaces x7   (json/xml only)
//     csv: type# selects the row class, cfg's 4th char selects the separator: 0 ',' 1 ';' 2 tab 3 space 4 '|'
// Answer: OK | SAVE-EXC:<cat> | LOAD-EXC:<cat> | DIFF | UNSUPPORTED
#include "common.h"
#include <bitset>
#include <cmath>
#include <cstring>
#include <random>
#include <unistd.h>
#include <sstream>
#include "bitserializer/bit_serializer.h"
#include "bitserializer/msgpack_archive.h"
#include "bitserializer/csv_archive.h"
#include "bitserializer/rapidjson_archive.h"
#include "bitserializer/pugixml_archive.h"
#include "bitserializer/types/std/vector.h"
#include "bitserializer/types/std/deque.h"
#include "bitserializer/types/std/list.h"
#include "bitserializer/types/std/forward_list.h"
#include "bitserializer/types/std/array.h"
#include "bitserializer/types/std/set.h"
#include "bitserializer/types/std/unordered_set.h"
#include "bitserializer/types/std/map.h"
#include "bitserializer/types/std/unordered_map.h"
#include "bitserializer/types/std/optional.h"
#include "bitserializer/types/std/memory.h"
#include "bitserializer/types/std/tuple.h"
#include "bitserializer/types/std/pair.h"
#include "bitserializer/types/std/bitset.h"
#include "bitserializer/types/std/chrono.h"
#include "bitserializer/types/std/valarray.h"

using namespace BitSerializer;
using MsgPack::MsgPackArchive;
using Csv::CsvArchive;
using Json::RapidJson::JsonArchive;
using Xml::PugiXml::XmlArchive;
using Rng = std::mt19937_64;

enum class Color { Red, Green, Blue };
REGISTER_ENUM(Color, { { Color::Red, "Red" }, { Color::Green, "Green" }, { Color::Blue, "Blue" } })

// ------------------------------------------------------------------ value generators
static bool g_xml = false;      // restrict text to what XML 1.0 character data can carry
static bool g_finite = false;   // text formats: finite floats only (feature n lifts it)
static bool g_nonempty = false; // XML clean mode: no null optionals/pointers of non-arithmetic types (feature e lifts it)
static bool g_xmlvis = false;   // XML clean mode: every string is non-empty (feature w lifts it)
static bool g_nocr = false;     // XML clean mode: no CR in text (feature c lifts it)
static bool g_names = false;    // XML clean mode: string map keys are XML names (feature k lifts it)

template <class T> static T pick(Rng& r, std::initializer_list<T> l) { return *(l.begin() + r() % l.size()); }

static char32_t gen_cp(Rng& r) {
	for (;;) {
		char32_t c;
		switch (r() % 8) {
		case 0: c = pick<char32_t>(r, { 0x41, 0x22, 0x5C, 0x2C, 0x3B, 0x7C, 0x26, 0x3C, 0x3E, 0x27, 0x2F, 0x20, 0x09, 0x0A, 0x7F, 0x80, 0x7FF, 0x800, 0xFFFD, 0xFFFF, 0x10000, 0x1F600, 0x10FFFF, 0xD7FF, 0xE000, 0xFEFF }); break;
		case 1: case 2: c = 0x20 + r() % 0x5F; break;
		case 3: c = 0x80 + r() % 0x780; break;
		case 4: c = 0x800 + r() % 0xF800; break;
		case 5: c = 0x10000 + r() % 0x100000; break;
		case 6: c = r() % 0x20; break;
		default: c = 0x61 + r() % 26; break;
		}
		if (c >= 0xD800 && c < 0xE000) continue;
		if (c == 0) continue;                                   // NUL cannot be carried by the text formats' C APIs
		if (g_xml && (c < 0x20 && c != 0x09 && c != 0x0A && c != 0x0D)) continue;   // XML 1.0 Char
		if (g_nocr && c == 0x0D) continue;
		if (g_xml && (c == 0xFFFE || c == 0xFFFF)) continue;
		return c;
	}
}
static std::u32string gen_u32(Rng& r) {
	size_t n = pick<size_t>(r, { 0, 1, 1, 2, 3, 5, 8, 31, 32, 33, 100, 300 });
	if (n > 40 && r() % 4) n = r() % 12;
	std::u32string s; for (size_t i = 0; i < n; ++i) s.push_back(gen_cp(r));
	if (g_xmlvis && s.empty()) s.push_back(U'x');      // XML: an empty string is the same document as null

	return s;
}
template <class S> static S gen_str(Rng& r) { return Convert::To<S>(gen_u32(r)); }

template <class T> static T gen_int(Rng& r) {
	using L = std::numeric_limits<T>;
	switch (r() % 6) {
	case 0: return L::min();
	case 1: return L::max();
	case 2: return static_cast<T>(pick<int>(r, { 0, 1, -1, 127, -128, 31, -32, -33 }));
	case 3: return static_cast<T>(static_cast<T>(r() % 300) - static_cast<T>(std::is_signed_v<T> ? 100 : 0));
	default: { T v; uint64_t x = r(); std::memcpy(&v, &x, sizeof v); return v; }
	}
}
static double gen_f64(Rng& r) {
	if (!g_finite && r() % 4 == 0) return pick<double>(r, { std::numeric_limits<double>::quiet_NaN(), std::numeric_limits<double>::infinity(), -std::numeric_limits<double>::infinity() });
	for (;;) {
		double d;
		switch (r() % 5) {
		case 0: d = pick<double>(r, { 0.0, -0.0, 1.0, -1.5, 0.1, 1e300, -1e-300, 5e-324, 1.7976931348623157e308, 3.141592653589793, 1e21, 1e-7, 123456789012345678.0 }); break;
		case 1: d = static_cast<double>(static_cast<int64_t>(r() % 2000001) - 1000000) / 1000.0; break;
		default: { uint64_t x = r(); std::memcpy(&d, &x, 8); }
		}
		if (g_finite && !std::isfinite(d)) continue;
		return d;
	}
}
static float gen_f32(Rng& r) {
	if (!g_finite && r() % 4 == 0) return pick<float>(r, { std::numeric_limits<float>::quiet_NaN(), std::numeric_limits<float>::infinity(), -std::numeric_limits<float>::infinity() });
	for (;;) {
		float f;
		switch (r() % 4) {
		case 0: f = pick<float>(r, { 0.0f, -0.0f, 1.0f, -1.5f, 0.1f, 3.4028235e38f, 1e-45f, 16777216.0f }); break;
		case 1: f = static_cast<float>(static_cast<int>(r() % 20001) - 10000) / 8.0f; break;
		default: { uint32_t x = static_cast<uint32_t>(r()); std::memcpy(&f, &x, 4); }
		}
		if (g_finite && !std::isfinite(f)) continue;
		return f;
	}
}
static size_t gen_len(Rng& r) { return pick<size_t>(r, { 0, 0, 1, 1, 2, 3, 5, 15, 16, 17 }); }
static std::string gen_name(Rng& r) { std::string s(1, static_cast<char>(pick<int>(r, { 'a', 'Z', '_', 'k' }))); for (size_t n = r() % 6; n--;) s.push_back(static_cast<char>(pick<int>(r, { 'a', 'b', 'Y', '0', '9', '_', '-', '.' }))); return s; }

template <class T, class = void> struct Gen;
template <class T> static T gen(Rng& r) { return Gen<T>::make(r); }

template <> struct Gen<bool> { static bool make(Rng& r) { return r() % 2; } };
template <class T> struct Gen<T, std::enable_if_t<std::is_integral_v<T> && !std::is_same_v<T, bool>>> { static T make(Rng& r) { return gen_int<T>(r); } };
template <> struct Gen<float> { static float make(Rng& r) { return gen_f32(r); } };
template <> struct Gen<double> { static double make(Rng& r) { return gen_f64(r); } };
template <> struct Gen<std::string> { static std::string make(Rng& r) { return gen_str<std::string>(r); } };
template <> struct Gen<std::u16string> { static std::u16string make(Rng& r) { return gen_str<std::u16string>(r); } };
template <> struct Gen<std::u32string> { static std::u32string make(Rng& r) { return gen_u32(r); } };
template <> struct Gen<std::wstring> { static std::wstring make(Rng& r) { return gen_str<std::wstring>(r); } };
template <> struct Gen<Color> { static Color make(Rng& r) { return static_cast<Color>(r() % 3); } };
template <class T> struct Gen<std::vector<T>> { static std::vector<T> make(Rng& r) { std::vector<T> v; for (size_t n = gen_len(r); n--;) v.push_back(gen<T>(r)); return v; } };
template <class T> struct Gen<std::deque<T>> { static std::deque<T> make(Rng& r) { std::deque<T> v; for (size_t n = gen_len(r); n--;) v.push_back(gen<T>(r)); return v; } };
template <class T> struct Gen<std::list<T>> { static std::list<T> make(Rng& r) { std::list<T> v; for (size_t n = gen_len(r); n--;) v.push_back(gen<T>(r)); return v; } };
template <class T> struct Gen<std::forward_list<T>> { static std::forward_list<T> make(Rng& r) { std::forward_list<T> v; for (size_t n = gen_len(r); n--;) v.push_front(gen<T>(r)); return v; } };
template <class T, size_t N> struct Gen<std::array<T, N>> { static std::array<T, N> make(Rng& r) { std::array<T, N> v; for (auto& x : v) x = gen<T>(r); return v; } };
template <class T> struct Gen<std::set<T>> { static std::set<T> make(Rng& r) { std::set<T> v; for (size_t n = gen_len(r); n--;) v.insert(gen<T>(r)); return v; } };
template <class T> struct Gen<std::unordered_set<T>> { static std::unordered_set<T> make(Rng& r) { std::unordered_set<T> v; for (size_t n = gen_len(r); n--;) v.insert(gen<T>(r)); return v; } };
template <class K> static K gen_key(Rng& r) { if constexpr (std::is_same_v<K, std::string>) { if (g_names) return gen_name(r); } return gen<K>(r); }
template <class K, class V> struct Gen<std::map<K, V>> { static std::map<K, V> make(Rng& r) { std::map<K, V> v; for (size_t n = gen_len(r); n--;) v.emplace(gen_key<K>(r), gen<V>(r)); return v; } };
template <class K, class V> struct Gen<std::unordered_map<K, V>> { static std::unordered_map<K, V> make(Rng& r) { std::unordered_map<K, V> v; for (size_t n = gen_len(r); n--;) v.emplace(gen_key<K>(r), gen<V>(r)); return v; } };
template <class K, class V> struct Gen<std::multimap<K, V>> { static std::multimap<K, V> make(Rng& r) { std::multimap<K, V> v; for (size_t n = gen_len(r); n--;) { auto k = gen<K>(r); v.emplace(k, gen<V>(r)); if (r() % 3 == 0) v.emplace(k, gen<V>(r)); } return v; } };
template <class T> struct Gen<std::optional<T>> { static std::optional<T> make(Rng& r) { if (r() % 3 == 0 && !(g_nonempty && !std::is_arithmetic_v<T>)) return std::nullopt; return gen<T>(r); } };
template <class A, class B> struct Gen<std::pair<A, B>> { static std::pair<A, B> make(Rng& r) { auto a = gen<A>(r); return { a, gen<B>(r) }; } };
template <class... A> struct Gen<std::tuple<A...>> { static std::tuple<A...> make(Rng& r) { return std::tuple<A...>{ gen<A>(r)... }; } };
template <size_t N> struct Gen<std::bitset<N>> { static std::bitset<N> make(Rng& r) { return std::bitset<N>(r()); } };
template <class R, class P> struct Gen<std::chrono::duration<R, P>> { static std::chrono::duration<R, P> make(Rng& r) {
	R c = static_cast<R>(static_cast<int64_t>(r() % 4000000001ULL) - 2000000000LL); if (r() % 5 == 0) c = static_cast<R>(pick<int>(r, { 0, 1, -1, 59, 60, 3600, 86399, 86400 }));
	return std::chrono::duration<R, P>(c); } };
template <class C, class D> struct Gen<std::chrono::time_point<C, D>> { static std::chrono::time_point<C, D> make(Rng& r) { return std::chrono::time_point<C, D>(gen<D>(r)); } };

static bool same(const float& a, const float& b);
static bool same(const double& a, const double& b);
struct Inner {
	int a = 0; std::string s; double d = 0;
	bool operator==(const Inner& o) const { return a == o.a && s == o.s && same(d, o.d); }
	bool operator<(const Inner& o) const { return std::tie(a, s) < std::tie(o.a, o.s); }
	template <class T> void Serialize(T& ar) { ar << KeyValue("a", a) << KeyValue("s", s) << KeyValue("d", d); }
};
template <> struct Gen<Inner> { static Inner make(Rng& r) { Inner i; i.a = gen<int>(r); i.s = gen<std::string>(r); i.d = gen<double>(r); return i; } };
template <class T> struct Gen<std::unique_ptr<T>> { static std::unique_ptr<T> make(Rng& r) { if (r() % 3 == 0 && !g_nonempty) return nullptr; return std::make_unique<T>(gen<T>(r)); } };
template <class T> struct Gen<std::shared_ptr<T>> { static std::shared_ptr<T> make(Rng& r) { if (r() % 3 == 0 && !g_nonempty) return nullptr; return std::make_shared<T>(gen<T>(r)); } };

struct Base { int baseField = 0; std::u16string baseName;
	template <class T> void Serialize(T& ar) { ar << KeyValue("baseField", baseField) << KeyValue("baseName", baseName); } };
struct Outer : Base {
	bool b = false; int8_t i8 = 0; uint64_t u64 = 0; float f = 0; std::string str; std::wstring wstr; Color color = Color::Red;
	std::vector<int> vec; std::map<std::string, int> mp; Inner inner; std::vector<Inner> inners; std::optional<int> opt; std::optional<std::string> optS;
	std::unique_ptr<Inner> ptr; std::tuple<int, std::string> tup; std::array<int, 3> arr{}; std::pair<int, std::string> pr;
	std::chrono::system_clock::time_point tp; std::chrono::seconds dur{};
	bool operator==(const Outer& o) const {
		return baseField == o.baseField && baseName == o.baseName && b == o.b && i8 == o.i8 && u64 == o.u64 && same(f, o.f) && str == o.str && wstr == o.wstr
			&& color == o.color && vec == o.vec && mp == o.mp && inner == o.inner && inners == o.inners && opt == o.opt && optS == o.optS
			&& ((!ptr && !o.ptr) || (ptr && o.ptr && *ptr == *o.ptr)) && tup == o.tup && arr == o.arr && pr == o.pr && tp == o.tp && dur == o.dur; }
	template <class T> void Serialize(T& ar) {
		ar << BaseObject<Base>(*this);
		ar << KeyValue("b", b) << KeyValue("i8", i8) << KeyValue("u64", u64) << KeyValue("f", f) << KeyValue("str", str) << KeyValue("wstr", wstr)
		   << KeyValue("color", color) << KeyValue("vec", vec) << KeyValue("mp", mp) << KeyValue("inner", inner) << KeyValue("inners", inners)
		   << KeyValue("opt", opt) << KeyValue("optS", optS) << KeyValue("ptr", ptr) << KeyValue("tup", tup) << KeyValue("arr", arr) << KeyValue("pr", pr)
		   << KeyValue("tp", tp) << KeyValue("dur", dur); }
};
template <> struct Gen<Outer> { static Outer make(Rng& r) { Outer o; o.baseField = gen<int>(r); o.baseName = gen<std::u16string>(r); o.b = gen<bool>(r); o.i8 = gen<int8_t>(r); o.u64 = gen<uint64_t>(r);
	o.f = gen<float>(r); o.str = gen<std::string>(r); o.wstr = gen<std::wstring>(r); o.color = gen<Color>(r); o.vec = gen<std::vector<int>>(r);
	for (size_t n = r() % 4; n--;) o.mp.emplace("k" + std::to_string(r() % 100), gen<int>(r));
	o.inner = gen<Inner>(r); o.inners = gen<std::vector<Inner>>(r); o.opt = gen<std::optional<int>>(r); o.optS = gen<std::optional<std::string>>(r);
	o.ptr = gen<std::unique_ptr<Inner>>(r); o.tup = gen<std::tuple<int, std::string>>(r); o.arr = gen<std::array<int, 3>>(r); o.pr = gen<std::pair<int, std::string>>(r);
	o.tp = std::chrono::system_clock::time_point(std::chrono::duration_cast<std::chrono::system_clock::duration>(std::chrono::seconds(static_cast<int64_t>(r() % 8000000000ULL) - 4000000000LL)));
	o.dur = gen<std::chrono::seconds>(r); return o; } };

// a row of a CSV table
struct Row {
	int id = 0; std::string name; double score = 0; bool flag = false; std::u16string wname; int64_t big = 0;
	bool operator==(const Row& o) const { return id == o.id && name == o.name && same(score, o.score) && flag == o.flag && wname == o.wname && big == o.big; }
	template <class T> void Serialize(T& ar) { ar << KeyValue("id", id) << KeyValue("name", name) << KeyValue("score", score) << KeyValue("flag", flag) << KeyValue("wname", wname) << KeyValue("big", big); }
};
template <> struct Gen<Row> { static Row make(Rng& r) { Row x; x.id = gen<int>(r); x.name = gen<std::string>(r); x.score = gen<double>(r); x.flag = gen<bool>(r); x.wname = gen<std::u16string>(r); x.big = gen<int64_t>(r); return x; } };
struct Row1 { std::string only;
	bool operator==(const Row1& o) const { return only == o.only; }
	template <class T> void Serialize(T& ar) { ar << KeyValue("only", only); } };
template <> struct Gen<Row1> { static Row1 make(Rng& r) { Row1 x; x.only = gen<std::string>(r); return x; } };

template <class T> struct Wrap { T v{};
	template <class A> void Serialize(A& ar) { ar << KeyValue("v", v); } };

// ------------------------------------------------------------------ equality
template <class T> static bool same(const T& a, const T& b) { return a == b; }
static bool g_bitexact = true;   // binary format: NaN payloads must survive; text formats: any NaN equals any NaN
static bool same(const float& a, const float& b) { return std::memcmp(&a, &b, 4) == 0 || (!g_bitexact && std::isnan(a) && std::isnan(b)); }
static bool same(const double& a, const double& b) { return std::memcmp(&a, &b, 8) == 0 || (!g_bitexact && std::isnan(a) && std::isnan(b)); }
template <class T> static bool same(const std::unique_ptr<T>& a, const std::unique_ptr<T>& b) { return (!a && !b) || (a && b && same(*a, *b)); }
template <class T> static bool same(const std::shared_ptr<T>& a, const std::shared_ptr<T>& b) { return (!a && !b) || (a && b && same(*a, *b)); }
template <class T> static bool same(const std::vector<T>& a, const std::vector<T>& b) { if (a.size() != b.size()) return false; for (size_t i = 0; i < a.size(); ++i) if (!same(a[i], b[i])) return false; return true; }
template <class T> static bool same(const std::deque<T>& a, const std::deque<T>& b) { if (a.size() != b.size()) return false; for (size_t i = 0; i < a.size(); ++i) if (!same(a[i], b[i])) return false; return true; }
template <class... A, size_t... I> static bool same_tuple(const std::tuple<A...>& a, const std::tuple<A...>& b, std::index_sequence<I...>) { return (same(std::get<I>(a), std::get<I>(b)) && ...); }
template <class... A> static bool same(const std::tuple<A...>& a, const std::tuple<A...>& b) { return same_tuple(a, b, std::index_sequence_for<A...>{}); }
template <class K, class V> static bool same(const std::unordered_map<K, V>& a, const std::unordered_map<K, V>& b) { if (a.size() != b.size()) return false; for (auto& kv : a) { auto it = b.find(kv.first); if (it == b.end() || !same(kv.second, it->second)) return false; } return true; }

// ------------------------------------------------------------------ round trip
struct Cfg { bool stream; int enc; bool bom; int pretty; };
static const std::string* g_src = nullptr;    // lsl: the document the value is loaded from
static bool g_doc_only = false;               // doc: print the saved document instead of loading it back
static std::string g_stage;
static std::string g_doc;       // the saved document (kept for diagnosis)

static std::string cat_of_current_exception() {
	try { throw; }
	catch (const SerializationException& e) { return "SER" + std::to_string(static_cast<int>(e.GetErrorCode())); }
	catch (const std::invalid_argument&) { return "IA"; }
	catch (const std::out_of_range&) { return "OOR"; }
	catch (const std::exception&) { return "STD"; }
	catch (...) { return "NONSTD"; }
}

static SerializationOptions make_opts(const Cfg& c, char sep = ',') {
	SerializationOptions o;
	o.streamOptions.encoding = static_cast<Convert::Utf::UtfType>(c.enc);
	o.streamOptions.writeBom = c.bom;
	if (c.pretty) { o.formatOptions.enableFormat = true; o.formatOptions.paddingChar = c.pretty == 2 ? '\t' : ' '; o.formatOptions.paddingCharNum = c.pretty == 1 ? 2 : c.pretty == 2 ? 1 : 7; }
	o.valuesSeparator = sep;
	return o;
}

template <class TArchive, class T>
static std::string roundtrip(const T& value, const Cfg& c, const SerializationOptions& o) {
	T loaded{};
	g_stage = "SAVE";
	if (c.stream) {
		std::stringstream ss;
		SaveObject<TArchive>(value, ss, o);
		g_stage = "LOAD"; g_doc = ss.str();
		if (g_doc_only) return "DOC";
		ss.seekg(0);
		LoadObject<TArchive>(loaded, ss, o);
	} else {
		typename TArchive::preferred_output_format out;
		SaveObject<TArchive>(value, out, o);
		g_stage = "LOAD"; g_doc.assign(reinterpret_cast<const char*>(out.data()), out.size() * sizeof(out[0]));
		if (g_doc_only) return "DOC";
		LoadObject<TArchive>(loaded, out, o);
	}
	return same(value, loaded) ? "OK" : "DIFF";
}

template <class TArchive, class T>
static bool load_source(T& v, const Cfg& c, const SerializationOptions& o) {
	g_stage = "REJECT";
	if (c.stream) { std::stringstream ss(*g_src); LoadObject<TArchive>(v, ss, o); }
	else {
		typename TArchive::preferred_output_format in;
		using Ch = typename TArchive::preferred_output_format::value_type;
		in.assign(reinterpret_cast<const Ch*>(g_src->data()), g_src->size() / sizeof(Ch));
		LoadObject<TArchive>(v, in, o);
	}
	return true;
}

template <class TArchive, class T, bool Root>
static std::string rt_type(Rng& r, const Cfg& c) {
	auto o = make_opts(c);
	if constexpr (Root) { T v{}; if (g_src) load_source<TArchive>(v, c, o); else v = gen<T>(r); return roundtrip<TArchive>(v, c, o); }
	else { Wrap<T> w; if (g_src) load_source<TArchive>(w, c, o); else w.v = gen<T>(r); Wrap<T> l;
		struct Eq { static bool eq(const Wrap<T>& a, const Wrap<T>& b) { return same(a.v, b.v); } };
		g_stage = "SAVE";
		if (c.stream) { std::stringstream ss; SaveObject<TArchive>(w, ss, o); g_stage = "LOAD"; g_doc = ss.str(); if (g_doc_only) return "DOC"; ss.seekg(0); LoadObject<TArchive>(l, ss, o); }
		else { typename TArchive::preferred_output_format out; SaveObject<TArchive>(w, out, o); g_stage = "LOAD"; g_doc.assign(reinterpret_cast<const char*>(out.data()), out.size() * sizeof(out[0])); if (g_doc_only) return "DOC"; LoadObject<TArchive>(l, out, o); }
		return Eq::eq(w, l) ? "OK" : "DIFF"; }
}

// type catalogue; Root = serialised at the root of the document (else as member "v" of a wrapper class)
template <class TArchive, bool Root>
static std::string rt_catalogue(int ty, Rng& r, const Cfg& c) {
	using namespace std::chrono;
#define T_(N, ...) case N: return rt_type<TArchive, __VA_ARGS__, Root>(r, c);
	switch (ty) {
	T_(0, bool) T_(1, int8_t) T_(2, uint8_t) T_(3, int16_t) T_(4, uint16_t) T_(5, int32_t) T_(6, uint32_t) T_(7, int64_t) T_(8, uint64_t)
	T_(9, float) T_(10, double) T_(11, std::string) T_(12, std::u16string) T_(13, std::u32string) T_(14, std::wstring)
	T_(16, std::vector<int>) T_(17, std::vector<std::string>) T_(18, std::vector<bool>) T_(19, std::deque<double>) T_(20, std::list<int64_t>)
	T_(21, std::forward_list<int>) T_(22, std::array<int, 3>) T_(23, std::set<int>) T_(24, std::map<std::string, int>) T_(25, std::map<int, std::string>)
	T_(26, std::unordered_map<std::string, double>) T_(28, Inner) T_(29, Outer) T_(30, std::vector<Inner>) T_(31, std::map<std::string, std::vector<int>>)
	T_(32, std::tuple<int, std::string, double>) T_(33, std::pair<int, std::string>)
	T_(39, std::vector<std::vector<int>>) T_(41, std::multimap<int, int>) T_(42, std::vector<std::optional<std::string>>)
	T_(44, std::vector<uint32_t>) T_(45, std::vector<std::u16string>) T_(46, std::unordered_set<int>) T_(47, std::vector<float>) T_(48, std::vector<double>)
	default: break;
	}
	if constexpr (!Root) {   // kinds that only exist as members
		switch (ty) {
		T_(15, Color) T_(27, std::optional<int>) T_(34, time_point<system_clock, seconds>) T_(35, nanoseconds) T_(37, std::unique_ptr<Inner>) T_(38, std::shared_ptr<Inner>)
		T_(40, std::bitset<8>) T_(49, time_point<system_clock, nanoseconds>) T_(50, time_point<system_clock, milliseconds>) T_(51, seconds) T_(52, duration<int64_t, std::ratio<86400>>)
		T_(53, std::optional<std::string>) T_(54, std::vector<Color>)
		default: break;
		}
		if constexpr (TArchive::is_binary) { switch (ty) { T_(36, std::vector<uint8_t>) T_(43, std::vector<std::vector<uint8_t>>) default: break; } }
	}
#undef T_
	return "UNSUPPORTED";
}

static std::string rt_csv(int ty, Rng& r, const Cfg& c, int sepIdx) {
	static const char seps[] = { ',', ';', '\t', ' ', '|' };
	auto o = make_opts(c, seps[sepIdx % 5]);
	switch (ty) {
	case 0: { std::vector<Row> v; if (g_src) load_source<CsvArchive>(v, c, o); else { v = gen<std::vector<Row>>(r); if (v.empty()) v.push_back(gen<Row>(r)); } return roundtrip<CsvArchive>(v, c, o); }
	case 1: { std::list<Row1> v; if (g_src) load_source<CsvArchive>(v, c, o); else { v = gen<std::list<Row1>>(r); if (v.empty()) v.push_back(gen<Row1>(r)); } return roundtrip<CsvArchive>(v, c, o); }
	case 2: { std::deque<Row> v; if (g_src) load_source<CsvArchive>(v, c, o); else { v = gen<std::deque<Row>>(r); if (v.empty()) v.push_back(gen<Row>(r)); } return roundtrip<CsvArchive>(v, c, o); }
	case 3: { std::vector<Row> v; return roundtrip<CsvArchive>(v, c, o); }     // empty table (finding F22)
	default: return "UNSUPPORTED";
	}
}

static void on_terminate() { const char m[] = "TERMINATE\n"; (void)!write(2, m, sizeof m - 1); _exit(3); }

int main() {
	std::ios::sync_with_stdio(false);
	std::set_terminate(on_terminate);
	std::string line;
	while (std::getline(std::cin, line)) {
		auto t = vh::split(line);
		try {
			const std::string& a = t.at(1);
			const int ty = std::stoi(t.at(2));
			const std::string& cf = t.at(3);
			Cfg c{ cf.at(0) == 's', cf.at(1) - '0', cf.at(2) == '1', cf.at(3) - '0' };
			const bool lsl = t.at(0) == "lsl";
			g_doc_only = t.at(0) == "doc";
			std::string src; if (lsl) { src = vh::parse_hex(t.at(4)); g_src = &src; } else g_src = nullptr;
			Rng r((lsl ? 0 : std::stoull(t.at(4))) * 2654435761ULL + static_cast<uint64_t>(ty));
			const std::string feat = t.size() > 6 ? t.at(6) : "";
			auto has = [&](char f) { return feat.find(f) != std::string::npos; };
			g_xml = (a == "xml"); g_finite = (a == "json" || a == "xml" || a == "csv") && !has('n');
			g_nonempty = g_xml && !has('e'); g_xmlvis = g_xml && !has('w'); g_nocr = g_xml && !has('c'); g_names = g_xml && !has('k');
			g_bitexact = a == "mp";
			const bool bomlessScalarRoot = a == "json" && c.stream && c.enc != 0 && !c.bom && t.size() > 5 && t.at(5) == "root" && ty <= 14 && !has('d');
			const bool root = t.size() > 5 && t.at(5) == "root";
			std::string res;
			if (a == "mp") res = root ? rt_catalogue<MsgPackArchive, true>(ty, r, c) : rt_catalogue<MsgPackArchive, false>(ty, r, c);
			else if (bomlessScalarRoot) res = "UNSUPPORTED";
			else if (a == "json") res = root ? rt_catalogue<JsonArchive, true>(ty, r, c) : rt_catalogue<JsonArchive, false>(ty, r, c);
			else if (a == "xml") res = (ty == 25 && g_names) ? "UNSUPPORTED" : rt_catalogue<XmlArchive, false>(ty, r, c);
			else if (a == "csv") res = rt_csv(ty, r, c, c.pretty);
			else res = "UNSUPPORTED";
			if (res == "DOC") res = "DOC " + vh::fmt_hex(g_doc);
			else if (res != "OK" && res != "UNSUPPORTED" && std::getenv("VERIF_RT_DEBUG")) res += " doc=" + vh::fmt_hex(g_doc.substr(0, 400));
			std::cout << res << std::endl;
		} catch (...) {
			std::string res = g_stage + "-EXC:" + cat_of_current_exception();
			if (std::getenv("VERIF_RT_DEBUG")) res += " doc=" + vh::fmt_hex(g_doc.substr(0, 400));
			std::cout << res << std::endl;
		}
	}
	return 0;
}
