// Correspondence driver for the stream family (C13, C10 binary-stream-reader half).
// One case per line, one answer line per case.
//
//   is <kind> <hex> <ops>                 std::istream itself (validates the modelled M-IS):
//                                         r<n> read | p peek | s<off> seekg (signed) | t tellg | c clear | e eof | f fail
//   bsr <K> <kind> <hex> <ops>            CBinaryStreamReader (K must equal the compiled chunk_size, else UNSUPPORTED):
//                                         e IsEnd | f IsFailed | g GetPosition | s<pos> SetPosition | p PeekByte |
//                                         n GotoNextByte | b ReadByte | k<n> ReadSolidBlock | c<n> ReadByChunks
//   blob <K> <kind> <hex> <skip> <n>      SetPosition(skip) then the callers' ReadByChunks loop for n bytes
//   detect <hex>                          DetectEncoding(string_view)          -> <type> <offset>
//   detect.stream <skipbom> <kind> <hex>  DetectEncoding(istream&, bool)       -> <type> eof fail tellg next4
//   detect.at <skipbom> <kind> <prelen> <hex>   the same after prelen bytes of the stream have been read by the caller
//   esr <K> <tgt> <S|T> <kind> <hex>      CEncodedStreamReader<char{,16_t,32_t},K>: ReadChunk until not Success
//                                         -> <results> <units> <GetSourceUtfType>   |  HANG after 4*len+16 calls
//   esrcuts <K> <tgt> <S|T> <kind> <hex> <lo> <hi>   the same on every prefix of length lo..hi-1, answers hashed
//   esw <enc> <bom> <S|T> <pieces>        CEncodedStreamWriter; pieces = w:units|w:units|...  -> <codes> <hex>
// kind: s = std::istringstream, c<k> = seekable streambuf delivering 1..k bytes per underflow,
//       n<k> = the same without seek support.   Lists: comma separated, "-" = empty.
#include "common.h"
#include "bitserializer/convert.h"
#include "common/binary_stream_reader.h"
#include <algorithm>
#include <memory>
#include <streambuf>

using namespace BitSerializer::Convert::Utf;
using BitSerializer::Detail::CBinaryStreamReader;
using vh::U;

// ---------------------------------------------------------------- stream kinds

class ShortReadBuf : public std::streambuf {
public:
	ShortReadBuf(std::string data, size_t k, bool seekable) : mData(std::move(data)), mK(k ? k : 1), mSeekable(seekable) {}
protected:
	int_type underflow() override {
		if (mPos >= mData.size()) return traits_type::eof();
		const size_t n = std::min(mNext, mData.size() - mPos);
		mNext = mNext % mK + 1;
		char* p = &mData[mPos];
		setg(p, p, p + n);
		mPos += n;
		return traits_type::to_int_type(*p);
	}
	pos_type seekoff(off_type off, std::ios_base::seekdir dir, std::ios_base::openmode which) override {
		if (!mSeekable || !(which & std::ios_base::in)) return pos_type(off_type(-1));
		const off_type cur = static_cast<off_type>(mPos) - (egptr() - gptr());
		off_type target = dir == std::ios_base::beg ? off : dir == std::ios_base::cur ? cur + off : static_cast<off_type>(mData.size()) + off;
		return seekpos(pos_type(target), which);
	}
	pos_type seekpos(pos_type sp, std::ios_base::openmode which) override {
		if (!mSeekable || !(which & std::ios_base::in)) return pos_type(off_type(-1));
		const off_type p = off_type(sp);
		if (p < 0 || p > static_cast<off_type>(mData.size())) return pos_type(off_type(-1));
		mPos = static_cast<size_t>(p);
		setg(nullptr, nullptr, nullptr);
		return sp;
	}
private:
	std::string mData; size_t mPos = 0; size_t mK; size_t mNext = 1; bool mSeekable;
};

struct Stream {
	std::unique_ptr<std::istringstream> ss;
	std::unique_ptr<ShortReadBuf> buf;
	std::unique_ptr<std::istream> is;
	std::istream& get() { return ss ? static_cast<std::istream&>(*ss) : *is; }
};

static Stream make_stream(const std::string& kind, const std::string& data) {
	Stream s;
	if (kind == "s") { s.ss = std::make_unique<std::istringstream>(data); return s; }
	const bool seekable = kind.at(0) == 'c';
	if (kind.at(0) != 'c' && kind.at(0) != 'n') throw std::invalid_argument("kind");
	const size_t k = kind.size() > 1 ? std::stoul(kind.substr(1)) : 1;
	s.buf = std::make_unique<ShortReadBuf>(data, k, seekable);
	s.is = std::make_unique<std::istream>(s.buf.get());
	return s;
}

static std::string hexbyte(char c) { return vh::fmt_hex(std::string(1, c)); }
static const char* type_name(UtfType t) {
	switch (t) {
	case UtfType::Utf8: return "utf8"; case UtfType::Utf16le: return "utf16le"; case UtfType::Utf16be: return "utf16be";
	case UtfType::Utf32le: return "utf32le"; case UtfType::Utf32be: return "utf32be";
	}
	return "?";
}
static UtfType type_of(const std::string& s) {
	if (s == "utf8") return UtfType::Utf8; if (s == "utf16le") return UtfType::Utf16le; if (s == "utf16be") return UtfType::Utf16be;
	if (s == "utf32le") return UtfType::Utf32le; if (s == "utf32be") return UtfType::Utf32be;
	throw std::invalid_argument("type");
}

// ---------------------------------------------------------------- is

static std::string op_is(const std::string& kind, const std::string& data, const std::string& ops) {
	Stream st = make_stream(kind, data);
	std::istream& is = st.get();
	std::string out;
	if (ops == "-") return "-";
	for (auto& o : vh::split(ops, ',')) {
		if (!out.empty()) out.push_back(' ');
		const char c = o.at(0);
		if (c == 'r') {
			const size_t n = std::stoul(o.substr(1));
			std::string b(n, '\0');
			is.read(b.data(), static_cast<std::streamsize>(n));
			const auto g = is.gcount();
			b.resize(static_cast<size_t>(g));
			out += "r:" + vh::fmt_hex(b) + ":" + std::to_string(g);
		}
		else if (c == 'p') { const int v = is.peek(); out += v == std::char_traits<char>::eof() ? std::string("p:-") : "p:" + hexbyte(static_cast<char>(v)); }
		else if (c == 's') { is.seekg(static_cast<std::streamoff>(std::stoll(o.substr(1)))); out += "s"; }
		else if (c == 't') { out += "t:" + std::to_string(static_cast<long long>(std::streamoff(is.tellg()))); }
		else if (c == 'c') { is.clear(); out += "c"; }
		else if (c == 'e') { out += is.eof() ? "e:1" : "e:0"; }
		else if (c == 'f') { out += is.fail() ? "f:1" : "f:0"; }
		else throw std::invalid_argument("is op");
	}
	return out;
}

// ---------------------------------------------------------------- bsr

static std::string op_bsr(const std::string& kind, const std::string& data, const std::string& ops) {
	Stream st = make_stream(kind, data);
	CBinaryStreamReader r(st.get());
	std::string out;
	if (ops == "-") return "-";
	for (auto& o : vh::split(ops, ',')) {
		if (!out.empty()) out.push_back(' ');
		const char c = o.at(0);
		if (c == 'e') out += r.IsEnd() ? "e:1" : "e:0";
		else if (c == 'f') out += r.IsFailed() ? "f:1" : "f:0";
		else if (c == 'g') out += "g:" + std::to_string(r.GetPosition());
		else if (c == 's') out += r.SetPosition(static_cast<size_t>(std::stoull(o.substr(1)))) ? "s:1" : "s:0";
		else if (c == 'p') { auto b = r.PeekByte(); out += b ? "p:" + hexbyte(*b) : std::string("p:-"); }
		else if (c == 'n') { r.GotoNextByte(); out += "n"; }
		else if (c == 'b') { auto b = r.ReadByte(); out += b ? "b:" + hexbyte(*b) : std::string("b:-"); }
		else if (c == 'k') { auto v = r.ReadSolidBlock(static_cast<size_t>(std::stoull(o.substr(1)))); out += "k:" + vh::fmt_hex(std::string(v)); }
		else if (c == 'c') { auto v = r.ReadByChunks(static_cast<size_t>(std::stoull(o.substr(1)))); out += "c:" + vh::fmt_hex(std::string(v)); }
		else throw std::invalid_argument("bsr op");
	}
	return out;
}

static std::string op_blob(const std::string& kind, const std::string& data, size_t skip, size_t n) {
	Stream st = make_stream(kind, data);
	CBinaryStreamReader r(st.get());
	if (!r.SetPosition(skip)) return "SEEKFAIL";
	std::string acc;
	size_t remaining = n;
	while (remaining > 0) {
		const std::string_view chunk = r.ReadByChunks(remaining);
		if (chunk.empty()) return "END";
		acc.append(chunk);
		remaining -= chunk.size();
	}
	return "OK " + vh::fmt_hex(acc) + " " + std::to_string(r.GetPosition());
}

// ---------------------------------------------------------------- esr

template <class TChar, size_t K>
static std::string run_esr(UtfEncodingErrorPolicy pol, const std::string& kind, const std::string& data) {
	Stream st = make_stream(kind, data);
	CEncodedStreamReader<TChar, K> reader(st.get(), pol);
	std::basic_string<TChar> out;
	std::string results;
	const size_t cap = 4 * data.size() + 16;
	for (size_t i = 0;; ++i) {
		if (i == cap) return "HANG";
		const auto r = reader.ReadChunk(out);
		results.push_back(r == EncodedStreamReadResult::Success ? 'S' : r == EncodedStreamReadResult::DecodeError ? 'D' : 'E');
		if (r != EncodedStreamReadResult::Success) break;
	}
	std::vector<U> units;
	for (auto c : out) units.push_back(static_cast<U>(static_cast<std::make_unsigned_t<TChar>>(c)));
	return results + " " + vh::fmt_list(units.begin(), units.end()) + " " + type_name(reader.GetSourceUtfType());
}

static bool g_unsupported = false;

static std::string op_esr(size_t k, int tgt, UtfEncodingErrorPolicy pol, const std::string& kind, const std::string& data) {
#define ESR(KK, T, TC) if (k == KK && tgt == T) return run_esr<TC, KK>(pol, kind, data);
	ESR(32, 8, char) ESR(32, 16, char16_t) ESR(32, 32, char32_t)
	ESR(64, 8, char) ESR(64, 16, char16_t) ESR(64, 32, char32_t)
	ESR(256, 8, char) ESR(256, 16, char16_t) ESR(256, 32, char32_t)
#undef ESR
	g_unsupported = true;
	return "UNSUPPORTED";
}

// ---------------------------------------------------------------- esw

template <class TChar>
static UtfEncodingErrorCode write_piece(CEncodedStreamWriter& w, const std::vector<U>& units) {
	std::basic_string<TChar> s;
	for (U u : units) s.push_back(static_cast<TChar>(u));
	return w.Write(s);
}

static std::string op_esw(UtfType enc, bool bom, UtfEncodingErrorPolicy pol, const std::string& pieces) {
	std::ostringstream os;
	CEncodedStreamWriter w(os, enc, bom, pol);
	std::string codes;
	if (pieces != "-") {
		for (auto& p : vh::split(pieces, '|')) {
			const auto colon = p.find(':');
			const int width = std::stoi(p.substr(0, colon));
			const auto units = vh::parse_list(p.substr(colon + 1));
			UtfEncodingErrorCode c;
			if (width == 8) c = write_piece<char>(w, units);
			else if (width == 16) c = write_piece<char16_t>(w, units);
			else if (width == 32) c = write_piece<char32_t>(w, units);
			else throw std::invalid_argument("piece width");
			codes.push_back(c == UtfEncodingErrorCode::Success ? 'S' : c == UtfEncodingErrorCode::InvalidSequence ? 'I' : 'U');
		}
	}
	return (codes.empty() ? std::string("-") : codes) + " " + vh::fmt_hex(os.str());
}

// ----------------------------------------------------------------

static void fold_line(vh::Hash& h, const std::string& s) {
	for (unsigned char c : s) h.add(c);
	h.tick();
}

int main() {
	std::ios::sync_with_stdio(false);
	std::string line;
	while (std::getline(std::cin, line)) {
		auto t = vh::split(line);
		try {
			const std::string& op = t.at(0);
			if (op == "is") {
				std::cout << op_is(t.at(1), vh::parse_hex(t.at(2)), t.at(3)) << "\n";
			}
			else if (op == "bsr") {
				if (std::stoul(t.at(1)) != CBinaryStreamReader::chunk_size) { std::cout << "UNSUPPORTED\n"; continue; }
				std::cout << op_bsr(t.at(2), vh::parse_hex(t.at(3)), t.at(4)) << "\n";
			}
			else if (op == "blob") {
				if (std::stoul(t.at(1)) != CBinaryStreamReader::chunk_size) { std::cout << "UNSUPPORTED\n"; continue; }
				std::cout << op_blob(t.at(2), vh::parse_hex(t.at(3)), std::stoul(t.at(4)), std::stoul(t.at(5))) << "\n";
			}
			else if (op == "detect") {
				const std::string data = vh::parse_hex(t.at(1));
				size_t off = 12345;
				const UtfType ty = DetectEncoding(std::string_view(data), off);
				std::cout << type_name(ty) << " " << off << "\n";
			}
			else if (op == "detect.stream" || op == "detect.at") {
				// detect.at <skipbom> <kind> <prelen> <hex>: the caller has already consumed prelen bytes of the stream
				Stream st = make_stream(t.at(2), vh::parse_hex(t.at(op == "detect.at" ? 4 : 3)));
				std::istream& is = st.get();
				if (op == "detect.at") { std::string pre(std::stoul(t.at(3)), '\0'); is.read(pre.data(), static_cast<std::streamsize>(pre.size())); }
				const UtfType ty = DetectEncoding(is, t.at(1) == "1");
				std::string res = type_name(ty);
				res += is.eof() ? " e:1" : " e:0";
				res += is.fail() ? " f:1" : " f:0";
				res += " t:" + std::to_string(static_cast<long long>(std::streamoff(is.tellg())));
				std::string b(4, '\0');
				is.read(b.data(), 4);
				b.resize(static_cast<size_t>(is.gcount()));
				res += " r:" + vh::fmt_hex(b);
				std::cout << res << "\n";
			}
			else if (op == "esr") {
				const auto pol = t.at(3) == "S" ? UtfEncodingErrorPolicy::Skip : UtfEncodingErrorPolicy::ThrowError;
				std::cout << op_esr(std::stoul(t.at(1)), std::stoi(t.at(2)), pol, t.at(4), vh::parse_hex(t.at(5))) << "\n";
			}
			else if (op == "esrcuts") {
				const auto pol = t.at(3) == "S" ? UtfEncodingErrorPolicy::Skip : UtfEncodingErrorPolicy::ThrowError;
				const std::string data = vh::parse_hex(t.at(5));
				const size_t lo = std::stoul(t.at(6)), hi = std::stoul(t.at(7));
				vh::Hash h; U nontrivial = 0;
				g_unsupported = false;
				for (size_t n = lo; n < hi && n <= data.size(); ++n) {
					const std::string a = op_esr(std::stoul(t.at(1)), std::stoi(t.at(2)), pol, t.at(4), data.substr(0, n));
					if (a.size() < 2 || a.compare(0, 2, "SE") != 0) ++nontrivial;
					fold_line(h, a);
				}
				if (g_unsupported) std::cout << "UNSUPPORTED\n";
				else std::cout << "H " << h.h << " " << h.n << " " << nontrivial << "\n";
			}
			else if (op == "esw") {
				const auto pol = t.at(3) == "S" ? UtfEncodingErrorPolicy::Skip : UtfEncodingErrorPolicy::ThrowError;
				std::cout << op_esw(type_of(t.at(1)), t.at(2) == "1", pol, t.at(4)) << "\n";
			}
			else std::cout << "UNSUPPORTED\n";
		}
		catch (const std::exception& ex) {
			std::cout << "EXC " << ex.what() << "\n";
		}
	}
	return 0;
}
