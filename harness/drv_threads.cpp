// Thread driver of C19 (built with -fsanitize=thread).
//
//   run <T> <seed> <nops>     T threads, each executes its own pseudo-random sequence of nops operations on its own
//                             objects, buffers and streams; the only things shared are constants: DefaultOptions,
//                             the registered enum tables and const golden inputs prepared before the threads start.
//                             The concurrent run comes first (so lazily initialised statics are first touched
//                             concurrently); then the same sequences are run one after the other in the main thread
//                             and every per-thread result list is compared.
//   Answer: OK <T> <ops> <hash>   |   MISMATCH thread=<t> op=<i> kind=<k> conc=<..> seq=<..>
//   A ThreadSanitizer report ends the process (TSAN_OPTIONS=halt_on_error=1 exitcode=66); props/C19.py turns that into
//   the answer line  RACE <summary>.
#include "common.h"
#include "inv_entities.h"
#include <atomic>
#include <thread>

using namespace inv;

// ---------------------------------------------------------------------------------------------- PRNG / hashing
struct Rng {
	uint64_t s;
	explicit Rng(uint64_t seed) : s(seed * 0x9E3779B97F4A7C15ULL + 0x1234567) {}
	uint64_t next() { s ^= s << 13; s ^= s >> 7; s ^= s << 17; return s; }
	unsigned below(unsigned n) { return static_cast<unsigned>(next() % n); }
};
static uint64_t fnv(const std::string& b, uint64_t h = 1469598103934665603ULL) {
	for (unsigned char c : b) { h ^= c; h *= 1099511628211ULL; }
	return h;
}
static std::string hx(uint64_t v) { char b[32]; std::snprintf(b, sizeof b, "%016llx", static_cast<unsigned long long>(v)); return b; }

// ---------------------------------------------------------------------------------------------- shared constants
struct Shared {
	std::string mp_doc, json_doc, xml_doc, csv_rows, mp_wrong, json_wrong;
	std::string utf8_text;
	std::vector<std::string> numbers, dates;
};
static Shared make_shared() {
	Shared s;
	Doc d = make_doc(7); auto rows = make_rows(7); WrongDoc w;
	SaveObject<MsgPackArchive>(d, s.mp_doc); SaveObject<JsonArchive>(d, s.json_doc); SaveObject<XmlArchive>(d, s.xml_doc);
	SaveObject<CsvArchive>(rows, s.csv_rows);
	SaveObject<MsgPackArchive>(w, s.mp_wrong); SaveObject<JsonArchive>(w, s.json_wrong);
	s.utf8_text = "ascii \xD0\x9F\xD1\x80\xD0\xB8\xD0\xB2\xD0\xB5\xD1\x82 \xE4\xB8\x96\xE7\x95\x8C \xF0\x9F\x98\x80\xF0\x9D\x84\x9E end";
	s.numbers = { "0", "-1", "42", "2147483647", "-2147483648", "99999999999", "3.25", "-1e10", "abc", "", "1e400" };
	s.dates = { "2024-02-29T12:34:56Z", "1970-01-01T00:00:00Z", "1969-12-31T23:59:59.999Z", "2024-13-01T00:00:00Z", "bogus" };
	return s;
}

// ---------------------------------------------------------------------------------------------- operations
constexpr unsigned kOps = 20;
static const char* op_name(unsigned k) {
	static const char* const n[kOps] = { "mp_mem", "mp_stream", "csv_mem", "csv_stream", "json_mem", "json_stream", "xml_mem", "xml_stream",
		"conv_num", "conv_enum", "conv_chrono", "conv_utf", "validation", "shared_load", "mismatch", "json_pretty_utf16", "pair_map", "lib_enums", "conv_wide", "archive_wide" };
	return n[k];
}

template <class F> static std::string guard(F f) {
	try { return f(); }
	catch (...) { return current_exception_name(); }
}

template <class TArchive, class T> static std::string roundtrip_mem(T obj) {
	std::string out; SaveObject<TArchive>(obj, out);
	T back{}; LoadObject<TArchive>(back, out);
	return hx(fnv(out)) + (back == obj ? "=" : "!");
}
template <class TArchive, class T> static std::string roundtrip_stream(T obj) {
	std::stringstream ss; SaveObject<TArchive>(obj, ss);
	const std::string bytes = ss.str();
	T back{}; ss.seekg(0); LoadObject<TArchive>(back, ss);
	return hx(fnv(bytes)) + (back == obj ? "=" : "!");
}

static std::string run_op(unsigned kind, Rng& rng, const Shared& sh) {
	const unsigned seed = rng.below(1000);
	switch (kind) {
	case 0: return guard([&] { return roundtrip_mem<MsgPackArchive>(make_doc(seed)); });
	case 1: return guard([&] { return roundtrip_stream<MsgPackArchive>(make_doc(seed)); });
	case 2: return guard([&] { return roundtrip_mem<CsvArchive>(make_rows(seed)); });
	case 3: return guard([&] { auto r = make_rows(seed); for (auto& x : r) if (x.name.find('"') != std::string::npos) x.name = "plain"; return roundtrip_stream<CsvArchive>(r); });
	case 4: return guard([&] { return roundtrip_mem<JsonArchive>(make_doc(seed)); });
	case 5: return guard([&] { return roundtrip_stream<JsonArchive>(make_doc(seed)); });
	case 6: return guard([&] { return roundtrip_mem<XmlArchive>(make_doc(seed)); });
	case 7: return guard([&] { return roundtrip_stream<XmlArchive>(make_doc(seed)); });
	case 8: return guard([&] {
		const std::string& txt = sh.numbers[seed % sh.numbers.size()];
		std::string r;
		r += guard([&] { return Convert::ToString(Convert::To<int32_t>(txt)); }) + "|";
		r += guard([&] { return Convert::ToString(Convert::To<uint64_t>(txt)); }) + "|";
		r += guard([&] { return Convert::ToString(Convert::To<double>(txt)); }) + "|";
		r += Convert::ToString(static_cast<int64_t>(seed) * -7919) + "|" + Convert::ToString(0.125 * seed) + "|" + Convert::ToString(seed % 2 == 0);
		auto w = Convert::To<std::wstring>(static_cast<int>(seed)); r += "|" + Convert::ToString(w);
		return r; });
	case 9: return guard([&] {
		const Fruit f = static_cast<Fruit>(seed % 3);
		std::string name = Convert::ToString(f);
		Fruit back = Convert::To<Fruit>(name);
		std::string r = name + (back == f ? "=" : "!");
		r += guard([&] { return Convert::ToString(Convert::To<Fruit>(std::string("Banana"))); });
		r += guard([&] { return Convert::ToString(static_cast<Unreg>(seed % 2)); });
		auto u16 = Convert::To<std::u16string>(f); r += "|" + Convert::ToString(u16);
		return r; });
	case 10: return guard([&] {
		using namespace std::chrono;
		const auto tp = system_clock::time_point(seconds(static_cast<int64_t>(seed) * 86399 - 40000000) + milliseconds(seed));
		std::string iso = Convert::ToString(tp);
		auto back = Convert::To<system_clock::time_point>(iso);
		std::string r = iso + (time_point_cast<milliseconds>(back) == time_point_cast<milliseconds>(tp) ? "=" : "!");
		r += "|" + Convert::ToString(seconds(seed * 61)) + "|" + Convert::ToString(milliseconds(static_cast<int64_t>(seed) * -977));
		r += "|" + guard([&] { return Convert::ToString(Convert::To<system_clock::time_point>(sh.dates[seed % sh.dates.size()])); });
		return r; });
	case 11: return guard([&] {
		std::string mine = sh.utf8_text + " #" + std::to_string(seed);
		auto u16 = Convert::To<std::u16string>(mine); auto u32 = Convert::To<std::u32string>(mine); auto w = Convert::To<std::wstring>(mine);
		std::string b16 = Convert::To<std::string>(u16), b32 = Convert::To<std::string>(u32), bw = Convert::To<std::string>(w);
		std::string bad = "x\xC3\x28y\xFF" + std::to_string(seed);
		std::string r = hx(fnv(b16)) + (b16 == mine && b32 == mine && bw == mine ? "=" : "!");
		r += guard([&] { auto x = Convert::To<std::u16string>(bad); return hx(fnv(Convert::To<std::string>(x))); });
		return r; });
	case 12: return guard([&] {
		std::string r;
		try { ValidatedDoc v; LoadObject<MsgPackArchive>(v, sh.mp_doc); r += "loaded"; }
		catch (const ValidationException& e) { for (auto& kv : e.GetValidationErrors()) { r += kv.first + ":"; for (auto& m : kv.second) r += m + ";"; } }
		try { ValidatedDoc v; SerializationOptions o; o.maxValidationErrors = 1; LoadObject<JsonArchive>(v, sh.json_doc, o); r += "loaded"; }
		catch (const ValidationException& e) { r += "#" + std::to_string(e.GetValidationErrors().size()); }
		return r; });
	case 13: return guard([&] {
		Doc a, b, c; std::vector<Row> rows;
		LoadObject<MsgPackArchive>(a, sh.mp_doc); LoadObject<JsonArchive>(b, sh.json_doc); LoadObject<XmlArchive>(c, sh.xml_doc); LoadObject<CsvArchive>(rows, sh.csv_rows);
		std::string out; SaveObject<MsgPackArchive>(b, out);
		return hx(fnv(out)) + (a == b && b == c ? "=" : "!") + std::to_string(rows.size()); });
	case 14: return guard([&] {
		std::string r;
		r += guard([&] { Doc d; LoadObject<MsgPackArchive>(d, sh.mp_wrong); return std::string("loaded"); });
		r += guard([&] { Doc d; LoadObject<JsonArchive>(d, sh.json_wrong); return std::string("loaded"); });
		r += guard([&] { Doc d; SerializationOptions o; o.mismatchedTypesPolicy = MismatchedTypesPolicy::Skip; LoadObject<MsgPackArchive>(d, sh.mp_wrong, o); return std::to_string(d.flag); });
		r += guard([&] { Doc d; LoadObject<JsonArchive>(d, sh.json_doc.substr(0, sh.json_doc.size() / 2)); return std::string("loaded"); });
		r += guard([&] { std::vector<Row> rows; SerializationOptions o; o.valuesSeparator = '#'; LoadObject<CsvArchive>(rows, sh.csv_rows, o); return std::string("loaded"); });
		return r; });
	case 15: return guard([&] {
		SerializationOptions o; o.formatOptions.enableFormat = true; o.formatOptions.paddingChar = ' '; o.formatOptions.paddingCharNum = 2;
		o.streamOptions.encoding = Convert::Utf::UtfType::Utf16be; o.streamOptions.writeBom = true;
		Doc d = make_doc(seed); d.text = "plain ascii " + std::to_string(seed);
		std::stringstream ss; SaveObject<JsonArchive>(d, ss, o);
		std::stringstream sx; SaveObject<XmlArchive>(d, sx, o);
		return hx(fnv(ss.str())) + hx(fnv(sx.str())); });
	case 16: return guard([&] {
		std::map<std::string, std::pair<int, std::string>> m;
		for (unsigned i = 0; i < 3; ++i) m["k" + std::to_string(i + seed)] = { static_cast<int>(i * seed), "v" + std::to_string(i) };
		std::string a = roundtrip_mem<MsgPackArchive>(m), b = roundtrip_mem<JsonArchive>(m), c = roundtrip_mem<XmlArchive>(m);
		return a + b + c; });
	case 17: return guard([&] {
		std::string r = Convert::ToString(static_cast<SerializationErrorCode>(seed % 10)) + "|" + Convert::ToString(static_cast<Convert::Utf::UtfType>(seed % 5))
			+ "|" + Convert::ToString(static_cast<ArchiveType>(seed % 5));
		r += guard([&] { return Convert::ToString(Convert::To<Convert::Utf::UtfType>(std::string("UTF-16LE"))); });
		return r; });
	case 18: return guard([&] {   // every conversion from / to the non-char string widths (seeded change S17: a static scratch buffer on that path)
		using namespace std::chrono;
		std::string r;
		const std::string d = sh.dates[seed % 3];
		const std::u16string d16 = Convert::To<std::u16string>(d); const std::u32string d32 = Convert::To<std::u32string>(d); const std::wstring dw = Convert::To<std::wstring>(d);
		r += guard([&] { return Convert::ToString(Convert::To<system_clock::time_point>(d16)); });
		r += "|" + guard([&] { return Convert::ToString(Convert::To<system_clock::time_point>(d32)); });
		r += "|" + guard([&] { return Convert::ToString(Convert::To<system_clock::time_point>(dw)); });
		r += "|" + guard([&] { return Convert::ToString(Convert::To<seconds>(Convert::To<std::u16string>(std::string("PT") + std::to_string(seed) + "M7S"))); });
		const std::string num = std::to_string(static_cast<int>(seed) * 7919 - 3000000);
		r += "|" + guard([&] { return std::to_string(Convert::To<int32_t>(Convert::To<std::u16string>(num))); });
		r += "|" + guard([&] { return std::to_string(Convert::To<int64_t>(Convert::To<std::u32string>(num))); });
		r += "|" + guard([&] { return std::to_string(Convert::To<double>(Convert::To<std::wstring>(num + ".5"))); });
		r += "|" + guard([&] { return std::to_string(Convert::To<bool>(std::u16string(seed % 2 ? u"true" : u"false"))); });
		r += "|" + guard([&] { return Convert::ToString(Convert::To<Fruit>(Convert::To<std::u16string>(std::string("Banana")))); });
		r += "|" + guard([&] { return Convert::To<std::string>(Convert::To<std::u16string>(static_cast<int>(seed) - 500)) + Convert::To<std::string>(Convert::To<std::wstring>(0.25 * seed))
			+ Convert::To<std::string>(Convert::To<std::u32string>(system_clock::time_point(seconds(seed * 100003)))) + Convert::To<std::string>(Convert::To<std::u16string>(static_cast<Fruit>(seed % 3))); });
		return r; });
	case 19: return guard([&] {   // wide strings, enums and chrono values as members through the text archives (they go through the same conversions)
		WideDoc w = make_wide_doc(seed);
		return roundtrip_mem<JsonArchive>(w) + roundtrip_mem<XmlArchive>(w) + roundtrip_mem<MsgPackArchive>(w) + roundtrip_stream<JsonArchive>(w); });
	}
	return "?";
}

struct ThreadPlan { uint64_t seed; unsigned nops; };
static std::vector<std::string> run_sequence(const ThreadPlan& plan, const Shared& sh) {
	Rng rng(plan.seed);
	std::vector<std::string> res;
	res.reserve(plan.nops);
	for (unsigned i = 0; i < plan.nops; ++i) {
		const unsigned kind = rng.below(kOps);
		res.push_back(std::string(op_name(kind)) + ":" + run_op(kind, rng, sh));
	}
	return res;
}

int main() {
	std::ios::sync_with_stdio(false);
	std::string line;
	while (std::getline(std::cin, line)) {
		auto t = vh::split(line);
		std::string ans = "UNSUPPORTED";
		if (t[0] == "run" && t.size() == 4) {
			const unsigned T = static_cast<unsigned>(std::atoi(t[1].c_str()));
			const uint64_t seed = std::strtoull(t[2].c_str(), nullptr, 10);
			const unsigned nops = static_cast<unsigned>(std::atoi(t[3].c_str()));
			const Shared shared = make_shared();
			std::vector<ThreadPlan> plans;
			for (unsigned i = 0; i < T; ++i) plans.push_back({ seed * 1000 + i, nops });
			// concurrent
			std::vector<std::vector<std::string>> conc(T);
			std::atomic<unsigned> ready{ 0 };
			std::atomic<bool> go{ false };
			std::vector<std::thread> th;
			for (unsigned i = 0; i < T; ++i) {
				th.emplace_back([&, i] {
					ready.fetch_add(1);
					while (!go.load(std::memory_order_acquire)) std::this_thread::yield();
					conc[i] = run_sequence(plans[i], shared);
				});
			}
			while (ready.load() < T) std::this_thread::yield();
			go.store(true, std::memory_order_release);
			for (auto& x : th) x.join();
			// sequential golden run of the same plans
			uint64_t h = 1469598103934665603ULL;
			size_t total = 0;
			ans.clear();
			for (unsigned i = 0; i < T && ans.empty(); ++i) {
				auto seq = run_sequence(plans[i], shared);
				for (size_t k = 0; k < seq.size(); ++k) {
					h = fnv(seq[k], h);
					++total;
					if (k >= conc[i].size() || conc[i][k] != seq[k]) {
						ans = "MISMATCH thread=" + std::to_string(i) + " op=" + std::to_string(k) + " kind=" + seq[k].substr(0, seq[k].find(':'))
							+ " conc=" + vh::fmt_hex((k < conc[i].size() ? conc[i][k] : std::string("<missing>")).substr(0, 60)) + " seq=" + vh::fmt_hex(seq[k].substr(0, 60));
						break;
					}
				}
			}
			if (ans.empty()) ans = "OK " + std::to_string(T) + " " + std::to_string(total) + " " + hx(h);
		}
		else if (t[0] == "ops") {
			ans.clear();
			for (unsigned k = 0; k < kOps; ++k) { if (k) ans += ' '; ans += op_name(k); }
		}
		else if (t[0] == "seq" && t.size() == 3) {
			// the result list of one sequential plan (for replays / debugging): seq <seed> <nops>
			const Shared shared = make_shared();
			auto seq = run_sequence({ std::strtoull(t[1].c_str(), nullptr, 10), static_cast<unsigned>(std::atoi(t[2].c_str())) }, shared);
			uint64_t h = 1469598103934665603ULL;
			for (auto& s : seq) h = fnv(s, h);
			ans = "SEQ " + std::to_string(seq.size()) + " " + hx(h);
		}
		else if (t[0] == "dump" && t.size() == 3) {
			const Shared shared = make_shared();
			auto seq = run_sequence({ std::strtoull(t[1].c_str(), nullptr, 10), static_cast<unsigned>(std::atoi(t[2].c_str())) }, shared);
			ans = "DUMP";
			for (auto& s : seq) { ans += " ## "; for (char c : s) ans += (c == '\n' || c == '\r') ? ' ' : c; }
		}
		std::cout << ans << "\n";
		std::cout.flush();
	}
	return 0;
}
