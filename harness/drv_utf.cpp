// Correspondence driver for the UTF family (C11, C12, part of C13).
// Calls the public classes of bitserializer/conversion_detail/convert_utf.h exactly as a user would.
//
//   tr  <sw> <dw> <S|T> <mark> <out0> <inp>        Convert::Utf::Transcode
//   dec <cls> <dw> <S|T> <mark> <out0> <inp>       Utf<cls>::Decode   (cls: 8 16 16le 16be 32 32le 32be)
//   enc <cls> <sw> <S|T> <mark> <out0> <inp>       Utf<cls>::Encode
//   sweepcp <op> <a> <b> <S|T> <lo> <hi>           op/a/b as above; input = encoding of each scalar in [lo,hi)
//   sweepu  <op> <a> <b> <S|T> <len> <lo> <hi>     input = the len-digit base-B expansion of i (B = 256 / alphabet16 / raw 32)
// mark: d = default, n = nullptr, or a unit list.  Lists: comma separated hex, "-" = empty.
// Answer: <S|I|U> <pos> <cnt> <out>    or for sweeps: H <hash> <count>
#include "common.h"
#include "bitserializer/convert.h"

using namespace BitSerializer::Convert::Utf;
using vh::U;

template <int W> struct StrOf;
template <> struct StrOf<8> { using type = std::string; };
template <> struct StrOf<16> { using type = std::u16string; };
template <> struct StrOf<32> { using type = std::u32string; };

struct Res { char code; size_t pos; size_t cnt; std::vector<U> out; };

template <class S> static S to_str(const std::vector<U>& v) {
	S s; for (U x : v) s.push_back(static_cast<typename S::value_type>(x)); return s;
}
template <class S> static std::vector<U> from_str(const S& s) {
	std::vector<U> v;
	for (auto c : s) v.push_back(static_cast<U>(static_cast<std::make_unsigned_t<typename S::value_type>>(c)));
	return v;
}
static char code_of(UtfEncodingErrorCode c) {
	switch (c) { case UtfEncodingErrorCode::Success: return 'S'; case UtfEncodingErrorCode::InvalidSequence: return 'I'; default: return 'U'; }
}

struct Args { UtfEncodingErrorPolicy pol; int markKind; std::vector<U> mark; std::vector<U> out0; std::vector<U> inp; };

// F is called as f(begin, end, outStr, policy, markPtr)
template <int SW, int DW, class F>
static Res run(const Args& a, F f) {
	using SI = typename StrOf<SW>::type; using SO = typename StrOf<DW>::type;
	SI in = to_str<SI>(a.inp); SO out = to_str<SO>(a.out0); SO markStr = to_str<SO>(a.mark);
	using OC = typename SO::value_type;
	const OC* mp = a.markKind == 0 ? Detail::GetDefaultErrorMark<OC>() : a.markKind == 1 ? nullptr : markStr.c_str();
	const auto* b = in.data(); const auto* e = in.data() + in.size();
	auto r = f(b, e, out, a.pol, mp);
	const typename SI::value_type* it = r.Iterator;
	return Res{ code_of(r.ErrorCode), static_cast<size_t>(it - b), r.InvalidSequencesCount, from_str(out) };
}

static bool g_unsupported = false;

template <int SW, int DW>
static Res op_tr(const Args& a) {
	return run<SW, DW>(a, [](auto b, auto e, auto& o, auto p, auto m) { return Transcode(b, e, o, p, m); });
}

template <class C, int SW, int DW>
static Res op_dec(const Args& a) { return run<SW, DW>(a, [](auto b, auto e, auto& o, auto p, auto m) { return C::Decode(b, e, o, p, m); }); }
template <class C, int SW, int DW>
static Res op_enc(const Args& a) { return run<SW, DW>(a, [](auto b, auto e, auto& o, auto p, auto m) { return C::Encode(b, e, o, p, m); }); }

static Res dispatch(const std::string& op, const std::string& x, const std::string& y, const Args& a) {
	g_unsupported = false;
	if (op == "tr") {
		int s = std::stoi(x), d = std::stoi(y);
#define TR(S, D) if (s == S && d == D) return op_tr<S, D>(a);
		TR(8, 8) TR(8, 16) TR(8, 32) TR(16, 8) TR(16, 16) TR(16, 32) TR(32, 8) TR(32, 16) TR(32, 32)
#undef TR
	}
	if (op == "dec") {
		int d = std::stoi(y);
#define DE(N, C, S, D) if (x == N && d == D) return op_dec<C, S, D>(a);
		DE("8", Utf8, 8, 16) DE("8", Utf8, 8, 32)
		DE("16", Utf16, 16, 8) DE("16", Utf16, 16, 16) DE("16", Utf16, 16, 32)
		DE("16le", Utf16Le, 16, 8) DE("16le", Utf16Le, 16, 16) DE("16le", Utf16Le, 16, 32)
		DE("16be", Utf16Be, 16, 8) DE("16be", Utf16Be, 16, 16) DE("16be", Utf16Be, 16, 32)
		DE("32", Utf32, 32, 8) DE("32", Utf32, 32, 16) DE("32", Utf32, 32, 32)
		DE("32le", Utf32Le, 32, 8) DE("32le", Utf32Le, 32, 16) DE("32le", Utf32Le, 32, 32)
		DE("32be", Utf32Be, 32, 8) DE("32be", Utf32Be, 32, 16) DE("32be", Utf32Be, 32, 32)
#undef DE
	}
	if (op == "enc") {
		int s = std::stoi(y);
#define EN(N, C, S, D) if (x == N && s == S) return op_enc<C, S, D>(a);
		EN("8", Utf8, 16, 8) EN("8", Utf8, 32, 8)
		EN("16", Utf16, 8, 16) EN("16", Utf16, 16, 16) EN("16", Utf16, 32, 16)
		EN("16le", Utf16Le, 8, 16) EN("16le", Utf16Le, 16, 16) EN("16le", Utf16Le, 32, 16)
		EN("16be", Utf16Be, 8, 16) EN("16be", Utf16Be, 16, 16) EN("16be", Utf16Be, 32, 16)
		EN("32", Utf32, 8, 32) EN("32", Utf32, 16, 32) EN("32", Utf32, 32, 32)
		EN("32le", Utf32Le, 8, 32) EN("32le", Utf32Le, 16, 32) EN("32le", Utf32Le, 32, 32)
		EN("32be", Utf32Be, 8, 32) EN("32be", Utf32Be, 16, 32) EN("32be", Utf32Be, 32, 32)
#undef EN
	}
	g_unsupported = true;
	return Res{ '?', 0, 0, {} };
}

// source width of an op
static int src_width(const std::string& op, const std::string& x, const std::string& y) {
	if (op == "tr") return std::stoi(x);
	if (op == "dec") return std::stoi(x.substr(0, x.find_first_of("lb")));
	return std::stoi(y);
}
// is the source (for dec) byte-swapped relative to native?
static bool src_swapped(const std::string& op, const std::string& x) { return op == "dec" && x.size() > 2 && x.substr(x.size() - 2) == "be"; }

// independent reference encoder used only to build sweep inputs (Unicode Table 3-6 / D91)
static std::vector<U> ref_encode(int w, U c) {
	std::vector<U> v;
	if (w == 32) { v.push_back(c); return v; }
	if (w == 16) {
		if (c < 0x10000) v.push_back(c); else { U s = c - 0x10000; v.push_back(0xD800 + s / 1024); v.push_back(0xDC00 + s % 1024); }
		return v;
	}
	if (c < 0x80) v.push_back(c);
	else if (c < 0x800) { v.push_back(0xC0 + c / 64); v.push_back(0x80 + c % 64); }
	else if (c < 0x10000) { v.push_back(0xE0 + c / 4096); v.push_back(0x80 + (c / 64) % 64); v.push_back(0x80 + c % 64); }
	else { v.push_back(0xF0 + c / 262144); v.push_back(0x80 + (c / 4096) % 64); v.push_back(0x80 + (c / 64) % 64); v.push_back(0x80 + c % 64); }
	return v;
}
static U swap_unit(int w, U u) {
	if (w == 16) return ((u & 0xFF) << 8) | ((u >> 8) & 0xFF);
	if (w == 32) return ((u & 0xFF) << 24) | ((u & 0xFF00) << 8) | ((u >> 8) & 0xFF00) | ((u >> 24) & 0xFF);
	return u;
}

// boundary alphabet for 16-bit sweeps (shared with the model driver)
static const U A16[] = { 0x0, 0x41, 0x7F, 0x80, 0x7FF, 0x800, 0xD7FF, 0xD800, 0xD801, 0xDBFE, 0xDBFF, 0xDC00, 0xDC01, 0xDFFE, 0xDFFF, 0xE000, 0xFFFD, 0xFFFE, 0xFFFF };
static const U A32[] = { 0x0, 0x41, 0x7F, 0x80, 0x7FF, 0x800, 0xD7FF, 0xD800, 0xDBFF, 0xDC00, 0xDFFF, 0xE000, 0xFFFF, 0x10000, 0x10FFFF, 0x110000, 0x1FFFFF, 0x200000, 0x7FFFFFFF, 0x80000000, 0xFFFFFFFF };

static U g_nontrivial = 0;
static void fold(vh::Hash& h, const Res& r) {
	if (r.code != 'S' || r.cnt != 0 || r.out.size() != r.pos) ++g_nontrivial;
	h.add((U)r.code); h.add(r.pos); h.add(r.cnt); h.add(r.out.size());
	for (U x : r.out) h.add(x);
	h.tick();
}

int main() {
	std::ios::sync_with_stdio(false);
	std::string line;
	while (std::getline(std::cin, line)) {
		auto t = vh::split(line);
		try {
			const std::string& op = t.at(0);
			if (op == "sweepcp" || op == "sweepu") {
				const std::string& sop = t.at(1); const std::string& x = t.at(2); const std::string& y = t.at(3);
				Args a; a.pol = t.at(4) == "S" ? UtfEncodingErrorPolicy::Skip : UtfEncodingErrorPolicy::ThrowError; a.markKind = 0;
				int sw = src_width(sop, x, y); bool sw_swap = src_swapped(sop, x);
				vh::Hash h; g_nontrivial = 0;
				if (op == "sweepcp") {
					U lo = std::strtoull(t.at(5).c_str(), nullptr, 16), hi = std::strtoull(t.at(6).c_str(), nullptr, 16);
					for (U c = lo; c < hi; ++c) {
						if (c >= 0xD800 && c < 0xE000) continue;
						a.inp = ref_encode(sw, c);
						if (sw_swap) for (auto& u : a.inp) u = swap_unit(sw, u);
						fold(h, dispatch(sop, x, y, a));
					}
				} else {
					int len = std::stoi(t.at(5));
					U lo = std::strtoull(t.at(6).c_str(), nullptr, 16), hi = std::strtoull(t.at(7).c_str(), nullptr, 16);
					for (U i = lo; i < hi; ++i) {
						a.inp.assign(len, 0);
						U v = i;
						for (int k = len - 1; k >= 0; --k) {
							if (sw == 8) { a.inp[k] = v % 256; v /= 256; }
							else if (sw == 16) { a.inp[k] = A16[v % (sizeof A16 / sizeof *A16)]; v /= (sizeof A16 / sizeof *A16); }
							else { a.inp[k] = A32[v % (sizeof A32 / sizeof *A32)]; v /= (sizeof A32 / sizeof *A32); }
						}
						if (sw_swap) for (auto& u : a.inp) u = swap_unit(sw, u);
						fold(h, dispatch(sop, x, y, a));
					}
				}
				if (g_unsupported) std::cout << "UNSUPPORTED\n";
				else std::cout << "H " << h.h << " " << h.n << " " << g_nontrivial << "\n";
				continue;
			}
			Args a;
			a.pol = t.at(3) == "S" ? UtfEncodingErrorPolicy::Skip : UtfEncodingErrorPolicy::ThrowError;
			a.markKind = t.at(4) == "d" ? 0 : t.at(4) == "n" ? 1 : 2;
			if (a.markKind == 2) a.mark = vh::parse_list(t.at(4));
			a.out0 = vh::parse_list(t.at(5));
			a.inp = vh::parse_list(t.at(6));
			Res r = dispatch(op, t.at(1), t.at(2), a);
			if (g_unsupported) { std::cout << "UNSUPPORTED\n"; continue; }
			std::cout << r.code << ' ' << r.pos << ' ' << r.cnt << ' ' << vh::fmt_list(r.out.begin(), r.out.end()) << "\n";
		} catch (const std::exception& ex) {
			std::cout << "EXC " << ex.what() << "\n";
		}
	}
	return 0;
}
