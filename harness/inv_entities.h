// Shared test entities of the `inv` family drivers (drv_fault.cpp, drv_threads.cpp).  Trusted glue, kept dumb.
#pragma once
#include <chrono>
#include <map>
#include <optional>
#include <sstream>
#include <string>
#include <vector>
#include "bitserializer/bit_serializer.h"
#include "bitserializer/convert.h"
#include "bitserializer/csv_archive.h"
#include "bitserializer/msgpack_archive.h"
#include "bitserializer/rapidjson_archive.h"
#include "bitserializer/pugixml_archive.h"
#include "bitserializer/types/std/chrono.h"
#include "bitserializer/types/std/map.h"
#include "bitserializer/types/std/memory.h"
#include "bitserializer/types/std/list.h"
#include "bitserializer/types/std/deque.h"
#include "bitserializer/types/std/set.h"
#include "bitserializer/types/std/tuple.h"
#include "bitserializer/types/std/array.h"
#include "bitserializer/types/std/optional.h"
#include "bitserializer/types/std/pair.h"
#include "bitserializer/types/std/vector.h"

enum class InvFruit { Apple, Orange, Kiwi };
REGISTER_ENUM(InvFruit, { { InvFruit::Apple, "Apple" }, { InvFruit::Orange, "Orange" }, { InvFruit::Kiwi, "Kiwi" } })

namespace inv {

using namespace BitSerializer;
using MsgPackArchive = BitSerializer::MsgPack::MsgPackArchive;
using CsvArchive = BitSerializer::Csv::CsvArchive;
using JsonArchive = BitSerializer::Json::RapidJson::JsonArchive;
using XmlArchive = BitSerializer::Xml::PugiXml::XmlArchive;

using Fruit = ::InvFruit;
enum class Unreg { A, B };      // deliberately not registered

struct Inner {
	int id = 0;
	std::string label;
	template <class TArchive> void Serialize(TArchive& archive) {
		archive << KeyValue("id", id) << KeyValue("label", label);
	}
	bool operator==(const Inner& r) const { return id == r.id && label == r.label; }
};

// representative document for the object archives (MsgPack, JSON, XML)
struct Doc {
	bool flag = false;
	int32_t i32 = 0;
	uint64_t u64 = 0;
	double dbl = 0;
	std::string text;
	Fruit fruit = Fruit::Apple;
	Inner inner;
	std::vector<int> numbers;
	std::vector<Inner> items;
	std::map<std::string, int> dict;
	std::pair<std::string, int> pr;
	template <class TArchive> void Serialize(TArchive& archive) {
		archive << KeyValue("flag", flag) << KeyValue("i32", i32) << KeyValue("u64", u64) << KeyValue("dbl", dbl)
			<< KeyValue("text", text) << KeyValue("fruit", fruit) << KeyValue("inner", inner)
			<< KeyValue("numbers", numbers) << KeyValue("items", items) << KeyValue("dict", dict) << KeyValue("pr", pr);
	}
	bool operator==(const Doc& r) const {
		return flag == r.flag && i32 == r.i32 && u64 == r.u64 && dbl == r.dbl && text == r.text && fruit == r.fruit
			&& inner == r.inner && numbers == r.numbers && items == r.items && dict == r.dict && pr == r.pr;
	}
};

// members of the non-char string widths, chrono values and an enum: they pass through Convert:: on every text archive
struct WideDoc {
	std::u16string s16; std::u32string s32; std::wstring sw;
	std::chrono::system_clock::time_point tp; std::chrono::seconds dur{}; Fruit fruit = Fruit::Apple;
	std::map<std::u16string, int> wkeys;
	template <class TArchive> void Serialize(TArchive& archive) {
		archive << KeyValue("s16", s16) << KeyValue("s32", s32) << KeyValue("sw", sw) << KeyValue("tp", tp) << KeyValue("dur", dur)
			<< KeyValue("fruit", fruit) << KeyValue("wkeys", wkeys);
	}
	bool operator==(const WideDoc& r) const { return s16 == r.s16 && s32 == r.s32 && sw == r.sw && tp == r.tp && dur == r.dur && fruit == r.fruit && wkeys == r.wkeys; }
};
inline WideDoc make_wide_doc(unsigned seed) {
	WideDoc d;
	const std::string t = "wide \xD0\x9F\xD1\x80 \xF0\x9F\x98\x80 #" + std::to_string(seed);
	d.s16 = Convert::To<std::u16string>(t); d.s32 = Convert::To<std::u32string>(t); d.sw = Convert::To<std::wstring>(t);
	d.tp = std::chrono::system_clock::time_point(std::chrono::seconds(static_cast<int64_t>(seed) * 86399 - 40000000));
	d.dur = std::chrono::seconds(seed * 61); d.fruit = static_cast<Fruit>(seed % 3);
	d.wkeys = { { Convert::To<std::u16string>("k" + std::to_string(seed)), 1 }, { u"other", 2 } };
	return d;
}

// owning members: every adapter that creates an object before it loads into it (seeded change S15: a pointee that
// nobody owns while it is being loaded leaks when the load throws)
struct OwnerDoc {
	std::unique_ptr<Inner> uptr;
	std::shared_ptr<Inner> sptr;
	std::optional<Inner> opt;
	std::vector<std::unique_ptr<Inner>> uptrs;
	std::list<std::shared_ptr<Inner>> sptrs;
	std::deque<std::optional<std::string>> opts;
	std::set<std::string> names;
	std::tuple<int, std::string, std::unique_ptr<Inner>> tup;
	std::array<std::shared_ptr<std::string>, 2> arr;
	std::unique_ptr<std::vector<std::string>> uvec;
	template <class TArchive> void Serialize(TArchive& archive) {
		archive << KeyValue("uptr", uptr) << KeyValue("sptr", sptr) << KeyValue("opt", opt) << KeyValue("uptrs", uptrs)
			<< KeyValue("sptrs", sptrs) << KeyValue("opts", opts) << KeyValue("names", names) << KeyValue("tup", tup)
			<< KeyValue("arr", arr) << KeyValue("uvec", uvec);
	}
};
inline OwnerDoc make_owner_doc(unsigned seed) {
	OwnerDoc d;
	d.uptr = std::make_unique<Inner>(Inner{ static_cast<int>(seed), "a long label that lives on the heap, number " + std::to_string(seed) });
	d.sptr = std::make_shared<Inner>(Inner{ 2, "shared label that lives on the heap as well" });
	d.opt = Inner{ 3, "optional label, also longer than the small string buffer" };
	for (int i = 0; i < 3; ++i) d.uptrs.push_back(std::make_unique<Inner>(Inner{ i, "element label on the heap #" + std::to_string(i) }));
	for (int i = 0; i < 2; ++i) d.sptrs.push_back(std::make_shared<Inner>(Inner{ i, "list element label on the heap #" + std::to_string(i) }));
	d.opts = { std::string("first optional string, long enough for the heap"), std::string("x") };
	d.names = { "name one is long enough for the heap", "name two" };
	d.tup = std::make_tuple(7, std::string("tuple string long enough for the heap"), std::make_unique<Inner>(Inner{ 9, "tuple pointee label on the heap" }));
	d.arr = { std::make_shared<std::string>("array element string on the heap, first"), std::make_shared<std::string>("second") };
	d.uvec = std::make_unique<std::vector<std::string>>(std::vector<std::string>{ "vector behind a pointer, long enough for the heap", "b" });
	return d;
}

// the same with validators: `i32` must be in [0, 10], `text` is required, `missing` is required and never present
struct ValidatedDoc {
	int32_t i32 = 0;
	std::string text;
	int missing = 0;
	Inner inner;
	template <class TArchive> void Serialize(TArchive& archive) {
		archive << KeyValue("i32", i32, Range<int32_t>(0, 10)) << KeyValue("text", text, Required())
			<< KeyValue("missing", missing, Required()) << KeyValue("inner", inner);
	}
};

// a document whose field types do not match Doc (for MismatchedTypesPolicy::ThrowError): "i32" is a string
struct WrongDoc {
	bool flag = true;
	std::string i32 = "not a number";
	Inner inner;
	template <class TArchive> void Serialize(TArchive& archive) {
		archive << KeyValue("flag", flag) << KeyValue("i32", i32) << KeyValue("inner", inner);
	}
};

struct WithUnreg {
	int a = 1;
	Unreg u = Unreg::B;
	template <class TArchive> void Serialize(TArchive& archive) { archive << KeyValue("a", a) << KeyValue("u", u); }
};

// CSV row
struct Row {
	int id = 0;
	std::string name;
	double score = 0;
	template <class TArchive> void Serialize(TArchive& archive) {
		archive << KeyValue("id", id) << KeyValue("name", name) << KeyValue("score", score);
	}
	bool operator==(const Row& r) const { return id == r.id && name == r.name && score == r.score; }
};

// byte containers: a list of blobs in the middle, a blob as the LAST member (nothing is written after its payload)
struct BinDoc {
	int id = 0;
	std::vector<std::vector<unsigned char>> parts;
	std::string note;
	std::vector<unsigned char> blob;
	template <class TArchive> void Serialize(TArchive& archive) {
		archive << KeyValue("id", id) << KeyValue("parts", parts) << KeyValue("note", note) << KeyValue("blob", blob);
	}
};

inline BinDoc make_bindoc(unsigned seed) {
	BinDoc d;
	d.id = static_cast<int>(seed);
	for (unsigned i = 0; i < 2; ++i) { std::vector<unsigned char> p; for (unsigned k = 0; k < 3 + i; ++k) p.push_back(static_cast<unsigned char>(seed * 37 + k * 11 + i)); d.parts.push_back(p); }
	d.note = "n" + std::to_string(seed);
	for (unsigned k = 0; k < 20 + seed; ++k) d.blob.push_back(static_cast<unsigned char>(k * 13 + seed));
	return d;
}

inline Doc make_doc(unsigned seed) {
	Doc d;
	d.flag = (seed & 1) != 0;
	d.i32 = static_cast<int32_t>(seed * 2654435761u) / 3;
	d.u64 = 0x0123456789abcdefULL * (seed + 1);
	d.dbl = 0.5 * static_cast<double>(seed) - 3.25;
	d.text = "text-" + std::to_string(seed) + " \xD0\x9F\xD1\x80\xD0\xB8\xD0\xB2\xD0\xB5\xD1\x82 \xF0\x9F\x98\x80 \"q\", <x&y>";
	d.fruit = static_cast<Fruit>(seed % 3);
	d.inner = Inner{ static_cast<int>(seed), "in" + std::to_string(seed) };
	for (unsigned i = 0; i < 3 + seed % 3; ++i) d.numbers.push_back(static_cast<int>(i * seed) - 7);
	for (unsigned i = 0; i < 2; ++i) d.items.push_back(Inner{ static_cast<int>(i + seed), "it" + std::to_string(i) });
	d.dict = { { "alpha", static_cast<int>(seed) }, { "beta", 2 }, { "gamma", -3 } };
	d.pr = { "pk" + std::to_string(seed), static_cast<int>(seed) + 40 };
	return d;
}

inline std::vector<Row> make_rows(unsigned seed) {
	std::vector<Row> rows;
	for (unsigned i = 0; i < 3 + seed % 2; ++i)
		rows.push_back(Row{ static_cast<int>(i + seed), i == 1 ? "quoted, \"name\"\nline" : ("n" + std::to_string(i * seed)), 1.5 * i });
	return rows;
}

inline const char* error_code_name(SerializationErrorCode c) {
	switch (c) {
	case SerializationErrorCode::InvalidOptions: return "InvalidOptions";
	case SerializationErrorCode::ParsingError: return "Parsing";
	case SerializationErrorCode::InputOutputError: return "InputOutput";
	case SerializationErrorCode::UnsupportedEncoding: return "UnsupportedEncoding";
	case SerializationErrorCode::UtfEncodingError: return "UtfEncoding";
	case SerializationErrorCode::OutOfRange: return "OutOfRange";
	case SerializationErrorCode::Overflow: return "Overflow";
	case SerializationErrorCode::MismatchedTypes: return "MismatchedTypes";
	case SerializationErrorCode::FailedValidation: return "Validation";
	case SerializationErrorCode::UnregisteredEnum: return "UnregisteredEnum";
	}
	return "?";
}

// canonical name of whatever is in flight (call inside a catch block)
inline std::string current_exception_name() {
	try { throw; }
	catch (const ValidationException&) { return "EXC(Validation)"; }
	catch (const SerializationException& e) { return std::string("EXC(") + error_code_name(e.GetErrorCode()) + ")"; }
	catch (const std::bad_alloc&) { return "EXC(bad_alloc)"; }
	catch (const std::invalid_argument&) { return "EXC(invalid_argument)"; }
	catch (const std::out_of_range&) { return "EXC(out_of_range)"; }
	catch (const std::ios_base::failure&) { return "EXC(ios_failure)"; }
	catch (const std::length_error&) { return "EXC(length_error)"; }
	catch (const std::runtime_error&) { return "EXC(runtime_error)"; }
	catch (const std::exception&) { return "EXC(std_exception)"; }
	catch (...) { return "EXC(unknown)"; }
}

}  // namespace inv
