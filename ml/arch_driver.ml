(* arch_driver.ml — runs the extracted archive-layer model (coq/ArchModel.v via ArchCodec.v) on the
   line protocol of harness/drv_arch.cpp.

     popload  <arch> <type#> <mode> <pol> <prior> <doc>     -> OK <value> | EXC:<code>
     validate <arch> <class#> <max> <pol> <doc>             -> OK <value> | VAL <path>:<msg>,..;.. <state|-> | EXC:<code>

   arch: json | mp | csv | xml     mode: - | c | o | u     pol: two letters (mismatch, overflow), S = Skip, T = ThrowError
   values and documents (one token, no spaces):
     n | t | f | i<decimal> | s<hex bytes> | [x,y,..] | {k:x,k:y,..}   with keys i<decimal> | s<hex bytes>   *)

type tree = TNull | TBool of bool | TInt of int | TStr of string | TArr of tree list | TMap of (tree * tree) list

exception Syntax of string

let parse_tree (s : string) : tree =
  let n = String.length s in
  let pos = ref 0 in
  let peek () = if !pos < n then s.[!pos] else '\000' in
  let adv () = incr pos in
  let is_hex c = (c >= '0' && c <= '9') || (c >= 'a' && c <= 'f') in
  let rec value () =
    match peek () with
    | 'n' -> adv (); TNull
    | 't' -> adv (); TBool true
    | 'f' -> adv (); TBool false
    | 'i' ->
      adv ();
      let st = !pos in
      if peek () = '-' then adv ();
      while peek () >= '0' && peek () <= '9' do adv () done;
      if !pos = st then raise (Syntax "int");
      TInt (int_of_string (String.sub s st (!pos - st)))
    | 's' ->
      adv ();
      let st = !pos in
      while is_hex (peek ()) do adv () done;
      let h = String.sub s st (!pos - st) in
      if String.length h mod 2 <> 0 then raise (Syntax "hex");
      TStr (String.init (String.length h / 2) (fun i -> Char.chr (hexval h.[2*i] * 16 + hexval h.[2*i+1])))
    | '[' ->
      adv ();
      if peek () = ']' then (adv (); TArr [])
      else begin
        let items = ref [value ()] in
        while peek () = ',' do adv (); items := value () :: !items done;
        if peek () <> ']' then raise (Syntax "]");
        adv (); TArr (List.rev !items)
      end
    | '{' ->
      adv ();
      if peek () = '}' then (adv (); TMap [])
      else begin
        let entry () =
          let k = value () in
          (match k with TInt _ | TStr _ -> () | _ -> raise (Syntax "key"));
          if peek () <> ':' then raise (Syntax ":");
          adv ();
          let v = value () in (k, v) in
        let items = ref [entry ()] in
        while peek () = ',' do adv (); items := entry () :: !items done;
        if peek () <> '}' then raise (Syntax "}");
        adv (); TMap (List.rev !items)
      end
    | _ -> raise (Syntax "value")
  in
  let v = value () in
  if !pos <> n then raise (Syntax "trailing");
  v

let z_of_int (i : int) : z = if i = 0 then Z0 else if i > 0 then Zpos (pos_of_int i) else Zneg (pos_of_int (- i))
let int_of_z = function Z0 -> 0 | Zpos p -> int_of_pos p | Zneg p -> - (int_of_pos p)
let str_of_string (s : string) : n list = List.init (String.length s) (fun i -> n_of_int (Char.code s.[i]))
let string_of_str (l : n list) : string = String.concat "" (List.map (fun x -> String.make 1 (Char.chr (int_of_n x))) l)
let hex_of_string (s : string) : string =
  let b = Buffer.create (2 * String.length s) in
  String.iter (fun c -> Buffer.add_string b (Printf.sprintf "%02x" (Char.code c))) s; Buffer.contents b

(* est: what GetEstimatedSize() of the array scope reports in this archive *)
let rec doc_of_tree (arch : string) (root : bool) (t : tree) : doc =
  match t with
  | TNull -> DNull
  | TBool b -> DBool b
  | TInt i -> DInt (z_of_int i)
  | TStr s -> DStr (str_of_string s)
  | TArr l ->
    let est = if arch = "csv" then 0 else List.length l in
    DArr (nat_of_int est, List.map (doc_of_tree arch false) l)
  | TMap l ->
    DMap (List.map (fun (k, v) ->
      ((match k with
        | TInt i -> if arch = "mp" then DKInt (z_of_int i)
                    else if arch = "xml" then DKStr (str_of_string ("k" ^ string_of_int i))   (* element names cannot start with a digit: the encoder writes k<i> *)
                    else DKStr (str_of_string (string_of_int i))   (* text archives only have string keys *)
        | TStr s -> DKStr (str_of_string s)
        | _ -> raise (Syntax "key")),
       doc_of_tree arch false v)) l)

let render_key = function DKInt z -> "i" ^ string_of_int (int_of_z z) | DKStr s -> "s" ^ hex_of_string (string_of_str s)

let rec render (d : doc) : string =
  match d with
  | DNull -> "n"
  | DBool true -> "t"
  | DBool false -> "f"
  | DInt z -> "i" ^ string_of_int (int_of_z z)
  | DStr s -> "s" ^ hex_of_string (string_of_str s)
  | DArr (est, l) ->
    let items = List.map render l in
    let items = if int_of_nat est = 1 then List.sort compare items else items in
    "[" ^ String.concat "," items ^ "]"
  | DMap l ->
    let items = List.map (fun (k, v) -> render_key k ^ ":" ^ render v) l in
    "{" ^ String.concat "," (List.sort compare items) ^ "}"

let exc_name = function
  | EParsing -> "EXC:ParsingError"
  | EOutOfRange -> "EXC:OutOfRange"
  | EOverflow -> "EXC:Overflow"
  | EMismatch -> "EXC:MismatchedTypes"
  | EValidation _ -> "EXC:FailedValidation"

let arch_of = function
  | "json" -> { null_scope_is_mismatch = false; null_str = NullStrSkip; first_index = nat_of_int 1; text_mode = None }   (* fixes a88d81b, cde2a3b *)
  | "mp" -> { null_scope_is_mismatch = false; null_str = NullStrSkip; first_index = nat_of_int 1; text_mode = None }
  | "csv" -> { null_scope_is_mismatch = true; null_str = NullStrEmpty; first_index = nat_of_int 0; text_mode = None }
  | "xml" -> xml_arch            (* the instance the theorems name (coq/ArchModel.v) *)
  | _ -> raise (Syntax "arch")

let pol_of (s : string) : pols =
  let p c = match c with 'S' -> PSkip | 'T' -> PThrow | _ -> raise (Syntax "pol") in
  if String.length s <> 2 then raise (Syntax "pol");
  { p_mismatch = p s.[0]; p_overflow = p s.[1] }

let hexs (l : n list) : string = let s = string_of_str l in if s = "" then "-" else hex_of_string s

let () =
  try
    while true do
      let line = input_line stdin in
      let t = Array.of_list (split_on ' ' line) in
      (try
        match t.(0) with
        | "popload" ->
          let arch = t.(1) in
          let a = arch_of arch in
          let ty = List.nth type_catalogue (int_of_string t.(2)) in
          let mode = (match t.(3) with "-" -> None | "c" -> Some Clean | "o" -> Some OnlyExistKeys | "u" -> Some UpdateKeys | _ -> raise (Syntax "mode")) in
          let pl = pol_of t.(4) in
          let prior = doc_of_tree "mp" false (parse_tree t.(5)) in   (* a value, not a document: keys keep their type *)
          let d = doc_of_tree arch true (parse_tree t.(6)) in
          (match run_popload a pl ty mode prior d with
           | ABadCase -> print_string "BADCASE\n"
           | AExc e -> print_string (exc_name e ^ "\n")
           | AOk v -> print_string ("OK " ^ render v ^ "\n"))
        | "popclass" ->
          (* is the document inside the F36 class of C18 (has_unloaded, coq/ArchProofs.v: some position of the document
             comes back "not loaded")?  same arguments as popload; the map modes have no class *)
          let arch = t.(1) in
          let a = arch_of arch in
          let ty = List.nth type_catalogue (int_of_string t.(2)) in
          let pl = pol_of t.(4) in
          let d = doc_of_tree arch true (parse_tree t.(6)) in
          if t.(3) = "o" || t.(3) = "u" then print_string "NA\n"
          else print_string (if has_unloaded a pl ty d then "IN\n" else "OUT\n")
        | "valclass" ->
          (* is the load inside the F32 class of C17 (truncated, coq/ArchValidation.v)?  same arguments as validate *)
          let arch = t.(1) in
          let a = arch_of arch in
          let cls = List.nth class_catalogue (int_of_string t.(2)) in
          let max = n_of_int (int_of_string t.(3)) in
          let pl = pol_of t.(4) in
          let d = doc_of_tree arch true (parse_tree t.(5)) in
          (match validate_class a pl max cls d with
           | Some true -> print_string "IN\n"
           | Some false -> print_string "OUT\n"
           | None -> print_string "NA\n")
        | "validate" ->
          let arch = t.(1) in
          let a = arch_of arch in
          let cls = List.nth class_catalogue (int_of_string t.(2)) in
          let max = n_of_int (int_of_string t.(3)) in
          let pl = pol_of t.(4) in
          let d = doc_of_tree arch true (parse_tree t.(5)) in
          (match run_validate a pl max cls d with
           | VOk v -> print_string ("OK " ^ render v ^ "\n")
           | VExc e -> print_string (exc_name e ^ "\n")
           | VVal (m, st) ->
             let items = List.map (fun (p, ms) -> (hexs p, String.concat "," (List.map hexs ms))) m in
             let items = List.sort (fun (p1, _) (p2, _) -> compare p1 p2) items in
             Printf.printf "VAL %s %s\n" (String.concat ";" (List.map (fun (p, ms) -> p ^ ":" ^ ms) items))
               (match st with Some v -> render v | None -> "-"))
        | _ -> print_string "UNSUPPORTED\n"
      with Syntax m -> Printf.printf "BADCASE %s\n" m
         | Failure m -> Printf.printf "BADCASE %s\n" m
         | Invalid_argument m -> Printf.printf "BADCASE %s\n" m
         | Not_found -> print_string "BADCASE\n")
    done
  with End_of_file -> ()
