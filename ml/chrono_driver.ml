(* chrono_driver.ml — runs the extracted chrono model on the line protocol of harness/drv_chrono.cpp *)

exception Unsupported
exception BadCase

let prec_of = function
  | "ns" -> Pns | "us" -> Pus | "ms" -> Pms | "s" -> Ps | "min" -> Pmin | "h" -> Ph | "d" -> Pd
  | _ -> raise Unsupported
let rep_of = function
  | "i64" -> I64 | "i32" -> I32 | "u64" -> U64 | "i8" -> I8 | _ -> raise Unsupported
let rep_signed = function U64 | U32 -> false | _ -> true

(* the (P,R) pairs for which the library's printing code compiles (see drv_chrono.cpp) *)
let can_print_tp (_ : prec) (r : ity) = rep_signed r
let can_print_dur (p : prec) (r : ity) = rep_signed r || (match p with Pns | Pus | Pms -> false | _ -> true)

let in_rep (r : ity) (x : z) : bool = fits r x
let count_of_string (r : ity) (s : string) : z =
  let v = (try z_of_dec s with _ -> raise BadCase) in
  if (not (rep_signed r)) && String.length s > 0 && s.[0] = '-' then raise BadCase;
  if not (in_rep r v) then raise BadCase;
  v

let err_name = function
  | InvalidArgument -> "EXC:invalid_argument" | OutOfRange -> "EXC:out_of_range" | RuntimeError -> "EXC:runtime_error"
let ub_name = function UBOverflow -> "UB:overflow" | UBBuffer -> "UB:buffer" | UBNull -> "UB:null"

let answer (f : 'a -> string) (o : 'a outcome) : string =
  match o with
  | Ok v -> "OK " ^ f v
  | Err e -> err_name e
  | UB k -> ub_name k
  | OutOfFuel0 -> "FUEL"

let unit_list (s : string) : n list = parse_list s

let a_tp_print p r c = if can_print_tp p r then answer fmt_hexbytes (tp_print p r c) else raise Unsupported
let a_dur_print p r c = if can_print_dur p r then answer fmt_hexbytes (dur_print p r c) else raise Unsupported
let a_tp_parse p r text = answer dec_of_z (tp_parse p r text)
let a_dur_parse p r text = answer dec_of_z (dur_parse p r text)
let a_ts_to p r c = answer (fun (s, ns) -> dec_of_z s ^ " " ^ dec_of_z ns) (ts_to p r c)
let a_ts_from is_tp p r s ns = answer dec_of_z ((if is_tp then ts_from_tp else ts_from_dur) p r s ns)

(* ts.wire: To(value, CBinTimestamp&), WriteValue; then ReadValue(CBinTimestamp&), To(CBinTimestamp, value&) *)
let a_ts_wire is_tp p r c =
  match mp_save_chrono p r c with
  | Ok bytes ->
    (match mp_load_chrono (if is_tp then ts_from_tp else ts_from_dur) { o_mismatch = PThrow; o_overflow = PThrow } p r bytes with
     | Loaded (v, rest) ->
       (match v with
        | Ok x -> if rest = [] then "OK " ^ fmt_hexbytes bytes ^ " " ^ dec_of_z x else "TRAILING"
        | _ -> answer dec_of_z v)
     | NotLoaded -> "NOTLOADED")
  | o -> answer fmt_hexbytes o

let per_of = function
  | "ns" -> (1, 1000000000) | "us" -> (1, 1000000) | "ms" -> (1, 1000) | "s" -> (1, 1) | "min" -> (60, 1)
  | "h" -> (3600, 1) | "d" -> (86400, 1) | "w" -> (604800, 1) | "r7" -> (7, 1) | "r5" -> (5, 1) | "r2_3" -> (2, 3)
  | _ -> raise Unsupported
let zi (i : int) : z = z_of_int64 true (Int64.of_int i)
let mk_dty r (nu, de) = { d_rep = r; d_num = zi nu; d_den = zi de }

let a_cast sp sr dp dr c =
  let srep = (match sr with "i64" -> I64 | "u64" -> U64 | "i32" -> I32 | _ -> raise Unsupported) in
  let drep = rep_of dr in
  let odd s = String.length s > 0 && s.[0] = 'r' in
  if (odd sp || odd dp) && not (List.mem (sp, dp) [("r7", "r5"); ("r5", "r7"); ("s", "r2_3"); ("r2_3", "s")]) then raise Unsupported;
  let v = count_of_string srep c in
  answer dec_of_z (safe_cast (mk_dty srep (per_of sp)) (mk_dty drep (per_of dp)) v)

let fold (h : hash) (ans : string) =
  String.iter (fun ch -> hash_add h (Char.code ch)) ans;
  hash_add h 10

let is_ok (a : string) = String.length a >= 3 && String.sub a 0 3 = "OK "

let sweep kind is_tp p r (start : string) (n : int) (step : int) : string =
  let signed = rep_signed r in
  let start64 = (let v = count_of_string r start in ignore v;
                 if String.length start > 0 && start.[0] = '-' then Int64.of_string start else Int64.of_string ("0u" ^ start)) in
  let mask = (match r with I8 -> Some 8 | I32 -> Some 32 | _ -> None) in
  let h = hash_new () in
  let nontrivial = ref 0 in
  for i = 0 to n - 1 do
    let raw = Int64.add start64 (Int64.mul (Int64.of_int i) (Int64.of_int step)) in
    (* wrap into the representation like static_cast<R>(UR(start) + UR(i*step)) *)
    let c64 = (match mask with
               | Some b -> Int64.shift_right (Int64.shift_left raw (64 - b)) (64 - b)
               | None -> raw) in
    let c = z_of_int64 signed c64 in
    let nt = ref (signed && Int64.compare c64 0L < 0) in
    (match kind with
     | "sweep.print" | "sweep.rt" ->
       let o = (if is_tp then (if can_print_tp p r then tp_print p r c else raise Unsupported)
                else (if can_print_dur p r then dur_print p r c else raise Unsupported)) in
       let a = answer fmt_hexbytes o in
       fold h a;
       (match o with
        | Ok text ->
          if kind = "sweep.rt" then begin
            let b = (if is_tp then a_tp_parse p r text else a_dur_parse p r text) in
            fold h b;
            if not (is_ok b) then nt := true
          end
        | _ -> nt := true)
     | "sweep.ts" ->
       let o = ts_to p r c in
       let a = answer (fun (s, ns) -> dec_of_z s ^ " " ^ dec_of_z ns) o in
       fold h a;
       (match o with
        | Ok (s, ns) ->
          let b = a_ts_from is_tp p r s ns in
          fold h b;
          if not (is_ok b) then nt := true
        | _ -> nt := true)
     | _ -> raise Unsupported);
    hash_tick h;
    if !nt then incr nontrivial
  done;
  Printf.sprintf "H %d %d %d" h.h h.cnt !nontrivial

let run_line (t : string array) : string =
  let op = t.(0) in
  match op with
  | "tp.print" -> let p = prec_of t.(1) and r = rep_of t.(2) in a_tp_print p r (count_of_string r t.(3))
  | "dur.print" -> let p = prec_of t.(1) and r = rep_of t.(2) in a_dur_print p r (count_of_string r t.(3))
  | "tp.parse" -> a_tp_parse (prec_of t.(1)) (rep_of t.(2)) (parse_hexbytes t.(3))
  | "dur.parse" -> a_dur_parse (prec_of t.(1)) (rep_of t.(2)) (parse_hexbytes t.(3))
  | "tp.parse16" -> answer dec_of_z (tp_parse_wide W16 (prec_of t.(1)) (rep_of t.(2)) (unit_list t.(3)))
  | "tp.parse32" -> answer dec_of_z (tp_parse_wide W32 (prec_of t.(1)) (rep_of t.(2)) (unit_list t.(3)))
  | "dur.parse16" -> answer dec_of_z (dur_parse_wide W16 (prec_of t.(1)) (rep_of t.(2)) (unit_list t.(3)))
  | "dur.parse32" -> answer dec_of_z (dur_parse_wide W32 (prec_of t.(1)) (rep_of t.(2)) (unit_list t.(3)))
  | "ts.to" -> let p = prec_of t.(2) and r = rep_of t.(3) in a_ts_to p r (count_of_string r t.(4))
  | "ts.wire" -> let p = prec_of t.(2) and r = rep_of t.(3) in a_ts_wire (t.(1) = "tp") p r (count_of_string r t.(4))
  | "ts.from" ->
    let p = prec_of t.(2) and r = rep_of t.(3) in
    a_ts_from (t.(1) = "tp") p r (count_of_string I64 t.(4)) (count_of_string I32 t.(5))
  | "rt.print" -> answer fmt_hexbytes (rt_print (count_of_string I64 t.(1)))
  | "rt.parse" -> answer dec_of_z (rt_parse (parse_hexbytes t.(1)))
  | "tm.print" ->
    let g i = count_of_string I32 t.(i) in
    answer fmt_hexbytes (tm_print (g 1) (g 2) (g 3) (g 4) (g 5) (g 6))
  | "tm.parse" ->
    answer (fun (((((y, mo), d), h), mi), s) -> String.concat " " (List.map dec_of_z [y; mo; d; h; mi; s])) (tm_parse (parse_hexbytes t.(1)))
  | "cast" -> a_cast t.(1) t.(2) t.(3) t.(4) t.(5)
  | "sweep.print" | "sweep.rt" | "sweep.ts" ->
    sweep op (t.(1) = "tp") (prec_of t.(2)) (rep_of t.(3)) t.(4) (int_of_string t.(5)) (int_of_string t.(6))
  | _ -> raise Unsupported

let () =
  try
    while true do
      let line = input_line stdin in
      let t = Array.of_list (split_on ' ' line) in
      let ans = (try run_line t with
                 | Unsupported -> "UNSUPPORTED"
                 | BadCase -> "BADCASE"
                 | Invalid_argument m -> "DRIVER-EXC " ^ m
                 | Failure m -> "DRIVER-EXC " ^ m) in
      print_string ans; print_char '\n'
    done
  with End_of_file -> ()
