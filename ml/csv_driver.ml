(* csv_driver.ml — runs the extracted CSV model (and spec) on the line protocol of harness/drv_csv.cpp.
   Extra ops answered by the specification only (used by props/C09.py to judge an observed behaviour):
     rfc <sep> <bytes>            RFC 4180 reference parser:  SOME <row>/<row>... | NONE
     sel <hdr> <keys> <rows>      the cells a reader asking for <keys> must get ('.' when there are no rows) *)

let parse_fields (s : string) : n list list =
  if s = "_" then [] else List.map parse_hexbytes (split_on ',' s)

let fmt_fields (l : n list list) : string =
  if l = [] then "_" else String.concat "," (List.map fmt_hexbytes l)

let fmt_cells (l : n list option list) : string =
  if l = [] then "_"
  else String.concat "," (List.map (function None -> "~" | Some v -> fmt_hexbytes v) l)

let parse_table (s : string) : n list list * n list list list =
  match split_on '/' s with
  | [] -> ([], [])
  | h :: rows -> (parse_fields h, List.map parse_fields rows)

let parse_sep (s : string) : n = n_of_int (int_of_string ("0x" ^ s))

let err_name = function
  | InvalidOptions -> "EXC:InvalidOptions"
  | ParsingError -> "EXC:ParsingError"
  | OutOfRange -> "EXC:OutOfRange"
  | StdOutOfRange -> "EXC:std::out_of_range"

let show (f : 'a -> string) (o : 'a outcome) : string =
  match o with
  | Ok a -> f a
  | Err e -> err_name e
  | Terminate -> "TERMINATE"
  | UB -> "UB"
  | OutOfFuel -> "OUTOFFUEL"

let kind_of = function
  | "mem" -> WString
  | "stream" -> WStream false
  | "streambom" -> WStream true
  | _ -> failwith "mode"

let show_rows rows =
  if rows = [] then "OK ." else "OK " ^ String.concat "/" (List.map fmt_cells rows)

let () =
  try
    while true do
      let line = input_line stdin in
      let t = Array.of_list (split_on ' ' line) in
      (try
        match t.(0) with
        | "csvw" when Array.length t = 4 ->
          let (hdr, rows) = parse_table t.(3) in
          let r = csv_save (kind_of t.(1)) (parse_sep t.(2)) (List.map (with_keys hdr) rows) in
          print_string (show (fun out -> "OK " ^ fmt_hexbytes out) r ^ "\n")
        | "csvwi" when Array.length t = 5 ->
          let (hdr, rows) = parse_table t.(4) in
          let r = writer_run (kind_of t.(1)) (t.(2) = "H") (parse_sep t.(3)) (List.map (with_keys hdr) rows) in
          print_string (show (fun out -> "OK " ^ fmt_hexbytes out) r ^ "\n")
        | "csvr" when Array.length t = 5 ->
          let sep = parse_sep t.(2) and keys = parse_fields t.(3) and text = parse_hexbytes t.(4) in
          if t.(1) = "mem" then
            print_string (show show_rows (csv_load sep keys text) ^ "\n")
          else begin
            (* "stream" = the library's chunk size 256; "stream<K>" = the chunk size of a hook build
               (-DBITSERIALIZER_VERIF_CSV_CHUNK_SIZE=<K>); the theorems are for every K *)
            let k = if t.(1) = "stream" then chunk_size
                    else nat_of_int (int_of_string (String.sub t.(1) 6 (String.length t.(1) - 6))) in
            if not (utf8_detected k text) then begin
              (* a UTF-16/32 source: the CSV loader fed the chunks of the stream family's model of
                 CEncodedStreamReader<char, K> (csv_load_encoded, coq/CsvEncodings.v); policy Skip and the default
                 error mark of the class.  K must be a multiple of 4, >= 32 there *)
              let mark = List.map n_of_int [0xE2; 0x98; 0x90] in
              let fuel = nat_of_int (List.length text + 2) in
              match csv_load_encoded k Skip mark fuel sep keys text true with
              | Some r -> print_string (show show_rows r ^ "\n")
              | None -> print_string "UNSUPPORTED\n"
            end
            else print_string (show show_rows (csv_load_stream k sep keys text) ^ "\n")
          end
        | "csvh" when Array.length t = 5 ->
          (* a request program per row (C03): <prog>/<prog>/..., each a field list *)
          let sep = parse_sep t.(2) and text = parse_hexbytes t.(4) in
          let progs = List.map parse_fields (split_on '/' t.(3)) in
          if t.(1) = "mem" then
            print_string (show show_rows (csv_load_hist sep progs text) ^ "\n")
          else begin
            let k = if t.(1) = "stream" then chunk_size
                    else nat_of_int (int_of_string (String.sub t.(1) 6 (String.length t.(1) - 6))) in
            if not (utf8_detected k text) then print_string "UNSUPPORTED\n"
            else print_string (show show_rows (csv_load_stream_hist k sep progs text) ^ "\n")
          end
        | "sepv" when Array.length t = 2 ->
          let a = if validate_separator (parse_sep t.(1)) then "OK" else "EXC:InvalidOptions" in
          Printf.printf "%s %s %s %s\n" a a a a
        | "rfc" when Array.length t = 3 ->
          (match rfc_parse (parse_sep t.(1)) (parse_hexbytes t.(2)) with
           | None -> print_string "NONE\n"
           | Some tbl -> print_string ("SOME " ^ String.concat "/" (List.map fmt_fields tbl) ^ "\n"))
        | "sel" when Array.length t = 4 ->
          let hdr = parse_fields t.(1) and keys = parse_fields t.(2) in
          let rows = if t.(3) = "." then [] else List.map parse_fields (split_on '/' t.(3)) in
          print_string (show_rows (select hdr keys rows) ^ "\n")
        | _ -> print_string "UNSUPPORTED\n"
      with Failure m -> Printf.printf "EXC %s\n" m
         | Invalid_argument m -> Printf.printf "EXC %s\n" m
         | Not_found -> print_string "EXC not_found\n");
      flush stdout
    done
  with End_of_file -> ()
