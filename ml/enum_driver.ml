(* enum_driver.ml — answers the line protocol of harness/drv_enum.cpp from the extracted model
   (coq/EnumModel.v).  The registry is DATA carried by the case line (token 3 = the dump the C++ driver
   printed for `reg <id>`); the registry id (token 2) is ignored here. *)

let width_of = function "8" -> W8 | "16" -> W16 | "32" -> W32 | "w" -> WW | _ -> failwith "width"

(* "<shex>:<hex name>;..." , "-" = no descriptors *)
let parse_registry (s : string) : registry =
  if s = "-" then [] else
    List.map (fun e ->
      match String.index_opt e ':' with
      | Some i -> (z_of_shex (String.sub e 0 i), parse_hexbytes (String.sub e (i + 1) (String.length e - i - 1)))
      | None -> failwith "registry entry") (split_on ';' s)

let answer (t : string array) : string =
  let op = t.(0) in
  if op = "tl" then shex_of_z (tolower_c (z_of_shex t.(1)))
  else begin
    let r = parse_registry t.(3) in
    match op with
    | "from" ->
      (match from_text (width_of t.(1)) r (parse_list t.(4)) with Ok v -> "OK " ^ shex_of_z v | InvalidArgument -> "EXC:invalid_argument")
    | "try" ->
      (match from_text (width_of t.(1)) r (parse_list t.(4)) with Ok v -> "OK " ^ shex_of_z v | InvalidArgument -> "NONE")
    | "to" ->
      (match to_text (width_of t.(1)) r (z_of_shex t.(4)) with Ok s -> "OK " ^ fmt_list s | InvalidArgument -> "EXC:invalid_argument")
    | "rt" ->
      let w = width_of t.(1) in
      (match to_text w r (z_of_shex t.(4)) with
       | InvalidArgument -> "EXC-TO:invalid_argument"
       | Ok s ->
         (match from_text w r s with Ok v -> "OK " ^ shex_of_z v | InvalidArgument -> "EXC-FROM:invalid_argument:" ^ fmt_list s))
    | "svn" ->
      (match save_enum r (z_of_shex t.(4)) with Saved n -> "OK " ^ fmt_hexbytes n | UnregisteredEnum -> "EXC:UnregisteredEnum")
    | "ldn" ->
      (match load_enum r (t.(4) = "t") (parse_hexbytes t.(5)) with
       | Loaded v -> "OK " ^ shex_of_z v | MismatchedTypes -> "EXC:MismatchedTypes" | Kept -> "KEPT")
    | "mp" ->
      (* std::map<E,int>: the i-th listed key carries the value i (a repeated key is overwritten), saved in ascending key order *)
      let keys = if t.(4) = "-" then [] else List.map z_of_shex (split_on ',' t.(4)) in
      let m = ref [] in
      List.iteri (fun i k -> m := map_put k (n_of_int i) !m) keys;
      (match map_roundtrip r !m with
       | MapLoaded l -> "OK " ^ (if l = [] then "-" else String.concat ";" (List.map (fun (k, x) -> shex_of_z k ^ "=" ^ string_of_int (int_of_n x)) l))
       | MapSaveInvalidArgument -> "EXC:invalid_argument"
       | MapLoadMismatched -> "EXC:MismatchedTypes")
    | _ -> "BAD-OP"
  end

let () =
  try
    while true do
      let line = input_line stdin in
      let t = Array.of_list (split_on ' ' line) in
      let out = try answer t with Failure m -> "MODEL-ERROR " ^ m | Invalid_argument m -> "MODEL-ERROR " ^ m | Not_found -> "MODEL-ERROR" in
      print_string out; print_char '\n'; flush stdout
    done
  with End_of_file -> ()
