(* glue.ml — trusted glue shared by the model drivers; textually appended after an extracted
   model (so [n], [positive], [nat] are the extracted inductive types of that model). *)

let bit_snoc (acc : n) (b : bool) : n =
  match acc, b with
  | N0, false -> N0
  | N0, true -> Npos XH
  | Npos p, false -> Npos (XO p)
  | Npos p, true -> Npos (XI p)

let hexval c =
  match c with
  | '0'..'9' -> Char.code c - 48
  | 'a'..'f' -> Char.code c - 87
  | 'A'..'F' -> Char.code c - 55
  | _ -> failwith "bad hex digit"

let n_of_hex (s : string) : n =
  let acc = ref N0 in
  String.iter (fun c ->
    let v = hexval c in
    acc := bit_snoc !acc (v land 8 <> 0);
    acc := bit_snoc !acc (v land 4 <> 0);
    acc := bit_snoc !acc (v land 2 <> 0);
    acc := bit_snoc !acc (v land 1 <> 0)) s;
  !acc

(* bits of a positive, least significant first *)
let rec pos_bits (p : positive) (acc : bool list) : bool list =
  match p with
  | XH -> List.rev (true :: acc)
  | XO q -> pos_bits q (false :: acc)
  | XI q -> pos_bits q (true :: acc)

let hex_of_n (x : n) : string =
  match x with
  | N0 -> "0"
  | Npos p ->
    let bits = Array.of_list (pos_bits p []) in   (* lsb first *)
    let nb = Array.length bits in
    let nd = (nb + 3) / 4 in
    let b = Buffer.create nd in
    for d = nd - 1 downto 0 do
      let v = ref 0 in
      for k = 3 downto 0 do
        let i = d * 4 + k in
        v := !v * 2 + (if i < nb && bits.(i) then 1 else 0)
      done;
      Buffer.add_char b "0123456789abcdef".[!v]
    done;
    Buffer.contents b

let rec pos_of_int i = if i = 1 then XH else if i land 1 = 0 then XO (pos_of_int (i lsr 1)) else XI (pos_of_int (i lsr 1))
let n_of_int i = if i = 0 then N0 else Npos (pos_of_int i)
let rec int_of_pos = function XH -> 1 | XO p -> 2 * int_of_pos p | XI p -> 2 * int_of_pos p + 1
let int_of_n = function N0 -> 0 | Npos p -> int_of_pos p

let nat_of_int i = let r = ref O in for _ = 1 to i do r := S !r done; !r
let int_of_nat x = let rec go acc = function O -> acc | S m -> go (acc + 1) m in go 0 x

let split_on c s = String.split_on_char c s

(* "-" = empty list, otherwise comma separated hex numbers *)
let parse_list (s : string) : n list =
  if s = "-" || s = "" then [] else List.map n_of_hex (split_on ',' s)
let fmt_list (l : n list) : string =
  if l = [] then "-" else String.concat "," (List.map hex_of_n l)

(* hex string of bytes <-> list of byte values *)
let parse_hexbytes (s : string) : n list =
  if s = "-" then [] else begin
    let r = ref [] in
    let len = String.length s / 2 in
    for i = len - 1 downto 0 do
      r := n_of_int (hexval s.[2*i] * 16 + hexval s.[2*i+1]) :: !r
    done; !r end
let fmt_hexbytes (l : n list) : string =
  if l = [] then "-" else begin
    let b = Buffer.create 64 in
    List.iter (fun x -> Buffer.add_string b (Printf.sprintf "%02x" (int_of_n x))) l;
    Buffer.contents b end

(* rolling hash shared with the C++ drivers: h' = (h * 1000003 + x) mod 2^62 *)
let mask62 = (1 lsl 62) - 1
type hash = { mutable h : int; mutable cnt : int }
let hash_new () = { h = 0; cnt = 0 }
let hash_add (s : hash) (x : int) = s.h <- (s.h * 1000003 + (x land mask62)) land mask62
let hash_tick (s : hash) = s.cnt <- s.cnt + 1
