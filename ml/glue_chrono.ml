(* glue_chrono.ml — trusted glue for the chrono model driver: decimal text <-> the extracted Z.
   Every value on the wire lies in [-2^63, 2^64), so one Int64 (read as signed or unsigned) carries it. *)

(* Z from the 64 bits of an Int64 read as unsigned *)
let z_of_bits64 (x : int64) : z =
  let acc = ref N0 in
  for i = 63 downto 0 do
    acc := bit_snoc !acc (Int64.logand (Int64.shift_right_logical x i) 1L = 1L)
  done;
  match !acc with N0 -> Z0 | Npos p -> Zpos p

let zneg (x : z) : z = match x with Z0 -> Z0 | Zpos p -> Zneg p | Zneg p -> Zpos p

(* decimal text, optional leading '-' ; magnitude below 2^64 *)
let z_of_dec (s : string) : z =
  if String.length s = 0 then failwith "empty number";
  if s.[0] = '-' then zneg (z_of_bits64 (Int64.of_string ("0u" ^ String.sub s 1 (String.length s - 1))))
  else z_of_bits64 (Int64.of_string ("0u" ^ s))

let bits64_of_pos (p : positive) : int64 =
  let rec go p (w : int64) (acc : int64) =
    match p with
    | XH -> Int64.add acc w
    | XO q -> go q (Int64.shift_left w 1) acc
    | XI q -> go q (Int64.shift_left w 1) (Int64.add acc w) in
  go p 1L 0L

let dec_of_z (x : z) : string =
  match x with
  | Z0 -> "0"
  | Zpos p -> Printf.sprintf "%Lu" (bits64_of_pos p)
  | Zneg p -> "-" ^ Printf.sprintf "%Lu" (bits64_of_pos p)

(* Int64 (two's complement bits) -> Z according to the signedness of the representation *)
let z_of_int64 (signed : bool) (x : int64) : z =
  if signed && Int64.compare x 0L < 0 then
    (if x = Int64.min_int then zneg (z_of_bits64 x) else zneg (z_of_bits64 (Int64.neg x)))
  else z_of_bits64 x
