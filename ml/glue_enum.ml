(* glue_enum.ml — signed glue for the enum family (extracted type z = Z0 | Zpos of positive | Zneg of positive).
   shex: '-' or '+' followed by a hex magnitude (same text as harness/drv_enum.cpp prints). *)
let z_of_shex (s : string) : z =
  let mag = n_of_hex (String.sub s 1 (String.length s - 1)) in
  match mag with
  | N0 -> Z0
  | Npos p -> if s.[0] = '-' then Zneg p else Zpos p
let shex_of_z (x : z) : string =
  match x with
  | Z0 -> "+0"
  | Zpos p -> "+" ^ hex_of_n (Npos p)
  | Zneg p -> "-" ^ hex_of_n (Npos p)
