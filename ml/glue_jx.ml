(* glue_jx.ml — trusted glue of the jx model driver: decimal <-> N/Z, the floating point oracles
   (libc strtod through float_of_string: correctly rounded), byte strings <-> code units. *)

let ten = n_of_int 10

let n_of_dec (s : string) : n =
  let acc = ref N0 in
  String.iter (fun c ->
    if c < '0' || c > '9' then failwith "bad decimal";
    acc := N.add (N.mul !acc ten) (n_of_int (Char.code c - 48))) s;
  !acc

let z_of_dec (s : string) : z =
  let neg = String.length s > 0 && s.[0] = '-' in
  let mag = n_of_dec (if neg then String.sub s 1 (String.length s - 1) else s) in
  match mag with
  | N0 -> Z0
  | Npos p -> if neg then Zneg p else Zpos p

let string_of_codes (l : n list) : string =
  let b = Buffer.create 32 in
  List.iter (fun c -> Buffer.add_char b (Char.chr (int_of_n c land 255))) l;
  Buffer.contents b

let dec_of_z (x : z) : string = string_of_codes (dec_of_Z x)

let n_of_int64_bits (b : int64) : n = n_of_hex (Printf.sprintf "%Lx" b)

(* number lexeme -> IEEE bits (None: outside the range of double) *)
let strtod_oracle (lexeme : n list) : n option =
  let s = string_of_codes lexeme in
  match float_of_string_opt s with
  | None -> None
  | Some f -> if Float.abs f = Float.infinity then None else Some (n_of_int64_bits (Int64.bits_of_float f))

let dbl_match_oracle (bits : n) (lexeme : n list) : bool =
  match strtod_oracle lexeme with
  | Some b -> b = bits
  | None -> false

(* static_cast<double>(integer): round to nearest even = correctly rounded decimal conversion *)
let i2d_oracle (x : z) : n =
  n_of_int64_bits (Int64.bits_of_float (float_of_string (dec_of_z x)))

(* bytes -> code units of the given width / byte order *)
let units_of_bytes (width : int) (big : bool) (bytes : n list) : n list option =
  let a = Array.of_list (List.map int_of_n bytes) in
  let len = Array.length a in
  let k = width / 8 in
  if len mod k <> 0 then None
  else begin
    let r = ref [] in
    let i = ref (len - k) in
    while !i >= 0 do
      let v = ref 0 in
      for j = 0 to k - 1 do
        let byte = if big then a.(!i + j) else a.(!i + k - 1 - j) in
        v := (!v lsl 8) lor byte
      done;
      r := n_of_int !v :: !r;
      i := !i - k
    done;
    Some !r
  end
