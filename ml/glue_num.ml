(* glue_num.ml — trusted glue of the num model driver: Z <-> "[-]hex" and small helpers.
   Appended after the extracted model and glue.ml, so z / n / positive are the extracted types. *)

let z_of_hex (s : string) : z =
  let neg = String.length s > 0 && s.[0] = '-' in
  let body = if neg then String.sub s 1 (String.length s - 1) else s in
  match n_of_hex body with
  | N0 -> Z0
  | Npos p -> if neg then Zneg p else Zpos p

let hex_of_z (x : z) : string =
  match x with
  | Z0 -> "0"
  | Zpos p -> hex_of_n (Npos p)
  | Zneg p -> "-" ^ hex_of_n (Npos p)

let z_of_int (i : int) : z =
  if i = 0 then Z0 else if i > 0 then Zpos (pos_of_int i) else Zneg (pos_of_int (- i))

let starts_with (p : string) (s : string) : bool =
  String.length s >= String.length p && String.sub s 0 (String.length p) = p
