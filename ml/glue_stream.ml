(* glue_stream.ml — Z conversions for the stream driver (signed stream offsets) *)
let z_of_int i = if i = 0 then Z0 else if i > 0 then Zpos (pos_of_int i) else Zneg (pos_of_int (- i))
let int_of_z = function Z0 -> 0 | Zpos p -> int_of_pos p | Zneg p -> - (int_of_pos p)
(* decimal string (possibly > 2^62) to N *)
let n_of_dec (s : string) : n =
  let acc = ref N0 in
  let ten = n_of_int 10 in
  String.iter (fun c -> acc := N.add (N.mul !acc ten) (n_of_int (Char.code c - 48))) s;
  !acc
