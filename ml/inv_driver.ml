(* inv_driver.ml — runs the extracted scope models of coq/InvModel.v on the line protocol of the model-comparable
   ops of harness/drv_fault.cpp:
     mpmap <hexbytes>        LoadObject<MsgPackArchive>(std::map<std::string,int>&, bytes)
     csvrows <w1,w2,...>     SaveObject<CsvArchive>(std::vector<std::map<std::string,int>>) with the given row widths (hex)
   answers: OK | EXC(Parsing) | EXC(MismatchedTypes) | EXC(OutOfRange) | TERMINATE | UNMODELLED *)

let show = function
  | AOk -> "OK"
  | AExcParse -> "EXC(Parsing)"
  | AExcMismatch -> "EXC(MismatchedTypes)"
  | AExcRange -> "EXC(OutOfRange)"
  | ATerminate -> "TERMINATE"
  | AUnmodelled -> "UNMODELLED"

let () =
  try
    while true do
      let line = input_line stdin in
      let ans =
        try
          match split_on ' ' line with
          | ["mpmap"; h] -> show (mp_answer (parse_hexbytes h))
          | ["csvrows"; l] -> show (csv_answer (List.map (fun x -> nat_of_int (int_of_n x)) (parse_list l)))
          | _ -> "UNSUPPORTED"
        with _ -> "ERROR"
      in
      print_string ans; print_newline ()
    done
  with End_of_file -> ()
