(* jx_driver.ml — the extracted JSON/XML reference syntax and adapter model on a line protocol.

   m.chk  <json|xml> <enc> <bom 0|1> <type#> <rootkey|-> <value> <hex bytes produced by the implementation>
          -> AGREE <wf|save-raises> PROP <ok|fail:why>  |  DIFF <why> PROP <ok|fail:why>
             (AGREE/DIFF: implementation document vs. the model's document; PROP: the property itself,
              i.e. the verified reference parser accepts the document and its DOM is the data model of the value)
   m.load <json|xml> <mem|stream> <enc> <type#> <rootkey|-> <pol> <hex bytes>
          -> OK <value> | EXC:<category> | UNMODELLED | DECODE-ERR      (the model's prediction of jx.load)
   m.parse <json|xml> <enc> <hex bytes> -> DOM <dom> | REJECT | DECODE-ERR   (reference parser only)
   m.val  <json|xml> <vclass#> <pol> <hex bytes, UTF-8> -> <scopes' answer> | <RFC 6901 answer>  (xml: the scopes' answer only)
   m.doc  <json|xml> <type#> <rootkey|-> <value> -> DOC <ok 0|1> <text, doubles as <bits>>   (the model's document)

   values: n | t | f | i<decimal> | d<16 hex> | s<hex of UTF-8> | [v,..] | {s<hex>:v,..} | o- | o+<v> (optional / smart pointer)
           | g<16 hex> (float: the bits of the same number as a double) | e<index> (enum) *)

exception Bad of string

(* ------------------------------------------------------------------ small helpers *)
let codes_of_string (s : string) : n list = List.init (String.length s) (fun i -> n_of_int (Char.code s.[i]))

let utf8_to_cps (bytes : n list) : n list option =
  let r = transcode W8 W32 ThrowError [] bytes [] in
  if r.r_code = Success then Some r.r_out else None

let cps_to_utf8_hex (cps : n list) : string =
  let r = transcode W32 W8 ThrowError [] cps [] in
  if r.r_code = Success then (if r.r_out = [] then "" else fmt_hexbytes r.r_out) else raise (Bad "not scalar")

(* ------------------------------------------------------------------ value syntax *)
let parse_value (s : string) : val0 =
  let pos = ref 0 in
  let peek () = if !pos < String.length s then s.[!pos] else '\000' in
  let is_hex c = (c >= '0' && c <= '9') || (c >= 'a' && c <= 'f') in
  let hexstr () =
    let st = !pos in
    while is_hex (peek ()) do incr pos done;
    let h = String.sub s st (!pos - st) in
    if String.length h mod 2 <> 0 then raise (Bad "hex");
    match utf8_to_cps (if h = "" then [] else parse_hexbytes h) with
    | Some cps -> cps
    | None -> raise (Bad "string is not UTF-8") in
  let rec value () : val0 =
    match peek () with
    | 'n' -> incr pos; VNull
    | 't' -> incr pos; VBool true
    | 'f' -> incr pos; VBool false
    | 'i' ->
      incr pos; let st = !pos in
      if peek () = '-' then incr pos;
      while peek () >= '0' && peek () <= '9' do incr pos done;
      VInt (z_of_dec (String.sub s st (!pos - st)))
    | 'd' ->
      incr pos; let st = !pos in
      while is_hex (peek ()) do incr pos done;
      if !pos - st <> 16 then raise (Bad "double");
      VDbl (n_of_hex (String.sub s st 16))
    | 's' -> incr pos; VStr (hexstr ())
    | 'g' ->
      incr pos; let st = !pos in
      while is_hex (peek ()) do incr pos done;
      if !pos - st <> 16 then raise (Bad "float");
      VFlt (n_of_hex (String.sub s st 16))
    | 'e' ->
      incr pos; let st = !pos in
      while peek () >= '0' && peek () <= '9' do incr pos done;
      VEnum (n_of_dec (String.sub s st (!pos - st)))
    | 'o' ->
      incr pos;
      if peek () = '-' then (incr pos; VOpt None)
      else if peek () = '+' then (incr pos; VOpt (Some (value ())))
      else raise (Bad "optional")
    | '[' ->
      incr pos;
      if peek () = ']' then (incr pos; VArr [])
      else begin
        let items = ref [value ()] in
        while peek () = ',' do incr pos; items := value () :: !items done;
        if peek () <> ']' then raise (Bad "]");
        incr pos; VArr (List.rev !items)
      end
    | '{' ->
      incr pos;
      if peek () = '}' then (incr pos; VObj [])
      else begin
        let items = ref [] in
        let continue = ref true in
        while !continue do
          if peek () <> 's' then raise (Bad "key");
          incr pos; let k = hexstr () in
          if peek () <> ':' then raise (Bad ":");
          incr pos; let v = value () in
          items := (k, v) :: !items;
          if peek () = ',' then incr pos else continue := false
        done;
        if peek () <> '}' then raise (Bad "}");
        incr pos; VObj (List.rev !items)
      end
    | _ -> raise (Bad "value") in
  let v = value () in
  if !pos <> String.length s then raise (Bad "trailing");
  v

let rec fmt_value (v : val0) : string =
  match v with
  | VNull -> "n"
  | VBool b -> if b then "t" else "f"
  | VInt x -> "i" ^ dec_of_z x
  | VDbl b -> let h = hex_of_n b in "d" ^ String.make (16 - String.length h) '0' ^ h
  | VStr s -> "s" ^ cps_to_utf8_hex s
  | VArr l -> "[" ^ String.concat "," (List.map fmt_value l) ^ "]"
  | VObj m -> "{" ^ String.concat "," (List.map (fun (k, x) -> "s" ^ cps_to_utf8_hex k ^ ":" ^ fmt_value x) m) ^ "}"
  | VOpt None -> "o-"
  | VOpt (Some x) -> "o+" ^ fmt_value x
  | VFlt b -> let h = hex_of_n b in "g" ^ String.make (16 - String.length h) '0' ^ h
  | VEnum i -> "e" ^ string_of_int (int_of_n i)

(* ------------------------------------------------------------------ encodings *)
let bom_of = function
  | "utf8" -> [0xEF; 0xBB; 0xBF] | "utf16le" -> [0xFF; 0xFE] | "utf16be" -> [0xFE; 0xFF]
  | "utf32le" -> [0xFF; 0xFE; 0; 0] | "utf32be" -> [0; 0; 0xFE; 0xFF] | _ -> raise (Bad "encoding")

let rec starts_with (p : int list) (l : n list) =
  match p, l with
  | [], _ -> true
  | a :: p', b :: l' -> a = int_of_n b && starts_with p' l'
  | _, [] -> false

let rec drop k l = if k = 0 then l else match l with [] -> [] | _ :: r -> drop (k - 1) r

(* (had_bom, code points) or None when the bytes are not well-formed in that encoding *)
let decode (enc : string) (bytes : n list) : (bool * n list) option =
  let bom = bom_of enc in
  (* FF FE 00 00 is the UTF-32LE BOM, but also the UTF-16LE BOM followed by U+0000: the declared encoding decides *)
  let had = starts_with bom bytes in
  let body = if had then drop (List.length bom) bytes else bytes in
  let cps =
    match enc with
    | "utf8" -> utf8_to_cps body
    | "utf16le" | "utf16be" ->
      (match units_of_bytes 16 (enc = "utf16be") body with
       | None -> None
       | Some u -> let r = transcode W16 W32 ThrowError [] u [] in if r.r_code = Success then Some r.r_out else None)
    | _ ->
      (match units_of_bytes 32 (enc = "utf32be") body with
       | None -> None
       | Some u -> if List.for_all scalarb u then Some u else None) in
  match cps with Some c -> Some (had, c) | None -> None

(* ------------------------------------------------------------------ JSON *)
let opts_of (pol : string) : opts =
  { mism_throw = not (String.length pol > 0 && pol.[0] = 'S'); ovf_throw = not (String.length pol > 1 && pol.[1] = 'S') }

let err_name = function
  | EMismatch -> "MismatchedTypes" | EOverflow -> "Overflow" | EOutOfRange -> "OutOfRange"
  | EParse -> "ParsingError" | EUtf -> "UtfEncodingError"

let fmt_outcome = function
  | Ok v -> "OK " ^ fmt_value v
  | Err e -> "EXC:" ^ err_name e

let rec fmt_jv (d : jv) : string =
  match d with
  | JNull -> "n" | JBool b -> if b then "t" else "f"
  | JNum l -> "#" ^ string_of_codes l
  | JStr s -> "s" ^ cps_to_utf8_hex s
  | JArr l -> "[" ^ String.concat "," (List.map fmt_jv l) ^ "]"
  | JObj m -> "{" ^ String.concat "," (List.map (fun (k, x) -> "s" ^ cps_to_utf8_hex k ^ ":" ^ fmt_jv x) m) ^ "}"

let get_type (idx : string) : ty =
  match List.nth_opt catalogue (int_of_string idx) with Some t -> t | None -> raise (Bad "type#")

let tok_string (t : tok) : string =
  match t with
  | TLBrace -> "{" | TRBrace -> "}" | TLBrack -> "[" | TRBrack -> "]" | TComma -> "," | TColon -> ":"
  | TNull -> "null" | TTrue -> "true" | TFalse -> "false"
  | TStr s -> "\"" ^ cps_to_utf8_hex s ^ "\""
  | TNum l -> string_of_codes l

let json_chk enc bom idx value hex : string =
  let t = get_type idx in
  let v = parse_value value in
  if not (has_type t v) then "BAD-VALUE" else
  match save_json t v with
  | None -> "UNSUPPORTED"
  | Some model_dom ->
    let (ok, ev) = accept model_dom in
    if not ok then
      (* Finalize() raises OutOfRange when the writer refuses the DOM (NaN / Inf): an exception satisfies the property *)
      (if hex = "EXC:OutOfRange" then "AGREE save-raises PROP ok"
       else if String.length hex >= 4 && String.sub hex 0 4 = "EXC:" then "DIFF other-exception-" ^ hex ^ " PROP ok"
       else "DIFF a-document-was-produced-where-the-writer-must-fail PROP fail:no-exception-for-a-value-JSON-cannot-carry")
    else if String.length hex < 2 || String.sub hex 0 2 <> "OK" then
      "DIFF the-model-saves-a-document-but-the-implementation-answered-" ^ (List.hd (String.split_on_char ' ' hex)) ^ " PROP fail:no-document"
    else begin
      let bytes = parse_hexbytes (String.sub hex 3 (String.length hex - 3)) in
      match decode enc bytes with
      | None -> "DIFF not-well-formed-" ^ enc ^ " PROP fail:encoding"
      | Some (had_bom, cps) ->
        let bom_ok = (had_bom = (bom = "1")) in
        (* the property: the reference parser accepts the document and recovers the data model of the value *)
        let parsed = json_parse_cps cps in
        let prop =
          if not bom_ok then "fail:bom"
          else match parsed, save_inner t v with
            | JOk d, Some ideal -> if rj_match dbl_match_oracle ideal d then "ok" else "fail:dom-differs-from-the-value"
            | JOk _, None -> "fail:model"
            | _, _ -> "fail:not-well-formed-json" in
        (* correspondence with the model of the adapter *)
        let agree =
          if not bom_ok then "DIFF bom"
          else match lex (nat_of_int (List.length cps + 1)) cps with
            | LOk ts ->
              if not (events_match dbl_match_oracle ev ts) then "DIFF tokens"
              else
                (match parsed with
                 | JOk d -> if rj_match dbl_match_oracle model_dom d then "AGREE wf" else "DIFF dom"
                 | _ -> "DIFF not-well-formed")
            | _ -> "DIFF lex" in
        agree ^ " PROP " ^ prop
    end

(* strings of a value printed as raw bytes (one byte per element): the no-validation path *)
let rec fmt_value_raw (v : val0) : string =
  let raw l = String.concat "" (List.map (fun c -> Printf.sprintf "%02x" (int_of_n c land 255)) l) in
  match v with
  | VStr s -> "s" ^ raw s
  | VArr l -> "[" ^ String.concat "," (List.map fmt_value_raw l) ^ "]"
  | VObj m -> "{" ^ String.concat "," (List.map (fun (k, x) -> "s" ^ raw k ^ ":" ^ fmt_value_raw x) m) ^ "}"
  | VOpt (Some x) -> "o+" ^ fmt_value_raw x
  | _ -> fmt_value v

(* a \uXXXX escape of a value >= 0x80 somewhere in the text (then bytes and code points would mix) *)
let has_high_escape (cps : n list) : bool =
  let a = Array.of_list (List.map int_of_n cps) in
  let n = Array.length a in
  let hexv c = if c >= 48 && c <= 57 then c - 48 else if c >= 97 && c <= 102 then c - 87 else if c >= 65 && c <= 70 then c - 55 else -1 in
  let found = ref false in
  for i = 0 to n - 6 do
    if a.(i) = 92 && a.(i + 1) = 117 then begin
      let h = List.map (fun k -> hexv a.(i + 2 + k)) [0; 1; 2; 3] in
      if List.for_all (fun x -> x >= 0) h then
        if List.fold_left (fun acc x -> acc * 16 + x) 0 h >= 0x80 then found := true
    end
  done;
  !found

(* RapidJSON copies the bytes of a string without validating them: bytes as characters *)
(* targets #37..#41 hold wide strings (u16string, u32string, wstring): the archive layer transcodes the loaded UTF-8,
   which fails (UtfEncodingError, default policy) when the bytes are not well-formed; map keys stay std::string *)
let wide_idx = ref false
let rec value_strings (v : val0) : n list list =
  match v with
  | VStr s -> [s]
  | VArr l -> List.concat_map value_strings l
  | VObj m -> List.concat_map (fun (_, x) -> value_strings x) m
  | VOpt (Some x) -> value_strings x
  | _ -> []

let json_load_raw8 (t : ty) (pol : string) (bytes8 : n list) : string =
  if has_high_escape bytes8 then "UNMODELLED"
  else match load_json_text strtod_oracle i2d_oracle (opts_of pol) t bytes8 with
    | Ok v ->
      if !wide_idx && List.exists (fun s -> utf8_to_cps s = None) (value_strings v) then "EXC:UtfEncodingError"
      else "OK " ^ fmt_value_raw v
    | Err e -> "EXC:" ^ err_name e

(* RapidJSON streams signal their end by '\000': a NUL character after the root value ends the document *)
let cut_at_nul (cps : n list) : n list =
  let rec go acc = function
    | [] -> cps
    | c :: r -> if int_of_n c = 0 then List.rev acc else go (c :: acc) r in
  go [] cps

let load_text_rj (t : ty) (pol : string) (cps : n list) : outcome =
  match load_json_text strtod_oracle i2d_oracle (opts_of pol) t cps with
  | Err EParse when List.exists (fun c -> int_of_n c = 0) cps ->
    load_json_text strtod_oracle i2d_oracle (opts_of pol) t (cut_at_nul cps)
  | r -> r

(* medium: mem | stream.  mem: Document::Parse on the bytes (UTF-8, a BOM is not skipped);
   stream: AutoUTFInputStream (BOM, else the zero-byte pattern of the first four bytes) read with AutoUTF as the
   source encoding: the text is transcoded (and thereby validated) to UTF-8 *)
let json_load medium enc idx pol hex : string =
  let t = get_type idx in
  wide_idx := (let i = int_of_string idx in i >= 37 && i <= 41);
  let bytes = if hex = "-" then [] else parse_hexbytes hex in
  if medium = "mem" then begin
    if starts_with (bom_of "utf8") bytes then "EXC:ParsingError"
    else match utf8_to_cps bytes with
      | Some cps -> fmt_outcome (load_text_rj t pol cps)
      | None -> json_load_raw8 t pol bytes
  end else begin
    (* rapidjson::AutoUTFInputStream::DetectType: the extracted rj_detect of coq/JxDetect.v (the function the theorems
       T_C08_stream_* are about) *)
    let (dt, skipn_) = rj_detect bytes in
    let det = (match dt with KUTF8 -> "utf8" | KUTF16LE -> "utf16le" | KUTF16BE -> "utf16be" | KUTF32LE -> "utf32le" | KUTF32BE -> "utf32be") in
    let skip = int_of_nat skipn_ in
    ignore enc;
    let body = drop skip bytes in
    if det = "utf8" then begin
      (* the reader stops at a NUL byte after the root value: what follows is never decoded *)
      let rec before_nul acc = function
        | [] -> None
        | c :: r -> if int_of_n c = 0 then Some (List.rev acc) else before_nul (c :: acc) r in
      let whole () =
        match utf8_to_cps body with
        | Some cps -> fmt_outcome (load_text_rj t pol cps)
        | None -> "EXC:ParsingError" in                  (* the transcoding reader rejects ill-formed UTF-8 *)
      match before_nul [] body with
      | Some prefix ->
        (match utf8_to_cps prefix with
         | Some cps ->
           (match load_json_text strtod_oracle i2d_oracle (opts_of pol) t cps with
            | Err EParse -> whole ()
            | r -> fmt_outcome r)
         | None -> whole ())
      | None -> whole ()
    end else begin
      (* code units; a trailing partial unit is read as if padded with zero bytes (Take() at the end of the stream gives 0) *)
      let k = if det = "utf16le" || det = "utf16be" then 2 else 4 in
      let whole = body @ (List.init ((k - List.length body mod k) mod k) (fun _ -> n_of_int 0)) in
      match units_of_bytes (k * 8) (det = "utf16be" || det = "utf32be") whole with
      | None -> "DECODE-ERR"
      | Some units ->
        let cps =
          if k = 2 then (let r = transcode W16 W32 ThrowError [] units [] in if r.r_code = Success then Some r.r_out else None)
          else (if List.for_all scalarb units then Some units else None) in
        (match cps with
         | Some c -> fmt_outcome (load_text_rj t pol c)
         | None -> "EXC:ParsingError")
    end
  end

(* m.detect <hex>: the detected type, the bytes consumed, and the text read by rj_read (strict) *)
let detect_op hex : string =
  let bytes = if hex = "-" then [] else parse_hexbytes hex in
  let (dt, k) = rj_detect bytes in
  let name = (match dt with KUTF8 -> "utf8" | KUTF16LE -> "utf16le" | KUTF16BE -> "utf16be" | KUTF32LE -> "utf32le" | KUTF32BE -> "utf32be") in
  name ^ " " ^ string_of_int (int_of_nat k) ^ " " ^ (match rj_read bytes with Some cps -> "TEXT " ^ cps_to_utf8_hex cps | None -> "NOTEXT")

let json_parse_op enc hex : string =
  let bytes = if hex = "-" then [] else parse_hexbytes hex in
  match decode enc bytes with
  | None -> "DECODE-ERR"
  | Some (_, cps) ->
    (match json_parse_cps cps with
     | JOk d -> "DOM " ^ fmt_jv d
     | JErr -> "REJECT"
     | JFuel -> "FUEL")

let json_doc idx value : string =
  let t = get_type idx in
  let v = parse_value value in
  if not (has_type t v) then "BAD-VALUE" else
  match save_json t v with
  | None -> "UNSUPPORTED"
  | Some d ->
    let (ok, ev) = accept d in
    "DOC " ^ (if ok then "1 " else "0 ") ^
    String.concat "" (List.map (function WTok t -> tok_string t | WDbl b -> "<" ^ hex_of_n b ^ ">") ev)

(* ------------------------------------------------------------------ XML *)
module Xmlops = struct
  let dtoa17_oracle (bits : n) : n list =
    let f = Int64.float_of_bits (Int64.of_string ("0x" ^ hex_of_n bits)) in
    codes_of_string (Printf.sprintf "%.17g" f)

  (* pugixml text().set(float): "%.9g" of the float (given as the double of the same value) *)
  let dtoa9_oracle (bits : n) : n list =
    let f = Int64.float_of_bits (Int64.of_string ("0x" ^ hex_of_n bits)) in
    codes_of_string (Printf.sprintf "%.9g" f)

  (* std::from_chars(double / float, general) on the text: the longest prefix that is a number ("inf", "nan" included).
     GCC 12 (fast_float): out of range = the result is infinite, or it is zero while the digits are not all zero.
     Returns (end of the number, is the mantissa zero) or None *)
  let scan_number (s : string) : (int * bool) option =
    let n = String.length s in
    let digit i = i < n && s.[i] >= '0' && s.[i] <= '9' in
    let rec digits i = if digit i then digits (i + 1) else i in
    let p0 = if n > 0 && s.[0] = '-' then 1 else 0 in
    let lower_at i w = i + String.length w <= n && String.lowercase_ascii (String.sub s i (String.length w)) = w in
    if lower_at p0 "infinity" then Some (p0 + 8, false)
    else if lower_at p0 "inf" then Some (p0 + 3, false)
    else if lower_at p0 "nan" then Some (p0 + 3, false)
    else begin
      let i1 = digits p0 in
      let (mant_end, has_digits) =
        if i1 < n && s.[i1] = '.' then (let i2 = digits (i1 + 1) in ((if i2 > i1 + 1 || i1 > p0 then i2 else i1), i2 > i1 + 1 || i1 > p0))
        else (i1, i1 > p0) in
      if not has_digits then None
      else begin
        let e =
          if mant_end < n && (s.[mant_end] = 'e' || s.[mant_end] = 'E') then begin
            let j = if mant_end + 1 < n && (s.[mant_end + 1] = '+' || s.[mant_end + 1] = '-') then mant_end + 2 else mant_end + 1 in
            let k = digits j in
            if k > j then k else mant_end
          end else mant_end in
        let zero = ref true in
        for i = p0 to mant_end - 1 do if s.[i] >= '1' && s.[i] <= '9' then zero := false done;
        Some (e, !zero)
      end
    end

  let named_special (s : string) = String.length s > 0 && (let c = if s.[0] = '-' && String.length s > 1 then s.[1] else s.[0] in c = 'i' || c = 'I' || c = 'n' || c = 'N')

  let xstrtod_oracle (text : n list) : n option option =
    let s = string_of_codes text in
    match scan_number s with
    | None -> None
    | Some (e, zero) ->
      (match float_of_string_opt (String.sub s 0 e) with
       | None -> None
       | Some f ->
         if not (named_special s) && (Float.abs f = Float.infinity || (f = 0.0 && not zero)) then Some None
         else Some (Some (n_of_int64_bits (Int64.bits_of_float f))))

  (* std::from_chars(float): %.9g of a float is read back as that float through the double as well *)
  let xstrtof_oracle (text : n list) : n option option =
    let s = string_of_codes text in
    match scan_number s with
    | None -> None
    | Some (e, zero) ->
      (match float_of_string_opt (String.sub s 0 e) with
       | None -> None
       | Some d ->
         let f = Int32.float_of_bits (Int32.bits_of_float d) in
         if not (named_special s) && (Float.abs f = Float.infinity || (f = 0.0 && not zero)) then Some None
         else Some (Some (n_of_int64_bits (Int64.bits_of_float f))))

  let key_opt (k : string) : n list option = if k = "-" then None else Some (codes_of_string k)

  let hexcps (l : n list) : string = "\"" ^ (try cps_to_utf8_hex l with Bad _ -> "??") ^ "\""
  let rec fmt_x (x : xnode) : string =
    match x with
    | XText s -> "[\"t\"," ^ hexcps s ^ "]"
    | XElem (n, a, ch) ->
      "[\"e\"," ^ hexcps n ^ ",[" ^ String.concat "," (List.map (fun (k, v) -> "[" ^ hexcps k ^ "," ^ hexcps v ^ "]") a) ^ "],[" ^
      String.concat "," (List.map fmt_x ch) ^ "]]"

  let chk enc bom idx rootkey value hex : string =
    let t = get_type idx in
    let v = parse_value value in
    if not (has_type t v) then "BAD-VALUE" else
    match save_xml dtoa17_oracle dtoa9_oracle (key_opt rootkey) t v with
    | None -> "UNSUPPORTED"
    | Some ideal ->
      if String.length hex < 2 || String.sub hex 0 2 <> "OK" then
        "DIFF the-model-saves-a-document-but-the-implementation-answered-" ^ (List.hd (String.split_on_char ' ' hex)) ^ " PROP fail:no-document"
      else begin
        let bytes = parse_hexbytes (String.sub hex 3 (String.length hex - 3)) in
        match decode enc bytes with
        | None -> "DIFF not-well-formed-" ^ enc ^ " PROP fail:encoding"
        | Some (had_bom, cps) ->
          let bom_ok = (had_bom = (bom = "1")) in
          (* XML 1.0 4.3.3: an entity in an encoding other than UTF-8 must start with a BOM or an encoding declaration *)
          let self_described = enc = "utf8" || had_bom || xml_declared_encoding cps <> None in
          match xml_parse_cps cps with
          | XOk d ->
            let d' = strip_fmt_ws d in
            let prop =
              if not bom_ok then "fail:bom"
              else if not (xnode_eqb d' (strip_fmt_ws ideal)) then "fail:dom-differs-from-the-value"
              else if not self_described then "fail:encoding-not-declared"
              else "ok" in
            let agree =
              if not bom_ok then "DIFF bom"
              else if xnode_eqb d' (strip_fmt_ws (saved_view ideal)) then "AGREE wf" else "DIFF dom" in
            agree ^ " PROP " ^ prop
          | _ -> "DIFF not-well-formed PROP fail:not-well-formed-xml"
      end

  (* pugixml: load_buffer(.., encoding_utf8) for memory; load(istream) auto-detects (BOM, or '<' patterns) *)
  let px_name = function Pe_utf8 -> "utf8" | Pe_utf16_le -> "utf16le" | Pe_utf16_be -> "utf16be" | Pe_utf32_le -> "utf32le" | Pe_utf32_be -> "utf32be"

  (* m.xdetect <hex>: the encoding px_detect finds and the text px_read hands to the parser *)
  let xdetect hex : string =
    let bytes = if hex = "-" then [] else parse_hexbytes hex in
    px_name (px_detect bytes) ^ " " ^ (match px_read bytes with Some cps -> "TEXT " ^ cps_to_utf8_hex cps | None -> "NOTEXT")

  let load medium enc idx rootkey pol hex : string =
    let t = get_type idx in
    let bytes = if hex = "-" then [] else parse_hexbytes hex in
    (* a stream: the encoding is what the extracted px_detect of coq/JxXmlDetect.v finds (the argument is ignored) *)
    ignore enc;
    let enc' = if medium = "mem" then "utf8" else px_name (px_detect bytes) in
    match decode enc' bytes with
    | None -> "DECODE-ERR"
    | Some (_, cps) -> fmt_outcome (load_xml_text xstrtod_oracle xstrtof_oracle (opts_of pol) (key_opt rootkey) t cps)

  let parse enc hex : string =
    let bytes = if hex = "-" then [] else parse_hexbytes hex in
    match decode enc bytes with
    | None -> "DECODE-ERR"
    | Some (_, cps) ->
      (match xml_parse_cps cps with
       | XOk d -> "DOM " ^ fmt_x d
       | XErr -> "REJECT"
       | XFuel -> "FUEL")

  let doc idx rootkey value : string =
    let t = get_type idx in
    let v = parse_value value in
    if not (has_type t v) then "BAD-VALUE" else
    match save_xml dtoa17_oracle dtoa9_oracle (key_opt rootkey) t v with
    | None -> "UNSUPPORTED"
    | Some d -> "DOC 1 " ^ cps_to_utf8_hex (xml_print_cps d)
end

(* ------------------------------------------------------------------ validation error paths *)
let get_vtype (idx : string) : vty =
  match List.nth_opt vcatalogue (int_of_string idx) with Some t -> t | None -> raise (Bad "vclass#")

let fmt_vout (r : vout) : string =
  match r with
  | VOk -> "OK"
  | VExc e -> "EXC:" ^ err_name e
  | VErrors m ->
    "VAL " ^ String.concat ";" (List.map (fun (p, ms) ->
      cps_to_utf8_hex p ^ ":" ^ String.concat "" (List.map (function MReq -> "R" | MRange -> "G") ms)) m)

(* m.val json: what the scopes report | what RFC 6901 pointers would be; m.val xml: what the scopes report *)
let val_op arch idx pol hex : string =
  let t = get_vtype idx in
  let bytes = if hex = "-" then [] else parse_hexbytes hex in
  match utf8_to_cps bytes with
  | None -> "DECODE-ERR"
  | Some cps ->
    if arch = "json" then begin
      let cps = if List.exists (fun c -> int_of_n c = 0) cps then cut_at_nul cps else cps in
      let (a, b) = vload_json_text strtod_oracle i2d_oracle (opts_of pol) t cps in
      fmt_vout a ^ " | " ^ fmt_vout b
    end else fmt_vout (vload_xml_text Xmlops.xstrtod_oracle Xmlops.xstrtof_oracle (opts_of pol) t cps)

(* ------------------------------------------------------------------ request histories on the scopes (C03) *)
(* m.hist <json|xml> <pol> <doc hex, UTF-8> <program>: the program syntax of jx.hist (harness/drv_jx.cpp) *)
let hist_op arch pol hex prog : string =
  let pos = ref 0 in
  let peek () = if !pos < String.length prog then prog.[!pos] else '\000' in
  let take () = let c = peek () in incr pos; c in
  let is_hex c = (c >= '0' && c <= '9') || (c >= 'a' && c <= 'f') in
  let key () =
    if take () <> '=' then raise (Bad "=");
    let st = !pos in
    while is_hex (peek ()) do incr pos done;
    let h = String.sub prog st (!pos - st) in
    match utf8_to_cps (if h = "" then [] else parse_hexbytes h) with Some k -> k | None -> raise (Bad "key not UTF-8") in
  let ty_of = function
    | 'b' -> TyBool | 'i' -> TyInt I32 | 'l' -> TyInt I64 | 'u' -> TyInt U64 | 'd' -> TyDbl | 's' -> TyStr | 'n' -> TyNull
    | _ -> raise (Bad "type") in
  let rec block () : req list =
    if take () <> '{' then raise (Bad "{");
    let acc = ref [] in
    while peek () <> '}' do
      let c = take () in
      let r =
        (match c with
         | 'g' -> let t = ty_of (take ()) in let k = key () in QGet (t, Some k)
         | 't' -> let t = ty_of (take ()) in let k = key () in QAttr (t, k)
         | 'o' -> let k = key () in QObj (Some k, block ())
         | 'a' -> let k = key () in QArr (Some k, block ())
         | 'k' -> QKeys
         | 'G' -> QGet (ty_of (take ()), None)
         | 'O' -> QObj (None, block ())
         | 'A' -> QArr (None, block ())
         | 'e' -> QEnd
         | _ -> raise (Bad "request")) in
      acc := r :: !acc;
      if peek () = ',' then incr pos
    done;
    incr pos;
    List.rev !acc in
  let root = take () in
  let h = block () in
  let arr = (match root with 'R' -> false | 'S' -> true | _ -> raise (Bad "root")) in
  let bytes = if hex = "-" then [] else parse_hexbytes hex in
  match utf8_to_cps bytes with
  | None -> "DECODE-ERR"
  | Some cps ->
    let (answers, e) =
      if arch = "json" then jhist_text strtod_oracle i2d_oracle (opts_of pol) arr cps h
      else xhist_text Xmlops.xstrtod_oracle Xmlops.xstrtof_oracle (opts_of pol) arr cps h in
    let fmt = function
      | ALoaded v -> "L" ^ fmt_value v
      | ANot -> "N"
      | AOpen b -> if b then "O1" else "O0"
      | AKeys ks -> "K[" ^ String.concat "." (List.map cps_to_utf8_hex ks) ^ "]"
      | AIsEnd b -> if b then "E1" else "E0"
      | ABad -> "B" in
    let parts = List.map fmt answers @ (match e with Some x -> ["EXC:" ^ err_name x] | None -> []) in
    if parts = [] then "-" else String.concat "," parts

(* ------------------------------------------------------------------ main *)
let run_case (line : string) : string =
  let t = Array.of_list (String.split_on_char ' ' line) in
  let n = Array.length t in
  try
    match t.(0), (if n > 1 then t.(1) else "") with
    | "m.hist", ("json" | "xml") when n = 5 -> hist_op t.(1) t.(2) t.(3) t.(4)
    | "m.detect", _ when n = 2 -> detect_op t.(1)
    | "m.xdetect", _ when n = 2 -> Xmlops.xdetect t.(1)
    | "m.val", ("json" | "xml") when n = 5 -> val_op t.(1) t.(2) t.(3) t.(4)
    | "m.chk", "json" when n = 8 -> json_chk t.(2) t.(3) t.(4) t.(6) (t.(7))
    | "m.chk", "json" when n = 9 -> json_chk t.(2) t.(3) t.(4) t.(6) (t.(7) ^ " " ^ t.(8))
    | "m.load", "json" when n = 8 -> json_load t.(2) t.(3) t.(4) t.(6) t.(7)
    | "m.parse", "json" when n = 4 -> json_parse_op t.(2) t.(3)
    | "m.doc", "json" when n = 5 -> json_doc t.(2) t.(4)
    | "m.chk", "xml" when n = 8 -> Xmlops.chk t.(2) t.(3) t.(4) t.(5) t.(6) (t.(7))
    | "m.chk", "xml" when n = 9 -> Xmlops.chk t.(2) t.(3) t.(4) t.(5) t.(6) (t.(7) ^ " " ^ t.(8))
    | "m.load", "xml" when n = 8 -> Xmlops.load t.(2) t.(3) t.(4) t.(5) t.(6) t.(7)
    | "m.parse", "xml" when n = 4 -> Xmlops.parse t.(2) t.(3)
    | "m.doc", "xml" when n = 5 -> Xmlops.doc t.(2) t.(3) t.(4)
    | _ -> "BAD-CASE"
  with
  | Bad w -> "BAD-SYNTAX " ^ w
  | Failure w -> "BAD-SYNTAX " ^ w
  | Invalid_argument w -> "BAD-SYNTAX " ^ w

let () =
  try
    while true do
      let line = input_line stdin in
      print_string (if line = "" then "" else run_case line);
      print_newline ()
    done
  with End_of_file -> ()
